import AkVerif.Lemmas.CHTextEval
import AkVerif.Lemmas.CHTextEq
import AkVerif.Lemmas.CHTextFormat
import AkVerif.Lemmas.CHTextHist
import AkVerif.Lemmas.CHTextMake
import AkVerif.Lemmas.CHTextSgr
/-!
# C08 — colored text behaves exactly like the underlying string

Property theorems only. `Text.cells : Text → List (Char × Colour)` is what a text shows (the
characters of its chunks, each with the colour of its chunk); the theorems say that every
operation of `CHText` / `CHText.Chunk` does to the cells what Python's `str` does to the characters
(`pySlice`, `pyIndex`, `pyJoin`, `pyFixedLen`, `pyPad` are Python's plain-sequence operations),
that the state invariant survives every operation, and that `==` on invariant-satisfying texts is
equality of cells. `eval_refines` puts it together for every typed operation tree.
-/
namespace C08
open CHText Ak

/-! ## Python's plain-sequence operations: what the specification functions mean -/

/-- `l[i:j]` is empty outside `lo ≤ k < hi` and has the items of `l` inside, where a negative bound
counts from the end and every bound is clamped into `[0, len]` (language reference, "Sequence
types", notes 3 and 4) -/
theorem pySlice_spec {α} (l : List α) (i j : Option Int) :
    (∀ k, (pySlice l i j)[k]? =
        if sliceLo l.length i + k < sliceHi l.length j then l[sliceLo l.length i + k]? else none) ∧
    (pySlice l i j).length = sliceHi l.length j - sliceLo l.length i ∧
    sliceLo l.length i ≤ l.length ∧ sliceHi l.length j ≤ l.length :=
  ⟨pySlice_getElem? l i j, pySlice_length l i j, sliceLo_le _ _, sliceHi_le _ _⟩

/-- the familiar special cases: `l[:]`, `l[:n]`, `l[n:]`, `l[-n:]` -/
theorem pySlice_cases {α} (l : List α) (n : Nat) :
    pySlice l none none = l ∧
    pySlice l none (some (n : Int)) = l.take n ∧
    pySlice l (some (n : Int)) none = l.drop n ∧
    (0 < n → pySlice l (some (-(n : Int))) none = l.drop (l.length - n)) :=
  ⟨pySlice_none_none l, pySlice_none_nat l n, pySlice_nat_none l n, pySlice_neg_none l n⟩

/-- `l[i]` raises (only `IndexError`) exactly for `i ≥ len` or `i < -len`, otherwise it is the item
counted from the start (`i ≥ 0`) or from the end -/
theorem pyIndex_spec {α} (l : List α) (i : Int) :
    ((∃ e, pyIndex l i = .error e) ↔ (i ≥ l.length ∨ i < -(l.length : Int))) ∧
    (∀ e, pyIndex l i = .error e → e = .indexError) ∧
    (∀ a, pyIndex l i = .ok a →
      (0 ≤ i ∧ l[i.toNat]? = some a) ∨ (i < 0 ∧ l[(i + l.length).toNat]? = some a)) :=
  ⟨pyIndex_error_iff l i, pyIndex_error_eq l i, fun a h => by
    rcases pyIndex_ok l i a h with h | h
    · exact Or.inl h
    · exact Or.inr ⟨h.1, h.2.2⟩⟩

/-! ## the invariant -/

/-- The invariant (no empty chunk, neighbouring chunks differ in colour, cached length = number of
visible characters) holds for the empty text and is preserved by every operation: `_append_chunk`,
`+=` with any operand, the constructor, `+`, reflected `+`, `join`, slicing, indexing,
`fixed_len` -/
theorem canon :
    Canon Text.empty ∧
    (∀ (t : Text) c, Canon t → Canon (appendChunk t c)) ∧
    (∀ (t : Text) p, Canon t → Canon (iadd t p)) ∧
    (∀ ps, Canon (construct ps)) ∧
    (∀ (t : Text) o, Canon (t.add o)) ∧
    (∀ self other, Canon (radd self other)) ∧
    (∀ sep ps, Canon (Text.join sep ps)) ∧
    (∀ (t : Text) i j, Canon (t.getSlice i j)) ∧
    (∀ (t r : Text) i, t.getIndex i = .ok r → Canon r) ∧
    (∀ (t : Text) n, Canon (t.fixedLen n)) ∧
    (∀ (c : Chunk) n, Canon (c.fixedLen n)) :=
  ⟨canon_empty, appendChunk_canon, iadd_canon, construct_canon, add_canon,
    fun _ _ => construct_canon _, join_canon, getSlice_canon, getIndex_canon,
    fixedLen_canon, fun c n => by
      unfold Chunk.fixedLen
      simp only []
      split
      · exact construct_canon _
      · split <;> exact construct_canon _⟩

/-- `len()` of a text satisfying the invariant is the number of visible characters, and
`plain_text()` (the characters of the cells) has that length -/
theorem len (t : Text) (h : Canon t) :
    t.scrlen = t.cells.length ∧ (t.cells.map (·.1)).length = t.scrlen := by
  have := h.2
  unfold LenOK at this
  simp [this]

/-- a list of cells has exactly one chunk list satisfying the invariant (`group` computes it) -/
theorem canon_repr (cells : Cells) :
    CanonChunks (group cells) ∧ cellsOf (group cells) = cells ∧
    ∀ cs, CanonChunks cs → cellsOf cs = cells → cs = group cells :=
  ⟨group_canon cells, cellsOf_group cells, fun cs h hc => by rw [← hc, group_cellsOf cs h]⟩

/-! ## refinement, one theorem per operation -/

/-- `t += x` (x a str, a chunk, a text, a possibly nested list or tuple of those): the cells of `x`
are appended, every character with the colour it had -/
theorem iadd_cells (t : Text) (p : Part) : (iadd t p).cells = t.cells ++ p.cells :=
  CHText.iadd_cells t p

/-- `CHText(*parts)` shows the parts one after the other -/
theorem construct_cells (ps : List Part) : (construct ps).cells = (ps.map Part.cells).flatten := by
  rw [CHText.construct_cells, cellsList_eq]

/-- `a + b` and the reflected `other + self` -/
theorem add_cells (t : Text) (o self other : Part) :
    (t.add o).cells = t.cells ++ o.cells ∧ (radd self other).cells = other.cells ++ self.cells :=
  ⟨CHText.add_cells t o, radd_cells self other⟩

/-- `t += t` and `t += [t]` (the operand is the target itself; the real method iterates over a
snapshot of the operand's chunks since fix 6257f6b, which is what a value means): the text twice.
`fixed_len` needs no such statement: it returns a value, and the real method a new object -/
theorem self_iadd (t : Text) (tp : Bool) :
    (iadd t (.text t)).cells = t.cells ++ t.cells ∧
    (iadd t (.list tp [.text t])).cells = t.cells ++ t.cells ∧
    (Canon t → Canon (iadd t (.text t)) ∧ Canon (iadd t (.list tp [.text t]))) := by
  refine ⟨by rw [CHText.iadd_cells]; rfl, ?_, fun h => ⟨iadd_canon _ _ h, iadd_canon _ _ h⟩⟩
  rw [CHText.iadd_cells]
  simp [Part.cells, Part.cellsList]

/-- `sep.join(items)` is `str.join` on the cells -/
theorem join_cells (sep : Text) (ps : List Part) :
    (sep.join ps).cells = pyJoin sep.cells (ps.map Part.cells) :=
  CHText.join_cells sep ps

/-- `text[i:j]` is `str` slicing on the cells: `None`, positive, negative, out-of-range bounds -/
theorem slice_cells (t : Text) (h : Canon t) (i j : Option Int) :
    (t.getSlice i j).cells = pySlice t.cells i j :=
  getSlice_cells t h.2 i j

/-- `text[i]` is `str` indexing on the cells: the one cell, or `IndexError` in exactly the cases in
which `str` raises it -/
theorem index_cells (t : Text) (h : Canon t) (i : Int) :
    (t.getIndex i).map Text.cells = (pyIndex t.cells i).map (fun x => [x]) ∧
    ((∃ e, t.getIndex i = .error e) ↔ (i ≥ t.cells.length ∨ i < -(t.cells.length : Int))) ∧
    (∀ e, t.getIndex i = .error e → e = .indexError) := by
  have hs := getIndex_spec t h.2 i
  refine ⟨?_, ?_, ?_⟩
  · rw [hs]; cases pyIndex t.cells i <;> simp [Except.map, cellText_cells]
  · rw [← pyIndex_error_iff, hs]
    cases pyIndex t.cells i <;> simp [Except.map]
  · intro e he
    rw [hs] at he
    cases hp : pyIndex t.cells i with
    | ok x => rw [hp] at he; cases he
    | error e' => rw [hp] at he; cases he; exact pyIndex_error_eq _ _ _ hp

/-- positions follow every `+=`, also one that merges into the last chunk and leaves the number of
chunks as it was (nothing about positions may be remembered per chunk count): after
`_append_chunk(c)` indexing and slicing are those of the old cells followed by the cells of `c` -/
theorem index_after_append (t : Text) (h : Canon t) (c : Chunk) (i : Int) (j k : Option Int) :
    ((appendChunk t c).getIndex i).map Text.cells = (pyIndex (t.cells ++ c.cells) i).map (fun x => [x]) ∧
    ((appendChunk t c).getSlice j k).cells = pySlice (t.cells ++ c.cells) j k ∧
    (∀ p, c.text ≠ [] → t.chunks.getLast? = some p → p.col = c.col →
      (appendChunk t c).chunks.length = t.chunks.length) := by
  have hc := appendChunk_canon t c h
  refine ⟨?_, ?_, ?_⟩
  · rw [← appendChunk_cells]; exact (index_cells _ hc i).1
  · rw [← appendChunk_cells]; exact slice_cells _ hc j k
  · intro p hne hlast hcol
    unfold appendChunk
    rw [if_neg hne]
    exact pushChunk_length_merge t.chunks c p hlast hcol

/-- `text.fixed_len(n)`: for `n ≥ 0` the first `n` cells, padded with default-coloured spaces
(`s[:n].ljust(n)`) -/
theorem fixedLen_cells (t : Text) (h : Canon t) (n : Nat) :
    (t.fixedLen n).cells = t.cells.take n ++ List.replicate (n - t.cells.length) (' ', 0) := by
  rw [CHText.fixedLen_cells t h.2, pyFixedLen_nat, spaces_eq]; simp [plainCells]

/-- the chunk versions (`Chunk.__getitem__`, `Chunk.fixed_len`) -/
theorem chunk_ops_cells (c : Chunk) (i : Int) (j k : Option Int) (n : Nat) :
    (c.getIndex i).map Chunk.cells = (pyIndex c.cells i).map (fun x => [x]) ∧
    (c.getSlice j k).cells = pySlice c.cells j k ∧
    (c.fixedLen n).cells = c.cells.take n ++ List.replicate (n - c.cells.length) (' ', 0) := by
  refine ⟨chunk_getIndex_spec c i, chunk_getSlice_cells c j k, ?_⟩
  rw [chunk_fixedLen_cells, pyFixedLen_nat, spaces_eq]; simp [plainCells]

/-- `format(text, spec)` for every spec `[[fill]align][width][s]` (width without leading zero): the
cells of the text padded as Python pads a `str`, pads in the default colour -/
theorem format_cells (t : Text) (h : Canon t) (sp : FmtSpec) (hv : sp.Valid) :
    t.format sp.render = .ok (pyPad (sp.fill, 0) sp.align sp.widthVal t.cells) :=
  CHText.format_cells t h.2 sp hv

/-- … hence the visible text of `format(text, spec)` is `format(plain_text, spec)` -/
theorem format_plain (t : Text) (h : Canon t) (sp : FmtSpec) (hv : sp.Valid) :
    (t.format sp.render).map (fun cells => cells.map (·.1)) =
      .ok (pyFormatStr (t.cells.map (·.1)) sp) := by
  rw [format_cells t h sp hv]
  simp only [Except.map, pyFormatStr, pyPad_map]

/-- the same with the width given as a number: `format(text, f"{fill}{align}{w}")` pads to `w`
(`Nat.toDigits 10 w` is the decimal numeral of `w`) -/
theorem format_width (t : Text) (h : Canon t) (fa : Option (Option Char × Align)) (w : Nat) (hw : 0 < w) (s : Bool) :
    let sp : FmtSpec := ⟨fa, Nat.toDigits 10 w, s⟩
    sp.Valid ∧ t.format sp.render = .ok (pyPad (sp.fill, 0) sp.align w t.cells) := by
  intro sp
  obtain ⟨h1, h2, h3⟩ := toDigits_width w hw
  have hv : sp.Valid := ⟨h1, h2⟩
  refine ⟨hv, ?_⟩
  rw [format_cells t h sp hv]
  simp only [FmtSpec.widthVal, sp, h3]

/-- the fill character is *any* character — a newline or another line separator, `{`, `}`, a digit
(also `0`: with an explicit align it is a fill, not the zero flag), one of the align characters
themselves, a character outside the BMP: `format(x, f + align + str(w) [+ "s"])` for a text and for a
chunk (`Chunk.__format__`) pads the cells to `w` with default-coloured `f`. The spec string is written
out here (no `FmtSpec` in the statement) -/
theorem format_fill (t : Text) (h : Canon t) (c : Chunk) (f : Char) (a : Align) (w : Nat) (hw : 0 < w) (s : Bool) :
    let spec := [f, a.char] ++ Nat.toDigits 10 w ++ (if s then ['s'] else [])
    pyFormat (.text t) spec = .ok (pyPad (f, 0) a w t.cells) ∧
    pyFormat (.chunk c) spec = .ok (pyPad (f, 0) a w c.cells) := by
  intro spec
  have hspec : spec = (FmtSpec.mk (some (some f, a)) (Nat.toDigits 10 w) s).render := by
    simp [spec, FmtSpec.render, FmtSpec.pre]
  refine ⟨?_, ?_⟩
  · simp only [pyFormat]
    rw [hspec]
    exact (format_width t h (some (some f, a)) w hw s).2
  · simp only [pyFormat]
    rw [hspec]
    have := (format_width (construct [.chunk c]) (construct_canon _) (some (some f, a)) w hw s).2
    rw [this, CHText.construct_cells]
    simp [Part.cellsList, Part.cells, FmtSpec.fill, FmtSpec.align]

/-- iteration (`list(text)`, `for ch in text`: Python's sequence protocol over `__getitem__`) yields
the one-character texts of the cells, in order, and terminates -/
theorem iter_cells (t : Text) (h : Canon t) :
    t.iter = .ok (t.cells.map cellText) ∧ ∀ x, (cellText x).cells = [x] ∧ Canon (cellText x) :=
  ⟨iter_spec t h.2, fun x => ⟨cellText_cells x, fromChunks_canon _⟩⟩

/-! ## equality -/

/-- two texts satisfying the invariant compare equal iff they show the same characters in the
same colours — however they were assembled -/
theorem eq_iff (a b : Text) (ha : Canon a) (hb : Canon b) : eqText a b = true ↔ a.cells = b.cells :=
  eqText_iff a b ha hb

/-- a text equals a plain string iff it shows exactly that string in the default colour -/
theorem eq_str_iff (t : Text) (h : Canon t) (s : List Char) : eqStr t s = true ↔ t.cells = plainCells s :=
  eqStr_iff t h s

/-- a text equals a chunk iff they show the same cells (an empty chunk of any colour equals the
empty text) -/
theorem eq_chunk_iff (t : Text) (h : Canon t) (c : Chunk) : eqChunk t c = true ↔ t.cells = c.cells :=
  eqChunk_iff t h c

/-- chunk against chunk / str, outside the stated exception (both sides empty) -/
theorem chunk_eq_iff (c d : Chunk) (s : List Char) :
    ((c.text ≠ [] ∨ d.text ≠ []) → ((c == d) = true ↔ c.cells = d.cells)) ∧
    ((c.text ≠ [] ∨ s ≠ []) → (c.eqStr s = true ↔ c.cells = plainCells s)) :=
  ⟨fun h => by rw [beq_iff_eq]; exact CHText.chunk_eq_iff c d h, chunk_eqStr_iff c s⟩

/-! ## all operation trees -/

/-- For every operation tree of the modelled fragment (`e.ty = some τ`: constructor, `+`, `+=`,
reflected `+` with str / list / tuple, `join` (also `sep.join(text)`: one item per character, whatever the
chunks are), `[i]`, `[i:j]`, `fixed_len`, `list(x)` over strings,
chunks, texts, nested lists and tuples, to any depth): either the model evaluates it to a value of type `τ`
in which every text satisfies the invariant and which shows exactly the cells that the same
operations give on plain sequences (`ref`), or both raise `IndexError`; never anything else. -/
theorem eval_refines (e : Expr) (τ : Ty) (h : e.ty = some τ) :
    (∃ p c, eval e = .ok p ∧ ref e = .ok c ∧ p.ty = τ ∧ p.Canon ∧ p.cells = c) ∨
    (eval e = .error (.py .indexError) ∧ ref e = .error .indexError) := by
  rcases (eval_sim e τ h).inv with hok | ⟨err, h1, h2⟩
  · exact Or.inl hok
  · have := ref_error e err h2
    subst this
    exact Or.inr ⟨h1, h2⟩

/-- in particular every text reachable by public operations satisfies the invariant and `len()`
is the number of characters shown -/
theorem reachable_canon (e : Expr) (τ : Ty) (h : e.ty = some τ) (t : Text) (he : eval e = .ok (.text t)) :
    Canon t ∧ t.scrlen = t.cells.length := by
  rcases eval_refines e τ h with ⟨p, c, h1, _, _, hc, _⟩ | ⟨h1, _⟩
  · rw [he] at h1; cases h1; exact ⟨hc, hc.2⟩
  · rw [he] at h1; cases h1

/-- `a == b` with Python's dispatch (`__eq__`, reflected `__eq__`), for every pair of operands of
the domain whose texts satisfy the invariant: `True` iff both show the same characters in the same
colours -/
theorem eq_parts (x y : Part) (hx : x.Canon) (hy : y.Canon) (hd : EqDomain x y) :
    ∃ b, pyEq x y = .ok b ∧ (b = true ↔ x.cells = y.cells) := by
  cases x <;> cases y <;> simp only [EqDomain] at hd <;> simp only [pyEq, Part.cells]
  · next s c => exact ⟨_, rfl, by rw [chunk_eqStr_iff c s hd]; exact eq_comm⟩
  · next s t => exact ⟨_, rfl, by rw [eqStr_iff t hy s]; exact eq_comm⟩
  · next c s => exact ⟨_, rfl, chunk_eqStr_iff c s hd⟩
  · next c d => exact ⟨_, rfl, by rw [beq_iff_eq]; exact CHText.chunk_eq_iff c d hd⟩
  · next c t => exact ⟨_, rfl, by rw [eqChunk_iff t hy c]; exact eq_comm⟩
  · next t s => exact ⟨_, rfl, eqStr_iff t hx s⟩
  · next t c => exact ⟨_, rfl, eqChunk_iff t hx c⟩
  · next a b => exact ⟨_, rfl, eqText_iff a b hx hy⟩

/-- `format(x, spec)` and `a == b` observed on the values of operation trees: the answers are the
answers for the reference cells -/
theorem eval_observe (a b : Expr) (τa τb : Ty) (ha : a.ty = some τa) (hb : b.ty = some τb)
    (x y : Part) (hea : eval a = .ok x) (heb : eval b = .ok y)
    (ca cb : Cells) (hra : ref a = .ok ca) (hrb : ref b = .ok cb) :
    (EqDomain x y → ∃ r, pyEq x y = .ok r ∧ (r = true ↔ ca = cb)) ∧
    (∀ sp : FmtSpec, sp.Valid → (τa = .text ∨ τa = .chunk) →
      pyFormat x sp.render = .ok (pyPad (sp.fill, 0) sp.align sp.widthVal ca)) := by
  have h1 := eval_sim a τa ha
  have h2 := eval_sim b τb hb
  rw [hea, hra] at h1
  rw [heb, hrb] at h2
  obtain ⟨htx, hcx, hcellx⟩ := h1
  obtain ⟨_, hcy, hcelly⟩ := h2
  refine ⟨?_, ?_⟩
  · intro hd
    rw [← hcellx, ← hcelly]
    exact eq_parts x y hcx hcy hd
  · intro sp hv hτ
    cases x with
    | text t => simp only [pyFormat]; rw [CHText.format_cells t hcx.2 sp hv, ← hcellx]; rfl
    | chunk c =>
      simp only [pyFormat]
      rw [CHText.format_cells _ (construct_canon _).2 sp hv, CHText.construct_cells, ← hcellx]
      simp [Part.cellsList, Part.cells]
    | str s => rw [← htx] at hτ; simp [Part.ty] at hτ
    | list tp ps => rw [← htx] at hτ; simp [Part.ty] at hτ

/-! ## `str()` and `format()` as strings: composition with the escape-sequence model of C09 -/

/-- `str(text)` for any text of the model (so: after any operations), with any formatters whose
sequences a terminal understands (`Palette.Shows`: C09 proves it for every constructible
`ColorFmt`): the terminal shows exactly the cells of the text, each character with the attributes
of the formatter it was created with, and ends in default state. `strip_colors(str(text))` is
`plain_text()` -/
theorem str_shows (P : Palette) (t : Text) (ht : NoEscText t) :
    (P.Shows → Sgr.interp (strOf P t) = some (t.cells.map (fun x => (x.1, P.attr x.2)), Sgr.Attr.default)) ∧
    (∀ k fin, P.Strippable k fin → Sgr.strip k fin (strOf P t) = t.cells.map (·.1)) := by
  constructor
  · intro hP
    have := run_strOf P hP t ht []
    simpa [Sgr.interp, Sgr.run, Sgr.prepend] using this
  · intro k fin hP
    have := strip_strOf P k fin hP t ht []
    simpa [Sgr.strip_nil] using this

/-- the hypotheses of `str_shows` are what C09 proves for the sequences of `ColorFmt`: for any
assignment of valid formatter arguments to the colour ids there is a palette made of the emitted
prefixes and suffixes which a terminal understands and `strip_colors` (any pattern class containing
the parameter characters, final `m`) removes -/
theorem palette_exists (specs : Colour → Sgr.Spec) (attrs : Colour → Sgr.Attr)
    (h : ∀ c, Sgr.wantedAttr (specs c) = some (attrs c)) :
    ∃ P : Palette, (∀ c, Sgr.mkSeq Sgr.std (specs c) = .ok (P.pre c, P.suf c)) ∧ P.attr = attrs ∧ P.Shows ∧
      ∀ (k : Sgr.CharClass) (fin : Char), (∀ c ∈ ';' :: Sgr.codeAlphabet, k.mem c = true) → fin = 'm' →
        k.mem fin = false → P.Strippable k fin := by
  have hex := fun c => Sgr.mkSeq_shows (specs c) (attrs c) (h c)
  refine ⟨⟨fun c => Classical.choose (hex c), fun c => Classical.choose (Classical.choose_spec (hex c)), attrs⟩,
    ?_, rfl, ?_, ?_⟩
  · intro c; exact (Classical.choose_spec (Classical.choose_spec (hex c))).1
  · intro c; exact (Classical.choose_spec (Classical.choose_spec (hex c))).2
  · intro k fin hk hfin hm c
    exact Sgr.mkSeq_strippable k fin hk hfin hm (specs c) _ _
      (Classical.choose_spec (Classical.choose_spec (hex c))).1

/-- `==` cannot be decided on the rendered strings: the rendering is not injective once characters
of a text may themselves be colour sequences (captured coloured output). Here a red `a` and the ten
default-coloured characters `ESC[31maESC[0m` have the same `str()`, satisfy the invariant, show
different cells — and the model's `==` (chunk-wise, `eq_iff`) tells them apart -/
theorem eq_not_by_rendering :
    ∃ (P : Palette) (a b : Text), Canon a ∧ Canon b ∧ strOf P a = strOf P b ∧ a.cells ≠ b.cells ∧
      eqText a b = false ∧ a.scrlen ≠ b.scrlen := by
  let esc := Char.ofNat 27
  refine ⟨⟨fun c => if c = 1 then [esc, '[', '3', '1', 'm'] else [], fun c => if c = 1 then [esc, '[', '0', 'm'] else [],
      fun _ => Sgr.Attr.default⟩,
    ⟨1, [⟨1, ['a']⟩]⟩, ⟨10, [⟨0, [esc, '[', '3', '1', 'm', 'a', esc, '[', '0', 'm']⟩]⟩, ?_, ?_, ?_, ?_, ?_, ?_⟩ <;>
    decide +kernel

/-- `strip_colors(format(text, spec))` is `format(plain_text, spec)` for every spec of the domain
whose fill character is not ESC -/
theorem format_str_strip (P : Palette) (k : Sgr.CharClass) (fin : Char) (hP : P.Strippable k fin)
    (t : Text) (h : Canon t) (ht : NoEscText t) (sp : FmtSpec) (hv : sp.Valid) (hf : sp.fill ≠ Sgr.ESC) :
    (formatStr P t sp.render).map (Sgr.strip k fin) = .ok (pyFormatStr (t.cells.map (·.1)) sp) := by
  have hrep : ∀ n, Sgr.NoEsc (List.replicate n sp.fill) := by
    intro n c hc
    rw [(List.mem_replicate.mp hc).2]; exact hf
  have hpad : ∀ n rest, Sgr.strip k fin (List.replicate n sp.fill ++ rest) =
      List.replicate n sp.fill ++ Sgr.strip k fin rest := fun n rest => Sgr.strip_text k fin _ rest (hrep n)
  have hend : ∀ n, Sgr.strip k fin (List.replicate n sp.fill) = List.replicate n sp.fill := by
    intro n
    have := hpad n []
    simpa [Sgr.strip_nil] using this
  unfold formatStr
  rw [formatPads_render sp hv, h.2]
  unfold pyFormatStr pyPad
  simp only [List.length_map]
  cases sp.align with
  | left =>
    simp only [Except.map, List.nil_append]
    rw [strip_strOf P k fin hP t ht, hend]
  | right =>
    simp only [Except.map, List.append_nil]
    rw [hpad, ← List.append_nil (strOf P t), strip_strOf P k fin hP t ht, Sgr.strip_nil, List.append_nil]
  | center =>
    simp only [Except.map, List.append_assoc]
    rw [hpad, strip_strOf P k fin hP t ht, hend]

/-! ## the chunk-list helpers used by the table printer -/

/-- `CHText.make(chunks)` ("optimized constructor for internal use") shows the chunks' cells with
a correct `len()` and neighbours of different colours; when no chunk is empty it satisfies the
invariant and *is* the text the public constructor builds — with an empty chunk it does not (the
empty chunk stays), which is why `make` is not a public operation of the property -/
theorem make_spec (cs : List Chunk) :
    (Text.make cs).cells = cellsOf cs ∧ LenOK (Text.make cs) ∧ NoAdjEq (Text.make cs).chunks ∧
    ((∀ c ∈ cs, c.text ≠ []) → Canon (Text.make cs) ∧ Text.make cs = fromChunks cs) :=
  ⟨make_cells cs, make_lenOK cs, mergeChunks_noAdj cs, make_eq_fromChunks cs⟩

/-- `CHText.resize_chunks_list(chunks, n)` for `n ≥ 0`: the first `n` cells padded with
default-coloured spaces, exactly `n` characters (`calc_chunks_len`); a negative `n` fails the
assertion -/
theorem resize_spec (cs : List Chunk) (n : Nat) (m : Int) (hm : m < 0) :
    (∃ r, resizeChunks cs (n : Int) = .ok r ∧
      cellsOf r = (cellsOf cs).take n ++ List.replicate (n - (cellsOf cs).length) (' ', 0) ∧
      calcChunksLen r = n) ∧
    resizeChunks cs m = .error .assertion ∧ calcChunksLen cs = (cellsOf cs).length :=
  ⟨resizeChunks_spec cs n, by simp [resizeChunks, hm], calcChunksLen_eq cs⟩

/-! ## histories over several objects (`Model/CHTextHist.lean`) -/

/-- One statement of a history (`o_n = CHText(..)`, `o_k += p`, `o_n = o_a + p`, `p + o_a`,
`o_a.join(..)`, `o_a[i:j]`, `o_a[i]`, `o_a.fixed_len(n)`, operands may mention any object, also the
target) on a store whose objects satisfy the invariant: what all objects show afterwards is what
the same statement gives on a store of plain sequences (same exceptions); all objects still satisfy
the invariant; and the statement wrote exactly one object — `+=` its target, every other statement
a new object at the end of the store (no operation returns or changes an operand). -/
theorem hist_step (st : Store) (s : Stmt) (hc : AllCanon st) :
    (exec st s).map cellsS = rexec (cellsS st) s ∧
    ∀ st', exec st s = .ok st' → AllCanon st' ∧ StmtFrame st st' s :=
  ⟨exec_cells st s hc, fun st' h => exec_inv st st' s hc h⟩

/-- … and whole histories from the empty store (a raising statement leaves the store alone and
the history goes on): after every statement every object shows what the plain sequences show and
satisfies the invariant. Nothing observed is remembered from an earlier state: `str`, `format`,
`plain_text`, `len` are functions of the current store -/
theorem hist_run (ss : List Stmt) :
    (run [] ss).map (fun r => r.map cellsS) = rrun [] ss ∧
    ∀ st', .ok st' ∈ run [] ss → AllCanon st' :=
  run_cells [] (fun _ h => by cases h) ss

/-- a list operand is consumed element by element and an object is read when its turn comes:
`t += [t, t]` leaves four copies of the text (the value reading `t + t + t` does not apply), while
`t += t` and `t += [t]` are the value reading (`self_iadd`) -/
theorem hist_self_twice (t : Text) (tp : Bool) :
    (sIadd [t] 0 (.list tp [.obj 0, .obj 0])).map cellsS =
      .ok [t.cells ++ t.cells ++ (t.cells ++ t.cells)] ∧
    (sIadd [t] 0 (.obj 0)).map cellsS = .ok [t.cells ++ t.cells] ∧
    (sIadd [t] 0 (.list tp [.obj 0])).map cellsS = .ok [t.cells ++ t.cells] := by
  refine ⟨?_, ?_, ?_⟩ <;> rw [sIadd_cells] <;>
    simp [rIadd, rIaddList, rGet, cellsS]

/-! ## non-vacuity: concrete trees evaluated by the kernel -/

/-- `(RED("ab") + "c")[-2:]` shows `b` in red and `c` in the default colour -/
example : (eval (.slice (.add (.chunk 1 "ab".toList) (.str "c".toList)) (some (-2)) none)).map Part.cells
    = .ok [('b', 1), ('c', 0)] := by decide +kernel
example : (Expr.slice (.add (.chunk 1 "ab".toList) (.str "c".toList)) (some (-2)) none).ty = some .text := by
  decide +kernel
/-- merging: `CHText(RED("a"), [RED("b"), ""], "c", "d")` has two chunks and length 4 -/
example : construct [.chunk ⟨1, ['a']⟩, .list false [.chunk ⟨1, ['b']⟩, .str []], .str ['c'], .str ['d']]
    = ⟨4, [⟨1, ['a', 'b']⟩, ⟨0, ['c', 'd']⟩]⟩ := by decide +kernel
example : Canon (construct [.chunk ⟨1, ['a']⟩, .chunk ⟨1, ['b']⟩, .str ['c']]) := by decide +kernel
/-- the invariant is not trivially true: an empty chunk or equal neighbours violate it -/
example : ¬ Canon ⟨1, [⟨1, ['a']⟩, ⟨0, []⟩]⟩ := by decide +kernel
example : ¬ Canon ⟨2, [⟨1, ['a']⟩, ⟨1, ['b']⟩]⟩ := by decide +kernel
/-- … and without it `==` does not follow the cells -/
example : eqText ⟨2, [⟨1, ['a']⟩, ⟨1, ['b']⟩]⟩ ⟨2, [⟨1, ['a', 'b']⟩]⟩ = false := by decide +kernel
/-- `IndexError` -/
example : (eval (.idx (.mk [.str "ab".toList]) 2)).map Part.cells = .error (.py .indexError) := by
  decide +kernel
example : (eval (.idx (.mk [.str "ab".toList]) (-2))).map Part.cells = .ok [('a', 0)] := by decide +kernel
/-- `list(CHText(RED("a"), "b"))` -/
example : (construct [.chunk ⟨1, ['a']⟩, .str ['b']]).iter = .ok [⟨1, [⟨1, ['a']⟩]⟩, ⟨1, [⟨0, ['b']⟩]⟩] := by
  decide +kernel
/-- `CHText(RED("ab")) == RED("ab")`, `CHText("ab") == "ab"`, `RED("") == ""` is outside `EqDomain` -/
example : EqDomain (.text (construct [.chunk ⟨1, ['a', 'b']⟩])) (.chunk ⟨1, ['a', 'b']⟩) ∧
    pyEq (.text (construct [.chunk ⟨1, ['a', 'b']⟩])) (.chunk ⟨1, ['a', 'b']⟩) = .ok true ∧
    pyEq (.str ['a', 'b']) (.text (construct [.str ['a'], .str ['b']])) = .ok true ∧
    ¬ EqDomain (.chunk ⟨1, []⟩) (.str []) := by
  refine ⟨trivial, by decide +kernel, by decide +kernel, ?_⟩
  simp [EqDomain]
/-- `make` keeps an empty chunk, the constructor drops it -/
example : Text.make [⟨1, ['a']⟩, ⟨1, ['b']⟩, ⟨2, []⟩] = ⟨2, [⟨1, ['a', 'b']⟩, ⟨2, []⟩]⟩ ∧
    fromChunks [⟨1, ['a']⟩, ⟨1, ['b']⟩, ⟨2, []⟩] = ⟨2, [⟨1, ['a', 'b']⟩]⟩ := by decide +kernel
/-- a history: `a = CHText(RED("x"), "y"); b = a + GREEN("z"); a += "w"; c = a[1:]; a += a` — `b` keeps
showing `xyz` -/
example : ((run [] [.new [.chunk ⟨1, ['x']⟩, .str ['y']], .add 0 (.chunk ⟨2, ['z']⟩), .iadd 0 (.str ['w']),
      .slice 0 (some 1) none, .iadd 0 (.obj 0)]).map (fun r => r.map cellsS)).getLast?
    = some (.ok [[('x', 1), ('y', 0), ('w', 0), ('x', 1), ('y', 0), ('w', 0)], [('x', 1), ('y', 0), ('z', 2)],
        [('y', 0), ('w', 0)]]) := by decide +kernel
/-- `f"{RED('ab') + 'c':*^7}"` -/
example : (FmtSpec.mk (some (some '*', .center)) ['7'] false).Valid := by
  refine ⟨?_, by decide⟩
  intro c hc
  simp only [List.mem_singleton] at hc
  subst hc
  decide
example : (FmtSpec.mk (some (some '*', .center)) ['7'] false).render = "*^7".toList := by decide +kernel
example : (construct [.chunk ⟨1, ['a', 'b']⟩, .str ['c']]).format "*^7".toList
    = .ok [('*', 0), ('*', 0), ('a', 1), ('b', 1), ('c', 0), ('*', 0), ('*', 0)] := by decide +kernel

/-- fills of every kind: newline, `{`, `0` with an explicit align, an align character, U+1F600 -/
example : (construct [.chunk ⟨1, ['a', 'b']⟩, .str ['c']]).format ['\n', '>', '5']
    = .ok [('\n', 0), ('\n', 0), ('a', 1), ('b', 1), ('c', 0)] := by decide +kernel
example : pyFormat (.chunk ⟨1, ['a', 'b']⟩) "{^5".toList
    = .ok [('{', 0), ('a', 1), ('b', 1), ('{', 0), ('{', 0)] := by decide +kernel
example : pyFormat (.chunk ⟨1, ['a', 'b']⟩) "0<4s".toList
    = .ok [('a', 1), ('b', 1), ('0', 0), ('0', 0)] := by decide +kernel
example : pyFormat (.chunk ⟨1, ['a', 'b']⟩) "<>10".toList
    = .ok ((List.replicate 8 ('<', 0)) ++ [('a', 1), ('b', 1)]) := by decide +kernel
example : pyFormat (.chunk ⟨1, ['a', 'b']⟩) [Char.ofNat 0x1F600, '<', '3']
    = .ok [('a', 1), ('b', 1), (Char.ofNat 0x1F600, 0)] := by decide +kernel
/-- OUTSIDE the property (zero flag, precision): the model follows the code, which does not do what `str` does -
`format(text, "05")` pads with blanks (`str`: with zeros), `".2"` is a ValueError (`str`: truncates) -/
example : pyFormat (.chunk ⟨1, ['a', 'b']⟩) "05".toList
    = .ok [('a', 1), ('b', 1), (' ', 0), (' ', 0), (' ', 0)] := by decide +kernel
example : pyFormat (.chunk ⟨1, ['a', 'b']⟩) ".2".toList = .error (.py .valueError) := by decide +kernel

end C08
