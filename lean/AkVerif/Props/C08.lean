import AkVerif.Model.CHText
namespace C08
end C08
