import AkVerif.Lemmas.TemplatesJsonEnd
/-!
C05 end to end, third part: `smart_factorization=False`. The factorised grammar is LL(1); the loop builds suffix nodes
(`LIST__S00`, `LIST__TAIL__S00`, `MAP__S00`, `MAP__ELEMENTS__S00`) and splices them into their parents.
-/
namespace Templates
open Ak LL LLT

def sLS : Sym := ⟨nm "LIST", [0]⟩
def sTS : Sym := ⟨nm "LIST" ++ tailSuffix, [0]⟩
def sMS : Sym := ⟨nm "MAP", [0]⟩
def sES : Sym := ⟨nm "MAP" ++ kvTailSuffix, [0]⟩

mutual
/-- the derivation tree of a value in the factorised grammar (before splicing) -/
def ftV : Syn → Tree Sym
  | .word s => .node (sy "VALUE") [.leaf (sy "WORD") s]
  | .list [] _ => .node (sy "VALUE") [.node (sy "LIST") [lf "[", .node sLS [lf "]"]]]
  | .list (x :: xs) fin =>
    .node (sy "VALUE") [.node (sy "LIST") [lf "[", .node sLS [ftV x, ftTail xs fin, lf "]"]]]
  | .map [] _ => .node (sy "VALUE") [.node (sy "MAP") [lf "{", .node sMS [lf "}"]]]
  | .map ((k, v) :: kvs) fin =>
    .node (sy "VALUE") [.node (sy "MAP")
      [lf "{", .node sMS [.node sKV [.leaf (sy "WORD") k, lf ":", ftV v], ftElems kvs fin, lf "}"]]]
def ftTail : List Syn → Bool → Tree Sym
  | [], false => .node sTAIL []
  | [], true => .node sTAIL [lf ",", .node sTS []]
  | x :: xs, fin => .node sTAIL [lf ",", .node sTS [ftV x, ftTail xs fin]]
def ftElems : List (List Char × Syn) → Bool → Tree Sym
  | [], false => .node sELEMS []
  | [], true => .node sELEMS [lf ",", .node sES []]
  | (k, v) :: kvs, fin =>
    .node sELEMS [lf ",", .node sES [.node sKV [.leaf (sy "WORD") k, lf ":", ftV v], ftElems kvs fin]]
end

/-- facts about the parser constructed with `smart_factorization=False` -/
structure JFactsF (G : Cfg Sym) : Prop where
  tE : ∀ t, t = sy "WORD" ∨ t = sy "[" ∨ t = sy "{" → G.table (sy "E") t = some [[sy "VALUE"]]
  tVw : G.table (sy "VALUE") (sy "WORD") = some [[sy "WORD"]]
  tVl : G.table (sy "VALUE") (sy "[") = some [[sy "LIST"]]
  tVm : G.table (sy "VALUE") (sy "{") = some [[sy "MAP"]]
  tL : G.table (sy "LIST") (sy "[") = some [[sy "[", sLS]]
  tLS0 : G.table sLS (sy "]") = some [[sy "]"]]
  tLS1 : ∀ t, t = sy "WORD" ∨ t = sy "[" ∨ t = sy "{" → G.table sLS t = some [[sy "VALUE", sTAIL, sy "]"]]
  tT1 : G.table sTAIL (sy ",") = some [[sy ",", sTS]]
  tT0 : G.table sTAIL (sy "]") = some [[]]
  tTS1 : ∀ t, t = sy "WORD" ∨ t = sy "[" ∨ t = sy "{" → G.table sTS t = some [[sy "VALUE", sTAIL]]
  tTS0 : G.table sTS (sy "]") = some [[]]
  tM : G.table (sy "MAP") (sy "{") = some [[sy "{", sMS]]
  tMS0 : G.table sMS (sy "}") = some [[sy "}"]]
  tMS1 : G.table sMS (sy "WORD") = some [[sKV, sELEMS, sy "}"]]
  tS1 : G.table sELEMS (sy ",") = some [[sy ",", sES]]
  tS0 : G.table sELEMS (sy "}") = some [[]]
  tES1 : G.table sES (sy "WORD") = some [[sKV, sELEMS]]
  tES0 : G.table sES (sy "}") = some [[]]
  tK : G.table sKV (sy "WORD") = some [[sy "WORD", sy ":", sy "VALUE"]]
  term : ∀ t, t ∈ [sy "WORD", sy ",", sy "[", sy "]", sy "{", sy "}", sy ":", endSym] → G.isTerm t = true
  nonterm : ∀ t, t ∈ [sy "E", sy "VALUE", sy "LIST", sy "MAP", sTAIL, sKV, sELEMS, sLS, sTS, sMS, sES] → G.isTerm t = false
  suf : ∀ t, t ∈ [sLS, sTS, sMS, sES] → G.isSuffix t = true
  nosuf : ∀ t, t ∈ [sy "VALUE", sy "LIST", sy "MAP", sTAIL, sKV, sELEMS, sy "WORD", sy ",", sy "[", sy "]", sy "{",
    sy "}", sy ":", endSym] → G.isSuffix t = false

def heads3 : List Sym := [sy "WORD", sy "[", sy "{"]

def jfactsFB (G : Cfg Sym) : Bool :=
  heads3.all (fun t => decide (G.table (sy "E") t = some [[sy "VALUE"]])) &&
  decide (G.table (sy "VALUE") (sy "WORD") = some [[sy "WORD"]]) &&
  decide (G.table (sy "VALUE") (sy "[") = some [[sy "LIST"]]) &&
  decide (G.table (sy "VALUE") (sy "{") = some [[sy "MAP"]]) &&
  decide (G.table (sy "LIST") (sy "[") = some [[sy "[", sLS]]) &&
  decide (G.table sLS (sy "]") = some [[sy "]"]]) &&
  heads3.all (fun t => decide (G.table sLS t = some [[sy "VALUE", sTAIL, sy "]"]])) &&
  decide (G.table sTAIL (sy ",") = some [[sy ",", sTS]]) &&
  decide (G.table sTAIL (sy "]") = some [[]]) &&
  heads3.all (fun t => decide (G.table sTS t = some [[sy "VALUE", sTAIL]])) &&
  decide (G.table sTS (sy "]") = some [[]]) &&
  decide (G.table (sy "MAP") (sy "{") = some [[sy "{", sMS]]) &&
  decide (G.table sMS (sy "}") = some [[sy "}"]]) &&
  decide (G.table sMS (sy "WORD") = some [[sKV, sELEMS, sy "}"]]) &&
  decide (G.table sELEMS (sy ",") = some [[sy ",", sES]]) &&
  decide (G.table sELEMS (sy "}") = some [[]]) &&
  decide (G.table sES (sy "WORD") = some [[sKV, sELEMS]]) &&
  decide (G.table sES (sy "}") = some [[]]) &&
  decide (G.table sKV (sy "WORD") = some [[sy "WORD", sy ":", sy "VALUE"]]) &&
  [sy "WORD", sy ",", sy "[", sy "]", sy "{", sy "}", sy ":", endSym].all (fun t => G.isTerm t) &&
  [sy "E", sy "VALUE", sy "LIST", sy "MAP", sTAIL, sKV, sELEMS, sLS, sTS, sMS, sES].all (fun t => !G.isTerm t) &&
  [sLS, sTS, sMS, sES].all (fun t => G.isSuffix t) &&
  [sy "VALUE", sy "LIST", sy "MAP", sTAIL, sKV, sELEMS, sy "WORD", sy ",", sy "[", sy "]", sy "{",
    sy "}", sy ":", endSym].all (fun t => !G.isSuffix t)

theorem heads3_mem {t : Sym} (h : t = sy "WORD" ∨ t = sy "[" ∨ t = sy "{") : t ∈ heads3 := by
  rcases h with rfl | rfl | rfl <;> simp [heads3]

theorem jfactsF_of_B (G : Cfg Sym) (h : jfactsFB G = true) : JFactsF G := by
  simp only [jfactsFB, Bool.and_eq_true, decide_eq_true_eq, List.all_eq_true] at h
  obtain ⟨⟨⟨⟨⟨⟨⟨⟨⟨⟨⟨⟨⟨⟨⟨⟨⟨⟨⟨⟨⟨⟨h1, h2⟩, h3⟩, h4⟩, h5⟩, h6⟩, h7⟩, h8⟩, h9⟩, h10⟩, h11⟩, h12⟩, h13⟩, h14⟩, h15⟩, h16⟩,
    h17⟩, h18⟩, h19⟩, h20⟩, h21⟩, h22⟩, h23⟩ := h
  refine ⟨?_, h2, h3, h4, h5, h6, ?_, h8, h9, ?_, h11, h12, h13, h14, h15, h16, h17, h18, h19, h20, ?_, h22, ?_⟩
  · intro t ht; simpa using h1 t (heads3_mem ht)
  · intro t ht; simpa using h7 t (heads3_mem ht)
  · intro t ht; simpa using h10 t (heads3_mem ht)
  · intro t ht; simpa using h21 t ht
  · intro t ht; simpa using h23 t ht

set_option maxRecDepth 100000 in
theorem jsonT_false_facts : ∀ T, jsonT false = .ok T → JFactsF T.ll.cfg ∧ T.seqSyms = [] ∧
    T.ll.start = sy "E" ∧ T.ll.skip = [sy "SPACE"] ∧ T.ll.syn = [] ∧ T.ll.kw = [] ∧ T.cl = jsonCl := by
  intro T hT
  have h : (match jsonT false with
      | .ok T => jfactsFB T.ll.cfg && decide (T.seqSyms = []) &&
          decide (T.ll.start = sy "E") && decide (T.ll.skip = [sy "SPACE"]) && decide (T.ll.syn = []) &&
          decide (T.ll.kw = []) && decide (T.cl = jsonCl)
      | .error _ => false) = true := by decide +kernel
  rw [hT] at h
  simp only [Bool.and_eq_true, decide_eq_true_eq] at h
  obtain ⟨⟨⟨⟨⟨⟨h1, h3⟩, h4⟩, h5⟩, h6⟩, h7⟩, h8⟩ := h
  exact ⟨jfactsF_of_B _ h1, h3, h4, h5, h6, h7, h8⟩

/-! yield -/

theorem yieldF_tail (xs : List Syn) (fin : Bool) (h : ∀ x ∈ xs, (ftV x).yield = toksV x) :
    (ftTail xs fin).yield = toksTail xs fin := by
  induction xs with
  | nil => cases fin <;> simp [ftTail, toksTail, Tree.yield, Tree.yieldList, yield_lf]
  | cons x xs ih =>
    simp [ftTail, toksTail, Tree.yield, Tree.yieldList, yield_lf, h x (by simp), ih (fun y hy => h y (by simp [hy]))]

theorem yieldF_elems (kvs : List (List Char × Syn)) (fin : Bool) (h : ∀ kv ∈ kvs, (ftV kv.2).yield = toksV kv.2) :
    (ftElems kvs fin).yield = toksElems kvs fin := by
  induction kvs with
  | nil => cases fin <;> simp [ftElems, toksElems, Tree.yield, Tree.yieldList, yield_lf]
  | cons kv kvs ih =>
    obtain ⟨k, v⟩ := kv
    simp [ftElems, toksElems, Tree.yield, Tree.yieldList, yield_lf, h (k, v) (by simp),
      ih (fun y hy => h y (by simp [hy]))]

theorem yieldF_V : ∀ s : Syn, (ftV s).yield = toksV s
  | .word s => by simp [ftV, toksV, Tree.yield, Tree.yieldList]
  | .list [] _ => by simp [ftV, toksV, Tree.yield, Tree.yieldList, yield_lf]
  | .list (x :: xs) fin => by
    have hx := yieldF_V x
    have ht := yieldF_tail xs fin (fun y hy => yieldF_V y)
    simp [ftV, toksV, Tree.yield, Tree.yieldList, yield_lf, hx, ht]
  | .map [] _ => by simp [ftV, toksV, Tree.yield, Tree.yieldList, yield_lf]
  | .map ((k, v) :: kvs) fin => by
    have hv := yieldF_V v
    have he := yieldF_elems kvs fin (fun kv hkv => yieldF_V kv.2)
    simp [ftV, toksV, Tree.yield, Tree.yieldList, yield_lf, hv, he]
termination_by s => sizeOf s
decreasing_by
  all_goals simp_wf
  all_goals (try (have h1 := List.sizeOf_lt_of_mem hy; first | omega | (simp at h1; omega)))
  all_goals (try (have h1 := List.sizeOf_lt_of_mem hkv; have h2 : sizeOf kv.2 < sizeOf kv := by cases kv; simp; omega
                  first | omega | (simp at h1; omega)))
  all_goals (try omega)

/-! splicing gives the user-level tree -/

theorem fin_lf (G : Cfg Sym) (s : String) : fin G (lf s) = lf s := by simp [lf, fin]

theorem ftV_name (s : Syn) : (ftV s).name = sy "VALUE" := by
  cases s with
  | word s => rw [ftV]; rfl
  | list xs fin => cases xs <;> (rw [ftV]; rfl)
  | map kvs fin =>
    cases kvs with
    | nil => rw [ftV]; rfl
    | cons kv kvs => obtain ⟨k, v⟩ := kv; rw [ftV]; rfl

theorem ftTail_name (xs : List Syn) (fin : Bool) : (ftTail xs fin).name = sTAIL := by
  cases xs with
  | nil => cases fin <;> (rw [ftTail]; rfl)
  | cons x xs => rw [ftTail]; rfl

theorem ftElems_name (kvs : List (List Char × Syn)) (fin : Bool) : (ftElems kvs fin).name = sELEMS := by
  cases kvs with
  | nil => cases fin <;> (rw [ftElems]; rfl)
  | cons kv kvs => obtain ⟨k, v⟩ := kv; rw [ftElems]; rfl

theorem tn_leaf (n : Sym) (v : List Char) : (Tree.leaf n v).name = n := rfl
theorem tn_node (n : Sym) (cs : List (Tree Sym)) : (Tree.node n cs).name = n := rfl
theorem tc_node (n : Sym) (cs : List (Tree Sym)) : (Tree.node n cs).children = cs := rfl

theorem fin_tail (G : Cfg Sym) (F : JFactsF G) (xs : List Syn) (fin' : Bool) (h : ∀ x ∈ xs, fin G (ftV x) = utV x) :
    fin G (ftTail xs fin') = utTail xs fin' := by
  induction xs with
  | nil =>
    cases fin' with
    | false => simp [ftTail, utTail, fin, finL, splice]
    | true =>
      simp [ftTail, utTail, fin, finL, splice, lf, tn_leaf, tn_node, tc_node, F.suf sTS (by simp)]
  | cons x xs ih =>
    have hx := h x (by simp)
    have ht := ih (fun y hy => h y (by simp [hy]))
    simp [ftTail, utTail, fin, finL, splice, lf, tn_leaf, tn_node, tc_node, F.suf sTS (by simp), hx, ht,
      ftV_name, ftTail_name, F.nosuf sTAIL (by simp)]

theorem fin_kv (G : Cfg Sym) (F : JFactsF G) (k : List Char) (v : Syn) (h : fin G (ftV v) = utV v) :
    fin G (.node sKV [.leaf (sy "WORD") k, lf ":", ftV v]) = .node sKV [.leaf (sy "WORD") k, lf ":", utV v] := by
  simp [fin, finL, splice, lf, tn_leaf, tn_node, tc_node, h, ftV_name, F.nosuf (sy "VALUE") (by simp)]

theorem fin_elems (G : Cfg Sym) (F : JFactsF G) (kvs : List (List Char × Syn)) (fin' : Bool)
    (h : ∀ kv ∈ kvs, fin G (ftV kv.2) = utV kv.2) : fin G (ftElems kvs fin') = utElems kvs fin' := by
  induction kvs with
  | nil =>
    cases fin' with
    | false => simp [ftElems, utElems, fin, finL, splice]
    | true =>
      simp [ftElems, utElems, fin, finL, splice, lf, tn_leaf, tn_node, tc_node, F.suf sES (by simp)]
  | cons kv kvs ih =>
    obtain ⟨k, v⟩ := kv
    have hv := fin_kv G F k v (h (k, v) (by simp))
    have ht := ih (fun y hy => h y (by simp [hy]))
    rw [ftElems, utElems, fin, finL, finL, finL, fin, finL, finL, finL, hv, ht]
    simp [splice, lf, fin, tn_leaf, tn_node, tc_node, F.suf sES (by simp), ftElems_name, F.nosuf sELEMS (by simp)]

theorem fin_V (G : Cfg Sym) (F : JFactsF G) : ∀ s : Syn, fin G (ftV s) = utV s
  | .word s => by simp [ftV, utV, fin, finL, splice, tn_leaf, F.nosuf (sy "WORD") (by simp)]
  | .list [] _ => by
    simp [ftV, utV, fin, finL, splice, lf, tn_leaf, tn_node, tc_node, F.suf sLS (by simp), F.nosuf (sy "LIST") (by simp),
      F.nosuf (sy "]") (by simp)]
  | .list (x :: xs) fin' => by
    have hx := fin_V G F x
    have ht := fin_tail G F xs fin' (fun y hy => fin_V G F y)
    rw [ftV, utV, fin, finL, finL, fin, finL, finL, finL, fin, finL, finL, finL, finL, hx, ht]
    simp [splice, lf, fin, tn_leaf, tn_node, tc_node, F.suf sLS (by simp), F.nosuf (sy "LIST") (by simp),
      F.nosuf (sy "]") (by simp), ftV_name, ftTail_name]
  | .map [] _ => by
    simp [ftV, utV, fin, finL, splice, lf, tn_leaf, tn_node, tc_node, F.suf sMS (by simp), F.nosuf (sy "MAP") (by simp),
      F.nosuf (sy "}") (by simp)]
  | .map ((k, v) :: kvs) fin' => by
    have hv := fin_kv G F k v (fin_V G F v)
    have ht := fin_elems G F kvs fin' (fun kv hkv => fin_V G F kv.2)
    rw [ftV, utV, fin, finL, finL, fin, finL, finL, finL, fin, finL, finL, finL, finL, hv, ht]
    simp [splice, lf, fin, tn_leaf, tn_node, tc_node, F.suf sMS (by simp), F.nosuf (sy "MAP") (by simp),
      F.nosuf (sy "}") (by simp), ftElems_name]
termination_by s => sizeOf s
decreasing_by
  all_goals simp_wf
  all_goals (try (have h1 := List.sizeOf_lt_of_mem hy; first | omega | (simp at h1; omega)))
  all_goals (try (have h1 := List.sizeOf_lt_of_mem hkv; have h2 : sizeOf kv.2 < sizeOf kv := by cases kv; simp; omega
                  first | omega | (simp at h1; omega)))
  all_goals (try omega)

/-! every node of the factorised tree is predicted (the table is LL(1): always the only alternative) -/

theorem look_nil (nx : Sym) : look ([] : List (Tok Sym)) nx = nx := rfl

theorem predF_lf (G : Cfg Sym) (F : JFactsF G) (s : String) (nx : Sym)
    (h : sy s ∈ [sy "WORD", sy ",", sy "[", sy "]", sy "{", sy "}", sy ":", endSym]) : Pred G (lf s) nx := by
  simp only [lf, Pred]
  exact F.term _ h

theorem look_toksV (s : Syn) (r : List (Tok Sym)) (nx : Sym) :
    look (toksV s ++ r) nx = sy "WORD" ∨ look (toksV s ++ r) nx = sy "[" ∨ look (toksV s ++ r) nx = sy "{" := by
  obtain ⟨t0, r0, ht0, ht0n⟩ := toksV_head s
  simpa [ht0, look] using ht0n

theorem predF_tail (G : Cfg Sym) (F : JFactsF G) (xs : List Syn) (fin' : Bool)
    (h : ∀ x ∈ xs, ∀ nx, Fol nx → Pred G (ftV x) nx) : Pred G (ftTail xs fin') (sy "]") := by
  induction xs with
  | nil =>
    cases fin' with
    | false =>
      rw [ftTail, Pred]
      refine ⟨F.nonterm _ (by simp), ⟨_, 0, by simpa [Tree.yieldList, look] using F.tT0, rfl, by intro i hi; omega⟩, ?_⟩
      simp [PredL]
    | true =>
      rw [ftTail, Pred]
      refine ⟨F.nonterm _ (by simp), ⟨_, 0, by simpa [Tree.yieldList, Tree.yield, yield_lf, look, tk] using F.tT1, rfl,
        by intro i hi; omega⟩, ?_⟩
      simp only [PredL, and_true]
      refine ⟨predF_lf G F "," _ (by simp), ?_⟩
      rw [Pred]
      refine ⟨F.nonterm _ (by simp), ⟨_, 0, by simpa [Tree.yieldList, look] using F.tTS0, rfl, by intro i hi; omega⟩, ?_⟩
      simp [PredL]
  | cons x xs ih =>
    have hx := h x (by simp)
    have ht := ih (fun y hy => h y (by simp [hy]))
    have hyt := yieldF_tail xs fin' (fun y _ => yieldF_V y)
    rw [ftTail, Pred]
    refine ⟨F.nonterm _ (by simp), ⟨_, 0, by simpa [Tree.yieldList, Tree.yield, yield_lf, look, tk] using F.tT1, rfl,
      by intro i hi; omega⟩, ?_⟩
    simp only [PredL, and_true]
    refine ⟨predF_lf G F "," _ (by simp), ?_⟩
    rw [Pred]
    refine ⟨F.nonterm _ (by simp), ⟨[[sy "VALUE", sTAIL]], 0, ?_, by simp only [List.map, ftV_name, ftTail_name]; rfl,
      by intro i hi; omega⟩, ?_⟩
    · simp only [Tree.yieldList, yieldF_V, hyt, List.append_nil]
      exact F.tTS1 _ (look_toksV x _ _)
    · simp only [PredL, and_true]
      refine ⟨?_, ?_⟩
      · apply hx
        simp only [Tree.yieldList, hyt, List.append_nil]
        rcases toksTail_look xs fin' [] (look ([] : List (Tok Sym)) (sy "]")) with ⟨h0, _, _⟩ | h1
        · simp [h0, look, Fol]
        · simp at h1; simp [h1, Fol]
      · simpa [Tree.yieldList, look] using ht

def ftKV (k : List Char) (v : Syn) : Tree Sym := .node sKV [.leaf (sy "WORD") k, lf ":", ftV v]

theorem predF_kv (G : Cfg Sym) (F : JFactsF G) (k : List Char) (v : Syn) (nx : Sym) (hnx : Fol nx)
    (hv : ∀ nx, Fol nx → Pred G (ftV v) nx) : Pred G (ftKV k v) nx := by
  rw [ftKV, Pred]
  refine ⟨F.nonterm _ (by simp), ⟨_, 0, by simpa [Tree.yieldList, Tree.yield, look] using F.tK,
    by simp only [List.map, ftV_name]; rfl, by intro i hi; omega⟩, ?_⟩
  simp only [PredL, and_true]
  refine ⟨by simp only [Pred]; exact F.term _ (by simp), predF_lf G F ":" _ (by simp), ?_⟩
  apply hv
  simpa [Tree.yieldList, look] using hnx

theorem ftKV_yield_look (k : List Char) (v : Syn) (r : List (Tok Sym)) (nx : Sym) :
    look ((ftKV k v).yield ++ r) nx = sy "WORD" := by
  simp [ftKV, Tree.yield, Tree.yieldList, look]

theorem predF_elems (G : Cfg Sym) (F : JFactsF G) (kvs : List (List Char × Syn)) (fin' : Bool)
    (h : ∀ kv ∈ kvs, ∀ nx, Fol nx → Pred G (ftV kv.2) nx) : Pred G (ftElems kvs fin') (sy "}") := by
  induction kvs with
  | nil =>
    cases fin' with
    | false =>
      rw [ftElems, Pred]
      refine ⟨F.nonterm _ (by simp), ⟨_, 0, by simpa [Tree.yieldList, look] using F.tS0, rfl, by intro i hi; omega⟩, ?_⟩
      simp [PredL]
    | true =>
      rw [ftElems, Pred]
      refine ⟨F.nonterm _ (by simp), ⟨_, 0, by simpa [Tree.yieldList, Tree.yield, yield_lf, look, tk] using F.tS1, rfl,
        by intro i hi; omega⟩, ?_⟩
      simp only [PredL, and_true]
      refine ⟨predF_lf G F "," _ (by simp), ?_⟩
      rw [Pred]
      refine ⟨F.nonterm _ (by simp), ⟨_, 0, by simpa [Tree.yieldList, look] using F.tES0, rfl, by intro i hi; omega⟩, ?_⟩
      simp [PredL]
  | cons kv kvs ih =>
    obtain ⟨k, v⟩ := kv
    have hv := h (k, v) (by simp)
    have ht := ih (fun y hy => h y (by simp [hy]))
    have hyt := yieldF_elems kvs fin' (fun y _ => yieldF_V y.2)
    rw [ftElems, Pred]
    refine ⟨F.nonterm _ (by simp), ⟨_, 0, by simpa [Tree.yieldList, Tree.yield, yield_lf, look, tk] using F.tS1, rfl,
      by intro i hi; omega⟩, ?_⟩
    simp only [PredL, and_true]
    refine ⟨predF_lf G F "," _ (by simp), ?_⟩
    rw [Pred]
    refine ⟨F.nonterm _ (by simp), ⟨[[sKV, sELEMS]], 0, ?_, by simp only [List.map, ftElems_name]; rfl,
      by intro i hi; omega⟩, ?_⟩
    · have := ftKV_yield_look k v ((ftElems kvs fin').yield ++ []) (look ([] : List (Tok Sym)) (sy "}"))
      simp only [ftKV] at this
      simp only [Tree.yieldList]
      rw [this]
      exact F.tES1
    · simp only [PredL, and_true]
      refine ⟨?_, ?_⟩
      · apply predF_kv G F k v _ _ hv
        simp only [Tree.yieldList, hyt, List.append_nil]
        rcases toksElems_look kvs fin' [] (look ([] : List (Tok Sym)) (sy "}")) with ⟨h0, _, _⟩ | h1
        · simp [h0, look, Fol]
        · simp at h1; simp [h1, Fol]
      · simpa [Tree.yieldList, look] using ht

theorem predF_V (G : Cfg Sym) (F : JFactsF G) : ∀ (s : Syn) (nx : Sym), Fol nx → Pred G (ftV s) nx
  | .word s, nx, hnx => by
    rw [ftV, Pred]
    refine ⟨F.nonterm _ (by simp), ⟨_, 0, by simpa [Tree.yieldList, Tree.yield, look] using F.tVw, rfl,
      by intro i hi; omega⟩, ?_⟩
    simp only [PredL, and_true, Pred]
    exact F.term _ (by simp)
  | .list [] fin', nx, hnx => by
    rw [ftV, Pred]
    refine ⟨F.nonterm _ (by simp), ⟨_, 0, by simpa [Tree.yieldList, Tree.yield, yield_lf, look, tk] using F.tVl, rfl,
      by intro i hi; omega⟩, ?_⟩
    simp only [PredL, and_true]
    rw [Pred]
    refine ⟨F.nonterm _ (by simp), ⟨_, 0, by simpa [Tree.yieldList, Tree.yield, yield_lf, look, tk] using F.tL, rfl,
      by intro i hi; omega⟩, ?_⟩
    simp only [PredL, and_true]
    refine ⟨predF_lf G F "[" _ (by simp), ?_⟩
    rw [Pred]
    refine ⟨F.nonterm _ (by simp), ⟨_, 0, by simpa [Tree.yieldList, yield_lf, look, tk] using F.tLS0, rfl,
      by intro i hi; omega⟩, ?_⟩
    simp only [PredL, and_true]
    exact predF_lf G F "]" _ (by simp)
  | .list (x :: xs) fin', nx, hnx => by
    have hx := predF_V G F x
    have ht := predF_tail G F xs fin' (fun y hy => predF_V G F y)
    have hyt := yieldF_tail xs fin' (fun y _ => yieldF_V y)
    rw [ftV, Pred]
    refine ⟨F.nonterm _ (by simp), ⟨_, 0, by simpa [Tree.yieldList, Tree.yield, yield_lf, look, tk] using F.tVl, rfl,
      by intro i hi; omega⟩, ?_⟩
    simp only [PredL, and_true]
    rw [Pred]
    refine ⟨F.nonterm _ (by simp), ⟨_, 0, by simpa [Tree.yieldList, Tree.yield, yield_lf, look, tk] using F.tL, rfl,
      by intro i hi; omega⟩, ?_⟩
    simp only [PredL, and_true]
    refine ⟨predF_lf G F "[" _ (by simp), ?_⟩
    rw [Pred]
    refine ⟨F.nonterm _ (by simp), ⟨[[sy "VALUE", sTAIL, sy "]"]], 0, ?_,
      by simp only [List.map, ftV_name, ftTail_name]; rfl, by intro i hi; omega⟩, ?_⟩
    · simp only [Tree.yieldList, yieldF_V, hyt, yield_lf, List.append_nil]
      exact F.tLS1 _ (look_toksV x _ _)
    · simp only [PredL, and_true]
      refine ⟨?_, ?_, predF_lf G F "]" _ (by simp)⟩
      · apply hx
        simp only [Tree.yieldList, hyt, yield_lf, List.append_nil, look_nil]
        rcases toksTail_look xs fin' [tk "]"] nx with ⟨h0, _, _⟩ | h1
        · simp [h0, look, Fol, tk]
        · simp [h1, Fol]
      · simpa [Tree.yieldList, yield_lf, look, tk] using ht
  | .map [] fin', nx, hnx => by
    rw [ftV, Pred]
    refine ⟨F.nonterm _ (by simp), ⟨_, 0, by simpa [Tree.yieldList, Tree.yield, yield_lf, look, tk] using F.tVm, rfl,
      by intro i hi; omega⟩, ?_⟩
    simp only [PredL, and_true]
    rw [Pred]
    refine ⟨F.nonterm _ (by simp), ⟨_, 0, by simpa [Tree.yieldList, Tree.yield, yield_lf, look, tk] using F.tM, rfl,
      by intro i hi; omega⟩, ?_⟩
    simp only [PredL, and_true]
    refine ⟨predF_lf G F "{" _ (by simp), ?_⟩
    rw [Pred]
    refine ⟨F.nonterm _ (by simp), ⟨_, 0, by simpa [Tree.yieldList, yield_lf, look, tk] using F.tMS0, rfl,
      by intro i hi; omega⟩, ?_⟩
    simp only [PredL, and_true]
    exact predF_lf G F "}" _ (by simp)
  | .map ((k, v) :: kvs) fin', nx, hnx => by
    have hv := predF_V G F v
    have ht := predF_elems G F kvs fin' (fun kv hkv => predF_V G F kv.2)
    have hyt := yieldF_elems kvs fin' (fun y _ => yieldF_V y.2)
    rw [ftV, Pred]
    refine ⟨F.nonterm _ (by simp), ⟨_, 0, by simpa [Tree.yieldList, Tree.yield, yield_lf, look, tk] using F.tVm, rfl,
      by intro i hi; omega⟩, ?_⟩
    simp only [PredL, and_true]
    rw [Pred]
    refine ⟨F.nonterm _ (by simp), ⟨_, 0, by simpa [Tree.yieldList, Tree.yield, yield_lf, look, tk] using F.tM, rfl,
      by intro i hi; omega⟩, ?_⟩
    simp only [PredL, and_true]
    refine ⟨predF_lf G F "{" _ (by simp), ?_⟩
    rw [Pred]
    refine ⟨F.nonterm _ (by simp), ⟨[[sKV, sELEMS, sy "}"]], 0, ?_,
      by simp only [List.map, ftElems_name]; rfl, by intro i hi; omega⟩, ?_⟩
    · have := ftKV_yield_look k v ((ftElems kvs fin').yield ++ ((lf "}").yield ++ [])) nx
      simp only [ftKV] at this
      simp only [Tree.yieldList, look_nil]
      rw [this]
      exact F.tMS1
    · simp only [PredL, and_true]
      refine ⟨?_, ?_, predF_lf G F "}" _ (by simp)⟩
      · apply predF_kv G F k v _ _ hv
        simp only [Tree.yieldList, hyt, yield_lf, List.append_nil, look_nil]
        rcases toksElems_look kvs fin' [tk "}"] nx with ⟨h0, _, _⟩ | h1
        · simp [h0, look, Fol, tk]
        · simp [h1, Fol]
      · simpa [Tree.yieldList, yield_lf, look, tk] using ht
termination_by s => sizeOf s
decreasing_by
  all_goals simp_wf
  all_goals (try (have h1 := List.sizeOf_lt_of_mem hy; first | omega | (simp at h1; omega)))
  all_goals (try (have h1 := List.sizeOf_lt_of_mem hkv; have h2 : sizeOf kv.2 < sizeOf kv := by cases kv; simp; omega
                  first | omega | (simp at h1; omega)))
  all_goals (try omega)

theorem predF_root (G : Cfg Sym) (F : JFactsF G) (s : Syn) : Pred G (.node (sy "E") [ftV s]) endSym := by
  rw [Pred]
  refine ⟨F.nonterm _ (by simp), ⟨[[sy "VALUE"]], 0, ?_, by simp only [List.map, ftV_name]; rfl,
    by intro i hi; omega⟩, ?_⟩
  · simp only [Tree.yieldList, yieldF_V]
    exact F.tE _ (look_toksV s _ _)
  · simp only [PredL, and_true]
    exact predF_V G F s _ (Or.inr (Or.inr (Or.inr rfl)))

/-- **End to end, `smart_factorization=False`.** -/
theorem json_end_to_end_plain (T : TParser) (hT : jsonT false = .ok T) (s : Syn) (raw : List (Name × List Char))
    (hraw : Lex raw (toksV s)) :
    ∃ (k : Nat) (r : El × Bool), entry r.1 = pyval s.data ∧ ∀ fuel, k ≤ fuel →
      T.parseRaw raw fuel = .ok (.elem (nm "E") false (.list [toValP (utV s)])) ∧
      T.parseClean raw fuel = .ok (.elem (nm "E") false (.list [r.1.toVal])) := by
  obtain ⟨F, hseq, hstart, hskip, hsyn, hkw, hcl⟩ := jsonT_false_facts T hT
  have htoks := tokens_lex T.ll hsyn hkw hskip hraw (toksV_names s)
  let R : Tree Sym := .node (sy "E") [ftV s]
  have hy : R.yield = toksV s := by simp [R, Tree.yield, Tree.yieldList, yieldF_V]
  obtain ⟨k, hk⟩ := run_pred T.ll.cfg startSym (sy "E") endSym ⟨endSym, []⟩ rfl (F.term _ (by simp)) R
    (predF_root _ F s) rfl
  have hfin : fin T.ll.cfg R = .node (sy "E") [utV s] := by
    simp [R, fin, finL, fin_V _ F s, splice, ftV_name, F.nosuf (sy "VALUE") (by simp)]
  obtain ⟨r, hr, he, hr2⟩ := den_clean_fc jsonG _ _ _ (den_ut s) false
  refine ⟨k, r, he, fun fuel hf => ?_⟩
  have hparse : T.ll.parse raw fuel = .ok (.node (sy "E") [utV s]) := by
    unfold Parser.parse
    rw [htoks, hstart, ← hy, hk fuel hf, hfin]
  have hrawv : T.parseRaw raw fuel = .ok (.elem (nm "E") false (.list [toValP (utV s)])) := by
    unfold TParser.parseRaw
    rw [hparse, hseq]
    simp only [toVal_nil]
    rw [toValP, toValsP]
    rfl
  refine ⟨hrawv, ?_⟩
  unfold TParser.parseClean
  rw [hrawv, hcl]
  exact cleanup_root _ r hr hr2

/-- **End to end, both `smart_factorization` values.** -/
theorem json_end_to_end (smart : Bool) (T : TParser) (hT : jsonT smart = .ok T) (s : Syn)
    (raw : List (Name × List Char)) (hraw : Lex raw (toksV s)) :
    ∃ (k : Nat) (r : El × Bool), entry r.1 = pyval s.data ∧ ∀ fuel, k ≤ fuel →
      T.parseRaw raw fuel = .ok (.elem (nm "E") false (.list [toValP (utV s)])) ∧
      T.parseClean raw fuel = .ok (.elem (nm "E") false (.list [r.1.toVal])) := by
  cases smart with
  | true => exact json_end_to_end_smart T hT s raw hraw
  | false => exact json_end_to_end_plain T hT s raw hraw

end Templates
