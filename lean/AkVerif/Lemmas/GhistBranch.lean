import AkVerif.Lemmas.GhistWF
/-!
Branch level: `endBranch`, `readBranch`, `readBranches`, `rgraph` — generic induction over the branches and the
well-formedness facts that survive to the final graph.
-/
namespace Ghist
open Ak

section
variable {π β : Type} {h : Hist π}

/-! ### `buildsOf` -/

theorem build?_some {rp : Repo β} {i : Nat} {b : RB β} (hb : rp.build? i = some b) : b ∈ rp.builds ∧ b.iid = i := by
  unfold Repo.build? at hb
  exact ⟨List.mem_of_find?_eq_some hb, by simpa using List.find?_some hb⟩

theorem buildsOf_spec {rp : Repo β} : ∀ {is : List Nat} {bs : List (RB β)}, buildsOf rp is = some bs →
    iids bs = is ∧ ∀ b ∈ bs, b ∈ rp.builds := by
  intro is
  induction is with
  | nil => intro bs hb; simp [buildsOf] at hb; subst hb; simp [iids]
  | cons i is ih =>
    intro bs hb
    simp only [buildsOf] at hb
    split at hb
    · rename_i b r hb1 hb2
      cases hb
      obtain ⟨h1, h2⟩ := build?_some hb1
      obtain ⟨h3, h4⟩ := ih hb2
      refine ⟨by simp [iids] at h3 ⊢; exact ⟨h2, h3⟩, ?_⟩
      intro b' hb'
      rcases List.mem_cons.mp hb' with hb' | hb'
      · subst hb'; exact h1
      · exact h4 b' hb'
    · cases hb

/-! ### report commits are only appended -/

theorem finish_prefix {pl : Plug π β} {head : Nat} {st st' : St β} {c : Nat} {cm : Commit π} {fr : List Nat}
    {rel : List Nat} (hf : finish pl head rel st c cm fr = .ok st') : ∃ ext, st'.rp.rcs = st.rp.rcs ++ ext := by
  cases finish_cases hf with
  | irrelevant => exact ⟨[], by simp [Repo.addDone]⟩
  | plain => exact ⟨[], by simp only [Repo.addPlain]; split <;> simp [Repo.addDone, Repo.addVisited]⟩
  | plainMatch => exact ⟨[{ commit := c, parents := fr, explicit := true, bns := [], time := cm.time }], by simp [Repo.addRC]⟩
  | skip bpar new pb pbs bumps =>
    exact ⟨[], by simp only [St.skipBuild, Repo.addPlain]; split <;> simp [Repo.addDone, Repo.addVisited]⟩
  | build bpar new pb pbs bumps bn na =>
    exact ⟨[{ commit := c, parents := fr, explicit := cm.isMatch, bns := buildNums cm (c == head), time := cm.time }],
      by simp [St.addBuild, Repo.addRC]⟩

theorem visit_prefix (hT : h.Topo) {pl : Plug π β} {head : Nat} {fuel : Nat} {s s' : St β}
    {acc acc' : List Nat} {c : Nat} {rel : List Nat} (hv : visit h pl head fuel rel (s, acc) c = .ok (s', acc')) :
    ∃ ext, s'.rp.rcs = s.rp.rcs ++ ext := by
  have H : VisitHyps h pl head (fun _ => True) (fun _ _ _ => True)
      (fun s s' => ∃ ext, s'.rp.rcs = s.rp.rcs ++ ext) (fun _ => True) :=
    { Rrefl := fun _ => ⟨[], by simp⟩
      Rtrans := by
        rintro a b c ⟨e1, h1⟩ ⟨e2, h2⟩
        exact ⟨e1 ++ e2, by rw [h2, h1]; simp⟩
      Qmono := fun _ _ _ _ => trivial
      Qnil := fun _ _ => trivial
      Qcls := fun _ _ _ _ => trivial
      Vstep := fun _ _ _ => trivial
      Hfin := fun _ _ _ _ _ hf => ⟨trivial, finish_prefix hf⟩ }
  exact (visit_ind hT H fuel s [] acc c s' acc' trivial trivial trivial hv).2.2

/-! ### induction over the branches -/

/-- the loop over the sorted branches without the obsolete-branch test: what `readBranches` computes when the commit
times are inside the window (`rgraph_nw`, `rgraph_of_nw` in `GhistWindow`) -/
def readBranchesNW {π β} (h : Hist π) (pl : Plug π β) : Bool → Repo β → List Branch →
    Except Err (Repo β × List (RBranch β))
  | _, rp, [] => .ok (rp, [])
  | first, rp, b :: bs =>
    match readBranch h pl first rp b with
    | .error e => .error e
    | .ok (rp1, rb) =>
      match readBranchesNW h pl false rp1 bs with
      | .error e => .error e
      | .ok (rp2, rbs) => .ok (rp2, rb :: rbs)

def rgraphNW {π β} (h : Hist π) (pl : Plug π β) (mt : Option Nat) : Except Err (Graph β) :=
  match readBranchesNW h pl true Repo.empty (branchesOf h) with
  | .error e => .error e
  | .ok (rp, rbs) =>
    .ok { rcs := rp.rcs, builds := rp.builds, all := rbs,
          branches := rbs.reverse.filter (fun rb => !rb.rbuilds.isEmpty), minTs := mt }

/-- `I pre rp` : invariant of the repository caches after the branches `pre` (in processing order);
`F pre b rb` : what is recorded about the result `rb` of reading `b` after `pre`. -/
theorem readBranches_ind {pl : Plug π β} (I : List Branch → Repo β → Prop)
    (F : List Branch → Branch → RBranch β → Prop)
    (hstep : ∀ pre rp b rp' rb, I pre rp → readBranch h pl pre.isEmpty rp b = .ok (rp', rb) →
      I (pre ++ [b]) rp' ∧ F pre b rb) :
    ∀ (bs pre : List Branch) (rp rp' : Repo β) (rbs : List (RBranch β)), I pre rp →
      readBranchesNW h pl pre.isEmpty rp bs = .ok (rp', rbs) →
      I (pre ++ bs) rp' ∧ rbs.length = bs.length ∧
      ∀ j b rb, bs[j]? = some b → rbs[j]? = some rb → F (pre ++ bs.take j) b rb := by
  intro bs
  induction bs with
  | nil =>
    intro pre rp rp' rbs hI hr
    simp [readBranchesNW] at hr
    obtain ⟨rfl, rfl⟩ := hr
    simp [hI]
  | cons b bs ih =>
    intro pre rp rp' rbs hI hr
    simp only [readBranchesNW] at hr
    split at hr
    · cases hr
    · rename_i rp1 rb hrb
      split at hr
      · cases hr
      · rename_i rp2 rbs' hrbs
        cases hr
        obtain ⟨hI1, hF1⟩ := hstep pre rp b rp1 rb hI hrb
        have hne : (pre ++ [b]).isEmpty = false := by simp
        rw [← hne] at hrbs
        obtain ⟨hI2, hlen, hF2⟩ := ih (pre ++ [b]) rp1 rp' rbs' hI1 hrbs
        refine ⟨by simpa using hI2, by simp [hlen], ?_⟩
        intro j b' rb' hb' hrb'
        cases j with
        | zero =>
          simp at hb' hrb'
          subst hb'; subst hrb'
          simpa using hF1
        | succ j =>
          simp at hb' hrb'
          have := hF2 j b' rb' hb' hrb'
          simpa using this

/-- like `readBranches_ind`, but the recorded fact may mention the repository state right after the branch, and a
transitive relation `K` links that state to the final one -/
theorem readBranches_ind2 {pl : Plug π β} (I : List Branch → Repo β → Prop)
    (F : List Branch → Branch → Repo β → RBranch β → Prop) (K : Repo β → Repo β → Prop)
    (Krefl : ∀ rp, K rp rp) (Ktrans : ∀ {a b c}, K a b → K b c → K a c)
    (hstep : ∀ pre rp b rp' rb, I pre rp → readBranch h pl pre.isEmpty rp b = .ok (rp', rb) →
      I (pre ++ [b]) rp' ∧ F pre b rp' rb ∧ K rp rp') :
    ∀ (bs pre : List Branch) (rp rp' : Repo β) (rbs : List (RBranch β)), I pre rp →
      readBranchesNW h pl pre.isEmpty rp bs = .ok (rp', rbs) →
      I (pre ++ bs) rp' ∧ K rp rp' ∧ rbs.length = bs.length ∧
      ∀ j b rb, bs[j]? = some b → rbs[j]? = some rb → ∃ rpj, F (pre ++ bs.take j) b rpj rb ∧ K rpj rp' := by
  intro bs
  induction bs with
  | nil =>
    intro pre rp rp' rbs hI hr
    simp [readBranchesNW] at hr
    obtain ⟨rfl, rfl⟩ := hr
    simp [hI, Krefl]
  | cons b bs ih =>
    intro pre rp rp' rbs hI hr
    simp only [readBranchesNW] at hr
    split at hr
    · cases hr
    · rename_i rp1 rb hrb
      split at hr
      · cases hr
      · rename_i rp2 rbs' hrbs
        cases hr
        obtain ⟨hI1, hF1, hK1⟩ := hstep pre rp b rp1 rb hI hrb
        have hne : (pre ++ [b]).isEmpty = false := by simp
        rw [← hne] at hrbs
        obtain ⟨hI2, hK2, hlen, hF2⟩ := ih (pre ++ [b]) rp1 rp' rbs' hI1 hrbs
        refine ⟨by simpa using hI2, Ktrans hK1 hK2, by simp [hlen], ?_⟩
        intro j b' rb' hb' hrb'
        cases j with
        | zero =>
          simp at hb' hrb'
          subst hb'; subst hrb'
          exact ⟨rp1, by simpa using hF1, hK2⟩
        | succ j =>
          simp at hb' hrb'
          obtain ⟨rpj, h1, h2⟩ := hF2 j b' rb' hb' hrb'
          exact ⟨rpj, by simpa using h1, h2⟩

/-! ### `endBranch` -/

theorem notMerged_mem (seen : List Nat) : ∀ (l : List RC) (i k : Nat),
    k ∈ notMerged seen i l ↔ i ≤ k ∧ ∃ rc, l[k - i]? = some rc ∧ rc.explicit = true ∧ k ∉ seen := by
  intro l
  induction l with
  | nil => intro i k; simp [notMerged]
  | cons rc l ih =>
    intro i k
    simp only [notMerged, List.mem_append, ih]
    constructor
    · rintro (h1 | ⟨h1, rc', h2, h3, h4⟩)
      · split at h1
        · rename_i hc
          simp at h1; subst h1
          simp at hc
          exact ⟨Nat.le_refl _, rc, by simp, hc.1, hc.2⟩
        · simp at h1
      · refine ⟨by omega, rc', ?_, h3, h4⟩
        have : k - i = (k - (i + 1)) + 1 := by omega
        rw [this]; simpa using h2
    · rintro ⟨h1, rc', h2, h3, h4⟩
      by_cases hk : k = i
      · subst hk
        left
        simp at h2; subst h2
        simp [h3, h4]
      · right
        refine ⟨by omega, rc', ?_, h3, h4⟩
        have : k - i = (k - (i + 1)) + 1 := by omega
        rw [this] at h2; simpa using h2

theorem notMerged_sorted (seen : List Nat) : ∀ (l : List RC) (i : Nat), (notMerged seen i l).Pairwise (· < ·) := by
  intro l
  induction l with
  | nil => intro i; simp [notMerged]
  | cons rc l ih =>
    intro i
    simp only [notMerged]
    rw [List.pairwise_append]
    refine ⟨?_, ih (i + 1), ?_⟩
    · split <;> simp
    · intro a ha b hb
      have := ((notMerged_mem seen l (i + 1) b).mp hb).1
      split at ha
      · simp at ha; omega
      · simp at ha

theorem notMerged_nodup (seen : List Nat) (l : List RC) (i : Nat) : (notMerged seen i l).Nodup := by
  rw [List.nodup_iff_pairwise_ne]
  exact (notMerged_sorted seen l i).imp (fun h => by omega)

/-- the pieces of the result of `endBranch` -/
structure EndSpec (pl : Plug π β) (first : Bool) (b : Branch) (st : St β) (rheads : List Nat)
    (rp' : Repo β) (rb : RBranch β) : Prop where
  seen : ∃ seen curBuilds, rheads.foldlM (reach st.rp.rcs st.rp.rcs.length) [] = .ok seen ∧
    buildsOf st.rp st.br.cur = some curBuilds ∧
    (rb.rbuilds = curBuilds ∨
      ∃ fake : RB β, rb.rbuilds = curBuilds ++ [fake] ∧ fake.rcommit = none ∧
        fake.rcommits = (if first then [] else notMerged seen 0 st.rp.rcs)) ∧
    (first = false → (notMerged seen 0 st.rp.rcs) ≠ [] → ∃ fake : RB β, rb.rbuilds = curBuilds ++ [fake])
  name : rb.name = b.name
  rheads : rb.rheads = rheads
  rcs : rp'.rcs = st.rp.rcs
  done : rp'.done = st.rp.done
  visited : rp'.visited = st.rp.visited
  selected : rp'.selected = st.rp.selected
  builds : rp'.builds = st.rp.builds
  prev : rp'.prevBuilds = st.rp.prevBuilds ++ keys st.br.anc

theorem endBranch_spec {pl : Plug π β} {first : Bool} {b : Branch} {st : St β} {rheads : List Nat}
    {rp' : Repo β} {rb : RBranch β} (he : endBranch pl first b st rheads = .ok (rp', rb)) :
    EndSpec pl first b st rheads rp' rb := by
  unfold endBranch at he
  split at he
  · cases he
  · rename_i seen hseen
    simp only at he
    generalize hnm : (if first = true then [] else notMerged seen 0 st.rp.rcs) = nm at he
    split at he
    · cases he
    · rename_i curBuilds hcb
      split at he
      · cases he
      · rename_i pend hpend
        by_cases hfake : (!nm.isEmpty || !pl.isEmpty pend) = true
        · rw [if_pos hfake] at he
          cases he
          refine ⟨⟨seen, curBuilds, hseen, hcb, Or.inr ⟨_, rfl, rfl, ?_⟩, fun _ _ => ⟨_, rfl⟩⟩,
            rfl, rfl, rfl, rfl, rfl, rfl, rfl, rfl⟩
          rw [← hnm]
        · rw [if_neg hfake] at he
          cases he
          refine ⟨⟨seen, curBuilds, hseen, hcb, Or.inl rfl, ?_⟩, rfl, rfl, rfl, rfl, rfl, rfl, rfl, rfl⟩
          intro hf hne
          exfalso
          apply hfake
          rw [hf] at hnm
          simp only [Bool.false_eq_true, if_false] at hnm
          rw [← hnm]
          cases hnm' : notMerged seen 0 st.rp.rcs with
          | nil => exact absurd hnm' hne
          | cons x xs => rfl

theorem endBranch_wf {pl : Plug π β} {first : Bool} {b : Branch} {st : St β} {rheads : List Nat}
    {rp' : Repo β} {rb : RBranch β} (w : WF h st) (he : endBranch pl first b st rheads = .ok (rp', rb)) :
    WF h ⟨rp', Br.empty⟩ := by
  have hs := endBranch_spec he
  have hcur : ∀ i, isCurBuild rp' i = false := by
    intro i
    cases hc : isCurBuild rp' i with
    | false => rfl
    | true =>
      exfalso
      simp only [isCurBuild, hs.builds, hs.prev, Bool.and_eq_true, Bool.not_eq_true',
        List.contains_eq_mem, List.mem_append, decide_eq_false_iff_not, not_or] at hc
      obtain ⟨hany, hnp, hna⟩ := hc
      have : isCurBuild st.rp i = true := by
        simp only [isCurBuild, Bool.and_eq_true, Bool.not_eq_true', List.contains_eq_mem,
          decide_eq_false_iff_not]
        exact ⟨hany, hnp⟩
      exact hna (w.ancKeys i ((w.curIff i).mpr this))
  exact
  { selOk := by rw [hs.selected, hs.rcs]; exact w.selOk
    rcSel := by rw [hs.selected, hs.rcs]; exact w.rcSel
    rcPar := by rw [hs.rcs]; exact w.rcPar
    rcExp := by rw [hs.rcs]; exact w.rcExp
    visLt := by rw [hs.visited, hs.rcs]; exact w.visLt
    bldLt := by rw [hs.builds, hs.rcs]; exact w.bldLt
    prevLt := by
      rw [hs.prev, hs.rcs]
      intro i hi
      rcases List.mem_append.mp hi with hi | hi
      · exact w.prevLt i hi
      · exact w.ancLt i hi
    curIff := by intro i; simp [Br.empty, hcur i]
    keyOk := by intro k hk; simp [Br.empty, keys] at hk
    ancKeys := by intro i hi; simp [Br.empty] at hi
    lstOk := by intro b _ hc; rw [hcur] at hc; cases hc
    lstDisj := by intro a _ _ _ hc; rw [hcur] at hc; cases hc
    bldInc := by rw [hs.builds]; exact w.bldInc
    ancLt := by intro k hk; simp [Br.empty, keys] at hk
    curInc := by simp [Br.empty] }

/-- listing facts about the result of one branch, independent of the state -/
structure BrFacts (rb : RBranch β) : Prop where
  split : ∃ (cur fakes : List (RB β)), rb.rbuilds = cur ++ fakes ∧ fakes.length ≤ 1 ∧
    (∀ f ∈ fakes, f.rcommit = none ∧ f.rcommits.Nodup) ∧
    (∀ b ∈ cur, b.rcommit.isSome = true ∧ b.rcommits.Nodup) ∧
    (iids cur).Pairwise (· < ·) ∧
    (∀ a ∈ cur, ∀ b ∈ cur, a.iid ≠ b.iid → ∀ r ∈ a.rcommits, r ∉ b.rcommits)

/-- every build has an `RCommit` (pseudo builds are not in `self.brcommits`) -/
def BuildsNormal (rp : Repo β) : Prop := ∀ b ∈ rp.builds, b.rcommit = some b.iid

theorem finish_buildsNormal {pl : Plug π β} {head : Nat} {st st' : St β} {c : Nat} {cm : Commit π} {fr : List Nat}
    (hn : BuildsNormal st.rp) {rel : List Nat} (hf : finish pl head rel st c cm fr = .ok st') : BuildsNormal st'.rp := by
  cases finish_cases hf with
  | irrelevant => exact hn
  | plain => simp only [Repo.addPlain]; split <;> exact hn
  | plainMatch => exact hn
  | skip bpar new pb pbs bumps => simp only [St.skipBuild, Repo.addPlain]; split <;> exact hn
  | build bpar new pb pbs bumps bn na =>
    intro b hb
    simp only [St.addBuild, Repo.addRC] at hb
    rcases List.mem_append.mp hb with hb | hb
    · exact hn b hb
    · simp at hb; subst hb; rfl

theorem visit_buildsNormal (hT : h.Topo) {pl : Plug π β} {head : Nat} {fuel : Nat} {s s' : St β}
    {acc acc' : List Nat} {c : Nat} (hn : BuildsNormal s.rp)
    {rel : List Nat} (hv : visit h pl head fuel rel (s, acc) c = .ok (s', acc')) : BuildsNormal s'.rp := by
  have H : VisitHyps h pl head (fun s => BuildsNormal s.rp) (fun _ _ _ => True) (fun _ _ => True) (fun _ => True) :=
    { Rrefl := fun _ => trivial, Rtrans := fun _ _ => trivial, Qmono := fun _ _ _ _ => trivial
      Qnil := fun _ _ => trivial, Qcls := fun _ _ _ _ => trivial, Vstep := fun _ _ _ => trivial
      Hfin := fun hP _ _ _ _ hf => ⟨finish_buildsNormal hP hf, trivial⟩ }
  exact (visit_ind hT H fuel s [] acc c s' acc' hn trivial trivial hv).1

theorem endBranch_facts {pl : Plug π β} {first : Bool} {b : Branch} {st : St β} {rheads : List Nat}
    {rp' : Repo β} {rb : RBranch β} (w : WF h st) (hn : BuildsNormal st.rp)
    (he : endBranch pl first b st rheads = .ok (rp', rb)) : BrFacts rb := by
  have hs := endBranch_spec he
  obtain ⟨seen, curBuilds, _, hcb, hrb, _⟩ := hs.seen
  obtain ⟨hids, hmem⟩ := buildsOf_spec hcb
  have hcurb : ∀ b ∈ curBuilds, isCurBuild st.rp b.iid = true := by
    intro b hb
    apply (w.curIff b.iid).mp
    rw [← hids]; exact List.mem_map.mpr ⟨b, hb, rfl⟩
  have hcurOk : (∀ b ∈ curBuilds, b.rcommit.isSome = true ∧ b.rcommits.Nodup) ∧
      (∀ a ∈ curBuilds, ∀ b ∈ curBuilds, a.iid ≠ b.iid → ∀ r ∈ a.rcommits, r ∉ b.rcommits) :=
    ⟨fun b hb => ⟨by rw [hn b (hmem b hb)]; rfl, (w.lstOk b (hmem b hb) (hcurb b hb)).1⟩,
     fun a ha b hb hne => w.lstDisj a (hmem a ha) b (hmem b hb) (hcurb a ha) (hcurb b hb) hne⟩
  have hinc : (iids curBuilds).Pairwise (· < ·) := by rw [hids]; exact w.curInc
  rcases hrb with hrb | ⟨fake, hrb, hf1, hf2⟩
  · exact ⟨⟨curBuilds, [], by simp [hrb], by simp, by simp, hcurOk.1, hinc, hcurOk.2⟩⟩
  · refine ⟨⟨curBuilds, [fake], hrb, by simp, ?_, hcurOk.1, hinc, hcurOk.2⟩⟩
    intro f hf
    simp at hf; subst hf
    refine ⟨hf1, ?_⟩
    rw [hf2]
    split
    · simp
    · exact notMerged_nodup _ _ _

/-! ### the whole graph -/

theorem endBranch_bnMap {pl : Plug π β} {first : Bool} {b : Branch} {st : St β} {rheads : List Nat}
    {rp' : Repo β} {rb : RBranch β} (he : endBranch pl first b st rheads = .ok (rp', rb)) :
    rb.bnMap = st.br.bnMap := by
  unfold endBranch at he
  split at he
  · cases he
  · rename_i seen hseen
    simp only at he
    generalize (if first = true then [] else notMerged seen 0 st.rp.rcs) = nm at he
    split at he
    · cases he
    · split at he
      · cases he
      · rename_i pend hpend
        by_cases hfake : (!nm.isEmpty || !pl.isEmpty pend) = true
        · rw [if_pos hfake] at he; cases he; rfl
        · rw [if_neg hfake] at he; cases he; rfl

theorem readBranch_inv {pl : Plug π β} {first : Bool} {rp : Repo β} {b : Branch} {rp' : Repo β} {rb : RBranch β}
    (hr : readBranch h pl first rp b = .ok (rp', rb)) :
    ∃ hc st rheads, h.commits[b.head]? = some hc ∧
      visit h pl b.head h.commits.length (pl.relStep hc.time pl.relInit) (⟨rp, Br.empty⟩, []) b.head = .ok (st, rheads) ∧
      endBranch pl first b st rheads = .ok (rp', rb) := by
  unfold readBranch at hr
  split at hr
  · cases hr
  · rename_i hc hhc
    split at hr
    · cases hr
    · rename_i st rheads hv
      exact ⟨hc, st, rheads, hhc, hv, hr⟩

theorem wf_empty : WF h (⟨Repo.empty, Br.empty⟩ : St β) :=
  { selOk := by intro c i hl; simp [Repo.empty] at hl
    rcSel := by intro i rc hg; simp [Repo.empty] at hg
    rcPar := by intro i rc hg; simp [Repo.empty] at hg
    rcExp := by intro i rc hg; simp [Repo.empty] at hg
    visLt := by intro c fr hl; simp [Repo.empty] at hl
    bldLt := by intro b hb; simp [Repo.empty] at hb
    prevLt := by intro i hi; simp [Repo.empty] at hi
    curIff := by intro i; simp [Repo.empty, Br.empty, isCurBuild]
    keyOk := by intro k hk; simp [Br.empty, keys] at hk
    ancKeys := by intro i hi; simp [Br.empty] at hi
    lstOk := by intro b hb; simp [Repo.empty] at hb
    lstDisj := by intro a ha; simp [Repo.empty] at ha
    bldInc := by simp [Repo.empty, iids]
    ancLt := by intro k hk; simp [Br.empty, keys] at hk
    curInc := by simp [Br.empty] }

/-- facts about the final graph used by the listing theorems -/
structure GraphFacts (h : Hist π) (g : Graph β) : Prop where
  rcExp : ∀ (i : Nat) (rc : RC), g.rcs[i]? = some rc → rc.explicit = h.isMatch rc.commit
  rcInj : ∀ (i j : Nat) (ri rj : RC), g.rcs[i]? = some ri → g.rcs[j]? = some rj → ri.commit = rj.commit → i = j
  facts : ∀ rb ∈ g.all, BrFacts rb
  bldInc : (iids g.builds).Pairwise (· < ·)

theorem rgraph_facts (hT : h.Topo) {pl : Plug π β} {g : Graph β} {mt : Option Nat} (hg : rgraphNW h pl mt = .ok g) : GraphFacts h g := by
  unfold rgraphNW at hg
  split at hg
  · cases hg
  · rename_i rp rbs hr
    cases hg
    have hstep : ∀ (pre : List Branch) (rp : Repo β) (b : Branch) (rp' : Repo β) (rb : RBranch β),
        (WF h ⟨rp, Br.empty⟩ ∧ BuildsNormal rp) → readBranch h pl pre.isEmpty rp b = .ok (rp', rb) →
        (WF h ⟨rp', Br.empty⟩ ∧ BuildsNormal rp') ∧ BrFacts rb := by
      intro pre rp b rp' rb ⟨w, hn⟩ hrb
      obtain ⟨hc0, st, rheads, hhc0, hv, he⟩ := readBranch_inv hrb
      obtain ⟨w1, _, _⟩ := visit_wf hT w (by simp) hv
      have hn1 := visit_buildsNormal hT hn hv
      refine ⟨⟨endBranch_wf w1 he, ?_⟩, endBranch_facts w1 hn1 he⟩
      have hs := endBranch_spec he
      intro b' hb'; rw [hs.builds] at hb'; exact hn1 b' hb'
    obtain ⟨⟨w, _⟩, hlen, hF⟩ := readBranches_ind (fun _ rp => WF h ⟨rp, Br.empty⟩ ∧ BuildsNormal rp)
      (fun _ _ rb => BrFacts rb) hstep (branchesOf h) [] Repo.empty rp rbs
      ⟨wf_empty, by intro b hb; simp [Repo.empty] at hb⟩ hr
    refine ⟨w.rcExp, ?_, ?_, w.bldInc⟩
    · intro i j ri rj hi hj hc
      have h1 := w.rcSel i ri hi
      have h2 := w.rcSel j rj hj
      rw [hc, h2] at h1
      cases h1; rfl
    · intro rb hrb
      obtain ⟨j, hj⟩ := List.mem_iff_getElem?.mp hrb
      have hjlt : j < (branchesOf h).length := by
        rw [← hlen]
        rcases List.getElem?_eq_some_iff.mp hj with ⟨hi, _⟩; exact hi
      exact hF j _ rb (List.getElem?_eq_getElem hjlt) hj

end

end Ghist
