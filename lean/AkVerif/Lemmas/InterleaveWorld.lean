import AkVerif.Model.Interleave
/-!
C16: from numbers to what is sent.  Header-name lemmas (`capitalize` vs. lower-case comparison),
`sentId` after `setHeader`, and `assemble` (helper lemmas, core Lean only).
-/
namespace Interleave

/-! ### ASCII case mapping -/

theorem ofNat_sub_toNat : ∀ n, n < 123 → 97 ≤ n → (Char.ofNat (n - 32)).toNat = n - 32 := by decide
theorem ofNat_add_toNat : ∀ n, n < 91 → 65 ≤ n → (Char.ofNat (n + 32)).toNat = n + 32 := by decide

theorem toNat_upper (c : Char) :
    (upperAscii c).toNat = if 97 ≤ c.toNat ∧ c.toNat ≤ 122 then c.toNat - 32 else c.toNat := by
  unfold upperAscii
  split
  · rename_i h; exact ofNat_sub_toNat c.toNat (by omega) h.1
  · rfl

theorem toNat_lower (c : Char) :
    (lowerAscii c).toNat = if 65 ≤ c.toNat ∧ c.toNat ≤ 90 then c.toNat + 32 else c.toNat := by
  unfold lowerAscii
  split
  · rename_i h; exact ofNat_add_toNat c.toNat (by omega) h.1
  · rfl

/-- two characters with the same upper-case form have the same lower-case form -/
theorem lower_of_upper_eq (c d : Char) (h : upperAscii c = upperAscii d) :
    lowerAscii c = lowerAscii d := by
  have h' := congrArg Char.toNat h
  rw [toNat_upper, toNat_upper] at h'
  apply Char.toNat_inj.mp
  rw [toNat_lower, toNat_lower]
  split at h' <;> split at h' <;> split <;> split <;> omega

/-- names that `urllib` files under the same key are equal after lowering -/
theorem lower_of_capitalize_eq : ∀ (a b : List Char), capitalize a = capitalize b →
    a.map lowerAscii = b.map lowerAscii := by
  intro a b h
  cases a with
  | nil => cases b with
    | nil => rfl
    | cons d ds => simp [capitalize] at h
  | cons c cs => cases b with
    | nil => simp [capitalize] at h
    | cons d ds =>
      simp only [capitalize, List.cons.injEq] at h
      simp only [List.map_cons, List.cons.injEq]
      exact ⟨lower_of_upper_eq c d h.1, h.2⟩

/-! ### `setHeader` / `sentId` -/

theorem setHeader_fresh (hs : Headers) (name v : List Char) (h : ∀ kv ∈ hs, kv.1 ≠ name) :
    setHeader hs name v = hs ++ [(name, v)] := by
  induction hs with
  | nil => rfl
  | cons kv hs ih =>
    obtain ⟨k, x⟩ := kv
    have hk : k ≠ name := h (k, x) (by simp)
    simp only [setHeader, hk, if_false, List.cons_append]
    rw [ih (fun kv hkv => h kv (by simp [hkv]))]

/-- no header is filed under the key of `name`: after `headers[name] = v` the value sent is `v` -/
theorem sentId_setHeader (hs : Headers) (name v : List Char)
    (h : ∀ kv ∈ hs, capitalize kv.1 ≠ capitalize name) :
    sentId name (setHeader hs name v) = some v := by
  have hne : ∀ kv ∈ hs, kv.1 ≠ name := fun kv hkv e => h kv hkv (by rw [e])
  rw [setHeader_fresh hs name v hne]
  unfold sentId
  have hnil : hs.filter (fun kv => capitalize kv.1 == capitalize name) = [] := by
    rw [List.filter_eq_nil_iff]
    intro kv hkv
    simp only [beq_iff_eq]
    exact h kv hkv
  simp [List.filter_append, hnil]

theorem filter_setHeader_other (P : List Char → Bool) (hs : Headers) (k v : List Char) (hk : P k = false) :
    (setHeader hs k v).filter (fun kv => P kv.1) = hs.filter (fun kv => P kv.1) := by
  induction hs with
  | nil => simp [setHeader, hk]
  | cons kv hs ih =>
    obtain ⟨k', x⟩ := kv
    unfold setHeader
    by_cases e : k' = k
    · subst e; simp [hk]
    · simp only [e, if_false, List.filter_cons, ih]

/-- writing a header that `urllib` files under another key does not change what is sent under `name` -/
theorem sentId_setHeader_other (hs : Headers) (name k v : List Char)
    (h : capitalize k ≠ capitalize name) : sentId name (setHeader hs k v) = sentId name hs := by
  unfold sentId
  rw [filter_setHeader_other (fun n => capitalize n == capitalize name) hs k v (by simpa using h)]

theorem any_setHeader_other (P : List Char → Bool) (hs : Headers) (k v : List Char) (hk : P k = false) :
    (setHeader hs k v).any (fun kv => P kv.1) = hs.any (fun kv => P kv.1) := by
  induction hs with
  | nil => simp [setHeader, hk]
  | cons kv hs ih =>
    obtain ⟨k', x⟩ := kv
    unfold setHeader
    by_cases e : k' = k
    · subst e; simp [hk]
    · simp only [e, if_false, List.any_cons, ih]

/-- the authenticating adapters neither add nor hide an id -/
theorem applyAuths_keeps (P : List Char → Bool) (name : List Char) (hP : P authName = false)
    (hn : capitalize authName ≠ capitalize name) :
    ∀ (as : List (List Char)) (hs hs' : Headers), applyAuths as hs = some hs' →
      hs'.any (fun kv => P kv.1) = hs.any (fun kv => P kv.1) ∧ sentId name hs' = sentId name hs := by
  intro as
  induction as with
  | nil => intro hs hs' h; simp [applyAuths] at h; subst h; exact ⟨rfl, rfl⟩
  | cons a as ih =>
    intro hs hs' h
    unfold applyAuths at h
    split at h
    · cases h
    · obtain ⟨h1, h2⟩ := ih _ _ h
      rw [h1, h2, any_setHeader_other P hs authName a hP, sentId_setHeader_other hs name authName a hn]
      exact ⟨rfl, rfl⟩

/-- a chain of authenticating adapters only -/
theorem applyAdapters_auth (as : List (List Char)) (hs : Headers) :
    applyAdapters (as.map Adapter.auth) hs = applyAuths as hs := by
  induction as generalizing hs with
  | nil => rfl
  | cons a as ih =>
    simp only [List.map_cons, applyAdapters, applyAuths]
    split
    · rfl
    · exact ih _

theorem addContentType_sent (name : List Char) (hn : capitalize ctName ≠ capitalize name)
    (d : Bool) (hs : Headers) : sentId name (addContentType d hs) = sentId name hs := by
  unfold addContentType
  split
  · exact sentId_setHeader_other hs name ctName ctJson hn
  · rfl

theorem lookup_mem {β : Type} : ∀ (l : List (List Char × β)) (k : List Char) (b : β),
    l.lookup k = some b → ∃ k', (k', b) ∈ l := by
  intro l
  induction l with
  | nil => intro k b h; simp [List.lookup] at h
  | cons kv l ih =>
    intro k b h
    obtain ⟨k', b'⟩ := kv
    unfold List.lookup at h
    split at h
    · cases h; exact ⟨k', by simp⟩
    · obtain ⟨k'', hk⟩ := ih k b h
      exact ⟨k'', by simp [hk]⟩

/-! ### what one thread sends -/

/-- ids sent by the requests of one thread that did not bring their own -/
def sentAuto (g : Cfg) : List ParReq → List Headers → List (Option (List Char))
  | (_, hs) :: reqs, o :: outs =>
    if hs.any (fun kv => g.test.holds kv.1) then sentAuto g reqs outs
    else sentId g.name o :: sentAuto g reqs outs
  | _, _ => []

/-- final headers of the requests of one thread that brought their own id -/
def keptOwn (g : Cfg) : List ParReq → List Headers → Prop
  | (_, hs) :: reqs, o :: outs =>
    (hs.any (fun kv => g.test.holds kv.1) = true → o = hs) ∧ keptOwn g reqs outs
  | _, _ => True

/-- the header test recognises every name that `urllib` would file under the key of the id header -/
def TestCovers (g : Cfg) : Prop :=
  ∀ k, capitalize k = capitalize g.name → g.test.holds k = true

theorem assemble_sent (g : Cfg) (hg : TestCovers g) (cp : List Char) :
    ∀ (reqs : List ParReq) (nums : List Nat) (outs : List Headers),
      assemble g cp reqs nums = some outs →
      outs.length = reqs.length ∧
      sentAuto g reqs outs = nums.map (fun v => some (render cp g.fmt v)) ∧
      keptOwn g reqs outs := by
  intro reqs
  induction reqs with
  | nil =>
    intro nums outs h
    cases nums with
    | nil => simp [assemble] at h; subst h; simp [sentAuto, keptOwn]
    | cons v nums => simp [assemble] at h
  | cons r reqs ih =>
    obtain ⟨c, hs⟩ := r
    intro nums outs h
    unfold assemble at h
    split at h
    · rename_i hany
      cases ha : assemble g cp reqs nums with
      | none => simp [ha] at h
      | some rest =>
        simp [ha] at h; subst h
        obtain ⟨h1, h2, h3⟩ := ih nums rest ha
        refine ⟨by simp [h1], ?_, ?_⟩
        · simp only [sentAuto, hany, if_true]; exact h2
        · exact ⟨fun _ => rfl, h3⟩
    · rename_i hany
      cases nums with
      | nil => simp at h
      | cons v nums =>
        simp only at h
        cases ha : assemble g cp reqs nums with
        | none => simp [ha] at h
        | some rest =>
          simp [ha] at h; subst h
          obtain ⟨h1, h2, h3⟩ := ih nums rest ha
          have hfalse : hs.any (fun kv => g.test.holds kv.1) = false := by simpa using hany
          refine ⟨by simp [h1], ?_, ?_⟩
          · simp only [sentAuto, hfalse, Bool.false_eq_true, if_false, List.map_cons, List.cons.injEq]
            refine ⟨?_, h2⟩
            apply sentId_setHeader
            intro kv hkv hcap
            have := hg kv.1 hcap
            have hall := List.any_eq_false.mp hfalse kv hkv
            simp [this] at hall
          · exact ⟨fun hc => (by rw [hfalse] at hc; cases hc), h3⟩

theorem assembleAll_sent (g : Cfg) (hg : TestCovers g) (cp : List Char) :
    ∀ (threads : List (List ParReq)) (nums : List (List Nat)) (out : List (List Headers)),
      assembleAll g cp threads nums = some out →
      out.length = threads.length ∧
      (threads.zip out).flatMap (fun to => sentAuto g to.1 to.2) =
        nums.flatten.map (fun v => some (render cp g.fmt v)) ∧
      (∀ to, to ∈ threads.zip out → keptOwn g to.1 to.2) := by
  intro threads
  induction threads with
  | nil =>
    intro nums out h
    cases nums with
    | nil => simp [assembleAll] at h; subst h; simp
    | cons => simp [assembleAll] at h
  | cons t ts ih =>
    intro nums out h
    cases nums with
    | nil => simp [assembleAll] at h
    | cons n ns =>
      unfold assembleAll at h
      cases ha : assemble g cp t n with
      | none => simp [ha] at h
      | some o =>
        cases hb : assembleAll g cp ts ns with
        | none => simp [ha, hb] at h
        | some os =>
          simp [ha, hb] at h; subst h
          obtain ⟨_, h2, h3⟩ := assemble_sent g hg cp t n o ha
          obtain ⟨i1, i2, i3⟩ := ih ns os hb
          refine ⟨by simp [i1], ?_, ?_⟩
          · simp only [List.zip_cons_cons, List.flatMap_cons, List.flatten_cons, List.map_append]
            rw [h2, i2]
          · intro to hto
            simp only [List.zip_cons_cons, List.mem_cons] at hto
            rcases hto with rfl | hto
            · exact h3
            · exact i3 to hto

theorem nodup_map_of_inj {α β : Type} (f : α → β) (hf : ∀ a b, f a = f b → a = b) :
    ∀ (l : List α), l.Nodup → (l.map f).Nodup := by
  intro l
  induction l with
  | nil => intro _; simp
  | cons a l ih =>
    intro h
    rw [List.nodup_cons] at h
    rw [List.map_cons, List.nodup_cons]
    refine ⟨?_, ih h.2⟩
    intro hm
    obtain ⟨b, hb, hfb⟩ := List.mem_map.mp hm
    have := hf b a hfb
    subst this; exact h.1 hb

/-! ### lists of lists -/

theorem nodup_flatten_of : ∀ (L : List (List Nat)),
    (∀ l ∈ L, l.Nodup) →
    (∀ (t u : Nat) (a b : List Nat), t ≠ u → L[t]? = some a → L[u]? = some b → ∀ v, v ∈ a → v ∉ b) →
    L.flatten.Nodup := by
  intro L
  induction L with
  | nil => intro _ _; simp
  | cons a L ih =>
    intro h1 h2
    rw [List.flatten_cons, List.nodup_append]
    refine ⟨h1 a (by simp), ?_, ?_⟩
    · apply ih (fun l hl => h1 l (by simp [hl]))
      intro t u x y htu hx hy
      exact h2 (t + 1) (u + 1) x y (by omega) (by simpa using hx) (by simpa using hy)
    · intro v hv w hw hvw
      subst hvw
      obtain ⟨b, hb, hvb⟩ := List.mem_flatten.mp hw
      obtain ⟨u, hu, hub⟩ := List.mem_iff_getElem.mp hb
      have : (a :: L)[u + 1]? = some b := by simp [hub, hu]
      exact h2 0 (u + 1) a b (by omega) (by simp) this v hv hvb

/-! ### `assembleAll` cannot fail on what `runPar` returns -/

theorem mapM_opt_cons {α β : Type} (f : α → Option β) (a : α) (l : List α) (r : List β) :
    (a :: l).mapM f = some r ↔ ∃ b bs, f a = some b ∧ l.mapM f = some bs ∧ r = b :: bs := by
  simp only [List.mapM_cons]
  cases f a with
  | none => simp
  | some b =>
    cases l.mapM f with
    | none => simp
    | some bs => simp [eq_comm]

theorem assemble_some (g : Cfg) (w : World) (i : Nat) (cp : List Char) :
    ∀ (reqs : List ParReq) (need : List Bool) (nums : List Nat),
      reqs.mapM (needsId g w i) = some need → nums.length = (need.filter id).length →
      ∃ o, assemble g cp reqs nums = some o := by
  intro reqs
  induction reqs with
  | nil =>
    intro need nums h hl
    simp at h; subst h
    simp at hl; subst hl
    exact ⟨[], rfl⟩
  | cons r reqs ih =>
    intro need nums h hl
    obtain ⟨b, bs, hb, hbs, rfl⟩ := (mapM_opt_cons _ _ _ _).mp h
    obtain ⟨c, hs⟩ := r
    unfold needsId at hb
    split at hb
    · rename_i cn hcn
      split at hb
      · simp only [Option.some.injEq] at hb
        unfold assemble
        by_cases hany : hs.any (fun kv => g.test.holds kv.1) = true
        · simp only [hany, if_true]
          have : b = false := by rw [← hb]; simp [hany]
          subst this
          obtain ⟨o, ho⟩ := ih bs nums hbs (by simpa using hl)
          exact ⟨hs :: o, by simp [ho]⟩
        · have hf : hs.any (fun kv => g.test.holds kv.1) = false := by simpa using hany
          have : b = true := by rw [← hb]; simp [hf]
          subst this
          simp only [hf, Bool.false_eq_true, if_false]
          cases nums with
          | nil => simp at hl
          | cons v nums =>
            obtain ⟨o, ho⟩ := ih bs nums hbs (by simpa using hl)
            exact ⟨setHeader hs g.name (render cp g.fmt v) :: o, by simp [ho]⟩
      · cases hb
    · cases hb

theorem assembleAll_some (g : Cfg) (w : World) (i : Nat) (cp : List Char) :
    ∀ (threads : List (List ParReq)) (need : List (List Bool)) (nums : List (List Nat)),
      threads.mapM (fun t => t.mapM (needsId g w i)) = some need →
      nums.length = need.length →
      (∀ (t n : Nat), (need.map fun t => (t.filter id).length)[t]? = some n →
        ∃ l : List Nat, nums[t]? = some l ∧ l.length = n) →
      ∃ out, assembleAll g cp threads nums = some out := by
  intro threads
  induction threads with
  | nil =>
    intro need nums h hl _
    simp at h; subst h
    simp at hl; subst hl
    exact ⟨[], rfl⟩
  | cons t ts ih =>
    intro need nums h hl hn
    obtain ⟨b, bs, hb, hbs, rfl⟩ := (mapM_opt_cons _ _ _ _).mp h
    cases nums with
    | nil => simp at hl
    | cons l ls =>
      obtain ⟨l0, hl0, hlen⟩ := hn 0 (b.filter id).length (by simp)
      simp at hl0; subst hl0
      obtain ⟨o, ho⟩ := assemble_some g w i cp t b l hb hlen
      obtain ⟨os, hos⟩ := ih bs ls hbs (by simpa using hl)
        (fun t n htn => by
          obtain ⟨l', h1, h2⟩ := hn (t + 1) n (by simpa using htn)
          exact ⟨l', by simpa using h1, h2⟩)
      exact ⟨o :: os, by simp [assembleAll, ho, hos]⟩

/-! ### histories -/

theorem requestOutcome_ok {g : Cfg} {w w' : World} {c : Nat} {src : HdrSrc} {d : Bool} {o : Outcome}
    {hs' : Headers} {b : Bool} (h : w.requestOutcome g c src d o = .ok (w', hs', b)) :
    w.request g c src d = .ok (w', hs') ∧ b = (o != .answered) := by
  unfold World.requestOutcome at h
  split at h
  · simp only [Except.ok.injEq, Prod.mk.injEq] at h
    obtain ⟨h1, h2, h3⟩ := h
    subst h1 h2 h3
    exact ⟨by assumption, rfl⟩
  · cases h


/-- what a caller can do with connections, one after the other -/
inductive Op where
  | newImpl (cp : List Char) (ids : Bool)
  | wrap (c : Nat) (cls : List Char) (ad : Option Adapter)
  | addAdapter (c : Nat) (ad : Option Adapter)
  | newDict (hs : Headers)
  | req (c : Nat) (src : HdrSrc) (hasData : Bool) (o : Outcome)
  | batch (c : Nat) (threads : List (List ParReq)) (sched : List (Nat × Nat))

/-- generated ids that were sent: (implementation object, what went out under the id header) -/
abbrev IdLog := List (Nat × Option (List Char))

def ctrOf (impls : List Impl) (i : Nat) : Option Nat :=
  match impls[i]? with
  | some im => im.ctr
  | none => none

/-- one operation; an operation that raises leaves everything as it was.  A sequential request is
logged when it moved the counter of its implementation object (it took a number) — whatever its
outcome: answered, the opener raised, or the answer could not be processed; a batch of
concurrent requests (what `World.par` does: adapters, then `parCore`) logs the ids of its requests
that brought none. -/
def histStep (g : Cfg) (st : World × IdLog) : Op → World × IdLog
  | .newImpl cp ids => ((st.1.newImpl cp ids).1, st.2)
  | .wrap c cls ad =>
    match st.1.wrap g c cls ad with
    | .ok (w', _) => (w', st.2)
    | .error _ => st
  | .addAdapter c ad =>
    match st.1.addAdapter c ad with
    | .ok w' => (w', st.2)
    | .error _ => st
  | .newDict hs => ((st.1.newDict hs).1, st.2)
  | .req c src d o =>
    match st.1.conns[c]?, st.1.requestOutcome g c src d o with
    | some cn, .ok (w', hs', _) =>
      (w', if ctrOf w'.impls cn.impl = ctrOf st.1.impls cn.impl then st.2
           else st.2 ++ [(cn.impl, sentId g.name hs')])
    | _, _ => st
  | .batch c threads sched =>
    match st.1.conns[c]? with
    | none => st
    | some cn =>
      match threads.mapM (fun t => t.mapM (adaptReq st.1)) with
      | .error _ => st
      | .ok threads' =>
        match st.1.parCore g cn.impl threads' sched with
        | .error _ => st
        | .ok (w', out) =>
          (w', if (ctrOf st.1.impls cn.impl).isSome then
                 st.2 ++ ((threads'.zip out).flatMap fun to => sentAuto g to.1 to.2).map (fun e => (cn.impl, e))
               else st.2)

def runOps (g : Cfg) (st : World × IdLog) (ops : List Op) : World × IdLog := ops.foldl (histStep g) st

/-- every logged id is the rendering of a number below the present counter of its implementation
object, and no (implementation object, id) pair is logged twice -/
def HistInv (fmt : List Piece) (impls : List Impl) (log : IdLog) : Prop :=
  log.Nodup ∧ ∀ i e, (i, e) ∈ log →
    ∃ im n v, impls[i]? = some im ∧ im.ctr = some n ∧ v < n ∧ e = some (render im.cp fmt v)

theorem HistInv.advance {fmt : List Piece} (hinj : ∀ cp a b, render cp fmt a = render cp fmt b → a = b)
    {impls : List Impl} {log : IdLog} (H : HistInv fmt impls log) (i n n' : Nat) (im : Impl)
    (hi : impls[i]? = some im) (hn : im.ctr = some n) (hle : n ≤ n') (new : List (Option (List Char)))
    (hnd : new.Nodup) (hnew : ∀ e, e ∈ new → ∃ v, n ≤ v ∧ v < n' ∧ e = some (render im.cp fmt v)) :
    HistInv fmt (setImpl impls i { im with ctr := some n' }) (log ++ new.map (fun e => (i, e))) := by
  obtain ⟨hN, hB⟩ := H
  have hlt : i < impls.length := by
    apply Classical.byContradiction
    intro hge
    rw [List.getElem?_eq_none (by omega)] at hi; cases hi
  constructor
  · rw [List.nodup_append]
    refine ⟨hN, nodup_map_of_inj _ (fun a b h => by cases h; rfl) _ hnd, ?_⟩
    intro a ha b hb hab
    subst hab
    obtain ⟨e, he, rfl⟩ := List.mem_map.mp hb
    obtain ⟨im0, n0, v0, h1, h2, h3, h4⟩ := hB i e ha
    rw [hi] at h1; cases h1
    rw [hn] at h2; cases h2
    obtain ⟨v, hv1, _, hv3⟩ := hnew e he
    rw [h4] at hv3
    have := hinj _ _ _ (Option.some.inj hv3)
    omega
  · intro j e hje
    rcases List.mem_append.mp hje with h | h
    · obtain ⟨im0, n0, v0, h1, h2, h3, h4⟩ := hB j e h
      by_cases hj : j = i
      · subst hj
        rw [hi] at h1; cases h1
        rw [hn] at h2; cases h2
        exact ⟨{ im with ctr := some n' }, n', v0, by simp [setImpl, hlt], rfl, by omega, h4⟩
      · exact ⟨im0, n0, v0, by simp [setImpl, List.getElem?_set_ne (Ne.symm hj), h1], h2, h3, h4⟩
    · obtain ⟨e', he', hee⟩ := List.mem_map.mp h
      cases hee
      obtain ⟨v, _, hv2, hv3⟩ := hnew e he'
      exact ⟨{ im with ctr := some n' }, n', v, by simp [setImpl, hlt], rfl, hv2, hv3⟩

theorem HistInv.append_impl {fmt : List Piece} {impls : List Impl} {log : IdLog}
    (H : HistInv fmt impls log) (x : Impl) : HistInv fmt (impls ++ [x]) log := by
  refine ⟨H.1, ?_⟩
  intro i e hie
  obtain ⟨im, n, v, h1, h2, h3, h4⟩ := H.2 i e hie
  have hlt : i < impls.length := by
    apply Classical.byContradiction
    intro hge
    rw [List.getElem?_eq_none (by omega)] at h1; cases h1
  exact ⟨im, n, v, by rw [List.getElem?_append_left hlt]; exact h1, h2, h3, h4⟩

end Interleave
