import AkVerif.Lemmas.TemplatesLink
import AkVerif.Lemmas.LLTmplC02
import AkVerif.Lemmas.LLSetsTotal
/-!
C05 on top of C02: containers that may be absent.

* `absent_container_first` — for a parser built by `constructT`: (1) a list / map template with `optional=True` is a
  nullable symbol of the constructed parser; (2) the FIRST sets the parse table is built from see through a nullable
  prefix of every production of the expanded dictionary (`userProds`).
* `bracketless_list_nullable`, `bracketless_map_nullable`, `seq_nullable` — the same for a list / map without brackets
  and for a sequence symbol.

The link between the expanded dictionary and the factorised one (`FactRelD`) needs `PlainNames` of the expanded
productions: no name has the shape `X__Snn` of a factorisation helper.  `expandGrammar_plainNames` derives it from the
same condition on the names handed to the templates (`GramEntry.argNames`; automatic for names without `__`): the keys
and the names of plain productions are checked by the constructor, the generated names (`L__TAIL`, `M__ELEMENTS`,
`M__KV_PAIR`, `S__ELEMENT`) never have that shape.
-/
set_option linter.unusedSectionVars false
namespace LL
open Ak

/-! ### FIRST of the factorised dictionary is closed under the rules of the user's dictionary -/

theorem tf_FirstInM_append {σ : Type} [DecidableEq σ] {terms nulls : List σ} {M : σ → σ → Prop} (t : σ) :
    ∀ (a b : List σ), FirstInM terms nulls M (a ++ b) t ↔
      FirstInM terms nulls M a t ∨ (NullIn terms nulls a ∧ FirstInM terms nulls M b t)
  | [], b => by simp [FirstInM, NullIn]
  | x :: a, b => by
    have ih := tf_FirstInM_append (terms := terms) (nulls := nulls) (M := M) t a b
    have hn : NullIn terms nulls (x :: a) ↔ (x ∉ terms ∧ x ∈ nulls) ∧ NullIn terms nulls a := by
      simp [NullIn]
    simp only [List.cons_append, FirstInM, ih, hn]
    constructor
    · rintro (h | ⟨h1, h | ⟨h2, h | ⟨h3, h4⟩⟩⟩)
      · exact Or.inl (Or.inl h)
      · exact Or.inl (Or.inr ⟨h1, Or.inl h⟩)
      · exact Or.inl (Or.inr ⟨h1, Or.inr ⟨h2, h⟩⟩)
      · exact Or.inr ⟨⟨⟨h1, h2⟩, h3⟩, h4⟩
    · rintro ((h | ⟨h1, h | ⟨h2, h⟩⟩) | ⟨⟨⟨h1, h2⟩, h3⟩, h4⟩)
      · exact Or.inl h
      · exact Or.inr ⟨h1, Or.inl h⟩
      · exact Or.inr ⟨h1, Or.inr ⟨h2, Or.inl h⟩⟩
      · exact Or.inr ⟨h1, Or.inr ⟨h2, Or.inr ⟨h3, h4⟩⟩⟩

/-- a flattened expansion `e` of `A` (helper symbols replaced by their own expansions): what `e` starts with is in
FIRST(`A`) of the factorised dictionary -/
theorem tf_flat_first {G : Prods Sym} {S T N : List Sym} (hST : ∀ s ∈ S, s ∉ T) {A : Sym} {e : List Sym}
    (h : FlatD G S A e) : ∀ t, FirstInM T N (First G T N) e t → First G T N A t := by
  induction h with
  | base hp _ =>
    intro t ht
    obtain ⟨rules, hm, r, hr, hrp⟩ := mem_gramRules.1 hp
    exact First.closed hm hr (by rw [hrp]; exact ht)
  | @step s pre s' e hp hs' _ ih =>
    intro t ht
    obtain ⟨rules, hm, r, hr, hrp⟩ := mem_gramRules.1 hp
    refine First.closed hm hr ?_
    rw [hrp]
    rcases (tf_FirstInM_append t pre e).1 ht with h | ⟨hn, h⟩
    · exact (tf_FirstInM_append t pre [s']).2 (Or.inl h)
    · refine (tf_FirstInM_append t pre [s']).2 (Or.inr ⟨hn, ?_⟩)
      unfold FirstInM
      exact Or.inr ⟨hST s' hs', Or.inl (ih t h)⟩

section G
variable {T : Tmpl} {inp : CtorIn} {P : Parser}

/-- **FIRST sees through a nullable prefix of a production as the user wrote it** -/
theorem first_through_nullable_prefix_G (hB : BuiltG T inp P) (hpl : PlainNames inp.prods)
    (A : Sym) (rules : List (Rule Sym)) (r : Rule Sym) (pre : List Sym) (s : Sym) (post : List Sym)
    (hm : (A, rules) ∈ P.userProds) (hr : r ∈ rules) (hrhs : r.rhs = pre ++ s :: post)
    (hpre : ∀ x ∈ pre, x ∈ P.nullables) :
    ∃ f, dget A P.first = some f ∧ (s ∈ P.terminals → s ∈ f) ∧
      (∀ g t, dget s P.first = some g → t ∈ g → t ∈ f) := by
  obtain ⟨hR, _⟩ := factRelD_of_builtG hB hpl
  have h1 := verifyPart1_ok hB.hV
  have hkG : ∀ k ∈ pkeys P.prods, k ∉ P.terminals := h1.disjoint
  have hnt := lst_nulls_not_terms hB.hN (fun k hk => h1.disjoint k hk)
  have hST : ∀ s ∈ P.suffix, s ∉ P.terminals := fun s hs => hkG s (hR.sufKeys s hs)
  have hAU : A ∈ pkeys P.userProds := List.mem_map.2 ⟨_, hm, rfl⟩
  obtain ⟨f, hf⟩ := firstSets_has_key hB.hFi A (hR.keys A hAU)
  have hfl : FlatD P.prods P.suffix A (pre ++ s :: post) := by
    rw [← hrhs]; exact hR.flatOut A r.rhs (mem_gramRules.2 ⟨rules, hm, r, hr, rfl⟩)
  have hnull : NullIn P.terminals P.nullables pre := fun x hx => ⟨hnt x (hpre x hx), hpre x hx⟩
  have key : ∀ t, FirstInM P.terminals P.nullables (First P.prods P.terminals P.nullables) [s] t → t ∈ f := by
    intro t ht
    have hF := tf_flat_first (N := P.nullables) hST hfl t
      ((tf_FirstInM_append t pre (s :: post)).2 (Or.inr ⟨hnull,
        (tf_FirstInM_append t [s] post).2 (Or.inl ht)⟩))
    obtain ⟨f', hf', ht'⟩ := (sets_exact_G hB A t).1.2 hF
    rw [hf] at hf'; cases hf'; exact ht'
  refine ⟨f, hf, ?_, ?_⟩
  · intro hs
    exact key s (by unfold FirstInM; exact Or.inl ⟨hs, rfl⟩)
  · intro g t hg ht
    have hsk : s ∈ pkeys P.prods := by
      have : s ∈ P.first.map (·.1) := List.mem_map.2 ⟨_, dget_mem hg, rfl⟩
      rw [firstSets_keys hB.hFi] at this
      exact this
    have hF := (sets_exact_G hB s t).1.1 ⟨g, hg, ht⟩
    exact key t (by unfold FirstInM; exact Or.inr ⟨hkG s hsk, Or.inl hF⟩)

end G
end LL

namespace Templates
open Ak LL

/-! ### what `expandGrammar` adds for one entry of the dictionary -/

/-- the productions one entry of the dictionary stands for -/
def entryProds (terms : List Name) (C : Name) : GramEntry → Option Templates.Prods
  | .plain ps =>
    match prodRules terms ps false with
    | .ok rules => some [(C, rules)]
    | .error _ => none
  | .list a =>
    match mkListOpts a C with
    | .ok o => some o.genProds
    | .error _ => none
  | .map a =>
    match mkMapOpts a C with
    | .ok o => some o.genProds
    | .error _ => none
  | .seq args =>
    match seqSymbols terms args with
    | .ok syms => some (seqGenProds C syms)
    | .error _ => none

/-- the reserved-name checks of `_create_productions` on one entry -/
def EntryChecked (C : Name) (e : GramEntry) : Prop :=
  hasDunder C = false ∧ ∀ ps, e = .plain ps → ps.any prodArgHasDunder = false

theorem expandGrammar_step {terms : List Name} {sym : Name} {e : GramEntry} {rest : List (Name × GramEntry)}
    {acc ex : Expanded} (h : expandGrammar terms ((sym, e) :: rest) acc = .ok ex) :
    EntryChecked sym e ∧ ∃ ps acc', entryProds terms sym e = some ps ∧ acc'.prods = acc.prods ++ ps ∧
      expandGrammar terms rest acc' = .ok ex := by
  simp only [expandGrammar] at h
  split at h
  · cases h
  · rename_i hsd
    have hsd' : hasDunder sym = false := by simpa using hsd
    cases e with
    | plain ps =>
      simp only at h
      split at h
      · cases h
      · rename_i hpd
        cases hr : prodRules terms ps false with
        | error err => simp [hr] at h
        | ok rules =>
          simp only [hr] at h
          refine ⟨⟨hsd', fun ps' e => ?_⟩, [(sym, rules)], _, ?_, ?_, h⟩
          · cases e; simpa using hpd
          · simp [entryProds, hr]
          · rfl
    | list a =>
      simp only at h
      cases ho : mkListOpts a sym with
      | error err => simp [ho] at h
      | ok o =>
        simp only [ho] at h
        refine ⟨⟨hsd', fun ps' e => ?_⟩, o.genProds, _, ?_, ?_, h⟩
        · cases e
        · simp [entryProds, ho]
        · rfl
    | map a =>
      simp only at h
      cases ho : mkMapOpts a sym with
      | error err => simp [ho] at h
      | ok o =>
        simp only [ho] at h
        refine ⟨⟨hsd', fun ps' e => ?_⟩, o.genProds, _, ?_, ?_, h⟩
        · cases e
        · simp [entryProds, ho]
        · rfl
    | seq args =>
      simp only at h
      cases ho : seqSymbols terms args with
      | error err => simp [ho] at h
      | ok syms =>
        simp only [ho] at h
        refine ⟨⟨hsd', fun ps' e => ?_⟩, seqGenProds sym syms, _, ?_, ?_, h⟩
        · cases e
        · simp [entryProds, ho]
        · rfl

/-- the expanded dictionary consists of the productions of the entries, and every entry passed the checks -/
theorem expandGrammar_spec (terms : List Name) : ∀ (entries : List (Name × GramEntry)) (acc ex : Expanded),
    expandGrammar terms entries acc = .ok ex →
      (∀ p ∈ acc.prods, p ∈ ex.prods) ∧
      (∀ C e, (C, e) ∈ entries → EntryChecked C e ∧ ∃ ps, entryProds terms C e = some ps ∧ ∀ p ∈ ps, p ∈ ex.prods) ∧
      (∀ p ∈ ex.prods, p ∈ acc.prods ∨ ∃ C e ps, (C, e) ∈ entries ∧ entryProds terms C e = some ps ∧ p ∈ ps) := by
  intro entries
  induction entries with
  | nil =>
    intro acc ex h
    simp only [expandGrammar, Except.ok.injEq] at h
    subst h
    exact ⟨fun _ h => h, fun C e hm => (by cases hm), fun p hp => Or.inl hp⟩
  | cons en rest ih =>
    intro acc ex h
    obtain ⟨sym, e⟩ := en
    obtain ⟨hok, ps, acc', hps, hacc, h'⟩ := expandGrammar_step h
    obtain ⟨i1, i2, i3⟩ := ih acc' ex h'
    refine ⟨fun p hp => i1 p (by rw [hacc]; exact List.mem_append_left _ hp), ?_, ?_⟩
    · intro C e' hm
      rcases List.mem_cons.1 hm with hm | hm
      · cases hm
        exact ⟨hok, ps, hps, fun p hp => i1 p (by rw [hacc]; exact List.mem_append_right _ hp)⟩
      · exact i2 C e' hm
    · intro p hp
      rcases i3 p hp with h3 | ⟨C, e', ps', hm, he, hpp⟩
      · rw [hacc] at h3
        rcases List.mem_append.1 h3 with h3 | h3
        · exact Or.inl h3
        · exact Or.inr ⟨sym, e, ps, List.mem_cons_self, hps, h3⟩
      · exact Or.inr ⟨C, e', ps', List.mem_cons_of_mem _ hm, he, hpp⟩

/-- the numbered dictionary holds every alternative of every entry of the expanded one -/
theorem tf_createProdsT_mem {T : Tmpl} : ∀ (ps : List (List Char × List (List (List Char)))) (n : Nat)
    (acc U : LL.Prods Sym), createProdsT T n ps acc = .ok U →
      (∀ e ∈ acc, e ∈ U) ∧ ∀ s alts, (s, alts) ∈ ps →
        ∃ rules, (parseSym s, rules) ∈ U ∧ rules.map (·.rhs) = alts.map (fun p => p.map parseSym)
  | [], n, acc, U, h => by
    simp only [createProdsT] at h
    cases h
    exact ⟨fun _ h => h, fun s alts hm => by cases hm⟩
  | (s, alts) :: rest, n, acc, U, h => by
    simp only [createProdsT] at h
    split at h
    · simp at h
    · split at h
      · simp at h
      · split at h
        · simp at h
        · obtain ⟨i1, i2⟩ := tf_createProdsT_mem rest _ _ U h
          refine ⟨fun e he => i1 e (List.mem_append_left _ he), ?_⟩
          intro s' alts' hm
          rcases List.mem_cons.1 hm with hm | hm
          · cases hm
            exact ⟨_, i1 _ (List.mem_append_right _ (List.mem_singleton.2 rfl)),
              numberFrom_rhs (fun p => p.map parseSym) n alts⟩
          · exact i2 s' alts' hm

/-! ### the alternatives a template generates -/

theorem mem_firstOcc {α} [DecidableEq α] (x : α) : ∀ l : List α, x ∈ firstOcc l ↔ x ∈ l
  | [] => by simp [firstOcc]
  | a :: as => by
    simp only [firstOcc, List.mem_cons, List.mem_filter, mem_firstOcc x as]
    by_cases h : x = a <;> simp [h]

theorem mem_purge (n : Name) : ∀ l : List (Option Name), n ∈ purge l ↔ some n ∈ l
  | [] => by simp [purge]
  | none :: r => by simp [purge, mem_purge n r]
  | some a :: r => by simp [purge, mem_purge n r]

/-- the right-hand sides in a signature dictionary are the purged raw productions -/
theorem mem_sigAlts (s : Name) (f : List (Option Name) → Sig × Pos) (hf : ∀ prod, (f prod).1 = (s, purge prod))
    (raws : List (List (Option Name))) (p : List Name) :
    p ∈ (dictOf (raws.map f)).map (·.1.2) ↔ ∃ prod ∈ raws, purge prod = p := by
  have e : (dictOf (raws.map f)).map (·.1.2) = ((dictOf (raws.map f)).map (·.1)).map (·.2) := by
    simp [List.map_map]
  rw [e, dictOf_keys, List.mem_map]
  constructor
  · rintro ⟨k, hk, rfl⟩
    rw [mem_firstOcc] at hk
    obtain ⟨q, hq, rfl⟩ := List.mem_map.1 hk
    obtain ⟨prod, hprod, rfl⟩ := List.mem_map.1 hq
    exact ⟨prod, hprod, by rw [hf]⟩
  · rintro ⟨prod, hprod, rfl⟩
    refine ⟨(s, purge prod), ?_, rfl⟩
    rw [mem_firstOcc]
    exact List.mem_map.2 ⟨f prod, List.mem_map.2 ⟨prod, hprod, rfl⟩, hf prod⟩

theorem listOpts_empty_alt (o : ListOpts) (h : o.optional = true ∨ (o.openBr = none ∧ o.closeBr = none)) :
    ∃ alts, (o.result, alts) ∈ o.genProds ∧ [] ∈ alts := by
  refine ⟨o.listSigs.map (·.1.2), by simp [ListOpts.genProds], ?_⟩
  unfold ListOpts.listSigs
  rw [mem_sigAlts o.result _ (fun _ => rfl)]
  rcases h with h | ⟨h1, h2⟩
  · exact ⟨[], by simp [ListOpts.listProdsRaw, h], rfl⟩
  · exact ⟨[none, none], by cases ho : o.optional <;> simp [ListOpts.listProdsRaw, h1, h2, ho], rfl⟩

theorem mapOpts_empty_alt (o : MapOpts) (h : o.optional = true ∨ (o.openBr = none ∧ o.closeBr = none)) :
    ∃ alts, (o.result, alts) ∈ o.genProds ∧ [] ∈ alts := by
  refine ⟨o.mapSigs.map (·.1.2), by simp [MapOpts.genProds], ?_⟩
  unfold MapOpts.mapSigs
  rw [mem_sigAlts o.result _ (fun _ => rfl)]
  rcases h with h | ⟨h1, h2⟩
  · exact ⟨[], by simp [MapOpts.mapProdsRaw, h], rfl⟩
  · exact ⟨[none, none], by cases ho : o.optional <;> simp [MapOpts.mapProdsRaw, h1, h2, ho], rfl⟩

theorem mkListOpts_fields {a : ListArgs} {sym : Name} {o : ListOpts} (h : mkListOpts a sym = .ok o) :
    o.openBr = a.openBr ∧ o.item = a.item ∧ o.delim = a.delim ∧ o.closeBr = a.closeBr ∧ o.result = sym ∧
      (a.optional = some true → o.optional = true) ∧ (a.openBr = none ↔ a.closeBr = none) := by
  unfold mkListOpts at h
  simp only at h
  repeat' split at h
  all_goals (cases h <;> simp_all)
  all_goals (cases h1 : a.openBr <;> cases h2 : a.closeBr <;> simp_all)

theorem mkMapOpts_fields {a : MapArgs} {sym : Name} {o : MapOpts} (h : mkMapOpts a sym = .ok o) :
    o.openBr = a.openBr ∧ o.key = a.key ∧ a.assign = some o.assign ∧ o.val = a.val ∧ a.delim = some o.delim ∧
      o.closeBr = a.closeBr ∧ o.result = sym ∧ (a.optional = some true → o.optional = true) ∧
      (a.openBr = none ↔ a.closeBr = none) := by
  unfold mkMapOpts at h
  simp only at h
  repeat' split at h
  all_goals (cases h <;> simp_all)
  all_goals (cases h1 : a.openBr <;> cases h2 : a.closeBr <;> simp_all)

/-! ### the names of the expanded dictionary are no helper names -/

/-- the names handed to a template (`AnyTokenExcept` stands for terminals) -/
def GramEntry.argNames : GramEntry → List Name
  | .plain _ => []
  | .list a => purge [a.openBr, some a.item, a.delim, a.closeBr]
  | .map a => purge [a.openBr, some a.key, a.assign, some a.val, a.delim, a.closeBr]
  | .seq args => args.flatMap fun x =>
      match x with
      | .sym s => [s]
      | .anyExcept _ => []

/-- a name that ends with a generated suffix (`__TAIL`, …) is no helper name `X__Snn` -/
theorem parseSym_gen (C suf : Name) (c d : Char) (rest : List Char) (hs : suf.reverse = c :: d :: rest)
    (hc : c.isDigit = false) (hcd : c ≠ 'S' ∨ d ≠ '_') : parseSym (C ++ suf) = ⟨C ++ suf, []⟩ := by
  have hsplit : splitSuffix (C ++ suf) = none := by
    unfold splitSuffix
    simp only [List.reverse_append, hs, List.cons_append, List.dropWhile_cons, hc, Bool.false_eq_true, if_false]
    split
    · rename_i base heq
      simp only [List.cons.injEq] at heq
      rcases hcd with h | h
      · exact absurd heq.1 h
      · exact absurd heq.2.1 h
    · rfl
  unfold parseSym
  cases hl : (C ++ suf).length with
  | zero => simp [parseSymAux]
  | succ k => simp [parseSymAux, hsplit]

theorem plain_tail (C : Name) : (parseSym (C ++ tailSuffix)).path = [] := by
  rw [parseSym_gen C tailSuffix 'L' 'I' _ (by rfl) (by decide) (Or.inl (by decide))]

theorem plain_kvTail (C : Name) : (parseSym (C ++ kvTailSuffix)).path = [] := by
  rw [parseSym_gen C kvTailSuffix 'S' 'T' _ (by rfl) (by decide) (Or.inr (by decide))]

theorem plain_kvPair (C : Name) : (parseSym (C ++ kvPairSuffix)).path = [] := by
  rw [parseSym_gen C kvPairSuffix 'R' 'I' _ (by rfl) (by decide) (Or.inl (by decide))]

theorem plain_seqElem (C : Name) : (parseSym (C ++ seqElemSuffix)).path = [] := by
  rw [parseSym_gen C seqElemSuffix 'T' 'N' _ (by rfl) (by decide) (Or.inl (by decide))]

theorem listRaw_names (o : ListOpts) : ∀ prod ∈ o.listProdsRaw, ∀ x ∈ prod,
    x ∈ [o.openBr, some o.item, some o.tailSym, o.delim, o.closeBr] := by
  unfold ListOpts.listProdsRaw
  cases o.openBr.isSome <;> cases o.optional <;> simp

theorem tailRaw_names (o : ListOpts) : ∀ prod ∈ o.tailProdsRaw, ∀ x ∈ prod,
    x ∈ [o.openBr, some o.item, some o.tailSym, o.delim, o.closeBr] := by
  unfold ListOpts.tailProdsRaw
  split
  · exact listRaw_names o
  · cases o.afd <;> simp

theorem mapRaw_names (o : MapOpts) : ∀ prod ∈ o.mapProdsRaw, ∀ x ∈ prod,
    x ∈ [o.openBr, some o.kvPairSym, some o.kvTailSym, some o.delim, o.closeBr] := by
  unfold MapOpts.mapProdsRaw
  cases o.optional <;> simp

theorem kvTailRaw_names (o : MapOpts) : ∀ prod ∈ o.kvTailProdsRaw, ∀ x ∈ prod,
    x ∈ [o.openBr, some o.kvPairSym, some o.kvTailSym, some o.delim, o.closeBr] := by
  unfold MapOpts.kvTailProdsRaw
  cases o.afd <;> simp

/-- the names in the alternatives of a signature dictionary -/
theorem sigAlts_names (Q : Name → Prop) (s : Name) (f : List (Option Name) → Sig × Pos)
    (hf : ∀ prod, (f prod).1 = (s, purge prod)) (raws : List (List (Option Name))) (names : List (Option Name))
    (hraw : ∀ prod ∈ raws, ∀ x ∈ prod, x ∈ names) (hQ : ∀ n, some n ∈ names → Q n) :
    ∀ p ∈ (dictOf (raws.map f)).map (·.1.2), ∀ n ∈ p, Q n := by
  intro p hp n hn
  obtain ⟨prod, hprod, rfl⟩ := (mem_sigAlts s f hf raws p).1 hp
  exact hQ n (hraw prod hprod _ ((mem_purge n prod).1 hn))

theorem entry_plainNames (terms : List Name) (hterms : ∀ t ∈ terms, hasDunder t = false) (C : Name) (e : GramEntry)
    (ps : Templates.Prods) (hok : EntryChecked C e) (hargs : ∀ n ∈ e.argNames, (parseSym n).path = [])
    (hps : entryProds terms C e = some ps) : PlainNames ps := by
  have hC : (parseSym C).path = [] := by rw [parseSym_plain hok.1]
  cases e with
  | plain ps0 =>
    simp only [entryProds] at hps
    cases hr : prodRules terms ps0 false with
    | error err => simp [hr] at hps
    | ok rules =>
      simp only [hr, Option.some.injEq] at hps
      subst hps
      intro en hen
      simp only [List.mem_singleton] at hen
      subst hen
      refine ⟨hC, fun r hr' n hn => ?_⟩
      have hpd := hok.2 ps0 rfl
      have e := prodRules_ok hr
      simp only at hr'
      rw [e] at hr'
      obtain ⟨pa, hpa, hmem⟩ := List.mem_flatMap.mp hr'
      have hnd : hasDunder n = false := by
        cases pa with
        | empty => simp [ProdArg.denote] at hmem; subst hmem; simp at hn
        | tuple q =>
          simp [ProdArg.denote] at hmem
          subst hmem
          have := List.any_eq_false.1 hpd _ hpa
          simp only [prodArgHasDunder, Bool.not_eq_true] at this
          simpa using List.any_eq_false.1 this n hn
        | anyExcept ex' =>
          simp [ProdArg.denote] at hmem
          obtain ⟨t, ⟨ht, _⟩, rfl⟩ := hmem
          simp only [List.mem_singleton] at hn
          subst hn
          exact hterms _ ht
      rw [parseSym_plain hnd]
  | list a =>
    simp only [entryProds] at hps
    cases ho : mkListOpts a C with
    | error err => simp [ho] at hps
    | ok o =>
      simp only [ho, Option.some.injEq] at hps
      subst hps
      obtain ⟨f1, f2, f3, f4, f5, _, _⟩ := mkListOpts_fields ho
      have hres : (parseSym o.result).path = [] := by rw [f5]; exact hC
      have htail : (parseSym o.tailSym).path = [] := by
        unfold ListOpts.tailSym
        split
        · rw [f5]; exact plain_tail C
        · exact hres
      have hQ : ∀ n, some n ∈ [o.openBr, some o.item, some o.tailSym, o.delim, o.closeBr] → (parseSym n).path = [] := by
        intro n hn
        simp only [List.mem_cons, Option.some.injEq, List.not_mem_nil, or_false] at hn
        rcases hn with h | h | h | h | h
        · exact hargs n (by simp [GramEntry.argNames, mem_purge, ← f1, ← h])
        · exact hargs n (by simp [GramEntry.argNames, mem_purge, ← f2, h])
        · rw [h]; exact htail
        · exact hargs n (by simp [GramEntry.argNames, mem_purge, ← f3, ← h])
        · exact hargs n (by simp [GramEntry.argNames, mem_purge, ← f4, ← h])
      intro en hen
      simp only [ListOpts.genProds, List.mem_cons] at hen
      rcases hen with rfl | hen
      · exact ⟨hres, sigAlts_names _ o.result _ (fun _ => rfl) _ _ (listRaw_names o) hQ⟩
      · split at hen
        · simp only [List.mem_singleton] at hen
          subst hen
          exact ⟨htail, sigAlts_names _ o.tailSym _ (fun _ => rfl) _ _ (tailRaw_names o) hQ⟩
        · cases hen
  | map a =>
    simp only [entryProds] at hps
    cases ho : mkMapOpts a C with
    | error err => simp [ho] at hps
    | ok o =>
      simp only [ho, Option.some.injEq] at hps
      subst hps
      obtain ⟨f1, f2, f3, f4, f5, f6, f7, _, _⟩ := mkMapOpts_fields ho
      have hres : (parseSym o.result).path = [] := by rw [f7]; exact hC
      have hkt : (parseSym o.kvTailSym).path = [] := by
        unfold MapOpts.kvTailSym; rw [f7]; exact plain_kvTail C
      have hkp : (parseSym o.kvPairSym).path = [] := by
        unfold MapOpts.kvPairSym; rw [f7]; exact plain_kvPair C
      have hQ : ∀ n, some n ∈ [o.openBr, some o.kvPairSym, some o.kvTailSym, some o.delim, o.closeBr] →
          (parseSym n).path = [] := by
        intro n hn
        simp only [List.mem_cons, Option.some.injEq, List.not_mem_nil, or_false] at hn
        rcases hn with h | h | h | h | h
        · exact hargs n (by simp [GramEntry.argNames, mem_purge, ← f1, ← h])
        · rw [h]; exact hkp
        · rw [h]; exact hkt
        · exact hargs n (by simp [GramEntry.argNames, mem_purge, f5, h])
        · exact hargs n (by simp [GramEntry.argNames, mem_purge, ← f6, ← h])
      intro en hen
      simp only [MapOpts.genProds, List.mem_cons, List.not_mem_nil, or_false] at hen
      rcases hen with rfl | rfl | rfl
      · exact ⟨hres, sigAlts_names _ o.result _ (fun _ => rfl) _ _ (mapRaw_names o) hQ⟩
      · exact ⟨hkt, sigAlts_names _ o.kvTailSym _ (fun _ => rfl) _ _ (kvTailRaw_names o) hQ⟩
      · refine ⟨hkp, fun p hp n hn => ?_⟩
        simp only [MapOpts.kvSig, List.mem_singleton] at hp
        subst hp
        simp only [List.mem_cons, List.not_mem_nil, or_false] at hn
        rcases hn with h | h | h
        · exact hargs n (by simp [GramEntry.argNames, mem_purge, ← f2, h])
        · exact hargs n (by simp [GramEntry.argNames, mem_purge, f3, h])
        · exact hargs n (by simp [GramEntry.argNames, mem_purge, ← f4, h])
  | seq args =>
    simp only [entryProds] at hps
    cases ho : seqSymbols terms args with
    | error err => simp [ho] at hps
    | ok syms =>
      simp only [ho, Option.some.injEq] at hps
      subst hps
      have hel := plain_seqElem C
      intro en hen
      simp only [seqGenProds, List.mem_cons, List.not_mem_nil, or_false] at hen
      rcases hen with rfl | rfl
      · refine ⟨hC, fun p hp n hn => ?_⟩
        simp only [List.mem_cons, List.not_mem_nil, or_false] at hp
        rcases hp with rfl | rfl
        · simp only [List.mem_cons, List.not_mem_nil, or_false] at hn
          rcases hn with rfl | rfl
          · exact hel
          · exact hC
        · cases hn
      · refine ⟨hel, fun p hp n hn => ?_⟩
        obtain ⟨s, hs, rfl⟩ := List.mem_map.1 hp
        simp only [List.mem_singleton] at hn
        subst hn
        rw [seqSymbols_ok ho] at hs
        obtain ⟨x, hx, hsx⟩ := List.mem_flatMap.1 hs
        cases x with
        | sym s' =>
          simp only [SymArg.denote, List.mem_singleton] at hsx
          subst hsx
          exact hargs n (by
            simp only [GramEntry.argNames, List.mem_flatMap]
            exact ⟨_, hx, by simp⟩)
        | anyExcept ex' =>
          simp only [SymArg.denote, List.mem_filter] at hsx
          rw [parseSym_plain (hterms _ hsx.1)]

/-- **the expanded dictionary has no helper names** when the names handed to the templates have none -/
theorem expandGrammar_plainNames (terms : List Name) (hterms : ∀ t ∈ terms, hasDunder t = false)
    (entries : List (Name × GramEntry)) (ex : Expanded) (h : expandGrammar terms entries {} = .ok ex)
    (hargs : ∀ C e, (C, e) ∈ entries → ∀ n ∈ e.argNames, (parseSym n).path = []) : PlainNames ex.prods := by
  obtain ⟨_, i2, i3⟩ := expandGrammar_spec terms entries {} ex h
  intro en hen
  rcases i3 en hen with h0 | ⟨C, e, ps, hm, hps, hp⟩
  · cases h0
  · exact entry_plainNames terms hterms C e ps (i2 C e hm).1 (hargs C e hm) hps en hp

/-! ### the constructed parser -/

section Built
variable {groups : List Name} {syn : List (Name × Name)} {skip : Option (List Name)} {start : Name} {smart : Bool}
  {keep termOrder : List Name} {entries : List (Name × GramEntry)} {TP : TParser}

/-- what `constructT` built, seen as `constructG` on the expanded dictionary, with `PlainNames` of the latter -/
theorem constructT_builtG (hterms : ∀ t ∈ termOrder, LL.hasDunder t = false)
    (h : constructT groups syn skip start smart keep termOrder entries = .ok TP)
    (hargs : ∀ C e, (C, e) ∈ entries → ∀ n ∈ e.argNames, (parseSym n).path = []) :
    ∃ ex, expandGrammar termOrder entries {} = .ok ex ∧ PlainNames ex.prods ∧
      BuiltG ⟨ex.tmplKeys, ex.genSyms⟩ ⟨groups, syn, [], skip, start, ex.prods, smart⟩ TP.ll := by
  obtain ⟨ex, hex, hG⟩ := constructT_constructG groups syn skip start smart keep termOrder entries TP hterms h
  exact ⟨ex, hex, expandGrammar_plainNames termOrder hterms entries ex hex hargs, constructG_built hG⟩

/-- a key of the dictionary one of whose (generated) alternatives is empty is a nullable symbol of the parser -/
theorem nullable_of_empty_alt (hterms : ∀ t ∈ termOrder, LL.hasDunder t = false)
    (h : constructT groups syn skip start smart keep termOrder entries = .ok TP)
    (hargs : ∀ C e, (C, e) ∈ entries → ∀ n ∈ e.argNames, (parseSym n).path = [])
    (C : Name) (e : GramEntry) (hm : (C, e) ∈ entries)
    (hne : ∀ ps, entryProds termOrder C e = some ps → ∃ alts, (C, alts) ∈ ps ∧ [] ∈ alts) :
    parseSym C ∈ TP.ll.nullables := by
  obtain ⟨ex, hex, hpl, hB⟩ := constructT_builtG hterms h hargs
  obtain ⟨_, i2, _⟩ := expandGrammar_spec termOrder entries {} ex hex
  obtain ⟨_, ps, hps, hin⟩ := i2 C e hm
  obtain ⟨alts, ha, he⟩ := hne ps hps
  obtain ⟨hR, _⟩ := factRelD_of_builtG hB hpl
  obtain ⟨rules, hmU, hrhs⟩ := (tf_createProdsT_mem _ _ _ _ hB.hU).2 C alts (hin _ ha)
  have : [] ∈ rules.map (·.rhs) := by
    rw [hrhs]; exact List.mem_map.2 ⟨[], he, rfl⟩
  obtain ⟨r, hr, hr0⟩ := List.mem_map.1 this
  refine tr_flat_null hB.hN (hR.flatOut _ r.rhs (mem_gramRules.2 ⟨rules, hmU, r, hr, rfl⟩)) ?_
  rw [hr0]
  intro x hx
  cases hx

/-- a list template with `optional=True` is a nullable symbol -/
theorem optional_list_nullable (hterms : ∀ t ∈ termOrder, LL.hasDunder t = false)
    (h : constructT groups syn skip start smart keep termOrder entries = .ok TP)
    (hargs : ∀ C e, (C, e) ∈ entries → ∀ n ∈ e.argNames, (parseSym n).path = [])
    (C : Name) (a : ListArgs) (hm : (C, GramEntry.list a) ∈ entries) (hopt : a.optional = some true) :
    parseSym C ∈ TP.ll.nullables := by
  refine nullable_of_empty_alt hterms h hargs C _ hm ?_
  intro ps hps
  simp only [entryProds] at hps
  cases ho : mkListOpts a C with
  | error err => simp [ho] at hps
  | ok o =>
    simp only [ho, Option.some.injEq] at hps
    subst hps
    obtain ⟨_, _, _, _, f5, f6, _⟩ := mkListOpts_fields ho
    have := listOpts_empty_alt o (Or.inl (f6 hopt))
    rw [f5] at this
    exact this

/-- a map template with `optional=True` is a nullable symbol -/
theorem optional_map_nullable (hterms : ∀ t ∈ termOrder, LL.hasDunder t = false)
    (h : constructT groups syn skip start smart keep termOrder entries = .ok TP)
    (hargs : ∀ C e, (C, e) ∈ entries → ∀ n ∈ e.argNames, (parseSym n).path = [])
    (C : Name) (a : MapArgs) (hm : (C, GramEntry.map a) ∈ entries) (hopt : a.optional = some true) :
    parseSym C ∈ TP.ll.nullables := by
  refine nullable_of_empty_alt hterms h hargs C _ hm ?_
  intro ps hps
  simp only [entryProds] at hps
  cases ho : mkMapOpts a C with
  | error err => simp [ho] at hps
  | ok o =>
    simp only [ho, Option.some.injEq] at hps
    subst hps
    obtain ⟨_, _, _, _, _, _, f7, f8, _⟩ := mkMapOpts_fields ho
    have := mapOpts_empty_alt o (Or.inl (f8 hopt))
    rw [f7] at this
    exact this

/-- a list without brackets may be empty: it is a nullable symbol -/
theorem bracketless_list_nullable (hterms : ∀ t ∈ termOrder, LL.hasDunder t = false)
    (h : constructT groups syn skip start smart keep termOrder entries = .ok TP)
    (hargs : ∀ C e, (C, e) ∈ entries → ∀ n ∈ e.argNames, (parseSym n).path = [])
    (C : Name) (a : ListArgs) (hm : (C, GramEntry.list a) ∈ entries) (hbr : a.openBr = none) :
    parseSym C ∈ TP.ll.nullables := by
  refine nullable_of_empty_alt hterms h hargs C _ hm ?_
  intro ps hps
  simp only [entryProds] at hps
  cases ho : mkListOpts a C with
  | error err => simp [ho] at hps
  | ok o =>
    simp only [ho, Option.some.injEq] at hps
    subst hps
    obtain ⟨f1, _, _, f4, f5, _, f7⟩ := mkListOpts_fields ho
    have := listOpts_empty_alt o (Or.inr ⟨by rw [f1]; exact hbr, by rw [f4]; exact f7.1 hbr⟩)
    rw [f5] at this
    exact this

/-- a map without brackets may be empty: it is a nullable symbol -/
theorem bracketless_map_nullable (hterms : ∀ t ∈ termOrder, LL.hasDunder t = false)
    (h : constructT groups syn skip start smart keep termOrder entries = .ok TP)
    (hargs : ∀ C e, (C, e) ∈ entries → ∀ n ∈ e.argNames, (parseSym n).path = [])
    (C : Name) (a : MapArgs) (hm : (C, GramEntry.map a) ∈ entries) (hbr : a.openBr = none) :
    parseSym C ∈ TP.ll.nullables := by
  refine nullable_of_empty_alt hterms h hargs C _ hm ?_
  intro ps hps
  simp only [entryProds] at hps
  cases ho : mkMapOpts a C with
  | error err => simp [ho] at hps
  | ok o =>
    simp only [ho, Option.some.injEq] at hps
    subst hps
    obtain ⟨f1, _, _, _, _, f6, f7, _, f9⟩ := mkMapOpts_fields ho
    have := mapOpts_empty_alt o (Or.inr ⟨by rw [f1]; exact hbr, by rw [f6]; exact f9.1 hbr⟩)
    rw [f7] at this
    exact this

/-- a sequence symbol (`ProdSequence`) is a nullable symbol -/
theorem seq_nullable (hterms : ∀ t ∈ termOrder, LL.hasDunder t = false)
    (h : constructT groups syn skip start smart keep termOrder entries = .ok TP)
    (hargs : ∀ C e, (C, e) ∈ entries → ∀ n ∈ e.argNames, (parseSym n).path = [])
    (C : Name) (args : List SymArg) (hm : (C, GramEntry.seq args) ∈ entries) :
    parseSym C ∈ TP.ll.nullables := by
  refine nullable_of_empty_alt hterms h hargs C _ hm ?_
  intro ps hps
  simp only [entryProds] at hps
  cases ho : seqSymbols termOrder args with
  | error err => simp [ho] at hps
  | ok syms =>
    simp only [ho, Option.some.injEq] at hps
    subst hps
    exact ⟨_, List.mem_cons_self, by simp⟩

/-- **FIRST sees through a nullable prefix** of every production of the expanded dictionary -/
theorem first_through_nullable_prefix (hterms : ∀ t ∈ termOrder, LL.hasDunder t = false)
    (h : constructT groups syn skip start smart keep termOrder entries = .ok TP)
    (hargs : ∀ C e, (C, e) ∈ entries → ∀ n ∈ e.argNames, (parseSym n).path = [])
    (A : Sym) (rules : List (Rule Sym)) (r : Rule Sym) (pre : List Sym) (s : Sym) (post : List Sym)
    (hm : (A, rules) ∈ TP.ll.userProds) (hr : r ∈ rules) (hrhs : r.rhs = pre ++ s :: post)
    (hpre : ∀ x ∈ pre, x ∈ TP.ll.nullables) :
    ∃ f, dget A TP.ll.first = some f ∧ (s ∈ TP.ll.terminals → s ∈ f) ∧
      (∀ g t, dget s TP.ll.first = some g → t ∈ g → t ∈ f) := by
  obtain ⟨ex, _, hpl, hB⟩ := constructT_builtG hterms h hargs
  exact first_through_nullable_prefix_G hB hpl A rules r pre s post hm hr hrhs hpre

end Built

/-- **Containers that may be absent.**  For a parser built by `constructT` from a dictionary with templates:
(1) a list / map template with `optional=True` is a nullable symbol of the constructed parser; (2) the FIRST sets the
parse table is built from see through a nullable prefix of every production the user wrote (expanded dictionary
`userProds`): for `A -> pre s post` with `pre` nullable, `s` itself (a terminal) resp. all of FIRST(`s`) is in
FIRST(`A`).  `hargs`: no name handed to a template has the shape `X__Snn` of a factorisation helper (automatic for
names without `__`, `argNames_plain_of_noDunder`); keys and plain productions are checked by the constructor. -/
theorem absent_container_first (groups : List Name) (syn : List (Name × Name)) (skip : Option (List Name))
    (start : Name) (smart : Bool) (keep termOrder : List Name) (entries : List (Name × GramEntry)) (TP : TParser)
    (hterms : ∀ t ∈ termOrder, LL.hasDunder t = false)
    (hargs : ∀ C e, (C, e) ∈ entries → ∀ n ∈ e.argNames, (parseSym n).path = [])
    (h : constructT groups syn skip start smart keep termOrder entries = .ok TP) :
    (∀ C a, (C, GramEntry.list a) ∈ entries → a.optional = some true → parseSym C ∈ TP.ll.nullables) ∧
    (∀ C a, (C, GramEntry.map a) ∈ entries → a.optional = some true → parseSym C ∈ TP.ll.nullables) ∧
    (∀ A rules r pre s post, (A, rules) ∈ TP.ll.userProds → r ∈ rules → r.rhs = pre ++ s :: post →
        (∀ x ∈ pre, x ∈ TP.ll.nullables) →
        ∃ f, dget A TP.ll.first = some f ∧ (s ∈ TP.ll.terminals → s ∈ f) ∧
          (∀ g t, dget s TP.ll.first = some g → t ∈ g → t ∈ f)) :=
  ⟨fun C a hm ho => optional_list_nullable hterms h hargs C a hm ho,
   fun C a hm ho => optional_map_nullable hterms h hargs C a hm ho,
   fun A rules r pre s post hm hr hrhs hpre =>
     first_through_nullable_prefix hterms h hargs A rules r pre s post hm hr hrhs hpre⟩

/-- names without `__` satisfy the hypothesis `hargs` -/
theorem argNames_plain_of_noDunder (entries : List (Name × GramEntry))
    (hnd : ∀ C e, (C, e) ∈ entries → ∀ n ∈ e.argNames, LL.hasDunder n = false) :
    ∀ C e, (C, e) ∈ entries → ∀ n ∈ e.argNames, (parseSym n).path = [] := by
  intro C e hm n hn
  rw [parseSym_plain (hnd C e hm n hn)]

end Templates
