import AkVerif.Model.SrcPos
/-! C04 helper lemmas: spans of tree nodes (`spanT`/`spanF`) -/
namespace SrcPos
open Ak

mutual
/-- number of token leaves -/
def Tree.cnt : Tree → Nat
  | .tok => 1
  | .nul => 0
  | .node f => f.cnt
def Forest.cnt : Forest → Nat
  | .nil => 0
  | .cons t f => t.cnt + f.cnt
end

/-- no run of tokens below `hi` has equal start and end (true for the tokenizer's output: every
token but `$END$` is non-empty and tokens never move backwards) -/
def NoEq (toks : List Span) (hi : Nat) : Prop :=
  ∀ a b sa sb, a ≤ b → b < hi → toks[a]? = some sa → toks[b]? = some sb → sa.s ≠ sb.e

/-- the span of a node over the tokens `[lo, hi)`: from the start of the first to the end of the last;
without tokens: empty, at the start of the following token -/
def Good (toks : List Span) (n : NodeInfo) : Prop :=
  n.lo ≤ n.hi ∧ ∃ first, toks[n.lo]? = some first ∧
    (n.lo = n.hi → n.span = ⟨first.s, first.s⟩) ∧
    (n.lo < n.hi → ∃ last, toks[n.hi - 1]? = some last ∧ n.span = ⟨first.s, last.e⟩)

def FGood (toks : List Span) (k k' : Nat) (chs : List Span) : Prop :=
  k ≤ k' ∧ (∀ c0 rest, chs = c0 :: rest → ∃ first, toks[k]? = some first ∧ c0.s = first.s) ∧
  (k = k' → lastMatchedEnd chs = none) ∧
  (k < k' → ∃ last, toks[k' - 1]? = some last ∧ lastMatchedEnd chs = some last.e)

theorem NoEq.mono {toks : List Span} {a b : Nat} (h : NoEq toks b) (hab : a ≤ b) : NoEq toks a :=
  fun x y sx sy hxy hy => h x y sx sy hxy (by omega)

mutual
theorem spanT_spec (toks : List Span) : ∀ (t : Tree) (k : Nat) (sp : Span) (k' : Nat) (all : List NodeInfo),
    spanT toks t k = .ok (sp, k', all) → NoEq toks k' →
    k' = k + t.cnt ∧ Good toks ⟨k, k', sp⟩ ∧ ∀ n ∈ all, Good toks n
  | .tok, k, sp, k', all, h, _ => by
    unfold spanT at h
    split at h
    · rename_i s hs
      simp only [Except.ok.injEq, Prod.mk.injEq] at h; obtain ⟨e1, e2, e3⟩ := h; subst e1 e2 e3
      have hg : Good toks ⟨k, k + 1, s⟩ :=
        ⟨by simp, s, hs, by simp, fun _ => ⟨s, by simpa using hs, rfl⟩⟩
      exact ⟨by simp [Tree.cnt], hg, by simpa using hg⟩
    · cases h
  | .nul, k, sp, k', all, h, _ => by
    unfold spanT at h
    split at h
    · rename_i s hs
      simp only [Except.ok.injEq, Prod.mk.injEq] at h; obtain ⟨e1, e2, e3⟩ := h; subst e1 e2 e3
      have hg : Good toks ⟨k, k, ⟨s.s, s.s⟩⟩ := ⟨by simp, s, hs, fun _ => rfl, by simp⟩
      exact ⟨by simp [Tree.cnt], hg, by simpa using hg⟩
    · cases h
  | .node cs, k, sp, k', all, h, hne => by
    unfold spanT at h
    split at h
    · cases h
    · rename_i chs k1 all1 hf
      split at h
      · cases h
      · rename_i c0 rest
        simp only [Except.ok.injEq, Prod.mk.injEq] at h; obtain ⟨e1, e2, e3⟩ := h; subst e1 e2 e3
        obtain ⟨h1, ⟨hle, hfirst, hnone, hsome⟩, h3⟩ := spanF_spec toks cs k _ _ _ hf hne
        obtain ⟨first, hf1, hf2⟩ := hfirst c0 rest rfl
        have hg : Good toks ⟨k, k1, ⟨c0.s, match lastMatchedEnd (c0 :: rest) with
            | some p => p
            | none => c0.s⟩⟩ := by
          refine ⟨hle, first, hf1, ?_, ?_⟩
          · intro he; simp at he
            simp [hnone he, hf2]
          · intro hlt; simp at hlt
            obtain ⟨last, hl1, hl2⟩ := hsome hlt
            exact ⟨last, hl1, by simp [hl2, hf2]⟩
        refine ⟨by simpa [Tree.cnt] using h1, hg, ?_⟩
        intro n hn
        simp at hn
        rcases hn with rfl | hn
        · exact hg
        · exact h3 n hn
theorem spanF_spec (toks : List Span) : ∀ (f : Forest) (k : Nat) (chs : List Span) (k' : Nat)
    (all : List NodeInfo), spanF toks f k = .ok (chs, k', all) → NoEq toks k' →
    k' = k + f.cnt ∧ FGood toks k k' chs ∧ ∀ n ∈ all, Good toks n
  | .nil, k, chs, k', all, h, _ => by
    simp [spanF] at h
    obtain ⟨rfl, rfl, rfl⟩ := h
    exact ⟨by simp [Forest.cnt], ⟨Nat.le_refl _, by simp, by simp [lastMatchedEnd], by simp⟩, by simp⟩
  | .cons t f, k, chs, k', all, h, hne => by
    unfold spanF at h
    split at h
    · cases h
    · rename_i sp k1 a1 ht
      split at h
      · cases h
      · rename_i sps k2 a2 hf
        simp only [Except.ok.injEq, Prod.mk.injEq] at h; obtain ⟨e1, e2, e3⟩ := h; subst e1 e2 e3
        obtain ⟨f1, ⟨fle, ffirst, fnone, fsome⟩, f3⟩ := spanF_spec toks f k1 _ _ _ hf hne
        obtain ⟨t1, ⟨tle, tfirst, thf, tnone, tsome⟩, t3⟩ :=
          spanT_spec toks t k _ _ _ ht (hne.mono fle)
        simp at tle tnone tsome
        refine ⟨by simp [Forest.cnt]; omega, ⟨by omega, ?_, ?_, ?_⟩, ?_⟩
        · intro c0 rest he
          simp at he
          refine ⟨tfirst, thf, ?_⟩
          rw [← he.1]
          by_cases hk : k = k1
          · rw [tnone hk]
          · obtain ⟨last, _, hl⟩ := tsome (by omega)
            rw [hl]
        · intro he
          have hk1 : k = k1 := by omega
          have hk2 : k1 = k2 := by omega
          simp [lastMatchedEnd, fnone hk2, tnone hk1]
        · intro hlt
          by_cases hk : k1 = k2
          · obtain ⟨last, hl1, hl2⟩ := tsome (by omega)
            refine ⟨last, by rw [← hk]; exact hl1, ?_⟩
            have : tfirst.s ≠ last.e := hne k (k1 - 1) _ _ (by omega) (by omega) thf hl1
            simp [lastMatchedEnd, fnone hk, hl2, this]
          · obtain ⟨last, hl1, hl2⟩ := fsome (by omega)
            exact ⟨last, hl1, by simp [lastMatchedEnd, hl2]⟩
        · intro n hn
          rcases List.mem_append.mp hn with h | h
          · exact t3 n h
          · exact f3 n h
end

end SrcPos
