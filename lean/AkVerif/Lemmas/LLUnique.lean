import AkVerif.Lemmas.LLComplete
/-! LL(1) uniqueness of derivation trees: with closed nullable/first/follow sets and a conflict-free
    table (`Closed`), a token string has at most one derivation tree from a given root. -/
set_option linter.unusedSectionVars false
namespace LL
variable {σ : Type} [DecidableEq σ]

/-- the FOLLOW condition of a child at position `i` of a production of `X`, from the yield of its right
    siblings and the FOLLOW token of the parent (the reasoning of `descend`) -/
theorem child_follow {G : Cfg σ} {P : Gram σ} {S : Sets σ} (hC : Closed G P S)
    {X : σ} {p : List σ} (hmem : p ∈ P.prods X) (i : Nat) (c : Tree σ) (ds : List (Tree σ))
    (hvds : ∀ x ∈ ds, PValid G P x) (hsym : p[i]? = some c.name)
    (hdrop : p.drop (i + 1) = ds.map Tree.name) (suf : List (Tok σ)) (ta0 : Tok σ)
    (r0 : List (Tok σ)) (hsuf : suf = ta0 :: r0) (hWX : S.W X ta0.name = true)
    (hcnt : G.isTerm c.name = false) :
    ∃ ta r, yieldL ds ++ suf = ta :: r ∧ S.W c.name ta.name = true := by
  cases hyd : yieldL ds with
  | nil =>
    refine ⟨ta0, r0, by simp [hsuf], ?_⟩
    apply hC.fol2 X p i c.name ta0.name hmem hsym hcnt _ hWX
    rw [hdrop]; exact nullSeq_of_empty hC ds hvds hyd
  | cons t1 r1 =>
    refine ⟨t1, r1 ++ suf, by simp, ?_⟩
    apply hC.fol1 X p i c.name t1.name hmem hsym hcnt
    rw [hdrop]; exact firstSeq_of_yield hC ds hvds t1 r1 hyd

/-- the production used at a node is the table entry of the lookahead token -/
theorem node_predict {G : Cfg σ} {P : Gram σ} {S : Sets σ} (hC : Closed G P S)
    {X : σ} {cs : List (Tree σ)} (hnt : G.isTerm X = false) (hmem : cs.map Tree.name ∈ P.prods X)
    (hcs : ∀ c ∈ cs, PValid G P c) (suf : List (Tok σ)) (ta0 : Tok σ) (r0 : List (Tok σ))
    (hsuf : suf = ta0 :: r0) (hWX : S.W X ta0.name = true) :
    ∃ tok r, yieldL cs ++ suf = tok :: r ∧ G.table X tok.name = some [cs.map Tree.name] := by
  cases hy : yieldL cs with
  | nil =>
    exact ⟨ta0, r0, by simp [hsuf],
      hC.tbl X _ _ hnt hmem (Or.inr ⟨nullSeq_of_empty hC cs hcs hy, hWX⟩)⟩
  | cons tok r =>
    exact ⟨tok, r ++ suf, by simp,
      hC.tbl X _ _ hnt hmem (Or.inl (firstSeq_of_yield hC cs hcs tok r hy))⟩

/-- LL(1) uniqueness: with closed sets and a conflict-free table, two derivation trees with the same root
that are prefixes of the same token string (each followed by a token of FOLLOW of the root when the root is a
non-terminal) are equal. -/
theorem tree_unique {G : Cfg σ} {P : Gram σ} {S : Sets σ} (hC : Closed G P S) :
    ∀ (d1 : Tree σ), PValid G P d1 → ∀ (d2 : Tree σ), PValid G P d2 → d1.name = d2.name →
    ∀ (suf1 suf2 : List (Tok σ)), d1.yield ++ suf1 = d2.yield ++ suf2 →
    (G.isTerm d1.name = false → ∃ ta r, suf1 = ta :: r ∧ S.W d1.name ta.name = true) →
    (G.isTerm d2.name = false → ∃ ta r, suf2 = ta :: r ∧ S.W d2.name ta.name = true) →
    d1 = d2
  | .leaf n v, _, .leaf n2 v2, _, hname, suf1, suf2, hy, _, _ => by
    simp only [Tree.name] at hname
    subst hname
    simp [Tree.yield] at hy
    rw [hy.1]
  | .leaf n v, hd1, .node n2 cs2, hd2, hname, _, _, _, _, _ => by
    simp only [Tree.name] at hname
    subst hname
    have h1 : G.isTerm n = true := (PValid_leaf ..).1 hd1
    have h2 := ((PValid_node ..).1 hd2).1
    rw [h1] at h2; cases h2
  | .node n cs1, hd1, .leaf n2 v2, hd2, hname, _, _, _, _, _ => by
    simp only [Tree.name] at hname
    subst hname
    have h1 : G.isTerm n = true := (PValid_leaf ..).1 hd2
    have h2 := ((PValid_node ..).1 hd1).1
    rw [h1] at h2; cases h2
  | .node n cs1, hd1, .node n2 cs2, hd2, hname, suf1, suf2, hy, hW1, hW2 => by
    simp only [Tree.name] at hname hW1 hW2
    subst hname
    obtain ⟨hnt, hmem1, hcs1⟩ := (PValid_node ..).1 hd1
    obtain ⟨_, hmem2, hcs2⟩ := (PValid_node ..).1 hd2
    simp only [yield_node] at hy
    obtain ⟨ta1, r1, hsuf1, hWX1⟩ := hW1 hnt
    obtain ⟨ta2, r2, hsuf2, hWX2⟩ := hW2 hnt
    obtain ⟨tok1, rr1, hs1, htab1⟩ := node_predict hC hnt hmem1 hcs1 suf1 ta1 r1 hsuf1 hWX1
    obtain ⟨tok2, rr2, hs2, htab2⟩ := node_predict hC hnt hmem2 hcs2 suf2 ta2 r2 hsuf2 hWX2
    have htok : tok1 = tok2 := by
      rw [hs1, hs2] at hy; injection hy
    subst htok
    have hp : cs1.map Tree.name = cs2.map Tree.name := by
      rw [htab1] at htab2; simpa using htab2
    have seq : ∀ (ds1 : List (Tree σ)), (∀ c ∈ ds1, c ∈ cs1) → ∀ (ds2 : List (Tree σ)),
        (∀ c ∈ ds2, PValid G P c) → ∀ (i : Nat),
        (cs1.map Tree.name).drop i = ds1.map Tree.name →
        (cs1.map Tree.name).drop i = ds2.map Tree.name →
        yieldL ds1 ++ suf1 = yieldL ds2 ++ suf2 → ds1 = ds2 := by
      intro ds1
      induction ds1 with
      | nil =>
        intro _ ds2 _ i h1 h2 _
        rw [h1] at h2
        cases ds2 with
        | nil => rfl
        | cons _ _ => simp at h2
      | cons c1 ds1 ih =>
        intro hds1 ds2 hv2 i h1 h2 hyy
        cases ds2 with
        | nil => rw [h1] at h2; simp at h2
        | cons c2 ds2 =>
          have hc : c1 ∈ cs1 := hds1 c1 (by simp)
          have hds1' : ∀ x ∈ ds1, x ∈ cs1 := fun x hx => hds1 x (by simp [hx])
          have hvds1 : ∀ x ∈ ds1, PValid G P x := fun x hx => hcs1 x (hds1' x hx)
          have hvds2 : ∀ x ∈ ds2, PValid G P x := fun x hx => hv2 x (by simp [hx])
          simp only [List.map_cons] at h1 h2
          obtain ⟨hsym1, hdrop1⟩ := drop_eq_cons h1
          obtain ⟨hsym2, hdrop2⟩ := drop_eq_cons h2
          have hnm : c1.name = c2.name := by
            rw [hsym1] at hsym2; injection hsym2
          have hsplit1 : yieldL (c1 :: ds1) = c1.yield ++ yieldL ds1 := by simp [yieldL]
          have hsplit2 : yieldL (c2 :: ds2) = c2.yield ++ yieldL ds2 := by simp [yieldL]
          have hyy' : c1.yield ++ (yieldL ds1 ++ suf1) = c2.yield ++ (yieldL ds2 ++ suf2) := by
            rw [← List.append_assoc, ← List.append_assoc, ← hsplit1, ← hsplit2]; exact hyy
          have hceq : c1 = c2 :=
            tree_unique hC c1 (hcs1 c1 hc) c2 (hv2 c2 (by simp)) hnm _ _ hyy'
              (child_follow hC hmem1 i c1 ds1 hvds1 hsym1 hdrop1 suf1 ta1 r1 hsuf1 hWX1)
              (child_follow hC hmem1 i c2 ds2 hvds2 hsym2 hdrop2 suf2 ta2 r2 hsuf2 hWX2)
          subst hceq
          have hrest := List.append_cancel_left hyy'
          rw [ih hds1' ds2 hvds2 (i + 1) hdrop1 hdrop2 hrest]
    rw [seq cs1 (fun _ h => h) cs2 hcs2 0 (by simp) (by simpa using hp) hy]
termination_by d => sizeOf d
decreasing_by
  simp_wf
  have := List.sizeOf_lt_of_mem hc
  omega

theorem tree_unique_root {G : Cfg σ} {P : Gram σ} {S : Sets σ} (hC : Closed G P S)
    (start endS : σ) (hstartW : S.W start endS = true)
    (d1 d2 : Tree σ) (h1 : PValid G P d1) (h2 : PValid G P d2)
    (hn1 : d1.name = start) (hn2 : d2.name = start) (hy : d1.yield = d2.yield) : d1 = d2 :=
  tree_unique hC d1 h1 d2 h2 (by rw [hn1, hn2]) [⟨endS, []⟩] [⟨endS, []⟩] (by rw [hy])
    (fun _ => ⟨⟨endS, []⟩, [], rfl, by rw [hn1]; exact hstartW⟩)
    (fun _ => ⟨⟨endS, []⟩, [], rfl, by rw [hn2]; exact hstartW⟩)

end LL
