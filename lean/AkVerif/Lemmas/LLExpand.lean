import AkVerif.Lemmas.LLSmart3
/-!
Ordered expansion of the factorised dictionary (positions, not just membership), part 1.

* `Expands` / `ExpandsAll` — the ordered expansion of right-hand sides over a dictionary (mutual inductive),
  `ExA` — the same relation as a single inductive over lists of right-hand sides (`exA_iff_expandsAll`),
* list-level tools: concatenation (`exA_append`, `exA_append_inv`), inversion, determinism (`exA_det`),
  prefixing commutes with expansion (`exA_prefix`),
* `factorizeList` / `factorizeChunks`: the head entry expands, in order, to the rules given
  (`ex_factorizeList`), and the same for `factorizeAll` (`ex_factorizeAll`).
-/
set_option linter.unusedSectionVars false
namespace LL
open Ak

mutual
/-- `Expands G S p L`: `L` is the list of expansions of the right-hand side `p`, in order: `[p]` itself when `p`
does not end in a helper symbol; otherwise, for `p = pre ++ [h]`, `h ∈ S` with rules `rs`, the concatenation of
the expansions of `pre ++ r.rhs` for `r` in `rs` -/
inductive Expands (G : Prods Sym) (S : List Sym) : List Sym → List (List Sym) → Prop
  | plain {p} : (∀ l, p.getLast? = some l → l ∉ S) → Expands G S p [p]
  | group {pre h rs L} : h ∈ S → dget h G = some rs → ExpandsAll G S (rs.map fun r => pre ++ r.rhs) L →
      Expands G S (pre ++ [h]) L
/-- concatenation, in order, of the expansions of a list of right-hand sides -/
inductive ExpandsAll (G : Prods Sym) (S : List Sym) : List (List Sym) → List (List Sym) → Prop
  | nil : ExpandsAll G S [] []
  | cons {p ps L1 L2} : Expands G S p L1 → ExpandsAll G S ps L2 → ExpandsAll G S (p :: ps) (L1 ++ L2)
end

/-- `ExpandsAll` as a single inductive (the working form) -/
inductive ExA (G : Prods Sym) (S : List Sym) : List (List Sym) → List (List Sym) → Prop
  | nil : ExA G S [] []
  | plain {p ps L} : (∀ l, p.getLast? = some l → l ∉ S) → ExA G S ps L → ExA G S (p :: ps) (p :: L)
  | group {pre h rs ps L1 L2} : h ∈ S → dget h G = some rs → ExA G S (rs.map fun r => pre ++ r.rhs) L1 →
      ExA G S ps L2 → ExA G S ((pre ++ [h]) :: ps) (L1 ++ L2)

section Basic
variable {G : Prods Sym} {S : List Sym}

theorem expandsAll_of_exA {ps L : List (List Sym)} (h : ExA G S ps L) : ExpandsAll G S ps L := by
  induction h with
  | nil => exact ExpandsAll.nil
  | plain hl _ ih => exact ExpandsAll.cons (L1 := [_]) (Expands.plain hl) ih
  | group hS hg _ _ ih1 ih2 => exact ExpandsAll.cons (Expands.group hS hg ih1) ih2

theorem exA_of_expandsAll {ps L : List (List Sym)} (h : ExpandsAll G S ps L) : ExA G S ps L := by
  refine ExpandsAll.rec (G := G) (S := S)
    (motive_1 := fun p L _ => ∀ ps L2, ExA G S ps L2 → ExA G S (p :: ps) (L ++ L2))
    (motive_2 := fun ps L _ => ExA G S ps L) ?_ ?_ ?_ ?_ h
  · intro p hl ps L2 h2
    exact ExA.plain hl h2
  · intro pre h rs L hS hg _ ih ps L2 h2
    exact ExA.group hS hg ih h2
  · exact ExA.nil
  · intro p ps L1 L2 _ _ ih1 ih2
    exact ih1 ps L2 ih2

theorem exA_iff_expandsAll {ps L : List (List Sym)} : ExA G S ps L ↔ ExpandsAll G S ps L :=
  ⟨expandsAll_of_exA, exA_of_expandsAll⟩

theorem expands_iff_exA {p : List Sym} {L : List (List Sym)} : Expands G S p L ↔ ExA G S [p] L := by
  constructor
  · intro h
    have := exA_of_expandsAll (ExpandsAll.cons h ExpandsAll.nil)
    simpa using this
  · intro h
    have h' := expandsAll_of_exA h
    cases h' with
    | cons h1 h2 =>
      cases h2
      simpa using h1

/-! ### inversion, concatenation -/

theorem exA_nil_inv {L : List (List Sym)} (h : ExA G S [] L) : L = [] := by
  cases h; rfl

theorem exA_cons_inv {p : List Sym} {ps L : List (List Sym)} (h : ExA G S (p :: ps) L) :
    ((∀ l, p.getLast? = some l → l ∉ S) ∧ ∃ L', L = p :: L' ∧ ExA G S ps L') ∨
    (∃ pre h rs L1 L2, p = pre ++ [h] ∧ h ∈ S ∧ dget h G = some rs ∧
      ExA G S (rs.map fun r => pre ++ r.rhs) L1 ∧ ExA G S ps L2 ∧ L = L1 ++ L2) := by
  generalize hq : p :: ps = q at h
  cases h with
  | nil => cases hq
  | plain hl h2 =>
    simp only [List.cons.injEq] at hq
    obtain ⟨e1, e2⟩ := hq
    subst e1; subst e2
    exact Or.inl ⟨hl, _, rfl, h2⟩
  | group hS hg h1 h2 =>
    simp only [List.cons.injEq] at hq
    obtain ⟨e1, e2⟩ := hq
    subst e1; subst e2
    exact Or.inr ⟨_, _, _, _, _, rfl, hS, hg, h1, h2, rfl⟩

theorem exA_plain_inv {p : List Sym} {ps L : List (List Sym)} (hp : ∀ l, p.getLast? = some l → l ∉ S)
    (h : ExA G S (p :: ps) L) : ∃ L', L = p :: L' ∧ ExA G S ps L' := by
  rcases exA_cons_inv h with ⟨_, h'⟩ | ⟨pre, x, rs, L1, L2, e, hS, _⟩
  · exact h'
  · exact absurd hS (hp x (by rw [e]; simp))

theorem exA_group_inv {pre : List Sym} {x : Sym} {rs : List (Rule Sym)} {ps L : List (List Sym)} (hx : x ∈ S)
    (hg : dget x G = some rs) (h : ExA G S ((pre ++ [x]) :: ps) L) :
    ∃ L1 L2, L = L1 ++ L2 ∧ ExA G S (rs.map fun r => pre ++ r.rhs) L1 ∧ ExA G S ps L2 := by
  rcases exA_cons_inv h with ⟨hl, _⟩ | ⟨pre', x', rs', L1, L2, e, hS, hg', h1, h2, eL⟩
  · exact absurd hx (hl x (by simp))
  · obtain ⟨e1, e2⟩ := List.append_inj' e (by simp)
    simp only [List.cons.injEq, and_true] at e2
    subst e1; subst e2
    rw [hg] at hg'
    cases hg'
    exact ⟨L1, L2, eL, h1, h2⟩

theorem exA_append {ps qs L1 L2 : List (List Sym)} (h1 : ExA G S ps L1) (h2 : ExA G S qs L2) :
    ExA G S (ps ++ qs) (L1 ++ L2) := by
  induction h1 with
  | nil => simpa using h2
  | plain hl _ ih => exact ExA.plain hl ih
  | group hS hg h _ _ ih =>
    rw [List.append_assoc]
    exact ExA.group hS hg h ih

theorem exA_append_inv : ∀ {ps qs L : List (List Sym)}, ExA G S (ps ++ qs) L →
    ∃ L1 L2, L = L1 ++ L2 ∧ ExA G S ps L1 ∧ ExA G S qs L2
  | [], qs, L, h => ⟨[], L, rfl, ExA.nil, by simpa using h⟩
  | p :: ps, qs, L, h => by
    rw [List.cons_append] at h
    rcases exA_cons_inv h with ⟨hl, L', e, h'⟩ | ⟨pre, x, rs, L1, L2, e, hS, hg, h1, h2, eL⟩
    · obtain ⟨M1, M2, e', a, b⟩ := exA_append_inv h'
      exact ⟨p :: M1, M2, by rw [e, e']; rfl, ExA.plain hl a, b⟩
    · obtain ⟨M1, M2, e', a, b⟩ := exA_append_inv h2
      subst e
      exact ⟨L1 ++ M1, M2, by rw [eL, e', List.append_assoc], ExA.group hS hg h1 a, b⟩

/-- the expansion list is determined by the list of right-hand sides -/
theorem exA_det {ps L L' : List (List Sym)} (h : ExA G S ps L) : ExA G S ps L' → L = L' := by
  induction h generalizing L' with
  | nil => intro h'; exact (exA_nil_inv h').symm
  | plain hl _ ih =>
    intro h'
    obtain ⟨M, e, hM⟩ := exA_plain_inv hl h'
    rw [e, ih hM]
  | group hS hg _ _ ih1 ih2 =>
    intro h'
    obtain ⟨M1, M2, e, a, b⟩ := exA_group_inv hS hg h'
    rw [e, ih1 a, ih2 b]

theorem expandsAll_det {ps L L' : List (List Sym)} (h : ExpandsAll G S ps L) (h' : ExpandsAll G S ps L') : L = L' :=
  exA_det (exA_of_expandsAll h) (exA_of_expandsAll h')

theorem expands_det {p : List Sym} {L L' : List (List Sym)} (h : Expands G S p L) (h' : Expands G S p L') : L = L' :=
  exA_det (expands_iff_exA.1 h) (expands_iff_exA.1 h')

/-- every expansion comes with at least one result -/
theorem exA_length {ps L : List (List Sym)} (h : ExA G S ps L) (hne : ∀ k ∈ S, ∀ rs, dget k G = some rs → rs ≠ []) :
    ps.length ≤ L.length := by
  induction h with
  | nil => simp
  | plain _ _ ih => simp only [List.length_cons]; omega
  | @group pre x rs ps L1 L2 hS hg _ _ ih1 ih2 =>
    have : rs ≠ [] := hne _ hS rs hg
    have h1 : 1 ≤ L1.length := by
      cases rs with
      | nil => exact absurd rfl this
      | cons r rs => simp only [List.map_cons, List.length_cons] at ih1; omega
    simp only [List.length_cons, List.length_append]
    omega

/-! ### prefixing commutes with expansion -/

theorem ex_getLast?_append_ne {α : Type} {a b : List α} (hb : b ≠ []) : (a ++ b).getLast? = b.getLast? := by
  cases b with
  | nil => exact absurd rfl hb
  | cons x xs =>
    rw [List.getLast?_append]
    cases h : (x :: xs).getLast? with
    | none => simp at h
    | some y => rfl

theorem exA_prefix {pre : List Sym} (hpre : ∀ l, pre.getLast? = some l → l ∉ S) {ps L : List (List Sym)}
    (h : ExA G S ps L) : ExA G S (ps.map (pre ++ ·)) (L.map (pre ++ ·)) := by
  induction h with
  | nil => exact ExA.nil
  | @plain p ps L hl _ ih =>
    simp only [List.map_cons]
    refine ExA.plain ?_ ih
    intro l hlast
    by_cases hp : p = []
    · subst hp
      rw [List.append_nil] at hlast
      exact hpre l hlast
    · rw [ex_getLast?_append_ne hp] at hlast
      exact hl l hlast
  | @group pre' x rs ps L1 L2 hS hg _ _ ih1 ih2 =>
    simp only [List.map_cons, List.map_append]
    rw [← List.append_assoc]
    refine ExA.group hS hg ?_ ih2
    have : (rs.map fun r => pre ++ pre' ++ r.rhs) = (rs.map fun r => pre' ++ r.rhs).map (pre ++ ·) := by
      simp [List.map_map, Function.comp_def, List.append_assoc]
    rw [this]
    exact ih1

end Basic

/-! ### `factorizeChunks`, `factorizeList` -/

section Fact
variable (D : Prods Sym) (S : List Sym)

/-- what the recursive call guarantees w.r.t. the global dictionary `D` and the suffix list `S`: the rules of the
head entry expand, in order, to the rules given -/
def ExOK (recur : Sym → List (Rule Sym) → Except Err (Prods Sym)) : Prop :=
  ∀ s rl d, recur s rl = .ok d → (∀ e ∈ d, e ∈ D) → (∀ k ∈ pkeys d, k ≠ s → k ∈ S) →
    (∀ x ∈ rulesSyms rl, x ∉ S) →
    ∀ rs sp, d = (s, rs) :: sp → ExA D S (rs.map (·.rhs)) (rl.map (·.rhs))

theorem ex_factorizeChunks {recur : Sym → List (Rule Sym) → Except Err (Prods Sym)} (hnd : (D.map (·.1)).Nodup)
    (hshape : ShapeOK recur) (hrec : ExOK D S recur) (sym : Sym) :
    ∀ (chunks : List (List (Rule Sym))) (gid : Nat) (rs : List (Rule Sym)) (sp : Prods Sym),
    factorizeChunks recur sym chunks gid = .ok (rs, sp) →
    (∀ e ∈ sp, e ∈ D) → (∀ k ∈ pkeys sp, k ∈ S) → (∀ x ∈ rulesSyms chunks.flatten, x ∉ S) →
    ExA D S (rs.map (·.rhs)) (chunks.flatten.map (·.rhs))
  | [], gid, rs, sp, h, _, _, _ => by
    obtain ⟨e, _⟩ := factorizeChunks_nil h
    subst e
    exact ExA.nil
  | [] :: rest, gid, rs, sp, h, _, _, _ => by simp [factorizeChunks] at h
  | [r] :: rest, gid, rs, sp, h, hD, hS, hsyms => by
    obtain ⟨rs', e, h'⟩ := factorizeChunks_single h
    subst e
    have hsyms' : ∀ x ∈ rulesSyms rest.flatten, x ∉ S := by
      intro x hx
      apply hsyms x
      obtain ⟨r', hr', hx'⟩ := mem_rulesSyms.1 hx
      exact mem_rulesSyms.2 ⟨r', by simp [hr'], hx'⟩
    have ih := ex_factorizeChunks hnd hshape hrec sym rest gid rs' sp h' hD hS hsyms'
    simp only [List.map_cons, List.flatten_cons, List.cons_append, List.nil_append]
    refine ExA.plain ?_ ih
    intro l hl
    exact hsyms l (mem_rulesSyms.2 ⟨r, by simp, List.mem_of_getLast? hl⟩)
  | (r0 :: r1 :: more) :: rest, gid, rs, sp, h, hD, hS, hsyms => by
    obtain ⟨hne, extra, rs', sp', h1, h2, e1, e2⟩ := factorizeChunks_group h
    subst e1; subst e2
    let chunk := r0 :: r1 :: more
    let pre := lcpAll r0.rhs (r1 :: more)
    have hpre : ∀ r ∈ chunk, pre <+: r.rhs := by
      intro r hr
      simp only [chunk, List.mem_cons] at hr
      rcases hr with hr | hr
      · subst hr; exact lcpAll_prefix_init _ _
      · exact lcpAll_prefix_mem (r1 :: more) r0.rhs r (by simpa using hr)
    have hsyms' : ∀ x ∈ rulesSyms rest.flatten, x ∉ S := by
      intro x hx
      apply hsyms x
      obtain ⟨r', hr', hx'⟩ := mem_rulesSyms.1 hx
      exact mem_rulesSyms.2 ⟨r', by simp [hr'], hx'⟩
    have hsymsC : ∀ x ∈ rulesSyms chunk, x ∉ S := by
      intro x hx
      apply hsyms x
      obtain ⟨r', hr', hx'⟩ := mem_rulesSyms.1 hx
      exact mem_rulesSyms.2 ⟨r', by simp only [List.flatten_cons, List.mem_append]; exact Or.inl hr', hx'⟩
    have ih := ex_factorizeChunks hnd hshape hrec sym rest (gid + 1) rs' sp' h2
      (fun e he => hD e (by simp [he])) (fun k hk => hS k (by simp [pkeys] at hk ⊢; exact Or.inr hk)) hsyms'
    -- the recursive call
    obtain ⟨rsx, spx, ex, hx⟩ := hshape _ _ _ h1
    have hsufS : sym.suf gid ∈ S := hS _ (by rw [ex]; simp [pkeys])
    have hE := hrec _ _ _ h1 (fun e he => hD e (by simp [he]))
      (fun k hk hne' => hS k (by simp only [pkeys, List.map_append, List.mem_append]; exact Or.inl hk))
      (fun x hx' => hsymsC x (sufRules_syms hx')) rsx spx ex
    rw [sufRules_rhs] at hE
    have hget : dget (sym.suf gid) D = some rsx :=
      dget_of_mem_nodup hnd (hD _ (by rw [ex]; simp))
    have hpreS : ∀ l, pre.getLast? = some l → l ∉ S := by
      intro l hl
      apply hsymsC l
      exact mem_rulesSyms.2 ⟨r0, by simp [chunk], (hpre r0 (by simp [chunk])).subset (List.mem_of_getLast? hl)⟩
    have hP := exA_prefix hpreS hE
    have e1 : (rsx.map (·.rhs)).map (pre ++ ·) = rsx.map fun r => pre ++ r.rhs := by
      simp [List.map_map, Function.comp_def]
    have e2 : (chunk.map fun r => r.rhs.drop pre.length).map (pre ++ ·) = chunk.map (·.rhs) := by
      rw [List.map_map]
      apply List.map_congr_left
      intro r hr
      exact prefix_append_drop (hpre r hr)
    rw [e1, e2] at hP
    simp only [List.map_cons, List.flatten_cons, List.map_append]
    exact ExA.group hsufS hget hP ih

theorem ex_factorizeList (hnd : (D.map (·.1)).Nodup) : ∀ (fuel : Nat), ExOK D S (factorizeList fuel)
  | 0 => by intro s rl d h; simp [factorizeList] at h
  | fuel + 1 => by
    intro s rl d h hD hS hsyms rs0 sp0 e0
    obtain ⟨rs, sp, h1, e⟩ := factorizeList_succ h
    subst e
    simp only [List.cons.injEq, Prod.mk.injEq, true_and] at e0
    obtain ⟨e1, e2⟩ := e0
    subst e1; subst e2
    have hsp := factorizeChunks_shape (factorizeList_shape fuel) s _ 0 rs sp h1
    have hflat : (splitChunks rl).flatten = rl := splitChunks_flatten rl
    have := ex_factorizeChunks D S hnd (factorizeList_shape fuel) (ex_factorizeList hnd fuel) s
      (splitChunks rl) 0 rs sp h1 (fun e he => hD e (by simp [he]))
      (fun k hk => hS k (by simp [pkeys] at hk ⊢; exact Or.inr hk) (Ext_ne (hsp k hk)))
      (by rw [hflat]; exact hsyms)
    rw [hflat] at this
    exact this

end Fact

/-! ### `factorizeAll`: the plain factorisation -/

/-- `_factorize_productions(smart_factorization=False)`: for every user key, the rules of the key in the result
expand, in order, to the user's alternatives -/
theorem ex_factorizeAll {U d : Prods Sym} {fuel : Nat} (hU : UserWF U) (h : factorizeAll fuel U = .ok d)
    (hnd : (d.map (·.1)).Nodup) :
    ∀ X rulesU, (X, rulesU) ∈ U → ∃ rs, dget X d = some rs ∧
      ExA d ((d.map (·.1)).filter Sym.isSuf) (rs.map (·.rhs)) (rulesU.map (·.rhs)) := by
  obtain ⟨sp1, _⟩ := factorizeAll_spec fuel U d h
  intro s rules hm
  have hS : ∀ x, x ∈ (d.map (·.1)).filter Sym.isSuf ↔ x ∈ pkeys d ∧ x.isSuf = true := by
    intro x; simp [pkeys, List.mem_filter]
  obtain ⟨part, hp, hsub⟩ := sp1 s rules hm
  obtain ⟨rs, sp, epart, hext⟩ := factorizeList_shape fuel s rules part hp
  refine ⟨rs, dget_of_mem_nodup hnd (hsub _ (by rw [epart]; simp)), ?_⟩
  refine ex_factorizeList d _ hnd fuel s rules part hp hsub ?_ ?_ rs sp epart
  · intro k hk hne
    rw [epart] at hk
    simp only [pkeys, List.map_cons, List.mem_cons] at hk
    rcases hk with hk | hk
    · exact absurd hk hne
    · refine (hS k).2 ⟨?_, Ext_isSuf (hext k hk)⟩
      obtain ⟨e, he, hek⟩ := List.mem_map.1 hk
      exact List.mem_map.2 ⟨e, hsub e (by rw [epart]; simp [he]), hek⟩
  · intro x hx hxS
    obtain ⟨r, hr, hxr⟩ := mem_rulesSyms.1 hx
    have : x.path = [] := hU.symUser x (mem_psyms.2 ⟨s, rules, hm, r, hr, hxr⟩)
    have := path_nil_not_isSuf this
    rw [((hS x).1 hxS).2] at this
    cases this

end LL
