import AkVerif.Lemmas.Interleave
/-!
C16: progress.  A thread of a well-locked program that is scheduled long enough either finishes all
its calls or ends up waiting for a lock somebody else holds; hence the drain of `runPar` (every
thread in turn, `k + 1` rounds) leaves no thread unfinished — no deadlock, for every schedule.
-/
namespace Interleave

theorem stepTh_others (p : List Instr) (s : St) (i j : Nat) (h : j ≠ i) :
    (stepTh p s i).th j = s.th j := by
  unfold stepTh
  simp only []
  split
  · rfl
  · split
    · rfl
    · split <;> simp [setTh, h]
    all_goals simp [setTh, h]

theorem runTh_others (p : List Instr) (s : St) (i j n : Nat) (h : j ≠ i) :
    (runTh p s i n).th j = s.th j := by
  induction n generalizing s with
  | zero => rfl
  | succ n ih =>
    unfold runTh
    split
    · rfl
    · rw [ih, stepTh_others p s i j h]

/-- steps thread `t` still needs when nobody blocks it -/
def work (x : Idx) (t : Th) : Nat := t.remaining * (x.E + 1) - t.pc

section progress
variable {p : List Instr} {x : Idx} {c0 : Nat} {rem : Nat → Nat}

theorem step_work {s : St} (h : Shape p x) (I : Inv p x c0 rem s) (t : Nat)
    (hi : idle p s t = false) :
    work x ((stepTh p s t).th t) + 1 = work x (s.th t) := by
  unfold idle at hi
  simp only [Bool.or_eq_false_iff, beq_eq_false_iff_ne, ne_eq] at hi
  obtain ⟨hr, hi2⟩ := hi
  have hpcE := I.pcE t
  have hmul : x.E + 1 ≤ (s.th t).remaining * (x.E + 1) :=
    Nat.le_mul_of_pos_left _ (Nat.pos_of_ne_zero hr)
  unfold stepTh
  simp only [hr, if_false]
  cases hp : p[(s.th t).pc]? with
  | none => simp [hp] at hi2
  | some ins =>
    cases ins with
    | acq =>
      simp only [hp] at hi2
      cases hl : s.lock with
      | some v => simp [hl] at hi2
      | none => simp [work]; omega
    | rel => simp [work]; omega
    | rd d => simp [work]; omega
    | wr a b => simp [work]; omega
    | nop => simp [work]; omega
    | ret a =>
      obtain ⟨hE, _⟩ := h.pos_ret hpcE hp
      obtain ⟨r, hr'⟩ : ∃ r, (s.th t).remaining = r + 1 := ⟨(s.th t).remaining - 1, by omega⟩
      simp only [work, setTh_th, if_true, hr', hE, Nat.add_sub_cancel, Nat.sub_zero]
      rw [Nat.succ_mul]
      omega

/-- scheduled for at least `work` steps, a thread ends up idle; nobody else moved -/
theorem runTh_reaches_idle (h : Shape p x) (t n : Nat) :
    ∀ s, Inv p x c0 rem s → work x (s.th t) ≤ n →
      idle p (runTh p s t n) t = true ∧ Inv p x c0 rem (runTh p s t n) := by
  induction n with
  | zero =>
    intro s I hw
    refine ⟨?_, I⟩
    unfold runTh
    have hpcE := I.pcE t
    have : (s.th t).remaining = 0 := by
      apply Classical.byContradiction
      intro hr
      have hmul : x.E + 1 ≤ (s.th t).remaining * (x.E + 1) :=
        Nat.le_mul_of_pos_left _ (Nat.pos_of_ne_zero hr)
      unfold work at hw; omega
    simp [idle, this]
  | succ n ih =>
    intro s I hw
    unfold runTh
    split
    · rename_i hid; exact ⟨hid, I⟩
    · rename_i hid
      have hid' : idle p s t = false := by simpa using hid
      have := step_work h I t hid'
      exact ih (stepTh p s t) (inv_step h I t) (by omega)

theorem work_le_of_step {s : St} (h : Shape p x) (I : Inv p x c0 rem s) (t j : Nat) :
    work x ((stepTh p s t).th j) ≤ work x (s.th j) := by
  by_cases hj : j = t
  · subst hj
    cases hid : idle p s j with
    | true => rw [step_idle hid]; exact Nat.le_refl _
    | false => have := step_work h I j hid; omega
  · rw [stepTh_others p s t j hj]; exact Nat.le_refl _

theorem work_le_of_runTh (h : Shape p x) (t j n : Nat) :
    ∀ s, Inv p x c0 rem s → work x ((runTh p s t n).th j) ≤ work x (s.th j) := by
  induction n with
  | zero => intro s _; exact Nat.le_refl _
  | succ n ih =>
    intro s I
    unfold runTh
    split
    · exact Nat.le_refl _
    · exact Nat.le_trans (ih _ (inv_step h I t)) (work_le_of_step h I t j)

/-- the thread at the head of the queue with the lock free or its own: it finishes everything and
leaves the lock free -/
theorem runTh_free (h : Shape p x) (t n : Nat) (s : St) (I : Inv p x c0 rem s)
    (hw : work x (s.th t) ≤ n) (hl : s.lock = none ∨ s.lock = some t) :
    ((runTh p s t n).th t).remaining = 0 ∧ (runTh p s t n).lock = none := by
  obtain ⟨hid, I'⟩ := runTh_reaches_idle (c0 := c0) (rem := rem) h t n s I hw
  have hA := h.2.2.2.2.1
  -- nobody else can be inside the section at the end
  have hnone : ∀ v, v ≠ t → (runTh p s t n).lock ≠ some v := by
    intro v hv hlv
    have hsec := (I'.lock v).mp hlv
    rw [runTh_others p s t v n hv] at hsec
    have := (I.lock v).mpr hsec
    rcases hl with hl | hl <;> rw [hl] at this
    · cases this
    · cases this; exact hv rfl
  have hfin : ((runTh p s t n).th t).remaining = 0 := by
    apply Classical.byContradiction
    intro hr
    unfold idle at hid
    simp only [Bool.or_eq_true, beq_iff_eq, hr, false_or] at hid
    obtain ⟨ins, hins⟩ := h.lt_len (I'.pcE t)
    rw [hins] at hid
    cases ins <;> simp at hid
    -- waiting at the acquire: somebody holds the lock
    cases hlk : (runTh p s t n).lock with
    | none => simp [hlk] at hid
    | some v =>
      by_cases hv : v = t
      · subst hv
        have hsec := (I'.lock v).mp hlk
        have hpos := h.pos_acq (I'.pcE v) hins
        unfold inSec at hsec; omega
      · exact hnone v hv hlk
  refine ⟨hfin, ?_⟩
  cases hlk : (runTh p s t n).lock with
  | none => rfl
  | some v =>
    by_cases hv : v = t
    · subst hv
      have hsec := (I'.lock v).mp hlk
      rw [I'.fin v hfin] at hsec
      unfold inSec at hsec; omega
    · exact absurd hlk (hnone v hv)

/-- somebody else holds the lock: it still does afterwards -/
theorem runTh_held (h : Shape p x) (t u n : Nat) (s : St) (I : Inv p x c0 rem s)
    (hw : work x (s.th t) ≤ n) (hl : s.lock = some u) (hu : u ≠ t) :
    (runTh p s t n).lock = some u := by
  obtain ⟨_, I'⟩ := runTh_reaches_idle (c0 := c0) (rem := rem) h t n s I hw
  apply (I'.lock u).mpr
  rw [runTh_others p s t u n hu]
  exact (I.lock u).mp hl

/-- one round: the listed threads in turn, `n` steps each -/
def runList (p : List Instr) (s : St) (n : Nat) (ts : List Nat) : St :=
  ts.foldl (fun s t => runTh p s t n) s

theorem runRle_append (p : List Instr) (s : St) (a b : List (Nat × Nat)) :
    runRle p s (a ++ b) = runRle p (runRle p s a) b := by
  induction a generalizing s with
  | nil => rfl
  | cons tn a ih => obtain ⟨t, n⟩ := tn; simp only [List.cons_append, runRle]; exact ih _

theorem runRle_round (p : List Instr) (s : St) (n : Nat) (ts : List Nat) :
    runRle p s (ts.map fun t => (t, n)) = runList p s n ts := by
  induction ts generalizing s with
  | nil => rfl
  | cons t ts ih => simp only [List.map_cons, runRle, runList, List.foldl_cons]; exact ih _

/-- what a round preserves -/
structure Ready (p : List Instr) (x : Idx) (c0 : Nat) (rem : Nat → Nat) (n : Nat) (s : St) : Prop where
  inv : Inv p x c0 rem s
  bound : ∀ t, work x (s.th t) ≤ n

theorem Ready.runTh (h : Shape p x) {n : Nat} {s : St} (R : Ready p x c0 rem n s) (t : Nat) :
    Ready p x c0 rem n (runTh p s t n) :=
  ⟨(runTh_reaches_idle h t n s R.inv (R.bound t)).2,
   fun j => Nat.le_trans (work_le_of_runTh h t j n s R.inv) (R.bound j)⟩

theorem done_stable (p : List Instr) (s : St) (t u n : Nat) (hd : (s.th t).remaining = 0) :
    ((runTh p s u n).th t).remaining = 0 := by
  by_cases hu : t = u
  · subst hu
    cases n with
    | zero => exact hd
    | succ n => unfold runTh; simp [idle, hd]
  · rw [runTh_others p s u t n hu]; exact hd

/-- a round that starts with the lock free: every listed thread finishes, the lock is free again -/
theorem round_free (h : Shape p x) (n : Nat) (ts : List Nat) :
    ∀ s, Ready p x c0 rem n s → s.lock = none →
      Ready p x c0 rem n (runList p s n ts) ∧ (runList p s n ts).lock = none ∧
      (∀ t, (t ∈ ts ∨ (s.th t).remaining = 0) → ((runList p s n ts).th t).remaining = 0) := by
  induction ts with
  | nil => intro s R hl; exact ⟨R, hl, fun t ht => by rcases ht with ht | ht; cases ht; exact ht⟩
  | cons u ts ih =>
    intro s R hl
    obtain ⟨hfin, hl'⟩ := runTh_free h u n s R.inv (R.bound u) (Or.inl hl)
    obtain ⟨R2, hl2, hdone⟩ := ih (runTh p s u n) (R.runTh h u) hl'
    refine ⟨R2, hl2, ?_⟩
    intro t ht
    apply hdone t
    rcases ht with ht | ht
    · rcases List.mem_cons.mp ht with rfl | ht
      · exact Or.inr hfin
      · exact Or.inl ht
    · exact Or.inr (done_stable p s t u n ht)

/-- any round in which the holder of the lock (if any) takes part ends with the lock free -/
theorem round_unlocks (h : Shape p x) (n : Nat) (ts : List Nat) :
    ∀ s, Ready p x c0 rem n s → (s.lock = none ∨ ∃ u, s.lock = some u ∧ u ∈ ts) →
      Ready p x c0 rem n (runList p s n ts) ∧ (runList p s n ts).lock = none := by
  induction ts with
  | nil =>
    intro s R hl
    rcases hl with hl | ⟨u, _, hu⟩
    · exact ⟨R, hl⟩
    · cases hu
  | cons t ts ih =>
    intro s R hl
    have free : s.lock = none ∨ s.lock = some t →
        Ready p x c0 rem n (runList p s n (t :: ts)) ∧ (runList p s n (t :: ts)).lock = none := by
      intro hl'
      obtain ⟨_, hl2⟩ := runTh_free h t n s R.inv (R.bound t) hl'
      exact ih (runTh p s t n) (R.runTh h t) (Or.inl hl2)
    rcases hl with hl | ⟨u, hlu, hu⟩
    · exact free (Or.inl hl)
    · by_cases hut : u = t
      · subst hut; exact free (Or.inr hlu)
      · have hmem : u ∈ ts := by
          rcases List.mem_cons.mp hu with e | e
          · exact absurd e hut
          · exact e
        have := runTh_held h t u n s R.inv (R.bound t) hlu hut
        exact ih (runTh p s t n) (R.runTh h t) (Or.inr ⟨u, this, hmem⟩)

/-- `m + 1` rounds after the lock became free: everybody listed has finished -/
theorem rounds_free (h : Shape p x) (n : Nat) (ts : List Nat) (m : Nat) :
    ∀ s, Ready p x c0 rem n s → s.lock = none →
      ∀ t, t ∈ ts →
        ((runRle p s (List.replicate (m + 1) (ts.map fun t => (t, n))).flatten).th t).remaining = 0 := by
  induction m with
  | zero =>
    intro s R hl t ht
    simp only [List.replicate_succ, List.replicate_zero, List.flatten_cons, List.flatten_nil,
      List.append_nil, runRle_round]
    exact (round_free h n ts s R hl).2.2 t (Or.inl ht)
  | succ m ih =>
    intro s R hl t ht
    rw [List.replicate_succ, List.flatten_cons, runRle_append, runRle_round]
    obtain ⟨R2, hl2, _⟩ := round_free h n ts s R hl
    exact ih _ R2 hl2 t ht

/-- the drain: one round frees the lock, the following ones finish everybody -/
theorem drain_finishes (h : Shape p x) (n k : Nat) (hk : 0 < k) (s : St) (R : Ready p x c0 rem n s)
    (hold : ∀ u, s.lock = some u → u < k) :
    ∀ t, t < k →
      ((runRle p s (List.replicate (k + 1) ((List.range k).map fun t => (t, n))).flatten).th t).remaining = 0 := by
  intro t ht
  rw [List.replicate_succ, List.flatten_cons, runRle_append, runRle_round]
  have hl : s.lock = none ∨ ∃ u, s.lock = some u ∧ u ∈ List.range k := by
    cases hs : s.lock with
    | none => exact Or.inl rfl
    | some u => exact Or.inr ⟨u, rfl, List.mem_range.mpr (hold u hs)⟩
  obtain ⟨R2, hl2⟩ := round_unlocks h n (List.range k) s R hl
  obtain ⟨m, hm⟩ : ∃ m, k = m + 1 := ⟨k - 1, by omega⟩
  subst hm
  exact rounds_free h n (List.range (m + 1)) m _ R2 hl2 t (List.mem_range.mpr ht)

end progress

end Interleave
