import AkVerif.Lemmas.Xls
/-!
Helper lemmas for C18, eighth part: `XlsObject.construct` on a class one of whose key attributes is not
read from a column (`cell.value for cell in cells[:_NUM_ID_ATTRS]` on `None` / on a `(names, cells)` tuple).
-/
namespace Xls
open Ak

/-- `all(cell.value is None for cell in cells)`: blank key cells up to position `i`, where the entry is not a
cell -/
theorem keyEmpty_not_cell (l : List Src) (i : Nat)
    (hblank : ∀ i', i' < i → ∃ c, l[i']? = some (.cell c) ∧ c.val = .blank)
    (hnot : ∃ s, l[i]? = some s ∧ ∀ c, s ≠ .cell c) : keyEmpty l = .error .attributeError := by
  induction l generalizing i with
  | nil => obtain ⟨s, hs, _⟩ := hnot; simp at hs
  | cons a as ih =>
    cases i with
    | zero =>
      obtain ⟨s, hs, hn⟩ := hnot
      simp only [List.getElem?_cons_zero, Option.some.injEq] at hs
      subst hs
      cases a with
      | cell c => exact absurd rfl (hn c)
      | none => rfl
      | range n cs => rfl
    | succ i =>
      obtain ⟨c, hc, hb⟩ := hblank 0 (by omega)
      simp only [List.getElem?_cons_zero, Option.some.injEq] at hc
      subst hc
      simp only [keyEmpty, hb, if_true]
      apply ih i
      · intro i' hi'
        have := hblank (i' + 1) (by omega)
        simpa using this
      · simpa using hnot

/-- what `cells_from_row` hands over for a slot that is not a column position is not a cell -/
theorem srcOf_not_cell (row : Row) (sl : Slot) (s : Src) (h : srcOf row sl = .ok s) (hsl : ∀ j, sl ≠ .at j) :
    ∀ c, s ≠ .cell c := by
  intro c hc
  subst hc
  cases sl with
  | none => simp [srcOf] at h
  | «at» j => exact hsl j rfl
  | range names ids =>
    simp only [srcOf] at h
    split at h <;> cases h

theorem construct_key_not_column {V : Type} (cv : Conv V) (numId : Nat) (rules : List (Rule V))
    (slots : List Slot) (k : Nat) (row : Row) (srcs : List Src) (hs : mapE (srcOf row) slots = .ok srcs)
    (i : Nat) (hi : i < numId)
    (hblank : ∀ i', i' < i → ∃ c, srcs[i']? = some (.cell c) ∧ c.val = .blank)
    (hslot : ∃ sl, slots[i]? = some sl ∧ ∀ j, sl ≠ .at j) :
    construct cv numId rules slots k row = .error .attributeError := by
  obtain ⟨sl, hsl, hna⟩ := hslot
  obtain ⟨s, hsi, hso⟩ := mapE_get' _ _ _ hs i sl hsl
  have hke : keyEmpty (srcs.take numId) = .error .attributeError := by
    apply keyEmpty_not_cell _ i
    · intro i' hi'
      obtain ⟨c, hc, hb⟩ := hblank i' hi'
      exact ⟨c, by rw [List.getElem?_take]; simp [show i' < numId by omega, hc], hb⟩
    · exact ⟨s, by rw [List.getElem?_take]; simp [hi, hsi], srcOf_not_cell row sl s hso hna⟩
  unfold construct
  simp only [hs, hke]

end Xls
