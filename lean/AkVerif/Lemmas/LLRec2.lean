import AkVerif.Lemmas.LLRec
/-!
Fuel of the left-recursion check (`recCheck` of `Model/LLGrammar.lean`): a potential that strictly
decreases with every loop iteration and is bounded by `gsize G`; hence `2 * gsize G + 4` suffices.

Potential of `(processed, stack)`:
* for every key of `G` that is neither processed nor on the stack: the weight of its entry
  (`Σ (|rhs| + 2) + 3`),
* for every frame: `1` (the pop) `+` what is left of the current rule `+` the later rules.
-/
set_option linter.unusedSectionVars false
namespace LL
open Ak

section Fuel
variable {σ : Type} [DecidableEq σ]

def rulesW (rs : List (Rule σ)) : Nat := (rs.map fun r => r.rhs.length + 2).sum

def entryW (e : σ × List (Rule σ)) : Nat := rulesW e.2 + 3

theorem gsize_cons (e : σ × List (Rule σ)) (G : Prods σ) : gsize (e :: G) = entryW e + gsize G := by
  cases e; simp [gsize, entryW, rulesW]

/-- weight of the entries whose key is not in `V` -/
def unvis : Prods σ → List σ → Nat
  | [], _ => 0
  | e :: G, V => (if e.1 ∈ V then 0 else entryW e) + unvis G V

theorem unvis_le_gsize : ∀ (G : Prods σ) (V : List σ), unvis G V ≤ gsize G
  | [], _ => by simp [unvis]
  | e :: G, V => by
    rw [unvis, gsize_cons]
    have := unvis_le_gsize G V
    split <;> omega

theorem unvis_mono {V V' : List σ} (hsub : ∀ x ∈ V, x ∈ V') :
    ∀ (G : Prods σ), unvis G V' ≤ unvis G V
  | [] => by simp [unvis]
  | e :: G => by
    rw [unvis, unvis]
    have := unvis_mono hsub G
    by_cases h : e.1 ∈ V
    · simp only [h, hsub _ h, if_true]; omega
    · simp only [h, if_false]
      split <;> omega

theorem unvis_congr {V V' : List σ} (h : ∀ x, x ∈ V ↔ x ∈ V') (G : Prods σ) :
    unvis G V = unvis G V' :=
  Nat.le_antisymm (unvis_mono (fun x hx => (h x).2 hx) G) (unvis_mono (fun x hx => (h x).1 hx) G)

theorem unvis_push {V V' : List σ} {c : σ} {rules : List (Rule σ)} (hsub : ∀ x ∈ V, x ∈ V')
    (hcV : c ∉ V) (hcV' : c ∈ V') :
    ∀ (G : Prods σ), dget c G = some rules → unvis G V' + entryW (c, rules) ≤ unvis G V
  | [], h => by simp [dget] at h
  | (k, v) :: G, h => by
    rw [unvis, unvis]
    unfold dget at h
    split at h
    · rename_i hk
      cases h; subst hk
      have := unvis_mono hsub G
      simp only [hcV, hcV', if_true, if_false]
      omega
    · have := unvis_push hsub hcV hcV' G h
      by_cases hkV : k ∈ V
      · simp only [hkV, hsub _ hkV, if_true]; omega
      · simp only [hkV, if_false]
        split <;> omega

/-! ### what is left of a frame -/

def curW (f : RFrame σ) : Nat :=
  match f.rules[f.pid]? with
  | none => 0
  | some r => 1 + (r.rhs.length + 1 - f.sid)

def frameRem (f : RFrame σ) : Nat := 1 + curW f + rulesW (f.rules.drop (f.pid + 1))

theorem rulesW_drop (rules : List (Rule σ)) (pid : Nat) :
    rulesW (rules.drop pid) =
      (match rules[pid]? with
       | none => 0
       | some r => r.rhs.length + 2) + rulesW (rules.drop (pid + 1)) := by
  cases h : rules[pid]? with
  | none =>
    have hl := List.getElem?_eq_none_iff.1 h
    rw [List.drop_eq_nil_of_le hl, List.drop_eq_nil_of_le (by omega)]
    simp [rulesW]
  | some r =>
    have hl := lt_of_getElem?_some h
    rw [List.drop_eq_getElem_cons hl]
    have : rules[pid] = r := by
      rw [List.getElem?_eq_getElem hl] at h; cases h; rfl
    simp [rulesW, this]

theorem frameRem_new (c : σ) (rules : List (Rule σ)) :
    frameRem { sym := c, rules := rules, pid := 0, sid := 0 } = 1 + rulesW rules := by
  have := rulesW_drop rules 0
  simp only [List.drop_zero] at this
  unfold frameRem curW
  simp only
  rw [this]
  cases rules[0]? <;> simp <;> omega

theorem frameRem_nextProd (f : RFrame σ) :
    frameRem f.nextProd = 1 + rulesW (f.rules.drop (f.pid + 1)) := by
  have := rulesW_drop f.rules (f.pid + 1)
  unfold frameRem curW RFrame.nextProd
  simp only
  rw [this]
  cases f.rules[f.pid + 1]? <;> simp <;> omega

theorem frameRem_nextProd_lt {f : RFrame σ} {r : Rule σ} (hr : f.rules[f.pid]? = some r) :
    frameRem f.nextProd < frameRem f := by
  rw [frameRem_nextProd]
  unfold frameRem curW
  rw [hr]
  simp only
  omega

theorem frameRem_nextSym_lt {f : RFrame σ} {r : Rule σ} {c : σ} (hr : f.rules[f.pid]? = some r)
    (hc : r.rhs[f.sid]? = some c) : frameRem f.nextSym < frameRem f := by
  have := lt_of_getElem?_some hc
  unfold frameRem curW RFrame.nextSym
  simp only
  rw [hr]
  simp only
  omega

theorem frameRem_pos (f : RFrame σ) : 0 < frameRem f := by
  unfold frameRem; omega

/-! ### the potential -/

def pot (G : Prods σ) (P : List σ) (stack : List (RFrame σ)) : Nat :=
  unvis G (P ++ stack.map (·.sym)) + (stack.map frameRem).sum

/-- finishing the top frame does not change the set of visited symbols -/
theorem unvis_pop (G : Prods σ) (P : List σ) (top : RFrame σ) (syms : List σ) :
    unvis G (sadd P top.sym ++ syms) = unvis G (P ++ top.sym :: syms) := by
  apply unvis_congr
  intro x
  simp only [List.mem_append, mem_sadd, List.mem_cons]
  constructor
  · rintro ((h | h) | h)
    · exact Or.inl h
    · exact Or.inr (Or.inl h)
    · exact Or.inr (Or.inr h)
  · rintro (h | h | h)
    · exact Or.inl (Or.inl h)
    · exact Or.inl (Or.inr h)
    · exact Or.inr h

theorem recStep_pot {G : Prods σ} {nulls P P' : List σ} {top : RFrame σ}
    {rest stack' : List (RFrame σ)} (hL : Linked (top :: rest))
    (h : recStep G nulls P (top :: rest) = .cont P' stack') :
    pot G P' stack' < pot G P (top :: rest) := by
  have ht := recStep_trans G nulls P top rest
  rw [h] at ht
  have hpos := frameRem_pos top
  unfold pot
  cases ht with
  | popLast h1 =>
    have := unvis_pop G P top []
    simp only [List.map_cons, List.map_nil, List.sum_cons, List.sum_nil] at this ⊢
    omega
  | @popSym _ p rest' prod cps h1 h2 h3 h4 =>
    have := unvis_pop G P top (p.sym :: rest'.map (·.sym))
    have := frameRem_nextSym_lt h2 h3
    simp only [List.map_cons, List.sum_cons, RFrame.nextSym] at *
    omega
  | @popProd _ p rest' prod cps h1 h2 h3 h4 =>
    have := unvis_pop G P top (p.sym :: rest'.map (·.sym))
    have := frameRem_nextProd_lt h2
    simp only [List.map_cons, List.sum_cons, RFrame.nextProd] at *
    omega
  | ruleEnd h1 h2 h3 =>
    have := frameRem_nextProd_lt h2
    simp only [List.map_cons, List.sum_cons, RFrame.nextProd] at *
    omega
  | seenSym h2 h4 =>
    have := frameRem_nextSym_lt h2 h4
    simp only [List.map_cons, List.sum_cons, RFrame.nextSym] at *
    omega
  | seenProd h2 h4 =>
    have := frameRem_nextProd_lt h2
    simp only [List.map_cons, List.sum_cons, RFrame.nextProd] at *
    omega
  | prevNonNull h2 h4 =>
    have := frameRem_nextProd_lt h2
    simp only [List.map_cons, List.sum_cons, RFrame.nextProd] at *
    omega
  | @push _ _ prod c rules h2 h4 h5 h6 h10 =>
    have hc : c ∉ P ++ (top :: rest).map (·.sym) := by
      intro hm
      rcases List.mem_append.1 hm with hm | hm
      · exact h6 hm
      · obtain ⟨f, hf, he⟩ := List.mem_map.1 hm
        exact h5 f hf he
    have := unvis_push (V := P ++ (top :: rest).map (·.sym))
      (V' := P ++ c :: (top :: rest).map (·.sym)) (c := c) (rules := rules)
      (by
        intro x hx
        rcases List.mem_append.1 hx with hx | hx
        · exact List.mem_append_left _ hx
        · exact List.mem_append_right _ (List.mem_cons_of_mem _ hx))
      hc (List.mem_append_right _ (List.mem_cons_self ..)) G h10
    have hn := frameRem_new c rules
    simp only [List.map_cons, List.sum_cons, entryW] at *
    omega

/-! ### the loops -/

theorem recInner_fuel {G : Prods σ} {nulls : List σ} :
    ∀ (fuel : Nat) (P : List σ) (stack : List (RFrame σ)), SInv G nulls P stack →
    pot G P stack < fuel → recInner G nulls fuel P stack ≠ .error .outOfFuel
  | 0, _, _, _, h => absurd h (Nat.not_lt_zero _)
  | fuel + 1, P, [], _, _ => by simp [recInner]
  | fuel + 1, P, top :: rest, hI, hp => by
    simp only [recInner]
    cases hs : recStep G nulls P (top :: rest) with
    | cycle => simp
    | stuck e =>
      simp only
      intro he; cases he
      rcases recStep_stuck hs with h' | h' <;> cases h'
    | cont P1 st1 =>
      simp only
      have := recStep_pot hI.linked hs
      exact recInner_fuel fuel P1 st1 (recStep_inv hI hs) (by omega)

theorem recOuter_fuel {G : Prods σ} {nulls : List σ} {fuel : Nat} (hfuel : gsize G < fuel) :
    ∀ (order P : List σ), recOuter G nulls fuel order P ≠ .error .outOfFuel
  | [], P => by simp [recOuter]
  | s :: rest, P => by
    rw [recOuter]
    split
    · exact recOuter_fuel hfuel rest P
    · rename_i hs
      unfold dgetE
      cases hg : dget s G with
      | none => simp [bind, Except.bind]
      | some rules =>
        simp only [bind, Except.bind]
        have hpot : pot G P [{ sym := s, rules := rules, pid := 0, sid := 0 }] < fuel := by
          have h1 := unvis_push (V := P) (V' := P ++ [s]) (c := s) (rules := rules)
            (fun x hx => List.mem_append_left _ hx) hs (by simp) G hg
          have h2 := unvis_le_gsize G P
          have h3 := frameRem_new s rules
          unfold pot
          simp only [List.map_cons, List.map_nil, List.sum_cons, List.sum_nil, entryW] at *
          omega
        have hi := recInner_fuel (G := G) (nulls := nulls) fuel P _ (SInv.init hg hs) hpot
        cases hr : recInner G nulls fuel P [{ sym := s, rules := rules, pid := 0, sid := 0 }] with
        | error e =>
          simp only
          intro he; cases he
          exact hi hr
        | ok P1 =>
          simp only
          exact recOuter_fuel hfuel rest P1

/-- **Theorem 4**: the fuel of `recCheck` always suffices -/
theorem recCheck_fuel (G : Prods σ) (terms nulls order : List σ) :
    recCheck G terms nulls order ≠ .error .outOfFuel :=
  recOuter_fuel (by omega) order terms

/-- Theorems 3 + 4: on a closed grammar the check either accepts or reports left recursion -/
theorem recCheck_decides {G : Prods σ} {terms nulls order : List σ}
    (hknown : ∀ X rules, (X, rules) ∈ G → ∀ r ∈ rules, ∀ s ∈ r.rhs, s ∈ terms ∨ s ∈ G.map (·.1))
    (hord' : ∀ s ∈ order, s ∈ terms ∨ s ∈ G.map (·.1)) :
    recCheck G terms nulls order = .ok () ∨
    recCheck G terms nulls order = .error .grammarIsRecursive := by
  rcases recCheck_total (nulls := nulls) hknown hord' with h | h | h
  · exact Or.inl h
  · exact Or.inr h
  · exact absurd h (recCheck_fuel G terms nulls order)

end Fuel
end LL
