import AkVerif.Lemmas.GhistSkip
import AkVerif.Lemmas.GhistBumps
import AkVerif.Lemmas.GhistReport
/-!
C07, parent side at specification level: which component builds a reported build of a parent branch registers,
in terms of git ancestry among the eligible commits of the branch and the versions they pin.
-/
namespace Ghist
open Ak

/-- the reported component build that the version pinned by commit `e` names (`bn_map` of the component) -/
def pinRb (h : Hist Pins) (comp : Nat) (gC : Graph Bumps) (e : Nat) : Option Nat :=
  match h.commits[e]? with
  | some cm =>
    match cm.pins.lookup comp with
    | some v => (gC.bnMapAll.lookup ⟨v.1, v.2.1, v.2.2, v.2.2⟩).map (·.2)
    | none => none
  | none => none

/-! ### inside the component cut-off window every component with reported builds stays relevant -/

theorem lookup_of_mem_keys {ν} : ∀ (l : List (Nat × ν)) (k : Nat), k ∈ l.map (·.1) → ∃ v, l.lookup k = some v ∧ (k, v) ∈ l := by
  intro l
  induction l with
  | nil => intro k hk; cases hk
  | cons a l ih =>
    intro k hk
    obtain ⟨k', v'⟩ := a
    rw [List.lookup_cons]
    by_cases hkk : k = k'
    · subst hkk; exact ⟨v', by simp, by simp⟩
    · have : (k == k') = false := by simpa using hkk
      rw [this]
      simp only [List.map_cons, List.mem_cons] at hk
      rcases hk with hk | hk
      · exact absurd hk hkk
      · obtain ⟨v, h1, h2⟩ := ih k hk
        exact ⟨v, h1, List.mem_cons_of_mem _ h2⟩

theorem compWindow_full {comps : List (Nat × Graph Bumps)} {h : Hist Pins} (hcw : CompWindow comps h) :
    RelInv h (mkPlug comps) (fun rel => rel = (mkPlug comps).relInit) := by
  apply RelInv.full
  intro c cm hcm
  simp only [mkPlug, stillRelevant]
  apply List.filter_eq_self.mpr
  intro comp hcomp
  obtain ⟨g, hl, hmem⟩ := lookup_of_mem_keys _ comp hcomp
  obtain ⟨m, hm, hall⟩ := hcw (comp, g) ((mem_sortBy _ _ _).mp hmem)
  simp only [hl]
  have hm' : g.minTs = some m := hm
  rw [hm']
  simpa using hall c cm hcm

/-- with all components relevant `_mk_bumps_info` runs over every component with reported builds -/
theorem mkPlug_mkBumps_full {comps : List (Nat × Graph Bumps)} {rel : List Nat}
    (hrel : rel = (mkPlug comps).relInit) (pins : Pins) (l : List Bumps) :
    (mkPlug comps).mkBumps rel pins l = mkBumps (sortBy (fun a b => a.1 < b.1) (relevantComps comps)) pins l := by
  subst hrel
  simp only [mkPlug]
  congr 1
  apply List.filter_eq_self.mpr
  intro cg hcg
  simp only [List.contains_eq_mem, List.mem_map, decide_eq_true_eq]
  exact ⟨cg, hcg, rfl⟩

theorem mkPlug_relInit_nil {comps : List (Nat × Graph Bumps)} (hnil : [] = (mkPlug comps).relInit) :
    relevantComps comps = [] := by
  simp only [mkPlug] at hnil
  have h1 : sortBy (fun a b : Nat × Graph Bumps => decide (a.1 < b.1)) (relevantComps comps) = [] :=
    List.map_eq_nil_iff.mp hnil.symm
  have := (sortBy_perm (fun a b : Nat × Graph Bumps => decide (a.1 < b.1)) (relevantComps comps)).length_eq
  rw [h1] at this
  exact List.length_eq_zero_iff.mp this.symm

/-- the bump recorded for a component whose pinned version is known to its `bn_map` -/
theorem bump_of_pin {comps : List (Nat × Graph Bumps)} {comp : Nat} {gC : Graph Bumps}
    (hcomp : ∀ g', (comp, g') ∈ comps → g' = gC) (hin : (comp, gC) ∈ comps)
    {pins : Pins} {parents : List Bumps} {bumps : Bumps} {v : Ver} {t : Nat}
    (hmk : mkBumps (sortBy (fun a b => a.1 < b.1) (relevantComps comps)) pins parents = .ok bumps)
    (hv : pins.lookup comp = some v)
    (hlk : (gC.bnMapAll.lookup ⟨v.1, v.2.1, v.2.2, v.2.2⟩).map (·.2) = some t) :
    ∃ bump, bumps.lookup comp = some bump ∧ bump.toRb = some t ∧ bump.fromRbs = fromSet comp parents := by
  have hrel : (comp, gC) ∈ sortBy (fun a b : Nat × Graph Bumps => decide (a.1 < b.1)) (relevantComps comps) := by
    apply (mem_sortBy _ _ _).mpr
    simp only [relevantComps, List.mem_filter]
    refine ⟨hin, ?_⟩
    cases hb : gC.bnMapAll with
    | nil => rw [hb] at hlk; simp at hlk
    | cons x xs => simp
  have hsub : ∀ g', (comp, g') ∈ sortBy (fun a b : Nat × Graph Bumps => decide (a.1 < b.1)) (relevantComps comps) →
      g' = gC := by
    intro g' hg'
    have := (mem_sortBy _ _ _).mp hg'
    simp only [relevantComps, List.mem_filter] at this
    exact hcomp g' this.1
  have hspec : ∀ bump, (comp, bump) ∈ bumps → mkBump gC comp v parents = .ok bump := by
    intro bump hb
    obtain ⟨g', v', h1, h2, h3⟩ := mkBumps_mem hmk comp bump hb
    rw [hsub g' h1] at h3
    rw [hv] at h2; cases h2
    exact h3
  obtain ⟨g', bump, h1, h2, h3⟩ := mkBumps_complete hmk comp gC v hrel hv
  rw [hsub g' h1] at h3
  refine ⟨bump, lookup_of_unique h2 (fun b' hb' => ?_), ?_, (mkBump_spec h3).1⟩
  · have := hspec b' hb'
    rw [h3] at this; cases this; rfl
  · obtain ⟨_, h5, h6⟩ := mkBump_spec h3
    rcases h6 with ⟨e, h7, h8⟩ | ⟨h7, _⟩
    · rw [h5] at h7
      rw [h7] at hlk
      simp at hlk
      rw [h8, hlk]
    · rw [h5] at h7
      rw [h7] at hlk; simp at hlk

/-- the bump recorded for a pinned component that has a non-empty `bn_map` (the pinned version may be unknown to it) -/
theorem bump_of_pin' {comps : List (Nat × Graph Bumps)} {comp : Nat} {gC : Graph Bumps}
    (hcomp : ∀ g', (comp, g') ∈ comps → g' = gC) (hin : (comp, gC) ∈ comps) (hne : gC.bnMapAll ≠ [])
    {pins : Pins} {parents : List Bumps} {bumps : Bumps} {v : Ver}
    (hmk : mkBumps (sortBy (fun a b => a.1 < b.1) (relevantComps comps)) pins parents = .ok bumps)
    (hv : pins.lookup comp = some v) :
    ∃ bump, bumps.lookup comp = some bump ∧ mkBump gC comp v parents = .ok bump := by
  have hrel : (comp, gC) ∈ sortBy (fun a b : Nat × Graph Bumps => decide (a.1 < b.1)) (relevantComps comps) := by
    apply (mem_sortBy _ _ _).mpr
    simp only [relevantComps, List.mem_filter]
    refine ⟨hin, ?_⟩
    cases hb : gC.bnMapAll with
    | nil => exact absurd hb hne
    | cons x xs => simp
  have hsub : ∀ g', (comp, g') ∈ sortBy (fun a b : Nat × Graph Bumps => decide (a.1 < b.1)) (relevantComps comps) →
      g' = gC := by
    intro g' hg'
    have := (mem_sortBy _ _ _).mp hg'
    simp only [relevantComps, List.mem_filter] at this
    exact hcomp g' this.1
  have hspec : ∀ bump, (comp, bump) ∈ bumps → mkBump gC comp v parents = .ok bump := by
    intro bump hb
    obtain ⟨g', v', h1, h2, h3⟩ := mkBumps_mem hmk comp bump hb
    rw [hsub g' h1] at h3
    rw [hv] at h2; cases h2
    exact h3
  obtain ⟨g', bump, h1, h2, h3⟩ := mkBumps_complete hmk comp gC v hrel hv
  rw [hsub g' h1] at h3
  refine ⟨bump, lookup_of_unique h2 (fun b' hb' => ?_), h3⟩
  have := hspec b' hb'
  rw [h3] at this; cases this; rfl

theorem pinRb_bnMap_ne {h : Hist Pins} {comp : Nat} {gC : Graph Bumps} {e t : Nat}
    (hp : pinRb h comp gC e = some t) : gC.bnMapAll ≠ [] := by
  intro hb
  unfold pinRb at hp
  split at hp
  · split at hp
    · rw [hb] at hp; simp at hp
    · cases hp
  · cases hp

end Ghist
