import AkVerif.Lemmas.ColorsConfHist
/-!
Lemmas for C14, third part: when a registration does not raise.

* colours produced by the description parser are accepted by `ColorFmt` (`parseInitStr_ok`);
* on an acyclic set of descriptions the walk up the parent chain neither meets the circular-dependency
  assertion nor runs out of fuel (`walk_total`), the resolution of a path does not fail
  (`resolvePath_total`), and the `while to_resolve` loop ends within two passes (`loop_total`).
-/
namespace ColorsConf
open Ak

/-! ### colours the formatter accepts -/

def isOk {α : Type} : Except Err α → Bool
  | .ok _ => true
  | .error _ => false

def colorOk (c : Color) : Bool := isOk (seqElement false c) && isOk (seqElement true c)

def partOk : Part → Bool
  | .col c => colorOk c
  | _ => true

def descOk (d : Desc) : Bool := partOk d.fg && partOk d.bg

def optColorOk : Option Color → Bool
  | some c => colorOk c
  | none => true

def resOk (r : Resolved) : Bool := optColorOk r.fg && optColorOk r.bg

theorem names_ok : ∀ c ∈ Gen.C14.colorNames, c = [] ∨ c = ['-'] ∨ colorOk (.named c) = true := by
  decide +kernel

theorem natRange_le {i : Int} {lo hi n : Nat} (h : natRange i lo hi = some n) : n ≤ hi := by
  unfold natRange at h
  split at h
  · rename_i hc
    cases h
    omega
  · cases h

theorem colorOk_num {n : Nat} (h : n ≤ 255) : colorOk (.num n) = true := by
  have : ¬ n > 255 := by omega
  simp [colorOk, seqElement, isOk, this]

theorem colorOk_rgb {r g b : Nat} (hr : r ≤ 5) (hg : g ≤ 5) (hb : b ≤ 5) : colorOk (.rgb r g b) = true := by
  have h1 : ¬ (r > 5 ∨ g > 5 ∨ b > 5) := by omega
  have h2 : ¬ (16 + r * 36 + g * 6 + b > 255) := by omega
  simp [colorOk, seqElement, isOk, h1, h2]

theorem parseColorImpl_ok {s : Str} {p : Part} (h : parseColorImpl s = some p) : partOk p = true := by
  unfold parseColorImpl at h
  simp only at h
  split at h
  · rename_i hmem
    rcases names_ok _ hmem with h0 | h1 | h2
    · simp [h0] at h; subst h; rfl
    · simp [h1] at h; subst h; rfl
    · split at h
      · cases h; rfl
      · split at h
        · cases h; rfl
        · cases h; exact h2
  · split at h
    · split at h
      · cases h
      · split at h
        · split at h
          · split at h
            · rename_i r g bl hr hg hb
              cases h
              exact colorOk_rgb (natRange_le hr) (natRange_le hg) (natRange_le hb)
            · cases h
          · cases h
        · cases h
    · split at h
      · rename_i i hi
        cases hn : natRange i 0 255 with
        | none => simp [hn] at h
        | some n =>
          simp [hn] at h
          subst h
          exact colorOk_num (natRange_le hn)
      · cases h

theorem parseColorsPart_ok {s : Str} {cp : ColorsPart} (h : parseColorsPart s = some cp) :
    (∀ p, cp.fg = some p → partOk p = true) ∧ (∀ p, cp.bg = some p → partOk p = true) := by
  unfold parseColorsPart at h
  split at h
  · split at h
    · rename_i fg hfg
      cases h
      exact ⟨fun p hp => (by cases hp; exact parseColorImpl_ok hfg), fun p hp => (by cases hp; rfl)⟩
    · split at h
      · cases h
      · cases h
        exact ⟨fun p hp => (by cases hp), fun p hp => (by cases hp)⟩
  · split at h
    · rename_i fg bg hfg hbg
      cases h
      exact ⟨fun p hp => (by cases hp; exact parseColorImpl_ok hfg),
             fun p hp => (by cases hp; exact parseColorImpl_ok hbg)⟩
    · cases h
  · cases h

theorem optPart_ok {o : Option Part} (h : ∀ p, o = some p → partOk p = true) : partOk (optPart o) = true := by
  cases o with
  | none => rfl
  | some p => exact h p rfl

theorem descOk_mk {par : Option Id} {fg bg : Part} {m : Mods} (h1 : partOk fg = true) (h2 : partOk bg = true) :
    descOk ⟨par, fg, bg, m⟩ = true := by
  simp [descOk, h1, h2]

theorem parseInitStr_ok {s : Str} {d : Desc} (h : parseInitStr s = .ok d) : descOk d = true := by
  unfold parseInitStr at h
  split at h
  · -- one section
    split at h
    · cases h
    · rename_i p hp
      cases h
      obtain ⟨h1, h2⟩ := parseColorsPart_ok hp
      exact descOk_mk (optPart_ok h1) (optPart_ok h2)
  · split at h
    · cases h
    · split at h
      · cases h
      · rename_i p hp
        obtain ⟨h1, h2⟩ := parseColorsPart_ok hp
        split at h
        · -- the second section is the modifiers
          split at h
          · cases h
          · split at h
            · cases h
            · cases h
              exact descOk_mk (optPart_ok h1) (optPart_ok h2)
        · rename_i p1 hp1
          obtain ⟨h3, h4⟩ := parseColorsPart_ok hp1
          split at h
          · cases h
          · split at h
            · cases h
            · split at h
              · cases h
              · split at h
                · cases h
                  exact descOk_mk (optPart_ok h3) (optPart_ok h4)
                · split at h
                  · cases h
                  · cases h
                    exact descOk_mk (optPart_ok h3) (optPart_ok h4)
  · cases h

theorem seqOpt_ok {isBg : Bool} {o : Option Color} (h : optColorOk o = true) : ∃ l, seqOpt isBg o = .ok l := by
  cases o with
  | none => exact ⟨[], rfl⟩
  | some c =>
    simp only [optColorOk, colorOk, Bool.and_eq_true] at h
    unfold seqOpt
    cases isBg with
    | false =>
      cases hs : seqElement false c with
      | ok x => exact ⟨[x], by simp [hs]⟩
      | error e => simp [hs, isOk] at h
    | true =>
      cases hs : seqElement true c with
      | ok x => exact ⟨[x], by simp [hs]⟩
      | error e => simp [hs, isOk] at h

theorem colorFmt_ok {r : Resolved} (h : resOk r = true) : ∃ f, colorFmt r = .ok f := by
  simp only [resOk, Bool.and_eq_true] at h
  obtain ⟨l1, h1⟩ := seqOpt_ok (isBg := false) h.1
  obtain ⟨l2, h2⟩ := seqOpt_ok (isBg := true) h.2
  unfold colorFmt
  simp only [h1, h2]
  exact ⟨_, rfl⟩

theorem mkFmt_ok (nc : Bool) {r : Resolved} (h : resOk r = true) : ∃ f, mkFmt nc r = .ok f := by
  unfold mkFmt
  split
  · exact ⟨[], rfl⟩
  · exact colorFmt_ok h

theorem pickColor_ok {inh : Option Color} {p : Part} (h1 : optColorOk inh = true) (h2 : partOk p = true) :
    optColorOk (pickColor inh p) = true := by
  cases p with
  | unspec => exact h1
  | dflt => rfl
  | col c => exact h2

theorem effOf_ok {par : Option Resolved} {d : Desc} (hp : ∀ p, par = some p → resOk p = true)
    (hd : descOk d = true) : resOk (effOf par d) = true := by
  simp only [descOk, Bool.and_eq_true] at hd
  cases par with
  | none =>
    simp only [effOf, resOk, Bool.and_eq_true]
    exact ⟨pickColor_ok rfl hd.1, pickColor_ok rfl hd.2⟩
  | some p =>
    have := hp p rfl
    simp only [resOk, Bool.and_eq_true] at this
    simp only [effOf, resOk, Bool.and_eq_true]
    exact ⟨pickColor_ok this.1 hd.1, pickColor_ok this.2 hd.2⟩

/-- every description of the map is accepted by the formatter -/
def AllOk (m : SMap) : Prop := ∀ id e, lookup m id = some e → descOk e.desc = true

theorem Parsed.allOk {m : SMap} (h : Parsed m) : AllOk m :=
  fun id e hl => parseInitStr_ok (h id e hl)

theorem Resolves.ok {dm : Id → Option Desc} (hall : ∀ id d, dm id = some d → descOk d = true)
    {id : Id} {r : Resolved} (h : Resolves dm id r) : resOk r = true := by
  induction h with
  | root hd _ => exact effOf_ok (fun p hp => by cases hp) (hall _ _ hd)
  | step hd _ _ ih => exact effOf_ok (fun p hp => by cases hp; exact ih) (hall _ _ hd)

theorem AllOk.descOf {m : SMap} (h : AllOk m) : ∀ id d, descOf m id = some d → descOk d = true := by
  intro id d hd
  unfold ColorsConf.descOf at hd
  cases hl : lookup m id with
  | none => simp [hl] at hd
  | some e => simp [hl] at hd; rw [← hd]; exact h id e hl

/-! ### bounds -/

theorem nodup_subset_length {α : Type} [DecidableEq α] : ∀ (l1 l2 : List α),
    l1.Nodup → (∀ x ∈ l1, x ∈ l2) → l1.length ≤ l2.length := by
  intro l1
  induction l1 with
  | nil => intro l2 _ _; simp
  | cons x t ih =>
    intro l2 hnd hsub
    obtain ⟨hx, ht⟩ := List.nodup_cons.mp hnd
    have hx2 : x ∈ l2 := hsub x List.mem_cons_self
    have hsub' : ∀ y ∈ t, y ∈ l2.erase x := by
      intro y hy
      have hne : y ≠ x := fun h => hx (h ▸ hy)
      exact (List.mem_erase_of_ne hne).mpr (hsub y (List.mem_cons_of_mem _ hy))
    have := ih (l2.erase x) ht hsub'
    rw [List.length_erase_of_mem hx2] at this
    have hpos : 0 < l2.length := List.length_pos_of_mem hx2
    simp only [List.length_cons]
    omega

theorem lookup_isSome_mem {m : SMap} {id : Id} (h : (lookup m id).isSome) : id ∈ m.map (·.1) := by
  induction m with
  | nil => simp [lookup] at h
  | cons ke m ih =>
    obtain ⟨k, e⟩ := ke
    by_cases hk : k = id
    · simp [hk]
    · simp [lookup, hk] at h
      simp; exact .inr (by simpa using ih h)

/-- `N` bounds the number of distinct ids of the map -/
def Bound (N : Nat) (m : SMap) : Prop :=
  ∀ l : List Id, l.Nodup → (∀ x ∈ l, (lookup m x).isSome) → l.length ≤ N

theorem bound_self (m : SMap) : Bound m.length m := by
  intro l hnd hall
  have := nodup_subset_length l (m.map (·.1)) hnd (fun x hx => lookup_isSome_mem (hall x hx))
  simpa using this

theorem Frame.isSome {m m' : SMap} (h : Frame m m') (id : Id) : (lookup m' id).isSome = (lookup m id).isSome := by
  have := h id
  cases h1 : lookup m' id <;> cases h2 : lookup m id <;> simp [h1, h2] at this ⊢

theorem Bound.frame {N : Nat} {m m' : SMap} (hb : Bound N m) (h : Frame m m') : Bound N m' :=
  fun l hnd hall => hb l hnd (fun x hx => by rw [← h.isSome]; exact hall x hx)

theorem AllOk.frame {m m' : SMap} (ha : AllOk m) (h : Frame m m') : AllOk m' := by
  intro id e' hl'
  have := h id
  cases h2 : lookup m id with
  | none => simp [hl', h2] at this
  | some e =>
    simp [hl', h2] at this
    rw [this.2]; exact ha id e h2

def RankOK (rank : Id → Nat) (dm : Id → Option Desc) : Prop :=
  ∀ id d p, dm id = some d → d.parent = some p → (dm p).isSome → rank p < rank id

/-! ### no step of the resolution fails -/

theorem walk_total {m : SMap} {cant : List Id} {N : Nat} {rank : Id → Nat}
    (hrank : RankOK rank (descOf m)) (hb : Bound N m) :
    ∀ (fuel : Nat) (cur : Id) (rpath : List Id), (lookup m cur).isSome → rpath.Nodup →
      (∀ x ∈ rpath, (lookup m x).isSome) → (∀ x ∈ rpath, rank cur < rank x) →
      N + 1 ≤ fuel + rpath.length → ∃ res, walk m cant fuel cur rpath = .ok res := by
  intro fuel
  induction fuel with
  | zero =>
    intro cur rpath _ hnd hkeys _ hfuel
    have := hb rpath hnd hkeys
    omega
  | succ fuel ih =>
    intro cur rpath hcur hnd hkeys hranks hfuel
    unfold walk
    have hnotin : cur ∉ rpath := fun hin => Nat.lt_irrefl _ (hranks cur hin)
    simp only [hnotin, if_false]
    cases hl : lookup m cur with
    | none => simp [hl] at hcur
    | some e =>
      simp only
      cases hres : e.res with
      | some r => exact ⟨_, rfl⟩
      | none =>
        simp only
        cases hpar : e.desc.parent with
        | none => exact ⟨_, rfl⟩
        | some p =>
          simp only
          split
          · exact ⟨_, rfl⟩
          · rename_i hstop
            have hp : (lookup m p).isSome := by
              cases hlp : lookup m p with
              | none => exact absurd (.inr (by simp [hlp])) hstop
              | some _ => rfl
            have hd : descOf m cur = some e.desc := by simp [descOf, hl]
            have hdp : (descOf m p).isSome := by
              cases hlp : lookup m p with
              | none => simp [hlp] at hp
              | some _ => simp [descOf, hlp]
            have hlt : rank p < rank cur := hrank cur e.desc p hd hpar hdp
            apply ih p (cur :: rpath) hp (List.nodup_cons.mpr ⟨hnotin, hnd⟩)
            · intro x hx
              rcases List.mem_cons.mp hx with rfl | hx
              · exact hcur
              · exact hkeys x hx
            · intro x hx
              rcases List.mem_cons.mp hx with rfl | hx
              · exact hlt
              · exact Nat.lt_trans hlt (hranks x hx)
            · simp only [List.length_cons]; omega

theorem resolvePath_total {nc : Bool} : ∀ (rpath : List Id) (m : SMap) (top : Id) (par : Resolved),
    AllOk m → ChainTo m top rpath → rpath.Nodup → resOk par = true →
    ∃ m', resolvePath nc m par rpath = .ok m' := by
  intro rpath
  induction rpath with
  | nil => intro m top par _ _ _ _; exact ⟨m, rfl⟩
  | cons x rest ih =>
    intro m top par hall hc hnd hpar
    obtain ⟨⟨e, hl, hn, hp⟩, hrest⟩ := hc
    obtain ⟨hxrest, hndrest⟩ := List.nodup_cons.mp hnd
    unfold resolvePath
    simp only [hl, hn]
    have hok : resOk (effOf (some par) e.desc) = true :=
      effOf_ok (fun p hp' => by cases hp'; exact hpar) (hall x e hl)
    obtain ⟨f, hf⟩ := mkFmt_ok nc hok
    have h1 : resolve1 nc e.desc (some par) = .ok ⟨effOf (some par) e.desc, f⟩ := by
      unfold resolve1
      simp [hp, hf]
    simp only [h1]
    have hsame : ∀ y ∈ rest, lookup (setRes m x ⟨effOf (some par) e.desc, f⟩) y = lookup m y := by
      intro y hy
      apply lookup_setRes_other
      intro hyx; subst hyx; exact hxrest hy
    exact ih _ x _ (hall.frame (frame_setRes m x _)) (chainTo_congr rest x hsame hrest) hndrest hok

theorem passStep_total {nc : Bool} {fuel N : Nat} {dm : Id → Option Desc} {rank : Id → Nat} {s : PassSt}
    {id : Id} (hi : PInv nc dm s) (hall : AllOk s.m) (hrank : RankOK rank dm) (hb : Bound N s.m)
    (hfuel : N + 1 ≤ fuel) (hid : (lookup s.m id).isSome) : ∃ s', passStep nc fuel s id = .ok s' := by
  unfold passStep
  cases hl : lookup s.m id with
  | none => simp [hl] at hid
  | some e =>
    simp only
    cases hres : e.res with
    | some r => exact ⟨s, by simp⟩
    | none =>
      simp only [Option.isSome_none, Bool.false_eq_true, if_false]
      have hrank' : RankOK rank (descOf s.m) := by rw [hi.desc]; exact hrank
      obtain ⟨res, hw⟩ := walk_total (cant := s.cant) hrank' hb fuel id [] hid List.nodup_nil
        (fun x hx => by cases hx) (fun x hx => by cases hx) (by simpa using hfuel)
      rw [hw]
      cases res with
      | stuck p => exact ⟨_, rfl⟩
      | found par p =>
        simp only
        obtain ⟨anc, e2, r2, hc, hnd, hl2, hr2, hp2, _, _⟩ :=
          walk_found fuel id [] p par trivial List.nodup_nil hw
        have hres2 : Resolves (descOf s.m) anc r2.eff := (hi.sound anc e2 r2 hl2 hr2).1
        have hpar : resOk par = true := by rw [← hp2]; exact hres2.ok hall.descOf
        obtain ⟨m', hm'⟩ := resolvePath_total (nc := nc) p s.m anc par hall hc hnd hpar
        rw [hm']
        exact ⟨_, rfl⟩

theorem pass_total {nc : Bool} {fuel N : Nat} {dm : Id → Option Desc} {rank : Id → Nat}
    (hrank : RankOK rank dm) (hfuel : N + 1 ≤ fuel) :
    ∀ (ids : List Id) (s : PassSt), PInv nc dm s → AllOk s.m → Bound N s.m →
      (∀ id ∈ ids, (lookup s.m id).isSome) → ∃ s', pass nc fuel s ids = .ok s' := by
  intro ids
  induction ids with
  | nil => intro s _ _ _ _; exact ⟨s, rfl⟩
  | cons id ids ih =>
    intro s hi hall hb hkeys
    obtain ⟨s1, h1⟩ := passStep_total hi hall hrank hb hfuel (hkeys id List.mem_cons_self)
    unfold pass
    simp only [h1]
    obtain ⟨hi1, _, _⟩ := passStep_spec hi h1
    have hf := passStep_frame h1
    exact ih s1 hi1 (hall.frame hf) (hb.frame hf)
      (fun x hx => by rw [hf.isSome]; exact hkeys x (List.mem_cons_of_mem _ hx))

/-- an item that is already `Done` does not count as newly resolved -/
theorem passStep_done {nc : Bool} {fuel : Nat} {dm : Id → Option Desc} {s s' : PassSt} {id : Id}
    (hi : PInv nc dm s) (hd : Done dm s.m id) (h : passStep nc fuel s id = .ok s') : s'.any = s.any := by
  obtain ⟨hi', _, _⟩ := passStep_spec hi h
  unfold passStep at h
  cases hl : lookup s.m id with
  | none => simp [hl] at h
  | some e =>
    simp only [hl] at h
    cases hres : e.res with
    | some r => simp [hres] at h; subst h; rfl
    | none =>
      simp only [hres] at h
      have hnot : ¬ Resolvable dm id := by
        rcases hd with ⟨e', hl', hr'⟩ | hn
        · rw [hl] at hl'; cases hl'; exact absurd hres hr'
        · exact hn
      cases hw : walk s.m s.cant fuel id [] with
      | error err => simp [hw] at h
      | ok w =>
        cases w with
        | stuck p => simp [hw] at h; subst h; rfl
        | found par p =>
          exfalso
          simp only [hw] at h
          cases hrp : resolvePath nc s.m par p with
          | error err => simp [hrp] at h
          | ok m' =>
            simp [hrp] at h
            subst h
            obtain ⟨anc, e2, r2, hc, hnd, hl2, hr2, hp2, hstart, _⟩ :=
              walk_found fuel id [] p par trivial List.nodup_nil hw
            have hanc : Resolves (descOf s.m) anc par := by
              rw [← hp2]; exact (hi.sound anc e2 r2 hl2 hr2).1
            obtain ⟨hs', _, he', hall⟩ := resolvePath_spec p s.m anc par m' hi.sound hi.roots hc hnd hanc hrp
            obtain ⟨e3, hl3, hr3⟩ := hall id (hstart e hl hres)
            cases hr3' : e3.res with
            | none => exact hr3 hr3'
            | some r3 =>
              have := (hs' id e3 r3 hl3 hr3').1
              rw [he'.1, hi.desc] at this
              exact hnot ⟨_, this⟩

theorem pass_done {nc : Bool} {fuel : Nat} {dm : Id → Option Desc} :
    ∀ (ids : List Id) (s s' : PassSt), PInv nc dm s → (∀ id ∈ ids, Done dm s.m id) →
      pass nc fuel s ids = .ok s' → s'.any = s.any := by
  intro ids
  induction ids with
  | nil => intro s s' _ _ h; simp [pass] at h; subst h; rfl
  | cons id ids ih =>
    intro s s' hi hd h
    unfold pass at h
    cases h1 : passStep nc fuel s id with
    | error err => simp [h1] at h
    | ok s1 =>
      simp [h1] at h
      obtain ⟨hi1, he1, _⟩ := passStep_spec hi h1
      have := passStep_done hi (hd id List.mem_cons_self) h1
      rw [ih s1 s' hi1 (fun x hx => (hd x (List.mem_cons_of_mem _ hx)).ext he1) h, this]

theorem loop_total {nc : Bool} {wfuel N : Nat} {ids : List Id} {dm : Id → Option Desc} {rank : Id → Nat}
    (hrank : RankOK rank dm) (hfuel : N + 1 ≤ wfuel) :
    ∀ (fuel : Nat) (m : SMap) (cant : List Id), 2 ≤ fuel → PInv nc dm ⟨m, cant, false⟩ → AllOk m → Bound N m →
      (∀ id ∈ ids, (lookup m id).isSome) → ∃ m', loop nc wfuel ids fuel m cant = .ok m' := by
  intro fuel m cant hf hi hall hb hkeys
  obtain ⟨fuel1, rfl⟩ : ∃ k, fuel = k + 1 := ⟨fuel - 1, by omega⟩
  obtain ⟨s1, hp1⟩ := pass_total hrank hfuel ids ⟨m, cant, false⟩ hi hall hb hkeys
  unfold loop
  simp only [hp1]
  split
  · obtain ⟨hi1, _, hdone⟩ := pass_spec ids _ s1 hi hp1
    have hfr := pass_frame ids _ s1 hp1
    obtain ⟨fuel2, rfl⟩ : ∃ k, fuel1 = k + 1 := ⟨fuel1 - 1, by omega⟩
    have hi2 : PInv nc dm ⟨s1.m, s1.cant, false⟩ := ⟨hi1.sound, hi1.roots, hi1.desc, hi1.cant⟩
    obtain ⟨s2, hp2⟩ := pass_total hrank hfuel ids ⟨s1.m, s1.cant, false⟩ hi2 (hall.frame hfr) (hb.frame hfr)
      (fun x hx => by rw [hfr.isSome]; exact hkeys x hx)
    have hany := pass_done ids _ s2 hi2 hdone hp2
    unfold loop
    simp only [hp2]
    simp at hany
    simp [hany]
  · exact ⟨_, rfl⟩

theorem sortIds_nil {l : List Id} (h : sortIds l = []) : l = [] := by
  cases l with
  | nil => rfl
  | cons x t =>
    have : x ∈ sortIds (x :: t) := mem_sortIds.mpr List.mem_cons_self
    rw [h] at this; cases this

theorem length_sortIds_pos {l : List Id} (h : sortIds l ≠ []) : 1 ≤ (sortIds l).length := by
  cases hs : sortIds l with
  | nil => exact absurd hs h
  | cons _ _ => simp

theorem mem_unresolvedIds_isSome {m : SMap} {id : Id} (h : id ∈ unresolvedIds m) : (lookup m id).isSome := by
  induction m with
  | nil => simp [unresolvedIds] at h
  | cons ke m ih =>
    obtain ⟨k, e⟩ := ke
    by_cases hk : k = id
    · simp [lookup, hk]
    · simp only [lookup, hk, if_false]
      apply ih
      unfold unresolvedIds at h ⊢
      simp only [List.filter] at h
      split at h
      · simp at h
        rcases h with h | h
        · exact absurd h.symm hk
        · simpa using h
      · exact h

theorem resolveAll_total {nc : Bool} {m : SMap} (hs : Sound nc m) (hr : Roots m) (hall : AllOk m)
    (hac : Acyclic (descOf m)) : ∃ m', resolveAll nc m = .ok m' := by
  obtain ⟨rank, hrank⟩ := hac
  unfold resolveAll
  simp only
  split
  · exact ⟨m, rfl⟩
  · rename_i hne
    have hi : PInv nc (descOf m) ⟨m, [], false⟩ := ⟨hs, hr, rfl, fun x hx => by cases hx⟩
    apply loop_total (rank := rank) (N := m.length) hrank (Nat.le_refl _) _ m [] _ hi hall (bound_self m)
    · intro id hid
      exact mem_unresolvedIds_isSome (mem_sortIds.mp hid)
    · have := length_sortIds_pos hne
      omega

theorem insertItems_total {nc : Bool} : ∀ (items : List (Id × Str)) (m : SMap),
    (∀ kv ∈ items, ∃ d, parseInitStr kv.2 = .ok d) → ∃ m', insertItems nc m items = .ok m' := by
  intro items
  induction items with
  | nil => intro m _; exact ⟨m, rfl⟩
  | cons kv rest ih =>
    intro m hparse
    obtain ⟨k, s⟩ := kv
    have hrest : ∀ kv ∈ rest, ∃ d, parseInitStr kv.2 = .ok d :=
      fun kv hkv => hparse kv (List.mem_cons_of_mem _ hkv)
    unfold insertItems
    split
    · exact ih m hrest
    · obtain ⟨d, hd⟩ := hparse (k, s) List.mem_cons_self
      simp only at hd
      simp only [hd]
      cases hpar : d.parent with
      | some p => exact ih _ hrest
      | none =>
        simp only
        have hok : resOk (effOf none d) = true := effOf_ok (fun p hp => by cases hp) (parseInitStr_ok hd)
        obtain ⟨f, hf⟩ := mkFmt_ok nc hok
        have h1 : resolve1 nc d none = .ok ⟨effOf none d, f⟩ := by
          unfold resolve1
          simp [hpar, hf]
        simp only [h1]
        exact ih _ hrest

/-- **a registration does not raise**: valid descriptions, acyclic result -/
theorem addNewItems_total {c : Conf} {items : List (Id × Str)} (hg : Good c.noColor c.map)
    (hparse : ∀ kv ∈ items, ∃ d, parseInitStr kv.2 = .ok d)
    (hac : Acyclic (fun id => (firstStr (strOf c.map) items id).bind parsed)) :
    ∃ c', addNewItems c items = .ok c' := by
  unfold addNewItems
  split
  · exact ⟨c, rfl⟩
  · obtain ⟨m1, h1⟩ := insertItems_total (nc := c.noColor) items c.map hparse
    obtain ⟨hs1, hr1, hp1, hstr1⟩ := insertItems_spec items c.map m1 hg.sound hg.roots hg.parsed h1
    have hd : descOf m1 = fun id => (firstStr (strOf c.map) items id).bind parsed := by
      funext id; rw [hp1.descOf, hstr1]
    obtain ⟨m2, h2⟩ := resolveAll_total hs1 hr1 hp1.allOk (by rw [hd]; exact hac)
    simp only [h1, h2]
    exact ⟨_, rfl⟩

/-! ### a whole history without palette creation does not raise -/

theorem Acyclic.sub {dm dm' : Id → Option Desc} (hsub : ∀ id d, dm id = some d → dm' id = some d)
    (h : Acyclic dm') : Acyclic dm := by
  obtain ⟨rank, hr⟩ := h
  refine ⟨rank, fun id d p hd hp hps => hr id d p (hsub id d hd) hp ?_⟩
  cases hdp : dm p with
  | none => simp [hdp] at hps
  | some d' => simp [hsub p d' hdp]

theorem dictGet_append_sub {β : Type} {a b : List (Str × β)} {k : Str} {v : β} (h : dictGet a k = some v) :
    dictGet (a ++ b) k = some v := by
  rw [dictGet_append, h]

/-- the names under which the operations of a history register components -/
def regNames : List Op → List Str
  | [] => []
  | .reg n _ :: ops => n :: regNames ops
  | _ :: ops => regNames ops

theorem step_total {classes : List ClassDef} {c : Conf} {pre items : List (Id × Str)}
    (hg : CGood classes c) (hstr : strOf c.map = dictGet pre)
    (hparse : ∀ kv ∈ items, ∃ d, parseInitStr kv.2 = .ok d)
    (hac : Acyclic (fun id => (dictGet (pre ++ items) id).bind parsed)) :
    ∃ c', addNewItems c items = .ok c' ∧ CGood classes c' ∧ strOf c'.map = dictGet (pre ++ items) ∧
      c'.sources = c.sources ∧ c'.noColor = c.noColor := by
  have hfs : firstStr (strOf c.map) items = dictGet (pre ++ items) := by
    rw [hstr, ← firstStr_empty pre, firstStr_append, firstStr_empty]
  obtain ⟨c', h⟩ := addNewItems_total hg.good hparse (by rw [hfs]; exact hac)
  obtain ⟨hg', hl, hsrc, hs⟩ := addNewItems_cgood hg h
  exact ⟨c', h, hg', by rw [hs, hfs], hsrc, hl.nc⟩

theorem runOps_total {classes : List ClassDef} : ∀ (ops : List Op) (w : World) (pre : List (Id × Str)),
    WGood classes w → strOf w.conf.map = dictGet pre → (∀ op ∈ ops, op.plain = true) →
    (regNames ops).Nodup → (∀ n ∈ regNames ops, Src.name n ∉ w.conf.sources) →
    (∀ kv ∈ ops.flatMap opItems, ∃ d, parseInitStr kv.2 = .ok d) →
    Acyclic (fun id => (dictGet (pre ++ ops.flatMap opItems) id).bind parsed) →
    ∃ w', runOps classes w ops = .ok w' := by
  intro ops
  induction ops with
  | nil => intro w _ _ _ _ _ _ _ _; exact ⟨w, rfl⟩
  | cons op ops ih =>
    intro w pre hg hstr hpl hnd hfresh hparse hac
    have hpl' : ∀ op' ∈ ops, op'.plain = true := fun o ho => hpl o (List.mem_cons_of_mem _ ho)
    have hparse1 : ∀ kv ∈ opItems op, ∃ d, parseInitStr kv.2 = .ok d := by
      intro kv hkv
      apply hparse kv
      simp only [List.flatMap_cons, List.mem_append]
      exact .inl hkv
    have hparse2 : ∀ kv ∈ ops.flatMap opItems, ∃ d, parseInitStr kv.2 = .ok d := by
      intro kv hkv
      apply hparse kv
      simp only [List.flatMap_cons, List.mem_append]
      exact .inr hkv
    have hac1 : Acyclic (fun id => (dictGet (pre ++ opItems op) id).bind parsed) := by
      refine Acyclic.sub ?_ hac
      intro id d hd
      simp only [List.flatMap_cons, ← List.append_assoc]
      cases hg1 : dictGet (pre ++ opItems op) id with
      | none => simp [hg1] at hd
      | some s => rw [dictGet_append_sub hg1]; simpa [hg1] using hd
    have hac2 : Acyclic (fun id => (dictGet ((pre ++ opItems op) ++ ops.flatMap opItems) id).bind parsed) := by
      simpa [List.flatMap_cons, List.append_assoc] using hac
    unfold runOps
    cases op with
    | add items =>
      obtain ⟨c', h, hg', hs', hsrc, _⟩ := step_total hg.conf hstr hparse1 hac1
      simp only [opItems] at h
      simp only [stepOp, h]
      have hnd' : (regNames ops).Nodup := by simpa [regNames] using hnd
      exact ih ⟨c', w.ncCache⟩ _ ⟨hg', hg.nc⟩ hs' hpl' hnd'
        (fun n hn => by simp only; rw [hsrc]; exact hfresh n (by simpa [regNames] using hn)) hparse2 hac2
    | reg name cfg =>
      have hnotin : Src.name name ∉ w.conf.sources := hfresh name (by simp [regNames])
      have hg1 : CGood classes { w.conf with sources := Src.name name :: w.conf.sources } :=
        ⟨hg.conf.good, hg.conf.cache⟩
      obtain ⟨c', h, hg', hs', hsrc, _⟩ := step_total hg1 hstr hparse1 hac1
      simp only [opItems] at h
      have hreg : registerComponent w.conf cfg (.name name) = .ok c' := by
        unfold registerComponent
        simp only [hnotin, if_false]
        exact h
      simp only [stepOp, hreg]
      have hnd' : name ∉ regNames ops ∧ (regNames ops).Nodup := by simpa [regNames] using hnd
      refine ih ⟨c', w.ncCache⟩ _ ⟨hg', hg.nc⟩ hs' hpl' hnd'.2 ?_ hparse2 hac2
      intro n hn
      simp only
      rw [hsrc]
      simp only [List.mem_cons, not_or]
      refine ⟨?_, hfresh n (by simp [regNames, hn])⟩
      intro heq
      cases heq
      exact hnd'.1 hn
    | pal k nc =>
      have := hpl (.pal k nc) List.mem_cons_self
      simp [Op.plain] at this
    | get id =>
      simp only [stepOp]
      have hnd' : (regNames ops).Nodup := by simpa [regNames] using hnd
      have hac3 : Acyclic (fun id => (dictGet (pre ++ ops.flatMap opItems) id).bind parsed) := by
        simpa [List.flatMap_cons, opItems] using hac
      exact ih w pre hg hstr hpl' hnd' (fun n hn => hfresh n (by simpa [regNames] using hn)) hparse2 hac3

theorem run_total {classes : List ClassDef} {nc : Bool} {cfg : Cfg} {ops : List Op}
    (hpl : ∀ op ∈ ops, op.plain = true) (hnd : (regNames ops).Nodup)
    (hparse : ∀ kv ∈ flatten cfg ++ (flatten Gen.C14.builtin ++ ops.flatMap opItems),
      ∃ d, parseInitStr kv.2 = .ok d)
    (hac : Acyclic (fun id =>
      (dictGet (flatten cfg ++ (flatten Gen.C14.builtin ++ ops.flatMap opItems)) id).bind parsed)) :
    ∃ w, run classes nc cfg ops = .ok w := by
  have hsub : ∀ (a b : List (Id × Str)),
      Acyclic (fun id => (dictGet (a ++ b) id).bind parsed) → Acyclic (fun id => (dictGet a id).bind parsed) := by
    intro a b h
    refine Acyclic.sub ?_ h
    intro id d hd
    cases hg1 : dictGet a id with
    | none => simp [hg1] at hd
    | some s => rw [dictGet_append_sub hg1]; simpa [hg1] using hd
  have hstr0 : strOf (⟨nc, [], [], []⟩ : Conf).map = dictGet ([] : List (Id × Str)) := by
    funext id; rfl
  obtain ⟨c1, h1, hg1, hs1, hsrc1, _⟩ := step_total (items := flatten cfg) (cgood_empty classes nc) hstr0
    (fun kv hkv => hparse kv (List.mem_append_left _ hkv)) (by simpa using hsub _ _ hac)
  obtain ⟨c2, h2, hg2, hs2, hsrc2, _⟩ := step_total (items := flatten Gen.C14.builtin) hg1 hs1
    (fun kv hkv => hparse kv (List.mem_append_right _ (List.mem_append_left _ hkv)))
    (by
      have := hsub (([] ++ flatten cfg) ++ flatten Gen.C14.builtin) (ops.flatMap opItems)
      simp only [List.nil_append, List.append_assoc] at this ⊢
      exact this hac)
  have hnew : newConf nc cfg = .ok c2 := by
    unfold newConf
    simp only [h1, h2]
  unfold run
  simp only [hnew]
  apply runOps_total ops ⟨c2, []⟩ _ ⟨hg2, fun k s hk => by simp [cacheGet] at hk⟩ hs2 hpl hnd
  · intro n _
    simp only
    rw [hsrc2, hsrc1]
    simp
  · exact fun kv hkv => hparse kv (List.mem_append_right _ (List.mem_append_right _ hkv))
  · simpa [List.append_assoc] using hac

/-! ### a decidable sufficient test for `Acyclic` (used for the non-vacuity examples) -/

def acyclicCheck (items : List (Id × Str)) (rank : Id → Nat) : Bool :=
  items.all fun kv =>
    match (dictGet items kv.1).bind parsed with
    | none => true
    | some d =>
      match d.parent with
      | none => true
      | some p => !(((dictGet items p).bind parsed).isSome) || decide (rank p < rank kv.1)

theorem dictGet_some_mem {β : Type} {l : List (Str × β)} {k : Str} {v : β} (h : dictGet l k = some v) :
    ∃ kv ∈ l, kv.1 = k := by
  induction l with
  | nil => simp [dictGet] at h
  | cons x l ih =>
    obtain ⟨k0, v0⟩ := x
    by_cases hk : k0 = k
    · exact ⟨(k0, v0), List.mem_cons_self, hk⟩
    · simp [dictGet, hk] at h
      obtain ⟨kv, hkv, hk'⟩ := ih h
      exact ⟨kv, List.mem_cons_of_mem _ hkv, hk'⟩

theorem acyclic_of_check {items : List (Id × Str)} {rank : Id → Nat} (h : acyclicCheck items rank = true) :
    Acyclic (fun id => (dictGet items id).bind parsed) := by
  refine ⟨rank, fun id d p hd hp hps => ?_⟩
  simp only at hd hps
  cases hg : dictGet items id with
  | none => simp [hg] at hd
  | some s =>
    obtain ⟨kv, hkv, hk⟩ := dictGet_some_mem hg
    have := List.all_eq_true.mp h kv hkv
    subst hk
    simp only [hd, hp, hps] at this
    simpa using this

/-- length of the reference chain of `id` inside `items` (a rank when the items are acyclic) -/
def chainDepth (items : List (Id × Str)) : Nat → Id → Nat
  | 0, _ => 0
  | fuel + 1, id =>
    match (dictGet items id).bind parsed with
    | none => 0
    | some d =>
      match d.parent with
      | none => 0
      | some p => chainDepth items fuel p + 1

theorem parsed_isSome {s : Str} (h : (parsed s).isSome = true) : ∃ d, parseInitStr s = .ok d := by
  unfold parsed at h
  cases hp : parseInitStr s with
  | ok d => exact ⟨d, rfl⟩
  | error e => simp [hp] at h

end ColorsConf
