import AkVerif.Lemmas.ColorsConfHist
/-!
Lemmas for C14, third part: when a registration does not raise.

* colours produced by the description parser are accepted by `ColorFmt` (`parseInitStr_ok`);
* on an acyclic set of descriptions the walk up the parent chain neither meets the circular-dependency
  assertion nor runs out of fuel (`walk_total`), the resolution of a path does not fail
  (`resolvePath_total`), and the `while to_resolve` loop ends within two passes (`loop_total`).
-/
namespace ColorsConf
open Ak

/-! ### colours the formatter accepts -/

def isOk {α : Type} : Except Err α → Bool
  | .ok _ => true
  | .error _ => false

def colorOk (c : Color) : Bool := isOk (seqElement false c) && isOk (seqElement true c)

def partOk : Part → Bool
  | .col c => colorOk c
  | _ => true

def descOk (d : Desc) : Bool := partOk d.fg && partOk d.bg

def optColorOk : Option Color → Bool
  | some c => colorOk c
  | none => true

def resOk (r : Resolved) : Bool := optColorOk r.fg && optColorOk r.bg

theorem names_ok : ∀ c ∈ Gen.C14.colorNames, c = [] ∨ c = ['-'] ∨ colorOk (.named c) = true := by
  decide +kernel

theorem natRange_le {i : Int} {lo hi n : Nat} (h : natRange i lo hi = some n) : n ≤ hi := by
  unfold natRange at h
  split at h
  · rename_i hc
    cases h
    omega
  · cases h

theorem colorOk_num {n : Nat} (h : n ≤ 255) : colorOk (.num n) = true := by
  have : ¬ n > 255 := by omega
  simp [colorOk, seqElement, isOk, this]

theorem colorOk_rgb {r g b : Nat} (hr : r ≤ 5) (hg : g ≤ 5) (hb : b ≤ 5) : colorOk (.rgb r g b) = true := by
  have h1 : ¬ (r > 5 ∨ g > 5 ∨ b > 5) := by omega
  have h2 : ¬ (16 + r * 36 + g * 6 + b > 255) := by omega
  simp [colorOk, seqElement, isOk, h1, h2]

theorem parseColorImpl_ok {s : Str} {p : Part} (h : parseColorImpl s = some p) : partOk p = true := by
  unfold parseColorImpl at h
  simp only at h
  split at h
  · rename_i hmem
    rcases names_ok _ hmem with h0 | h1 | h2
    · simp [h0] at h; subst h; rfl
    · simp [h1] at h; subst h; rfl
    · split at h
      · cases h; rfl
      · split at h
        · cases h; rfl
        · cases h; exact h2
  · split at h
    · split at h
      · cases h
      · split at h
        · split at h
          · split at h
            · rename_i r g bl hr hg hb
              cases h
              exact colorOk_rgb (natRange_le hr) (natRange_le hg) (natRange_le hb)
            · cases h
          · cases h
        · cases h
    · split at h
      · rename_i i hi
        cases hn : natRange i 0 255 with
        | none => simp [hn] at h
        | some n =>
          simp [hn] at h
          subst h
          exact colorOk_num (natRange_le hn)
      · cases h

theorem parseColorsPart_ok {s : Str} {cp : ColorsPart} (h : parseColorsPart s = some cp) :
    (∀ p, cp.fg = some p → partOk p = true) ∧ (∀ p, cp.bg = some p → partOk p = true) := by
  unfold parseColorsPart at h
  split at h
  · split at h
    · rename_i fg hfg
      cases h
      exact ⟨fun p hp => (by cases hp; exact parseColorImpl_ok hfg), fun p hp => (by cases hp; rfl)⟩
    · split at h
      · cases h
      · cases h
        exact ⟨fun p hp => (by cases hp), fun p hp => (by cases hp)⟩
  · split at h
    · rename_i fg bg hfg hbg
      cases h
      exact ⟨fun p hp => (by cases hp; exact parseColorImpl_ok hfg),
             fun p hp => (by cases hp; exact parseColorImpl_ok hbg)⟩
    · cases h
  · cases h

theorem optPart_ok {o : Option Part} (h : ∀ p, o = some p → partOk p = true) : partOk (optPart o) = true := by
  cases o with
  | none => rfl
  | some p => exact h p rfl

theorem descOk_mk {par : Option Id} {fg bg : Part} {m : Mods} (h1 : partOk fg = true) (h2 : partOk bg = true) :
    descOk ⟨par, fg, bg, m⟩ = true := by
  simp [descOk, h1, h2]

theorem parseInitStr_ok {s : Str} {d : Desc} (h : parseInitStr s = .ok d) : descOk d = true := by
  unfold parseInitStr at h
  split at h
  · -- one section
    split at h
    · cases h
    · rename_i p hp
      cases h
      obtain ⟨h1, h2⟩ := parseColorsPart_ok hp
      exact descOk_mk (optPart_ok h1) (optPart_ok h2)
  · split at h
    · cases h
    · split at h
      · cases h
      · rename_i p hp
        obtain ⟨h1, h2⟩ := parseColorsPart_ok hp
        split at h
        · -- the second section is the modifiers
          split at h
          · cases h
          · split at h
            · cases h
            · cases h
              exact descOk_mk (optPart_ok h1) (optPart_ok h2)
        · rename_i p1 hp1
          obtain ⟨h3, h4⟩ := parseColorsPart_ok hp1
          split at h
          · cases h
          · split at h
            · cases h
            · split at h
              · cases h
              · split at h
                · cases h
                  exact descOk_mk (optPart_ok h3) (optPart_ok h4)
                · split at h
                  · cases h
                  · cases h
                    exact descOk_mk (optPart_ok h3) (optPart_ok h4)
  · cases h

theorem seqOpt_ok {isBg : Bool} {o : Option Color} (h : optColorOk o = true) : ∃ l, seqOpt isBg o = .ok l := by
  cases o with
  | none => exact ⟨[], rfl⟩
  | some c =>
    simp only [optColorOk, colorOk, Bool.and_eq_true] at h
    unfold seqOpt
    cases isBg with
    | false =>
      cases hs : seqElement false c with
      | ok x => exact ⟨[x], by simp [hs]⟩
      | error e => simp [hs, isOk] at h
    | true =>
      cases hs : seqElement true c with
      | ok x => exact ⟨[x], by simp [hs]⟩
      | error e => simp [hs, isOk] at h

theorem colorFmt_ok {r : Resolved} (h : resOk r = true) : ∃ f, colorFmt r = .ok f := by
  simp only [resOk, Bool.and_eq_true] at h
  obtain ⟨l1, h1⟩ := seqOpt_ok (isBg := false) h.1
  obtain ⟨l2, h2⟩ := seqOpt_ok (isBg := true) h.2
  unfold colorFmt
  simp only [h1, h2]
  exact ⟨_, rfl⟩

theorem mkFmt_ok (nc : Bool) {r : Resolved} (h : resOk r = true) : ∃ f, mkFmt nc r = .ok f := by
  unfold mkFmt
  split
  · exact ⟨[], rfl⟩
  · exact colorFmt_ok h

theorem pickColor_ok {inh : Option Color} {p : Part} (h1 : optColorOk inh = true) (h2 : partOk p = true) :
    optColorOk (pickColor inh p) = true := by
  cases p with
  | unspec => exact h1
  | dflt => rfl
  | col c => exact h2

theorem effOf_ok {par : Option Resolved} {d : Desc} (hp : ∀ p, par = some p → resOk p = true)
    (hd : descOk d = true) : resOk (effOf par d) = true := by
  simp only [descOk, Bool.and_eq_true] at hd
  cases par with
  | none =>
    simp only [effOf, resOk, Bool.and_eq_true]
    exact ⟨pickColor_ok rfl hd.1, pickColor_ok rfl hd.2⟩
  | some p =>
    have := hp p rfl
    simp only [resOk, Bool.and_eq_true] at this
    simp only [effOf, resOk, Bool.and_eq_true]
    exact ⟨pickColor_ok this.1 hd.1, pickColor_ok this.2 hd.2⟩

/-- every description of the map is accepted by the formatter -/
def AllOk (m : SMap) : Prop := ∀ id e, lookup m id = some e → descOk e.desc = true

theorem Parsed.allOk {m : SMap} (h : Parsed m) : AllOk m :=
  fun id e hl => parseInitStr_ok (h id e hl)

theorem Resolves.ok {dm : Id → Option Desc} (hall : ∀ id d, dm id = some d → descOk d = true)
    {id : Id} {r : Resolved} (h : Resolves dm id r) : resOk r = true := by
  induction h with
  | root hd _ => exact effOf_ok (fun p hp => by cases hp) (hall _ _ hd)
  | step hd _ _ ih => exact effOf_ok (fun p hp => by cases hp; exact ih) (hall _ _ hd)

theorem AllOk.descOf {m : SMap} (h : AllOk m) : ∀ id d, descOf m id = some d → descOk d = true := by
  intro id d hd
  unfold ColorsConf.descOf at hd
  cases hl : lookup m id with
  | none => simp [hl] at hd
  | some e => simp [hl] at hd; rw [← hd]; exact h id e hl

end ColorsConf
