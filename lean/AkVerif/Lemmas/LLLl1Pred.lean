import AkVerif.Lemmas.LLLl1Defs
/-!
The predict set the table constructor computes for a rule (`Pred`, i.e. `startSyms … A r.rhs []`) is
the semantic one (`PredS`: FIRST of the right-hand side over the least FIRST relation, plus the least
FOLLOW relation of `A` when the right-hand side is nullable), for a dictionary `D` with its own
computed sets:

* `l1p_firstSets_keys` / `l1p_followSets_keys` — the computed maps have an entry for every key,
* `l1p_startSyms_succeeds` — `startSyms` does not fail on a rule of `D`,
* `l1p_startSyms_upper`    — upper bound for `startSyms` (`startSyms_ok` is the lower bound),
* `pred_iff_predS`, `predDisjoint_iff_predS`.
-/
set_option linter.unusedSectionVars false
namespace LL

section Generic
variable {σ : Type} [DecidableEq σ]

/-! ### the computed maps have an entry for every key -/

theorem l1p_emptySets_keys : ∀ (G : Prods σ), (emptySets G).map (·.1) = G.map (·.1)
  | [] => rfl
  | (nt, rs) :: rest => by
    have ih := l1p_emptySets_keys rest
    unfold emptySets at ih ⊢
    simp only [List.map_cons, ih]

theorem l1p_emptySets_has {G : Prods σ} {k : σ} (hk : k ∈ G.map (·.1)) :
    ∃ v, dget k (emptySets G) = some v := by
  have h : (dget k (emptySets G)).isSome := dget_isSome_iff.2 (by rw [l1p_emptySets_keys]; exact hk)
  cases hd : dget k (emptySets G) with
  | none => rw [hd] at h; cases h
  | some v => exact ⟨v, rfl⟩

theorem l1p_DLe_has {M M' : SetMap σ} (h : DLe M M') {k : σ} (hk : ∃ v, dget k M = some v) :
    ∃ v, dget k M' = some v := by
  obtain ⟨v, hv⟩ := hk
  obtain ⟨v', hv', _⟩ := h k v hv
  exact ⟨v', hv'⟩

theorem l1p_firstSyms_dle {terms nulls : List σ} {nt : σ} :
    ∀ (l : List σ) (fs : SetMap σ) (upd : Bool) (res : SetMap σ × Bool),
    firstSyms terms nulls nt l fs upd = .ok res → DLe fs res.1
  | [], fs, upd, res, h => by
    simp only [firstSyms, Except.ok.injEq] at h
    subst h; exact DLe.refl _
  | s :: rest, fs, upd, res, h => by
    obtain ⟨cur, fs1, upd1, hcur, hstep, h⟩ := firstSyms_cons_ok h
    have h1 : DLe fs fs1 := by
      rcases hstep with ⟨_, ⟨_, hfs, _⟩ | ⟨_, hfs, _⟩⟩ | ⟨_, other, _, hfs, _⟩
      · subst hfs; exact DLe.refl _
      · subst hfs; exact DLe_dset hcur (fun y hy => List.mem_append_left _ hy)
      · subst hfs; exact DLe_dset hcur (fun y hy => mem_sunion.2 (Or.inl hy))
    split at h
    · exact h1.trans (l1p_firstSyms_dle rest fs1 upd1 res h)
    · cases h; exact h1

theorem l1p_firstRules_dle {terms nulls : List σ} {nt : σ} :
    ∀ (rs : List (Rule σ)) (fs : SetMap σ) (upd : Bool) (res : SetMap σ × Bool),
    firstRules terms nulls nt rs fs upd = .ok res → DLe fs res.1
  | [], fs, upd, res, h => by
    simp only [firstRules, Except.ok.injEq] at h
    subst h; exact DLe.refl _
  | r0 :: rest, fs, upd, res, h => by
    unfold firstRules at h
    obtain ⟨⟨fs1, upd1⟩, h0, h⟩ := exc_bind_ok h
    simp only at h
    exact (l1p_firstSyms_dle _ _ _ _ h0).trans (l1p_firstRules_dle rest fs1 upd1 res h)

theorem l1p_firstPass_dle {terms nulls : List σ} :
    ∀ (G : Prods σ) (fs : SetMap σ) (upd : Bool) (res : SetMap σ × Bool),
    firstPass terms nulls G fs upd = .ok res → DLe fs res.1
  | [], fs, upd, res, h => by
    simp only [firstPass, Except.ok.injEq] at h
    subst h; exact DLe.refl _
  | (nt, rs) :: rest, fs, upd, res, h => by
    unfold firstPass at h
    obtain ⟨⟨fs1, upd1⟩, h0, h⟩ := exc_bind_ok h
    simp only at h
    exact (l1p_firstRules_dle _ _ _ _ h0).trans (l1p_firstPass_dle rest fs1 upd1 res h)

theorem l1p_firstLoop_dle {terms nulls : List σ} {G : Prods σ} :
    ∀ (fuel : Nat) (fs first : SetMap σ), firstLoop terms nulls G fuel fs = .ok first → DLe fs first
  | 0, _, _, h => by simp [firstLoop] at h
  | fuel + 1, fs, first, h => by
    unfold firstLoop at h
    obtain ⟨⟨fs1, upd1⟩, h0, h⟩ := exc_bind_ok h
    simp only at h
    have h1 := l1p_firstPass_dle _ _ _ _ h0
    split at h
    · exact h1.trans (l1p_firstLoop_dle fuel fs1 first h)
    · simp only [Except.ok.injEq] at h
      subst h; exact h1

/-- `first` has an entry for every key of the grammar -/
theorem l1p_firstSets_keys {terms nulls : List σ} {G : Prods σ} {first : SetMap σ}
    (h : firstSets terms nulls G = .ok first) : ∀ k ∈ G.map (·.1), ∃ f, dget k first = some f :=
  fun _ hk => l1p_DLe_has (l1p_firstLoop_dle _ _ _ h) (l1p_emptySets_has hk)

/-- `follow` has an entry for every key of the grammar -/
theorem l1p_followSets_keys {terms nulls : List σ} {first : SetMap σ} {G : Prods σ} {start endS : σ}
    {follow : SetMap σ} (h : followSets terms nulls first G start endS = .ok follow) :
    ∀ k ∈ G.map (·.1), ∃ w, dget k follow = some w := by
  unfold followSets at h
  simp only at h
  split at h
  case h_2 =>
    obtain ⟨_, hc, _⟩ := exc_bind_ok h
    cases hc
  rename_i ws hws
  simp only [pure_bind] at h
  obtain ⟨⟨W2, D⟩, himm, h⟩ := exc_bind_ok h
  simp only at h
  obtain ⟨hle1, _⟩ := followImm_ok G _ _ himm
  obtain ⟨hle2, _⟩ := depsLoop_ok _ W2 follow h
  have hle : DLe (dset start (sadd ws endS) (emptySets G)) follow := hle1.1.trans hle2
  intro k hk
  refine l1p_DLe_has hle ?_
  rw [dget_dset]
  split
  · exact ⟨_, rfl⟩
  · exact l1p_emptySets_has hk

/-! ### `startSyms`: success and the upper bound -/

theorem l1p_startSyms_succeeds {terms nulls : List σ} {first follow : SetMap σ} {A : σ} :
    ∀ (l acc : List σ), (∀ s ∈ l, s ∉ terms → ∃ f, dget s first = some f) →
    (NullIn terms nulls l → A ∈ nulls ∧ ∃ w, dget A follow = some w) →
    ∃ ss, startSyms terms nulls first follow A l acc = .ok ss
  | [], acc, _, hN => by
    obtain ⟨hA, w, hw⟩ := hN (fun s hs => by simp at hs)
    refine ⟨sunion acc w, ?_⟩
    unfold startSyms
    simp only [hA, if_true, dgetE, hw]
    rfl
  | s :: rest, acc, hl, hN => by
    unfold startSyms
    by_cases hs : s ∈ terms
    · exact ⟨sadd acc s, by simp only [hs, if_true]⟩
    · obtain ⟨f, hf⟩ := hl s (by simp) hs
      simp only [hs, if_false, dgetE, hf]
      by_cases hn : s ∈ nulls
      · obtain ⟨ss, hss⟩ := l1p_startSyms_succeeds (terms := terms) (nulls := nulls) (first := first)
          (follow := follow) (A := A) rest (sunion acc f)
          (fun x hx => hl x (List.mem_cons_of_mem _ hx))
          (fun hr => hN (fun x hx => by
            rcases List.mem_cons.1 hx with e | hx
            · subst e; exact ⟨hs, hn⟩
            · exact hr x hx))
        refine ⟨ss, ?_⟩
        simp only [hn, if_true]
        exact hss
      · refine ⟨sunion acc f, ?_⟩
        simp only [hn, if_false]
        rfl

/-- upper bound for the computed start symbols (`startSyms_ok` is the lower bound) -/
theorem l1p_startSyms_upper {terms nulls : List σ} {first follow : SetMap σ} {A : σ} :
    ∀ (l acc ss : List σ), startSyms terms nulls first follow A l acc = .ok ss →
    ∀ t ∈ ss, t ∈ acc ∨ FirstIn terms nulls first l t ∨
      (NullIn terms nulls l ∧ ∃ w, dget A follow = some w ∧ t ∈ w)
  | [], acc, ss, h, t, ht => by
    unfold startSyms at h
    split at h
    · obtain ⟨w, hw, h⟩ := exc_bind_ok h
      have hw := dgetE_ok hw
      simp only [Except.ok.injEq] at h
      subst h
      rcases mem_sunion.1 ht with ht | ht
      · exact Or.inl ht
      · exact Or.inr (Or.inr ⟨fun s hs => by simp at hs, w, hw, ht⟩)
    · cases h
  | s :: rest, acc, ss, h, t, ht => by
    unfold startSyms at h
    split at h
    · rename_i hs
      simp only [Except.ok.injEq] at h
      subst h
      rcases mem_sadd.1 ht with ht | ht
      · exact Or.inl ht
      · exact Or.inr (Or.inl (by unfold FirstIn; exact Or.inl ⟨hs, ht⟩))
    · rename_i hs
      obtain ⟨f, hf, h⟩ := exc_bind_ok h
      have hf := dgetE_ok hf
      have hacc : t ∈ sunion acc f → t ∈ acc ∨ FirstIn terms nulls first (s :: rest) t ∨
          (NullIn terms nulls (s :: rest) ∧ ∃ w, dget A follow = some w ∧ t ∈ w) := by
        intro ht
        rcases mem_sunion.1 ht with ht | ht
        · exact Or.inl ht
        · exact Or.inr (Or.inl (by unfold FirstIn; exact Or.inr ⟨hs, Or.inl ⟨f, hf, ht⟩⟩))
      split at h
      · rename_i hn
        rcases l1p_startSyms_upper rest _ ss h t ht with h1 | h1 | ⟨h1, h2⟩
        · exact hacc h1
        · exact Or.inr (Or.inl (by unfold FirstIn; exact Or.inr ⟨hs, Or.inr ⟨hn, h1⟩⟩))
        · refine Or.inr (Or.inr ⟨?_, h2⟩)
          intro x hx
          rcases List.mem_cons.1 hx with e | hx
          · subst e; exact ⟨hs, hn⟩
          · exact h1 x hx
      · simp only [Except.ok.injEq] at h
        subst h
        exact hacc ht

end Generic

/-! ### computed = semantic -/

/-- `FirstIn` over the computed FIRST sets is `FirstSeq` -/
theorem l1p_firstIn_iff_firstSeq {D : Prods Sym} {T N : List Sym} {F : SetMap Sym}
    (hF : firstSets T N D = .ok F) (hnt : ∀ s ∈ N, s ∉ T) (l : List Sym) (t : Sym) :
    FirstIn T N F l t ↔ FirstSeq D T N l t := by
  have e : (fun s t => ∃ f, dget s F = some f ∧ t ∈ f) = First D T N := by
    funext s t
    exact propext (firstSets_exact hF hnt s t)
  unfold FirstSeq
  rw [lst_FirstIn_iff, e]

/-- `startSyms` does not fail on a rule of a dictionary with its own computed sets -/
theorem l1p_startSyms_rule_ok {D : Prods Sym} {T N : List Sym} {F W : SetMap Sym} {start endS : Sym}
    (hN : nullables D = .ok N) (hF : firstSets T N D = .ok F)
    (hW : followSets T N F D start endS = .ok W)
    (hknown : ∀ s ∈ psyms D, s ∈ T ∨ s ∈ pkeys D)
    {A : Sym} {rules : List (Rule Sym)} (hm : (A, rules) ∈ D) {r : Rule Sym} (hr : r ∈ rules) :
    ∃ ss, startSyms T N F W A r.rhs [] = .ok ss := by
  refine l1p_startSyms_succeeds _ _ ?_ ?_
  · intro s hs hsT
    rcases hknown s (mem_psyms.2 ⟨A, rules, hm, r, hr, hs⟩) with h | h
    · exact absurd h hsT
    · exact l1p_firstSets_keys hF s h
  · intro hnull
    exact ⟨nullables_closed hN A rules hm r hr (fun s hs => (hnull s hs).2),
      l1p_followSets_keys hW A (List.mem_map.2 ⟨(A, rules), hm, rfl⟩)⟩

/-- the computed predict set of a rule is the semantic one -/
theorem pred_iff_predS {D : Prods Sym} {T N : List Sym} {F W : SetMap Sym} {start endS : Sym}
    (hN : nullables D = .ok N) (hF : firstSets T N D = .ok F)
    (hW : followSets T N F D start endS = .ok W)
    (hkT : ∀ k ∈ pkeys D, k ∉ T) (hknown : ∀ s ∈ psyms D, s ∈ T ∨ s ∈ pkeys D)
    {A : Sym} {rules : List (Rule Sym)} (hm : (A, rules) ∈ D) {r : Rule Sym} (hr : r ∈ rules)
    (t : Sym) :
    Pred T N F W A r t ↔ PredS D T N F start endS A r.rhs t := by
  have hnt : ∀ s ∈ N, s ∉ T := lst_nulls_not_terms hN hkT
  constructor
  · rintro ⟨ss, hss, ht⟩
    rcases l1p_startSyms_upper _ _ _ hss t ht with h | h | ⟨h1, h2⟩
    · simp at h
    · exact Or.inl ((l1p_firstIn_iff_firstSeq hF hnt _ _).1 h)
    · exact Or.inr ⟨h1, (followSets_exact hW hnt A t).1 h2⟩
  · intro h
    obtain ⟨ss, hss⟩ := l1p_startSyms_rule_ok hN hF hW hknown hm hr
    obtain ⟨_, hfirst, hnullw⟩ := startSyms_ok _ _ _ hss
    refine ⟨ss, hss, ?_⟩
    rcases h with h | ⟨h1, h2⟩
    · exact hfirst t ((l1p_firstIn_iff_firstSeq hF hnt _ _).2 h)
    · obtain ⟨w, hw, htw⟩ := (followSets_exact hW hnt A t).2 h2
      exact hnullw h1 w hw t htw

/-- the LL(1) condition on the computed predict sets is the one on the semantic predict sets -/
theorem predDisjoint_iff_predS {D : Prods Sym} {T N : List Sym} {F W : SetMap Sym} {start endS : Sym}
    (hN : nullables D = .ok N) (hF : firstSets T N D = .ok F)
    (hW : followSets T N F D start endS = .ok W)
    (hkT : ∀ k ∈ pkeys D, k ∉ T) (hknown : ∀ s ∈ psyms D, s ∈ T ∨ s ∈ pkeys D)
    {A : Sym} {rules : List (Rule Sym)} (hm : (A, rules) ∈ D) {r1 r2 : Rule Sym}
    (hr1 : r1 ∈ rules) (hr2 : r2 ∈ rules) :
    PredDisjoint T N F W A r1 r2 ↔
      ∀ t, PredS D T N F start endS A r1.rhs t → PredS D T N F start endS A r2.rhs t → False := by
  rw [predDisjoint_iff]
  constructor
  · intro h t h1 h2
    exact h t ((pred_iff_predS hN hF hW hkT hknown hm hr1 t).2 h1)
      ((pred_iff_predS hN hF hW hkT hknown hm hr2 t).2 h2)
  · intro h t h1 h2
    exact h t ((pred_iff_predS hN hF hW hkT hknown hm hr1 t).1 h1)
      ((pred_iff_predS hN hF hW hkT hknown hm hr2 t).1 h2)

end LL

section
open LL
#print axioms l1p_startSyms_upper
#print axioms l1p_startSyms_rule_ok
#print axioms pred_iff_predS
#print axioms predDisjoint_iff_predS
end
