import AkVerif.Lemmas.CliGraphReach
/-! Helper lemmas for C19, fifth part: in a reachable `ArgParser` every option string of a table has one
owner (argparse's conflict test keeps it so), hence "the option `o` was placed on an ancestor" implies
"the option string is read as `o`" — for every kind of option, help and version actions included. -/
namespace C19
open CliGraph Ak

/-- every option string of the table is looked up to the spec that carries it -/
def Uniq (tbl : List OptSpec) : Prop :=
  ∀ o ∈ tbl, o.isOpt = true → ∀ s ∈ o.strings, findOpt tbl s = some o

theorem uniq_snoc {tbl : List OptSpec} {s : OptSpec} (hu : Uniq tbl) (hc : conflicts tbl s = false) :
    Uniq (tbl ++ [s]) := by
  intro o ho hio x hx
  rcases List.mem_append.mp ho with h | h
  · exact findOpt_append_left (hu o h hio x hx)
  · have ho' : o = s := by simpa using h
    subst ho'
    have hn : x ∉ optStrings tbl := by
      intro hm
      have : conflicts tbl o = true := by
        unfold conflicts
        simp only [hio, Bool.true_and]
        exact List.any_eq_true.mpr ⟨x, hx, by simpa using hm⟩
      rw [hc] at this; cases this
    have hnone := findOpt_none_iff.mpr hn
    unfold findOpt at hnone ⊢
    rw [List.find?_append, hnone]
    simp [hio, hx]

theorem addOpt_uniq {q q' : Parser} {s : OptSpec} (hu : Uniq q.opts) (h : q.addOpt s = .ok q') : Uniq q'.opts := by
  unfold Parser.addOpt at h
  by_cases hc : conflicts q.opts s = true
  · simp [hc] at h
  · have hc' : conflicts q.opts s = false := by simpa using hc
    simp only [hc', Bool.false_eq_true, if_false] at h
    cases h
    exact uniq_snoc hu hc'

theorem mapE_mem {α β ε} {f : α → Except ε β} {l : List α} {l' : List β} (h : mapE f l = .ok l') :
    ∀ b ∈ l', ∃ a ∈ l, f a = .ok b := by
  induction l generalizing l' with
  | nil => simp only [mapE] at h; cases h; simp
  | cons a as ih =>
    unfold mapE at h
    cases ha : f a with
    | error e => simp [ha] at h
    | ok b0 =>
      simp only [ha] at h
      cases has : mapE f as with
      | error e => simp [has] at h
      | ok bs =>
        simp only [has] at h
        cases h
        intro b hb
        rcases List.mem_cons.mp hb with rfl | hb
        · exact ⟨a, List.mem_cons_self, ha⟩
        · obtain ⟨a', ha', hf⟩ := ih has b hb
          exact ⟨a', List.mem_cons_of_mem _ ha', hf⟩

theorem addOption_uniq {st st' : St} {t : Option Name} {s : OptSpec} (hu : ∀ q ∈ st.parsers, Uniq q.opts)
    (h : addOption st t s = .ok st') : ∀ q ∈ st'.parsers, Uniq q.opts := by
  unfold addOption at h
  cases t with
  | none =>
    simp only [] at h
    cases hm : mapE (fun q => q.addOpt s) st.parsers with
    | error e => simp [hm] at h
    | ok ps =>
      simp only [hm] at h
      cases h
      intro q hq
      obtain ⟨a, ha, hf⟩ := mapE_mem hm q hq
      exact addOpt_uniq (hu a ha) hf
  | some p =>
    simp only [] at h
    cases hf : findParser st.parsers p with
    | none => simp [hf] at h
    | some r =>
      simp only [hf] at h
      cases hm : mapE (fun q => if q.name = p ∨ q.name ∈ r.deps then q.addOpt s else .ok q) st.parsers with
      | error e => simp [hm] at h
      | ok ps =>
        simp only [hm] at h
        cases h
        intro q hq
        obtain ⟨a, ha, hfa⟩ := mapE_mem hm q hq
        by_cases hc : a.name = p ∨ a.name ∈ r.deps
        · rw [if_pos hc] at hfa
          exact addOpt_uniq (hu a ha) hfa
        · rw [if_neg hc] at hfa
          have haq : a = q := by simpa using hfa
          exact haq ▸ hu a ha

theorem addAll_uniq {st st' : St} {adds : List (Option Name × OptSpec)} (hu : ∀ q ∈ st.parsers, Uniq q.opts)
    (h : addAll st adds = .ok st') : ∀ q ∈ st'.parsers, Uniq q.opts := by
  induction adds generalizing st with
  | nil => simp only [addAll] at h; cases h; exact hu
  | cons a as ih =>
    unfold addAll at h
    cases ha : addOption st a.1 a.2 with
    | error e => simp [ha] at h
    | ok st1 =>
      simp only [ha] at h
      exact ih (addOption_uniq hu ha) h

/-- decided on the generated tables -/
theorem std_uniq (nl : Bool) : Uniq (std nl) := by
  unfold Uniq
  cases nl <;> decide +kernel

/-- in a reachable state every option string of every table has exactly one owner -/
theorem reach_uniq {nl dflt ds adds st} (hr : Reach nl dflt ds adds st) : ∀ q ∈ st.parsers, Uniq q.opts := by
  obtain ⟨st0, hb, ha⟩ := hr
  have h0 : Reach nl dflt ds [] st0 := ⟨st0, hb, rfl⟩
  obtain ⟨ps0, hinv, _, _, hp, _⟩ := reach_unfold h0
  rw [ext_nil] at hp
  refine addAll_uniq (fun q hq => ?_) ha
  rw [hp] at hq
  rw [hinv.opts q hq]
  exact std_uniq nl

end C19
