import AkVerif.Lemmas.LLExpand2
/-!
Ordered expansion of the factorised dictionary, part 3: the link to the membership-level relation `FlatD`.

When helper symbols occur only in last position (`FactRelD.inner`) and keys are duplicate-free, the members of the
ordered expansion list of the rules of a key are exactly its flattened expansions (`exA_mem_flatD`); for the
result of `factorize`: `factorize_expands_mem`.
-/
set_option linter.unusedSectionVars false
namespace LL
open Ak

section Mem
variable {G : Prods Sym} {S : List Sym}

/-- flattened expansions of a right-hand side (`FlatD` is about a key) -/
def FlatR (G : Prods Sym) (S : List Sym) (p e : List Sym) : Prop :=
  ((∀ l, p.getLast? = some l → l ∉ S) ∧ e = p) ∨
  ∃ pre h e', p = pre ++ [h] ∧ h ∈ S ∧ FlatD G S h e' ∧ e = pre ++ e'

theorem flatD_iff_flatR (hnd : (G.map (·.1)).Nodup) {h : Sym} {rs : List (Rule Sym)} (hg : dget h G = some rs)
    (e : List Sym) : FlatD G S h e ↔ ∃ r ∈ rs, FlatR G S r.rhs e := by
  constructor
  · intro hf
    cases hf with
    | base hp hl =>
      obtain ⟨rules, hg', r, hr, er⟩ := (mem_gramRules_dget hnd).1 hp
      rw [hg] at hg'; cases hg'
      exact ⟨r, hr, Or.inl ⟨by rw [er]; exact hl, er.symm⟩⟩
    | step hp hs' hfl =>
      obtain ⟨rules, hg', r, hr, er⟩ := (mem_gramRules_dget hnd).1 hp
      rw [hg] at hg'; cases hg'
      exact ⟨r, hr, Or.inr ⟨_, _, _, er, hs', hfl, rfl⟩⟩
  · rintro ⟨r, hr, ⟨hl, e1⟩ | ⟨pre, x, e', e1, hx, hfl, e2⟩⟩
    · rw [e1]
      exact FlatD.base ((mem_gramRules_dget hnd).2 ⟨rs, hg, r, hr, rfl⟩) hl
    · rw [e2]
      exact FlatD.step ((mem_gramRules_dget hnd).2 ⟨rs, hg, r, hr, e1⟩) hx hfl

theorem flatR_prefix {pre : List Sym} (hpre : ∀ x ∈ pre, x ∉ S) (q e : List Sym) :
    FlatR G S (pre ++ q) e ↔ ∃ e', FlatR G S q e' ∧ e = pre ++ e' := by
  constructor
  · rintro (⟨hl, e1⟩ | ⟨pre1, x, e1, ep, hx, hfl, e2⟩)
    · refine ⟨q, Or.inl ⟨fun l hlast => ?_, rfl⟩, e1⟩
      have hne : q ≠ [] := by intro e0; rw [e0] at hlast; cases hlast
      exact hl l (by rw [ex_getLast?_append_ne hne]; exact hlast)
    · by_cases hne : q = []
      · subst hne
        rw [List.append_nil] at ep
        exact absurd hx (hpre x (by rw [ep]; simp))
      · have hq : q = q.dropLast ++ [q.getLast hne] := (List.dropLast_concat_getLast hne).symm
        rw [hq, ← List.append_assoc] at ep
        obtain ⟨a, b⟩ := List.append_inj' ep rfl
        simp only [List.cons.injEq, and_true] at b
        refine ⟨q.dropLast ++ e1, Or.inr ⟨q.dropLast, x, e1, ?_, hx, hfl, rfl⟩, ?_⟩
        · rw [← b]; exact hq
        · rw [e2, ← a, List.append_assoc]
  · rintro ⟨e', ⟨hl, e1⟩ | ⟨pre1, x, e1, ep, hx, hfl, e2⟩, e0⟩
    · refine Or.inl ⟨fun l hlast => ?_, by rw [e0, e1]⟩
      by_cases hne : q = []
      · subst hne
        rw [List.append_nil] at hlast
        exact hpre l (List.mem_of_getLast? hlast)
      · rw [ex_getLast?_append_ne hne] at hlast
        exact hl l hlast
    · exact Or.inr ⟨pre ++ pre1, x, e1, by rw [ep, List.append_assoc], hx, hfl, by rw [e0, e2, List.append_assoc]⟩

theorem flatR_plain {p e : List Sym} (hl : ∀ l, p.getLast? = some l → l ∉ S) : FlatR G S p e ↔ e = p := by
  constructor
  · rintro (⟨_, e1⟩ | ⟨pre, x, e', ep, hx, _, _⟩)
    · exact e1
    · exact absurd hx (hl x (by rw [ep]; simp))
  · intro e1; exact Or.inl ⟨hl, e1⟩

theorem flatR_group {pre e : List Sym} {x : Sym} (hx : x ∈ S) :
    FlatR G S (pre ++ [x]) e ↔ ∃ e', FlatD G S x e' ∧ e = pre ++ e' := by
  constructor
  · rintro (⟨hl, _⟩ | ⟨pre1, y, e', ep, hy, hfl, e2⟩)
    · exact absurd hx (hl x (by simp))
    · obtain ⟨a, b⟩ := List.append_inj' ep rfl
      simp only [List.cons.injEq, and_true] at b
      subst a; subst b
      exact ⟨e', hfl, e2⟩
  · rintro ⟨e', hfl, e2⟩
    exact Or.inr ⟨pre, x, e', rfl, hx, hfl, e2⟩

/-- members of the ordered expansion list = flattened expansions of the right-hand sides -/
theorem exA_mem (hnd : (G.map (·.1)).Nodup)
    (hinner : ∀ k rs, dget k G = some rs → ∀ r ∈ rs, ∀ x ∈ r.rhs.dropLast, x ∉ S)
    {ps L : List (List Sym)} (h : ExA G S ps L) :
    (∀ p ∈ ps, ∀ x ∈ p.dropLast, x ∉ S) → ∀ e, e ∈ L ↔ ∃ p ∈ ps, FlatR G S p e := by
  induction h with
  | nil => intro _ e; simp
  | @plain p ps L hl _ ih =>
    intro hps e
    have ih' := ih (fun p hp => hps p (by simp [hp])) e
    simp only [List.mem_cons, exists_eq_or_imp, flatR_plain hl, ih']
  | @group pre x rs ps L1 L2 hx hg _ _ ih1 ih2 =>
    intro hps e
    have hpre : ∀ y ∈ pre, y ∉ S := by
      intro y hy
      exact hps (pre ++ [x]) (by simp) y (by simpa using hy)
    have ih2' := ih2 (fun p hp => hps p (by simp [hp])) e
    have ih1' := ih1 (by
      intro p hp
      obtain ⟨r, hr, er⟩ := List.mem_map.1 hp
      rw [← er]
      exact (exGood_append (rm := []) hpre ⟨hinner x rs hg r hr, fun _ _ _ => by simp⟩).1) e
    have key : (∃ q ∈ rs.map (fun r => pre ++ r.rhs), FlatR G S q e) ↔ FlatR G S (pre ++ [x]) e := by
      rw [flatR_group hx]
      constructor
      · rintro ⟨q, hq, hf⟩
        obtain ⟨r, hr, er⟩ := List.mem_map.1 hq
        rw [← er] at hf
        obtain ⟨e', hf', e0⟩ := (flatR_prefix hpre _ _).1 hf
        exact ⟨e', (flatD_iff_flatR hnd hg e').2 ⟨r, hr, hf'⟩, e0⟩
      · rintro ⟨e', hfl, e0⟩
        obtain ⟨r, hr, hf'⟩ := (flatD_iff_flatR hnd hg e').1 hfl
        exact ⟨pre ++ r.rhs, List.mem_map.2 ⟨r, hr, rfl⟩, (flatR_prefix hpre _ _).2 ⟨e', hf', e0⟩⟩
    simp only [List.mem_append, List.mem_cons, exists_eq_or_imp, ih1', ih2', key]

/-- for the rules of a key -/
theorem exA_mem_flatD (hnd : (G.map (·.1)).Nodup)
    (hinner : ∀ k rs, dget k G = some rs → ∀ r ∈ rs, ∀ x ∈ r.rhs.dropLast, x ∉ S)
    {X : Sym} {rs : List (Rule Sym)} (hg : dget X G = some rs) {L : List (List Sym)}
    (h : ExA G S (rs.map (·.rhs)) L) : ∀ e, e ∈ L ↔ FlatD G S X e := by
  intro e
  rw [exA_mem hnd hinner h ?_ e, flatD_iff_flatR hnd hg e]
  · constructor
    · rintro ⟨p, hp, hf⟩
      obtain ⟨r, hr, er⟩ := List.mem_map.1 hp
      exact ⟨r, hr, by rw [er]; exact hf⟩
    · rintro ⟨r, hr, hf⟩
      exact ⟨r.rhs, List.mem_map.2 ⟨r, hr, rfl⟩, hf⟩
  · intro p hp
    obtain ⟨r, hr, er⟩ := List.mem_map.1 hp
    rw [← er]
    exact hinner X rs hg r hr

end Mem

/-- in the result of `factorize`, the ordered expansion list of the rules of any key lists exactly the flattened
expansions (`FlatD`) of the key -/
theorem factorize_expands_mem {terms : List Sym} {U G : Prods Sym} {S : List Sym} {smart : Bool}
    (hU : UserWF U) (hterm : ∀ t ∈ terms, t.path = []) (h : factorize terms U smart = .ok (G, S))
    {X : Sym} {rs : List (Rule Sym)} (hg : dget X G = some rs) {L : List (List Sym)}
    (hL : ExpandsAll G S (rs.map (·.rhs)) L) : ∀ e, e ∈ L ↔ FlatD G S X e := by
  obtain ⟨hrel, hnd⟩ := factRelD_factorize hU hterm h
  exact exA_mem_flatD hnd (fun k rs' hk r hr x hx => hrel.inner k rs' (dget_mem hk) r hr x hx) hg
    (exA_of_expandsAll hL)

/-- the expansion list in `factorize_expands` is the only one -/
theorem factorize_expands_unique {terms : List Sym} {U G : Prods Sym} {S : List Sym} {smart : Bool}
    (hU : UserWF U) (hterm : ∀ t ∈ terms, t.path = []) (h : factorize terms U smart = .ok (G, S))
    {X : Sym} {rulesU rulesG : List (Rule Sym)} (hm : (X, rulesU) ∈ U) (hg : dget X G = some rulesG)
    {L : List (List Sym)} (hL : ExpandsAll G S (rulesG.map (·.rhs)) L) : L = rulesU.map (·.rhs) := by
  obtain ⟨rulesG', hg', h'⟩ := factorize_expands hU hterm h X rulesU hm
  rw [hg] at hg'
  cases hg'
  exact expandsAll_det hL h'

end LL
