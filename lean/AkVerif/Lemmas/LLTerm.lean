import AkVerif.Lemmas.LLBasic
/-! Spike for C03: the parse loop terminates on every input when the grammar has no left
    recursion (a rank function exists for the "can start with, behind nullables" relation). -/
set_option linter.unusedSectionVars false
namespace LL
variable {σ : Type} [DecidableEq σ]

/-- everything the termination argument needs to know about the grammar -/
structure TCtx (σ : Type) where
  G : Cfg σ
  P : Gram σ
  N : σ → Bool            -- computed nullable set
  rank : σ → Nat
  toks : List (Tok σ)

structure TCtxOK (C : TCtx σ) : Prop where
  closed : ∀ X p, p ∈ C.P.prods X → (∀ s ∈ p, C.N s = true) → C.N X = true
  rank : ∀ X p k c, p ∈ C.P.prods X → (∀ s ∈ p.take k, C.N s = true) → p[k]? = some c →
            C.G.isTerm c = false → C.rank c < C.rank X
  table : ∀ X t alts, C.G.table X t = some alts → alts ≠ [] ∧ ∀ p ∈ alts, p ∈ C.P.prods X

structure TFrame (C : TCtx σ) (f : Frame σ) (prod : List σ) : Prop where
  cur : f.alts[f.idx]? = some prod
  alts : ∀ p ∈ f.alts, p ∈ C.P.prods f.sym
  len : f.vals.length ≤ prod.length
  le : f.start ≤ f.cur
  bound : f.cur ≤ C.toks.length
  nul : f.cur = f.start → ∀ s ∈ prod.take f.vals.length, C.N s = true

def TF (C : TCtx σ) (f : Frame σ) : Prop := ∃ prod, TFrame C f prod

def TLink (C : TCtx σ) (f g : Frame σ) : Prop :=
  ∃ prod, g.alts[g.idx]? = some prod ∧ prod[g.vals.length]? = some f.sym ∧ f.start = g.cur ∧
    C.G.isTerm f.sym = false

def TStack (C : TCtx σ) : List (Frame σ) → Prop
  | [] => False
  | [b] => TF C b
  | f :: g :: rest => TF C f ∧ TLink C f g ∧ TStack C (g :: rest)

theorem TStack_top {C : TCtx σ} {f : Frame σ} {rest : List (Frame σ)}
    (h : TStack C (f :: rest)) : TF C f := by
  cases rest with
  | nil => exact h
  | cons g r => exact h.1

theorem TStack_tail {C : TCtx σ} {f g : Frame σ} {rest : List (Frame σ)}
    (h : TStack C (f :: g :: rest)) : TStack C (g :: rest) := h.2.2

theorem TStack_replace {C : TCtx σ} {f f' : Frame σ} {rest : List (Frame σ)}
    (h : TStack C (f :: rest)) (hf : TF C f') (hs : f'.sym = f.sym) (hst : f'.start = f.start) :
    TStack C (f' :: rest) := by
  cases rest with
  | nil => exact hf
  | cons g r =>
    refine ⟨hf, ?_, h.2.2⟩
    obtain ⟨prod, h1, h2, h3, h4⟩ := h.2.1
    exact ⟨prod, h1, by rw [hs]; exact h2, by rw [hst]; exact h3, by rw [hs]; exact h4⟩

/-- the frame obtained by switching to the next alternative -/
def nextAlt (f : Frame σ) : Frame σ := { f with vals := [], cur := f.start, idx := f.idx + 1 }

theorem TF_nextAlt {C : TCtx σ} {f : Frame σ} (hf : TF C f) (h : f.idx + 1 < f.alts.length) :
    TF C (nextAlt f) := by
  obtain ⟨prod, hf⟩ := hf
  refine ⟨f.alts[f.idx + 1]'h, ?_⟩
  exact { cur := List.getElem?_eq_getElem h, alts := hf.alts, len := by simp [nextAlt],
          le := Nat.le_refl _, bound := Nat.le_trans hf.le hf.bound, nul := by simp [nextAlt] }

theorem backtrack_cons (f : Frame σ) (rest : List (Frame σ)) :
    backtrack (f :: rest) =
      if f.idx + 1 < f.alts.length then .cont (nextAlt f :: rest) else backtrack rest := by
  simp [backtrack, nextAlt]

theorem tbacktrack {C : TCtx σ} : ∀ (st st' : List (Frame σ)), TStack C st →
    backtrack st = .cont st' → TStack C st'
  | [], _, h, _ => h.elim
  | f :: rest, st', h, hb => by
    rw [backtrack_cons] at hb
    split at hb
    · rename_i hlt
      injection hb with hb
      subst hb
      exact TStack_replace h (TF_nextAlt (TStack_top h) hlt) rfl rfl
    · cases rest with
      | nil => simp [backtrack] at hb
      | cons g r => exact tbacktrack (g :: r) st' h.2.2 hb


theorem tstep {C : TCtx σ} (hC : TCtxOK C) (st st' : List (Frame σ)) (h : TStack C st)
    (hs : step C.G C.toks st = .cont st') : TStack C st' := by
  cases st with
  | nil => exact h.elim
  | cons top rest =>
    obtain ⟨prod, hf⟩ := TStack_top h
    unfold step at hs
    simp only [hf.cur] at hs
    split at hs
    · -- production complete
      rename_i hlen
      cases rest with
      | nil =>
        simp only [Tree.children] at hs
        split at hs <;> simp at hs
      | cons parent rest' =>
        simp only at hs
        injection hs with hs
        subst hs
        obtain ⟨hftop, ⟨pprod, hp1, hp2, hp3, hp4⟩, hrest⟩ := h
        obtain ⟨pprod', hpf⟩ := TStack_top hrest
        have hpe : pprod' = pprod := by
          have := hpf.cur; rw [hp1] at this; injection this with this; exact this.symm
        subst hpe
        have hlt : parent.vals.length < pprod'.length := by
          rcases Nat.lt_or_ge parent.vals.length pprod'.length with h' | h'
          · exact h'
          · simp [List.getElem?_eq_none h'] at hp2
        refine TStack_replace hrest ⟨pprod', ?_⟩ rfl rfl
        refine { cur := hpf.cur, alts := hpf.alts, len := ?_, le := ?_, bound := hf.bound, nul := ?_ }
        · simp; omega
        · have := hpf.le; have := hf.le; simp only; omega
        · intro hcur s hsmem
          simp only at hcur
          have h1 : parent.cur = parent.start := by have := hpf.le; have := hf.le; omega
          have h2 : top.cur = top.start := by have := hf.le; omega
          simp only [List.length_append, List.length_cons, List.length_nil] at hsmem
          rw [List.take_add_one, hp2] at hsmem
          simp at hsmem
          rcases hsmem with hsmem | hsmem
          · exact hpf.nul h1 s hsmem
          · subst hsmem
            apply hC.closed _ prod (hf.alts _ (List.mem_of_getElem? hf.cur))
            intro s hs'
            have := hf.nul h2 s
            rw [hlen, List.take_length] at this
            exact this hs'
    · rename_i hlen
      split at hs
      · rename_i c tok hc htok
        have hcurlt : top.cur < C.toks.length := by
          rcases Nat.lt_or_ge top.cur C.toks.length with h' | h'
          · exact h'
          · simp [List.getElem?_eq_none h'] at htok
        split at hs
        · split at hs
          · injection hs with hs
            subst hs
            refine TStack_replace h ⟨prod, ?_⟩ rfl rfl
            refine { cur := hf.cur, alts := hf.alts, len := ?_, le := ?_, bound := ?_, nul := ?_ }
            · have := hf.len; simp; omega
            · have := hf.le; simp only; omega
            · simp only; omega
            · intro hcur; have := hf.le; simp only at hcur; omega
          · exact tbacktrack _ _ h hs
        · rename_i hterm
          split at hs
          · rename_i alts halts
            injection hs with hs
            subst hs
            obtain ⟨hne, hsub⟩ := hC.table _ _ _ halts
            cases alts with
            | nil => exact absurd rfl hne
            | cons a as =>
              refine ⟨⟨a, ?_⟩, ⟨prod, hf.cur, hc, rfl, by simpa using hterm⟩, h⟩
              exact { cur := by simp, alts := hsub, len := by simp, le := Nat.le_refl _,
                      bound := hf.bound, nul := by simp }
          · exact tbacktrack _ _ h hs
      · simp at hs


/-- `k` steps of the machine (stops at the first non-`cont` answer) -/
def iter (G : Cfg σ) (toks : List (Tok σ)) : Nat → List (Frame σ) → Res σ
  | 0, st => .cont st
  | k + 1, st =>
    match step G toks st with
    | .cont st' => iter G toks k st'
    | r => r

theorem iter_succ_cont {G : Cfg σ} {toks : List (Tok σ)} {st st' : List (Frame σ)} (k : Nat)
    (h : step G toks st = .cont st') : iter G toks (k + 1) st = iter G toks k st' := by
  simp [iter, h]

theorem iter_add {G : Cfg σ} {toks : List (Tok σ)} : ∀ (a b : Nat) (st st' : List (Frame σ)),
    iter G toks a st = .cont st' → iter G toks (a + b) st = iter G toks b st'
  | 0, b, st, st', h => by
    simp [iter] at h; subst h; simp
  | a + 1, b, st, st', h => by
    have : a + 1 + b = (a + b) + 1 := by omega
    rw [this]
    cases hs : step G toks st with
    | cont st1 =>
      rw [iter_succ_cont _ hs] at h ⊢
      exact iter_add a b st1 st' h
    | done x => simp [iter, hs] at h
    | fail => simp [iter, hs] at h
    | stuck => simp [iter, hs] at h

theorem titer {C : TCtx σ} (hC : TCtxOK C) : ∀ (k : Nat) (st st' : List (Frame σ)),
    TStack C st → iter C.G C.toks k st = .cont st' → TStack C st'
  | 0, st, st', h, hi => by simp [iter] at hi; subst hi; exact h
  | k + 1, st, st', h, hi => by
    cases hs : step C.G C.toks st with
    | cont st1 =>
      rw [iter_succ_cont _ hs] at hi
      exact titer hC k st1 st' (tstep hC _ _ h hs) hi
    | done x => simp [iter, hs] at hi
    | fail => simp [iter, hs] at hi
    | stuck => simp [iter, hs] at hi

/-- "the frame on top of `rest` has been dealt with" -/
def Q (rest : List (Frame σ)) (r : Res σ) : Prop :=
  (∃ parent rest' t c', rest = parent :: rest' ∧
      r = .cont ({ parent with vals := parent.vals ++ [t], cur := c' } :: rest'))
  ∨ r = backtrack rest ∨ (∃ x, r = .done x) ∨ r = .stuck

def prodLen (f : Frame σ) : Nat :=
  match f.alts[f.idx]? with
  | some p => p.length
  | none => 0


theorem prodLen_eq {f : Frame σ} {prod : List σ} (h : f.alts[f.idx]? = some prod) :
    prodLen f = prod.length := by simp [prodLen, h]

section lex
variable {a b c d a' b' c' d' : Nat}
abbrev L4 := Prod.Lex (fun a₁ a₂ : Nat => a₁ < a₂)
    (Prod.Lex (fun a₁ a₂ : Nat => a₁ < a₂) (Prod.Lex (fun a₁ a₂ : Nat => a₁ < a₂) fun a₁ a₂ : Nat => a₁ < a₂))
theorem lex4_1 (h : a' < a) : L4 (a', b', c', d') (a, b, c, d) := Prod.Lex.left _ _ h
theorem lex4_2 (ha : a' = a) (h : b' < b) : L4 (a', b', c', d') (a, b, c, d) := by
  subst ha; exact Prod.Lex.right _ (Prod.Lex.left _ _ h)
theorem lex4_3 (ha : a' = a) (hb : b' = b) (h : c' < c) : L4 (a', b', c', d') (a, b, c, d) := by
  subst ha; subst hb; exact Prod.Lex.right _ (Prod.Lex.right _ (Prod.Lex.left _ _ h))
theorem lex4_4 (ha : a' = a) (hb : b' = b) (hc : c' = c) (h : d' < d) :
    L4 (a', b', c', d') (a, b, c, d) := by
  subst ha; subst hb; subst hc
  exact Prod.Lex.right _ (Prod.Lex.right _ (Prod.Lex.right _ h))
end lex

/-- measure of a frame -/
def meas (C : TCtx σ) (f : Frame σ) : Nat × Nat × Nat × Nat :=
  (C.toks.length - f.start, C.rank f.sym, f.alts.length - f.idx, prodLen f - f.vals.length)

theorem resolve {C : TCtx σ} (hC : TCtxOK C) (f : Frame σ) (rest : List (Frame σ))
    (h : TStack C (f :: rest)) : ∃ k, Q rest (iter C.G C.toks k (f :: rest)) := by
  obtain ⟨prod, hf⟩ := TStack_top h
  -- what happens once the machine is told to roll back from `f`
  have after_bt : ∀ k0, iter C.G C.toks k0 (f :: rest) = backtrack (f :: rest) →
      ∃ k, Q rest (iter C.G C.toks k (f :: rest)) := by
    intro k0 hk0
    rw [backtrack_cons] at hk0
    by_cases hlt : f.idx + 1 < f.alts.length
    · rw [if_pos hlt] at hk0
      have h1 : TStack C (nextAlt f :: rest) :=
        TStack_replace h (TF_nextAlt (TStack_top h) hlt) rfl rfl
      obtain ⟨k, hk⟩ := resolve hC (nextAlt f) rest h1
      exact ⟨k0 + k, by rw [iter_add k0 k _ _ hk0]; exact hk⟩
    · rw [if_neg hlt] at hk0
      exact ⟨k0, Or.inr (Or.inl hk0)⟩
  by_cases hlen : f.vals.length = prod.length
  · -- the production is complete: one step
    refine ⟨1, ?_⟩
    cases rest with
    | nil =>
      have : iter C.G C.toks 1 [f] = step C.G C.toks [f] := by
        unfold iter; cases step C.G C.toks [f] <;> simp [iter]
      rw [this]
      unfold step
      simp only [hf.cur, hlen, if_true]
      split
      · exact Or.inr (Or.inr (Or.inl ⟨_, rfl⟩))
      · exact Or.inr (Or.inr (Or.inr rfl))
    | cons parent rest' =>
      refine Or.inl ⟨parent, rest', Tree.node f.sym (splice C.G prod f.vals), f.cur, rfl, ?_⟩
      simp [iter, step, hf.cur, hlen]
  · have hlt : f.vals.length < prod.length := by have := hf.len; omega
    have hc : prod[f.vals.length]? = some (prod[f.vals.length]'hlt) := List.getElem?_eq_getElem hlt
    generalize prod[f.vals.length]'hlt = c at hc
    cases htok : C.toks[f.cur]? with
    | none =>
      refine ⟨1, Or.inr (Or.inr (Or.inr ?_))⟩
      simp [iter, step, hf.cur, hlen, hc, htok]
    | some tok =>
      by_cases hterm : C.G.isTerm c = true
      · by_cases hname : tok.name = c
        · -- terminal matched
          have hs : step C.G C.toks (f :: rest) =
              .cont ({ f with vals := f.vals ++ [Tree.leaf c tok.val], cur := f.cur + 1 } :: rest) := by
            simp [step, hf.cur, hlen, hc, htok, hterm, hname]
          have h1 := tstep hC _ _ h hs
          obtain ⟨k, hk⟩ := resolve hC _ rest h1
          exact ⟨k + 1, by rw [iter_succ_cont _ hs]; exact hk⟩
        · have hs : step C.G C.toks (f :: rest) = backtrack (f :: rest) := by
            simp [step, hf.cur, hlen, hc, htok, hterm, hname]
          apply after_bt 1
          unfold iter
          rw [hs]
          cases hb : backtrack (f :: rest) <;> simp [iter]
      · have hterm' : C.G.isTerm c = false := by simpa using hterm
        cases htab : C.G.table c tok.name with
        | none =>
          have hs : step C.G C.toks (f :: rest) = backtrack (f :: rest) := by
            simp [step, hf.cur, hlen, hc, htok, hterm', htab]
          apply after_bt 1
          unfold iter
          rw [hs]
          cases hb : backtrack (f :: rest) <;> simp [iter]
        | some alts' =>
          have hs : step C.G C.toks (f :: rest) =
              .cont ({ sym := c, start := f.cur, cur := f.cur, alts := alts', idx := 0, vals := [] }
                      :: f :: rest) := by
            simp [step, hf.cur, hlen, hc, htok, hterm', htab]
          have h1 := tstep hC _ _ h hs
          -- facts for the termination argument
          have hdec : C.toks.length - f.cur < C.toks.length - f.start ∨
              (C.toks.length - f.cur = C.toks.length - f.start ∧ C.rank c < C.rank f.sym) := by
            by_cases heq : f.cur = f.start
            · right
              refine ⟨by rw [heq], ?_⟩
              exact hC.rank f.sym prod f.vals.length c (hf.alts _ (List.mem_of_getElem? hf.cur))
                (hf.nul heq) hc hterm'
            · left
              have := hf.le
              have : f.cur < C.toks.length := by
                rcases Nat.lt_or_ge f.cur C.toks.length with h' | h'
                · exact h'
                · simp [List.getElem?_eq_none h'] at htok
              omega
          obtain ⟨k1, hk1⟩ := resolve hC _ (f :: rest) h1
          rcases hk1 with ⟨parent, rest', t, c', hr, hres⟩ | hbt | ⟨x, hx⟩ | hst
          · -- the child was matched; `f` continues with one more value
            injection hr with hr1 hr2
            subst hr1; subst hr2
            have hres' : iter C.G C.toks (1 + k1) (f :: rest) =
                .cont ({ f with vals := f.vals ++ [t], cur := c' } :: rest) := by
              rw [Nat.add_comm, iter_succ_cont _ hs]; exact hres
            have h2 := titer hC _ _ _ h hres'
            obtain ⟨prod2, hf2⟩ := TStack_top h2
            have hp2 : prod2 = prod := by
              have := hf2.cur; simp only at this; rw [hf.cur] at this; injection this with this; exact this.symm
            have hlen2 : f.vals.length + 1 ≤ prod.length := by
              have := hf2.len; simp at this; rw [hp2] at this; exact this
            obtain ⟨k2, hk2⟩ := resolve hC _ rest h2
            exact ⟨1 + k1 + k2, by rw [iter_add _ k2 _ _ hres']; exact hk2⟩
          · apply after_bt (1 + k1)
            rw [Nat.add_comm, iter_succ_cont _ hs]; exact hbt
          · exact ⟨1 + k1, Or.inr (Or.inr (Or.inl ⟨x, by rw [Nat.add_comm, iter_succ_cont _ hs]; exact hx⟩))⟩
          · exact ⟨1 + k1, Or.inr (Or.inr (Or.inr (by rw [Nat.add_comm, iter_succ_cont _ hs]; exact hst)))⟩
termination_by meas C f
decreasing_by
  all_goals simp_wf
  · apply lex4_3 rfl rfl
    simp only [nextAlt]; omega
  · apply lex4_4 rfl rfl rfl
    have := prodLen_eq hf.cur
    simp only [prodLen, List.length_append, List.length_cons, List.length_nil] at this ⊢
    omega
  · rcases hdec with h' | ⟨h1', h2'⟩
    · exact lex4_1 h'
    · exact lex4_2 h1' h2'
  · apply lex4_4 rfl rfl rfl
    have := prodLen_eq hf.cur
    simp only [prodLen, List.length_append, List.length_cons, List.length_nil] at this ⊢
    omega


def Res.isCont : Res σ → Bool
  | .cont _ => true
  | _ => false

theorem run_of_iter {G : Cfg σ} {toks : List (Tok σ)} : ∀ (k : Nat) (st : List (Frame σ)),
    (iter G toks k st).isCont = false → ∀ fuel, k ≤ fuel → run G toks fuel st ≠ .error .outOfFuel
  | 0, st, h, _, _ => by simp [iter, Res.isCont] at h
  | k + 1, st, h, fuel, hle => by
    cases fuel with
    | zero => omega
    | succ fuel =>
      cases hs : step G toks st with
      | cont st1 =>
        rw [iter_succ_cont _ hs] at h
        have := run_of_iter k st1 h fuel (by omega)
        simpa [run, hs] using this
      | done x => simp [run, hs]
      | fail => simp [run, hs]
      | stuck => simp [run, hs]

/-- C03 (termination half): from any initial one-frame stack satisfying the invariant — in
    particular `[$START$ → (E, $END$)]` — the parse loop stops: it returns a tree or an error
    for every input, whatever the table (ambiguous or not). -/
theorem run_terminates {C : TCtx σ} (hC : TCtxOK C) (b : Frame σ) (h : TStack C [b]) :
    ∃ k, ∀ fuel, k ≤ fuel → run C.G C.toks fuel [b] ≠ .error .outOfFuel := by
  obtain ⟨k, hk⟩ := resolve hC b [] h
  refine ⟨k, run_of_iter k [b] ?_⟩
  rcases hk with ⟨parent, rest', t, c', hr, _⟩ | hbt | ⟨x, hx⟩ | hst
  · cases hr
  · rw [hbt]; simp [backtrack, Res.isCont]
  · rw [hx]; rfl
  · rw [hst]; rfl

end LL

