import AkVerif.Lemmas.LLFactBasic
import AkVerif.Lemmas.LLCompose
/-!
`_factorize_prods_list` (model: `factorizeList` / `factorizeChunks`): shape of the result (the
symbol first, then fresh descendants), the flattened expansions of the symbol are exactly the
rules it was given (both inclusions: C01 needs ⊆, C02 needs ⊇), suffix symbols occur only last.
-/
set_option linter.unusedSectionVars false
namespace LL
open Ak

/-- `k` is a proper descendant of `sym` (`sym__Sg…`) -/
def Ext (sym k : Sym) : Prop := k.base = sym.base ∧ ∃ q, q ≠ [] ∧ k.path = sym.path ++ q

theorem Ext_suf (s : Sym) (g : Nat) : Ext s (s.suf g) := ⟨rfl, [g], by simp, rfl⟩

theorem Ext_trans {a b c : Sym} (h1 : Ext a b) (h2 : Ext b c) : Ext a c := by
  obtain ⟨e1, q1, n1, p1⟩ := h1
  obtain ⟨e2, q2, n2, p2⟩ := h2
  refine ⟨e2.trans e1, q1 ++ q2, by simp [n1], ?_⟩
  rw [p2, p1, List.append_assoc]

theorem Ext_ne {a b : Sym} (h : Ext a b) : b ≠ a := by
  intro e
  obtain ⟨_, q, n, p⟩ := h
  rw [e] at p
  have := congrArg List.length p
  simp at this
  exact n this

theorem Ext_isSuf {a b : Sym} (h : Ext a b) : b.isSuf = true := by
  obtain ⟨_, q, n, p⟩ := h
  unfold Sym.isSuf
  rw [p]
  cases q with
  | nil => exact absurd rfl n
  | cons x xs => cases a.path <;> simp

def rulesSyms (rules : List (Rule Sym)) : List Sym := (rules.map (·.rhs)).flatten

theorem mem_rulesSyms {rules : List (Rule Sym)} {x : Sym} : x ∈ rulesSyms rules ↔ ∃ r ∈ rules, x ∈ r.rhs := by
  simp only [rulesSyms, List.mem_flatten, List.mem_map]
  constructor
  · rintro ⟨l, ⟨r, hr, rfl⟩, hx⟩; exact ⟨r, hr, hx⟩
  · rintro ⟨r, hr, hx⟩; exact ⟨r.rhs, ⟨r, hr, rfl⟩, hx⟩

/-- the rules given to the suffix symbol -/
def sufRulesOf (n : Nat) (chunk : List (Rule Sym)) : List (Rule Sym) :=
  (numberFrom 0 chunk).map fun (i, r) => (⟨r.rhs.drop n, i⟩ : Rule Sym)

theorem sufRules_rhs_aux (n : Nat) : ∀ (k : Nat) (chunk : List (Rule Sym)),
    ((numberFrom k chunk).map fun (i, r) => (⟨r.rhs.drop n, i⟩ : Rule Sym)).map (·.rhs) =
      chunk.map (fun r => r.rhs.drop n)
  | _, [] => rfl
  | k, r :: rs => by simp [numberFrom, sufRules_rhs_aux n (k + 1) rs]

theorem sufRules_rhs (n : Nat) (chunk : List (Rule Sym)) :
    (sufRulesOf n chunk).map (·.rhs) = chunk.map (fun r => r.rhs.drop n) := sufRules_rhs_aux n 0 chunk

theorem sufRules_length (n : Nat) (chunk : List (Rule Sym)) : (sufRulesOf n chunk).length = chunk.length := by
  simp [sufRulesOf, numberFrom_length]

theorem sufRules_syms {n : Nat} {chunk : List (Rule Sym)} {x : Sym} (h : x ∈ rulesSyms (sufRulesOf n chunk)) :
    x ∈ rulesSyms chunk := by
  unfold rulesSyms at h ⊢
  rw [sufRules_rhs] at h
  simp only [List.mem_flatten, List.mem_map] at h ⊢
  obtain ⟨l, ⟨r, hr, rfl⟩, hx⟩ := h
  exact ⟨r.rhs, ⟨r, hr, rfl⟩, List.mem_of_mem_drop hx⟩

/-! ### unfolding `factorizeChunks` -/

theorem factorizeChunks_nil {recur : Sym → List (Rule Sym) → Except Err (Prods Sym)} {sym : Sym} {gid : Nat}
    {rs : List (Rule Sym)} {sp : Prods Sym} (h : factorizeChunks recur sym [] gid = .ok (rs, sp)) :
    rs = [] ∧ sp = [] := by
  simp only [factorizeChunks] at h
  cases h; exact ⟨rfl, rfl⟩

theorem factorizeChunks_single {recur : Sym → List (Rule Sym) → Except Err (Prods Sym)} {sym : Sym} {gid : Nat}
    {r : Rule Sym} {rest : List (List (Rule Sym))} {rs : List (Rule Sym)} {sp : Prods Sym}
    (h : factorizeChunks recur sym ([r] :: rest) gid = .ok (rs, sp)) :
    ∃ rs', rs = r :: rs' ∧ factorizeChunks recur sym rest gid = .ok (rs', sp) := by
  simp only [factorizeChunks] at h
  obtain ⟨⟨rs', sp'⟩, h1, h2⟩ := Except.bind_ok h
  simp only [Except.ok.injEq, Prod.mk.injEq] at h2
  obtain ⟨e1, e2⟩ := h2
  subst e1; subst e2
  exact ⟨rs', rfl, h1⟩

theorem factorizeChunks_group {recur : Sym → List (Rule Sym) → Except Err (Prods Sym)} {sym : Sym} {gid : Nat}
    {r0 r1 : Rule Sym} {more : List (Rule Sym)} {rest : List (List (Rule Sym))} {rs : List (Rule Sym)}
    {sp : Prods Sym} (h : factorizeChunks recur sym ((r0 :: r1 :: more) :: rest) gid = .ok (rs, sp)) :
    let pre := lcpAll r0.rhs (r1 :: more)
    pre ≠ [] ∧ ∃ extra rs' sp', recur (sym.suf gid) (sufRulesOf pre.length (r0 :: r1 :: more)) = .ok extra ∧
      factorizeChunks recur sym rest (gid + 1) = .ok (rs', sp') ∧
      rs = ⟨pre ++ [sym.suf gid], r0.sortN⟩ :: rs' ∧ sp = extra ++ sp' := by
  simp only [factorizeChunks] at h
  split at h
  · simp at h
  · rename_i hne
    obtain ⟨extra, h1, h⟩ := Except.bind_ok h
    obtain ⟨⟨rs', sp'⟩, h2, h⟩ := Except.bind_ok h
    simp only [Except.ok.injEq, Prod.mk.injEq] at h
    obtain ⟨e1, e2⟩ := h
    exact ⟨hne, extra, rs', sp', h1, h2, e1.symm, e2.symm⟩

theorem factorizeList_succ {fuel : Nat} {sym : Sym} {rules : List (Rule Sym)} {d : Prods Sym}
    (h : factorizeList (fuel + 1) sym rules = .ok d) :
    ∃ rs sp, factorizeChunks (factorizeList fuel) sym (splitChunks rules) 0 = .ok (rs, sp) ∧ d = (sym, rs) :: sp := by
  simp only [factorizeList] at h
  obtain ⟨⟨rs, sp⟩, h1, h2⟩ := Except.bind_ok h
  simp only [Except.ok.injEq] at h2
  exact ⟨rs, sp, h1, h2.symm⟩

/-! ### shape -/

def ShapeOK (recur : Sym → List (Rule Sym) → Except Err (Prods Sym)) : Prop :=
  ∀ s rl d, recur s rl = .ok d → ∃ rs sp, d = (s, rs) :: sp ∧ ∀ k ∈ pkeys sp, Ext s k

theorem factorizeChunks_shape {recur : Sym → List (Rule Sym) → Except Err (Prods Sym)} (hrec : ShapeOK recur)
    (sym : Sym) : ∀ (chunks : List (List (Rule Sym))) (gid : Nat) (rs : List (Rule Sym)) (sp : Prods Sym),
    factorizeChunks recur sym chunks gid = .ok (rs, sp) → ∀ k ∈ pkeys sp, Ext sym k
  | [], gid, rs, sp, h => by
    obtain ⟨_, e⟩ := factorizeChunks_nil h
    subst e; intro k hk; simp [pkeys] at hk
  | [] :: rest, gid, rs, sp, h => by simp [factorizeChunks] at h
  | [r] :: rest, gid, rs, sp, h => by
    obtain ⟨rs', _, h'⟩ := factorizeChunks_single h
    exact factorizeChunks_shape hrec sym rest gid rs' sp h'
  | (r0 :: r1 :: more) :: rest, gid, rs, sp, h => by
    obtain ⟨_, extra, rs', sp', h1, h2, _, e2⟩ := factorizeChunks_group h
    subst e2
    obtain ⟨rsx, spx, ex, hx⟩ := hrec _ _ _ h1
    subst ex
    intro k hk
    simp only [pkeys, List.map_append, List.map_cons, List.mem_append, List.mem_cons] at hk
    rcases hk with (hk | hk) | hk
    · subst hk; exact Ext_suf sym gid
    · exact Ext_trans (Ext_suf sym gid) (hx k hk)
    · exact factorizeChunks_shape hrec sym rest (gid + 1) rs' sp' h2 k hk

theorem factorizeList_shape : ∀ (fuel : Nat), ShapeOK (factorizeList fuel)
  | 0 => by intro s rl d h; simp [factorizeList] at h
  | fuel + 1 => by
    intro s rl d h
    obtain ⟨rs, sp, h1, e⟩ := factorizeList_succ h
    exact ⟨rs, sp, e, factorizeChunks_shape (factorizeList_shape fuel) s _ 0 rs sp h1⟩

/-! ### flattened expansions = the given rules -/

section Flat
variable (D : Prods Sym) (S : List Sym)

/-- what the recursive call guarantees w.r.t. the global dictionary `D` and the suffix list `S` -/
def FlatOK (recur : Sym → List (Rule Sym) → Except Err (Prods Sym)) : Prop :=
  ∀ s rl d, recur s rl = .ok d → (∀ e ∈ d, e ∈ D) → (∀ k ∈ pkeys d, k ≠ s → k ∈ S) →
    (∀ x ∈ rulesSyms rl, x ∉ S) →
    (∀ e, FlatD D S s e → e ∈ rl.map (·.rhs)) ∧ (∀ r ∈ rl, FlatD D S s r.rhs)

theorem prefix_append_drop {α : Type} {p l : List α} (h : p <+: l) : p ++ l.drop p.length = l := by
  obtain ⟨t, rfl⟩ := h
  simp

theorem factorizeChunks_flat {recur : Sym → List (Rule Sym) → Except Err (Prods Sym)}
    (hshape : ShapeOK recur) (hrec : FlatOK D S recur) (sym : Sym) :
    ∀ (chunks : List (List (Rule Sym))) (gid : Nat) (rs : List (Rule Sym)) (sp : Prods Sym),
    factorizeChunks recur sym chunks gid = .ok (rs, sp) →
    (∀ e ∈ sp, e ∈ D) → (∀ k ∈ pkeys sp, k ∈ S) → (∀ x ∈ rulesSyms chunks.flatten, x ∉ S) →
    (∀ r ∈ rs, r ∈ chunks.flatten ∨
      ∃ pre suf, r.rhs = pre ++ [suf] ∧ suf ∈ S ∧ ∀ e, FlatD D S suf e → pre ++ e ∈ chunks.flatten.map (·.rhs)) ∧
    (∀ r0 ∈ chunks.flatten, r0 ∈ rs ∨
      ∃ pre suf e, (∃ r ∈ rs, r.rhs = pre ++ [suf]) ∧ suf ∈ S ∧ FlatD D S suf e ∧ r0.rhs = pre ++ e)
  | [], gid, rs, sp, h, _, _, _ => by
    obtain ⟨e, _⟩ := factorizeChunks_nil h
    subst e
    exact ⟨by simp, by simp⟩
  | [] :: rest, gid, rs, sp, h, _, _, _ => by simp [factorizeChunks] at h
  | [r] :: rest, gid, rs, sp, h, hD, hS, hsyms => by
    obtain ⟨rs', e, h'⟩ := factorizeChunks_single h
    subst e
    have hsyms' : ∀ x ∈ rulesSyms rest.flatten, x ∉ S := by
      intro x hx
      apply hsyms x
      obtain ⟨r', hr', hx'⟩ := mem_rulesSyms.1 hx
      exact mem_rulesSyms.2 ⟨r', by simp [hr'], hx'⟩
    obtain ⟨ih1, ih2⟩ := factorizeChunks_flat hshape hrec sym rest gid rs' sp h' hD hS hsyms'
    constructor
    · intro r' hr'
      simp only [List.mem_cons] at hr'
      rcases hr' with hr' | hr'
      · subst hr'; exact Or.inl (by simp)
      · rcases ih1 r' hr' with h1 | ⟨pre, suf, h1, h2, h3⟩
        · exact Or.inl (by simp [h1])
        · refine Or.inr ⟨pre, suf, h1, h2, fun e he => ?_⟩
          have := h3 e he
          simp only [List.flatten_cons, List.map_append, List.mem_append]
          exact Or.inr this
    · intro r0 hr0
      simp only [List.flatten_cons, List.cons_append, List.nil_append, List.mem_cons] at hr0
      rcases hr0 with hr0 | hr0
      · subst hr0; exact Or.inl (by simp)
      · rcases ih2 r0 hr0 with h1 | ⟨pre, suf, e, ⟨r', hr', hrr⟩, h2, h3, h4⟩
        · exact Or.inl (by simp [h1])
        · exact Or.inr ⟨pre, suf, e, ⟨r', by simp [hr'], hrr⟩, h2, h3, h4⟩
  | (r0 :: r1 :: more) :: rest, gid, rs, sp, h, hD, hS, hsyms => by
    obtain ⟨hne, extra, rs', sp', h1, h2, e1, e2⟩ := factorizeChunks_group h
    subst e1; subst e2
    let chunk := r0 :: r1 :: more
    let pre := lcpAll r0.rhs (r1 :: more)
    have hpre : ∀ r ∈ chunk, pre <+: r.rhs := by
      intro r hr
      simp only [chunk, List.mem_cons] at hr
      rcases hr with hr | hr
      · subst hr; exact lcpAll_prefix_init _ _
      · exact lcpAll_prefix_mem (r1 :: more) r0.rhs r (by simpa using hr)
    have hsyms' : ∀ x ∈ rulesSyms rest.flatten, x ∉ S := by
      intro x hx
      apply hsyms x
      obtain ⟨r', hr', hx'⟩ := mem_rulesSyms.1 hx
      exact mem_rulesSyms.2 ⟨r', by simp [hr'], hx'⟩
    have hsymsC : ∀ x ∈ rulesSyms chunk, x ∉ S := by
      intro x hx
      apply hsyms x
      obtain ⟨r', hr', hx'⟩ := mem_rulesSyms.1 hx
      exact mem_rulesSyms.2 ⟨r', by simp only [List.flatten_cons, List.mem_append]; exact Or.inl hr', hx'⟩
    obtain ⟨ih1, ih2⟩ := factorizeChunks_flat hshape hrec sym rest (gid + 1) rs' sp' h2
      (fun e he => hD e (by simp [he])) (fun k hk => hS k (by simp [pkeys] at hk ⊢; exact Or.inr hk)) hsyms'
    -- the recursive call
    obtain ⟨rsx, spx, ex, hx⟩ := hshape _ _ _ h1
    have hsufS : sym.suf gid ∈ S := hS _ (by rw [ex]; simp [pkeys])
    obtain ⟨hf1, hf2⟩ := hrec _ _ _ h1 (fun e he => hD e (by simp [he]))
      (fun k hk hne' => hS k (by simp only [pkeys, List.map_append, List.mem_append]; exact Or.inl hk))
      (fun x hx' => hsymsC x (sufRules_syms hx'))
    rw [sufRules_rhs] at hf1
    constructor
    · intro r hr
      simp only [List.mem_cons] at hr
      rcases hr with hr | hr
      · subst hr
        refine Or.inr ⟨pre, sym.suf gid, rfl, hsufS, fun e he => ?_⟩
        obtain ⟨r', hr', hre⟩ := List.mem_map.1 (hf1 e he)
        simp only [List.flatten_cons, List.map_append, List.mem_append]
        refine Or.inl (List.mem_map.2 ⟨r', hr', ?_⟩)
        rw [← hre]
        exact (prefix_append_drop (hpre r' hr')).symm
      · rcases ih1 r hr with h1' | ⟨pre', suf, h1', h2', h3'⟩
        · exact Or.inl (by simp only [List.flatten_cons, List.mem_append]; exact Or.inr h1')
        · refine Or.inr ⟨pre', suf, h1', h2', fun e he => ?_⟩
          have := h3' e he
          simp only [List.flatten_cons, List.map_append, List.mem_append]
          exact Or.inr this
    · intro r hr
      simp only [List.flatten_cons, List.mem_append] at hr
      rcases hr with hr | hr
      · refine Or.inr ⟨pre, sym.suf gid, r.rhs.drop pre.length,
          ⟨⟨pre ++ [sym.suf gid], r0.sortN⟩, by simp [pre], rfl⟩, hsufS, ?_, ?_⟩
        · obtain ⟨i, hi⟩ := mem_numberFrom_of_mem 0 hr
          have : (⟨r.rhs.drop pre.length, i⟩ : Rule Sym) ∈ sufRulesOf pre.length chunk :=
            List.mem_map.2 ⟨(i, r), hi, rfl⟩
          exact hf2 _ this
        · exact (prefix_append_drop (hpre r hr)).symm
      · rcases ih2 r hr with h1' | ⟨pre', suf, e, ⟨r', hr', hrr⟩, h2', h3', h4'⟩
        · exact Or.inl (by simp [h1'])
        · exact Or.inr ⟨pre', suf, e, ⟨r', by simp [hr'], hrr⟩, h2', h3', h4'⟩

theorem factorizeList_flat (hnd : (D.map (·.1)).Nodup) : ∀ (fuel : Nat), FlatOK D S (factorizeList fuel)
  | 0 => by intro s rl d h; simp [factorizeList] at h
  | fuel + 1 => by
    intro s rl d h hD hS hsyms
    obtain ⟨rs, sp, h1, e⟩ := factorizeList_succ h
    subst e
    have hsp := factorizeChunks_shape (factorizeList_shape fuel) s _ 0 rs sp h1
    have hflat : (splitChunks rl).flatten = rl := splitChunks_flatten rl
    obtain ⟨c1, c2⟩ := factorizeChunks_flat D S (factorizeList_shape fuel) (factorizeList_flat hnd fuel) s
      (splitChunks rl) 0 rs sp h1 (fun e he => hD e (by simp [he]))
      (fun k hk => hS k (by simp [pkeys] at hk ⊢; exact Or.inr hk) (Ext_ne (hsp k hk)))
      (by rw [hflat]; exact hsyms)
    rw [hflat] at c1 c2
    have hentry : (s, rs) ∈ D := hD _ (by simp)
    have hrules : ∀ p, p ∈ gramRules D s ↔ ∃ r ∈ rs, r.rhs = p := by
      intro p
      rw [mem_gramRules]
      constructor
      · rintro ⟨rules, hm, r, hr, hp⟩
        have := nodup_keys_unique hnd hm hentry
        subst this
        exact ⟨r, hr, hp⟩
      · rintro ⟨r, hr, hp⟩
        exact ⟨rs, hentry, r, hr, hp⟩
    have hlastS : ∀ r ∈ rl, ∀ l, r.rhs.getLast? = some l → l ∉ S := by
      intro r hr l hl
      exact hsyms l (mem_rulesSyms.2 ⟨r, hr, List.mem_of_getLast? hl⟩)
    constructor
    · intro e he
      cases he with
      | base hp hlast =>
        obtain ⟨r, hr, hre⟩ := (hrules _).1 hp
        rcases c1 r hr with h' | ⟨pre, suf, h1', h2', _⟩
        · exact List.mem_map.2 ⟨r, h', hre⟩
        · exfalso
          apply hlast suf _ h2'
          rw [← hre, h1']; simp
      | step hp hs' hfl =>
        rename_i pre s' e'
        obtain ⟨r, hr, hre⟩ := (hrules _).1 hp
        rcases c1 r hr with h' | ⟨pre', suf, h1', h2', h3'⟩
        · exfalso
          exact hlastS r h' s' (by rw [hre]; simp) hs'
        · rw [h1'] at hre
          obtain ⟨e1, e2⟩ := List.append_inj' hre (by simp)
          simp only [List.cons.injEq, and_true] at e2
          subst e1; subst e2
          exact h3' _ hfl
    · intro r hr
      rcases c2 r hr with h' | ⟨pre, suf, e, ⟨r', hr', hrr⟩, h2', h3', h4'⟩
      · exact FlatD.base ((hrules _).2 ⟨r, h', rfl⟩) (hlastS r hr)
      · rw [h4']
        exact FlatD.step ((hrules _).2 ⟨r', hr', hrr⟩) h2' h3'

end Flat
end LL
