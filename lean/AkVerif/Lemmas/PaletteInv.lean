import AkVerif.Lemmas.PaletteState
/-!
Invariant of the palette state machine (C10) — part 2: the state invariant `Inv` and its
preservation by every primitive update and every operation.

`Inv` says, in the words of DESIGN.md: every cache entry (palette cache of a configuration, per-class
no-colour cache, sub-palette memo, enum cell cache) refers to a live palette object of the right
kind, and what it holds equals what would be recomputed — no-colour palettes have no colours, a
coloured palette of a configuration whose descriptions were all resolved at creation has, on every
accessor that does not wait for another class (`StableAcc`), the colour the configuration gives now.
-/
namespace PaletteState
open Ak Render

/-- the accessor's syntax id is built in, or registered by the class itself, or by no class at all:
its colour cannot change when other palette classes register -/
def StableAcc (cfg : Cfg) (ci : ClassInfo) (x : SyntId) : Prop :=
  (cfg.builtin.lookup x).isSome ∨ x ∈ defaultIds ci ∨ x ∉ allDefaultIds cfg

def ColorsOk (cfg : Cfg) (c : Conf) (ci : ClassInfo) (cols : List Color) : Prop :=
  (∀ x ∈ defaultIds ci, (c.smap.lookup x).isSome) ∧
  (c.closed = true → ∀ (i : Nat) (x : SyntId) (col : Color), ci.localSyntax[i]? = some x → cols[i]? = some col → StableAcc cfg ci x →
    col = getColor cfg.dfltId c x)

def PalOk (cfg : Cfg) (confs : List (ConfId × Conf)) (p : Pal) : Prop :=
  ∃ ci, cfg.classes[p.cls]? = some ci ∧ p.colors.length = ci.localSyntax.length ∧
    (∀ col ∈ p.colors, ValidPrefix col) ∧
    (p.noColor = true → ∀ col ∈ p.colors, col = []) ∧
    (p.noColor = false → ∀ c, confs.lookup p.conf = some c → ColorsOk cfg c ci p.colors)

structure Inv (cfg : Cfg) (s : State) : Prop where
  confs : ∀ k c, s.confs.lookup k = some c → ConfOk cfg c
  pals : ∀ a p, s.heap.lookup a = some p → PalOk cfg s.confs p
  live : ∀ a p, s.heap.lookup a = some p → (s.confs.lookup p.conf).isSome
  cache : ∀ k c cls a, s.confs.lookup k = some c → c.cache.lookup cls = some a →
    ∃ p, s.heap.lookup a = some p ∧ p.cls = cls ∧ p.conf = k ∧ p.noColor = false
  nc : ∀ cls a, s.ncCache.lookup cls = some a →
    ∃ p, s.heap.lookup a = some p ∧ p.cls = cls ∧ p.noColor = true
  subs : ∀ pa c b, s.subs.lookup (pa, c) = some b →
    ∃ pp pb, s.heap.lookup pa = some pp ∧ s.heap.lookup b = some pb ∧ pb.cls = subCls cfg pp.cls c ∧
      pb.noColor = pp.noColor ∧ (pp.noColor = false → pb.conf = pp.conf)
  enums : cfg.keyByObj = true → ∀ e ec a v cols, s.enums.lookup e = some ec → ec.lookup (a, v) = some cols →
    ∃ p, s.heap.lookup a = some p ∧ cols = p.colors
  /-- a cached palette has the colours the configuration gives now (the cache is dropped when the map changes) -/
  cur : ∀ k c cls a p ci, s.confs.lookup k = some c → c.cache.lookup cls = some a → s.heap.lookup a = some p →
    cfg.classes[cls]? = some ci → p.colors = snapshot cfg ci c
  /-- and so have the sub-palettes memoised by a cached palette -/
  subcur : ∀ k c cls pa c2 b pb ci2, s.confs.lookup k = some c → c.cache.lookup cls = some pa →
    s.subs.lookup (pa, c2) = some b → s.heap.lookup b = some pb → cfg.classes[subCls cfg cls c2]? = some ci2 →
    pb.colors = snapshot cfg ci2 c
  /-- the global configuration exists -/
  glob : (s.confs.lookup s.global).isSome
  /-- the synced `global_palette` shows the colours of the global configuration -/
  gp : ∀ c ci, s.confs.lookup s.global = some c → cfg.classes[cfg.gpClass]? = some ci → s.gp = snapshot cfg ci c

/-! ### colours and configuration steps -/

theorem getColor_congr (dflt : SyntId) (c c' : Conf) (h1 : c'.smap = c.smap) (h2 : c'.noColor = c.noColor)
    (x : SyntId) : getColor dflt c' x = getColor dflt c x := by
  unfold getColor; rw [h1, h2]

theorem snapshot_congr (cfg : Cfg) (ci : ClassInfo) {c c' : Conf} (h1 : c'.smap = c.smap) (h2 : c'.noColor = c.noColor) :
    snapshot cfg ci c' = snapshot cfg ci c := by
  simp only [snapshot]
  apply List.map_congr_left
  intro x _
  exact getColor_congr _ c c' h1 h2 x

theorem colorsOk_congr {cfg : Cfg} {c c' : Conf} (h1 : c'.smap = c.smap) (h2 : c'.noColor = c.noColor)
    (h3 : c'.closed = c.closed) {ci : ClassInfo} {cols : List Color} (h : ColorsOk cfg c ci cols) :
    ColorsOk cfg c' ci cols := by
  refine ⟨fun x hx => by rw [h1]; exact h.1 x hx, ?_⟩
  intro hcl i x col hx hcol hst
  rw [getColor_congr _ c c' h1 h2]
  exact h.2 (by rw [← h3]; exact hcl) i x col hx hcol hst

theorem colorsOk_step {cfg : Cfg} (hcfg : cfgOk cfg = true) {c c' : Conf} (hc : ConfOk cfg c)
    (hs : ConfStep cfg c c') {ci : ClassInfo} {cols : List Color} (h : ColorsOk cfg c ci cols) :
    ColorsOk cfg c' ci cols := by
  have hsome : ∀ x, (c.smap.lookup x).isSome → (c'.smap.lookup x).isSome := by
    intro x hx
    cases hl : c.smap.lookup x with
    | none => simp [hl] at hx
    | some d => simp [hs.sub x d hl]
  refine ⟨fun x hx => hsome x (h.1 x hx), ?_⟩
  intro hcl i x col hx hcol hst
  have hcl0 : c.closed = true := by rw [← hs.closed]; exact hcl
  rw [h.2 hcl0 i x col hx hcol hst]
  symm
  apply getColor_ext cfg.dfltId (hc.builtin _ (cfgOk_dflt hcfg)) (hc.closed hcl0) hs.sub hs.len hs.nc
  rcases hst with hb | hd | hn
  · exact Or.inl (hc.builtin x hb)
  · exact Or.inl (h.1 x hd)
  · cases hl : c.smap.lookup x with
    | some d => simp
    | none =>
      right
      cases hl' : c'.smap.lookup x with
      | none => rfl
      | some d' =>
        rcases hs.ids x (by simp [hl']) with h1 | h1
        · simp [hl] at h1
        · exact absurd h1 hn

theorem colorsOk_snapshot {cfg : Cfg} {c : Conf} {ci : ClassInfo}
    (h : ∀ x ∈ defaultIds ci, (c.smap.lookup x).isSome) : ColorsOk cfg c ci (snapshot cfg ci c) := by
  refine ⟨h, ?_⟩
  intro _ i x col hx hcol _
  simp only [snapshot, List.getElem?_map, hx, Option.map_some] at hcol
  cases hcol; rfl

theorem snapshot_valid {cfg : Cfg} {c : Conf} (hc : ConfOk cfg c) (ci : ClassInfo) :
    ∀ col ∈ snapshot cfg ci c, ValidPrefix col := by
  intro col hcol
  simp only [snapshot, List.mem_map] at hcol
  obtain ⟨x, _, rfl⟩ := hcol
  exact getColor_valid _ _ hc.wf x

theorem confOk_cache {cfg : Cfg} {c : Conf} (h : ConfOk cfg c) (ch : List (ClassId × Addr)) :
    ConfOk cfg { c with cache := ch } := ⟨h.builtin, h.wf, h.closed, h.reg⟩

/-! ### lookups in updated states -/

theorem lookup_putConf (s : State) (k k' : ConfId) (c : Conf) :
    (putConf s k c).confs.lookup k' = if k' = k then some c else s.confs.lookup k' := by
  simp only [putConf]
  by_cases h : k' = k
  · subst h; simp
  · rw [lookup_cons_ne _ _ h, lookup_filter_key (fun x => x ≠ k)]
    simp [h]

theorem setConf_confs (cfg : Cfg) (s : State) (k : ConfId) (old new : Conf) :
    (setConf cfg s k old new).confs = (putConf s k new).confs := by
  unfold setConf syncGp
  simp only []
  split
  · split <;> rfl
  · rfl

theorem setConf_rest (cfg : Cfg) (s : State) (k : ConfId) (old new : Conf) :
    (setConf cfg s k old new).heap = s.heap ∧ (setConf cfg s k old new).subs = s.subs ∧
    (setConf cfg s k old new).ncCache = s.ncCache ∧ (setConf cfg s k old new).enums = s.enums ∧
    (setConf cfg s k old new).held = s.held ∧ (setConf cfg s k old new).global = s.global := by
  unfold setConf syncGp putConf
  simp only []
  split
  · split <;> simp
  · simp

theorem syncGp_fields (cfg : Cfg) (s : State) :
    (syncGp cfg s).confs = s.confs ∧ (syncGp cfg s).heap = s.heap ∧ (syncGp cfg s).subs = s.subs ∧
    (syncGp cfg s).ncCache = s.ncCache ∧ (syncGp cfg s).enums = s.enums ∧ (syncGp cfg s).held = s.held ∧
    (syncGp cfg s).global = s.global := by
  unfold syncGp
  split <;> simp

theorem syncGp_gp (cfg : Cfg) (s : State) : ∀ c ci, s.confs.lookup s.global = some c →
    cfg.classes[cfg.gpClass]? = some ci → (syncGp cfg s).gp = snapshot cfg ci c := by
  intro c ci h1 h2
  unfold syncGp
  rw [h1, h2]

theorem lookup_heap_cons {heap : List (Addr × Pal)} {a a' : Addr} {p p' : Pal}
    (ha : a ∉ heap.map Prod.fst) (h : heap.lookup a' = some p') : List.lookup a' ((a, p) :: heap) = some p' := by
  have : a' ≠ a := by intro e; subst e; exact ha (key_of_lookup h)
  rw [lookup_cons_ne _ _ this]; exact h

/-! ### primitive updates preserve the invariant -/

/-- the palettes of a configuration stay right when the configuration makes a step -/
theorem palOk_step {cfg : Cfg} (hcfg : cfgOk cfg = true) {s : State} (hinv : Inv cfg s) {k : ConfId} {c c' : Conf}
    (hk : s.confs.lookup k = some c) (hs : ConfStep cfg c c') {p : Pal} (hp : PalOk cfg s.confs p) :
    PalOk cfg (putConf s k c').confs p := by
  obtain ⟨ci, hci, hlen, hv, hnc, hcol⟩ := hp
  refine ⟨ci, hci, hlen, hv, hnc, ?_⟩
  intro hcolored c2 hc2
  rw [lookup_putConf] at hc2
  split at hc2
  · rename_i hpk
    cases hc2
    have := hcol hcolored c (by rw [hpk]; exact hk)
    exact colorsOk_step hcfg (hinv.confs k c hk) hs this
  · exact hcol hcolored c2 hc2

theorem inv_setConf {cfg : Cfg} (hcfg : cfgOk cfg = true) {s : State} (hinv : Inv cfg s) {k : ConfId} {c c' : Conf}
    (hk : s.confs.lookup k = some c) (hok : ConfOk cfg c') (hs : ConfStep cfg c c') :
    Inv cfg (setConf cfg s k c c') := by
  obtain ⟨hheap, hsubs, hncc, henums, _, hglob⟩ := setConf_rest cfg s k c c'
  have hconfs := setConf_confs cfg s k c c'
  refine ⟨?_, ?_, ?_, ?_, ?_, ?_, ?_, ?_, ?_, ?_, ?_⟩
  · intro k' c2 h
    rw [hconfs, lookup_putConf] at h
    split at h
    · cases h; exact hok
    · exact hinv.confs k' c2 h
  · intro a p h
    rw [hheap] at h
    rw [hconfs]
    exact palOk_step hcfg hinv hk hs (hinv.pals a p h)
  · intro a p h
    rw [hheap] at h
    rw [hconfs, lookup_putConf]
    split
    · rfl
    · exact hinv.live a p h
  · intro k' c2 cls a h hc
    rw [hconfs, lookup_putConf] at h
    rw [hheap]
    split at h
    · rename_i hkk
      cases h
      rcases hs.cache with e | e
      · rw [e] at hc; rw [hkk]; exact hinv.cache k c cls a hk hc
      · rw [e] at hc; simp at hc
    · exact hinv.cache k' c2 cls a h hc
  · intro cls a h; rw [hncc] at h; rw [hheap]; exact hinv.nc cls a h
  · intro pa c2 b h; rw [hsubs] at h; rw [hheap]; exact hinv.subs pa c2 b h
  · intro hko e ec a v cols h1 h2; rw [henums] at h1; rw [hheap]; exact hinv.enums hko e ec a v cols h1 h2
  · intro k' c2 cls a p ci h hc hp hci
    rw [hconfs, lookup_putConf] at h
    rw [hheap] at hp
    split at h
    · cases h
      obtain ⟨e1, e2⟩ := hs.keep cls a hc
      rw [hinv.cur k c cls a p ci hk e2 hp hci]
      exact (snapshot_congr cfg ci e1 hs.nc).symm
    · exact hinv.cur k' c2 cls a p ci h hc hp hci
  · intro k' c2 cls pa c3 b pb ci2 h hc hsb hp hci
    rw [hconfs, lookup_putConf] at h
    rw [hheap] at hp
    rw [hsubs] at hsb
    split at h
    · cases h
      obtain ⟨e1, e2⟩ := hs.keep cls pa hc
      rw [hinv.subcur k c cls pa c3 b pb ci2 hk e2 hsb hp hci]
      exact (snapshot_congr cfg ci2 e1 hs.nc).symm
    · exact hinv.subcur k' c2 cls pa c3 b pb ci2 h hc hsb hp hci
  · rw [hglob, hconfs, lookup_putConf]
    split
    · rfl
    · exact hinv.glob
  · intro c0 ci0 h1 h2
    rw [hglob, hconfs, lookup_putConf] at h1
    unfold setConf
    simp only []
    split
    · -- re-synced
      rename_i hcond
      apply syncGp_gp
      · simp only [putConf]
        rw [← hcond.1]
        have := lookup_putConf s k k c'
        simp only [putConf, if_true] at this
        rw [this]
        rw [hcond.1] at h1
        simp only [if_true] at h1
        exact h1
      · exact h2
    · rename_i hcond
      simp only [putConf]
      split at h1
      · rename_i hgk
        cases h1
        have hlen : c'.smap.length = c.smap.length := by
          apply Classical.byContradiction
          intro hne
          exact hcond ⟨hgk.symm, hne⟩
        rw [hinv.gp c ci0 (by rw [hgk]; exact hk) h2]
        exact (snapshot_congr cfg ci0 (hs.same hlen).1 hs.nc).symm
      · exact hinv.gp c0 ci0 h1 h2

theorem inv_allocPal {cfg : Cfg} {s : State} (hinv : Inv cfg s) {a : Addr} {p : Pal}
    (ha : a ∉ s.heap.map Prod.fst) (hp : PalOk cfg s.confs p) (hl : (s.confs.lookup p.conf).isSome) :
    Inv cfg (allocPal s a p) := by
  have old : ∀ a' p', List.lookup a' ((a, p) :: s.heap) = some p' → a' ∈ s.heap.map Prod.fst → s.heap.lookup a' = some p' := by
    intro a' p' h hin
    have : a' ≠ a := by intro e; rw [e] at hin; exact ha hin
    rw [lookup_cons_ne _ _ this] at h; exact h
  refine ⟨hinv.confs, ?_, ?_, ?_, ?_, ?_, ?_, ?_, ?_, hinv.glob, hinv.gp⟩
  · intro a' p' h
    simp only [allocPal] at h ⊢
    by_cases e : a' = a
    · subst e; rw [lookup_cons_eq] at h; cases h; exact hp
    · rw [lookup_cons_ne _ _ e] at h; exact hinv.pals a' p' h
  · intro a' p' h
    simp only [allocPal] at h ⊢
    by_cases e : a' = a
    · subst e; rw [lookup_cons_eq] at h; cases h; exact hl
    · rw [lookup_cons_ne _ _ e] at h; exact hinv.live a' p' h
  · intro k c cls a' h hc
    obtain ⟨p', h1, h2⟩ := hinv.cache k c cls a' h hc
    exact ⟨p', lookup_heap_cons ha h1, h2⟩
  · intro cls a' h
    obtain ⟨p', h1, h2⟩ := hinv.nc cls a' h
    exact ⟨p', lookup_heap_cons ha h1, h2⟩
  · intro pa c b h
    obtain ⟨pp, pb, h1, h2, h3⟩ := hinv.subs pa c b h
    exact ⟨pp, pb, lookup_heap_cons ha h1, lookup_heap_cons ha h2, h3⟩
  · intro hko e ec a' v cols h1 h2
    obtain ⟨p', h3, h4⟩ := hinv.enums hko e ec a' v cols h1 h2
    exact ⟨p', lookup_heap_cons ha h3, h4⟩
  · intro k c cls a' p' ci h hc hp hci
    obtain ⟨q, hq, _⟩ := hinv.cache k c cls a' h hc
    exact hinv.cur k c cls a' p' ci h hc (old a' p' hp (key_of_lookup hq)) hci
  · intro k c cls pa c2 b pb ci2 h hc hsb hp hci
    obtain ⟨_, qb, _, hq, _⟩ := hinv.subs pa c2 b hsb
    exact hinv.subcur k c cls pa c2 b pb ci2 h hc hsb (old b pb hp (key_of_lookup hq)) hci

theorem inv_cachePal {cfg : Cfg} {s : State} (hinv : Inv cfg s) {k : ConfId} {cls : ClassId} {a : Addr} {p : Pal}
    (hp : s.heap.lookup a = some p) (h1 : p.cls = cls) (h2 : p.conf = k) (h3 : p.noColor = false)
    (hcur : ∀ c ci, s.confs.lookup k = some c → cfg.classes[cls]? = some ci → p.colors = snapshot cfg ci c)
    (hnomemo : ∀ c2, s.subs.lookup (a, c2) = none) :
    Inv cfg (cachePal s k cls a) := by
  unfold cachePal
  split
  · rename_i c hk
    refine ⟨?_, ?_, ?_, ?_, hinv.nc, hinv.subs, hinv.enums, ?_, ?_, ?_, ?_⟩
    rotate_left 4
    · intro k' c2 cls' a' p' ci h hc hp' hci
      rw [lookup_putConf] at h
      have hp'' : s.heap.lookup a' = some p' := hp'
      split at h
      · cases h
        simp only [] at hc
        by_cases e : cls' = cls
        · subst e
          rw [lookup_cons_eq] at hc; cases hc
          rw [hp] at hp''; cases hp''
          rw [hcur c ci hk hci]
          exact (snapshot_congr cfg ci rfl rfl).symm
        · rw [lookup_cons_ne _ _ e] at hc
          rw [hinv.cur k c cls' a' p' ci hk hc hp'' hci]
          exact (snapshot_congr cfg ci rfl rfl).symm
      · exact hinv.cur k' c2 cls' a' p' ci h hc hp'' hci
    · intro k' c2 cls' pa c3 b pb ci2 h hc hsb hpb hci
      rw [lookup_putConf] at h
      have hsb' : s.subs.lookup (pa, c3) = some b := hsb
      have hpb' : s.heap.lookup b = some pb := hpb
      split at h
      · cases h
        simp only [] at hc
        by_cases e : cls' = cls
        · subst e
          rw [lookup_cons_eq] at hc; cases hc
          rw [hnomemo c3] at hsb'; cases hsb'
        · rw [lookup_cons_ne _ _ e] at hc
          rw [hinv.subcur k c cls' pa c3 b pb ci2 hk hc hsb' hpb' hci]
          exact (snapshot_congr cfg ci2 rfl rfl).symm
      · exact hinv.subcur k' c2 cls' pa c3 b pb ci2 h hc hsb' hpb' hci
    · show ((putConf s k _).confs.lookup s.global).isSome
      rw [lookup_putConf]
      split
      · rfl
      · exact hinv.glob
    · intro c0 ci0 h1 h2
      have h1' : (putConf s k { c with cache := (cls, a) :: c.cache }).confs.lookup s.global = some c0 := h1
      rw [lookup_putConf] at h1'
      show s.gp = _
      split at h1'
      · rename_i hgk
        cases h1'
        rw [hinv.gp c ci0 (by rw [hgk]; exact hk) h2]
        exact (snapshot_congr cfg ci0 rfl rfl).symm
      · exact hinv.gp c0 ci0 h1' h2
    · intro k' c2 h
      rw [lookup_putConf] at h
      split at h
      · cases h; exact confOk_cache (hinv.confs k c hk) _
      · exact hinv.confs k' c2 h
    · intro a' p' h
      obtain ⟨ci, hci, hlen, hv, hnc, hcol⟩ := hinv.pals a' p' h
      refine ⟨ci, hci, hlen, hv, hnc, ?_⟩
      intro hcolored c2 hc2
      rw [lookup_putConf] at hc2
      split at hc2
      · rename_i hpk
        cases hc2
        exact colorsOk_congr rfl rfl rfl (hcol hcolored c (by rw [hpk]; exact hk))
      · exact hcol hcolored c2 hc2
    · intro a' p' h
      rw [lookup_putConf]
      split
      · rfl
      · exact hinv.live a' p' h
    · intro k' c2 cls' a' h hc
      rw [lookup_putConf] at h
      show ∃ p, s.heap.lookup a' = some p ∧ _
      split at h
      · rename_i hkk
        cases h
        simp only [] at hc
        by_cases e : cls' = cls
        · subst e; rw [lookup_cons_eq] at hc; cases hc
          exact ⟨p, hp, h1, by rw [hkk]; exact h2, h3⟩
        · rw [lookup_cons_ne _ _ e] at hc
          rw [hkk]; exact hinv.cache k c cls' a' hk hc
      · exact hinv.cache k' c2 cls' a' h hc
  · exact hinv

theorem inv_cacheNc {cfg : Cfg} {s : State} (hinv : Inv cfg s) {cls : ClassId} {a : Addr} {p : Pal}
    (hp : s.heap.lookup a = some p) (h1 : p.cls = cls) (h2 : p.noColor = true) : Inv cfg (cacheNc s cls a) := by
  refine ⟨hinv.confs, hinv.pals, hinv.live, hinv.cache, ?_, hinv.subs, hinv.enums, hinv.cur, hinv.subcur, hinv.glob, hinv.gp⟩
  intro cls' a' h
  simp only [cacheNc] at h
  by_cases e : cls' = cls
  · subst e; rw [lookup_cons_eq] at h; cases h; exact ⟨p, hp, h1, h2⟩
  · rw [lookup_cons_ne _ _ e] at h; exact hinv.nc cls' a' h

theorem inv_memoSub {cfg : Cfg} {s : State} (hinv : Inv cfg s) {pa b : Addr} {c : ClassId} {pp pb : Pal}
    (h1 : s.heap.lookup pa = some pp) (h2 : s.heap.lookup b = some pb) (h3 : pb.cls = subCls cfg pp.cls c)
    (h4 : pb.noColor = pp.noColor) (h5 : pp.noColor = false → pb.conf = pp.conf)
    (h6 : ∀ k cf cls ci2, s.confs.lookup k = some cf → cf.cache.lookup cls = some pa →
      cfg.classes[subCls cfg cls c]? = some ci2 →
      pb.colors = snapshot cfg ci2 cf) :
    Inv cfg (memoSub s pa c b) := by
  refine ⟨hinv.confs, hinv.pals, hinv.live, hinv.cache, hinv.nc, ?_, hinv.enums, hinv.cur, ?_, hinv.glob, hinv.gp⟩
  · intro pa' c' b' h
    simp only [memoSub] at h
    by_cases e : (pa', c') = (pa, c)
    · cases e; rw [lookup_cons_eq] at h; cases h; exact ⟨pp, pb, h1, h2, h3, h4, h5⟩
    · rw [lookup_cons_ne _ _ e] at h; exact hinv.subs pa' c' b' h
  · intro k cf cls pa' c' b' pb' ci2 hk hc hsb hpb hci
    simp only [memoSub] at hsb
    have hpb' : s.heap.lookup b' = some pb' := hpb
    by_cases e : (pa', c') = (pa, c)
    · cases e
      rw [lookup_cons_eq] at hsb; cases hsb
      rw [h2] at hpb'; cases hpb'
      exact h6 k cf cls ci2 hk hc hci
    · rw [lookup_cons_ne _ _ e] at hsb
      exact hinv.subcur k cf cls pa' c' b' pb' ci2 hk hc hsb hpb' hci

/-! ### making palettes -/

def ValidAlloc (alloc : Alloc) : Prop := ∀ l, alloc l ∉ l

/-- what an operation on palettes may do to the rest of the state: palettes are never overwritten,
configurations stay and keep their `closed` flag -/
structure Frame (s s' : State) : Prop where
  heap : ∀ a p, s.heap.lookup a = some p → s'.heap.lookup a = some p
  confs : ∀ k c, s.confs.lookup k = some c → ∃ c', s'.confs.lookup k = some c' ∧ c'.closed = c.closed ∧
    c'.noColor = c.noColor ∧ c.smap.length ≤ c'.smap.length ∧
    (c'.smap.length = c.smap.length → c'.smap = c.smap ∧
      ∀ cls a, c.cache.lookup cls = some a → c'.cache.lookup cls = some a)
  subs : ∀ k b, s.subs.lookup k = some b → s'.subs.lookup k = some b
  enumKeys : ∀ e ec, s.enums.lookup e = some ec → ∃ ec', s'.enums.lookup e = some ec'

theorem Frame.refl (s : State) : Frame s s :=
  ⟨fun _ _ h => h, fun _ c h => ⟨c, h, rfl, rfl, Nat.le_refl _, fun _ => ⟨rfl, fun _ _ h => h⟩⟩, fun _ _ h => h, fun _ ec h => ⟨ec, h⟩⟩

theorem Frame.trans {a b c : State} (h1 : Frame a b) (h2 : Frame b c) : Frame a c := by
  refine ⟨fun x p h => h2.heap x p (h1.heap x p h), ?_, fun k x h => h2.subs k x (h1.subs k x h),
    fun e ec h => by obtain ⟨ec1, h'⟩ := h1.enumKeys e ec h; exact h2.enumKeys e ec1 h'⟩
  intro k c0 h
  obtain ⟨c1, e1, e2, e2', l1, s1⟩ := h1.confs k c0 h
  obtain ⟨c2, e3, e4, e4', l2, s2⟩ := h2.confs k c1 e1
  refine ⟨c2, e3, e4.trans e2, e4'.trans e2', Nat.le_trans l1 l2, ?_⟩
  intro hl
  have q1 : c1.smap.length = c0.smap.length := by omega
  have q2 : c2.smap.length = c1.smap.length := by omega
  obtain ⟨a1, b1⟩ := s1 q1
  obtain ⟨a2, b2⟩ := s2 q2
  exact ⟨a2.trans a1, fun cls a hh => b2 cls a (b1 cls a hh)⟩

theorem frame_setConf (cfg : Cfg) (s : State) (k : ConfId) (old new : Conf) (c : Conf)
    (hk : s.confs.lookup k = some c) (hs : ConfStep cfg c new) :
    Frame s (setConf cfg s k old new) := by
  obtain ⟨hheap, hsubs, _, henums, _, _⟩ := setConf_rest cfg s k old new
  refine ⟨fun a p h => by rw [hheap]; exact h, ?_, fun x b h => by rw [hsubs]; exact h, fun e ec h => ⟨ec, by rw [henums]; exact h⟩⟩
  intro k' c' h
  rw [setConf_confs, lookup_putConf]
  by_cases e : k' = k
  · subst e; rw [hk] at h; cases h
    refine ⟨new, by simp, hs.closed, hs.nc, hs.len, ?_⟩
    intro hl
    obtain ⟨q1, q2⟩ := hs.same hl
    exact ⟨q1, fun cls a hh => by rw [q2]; exact hh⟩
  · exact ⟨c', by simp [e, h], rfl, rfl, Nat.le_refl _, fun _ => ⟨rfl, fun _ _ hh => hh⟩⟩

theorem frame_allocPal (s : State) (a : Addr) (p : Pal) (ha : a ∉ s.heap.map Prod.fst) :
    Frame s (allocPal s a p) :=
  ⟨fun _ _ h => lookup_heap_cons ha h,
   fun _ c h => ⟨c, h, rfl, rfl, Nat.le_refl _, fun _ => ⟨rfl, fun _ _ hh => hh⟩⟩, fun _ _ h => h, fun _ ec h => ⟨ec, h⟩⟩

theorem frame_cachePal (s : State) (k : ConfId) (cls : ClassId) (a : Addr)
    (hmiss : ∀ c, s.confs.lookup k = some c → c.cache.lookup cls = none) : Frame s (cachePal s k cls a) := by
  unfold cachePal
  split
  · rename_i c hk
    refine ⟨fun _ _ h => h, ?_, fun _ _ h => h, fun _ ec h => ⟨ec, h⟩⟩
    intro k' c' h
    rw [lookup_putConf]
    by_cases e : k' = k
    · subst e; rw [hk] at h; cases h
      refine ⟨{ c with cache := (cls, a) :: c.cache }, by simp, rfl, rfl, Nat.le_refl _, fun _ => ⟨rfl, ?_⟩⟩
      intro cls' a' hh
      simp only []
      have : cls' ≠ cls := by intro e2; rw [e2, hmiss c hk] at hh; cases hh
      rw [lookup_cons_ne _ _ this]; exact hh
    · exact ⟨c', by simp [e, h], rfl, rfl, Nat.le_refl _, fun _ => ⟨rfl, fun _ _ hh => hh⟩⟩
  · exact Frame.refl s

theorem frame_cacheNc (s : State) (cls : ClassId) (a : Addr) : Frame s (cacheNc s cls a) :=
  ⟨fun _ _ h => h, fun _ c h => ⟨c, h, rfl, rfl, Nat.le_refl _, fun _ => ⟨rfl, fun _ _ hh => hh⟩⟩, fun _ _ h => h, fun _ ec h => ⟨ec, h⟩⟩

theorem registerCls_ok {cfg : Cfg} (hcfg : cfgOk cfg = true) {cls : ClassId} {c c' : Conf} (hc : ConfOk cfg c)
    (h : registerCls cfg cls c = .ok c') : ConfOk cfg c' ∧ ConfStep cfg c c' :=
  register_ok hcfg _ cls c c' hc h

theorem registerCls_has {cfg : Cfg} (hcfg : cfgOk cfg = true) {cls : ClassId} {c c' : Conf} (hc : ConfOk cfg c)
    (h : registerCls cfg cls c = .ok c') {ci : ClassInfo} (hci : cfg.classes[cls]? = some ci) :
    ∀ x ∈ defaultIds ci, (c'.smap.lookup x).isSome :=
  register_has hcfg _ cls c c' hc h ci hci

/-- result of `mkPalette`: the invariant holds again, the returned address carries a palette of the
requested class and kind, nothing else was disturbed -/
theorem mkPalette_spec {cfg : Cfg} (hcfg : cfgOk cfg = true) {alloc : Alloc} (hal : ValidAlloc alloc)
    {cls : ClassId} {k : ConfId} {nc : Bool} {s s' : State} {a : Addr} (hinv : Inv cfg s)
    (h : mkPalette cfg alloc cls k nc s = .ok (s', a)) :
    Inv cfg s' ∧ Frame s s' ∧
    (∃ p, s'.heap.lookup a = some p ∧ p.cls = cls ∧ p.noColor = nc ∧ (nc = false → p.conf = k)) ∧
    (nc = false → ∃ c1, s'.confs.lookup k = some c1 ∧ c1.cache.lookup cls = some a) := by
  unfold mkPalette at h
  simp only [bind, Except.bind, getClass, getConf] at h
  cases hci : cfg.classes[cls]? with
  | none => simp [hci] at h
  | some ci =>
  cases hk : s.confs.lookup k with
  | none => simp [hci, hk] at h
  | some c =>
  have hc := hinv.confs k c hk
  simp only [hci, hk] at h
  cases nc with
  | true =>
    simp only [if_true] at h
    cases hr : registerCls cfg cls c with
    | error e => simp [hr] at h
    | ok c' =>
      simp only [hr] at h
      obtain ⟨hc', hstep⟩ := registerCls_ok hcfg hc hr
      have hinv1 := inv_setConf hcfg hinv hk hc' hstep
      have hfr1 := frame_setConf cfg s k c c' c hk hstep
      split at h
      · rename_i a0 hnc
        cases h
        obtain ⟨p, hp1, hp2, hp3⟩ := hinv1.nc cls a hnc
        exact ⟨hinv1, hfr1, ⟨p, hp1, hp2, hp3, by simp⟩, by simp⟩
      · cases h
        have ha := hal ((setConf cfg s k c c').heap.map Prod.fst)
        have hpal : PalOk cfg (setConf cfg s k c c').confs
            ⟨cls, k, true, ci.localSyntax.map fun _ => []⟩ := by
          refine ⟨ci, hci, by simp, ?_, ?_, by simp⟩
          · intro col hcol; simp at hcol; left; exact hcol.2
          · intro _ col hcol; simp at hcol; exact hcol.2
        have hk1 : (setConf cfg s k c c').confs.lookup k = some c' := by
          rw [setConf_confs, lookup_putConf]; simp
        have hinv2 := inv_allocPal hinv1 ha hpal (by simp [hk1])
        have hlk : (allocPal (setConf cfg s k c c') (alloc ((setConf cfg s k c c').heap.map Prod.fst))
            ⟨cls, k, true, ci.localSyntax.map fun _ => []⟩).heap.lookup
            (alloc ((setConf cfg s k c c').heap.map Prod.fst)) = some ⟨cls, k, true, ci.localSyntax.map fun _ => []⟩ := by
          simp [allocPal]
        refine ⟨inv_cacheNc hinv2 hlk rfl rfl, ?_, ⟨⟨cls, k, true, ci.localSyntax.map fun _ => []⟩, hlk, rfl, rfl, by simp⟩, by simp⟩
        exact (hfr1.trans (frame_allocPal _ _ _ ha)).trans (frame_cacheNc _ _ _)
  | false =>
    simp only [Bool.false_eq_true, if_false] at h
    split at h
    · rename_i a0 hcache
      cases h
      obtain ⟨p, hp1, hp2, hp3, hp4⟩ := hinv.cache k c cls a hk hcache
      exact ⟨hinv, Frame.refl s, ⟨p, hp1, hp2, hp4, fun _ => hp3⟩, fun _ => ⟨c, hk, hcache⟩⟩
    · cases hr : registerCls cfg cls c with
      | error e => simp [hr] at h
      | ok c' =>
        simp only [hr] at h
        cases h
        obtain ⟨hc', hstep⟩ := registerCls_ok hcfg hc hr
        have hinv1 := inv_setConf hcfg hinv hk hc' hstep
        have hfr1 := frame_setConf cfg s k c c' c hk hstep
        have ha := hal ((setConf cfg s k c c').heap.map Prod.fst)
        have hk1 : (setConf cfg s k c c').confs.lookup k = some c' := by
          rw [setConf_confs, lookup_putConf]; simp
        have hmiss' : c'.cache.lookup cls = none := by
          rename_i hmiss
          rcases hstep.cache with e | e
          · rw [e]; exact hmiss
          · rw [e]; rfl
        have hpal : PalOk cfg (setConf cfg s k c c').confs ⟨cls, k, false, snapshot cfg ci c'⟩ := by
          refine ⟨ci, hci, by simp [snapshot], snapshot_valid hc' ci, by simp, ?_⟩
          intro _ c2 hc2
          simp only [] at hc2
          rw [hk1] at hc2; cases hc2
          exact colorsOk_snapshot (registerCls_has hcfg hc hr hci)
        have hinv2 := inv_allocPal hinv1 ha hpal (by simp [hk1])
        have hlk : (allocPal (setConf cfg s k c c') (alloc ((setConf cfg s k c c').heap.map Prod.fst))
            ⟨cls, k, false, snapshot cfg ci c'⟩).heap.lookup
            (alloc ((setConf cfg s k c c').heap.map Prod.fst)) = some ⟨cls, k, false, snapshot cfg ci c'⟩ := by
          simp [allocPal]
        have hcur : ∀ c1 ci1, (allocPal (setConf cfg s k c c') (alloc ((setConf cfg s k c c').heap.map Prod.fst))
            ⟨cls, k, false, snapshot cfg ci c'⟩).confs.lookup k = some c1 → cfg.classes[cls]? = some ci1 →
            (⟨cls, k, false, snapshot cfg ci c'⟩ : Pal).colors = snapshot cfg ci1 c1 := by
          intro c1 ci1 h1 h2
          have h1' : (setConf cfg s k c c').confs.lookup k = some c1 := h1
          rw [hk1] at h1'; cases h1'
          rw [hci] at h2; cases h2
          rfl
        have hnomemo : ∀ c2, (allocPal (setConf cfg s k c c') (alloc ((setConf cfg s k c c').heap.map Prod.fst))
            ⟨cls, k, false, snapshot cfg ci c'⟩).subs.lookup (alloc ((setConf cfg s k c c').heap.map Prod.fst), c2) = none := by
          intro c2
          cases hq : (allocPal (setConf cfg s k c c') (alloc ((setConf cfg s k c c').heap.map Prod.fst))
              ⟨cls, k, false, snapshot cfg ci c'⟩).subs.lookup (alloc ((setConf cfg s k c c').heap.map Prod.fst), c2) with
          | none => rfl
          | some b0 =>
            have hq' : (setConf cfg s k c c').subs.lookup (alloc ((setConf cfg s k c c').heap.map Prod.fst), c2) = some b0 := hq
            obtain ⟨pp0, _, e1, _⟩ := hinv1.subs _ c2 b0 hq'
            exact absurd (key_of_lookup e1) ha
        have hmissS : ∀ c1, (allocPal (setConf cfg s k c c') (alloc ((setConf cfg s k c c').heap.map Prod.fst))
            ⟨cls, k, false, snapshot cfg ci c'⟩).confs.lookup k = some c1 → c1.cache.lookup cls = none := by
          intro c1 h1
          have h1' : (setConf cfg s k c c').confs.lookup k = some c1 := h1
          rw [hk1] at h1'; cases h1'
          exact hmiss'
        refine ⟨inv_cachePal hinv2 hlk rfl rfl rfl hcur hnomemo, ?_, ⟨⟨cls, k, false, snapshot cfg ci c'⟩, ?_, rfl, rfl, fun _ => rfl⟩, ?_⟩
        · exact (hfr1.trans (frame_allocPal _ _ _ ha)).trans (frame_cachePal _ _ _ _ hmissS)
        · exact (frame_cachePal _ _ _ _ hmissS).heap _ _ hlk
        · intro _
          refine ⟨{ c' with cache := (cls, alloc ((setConf cfg s k c c').heap.map Prod.fst)) :: c'.cache }, ?_, by simp⟩
          unfold cachePal
          have : (allocPal (setConf cfg s k c c') (alloc ((setConf cfg s k c c').heap.map Prod.fst))
            ⟨cls, k, false, snapshot cfg ci c'⟩).confs.lookup k = some c' := hk1
          rw [this]
          simp only []
          rw [lookup_putConf]; simp

theorem getSub_spec {cfg : Cfg} (hcfg : cfgOk cfg = true) {alloc : Alloc} (hal : ValidAlloc alloc)
    {pa : Addr} {c : ClassId} {s s' : State} {b : Addr} (hinv : Inv cfg s)
    (h : getSub cfg alloc pa c s = .ok (s', b)) :
    Inv cfg s' ∧ Frame s s' ∧ s'.subs.lookup (pa, c) = some b := by
  unfold getSub at h
  simp only [bind, Except.bind, getPal, getClass] at h
  cases hpa : s.heap.lookup pa with
  | none => simp [hpa] at h
  | some pp =>
  simp only [hpa] at h
  cases hci : cfg.classes[pp.cls]? with
  | none => simp [hci] at h
  | some ci =>
  simp only [hci] at h
  split at h
  · cases h
  · split at h
    · rename_i b0 hm
      cases h
      exact ⟨hinv, Frame.refl s, hm⟩
    · cases hmk : mkPalette cfg alloc (ci.actual c) pp.conf pp.noColor s with
      | error e => simp [hmk] at h
      | ok r =>
        obtain ⟨s1, b1⟩ := r
        simp only [hmk] at h
        cases h
        obtain ⟨hinv1, hfr, ⟨pb, hb1, hb2, hb3, hb4⟩, hb5⟩ := mkPalette_spec hcfg hal hinv hmk
        have hsc : subCls cfg pp.cls c = ci.actual c := by simp [subCls, hci]
        have h6 : ∀ k cf cls ci2, s1.confs.lookup k = some cf → cf.cache.lookup cls = some pa →
            cfg.classes[subCls cfg cls c]? = some ci2 → pb.colors = snapshot cfg ci2 cf := by
          intro k cf cls ci2 hk hc hci2
          obtain ⟨pp', e1, e2, e3, e4⟩ := hinv1.cache k cf cls pa hk hc
          rw [hfr.heap pa pp hpa] at e1; cases e1
          obtain ⟨c1, q1, q2⟩ := hb5 e4
          rw [e3] at q1
          rw [hk] at q1; cases q1
          rw [← e2, hsc] at hci2
          exact hinv1.cur k cf (ci.actual c) _ pb ci2 hk q2 hb1 hci2
        refine ⟨inv_memoSub hinv1 (hfr.heap pa pp hpa) hb1 (hb2.trans hsc.symm) hb3 hb4 h6, ?_, by simp [memoSub]⟩
        refine ⟨hfr.heap, hfr.confs, ?_, hfr.enumKeys⟩
        intro k0 b0 h0
        have := hfr.subs k0 b0 h0
        simp only [memoSub]
        by_cases e : k0 = (pa, c)
        · subst e
          rename_i hnone
          rw [hnone] at h0; cases h0
        · rw [lookup_cons_ne _ _ e]; exact this

theorem getSubs_spec {cfg : Cfg} (hcfg : cfgOk cfg = true) {alloc : Alloc} (hal : ValidAlloc alloc) (pa : Addr) :
    ∀ (cs : List ClassId) (s s' : State), Inv cfg s → getSubs cfg alloc pa cs s = .ok s' →
      Inv cfg s' ∧ Frame s s' := by
  intro cs
  induction cs with
  | nil => intro s s' hinv h; simp [getSubs] at h; subst h; exact ⟨hinv, Frame.refl _⟩
  | cons c cs ih =>
    intro s s' hinv h
    simp only [getSubs, bind, Except.bind] at h
    cases hg : getSub cfg alloc pa c s with
    | error e => simp [hg] at h
    | ok r =>
      obtain ⟨s1, b⟩ := r
      simp only [hg] at h
      obtain ⟨hinv1, hfr1, _⟩ := getSub_spec hcfg hal hinv hg
      obtain ⟨hinv2, hfr2⟩ := ih s1 s' hinv1 h
      exact ⟨hinv2, hfr1.trans hfr2⟩

end PaletteState
