import AkVerif.Model.Render
/-! Lemmas about chunks, merging, joining and `strip` (pure part of C10). -/
namespace Render

@[simp] theorem plainOf_nil : plainOf [] = [] := rfl
@[simp] theorem plainOf_cons (c : Chunk) (cs) : plainOf (c :: cs) = c.text ++ plainOf cs := rfl
@[simp] theorem cellsOf_nil : cellsOf [] = [] := rfl
@[simp] theorem cellsOf_cons (c : Chunk) (cs) :
    cellsOf (c :: cs) = c.text.map (fun ch => (ch, c.pre)) ++ cellsOf cs := rfl
@[simp] theorem strOf_nil : strOf [] = [] := rfl
@[simp] theorem strOf_cons (c : Chunk) (cs) : strOf (c :: cs) = c.str ++ strOf cs := rfl

theorem plainOf_append (a b : List Chunk) : plainOf (a ++ b) = plainOf a ++ plainOf b := by
  induction a with
  | nil => rfl
  | cons c cs ih => simp [ih]

theorem cellsOf_append (a b : List Chunk) : cellsOf (a ++ b) = cellsOf a ++ cellsOf b := by
  induction a with
  | nil => rfl
  | cons c cs ih => simp [ih]

theorem strOf_append (a b : List Chunk) : strOf (a ++ b) = strOf a ++ strOf b := by
  induction a with
  | nil => rfl
  | cons c cs ih => simp [ih]

/-- the visible characters are the first components of the cells -/
theorem plainOf_eq_cells (cs : List Chunk) : plainOf cs = (cellsOf cs).map Prod.fst := by
  induction cs with
  | nil => rfl
  | cons c cs ih => simp [ih, Function.comp_def]

theorem cellsOf_mergeAdj (cs : List Chunk) : cellsOf (mergeAdj cs) = cellsOf cs := by
  induction cs with
  | nil => rfl
  | cons c rest ih =>
    simp only [mergeAdj]
    split
    · rename_i h; rw [h] at ih; simp [← ih]
    · rename_i d ds h
      rw [h] at ih
      split
      · rename_i hp
        simp only [cellsOf_cons, List.map_append] at ih ⊢
        rw [← ih, hp]; simp
      · simp only [cellsOf_cons] at ih ⊢; rw [← ih]

theorem plainOf_mergeAdj (cs : List Chunk) : plainOf (mergeAdj cs) = plainOf cs := by
  rw [plainOf_eq_cells, plainOf_eq_cells, cellsOf_mergeAdj]

theorem cellsOf_reverse_snoc (ds : List Chunk) (d : Chunk) :
    cellsOf ((d :: ds).reverse) = cellsOf ds.reverse ++ d.text.map (fun ch => (ch, d.pre)) := by
  simp [cellsOf_append]

theorem cellsOf_appendRev (acc : List Chunk) (c : Chunk) :
    cellsOf (appendRev acc c).reverse = cellsOf acc.reverse ++ c.text.map (fun ch => (ch, c.pre)) := by
  unfold appendRev
  split
  · rename_i h; simp [h]
  · cases acc with
    | nil => simp
    | cons d ds =>
      simp only []
      split
      · rename_i hp
        rw [cellsOf_reverse_snoc, cellsOf_reverse_snoc]
        simp [hp]
      · rw [cellsOf_reverse_snoc]

theorem cellsOf_foldl_appendRev (cs acc : List Chunk) :
    cellsOf (cs.foldl appendRev acc).reverse = cellsOf acc.reverse ++ cellsOf cs := by
  induction cs generalizing acc with
  | nil => simp
  | cons c cs ih => simp [ih, cellsOf_appendRev]

/-- `CHText(...)`/`+=` keeps every visible character and its colour -/
theorem cellsOf_buildText (cs : List Chunk) : cellsOf (buildText cs) = cellsOf cs := by
  simp [buildText, cellsOf_foldl_appendRev]

theorem plainOf_buildText (cs : List Chunk) : plainOf (buildText cs) = plainOf cs := by
  rw [plainOf_eq_cells, plainOf_eq_cells, cellsOf_buildText]

theorem cellsOf_joinLines (sep : Char) (ls : List (List Chunk)) :
    cellsOf (joinLines sep ls) = joinCells sep ls := by
  induction ls with
  | nil => rfl
  | cons l rest ih =>
    cases rest with
    | nil => rfl
    | cons l2 r2 =>
      simp only [joinLines, joinCells, cellsOf_append, cellsOf_cons, sepChunk] at ih ⊢
      rw [ih]; simp

/-- the whole text shows the same characters in the same colours as the lines joined by the separator -/
theorem cellsOf_wholeOf (sep : Char) (ls : List (List Chunk)) :
    cellsOf (wholeOf sep ls) = joinCells sep ls := by
  simp [wholeOf, cellsOf_buildText, cellsOf_joinLines]

/-! ### texts do not depend on colours -/

theorem plainOf_paintChunks (col : Tag → Color) (cs : List SChunk) :
    plainOf (paintChunks col cs) = cs.flatMap (·.text) := by
  induction cs with
  | nil => rfl
  | cons c cs ih => simp [paintChunks] at ih ⊢; rw [ih]

theorem plainOf_paintLine (col : Tag → Color) (l : SLine) :
    plainOf (paintLine col l) = l.chunks.flatMap (·.text) := by
  unfold paintLine
  cases l.kind <;> simp [plainOf_mergeAdj, plainOf_paintChunks]

theorem plain_lines_indep (col col' : Tag → Color) (ls : List SLine) :
    (paintLines col ls).map plainOf = (paintLines col' ls).map plainOf := by
  simp [paintLines, plainOf_paintLine]

theorem joinCells_fst (sep : Char) (ls : List (List Chunk)) :
    (joinCells sep ls).map Prod.fst = (joinCells sep (ls.map fun l => [⟨[], plainOf l⟩])).map Prod.fst := by
  induction ls with
  | nil => rfl
  | cons l rest ih =>
    cases rest with
    | nil => simp [joinCells, plainOf_eq_cells, Function.comp_def]
    | cons l2 r2 =>
      simp only [joinCells, List.map_append, List.map_cons] at ih ⊢
      rw [ih]; simp [plainOf_eq_cells, Function.comp_def]

theorem plainOf_wholeOf_congr (sep : Char) (a b : List (List Chunk))
    (h : a.map plainOf = b.map plainOf) : plainOf (wholeOf sep a) = plainOf (wholeOf sep b) := by
  rw [plainOf_eq_cells, plainOf_eq_cells, cellsOf_wholeOf, cellsOf_wholeOf, joinCells_fst, joinCells_fst sep b]
  have : (a.map fun l => [(⟨[], plainOf l⟩ : Chunk)]) = (b.map fun l => [(⟨[], plainOf l⟩ : Chunk)]) := by
    have := congrArg (List.map fun t => [(⟨[], t⟩ : Chunk)]) h
    simpa [List.map_map, Function.comp_def] using this
  rw [this]

/-! ### chunks without colour -/

def AllPlain (cs : List Chunk) : Prop := ∀ c ∈ cs, c.pre = []

theorem strOf_allPlain (cs : List Chunk) (h : AllPlain cs) : strOf cs = plainOf cs := by
  induction cs with
  | nil => rfl
  | cons c cs ih =>
    have hc : c.pre = [] := h c (by simp)
    have := ih (fun d hd => h d (by simp [hd]))
    simp [Chunk.str, Chunk.suffix, hc, this]

theorem allPlain_mergeAdj (cs : List Chunk) (h : AllPlain cs) : AllPlain (mergeAdj cs) := by
  induction cs with
  | nil => simp [mergeAdj, AllPlain]
  | cons c rest ih =>
    have hc : c.pre = [] := h c (by simp)
    have hr := ih (fun d hd => h d (by simp [hd]))
    simp only [mergeAdj]
    split
    · intro d hd; simp at hd; rw [hd]; exact hc
    · rename_i d ds hm
      rw [hm] at hr
      split
      · intro x hx
        simp at hx
        rcases hx with rfl | hx
        · exact hc
        · exact hr x (by simp [hx])
      · intro x hx
        simp at hx
        rcases hx with rfl | rfl | hx
        · exact hc
        · exact hr _ (by simp)
        · exact hr x (by simp [hx])

theorem allPlain_appendRev (acc : List Chunk) (c : Chunk) (ha : AllPlain acc) (hc : c.pre = []) :
    AllPlain (appendRev acc c) := by
  unfold appendRev
  split
  · exact ha
  · cases acc with
    | nil => intro x hx; simp at hx; rw [hx]; exact hc
    | cons d ds =>
      simp only []
      split
      · intro x hx
        simp at hx
        rcases hx with rfl | hx
        · exact ha d (by simp)
        · exact ha x (by simp [hx])
      · intro x hx
        simp at hx
        rcases hx with rfl | rfl | hx
        · exact hc
        · exact ha _ (by simp)
        · exact ha x (by simp [hx])

theorem allPlain_foldl (cs acc : List Chunk) (ha : AllPlain acc) (hc : AllPlain cs) :
    AllPlain (cs.foldl appendRev acc) := by
  induction cs generalizing acc with
  | nil => exact ha
  | cons c cs ih =>
    exact ih _ (allPlain_appendRev acc c ha (hc c (by simp))) (fun d hd => hc d (by simp [hd]))

theorem allPlain_buildText (cs : List Chunk) (h : AllPlain cs) : AllPlain (buildText cs) := by
  intro c hc
  simp [buildText] at hc
  exact allPlain_foldl cs [] (by simp [AllPlain]) h c hc

theorem allPlain_joinLines (sep : Char) (ls : List (List Chunk)) (h : ∀ l ∈ ls, AllPlain l) :
    AllPlain (joinLines sep ls) := by
  induction ls with
  | nil => simp [joinLines, AllPlain]
  | cons l rest ih =>
    cases rest with
    | nil => exact h l (by simp)
    | cons l2 r2 =>
      intro c hc
      simp only [joinLines, List.mem_append, List.mem_cons] at hc
      rcases hc with hc | rfl | hc
      · exact h l (by simp) c hc
      · rfl
      · exact ih (fun x hx => h x (by simp [hx])) c (by simpa [joinLines] using hc)

/-! ### strip (C09's `Sgr.strip`, for any character class that contains what the package emits) -/

section Strip
variable (k : Sgr.CharClass) (fin : Char)

theorem sgr_stripGo_skip (xs rest : List Char) :
    Sgr.stripGo k fin xs.length (xs ++ rest) = Sgr.stripGo k fin 0 rest := by
  induction xs with
  | nil => simp
  | cons x xs ih => simpa [Sgr.stripGo] using ih

theorem sgr_matchBody_run (body rest : List Char) (hb : ∀ c ∈ body, k.mem c = true) (hf : k.mem fin = false) :
    Sgr.matchBody k fin (body ++ fin :: rest) = some (body.length + 1) := by
  induction body with
  | nil => simp [Sgr.matchBody, hf]
  | cons c body ih =>
    simp [Sgr.matchBody, hb c (by simp), ih (fun x hx => hb x (by simp [hx]))]

/-- a well-formed SGR sequence disappears -/
theorem strip_prefix (hk : ∀ c, isSgrParam c = true → k.mem c = true) (hf : k.mem 'm' = false)
    (p : Color) (hp : ValidPrefix p) (rest : List Char) :
    Sgr.stripGo k 'm' 0 (p ++ rest) = Sgr.stripGo k 'm' 0 rest := by
  rcases hp with rfl | ⟨ps, hps, rfl⟩
  · rfl
  · have hb : ∀ c ∈ ps, k.mem c = true := fun c hc => hk c (hps c hc)
    have e : (esc :: '[' :: (ps ++ ['m'])) ++ rest = Sgr.ESC :: '[' :: (ps ++ 'm' :: rest) := by
      simp [esc, Sgr.ESC]
    rw [e]
    have hm := sgr_matchBody_run k 'm' ps rest hb hf
    simp only [Sgr.stripGo, if_true, Sgr.matchAfterEsc, hm, Option.map_some]
    have := sgr_stripGo_skip k 'm' (ps ++ ['m']) rest
    simpa using this

theorem strip_reset (hk : ∀ c, isSgrParam c = true → k.mem c = true) (hf : k.mem 'm' = false) (rest : List Char) :
    Sgr.stripGo k 'm' 0 (resetSeq ++ rest) = Sgr.stripGo k 'm' 0 rest := by
  apply strip_prefix k hk hf
  right
  exact ⟨['0'], by simp [isSgrParam], rfl⟩

/-- text without ESC passes through -/
theorem strip_text (t : List Char) (ht : esc ∉ t) (rest : List Char) :
    Sgr.stripGo k fin 0 (t ++ rest) = t ++ Sgr.stripGo k fin 0 rest := by
  induction t with
  | nil => rfl
  | cons c t ih =>
    have hc : c ≠ Sgr.ESC := by intro h; apply ht; simp [h, esc, Sgr.ESC]
    have := ih (by intro h; apply ht; simp [h])
    simp [Sgr.stripGo, hc, this]

theorem strip_chunk (hk : ∀ c, isSgrParam c = true → k.mem c = true) (hf : k.mem 'm' = false)
    (c : Chunk) (hp : ValidPrefix c.pre) (ht : esc ∉ c.text) (rest : List Char) :
    Sgr.stripGo k 'm' 0 (c.str ++ rest) = c.text ++ Sgr.stripGo k 'm' 0 rest := by
  unfold Chunk.str Chunk.suffix
  rw [List.append_assoc, strip_prefix k hk hf _ hp, List.append_assoc, strip_text k 'm' _ ht]
  split
  · simp
  · rw [strip_reset k hk hf]

/-- `strip_colors(str(text)) == text.plain_text()` for chunks with well-formed prefixes and ESC-free texts -/
theorem strip_strOf (hk : ∀ c, isSgrParam c = true → k.mem c = true) (hf : k.mem 'm' = false)
    (cs : List Chunk) (hp : ∀ c ∈ cs, ValidPrefix c.pre) (ht : ∀ c ∈ cs, esc ∉ c.text) :
    Sgr.strip k 'm' (strOf cs) = plainOf cs := by
  unfold Sgr.strip
  induction cs with
  | nil => rfl
  | cons c cs ih =>
    simp only [strOf_cons, plainOf_cons]
    rw [strip_chunk k hk hf c (hp c (by simp)) (ht c (by simp))]
    rw [ih (fun d hd => hp d (by simp [hd])) (fun d hd => ht d (by simp [hd]))]

end Strip

end Render
