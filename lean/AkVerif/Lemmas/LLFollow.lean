import AkVerif.Lemmas.LLSets
/-!
`followSets` of `Model/LLGrammar.lean` is closed (`followSets_closed`):

* `$END$` is in `follow[start]`,
* for a rule `A → α X β` with `X` not a terminal: every token that can start `β` (`FirstIn`) is in
  `follow[X]`, and if `β` is nullable (`NullIn`) then `follow[A] ⊆ follow[X]`.

Phase 1 (`followImm`) establishes the immediate follows and the dependency sets (`TailOK`), both
dictionaries only grow (`StLe`); phase 2 (`depsLoop`) ends with a pass that changed nothing.
-/
set_option linter.unusedSectionVars false
namespace LL
variable {σ : Type} [DecidableEq σ]

/-! ### phase 1 -/

/-- the state `(follow_sets, follows_deps)` only grows -/
def StLe (st st' : SetMap σ × SetMap σ) : Prop := DLe st.1 st'.1 ∧ DLe st.2 st'.2

theorem StLe.refl (st : SetMap σ × SetMap σ) : StLe st st := ⟨DLe.refl _, DLe.refl _⟩

theorem StLe.trans {a b c : SetMap σ × SetMap σ} (h1 : StLe a b) (h2 : StLe b c) : StLe a c :=
  ⟨h1.1.trans h2.1, h1.2.trans h2.2⟩

/-- what scanning `β` behind an occurrence of `X` in a rule of `A` leaves in the state -/
def TailOK (terms nulls : List σ) (first : SetMap σ) (A X : σ) (β : List σ)
    (st : SetMap σ × SetMap σ) : Prop :=
  (∀ t, FirstIn terms nulls first β t → ∃ w, dget X st.1 = some w ∧ t ∈ w) ∧
  (NullIn terms nulls β → ∃ d, dget X st.2 = some d ∧ A ∈ d)

theorem TailOK.mono {terms nulls : List σ} {first : SetMap σ} {A X : σ} {β : List σ}
    {st st' : SetMap σ × SetMap σ} (h : TailOK terms nulls first A X β st) (hle : StLe st st') :
    TailOK terms nulls first A X β st' :=
  ⟨fun t ht => hle.1.mem (h.1 t ht), fun hn => hle.2.mem (h.2 hn)⟩

/-- what a successful `followTail` on `n :: rest` did -/
theorem followTail_cons_ok {terms nulls : List σ} {first : SetMap σ} {A X n : σ} {rest : List σ}
    {W D : SetMap σ} {res : SetMap σ × SetMap σ}
    (h : followTail terms nulls first A X (n :: rest) (W, D) = .ok res) :
    ∃ w W1 D1, dget X W = some w ∧
      ((n ∈ terms ∧ W1 = dset X (sadd w n) W ∧ D1 = D) ∨
       (n ∉ terms ∧ ∃ f, dget n first = some f ∧ W1 = dset X (sunion w f) W ∧ D1 = D)) ∧
      (if n ∈ nulls then followTail terms nulls first A X rest (W1, D1) else .ok (W1, D1))
        = .ok res := by
  unfold followTail at h
  obtain ⟨w, hw, h⟩ := exc_bind_ok h
  simp only at h
  split at h
  · rename_i h1
    exact ⟨w, _, _, dgetE_ok hw, Or.inl ⟨h1, rfl, rfl⟩, h⟩
  · rename_i h1
    obtain ⟨f, hf, h⟩ := exc_bind_ok h
    simp only [pure_bind] at h
    exact ⟨w, _, _, dgetE_ok hw, Or.inr ⟨h1, f, dgetE_ok hf, rfl, rfl⟩, h⟩

theorem followTail_ok {terms nulls : List σ} {first : SetMap σ} {A X : σ} :
    ∀ (β : List σ) (st st' : SetMap σ × SetMap σ),
    followTail terms nulls first A X β st = .ok st' →
    StLe st st' ∧ TailOK terms nulls first A X β st'
  | [], (W, D), st', h => by
    unfold followTail at h
    obtain ⟨d, hd, h⟩ := exc_bind_ok h
    have hd := dgetE_ok hd
    simp only [Except.ok.injEq] at h
    subst h
    refine ⟨⟨DLe.refl _, DLe_dset hd (sadd_sub d A)⟩, fun t ht => ht.elim, fun _ => ?_⟩
    exact ⟨sadd d A, dget_dset_self _ _ _, mem_sadd.2 (Or.inr rfl)⟩
  | n :: rest, (W, D), st', h => by
    obtain ⟨w, W1, D1, hw, hstep, h⟩ := followTail_cons_ok h
    -- the step
    have hle1 : StLe (W, D) (W1, D1) := by
      rcases hstep with ⟨_, hW, hD⟩ | ⟨_, f, _, hW, hD⟩
      · subst hW; subst hD
        exact ⟨DLe_dset hw (sadd_sub w n), DLe.refl _⟩
      · subst hW; subst hD
        exact ⟨DLe_dset hw (fun y hy => mem_sunion.2 (Or.inl hy)), DLe.refl _⟩
    have hterm : n ∈ terms → ∃ w1, dget X W1 = some w1 ∧ n ∈ w1 := by
      intro hn
      rcases hstep with ⟨_, hW, _⟩ | ⟨h1, _⟩
      · subst hW
        exact ⟨_, dget_dset_self _ _ _, mem_sadd.2 (Or.inr rfl)⟩
      · exact absurd hn h1
    have hnt : n ∉ terms → ∀ f, dget n first = some f → ∃ w1, dget X W1 = some w1 ∧ ∀ y ∈ f, y ∈ w1 := by
      intro hn f hf
      rcases hstep with ⟨h1, _⟩ | ⟨_, f', hf', hW, _⟩
      · exact absurd h1 hn
      · rw [hf'] at hf; cases hf
        subst hW
        exact ⟨_, dget_dset_self _ _ _, fun y hy => mem_sunion.2 (Or.inr hy)⟩
    -- the rest
    have hrest : StLe (W1, D1) st' ∧ (n ∈ nulls → TailOK terms nulls first A X rest st') := by
      split at h
      · have := followTail_ok rest (W1, D1) st' h
        exact ⟨this.1, fun _ => this.2⟩
      · rename_i hn
        simp only [Except.ok.injEq] at h
        subst h
        exact ⟨StLe.refl _, fun h => absurd h hn⟩
    obtain ⟨hle2, hrest⟩ := hrest
    refine ⟨hle1.trans hle2, ?_, ?_⟩
    · intro t hF
      simp only [FirstIn] at hF
      rcases hF with ⟨h1, h2⟩ | ⟨h1, ⟨f, hf, htf⟩ | ⟨hn, hr⟩⟩
      · subst h2; exact hle2.1.mem (hterm h1)
      · obtain ⟨w1, hw1, hs⟩ := hnt h1 f hf
        exact hle2.1.mem ⟨w1, hw1, hs t htf⟩
      · exact (hrest hn).1 t hr
    · intro hN
      have hn : n ∈ nulls := (hN n (by simp)).2
      exact (hrest hn).2 (fun s hs => hN s (List.mem_cons_of_mem _ hs))

theorem followRule_ok {terms nulls : List σ} {first : SetMap σ} {A : σ} :
    ∀ (l : List σ) (st st' : SetMap σ × SetMap σ),
    followRule terms nulls first A l st = .ok st' →
    StLe st st' ∧ ∀ i X, l[i]? = some X → X ∉ terms →
      TailOK terms nulls first A X (l.drop (i + 1)) st'
  | [], st, st', h => by
    simp only [followRule, Except.ok.injEq] at h
    subst h
    exact ⟨StLe.refl _, fun i X hi => by simp at hi⟩
  | Y :: rest, st, st', h => by
    unfold followRule at h
    split at h
    · rename_i hY
      obtain ⟨hle, hall⟩ := followRule_ok rest st st' h
      refine ⟨hle, ?_⟩
      intro i X hi hX
      cases i with
      | zero => simp at hi; subst hi; exact absurd hY hX
      | succ i => simp at hi; simpa using hall i X hi hX
    · obtain ⟨st1, h1, h⟩ := exc_bind_ok h
      obtain ⟨hle1, htail⟩ := followTail_ok rest st st1 h1
      obtain ⟨hle2, hall⟩ := followRule_ok rest st1 st' h
      refine ⟨hle1.trans hle2, ?_⟩
      intro i X hi hX
      cases i with
      | zero => simp at hi; subst hi; simpa using htail.mono hle2
      | succ i => simp at hi; simpa using hall i X hi hX

theorem followRules_ok {terms nulls : List σ} {first : SetMap σ} {A : σ} :
    ∀ (rs : List (Rule σ)) (st st' : SetMap σ × SetMap σ),
    followRules terms nulls first A rs st = .ok st' →
    StLe st st' ∧ ∀ r ∈ rs, ∀ i X, r.rhs[i]? = some X → X ∉ terms →
      TailOK terms nulls first A X (r.rhs.drop (i + 1)) st'
  | [], st, st', h => by
    simp only [followRules, Except.ok.injEq] at h
    subst h
    exact ⟨StLe.refl _, fun r hr => by simp at hr⟩
  | r0 :: rest, st, st', h => by
    unfold followRules at h
    obtain ⟨st1, h1, h⟩ := exc_bind_ok h
    obtain ⟨hle1, h0⟩ := followRule_ok _ st st1 h1
    obtain ⟨hle2, hall⟩ := followRules_ok rest st1 st' h
    refine ⟨hle1.trans hle2, ?_⟩
    intro r hr i X hi hX
    rcases List.mem_cons.1 hr with e | hr
    · subst e; exact (h0 i X hi hX).mono hle2
    · exact hall r hr i X hi hX

theorem followImm_ok {terms nulls : List σ} {first : SetMap σ} :
    ∀ (G : Prods σ) (st st' : SetMap σ × SetMap σ),
    followImm terms nulls first G st = .ok st' →
    StLe st st' ∧ ∀ A rules, (A, rules) ∈ G → ∀ r ∈ rules, ∀ i X, r.rhs[i]? = some X →
      X ∉ terms → TailOK terms nulls first A X (r.rhs.drop (i + 1)) st'
  | [], st, st', h => by
    simp only [followImm, Except.ok.injEq] at h
    subst h
    exact ⟨StLe.refl _, fun A rules hm => by simp at hm⟩
  | (A0, rs0) :: rest, st, st', h => by
    unfold followImm at h
    obtain ⟨st1, h1, h⟩ := exc_bind_ok h
    obtain ⟨hle1, h0⟩ := followRules_ok _ st st1 h1
    obtain ⟨hle2, hall⟩ := followImm_ok rest st1 st' h
    refine ⟨hle1.trans hle2, ?_⟩
    intro A rules hm r hr i X hi hX
    rcases List.mem_cons.1 hm with e | hm
    · cases e; exact (h0 r hr i X hi hX).mono hle2
    · exact hall A rules hm r hr i X hi hX

/-! ### phase 2 -/

theorem depsOne_ok {X : σ} : ∀ (deps : List σ) (W W' : SetMap σ) (w : List σ),
    depsOne X deps W = .ok W' → dget X W = some w →
    ∃ t, dget X W' = some (w ++ t) ∧ DLe W W' ∧
      (t = [] → W' = W ∧ ∀ dep ∈ deps, ∃ wd, dget dep W = some wd ∧ ∀ y ∈ wd, y ∈ w)
  | [], W, W', w, h, hw => by
    simp only [depsOne, Except.ok.injEq] at h
    subst h
    exact ⟨[], by simpa using hw, DLe.refl _, fun _ => ⟨rfl, fun dep hd => by simp at hd⟩⟩
  | dep :: rest, W, W', w, h, hw => by
    unfold depsOne at h
    obtain ⟨w0, hw0, h⟩ := exc_bind_ok h
    have hw0 := dgetE_ok hw0
    rw [hw] at hw0; cases hw0
    obtain ⟨wd, hwd, h⟩ := exc_bind_ok h
    have hwd := dgetE_ok hwd
    obtain ⟨t1, ht1⟩ := sunion_prefix w wd
    obtain ⟨t2, hW', hle, hfix⟩ := depsOne_ok rest _ W' (sunion w wd) h (dget_dset_self _ _ _)
    have hle1 : DLe W (dset X (sunion w wd) W) :=
      DLe_dset hw (fun y hy => mem_sunion.2 (Or.inl hy))
    refine ⟨t1 ++ t2, by rw [hW', ht1, List.append_assoc], hle1.trans hle, ?_⟩
    intro ht
    have ht1' : t1 = [] := (List.append_eq_nil_iff.1 ht).1
    have ht2' : t2 = [] := (List.append_eq_nil_iff.1 ht).2
    have hsu : sunion w wd = w := by rw [ht1, ht1']; simp
    have hWW : dset X (sunion w wd) W = W := by rw [hsu]; exact dset_same hw
    obtain ⟨hW'eq, hdeps⟩ := hfix ht2'
    rw [hWW] at hW'eq hdeps
    rw [hsu] at hdeps
    refine ⟨hW'eq, ?_⟩
    intro d hd
    rcases List.mem_cons.1 hd with e | hd
    · subst e
      refine ⟨wd, hwd, fun y hy => ?_⟩
      rw [← hsu]; exact mem_sunion.2 (Or.inr hy)
    · exact hdeps d hd

theorem depsPass_ok : ∀ (D W W' : SetMap σ) (upd upd' : Bool),
    depsPass D W upd = .ok (W', upd') →
    DLe W W' ∧ (upd' = false → upd = false ∧ W' = W ∧
      ∀ X deps, (X, deps) ∈ D → ∀ dep ∈ deps,
        ∃ w wd, dget X W = some w ∧ dget dep W = some wd ∧ ∀ y ∈ wd, y ∈ w)
  | [], W, W', upd, upd', h => by
    simp only [depsPass, Except.ok.injEq, Prod.mk.injEq] at h
    obtain ⟨h1, h2⟩ := h
    subst h1; subst h2
    exact ⟨DLe.refl _, fun hu => ⟨hu, rfl, fun X deps hm => by simp at hm⟩⟩
  | (X0, deps0) :: rest, W, W', upd, upd', h => by
    unfold depsPass at h
    obtain ⟨w0, hw0, h⟩ := exc_bind_ok h
    have hw0 := dgetE_ok hw0
    obtain ⟨W1, hone, h⟩ := exc_bind_ok h
    obtain ⟨w1, hw1, h⟩ := exc_bind_ok h
    have hw1 := dgetE_ok hw1
    obtain ⟨t, hW1, hle1, hfix⟩ := depsOne_ok deps0 W W1 w0 hone hw0
    rw [hW1] at hw1; cases hw1
    obtain ⟨hle2, hrest⟩ := depsPass_ok rest W1 W' _ upd' h
    refine ⟨hle1.trans hle2, ?_⟩
    intro hu
    obtain ⟨hor, hW', hall⟩ := hrest hu
    simp only [Bool.or_eq_false_iff, decide_eq_false_iff_not, ne_eq, Decidable.not_not,
      List.length_append] at hor
    obtain ⟨hupd, hlen⟩ := hor
    have ht : t = [] := by
      cases t with
      | nil => rfl
      | cons a b => simp at hlen
    obtain ⟨hW1eq, hdeps⟩ := hfix ht
    subst hW1eq
    refine ⟨hupd, hW', ?_⟩
    intro X deps hm dep hd
    rcases List.mem_cons.1 hm with e | hm
    · cases e
      obtain ⟨wd, hwd, hs⟩ := hdeps dep hd
      exact ⟨w0, wd, hw0, hwd, hs⟩
    · exact hall X deps hm dep hd

theorem depsLoop_ok {D : SetMap σ} : ∀ (fuel : Nat) (W follow : SetMap σ),
    depsLoop D fuel W = .ok follow →
    DLe W follow ∧ ∀ X deps, (X, deps) ∈ D → ∀ dep ∈ deps,
      ∃ w wd, dget X follow = some w ∧ dget dep follow = some wd ∧ ∀ y ∈ wd, y ∈ w
  | 0, _, _, h => by simp [depsLoop] at h
  | fuel + 1, W, follow, h => by
    unfold depsLoop at h
    obtain ⟨⟨W1, upd1⟩, hpass, h⟩ := exc_bind_ok h
    simp only at h
    obtain ⟨hle1, hfix⟩ := depsPass_ok D W W1 false upd1 hpass
    split at h
    · obtain ⟨hle2, hall⟩ := depsLoop_ok fuel W1 follow h
      exact ⟨hle1.trans hle2, hall⟩
    · rename_i hu
      simp only [Except.ok.injEq] at h
      subst h
      have hu : upd1 = false := by simpa using hu
      obtain ⟨_, hW1, hall⟩ := hfix hu
      subst hW1
      exact ⟨hle1, hall⟩

/-! ### the result -/

theorem followSets_closed {terms nulls : List σ} {first : SetMap σ} {G : Prods σ} {start endS : σ}
    {follow : SetMap σ} (h : followSets terms nulls first G start endS = .ok follow) :
    (∃ w, dget start follow = some w ∧ endS ∈ w) ∧
    ∀ A rules, (A, rules) ∈ G → ∀ r ∈ rules, ∀ i X, r.rhs[i]? = some X → X ∉ terms →
      (∀ t, FirstIn terms nulls first (r.rhs.drop (i + 1)) t →
        ∃ w, dget X follow = some w ∧ t ∈ w) ∧
      (NullIn terms nulls (r.rhs.drop (i + 1)) →
        ∃ w wa, dget X follow = some w ∧ dget A follow = some wa ∧ ∀ t ∈ wa, t ∈ w) := by
  unfold followSets at h
  simp only at h
  split at h
  case h_2 =>
    obtain ⟨_, hc, _⟩ := exc_bind_ok h
    cases hc
  rename_i ws hws
  simp only [pure_bind] at h
  obtain ⟨⟨W2, D⟩, himm, h⟩ := exc_bind_ok h
  simp only at h
  obtain ⟨hle1, htail⟩ := followImm_ok G _ _ himm
  obtain ⟨hle2, hdeps⟩ := depsLoop_ok _ W2 follow h
  have hle : DLe (dset start (sadd ws endS) (emptySets G)) follow := hle1.1.trans hle2
  refine ⟨hle.mem ⟨_, dget_dset_self _ _ _, mem_sadd.2 (Or.inr rfl)⟩, ?_⟩
  intro A rules hm r hr i X hi hX
  obtain ⟨hF, hN⟩ := htail A rules hm r hr i X hi hX
  refine ⟨fun t ht => hle2.mem (hF t ht), fun hn => ?_⟩
  obtain ⟨d, hd, hAd⟩ := hN hn
  obtain ⟨w, wa, hw, hwa, hs⟩ := hdeps X d (dget_mem hd) A hAd
  exact ⟨w, wa, hw, hwa, hs⟩

end LL
