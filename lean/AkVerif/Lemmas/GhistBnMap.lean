import AkVerif.Lemmas.GhistSkip
/-!
Semantics of `bn_map` inside one branch: the build numbers of an eligible commit are mapped to the build at that
commit, or — when the commit is not reported — to the nearest build of the branch below it.
-/
namespace Ghist
open Ak

section
variable {π β : Type} {h : Hist π}

/-! ### dictionaries -/

theorem lookup_dset {ν} (k : BN) (v : ν) : ∀ (m : List (BN × ν)) (k' : BN),
    (dset k v m).lookup k' = if k' = k then some v else m.lookup k' := by
  intro m
  induction m with
  | nil =>
    intro k'
    simp only [dset, List.lookup_cons, List.lookup_nil]
    by_cases hk : k' = k
    · subst hk; simp
    · have : (k' == k) = false := by simpa using hk
      simp [this, hk]
  | cons a m ih =>
    intro k'
    obtain ⟨k0, v0⟩ := a
    simp only [dset]
    by_cases h0 : k0 = k
    · subst h0
      simp only [beq_self_eq_true, if_true, List.lookup_cons]
      by_cases hk : k' = k0
      · subst hk; simp
      · have : (k' == k0) = false := by simpa using hk
        simp [this, hk]
    · have h0' : (k0 == k) = false := by simpa using h0
      simp only [h0', Bool.false_eq_true, if_false, List.lookup_cons]
      by_cases hk : k' = k0
      · subst hk
        have : k' ≠ k := h0
        simp [this]
      · have : (k' == k0) = false := by simpa using hk
        simp only [this]
        exact ih k'

theorem lookup_setAll (bns : List BN) (i : Nat) : ∀ (m : List (BN × Nat)) (bn : BN),
    (setAll bns i m).lookup bn = if bn ∈ bns then some i else m.lookup bn := by
  unfold setAll
  induction bns with
  | nil => intro m bn; simp
  | cons b bns ih =>
    intro m bn
    rw [List.foldl_cons, ih]
    by_cases h1 : bn ∈ bns
    · simp [h1]
    · simp only [h1, if_false, List.mem_cons, or_false]
      rw [lookup_dset]

/-! ### what `findNew` returns as parent builds, in git ancestry -/

/-- the parent builds found for a commit `c` being finished: builds of the branch properly below `c`, and every
build of the branch properly below `c` lies below one of them -/
theorem pb_facts (hT : h.Topo) {st : St β} {c : Nat} {cm : Commit π} {fr : List Nat} (w : WF h st) (sm : Sem h st.rp)
    (v : VInv st) (hcm : h.commits[c]? = some cm) (hQ : FrontQ h st cm.parents.reverse fr)
    {bpar : List (Nat × List Nat)} {new pb : List Nat} (hfn : findNew st.rp st.br fr = .ok (bpar, new, pb)) :
    (∀ p ∈ pb, CurB st.rp p ∧ ∃ rcp, st.rp.rcs[p]? = some rcp ∧ rcp.commit ≠ c ∧ Anc h rcp.commit c) ∧
    (∀ q, CurB st.rp q → ∀ rcq, st.rp.rcs[q]? = some rcq → rcq.commit ≠ c → Anc h rcq.commit c →
      ∃ p ∈ pb, ∃ rcp, st.rp.rcs[p]? = some rcp ∧ Anc h rcq.commit rcp.commit) := by
  have hlt : ∀ x, CurB st.rp x → x < st.rp.rcs.length := by
    intro x hx
    simp only [CurB, isCurBuild, Bool.and_eq_true, List.any_eq_true] at hx
    obtain ⟨⟨b, hb', he⟩, _⟩ := hx
    have : b.iid = x := by simpa using he
    rw [← this]; exact w.bldLt b hb'
  have hanck : ∀ x, CurB st.rp x → x ∈ keys st.br.anc := fun x hx => w.ancKeys x ((w.curIff x).mpr hx)
  obtain ⟨_, _, hpbm⟩ := findNew_vals w.rcPar hlt v.anc hanck v.vals hfn
  constructor
  · intro p hp
    obtain ⟨hcx, r, hrfr, hrr⟩ := ((hpbm p).mp hp).1
    refine ⟨hcx, ?_⟩
    obtain ⟨q, hq, y, hy, hsy⟩ := (hQ.reach p).mp ⟨r, hrfr, hrr⟩
    obtain ⟨rcp, h1, h2⟩ := w.selOk y p hsy
    have hpar : q ∈ cm.parents := List.mem_reverse.mp hq
    refine ⟨rcp, h1, ?_, ?_⟩
    · rw [h2]; intro hyc
      have := hy.le hT; have := hT c cm hcm q hpar; omega
    · rw [h2]; exact .step hcm hpar hy
  · intro q hcq rcq hrcq hne hanc
    rcases hanc.cases_parent with h1 | ⟨cm', p, hcm', hp, hyp⟩
    · exact absurd h1 hne
    · rw [hcm] at hcm'; cases hcm'
      have hsel : selOf st.rp rcq.commit q := w.rcSel q rcq hrcq
      obtain ⟨r, hrfr, hrr⟩ := (hQ.reach q).mpr ⟨p, List.mem_reverse.mpr hp, rcq.commit, hyp, hsel⟩
      obtain ⟨m, hm, hqm⟩ := exists_max w.rcPar (URr st.rp fr) st.rp.rcs.length (fun y hy => hlt y hy.1)
        (st.rp.rcs.length - q) q (Nat.le_refl _) ⟨hcq, r, hrfr, hrr⟩
      have hmpb : m ∈ pb := (hpbm m).mpr hm
      have hlm := hlt m hm.1.1
      exact ⟨m, hmpb, st.rp.rcs[m], List.getElem?_eq_getElem hlm,
        (rreach_iff_anc w sm hrcq (List.getElem?_eq_getElem hlm)).mp hqm⟩

/-! ### the invariant -/

/-- `i` is the build of the current branch that the build numbers of commit `c` stand for: the build at `c`, or —
when `c` is not a build — the build properly below `c` that every build of the branch below `c` lies below -/
def Good (h : Hist π) (st : St β) (c i : Nat) : Prop :=
  CurB st.rp i ∧ ∃ rci, st.rp.rcs[i]? = some rci ∧
    (rci.commit = c ∨
     (rci.commit ≠ c ∧ Anc h rci.commit c ∧
      (¬ ∃ q rcq, CurB st.rp q ∧ st.rp.rcs[q]? = some rcq ∧ rcq.commit = c) ∧
      ∀ q, CurB st.rp q → ∀ rcq, st.rp.rcs[q]? = some rcq → rcq.commit ≠ c → Anc h rcq.commit c →
        Anc h rcq.commit rci.commit))

/-- distinct eligible commits of the branch carry different build numbers -/
def BnUnique (h : Hist π) (head : Nat) : Prop :=
  ∀ c1 c2 cm1 cm2 bn, h.commits[c1]? = some cm1 → h.commits[c2]? = some cm2 →
    (cm1.tags ≠ [] ∨ c1 = head) → (cm2.tags ≠ [] ∨ c2 = head) →
    bn ∈ buildNums cm1 (c1 == head) → bn ∈ buildNums cm2 (c2 == head) → c1 = c2

structure BnInv (h : Hist π) (rp0 : Repo β) (head : Nat) (st : St β) : Prop where
  snd : ∀ bn i, st.br.bnMap.lookup bn = some i → ∃ c cl cm, classify st.rp c = some cl ∧ classify rp0 c = none ∧
    h.commits[c]? = some cm ∧ (cm.tags ≠ [] ∨ c = head) ∧ bn ∈ buildNums cm (c == head) ∧ Good h st c i
  cmp : ∀ c cl cm, classify st.rp c = some cl → classify rp0 c = none → h.commits[c]? = some cm →
    (cm.tags ≠ [] ∨ c = head) → ∀ bn ∈ buildNums cm (c == head), ∀ i, Good h st c i →
    st.br.bnMap.lookup bn = some i

/-- `Good` for an already classified commit does not change when a commit is finished -/
theorem good_stable {st st' : St β} {c : Nat} (w : WF h st) (sm : Sem h st.rp)
    (hcl : classify st.rp c = none) (hpre : ∃ ext, st'.rp.rcs = st.rp.rcs ++ ext)
    (hcur1 : ∀ x, CurB st.rp x → CurB st'.rp x)
    (hcur2 : ∀ x, CurB st'.rp x → CurB st.rp x ∨ ∃ rc, st'.rp.rcs[x]? = some rc ∧ rc.commit = c)
    {c0 : Nat} {cl0 : Cls} (hc0 : classify st.rp c0 = some cl0) (i : Nat) :
    Good h st' c0 i ↔ Good h st c0 i := by
  have hlt : ∀ x, CurB st.rp x → x < st.rp.rcs.length := by
    intro x hx
    simp only [CurB, isCurBuild, Bool.and_eq_true, List.any_eq_true] at hx
    obtain ⟨⟨b, hb', he⟩, _⟩ := hx
    have : b.iid = x := by simpa using he
    rw [← this]; exact w.bldLt b hb'
  have hne0 : c0 ≠ c := by intro hh; subst hh; rw [hcl] at hc0; cases hc0
  have hnanc : ¬ Anc h c c0 := by
    intro ha
    obtain ⟨cl', hcl'⟩ := sm.anc_classified hc0 ha
    rw [hcl] at hcl'; cases hcl'
  constructor
  · rintro ⟨hci, rci, hrci, hcase⟩
    -- `i` is an old build
    have hiold : CurB st.rp i := by
      rcases hcur2 i hci with h1 | ⟨rc, hrc, hrcc⟩
      · exact h1
      · exfalso
        rw [hrci] at hrc; cases hrc
        rcases hcase with h2 | ⟨_, h2, _⟩
        · exact hne0 (by rw [← h2, hrcc])
        · rw [hrcc] at h2; exact hnanc h2
    have hil := hlt i hiold
    rw [getElem?_prefix_lt hpre hil] at hrci
    refine ⟨hiold, rci, hrci, ?_⟩
    rcases hcase with h2 | ⟨h2, h3, h4, h5⟩
    · exact Or.inl h2
    · refine Or.inr ⟨h2, h3, ?_, ?_⟩
      · rintro ⟨q, rcq, hcq, hrcq, hqc⟩
        exact h4 ⟨q, rcq, hcur1 q hcq, getElem?_prefix hpre hrcq, hqc⟩
      · intro q hcq rcq hrcq hne hanc
        exact h5 q (hcur1 q hcq) rcq (getElem?_prefix hpre hrcq) hne hanc
  · rintro ⟨hci, rci, hrci, hcase⟩
    refine ⟨hcur1 i hci, rci, getElem?_prefix hpre hrci, ?_⟩
    rcases hcase with h2 | ⟨h2, h3, h4, h5⟩
    · exact Or.inl h2
    · refine Or.inr ⟨h2, h3, ?_, ?_⟩
      · rintro ⟨q, rcq, hcq, hrcq, hqc⟩
        rcases hcur2 q hcq with h6 | ⟨rc, hrc, hrcc⟩
        · have := hlt q h6
          rw [getElem?_prefix_lt hpre this] at hrcq
          exact h4 ⟨q, rcq, h6, hrcq, hqc⟩
        · rw [hrcq] at hrc; cases hrc
          exact hne0 (by rw [← hqc, hrcc])
      · intro q hcq rcq hrcq hne hanc
        rcases hcur2 q hcq with h6 | ⟨rc, hrc, hrcc⟩
        · have := hlt q h6
          rw [getElem?_prefix_lt hpre this] at hrcq
          exact h5 q h6 rcq hrcq hne hanc
        · rw [hrcq] at hrc; cases hrc
          rw [hrcc] at hanc; exact absurd hanc hnanc

/-- two candidates for the same commit coincide -/
theorem good_unique {st : St β} (w : WF h st) (hT : h.Topo) {c i j : Nat} (hi : Good h st c i) (hj : Good h st c j) :
    i = j := by
  obtain ⟨hci, rci, hrci, hcase1⟩ := hi
  obtain ⟨hcj, rcj, hrcj, hcase2⟩ := hj
  have hinj : rci.commit = rcj.commit → i = j := by
    intro hc
    have h1 := w.rcSel i rci hrci
    have h2 := w.rcSel j rcj hrcj
    rw [hc, h2] at h1; cases h1; rfl
  rcases hcase1 with h1 | ⟨h1, h2, h3, h4⟩
  · rcases hcase2 with h5 | ⟨_, _, h7, _⟩
    · exact hinj (by rw [h1, h5])
    · exact absurd ⟨i, rci, hci, hrci, h1⟩ h7
  · rcases hcase2 with h5 | ⟨h5, h6, _, h8⟩
    · exact absurd ⟨j, rcj, hcj, hrcj, h5⟩ h3
    · exact hinj (anc_antisymm hT (h8 i hci rci hrci h1 h2) (h4 j hcj rcj hrcj h5 h6))

/-- generic step: the map gets the keys `B` set to `v` (or stays), the finished commit `c` becomes classified -/
theorem BnInv.step {rp0 : Repo β} {head : Nat} {s s' : St β} {c : Nat} {cm : Commit π}
    (inv : BnInv h rp0 head s) (hu : BnUnique h head) (hcm : h.commits[c]? = some cm)
    (hcl : classify s.rp c = none) (hc0 : classify rp0 c = none)
    (hclsne : ∀ x, x ≠ c → classify s'.rp x = classify s.rp x)
    (hclsc : ∃ cl, classify s'.rp c = some cl)
    (hgood : ∀ c0 cl0, classify s.rp c0 = some cl0 → ∀ i, Good h s' c0 i ↔ Good h s c0 i)
    (B : List BN) (v : Nat)
    (hlook : ∀ bn, s'.br.bnMap.lookup bn = if bn ∈ B then some v else s.br.bnMap.lookup bn)
    (hB : ∀ bn ∈ B, (cm.tags ≠ [] ∨ c = head) ∧ bn ∈ buildNums cm (c == head) ∧ Good h s' c v)
    (hC : (cm.tags ≠ [] ∨ c = head) → ∀ i, Good h s' c i → (∀ bn ∈ buildNums cm (c == head), bn ∈ B) ∧ i = v) :
    BnInv h rp0 head s' := by
  obtain ⟨clc, hclc⟩ := hclsc
  constructor
  · intro bn i hl
    rw [hlook bn] at hl
    by_cases hb : bn ∈ B
    · simp only [hb, if_true, Option.some.injEq] at hl
      subst hl
      obtain ⟨h1, h2, h3⟩ := hB bn hb
      exact ⟨c, clc, cm, hclc, hc0, hcm, h1, h2, h3⟩
    · simp only [hb, if_false] at hl
      obtain ⟨c0, cl0, cm0, h1, h2, h3, h4, h5, h6⟩ := inv.snd bn i hl
      have hne : c0 ≠ c := by intro hh; subst hh; rw [hcl] at h1; cases h1
      exact ⟨c0, cl0, cm0, by rw [hclsne c0 hne]; exact h1, h2, h3, h4, h5, (hgood c0 cl0 h1 i).mpr h6⟩
  · intro c' cl' cm' h1 h2 h3 h4 bn hbn i hg
    rw [hlook bn]
    by_cases hcc : c' = c
    · subst hcc
      rw [hcm] at h3; cases h3
      obtain ⟨h5, h6⟩ := hC h4 i hg
      simp [h5 bn hbn, h6]
    · rw [hclsne c' hcc] at h1
      have hg' := (hgood c' cl' h1 i).mp hg
      have hold := inv.cmp c' cl' cm' h1 h2 h3 h4 bn hbn i hg'
      have hnb : bn ∉ B := by
        intro hb
        obtain ⟨h5, h6, _⟩ := hB bn hb
        exact hcc (hu c' c cm' cm bn h3 hcm h4 h5 hbn h6)
      simp only [hnb, if_false]
      exact hold

theorem finish_bnInv (hT : h.Topo) {pl : Plug π β} {head : Nat} {st st' : St β} {c : Nat} {cm : Commit π}
    {fr : List Nat} {rp0 : Repo β} (hu : BnUnique h head) (w : WF h st) (w' : WF h st') (sm : Sem h st.rp)
    (v : VInv st) (inv : BnInv h rp0 head st) (hc0 : classify rp0 c = none)
    (hcl : classify st.rp c = none) (hcm : h.commits[c]? = some cm) (hQ : FrontQ h st cm.parents.reverse fr)
    {rel : List Nat} (hf : finish pl head rel st c cm fr = .ok st') : BnInv h rp0 head st' := by
  obtain ⟨rp, br⟩ := st
  have hpre := finish_prefix hf
  have hclsne : ∀ x, x ≠ c → classify st'.rp x = classify rp x := fun x hx => finish_classify_ne hf x hx
  have hclsc : ∃ cl, classify st'.rp c = some cl := by
    rcases (finish_cacheStep hf).cls_self hcl with ⟨h1, _⟩ | ⟨h1, _⟩ | ⟨_, h1, _⟩
    · exact ⟨_, h1⟩
    · exact ⟨_, h1⟩
    · exact ⟨_, h1⟩
  -- no report commit of the old state belongs to `c`
  have hnosel : ∀ (q : Nat) (rcq : RC), rp.rcs[q]? = some rcq → rcq.commit ≠ c := by
    intro q rcq hq hqc
    have := w.rcSel q rcq hq
    rw [hqc] at this
    simp only at this
    rw [selected_none_of_classify hcl] at this; cases this
  -- a build of the old state properly below `c` shows up in the frontier
  have hbelow : ∀ (i : Nat) (rci : RC), rp.rcs[i]? = some rci → rci.commit ≠ c → Anc h rci.commit c →
      ∃ r ∈ fr, RReach rp.rcs i r := by
    intro i rci hi hne hanc
    rcases hanc.cases_parent with h1 | ⟨cm', p, hcm', hp, hyp⟩
    · exact absurd h1 hne
    · rw [hcm] at hcm'; cases hcm'
      exact (hQ.reach i).mpr ⟨p, List.mem_reverse.mpr hp, rci.commit, hyp, w.rcSel i rci hi⟩
  cases finish_cases hf with
  | irrelevant hm hrel hfr0 =>
    refine inv.step hu hcm hcl hc0 hclsne hclsc (fun c0 cl0 h0 i => good_stable w sm hcl ⟨[], by simp [Repo.addDone]⟩
      (fun x hx => hx) (fun x hx => Or.inl hx) h0 i) [] 0 (by intro bn; simp) (by intro bn hb; cases hb) ?_
    intro _ i ⟨_, rci, hrci, hcase⟩
    exfalso
    rcases hcase with h1 | ⟨h1, h2, _, _⟩
    · exact hnosel i rci hrci h1
    · obtain ⟨r, hr, _⟩ := hbelow i rci hrci h1 h2
      rw [hfr0] at hr; cases hr
  | plain htags hnh _ _ =>
    have hb : (rp.addPlain c fr).builds = rp.builds := by simp only [Repo.addPlain]; split <;> rfl
    have hr : (rp.addPlain c fr).rcs = rp.rcs := by simp only [Repo.addPlain]; split <;> rfl
    have hcur : ∀ i, isCurBuild (rp.addPlain c fr) i = isCurBuild rp i := by
      intro i; simp only [Repo.addPlain]; split <;> rfl
    refine inv.step hu hcm hcl hc0 hclsne hclsc (fun c0 cl0 h0 i => good_stable w sm hcl ⟨[], by simp [hr]⟩
      (fun x hx => by simp only [CurB, hcur]; exact hx) (fun x hx => Or.inl (by simp only [CurB, hcur] at hx; exact hx))
      h0 i) [] 0 (by intro bn; simp) (by intro bn hb; cases hb) ?_
    rintro (h1 | h1)
    · exact absurd htags h1
    · exact absurd h1 hnh
  | plainMatch htags hnh _ =>
    refine inv.step hu hcm hcl hc0 hclsne hclsc (fun c0 cl0 h0 i =>
      good_stable (st' := ⟨rp.addRC { commit := c, parents := fr, explicit := true, bns := [], time := cm.time }, br⟩) w sm hcl
        ⟨[{ commit := c, parents := fr, explicit := true, bns := [], time := cm.time }], rfl⟩
        (fun x hx => hx) (fun x hx => Or.inl hx) h0 i) [] 0 (by intro bn; simp) (by intro bn hb; cases hb) ?_
    rintro (h1 | h1)
    · exact absurd htags h1
    · exact absurd h1 hnh
  | skip bpar new pb pbs bumps helig _ hfn _ _ hpb =>
    have hb : (rp.addPlain c fr).builds = rp.builds := by simp only [Repo.addPlain]; split <;> rfl
    have hr : (rp.addPlain c fr).rcs = rp.rcs := by simp only [Repo.addPlain]; split <;> rfl
    have hcur : ∀ i, isCurBuild (rp.addPlain c fr) i = isCurBuild rp i := by
      intro i; simp only [Repo.addPlain]; split <;> rfl
    obtain ⟨hpb1, hpb2⟩ := pb_facts hT w sm v hcm hQ hfn
    have hgood : ∀ c0 cl0, classify rp c0 = some cl0 → ∀ i,
        Good h (St.skipBuild ⟨rp, br⟩ c fr (buildNums cm (c == head)) bpar pb) c0 i ↔ Good h ⟨rp, br⟩ c0 i :=
      fun c0 cl0 h0 i => good_stable w sm hcl ⟨[], by simp [St.skipBuild, hr]⟩
        (fun x hx => by simp only [St.skipBuild, CurB, hcur]; exact hx)
        (fun x hx => Or.inl (by simp only [St.skipBuild, CurB, hcur] at hx; exact hx)) h0 i
    -- `Good` for the skipped commit `c` itself, in the new state = in terms of the old builds
    have hgc : ∀ i, Good h (St.skipBuild ⟨rp, br⟩ c fr (buildNums cm (c == head)) bpar pb) c i →
        CurB rp i ∧ ∃ rci, rp.rcs[i]? = some rci ∧ rci.commit ≠ c ∧ Anc h rci.commit c := by
      rintro i ⟨hci, rci, hrci, hcase⟩
      simp only [St.skipBuild] at hci hrci
      rw [hr] at hrci
      have hci' : CurB rp i := by simp only [CurB, hcur] at hci; exact hci
      rcases hcase with h1 | ⟨h1, h2, _, _⟩
      · exact absurd h1 (hnosel i rci hrci)
      · exact ⟨hci', rci, hrci, h1, h2⟩
    match pb, hpb, hpb1, hpb2 with
    | [], _, _, hpb2 =>
      refine inv.step hu hcm hcl hc0 hclsne hclsc hgood [] 0 (by intro bn; simp [St.skipBuild]) (by intro bn hb; cases hb) ?_
      intro _ i hg
      exfalso
      obtain ⟨hci, rci, hrci, hne, hanc⟩ := hgc i hg
      obtain ⟨p, hp, _⟩ := hpb2 i hci rci hrci hne hanc
      cases hp
    | [p], _, hpb1, hpb2 =>
      obtain ⟨hcp, rcp, hrcp, hnep, hancp⟩ := hpb1 p (by simp)
      have hgp : Good h (St.skipBuild ⟨rp, br⟩ c fr (buildNums cm (c == head)) bpar [p]) c p := by
        refine ⟨by simp only [St.skipBuild, CurB, hcur]; exact hcp, rcp, by simp only [St.skipBuild]; rw [hr]; exact hrcp,
          Or.inr ⟨hnep, hancp, ?_, ?_⟩⟩
        · rintro ⟨q, rcq, _, hrcq, hqc⟩
          simp only [St.skipBuild] at hrcq
          rw [hr] at hrcq
          exact hnosel q rcq hrcq hqc
        · intro q hcq rcq hrcq hne hanc
          simp only [St.skipBuild] at hrcq hcq
          rw [hr] at hrcq
          have hcq' : CurB rp q := by simp only [CurB, hcur] at hcq; exact hcq
          obtain ⟨p', hp', rcp', hrcp', h1⟩ := hpb2 q hcq' rcq hrcq hne hanc
          simp at hp'; subst hp'
          rw [hrcp] at hrcp'; cases hrcp'
          exact h1
      refine inv.step hu hcm hcl hc0 hclsne hclsc hgood (buildNums cm (c == head)) p ?_ ?_ ?_
      · intro bn
        simp only [St.skipBuild, List.foldl_cons, List.foldl_nil]
        exact lookup_setAll _ _ _ _
      · intro bn hbn; exact ⟨helig, hbn, hgp⟩
      · intro _ i hg
        exact ⟨fun bn hbn => hbn, good_unique w' hT hg hgp⟩
    | _ :: _ :: _, hl, _, _ => simp at hl
  | build bpar new pb pbs bumps bn na helig =>
    have hnp : rp.rcs.length ∉ rp.prevBuilds := fun hm' => by have := w.prevLt _ hm'; simp only at this; omega
    let rc : RC := { commit := c, parents := fr, explicit := cm.isMatch, bns := buildNums cm (c == head), time := cm.time }
    let b : RB β := { iid := rp.rcs.length, rcommit := some rp.rcs.length, parents := pb,
                      rcommits := new ++ [rp.rcs.length], bumps := bumps, bn := bn }
    let s1 : St β := St.addBuild ⟨rp, br⟩ rc bn bpar new pb bumps na
    have hcur1 : ∀ i, isCurBuild s1.rp i = (isCurBuild rp i || i == rp.rcs.length) := fun i =>
      isCurBuild_push (rp.addRC rc) b hnp i
    have hs1rcs : s1.rp.rcs = rp.rcs ++ [rc] := rfl
    have hgl : Good h s1 c rp.rcs.length := by
      refine ⟨?_, rc, by rw [hs1rcs]; simp, Or.inl rfl⟩
      show isCurBuild s1.rp rp.rcs.length = true
      rw [hcur1]; simp
    refine inv.step (s' := s1) hu hcm hcl hc0 hclsne hclsc (fun c0 cl0 h0 i => good_stable w sm hcl ⟨[rc], rfl⟩
      (fun x hx => by
        show isCurBuild s1.rp x = true
        have hx' : isCurBuild rp x = true := hx
        rw [hcur1, hx']; rfl)
      (fun x hx => by
        have hx' : isCurBuild s1.rp x = true := hx
        rw [hcur1] at hx'
        cases h1 : isCurBuild rp x with
        | true => exact Or.inl h1
        | false =>
          rw [h1] at hx'
          have : x = rp.rcs.length := by simpa using hx'
          subst this
          exact Or.inr ⟨rc, by rw [hs1rcs]; simp, rfl⟩) h0 i)
      (buildNums cm (c == head)) rp.rcs.length ?_ ?_ ?_
    · intro bn'
      show (setAll rc.bns rp.rcs.length br.bnMap).lookup bn' = _
      exact lookup_setAll _ _ _ _
    · intro bn' hbn'; exact ⟨helig, hbn', hgl⟩
    · intro _ i hg
      exact ⟨fun bn' hbn' => hbn', good_unique w' hT hg hgl⟩

/-! ### along the DFS, to the end of the branch -/

theorem bn_hyps (hT : h.Topo) (pl : Plug π β) (head : Nat) (rp0 : Repo β) (hu : BnUnique h head) :
    VisitHyps h pl head
      (fun s => ((((WF h s ∧ Sem h s.rp) ∧ VInv s) ∧ Grow rp0 s.rp) ∧ BnInv h rp0 head s)) (FrontQ h)
      (fun s s' => Grow s.rp s'.rp) (fun _ => True) where
  Rrefl := fun s => Grow.refl s.rp
  Rtrans := fun h1 h2 => h1.trans h2
  Qmono := fun hP hP' hR hQ => (sem_hyps h pl head).Qmono hP.1.1.1 hP'.1.1.1 hR hQ
  Qnil := fun s hP => (sem_hyps h pl head).Qnil s hP.1.1.1
  Qcls := fun hP hQ _ hc => (sem_hyps h pl head).Qcls hP.1.1.1 hQ trivial hc
  Vstep := fun _ _ _ => trivial
  Hfin := by
    intro rel s c cm fr s' hP _ hcl hcm hQ hf
    obtain ⟨⟨w', sm'⟩, g⟩ := (sem_hyps h pl head).Hfin hP.1.1.1 trivial hcl hcm hQ hf
    have hc0 : classify rp0 c = none := by
      cases h0 : classify rp0 c with
      | none => rfl
      | some cl => have := hP.1.2.cls c cl h0; rw [hcl] at this; cases this
    exact ⟨⟨⟨⟨⟨w', sm'⟩, finish_vinv hP.1.1.1.1 w' hP.1.1.2 hQ.lt hf⟩, hP.1.2.trans g⟩,
      finish_bnInv hT hu hP.1.1.1.1 w' hP.1.1.1.2 hP.1.1.2 hP.2 hc0 hcl hcm hQ hf⟩, g⟩

/-- `Good`, in terms of the builds of the finished branch -/
def GoodB (h : Hist π) (rcs : List RC) (rb : RBranch β) (c i : Nat) : Prop :=
  ∃ bi ∈ rb.rbuilds, bi.iid = i ∧ ∃ ei, BuildAt rcs bi ei ∧
    (ei = c ∨ (ei ≠ c ∧ Anc h ei c ∧ (¬ ∃ bq ∈ rb.rbuilds, BuildAt rcs bq c) ∧
      ∀ bq ∈ rb.rbuilds, ∀ eq, BuildAt rcs bq eq → eq ≠ c → Anc h eq c → Anc h eq ei))

/-- the `bn_map` of a branch: sound and complete w.r.t. `GoodB` on the eligible commits of the branch -/
structure BrBn (h : Hist π) (pre : List Branch) (b : Branch) (rcs : List RC) (rb : RBranch β) : Prop where
  snd : ∀ bn i, rb.bnMap.lookup bn = some i → ∃ c cm, SpecBuild h pre b c ∧ h.commits[c]? = some cm ∧
    bn ∈ buildNums cm (c == b.head) ∧ GoodB h rcs rb c i
  cmp : ∀ c cm, SpecBuild h pre b c → h.commits[c]? = some cm → ∀ bn ∈ buildNums cm (c == b.head),
    ∀ i, GoodB h rcs rb c i → rb.bnMap.lookup bn = some i

theorem readBranch_bn (hT : h.Topo) {pl : Plug π β} {pre : List Branch} {rp0 : Repo β} {b : Branch}
    {rp' : Repo β} {rb : RBranch β} (hu : BnUnique h b.head) (inv : RepoInv h pre rp0)
    (hr : readBranch h pl pre.isEmpty rp0 b = .ok (rp', rb)) : BrBn h pre b rp'.rcs rb := by
  obtain ⟨inv', _, _⟩ := readBranch_sem hT inv hr
  obtain ⟨hc0, st, rheads, hhc0, hv, he⟩ := readBranch_inv hr
  have H := bn_hyps (h := h) hT pl b.head rp0 hu
  have bn0 : BnInv h rp0 b.head ⟨rp0, Br.empty⟩ :=
    ⟨by intro bn i hl; simp [Br.empty] at hl,
     by intro c cl cm h1 h2; simp only at h1; rw [h2] at h1; cases h1⟩
  have hP0 : (((WF h (⟨rp0, Br.empty⟩ : St β) ∧ Sem h rp0) ∧ VInv (⟨rp0, Br.empty⟩ : St β)) ∧ Grow rp0 rp0) ∧
      BnInv h rp0 b.head ⟨rp0, Br.empty⟩ := ⟨⟨⟨⟨inv.wf, inv.sem⟩, vinv_init inv.wf⟩, Grow.refl _⟩, bn0⟩
  obtain ⟨⟨⟨⟨⟨w, _⟩, _⟩, _⟩, bni⟩, _, _⟩ := visit_ind hT H h.commits.length ⟨rp0, Br.empty⟩ [] [] b.head st rheads
    hP0 (H.Qnil _ hP0) trivial hv
  have hn := visit_buildsNormal hT inv.normal hv
  have hs := endBranch_spec he
  have hbm := endBranch_bnMap he
  obtain ⟨seen, curBuilds, _, hcb, hrbuilds, _⟩ := hs.seen
  obtain ⟨hids, hmem⟩ := buildsOf_spec hcb
  have hcc : ∀ c, classify rp' c = classify st.rp c := classify_congr hs.done hs.visited hs.selected
  -- builds of the current branch in the state = builds of the branch with a build commit
  have hiff : ∀ bx : RB β, (bx ∈ st.rp.builds ∧ CurB st.rp bx.iid) ↔ (bx ∈ rb.rbuilds ∧ bx.rcommit = some bx.iid) := by
    intro bx
    constructor
    · rintro ⟨h1, h2⟩
      have hbc : bx ∈ curBuilds := buildsOf_mem w.bldInc hcb bx h1 ((w.curIff bx.iid).mpr h2)
      refine ⟨?_, hn bx h1⟩
      rcases hrbuilds with h3 | ⟨fake, h3, _, _⟩
      · rw [h3]; exact hbc
      · rw [h3]; exact List.mem_append_left _ hbc
    · rintro ⟨h1, h2⟩
      have hbc : bx ∈ curBuilds := by
        rcases hrbuilds with h3 | ⟨fake, h3, h4, _⟩
        · rw [h3] at h1; exact h1
        · rw [h3] at h1
          rcases List.mem_append.mp h1 with h5 | h5
          · exact h5
          · simp at h5; subst h5; rw [h4] at h2; cases h2
      exact ⟨hmem bx hbc, (w.curIff bx.iid).mp (by rw [← hids]; exact List.mem_map.mpr ⟨bx, hbc, rfl⟩)⟩
  have hcurb : ∀ x, CurB st.rp x → ∃ bx ∈ st.rp.builds, bx.iid = x := by
    intro x hx
    simp only [CurB, isCurBuild, Bool.and_eq_true, List.any_eq_true] at hx
    obtain ⟨⟨bx, hbx, he⟩, _⟩ := hx
    exact ⟨bx, hbx, by simpa using he⟩
  -- the two notions of "good" agree
  have hgood : ∀ c i, Good h st c i ↔ GoodB h st.rp.rcs rb c i := by
    intro c i
    constructor
    · rintro ⟨hci, rci, hrci, hcase⟩
      obtain ⟨bi, hbi, rfl⟩ := hcurb i hci
      obtain ⟨hbir, hbin⟩ := (hiff bi).mp ⟨hbi, hci⟩
      refine ⟨bi, hbir, rfl, rci.commit, ⟨hbin, rci, hrci, rfl⟩, ?_⟩
      rcases hcase with h1 | ⟨h1, h2, h3, h4⟩
      · exact Or.inl h1
      · refine Or.inr ⟨h1, h2, ?_, ?_⟩
        · rintro ⟨bq, hbq, hbqn, rcq, hrcq, hqc⟩
          obtain ⟨_, hcq⟩ := (hiff bq).mpr ⟨hbq, hbqn⟩
          exact h3 ⟨bq.iid, rcq, hcq, hrcq, hqc⟩
        · rintro bq hbq eq ⟨hbqn, rcq, hrcq, hqc⟩ hne hanc
          obtain ⟨_, hcq⟩ := (hiff bq).mpr ⟨hbq, hbqn⟩
          rw [← hqc] at hne hanc ⊢
          exact h4 bq.iid hcq rcq hrcq hne hanc
    · rintro ⟨bi, hbi, rfl, ei, ⟨hbin, rci, hrci, hce⟩, hcase⟩
      obtain ⟨_, hci⟩ := (hiff bi).mpr ⟨hbi, hbin⟩
      refine ⟨hci, rci, hrci, ?_⟩
      rw [hce]
      rcases hcase with h1 | ⟨h1, h2, h3, h4⟩
      · exact Or.inl h1
      · refine Or.inr ⟨h1, h2, ?_, ?_⟩
        · rintro ⟨q, rcq, hcq, hrcq, hqc⟩
          obtain ⟨bq, hbq, rfl⟩ := hcurb q hcq
          obtain ⟨hbqr, hbqn⟩ := (hiff bq).mp ⟨hbq, hcq⟩
          exact h3 ⟨bq, hbqr, hbqn, rcq, hrcq, hqc⟩
        · intro q hcq rcq hrcq hne hanc
          obtain ⟨bq, hbq, rfl⟩ := hcurb q hcq
          obtain ⟨hbqr, hbqn⟩ := (hiff bq).mp ⟨hbq, hcq⟩
          exact h4 bq hbqr rcq.commit ⟨hbqn, rcq, hrcq, rfl⟩ hne hanc
  -- eligible commits of the branch
  have hspec : ∀ c, SpecBuild h pre b c → ∃ cl, classify st.rp c = some cl ∧ classify rp0 c = none := by
    rintro c ⟨_, hanc, hno⟩
    obtain ⟨cl, hcl⟩ := (inv'.cover c).mpr ⟨b, by simp, hanc⟩
    rw [hcc] at hcl
    refine ⟨cl, hcl, ?_⟩
    cases hc0 : classify rp0 c with
    | none => rfl
    | some cl0 =>
      obtain ⟨b', hb', hab⟩ := (inv.cover c).mp ⟨cl0, hc0⟩
      exact absurd hab (hno b' hb')
  rw [hs.rcs]
  constructor
  · intro bn i hl
    rw [hbm] at hl
    obtain ⟨c, cl, cm, h1, h2, h3, h4, h5, h6⟩ := bni.snd bn i hl
    refine ⟨c, cm, ⟨?_, ?_, ?_⟩, h3, h5, (hgood c i).mp h6⟩
    · rcases h4 with h7 | h7
      · left; rw [Hist.tagged_of_get h3]; cases ht : cm.tags <;> simp_all
      · exact Or.inr h7
    · obtain ⟨b', hb', hab⟩ := (inv'.cover c).mp ⟨cl, by rw [hcc]; exact h1⟩
      rcases List.mem_append.mp hb' with h7 | h7
      · obtain ⟨cl0, hcl0⟩ := (inv.cover c).mpr ⟨b', h7, hab⟩
        rw [h2] at hcl0; cases hcl0
      · simp at h7; subst h7; exact hab
    · intro b' hb' hab
      obtain ⟨cl0, hcl0⟩ := (inv.cover c).mpr ⟨b', hb', hab⟩
      rw [h2] at hcl0; cases hcl0
  · intro c cm hsp hcm bn hbn i hg
    obtain ⟨cl, hcl, h0⟩ := hspec c hsp
    rw [hbm]
    refine bni.cmp c cl cm hcl h0 hcm ?_ bn hbn i ((hgood c i).mpr hg)
    rcases hsp.1 with h7 | h7
    · left
      rw [Hist.tagged_of_get hcm] at h7
      intro ht; rw [ht] at h7; simp at h7
    · exact Or.inr h7

end

end Ghist
