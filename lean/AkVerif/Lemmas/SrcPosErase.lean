import AkVerif.Model.SrcPosParse
/-!
C04 helper lemmas: forgetting the positions turns the positioned stack machine (`stepP`, `runP`) into the
LL parse model of C01 (`LL.step`, `LL.run`) — the spans are computed *over the LL model's parse run*.
-/
set_option linter.unusedSectionVars false
namespace SrcPos
open Ak

variable {σ : Type} [DecidableEq σ]

def PRes.erase : PRes σ → LL.Res σ
  | .cont st _ => .cont (st.map PFrame.erase)
  | .done t => .done t.erase
  | .fail _ => .fail
  | .stuck => .stuck

theorem eraseList_eq_map (vs : List (PTree σ)) : PTree.eraseList vs = vs.map PTree.erase := by
  induction vs with
  | nil => rfl
  | cons v vs ih => simp [PTree.eraseList, ih]

theorem erase_children (v : PTree σ) : v.erase.children = v.children.map PTree.erase := by
  cases v with
  | leaf n val sp => simp [PTree.erase, LL.Tree.children, PTree.children]
  | node n cs sp => simp [PTree.erase, LL.Tree.children, PTree.children, eraseList_eq_map]

theorem erase_splice (G : LL.Cfg σ) (prod : List σ) (vals : List (PTree σ)) :
    (spliceP G prod vals).map PTree.erase = LL.splice G prod (vals.map PTree.erase) := by
  unfold spliceP LL.splice
  cases prod.getLast? with
  | none => simp
  | some s =>
    cases hv : vals.getLast? with
    | none => simp [List.getLast?_map, hv]
    | some v =>
      simp only [List.getLast?_map, hv, Option.map_some]
      split
      · simp [erase_children, List.map_dropLast]
      · rfl

theorem erase_backtrack (st : List (PFrame σ)) :
    LL.backtrack (st.map PFrame.erase) =
      match backtrackP st with
      | some st' => .cont (st'.map PFrame.erase)
      | none => .fail := by
  induction st with
  | nil => simp [LL.backtrack, backtrackP]
  | cons f rest ih =>
    simp only [List.map_cons, LL.backtrack, backtrackP]
    by_cases hc : f.idx + 1 < f.alts.length
    · simp [PFrame.erase, hc, PTree.eraseList]
    · simp [PFrame.erase, hc]
      simpa [PFrame.erase] using ih

theorem erase_mkNode {G : LL.Cfg σ} {sym : σ} {prod : List σ} {vals : List (PTree σ)}
    {here : Option (PTok σ)} {t : PTree σ} (h : mkNode G sym prod vals here = some t) :
    t.erase = LL.Tree.node sym (LL.splice G prod (vals.map PTree.erase)) := by
  unfold mkNode at h
  split at h
  · split at h
    · cases h; simp [PTree.erase, PTree.eraseList, LL.splice]
    · cases h
  · cases h
    simp [PTree.erase, eraseList_eq_map, erase_splice]

theorem erase_failP {toks : List (PTok σ)} {far : Far} {top : PFrame σ} {rest : List (PFrame σ)}
    (h : failP toks far top rest ≠ .stuck) :
    LL.backtrack (top.erase :: rest.map PFrame.erase) = (failP toks far top rest).erase := by
  have := erase_backtrack (top :: rest)
  simp only [List.map_cons] at this
  rw [this]
  unfold failP at h ⊢
  cases hb : backtrackP (top :: rest) with
  | some st' => simp [PRes.erase]
  | none =>
    simp only [hb] at h ⊢
    cases ht : toks[(nextFar far top).1]? with
    | some tk => simp [PRes.erase]
    | none => simp [ht] at h

/-- one step of the positioned machine is one step of the LL parse model -/
theorem stepP_erase (G : LL.Cfg σ) (toks : List (PTok σ)) (far : Far) (st : List (PFrame σ))
    (h : stepP G toks far st ≠ .stuck) :
    LL.step G (toks.map PTok.erase) (st.map PFrame.erase) = (stepP G toks far st).erase := by
  cases st with
  | nil => simp [stepP] at h
  | cons top rest =>
    simp only [List.map_cons, stepP, LL.step] at h ⊢
    have halts : top.erase.alts[top.erase.idx]? = top.alts[top.idx]? := rfl
    rw [halts]
    cases hp : top.alts[top.idx]? with
    | none => simp [hp] at h
    | some prod =>
      simp only [hp] at h ⊢
      have hvals : top.erase.vals = top.vals.map PTree.erase := by simp [PFrame.erase, eraseList_eq_map]
      have hlen : top.erase.vals.length = top.vals.length := by simp [hvals]
      rw [hlen]
      by_cases hl : top.vals.length = prod.length
      · simp only [hl, if_true] at h ⊢
        cases hm : mkNode G top.sym prod top.vals toks[top.cur]? with
        | none => simp [hm] at h
        | some t =>
          simp only [hm] at h ⊢
          have ht := erase_mkNode hm
          have hsym : top.erase.sym = top.sym := rfl
          rw [hsym, hvals, ← ht]
          cases rest with
          | nil =>
            simp only [List.map_nil] at h ⊢
            rw [erase_children, List.head?_map]
            cases hh : t.children.head? with
            | none => simp [hh] at h
            | some r => simp [PRes.erase]
          | cons parent rest' =>
            simp [PRes.erase, PFrame.erase, eraseList_eq_map]
      · simp only [hl, if_false] at h ⊢
        have hcur : top.erase.cur = top.cur := rfl
        rw [hcur, List.getElem?_map]
        cases hc : prod[top.vals.length]? with
        | none => simp [hc] at h
        | some c =>
          cases htok : toks[top.cur]? with
          | none => simp [hc, htok] at h
          | some tok =>
            simp only [hc, htok, Option.map_some] at h ⊢
            by_cases hterm : G.isTerm c = true
            · simp only [hterm, if_true] at h ⊢
              by_cases hn : tok.name = c
              · simp [PTok.erase, hn, PRes.erase, PFrame.erase, eraseList_eq_map, PTree.erase]
              · simp only [PTok.erase, hn, if_false] at h ⊢
                exact erase_failP h
            · simp only [hterm] at h ⊢
              cases ht : G.table c tok.name with
              | some alts => simp [PTok.erase, ht, PRes.erase, PFrame.erase, PTree.eraseList]
              | none =>
                simp only [PTok.erase, ht] at h ⊢
                exact erase_failP h

theorem erase_initStack (init start endS : σ) :
    (initStackP init start endS).map PFrame.erase = LL.initStack init start endS := by
  simp [initStackP, LL.initStack, PFrame.erase, PTree.eraseList]

/-- a tree returned by the positioned parse is, without its positions, the tree the LL parse model
returns; a `ParsingError` of the positioned parse is a `ParsingError` of the LL model -/
theorem runP_erase (G : LL.Cfg σ) (toks : List (PTok σ)) :
    ∀ (fuel : Nat) (far : Far) (st : List (PFrame σ)),
      (∀ t, runP G toks fuel far st = .ok t →
        LL.run G (toks.map PTok.erase) fuel (st.map PFrame.erase) = .ok t.erase) ∧
      (∀ p, runP G toks fuel far st = .error (.parsing p) →
        LL.run G (toks.map PTok.erase) fuel (st.map PFrame.erase) = .error .parsingError) := by
  intro fuel
  induction fuel with
  | zero => intro far st; simp [runP]
  | succ fuel ih =>
    intro far st
    have key := stepP_erase G toks far st
    constructor
    · intro t h
      unfold runP at h
      unfold LL.run
      split at h
      · rename_i st' far' hs
        rw [key (by rw [hs]; simp), hs]
        exact (ih far' st').1 t h
      · rename_i r hs
        cases h
        rw [key (by rw [hs]; simp), hs]
        rfl
      · cases h
      · cases h
    · intro p h
      unfold runP at h
      unfold LL.run
      split at h
      · rename_i st' far' hs
        rw [key (by rw [hs]; simp), hs]
        exact (ih far' st').2 p h
      · cases h
      · rename_i q hs
        cases h
        rw [key (by rw [hs]; simp), hs]
        rfl
      · cases h

theorem stepP_fail_pos {G : LL.Cfg σ} {toks : List (PTok σ)} {far : Far} {st : List (PFrame σ)} {p : Pos}
    (h : stepP G toks far st = .fail p) : ∃ tk ∈ toks, p = tk.sp.s := by
  have hf : ∀ top rest, failP toks far top rest = .fail p → ∃ tk ∈ toks, p = tk.sp.s := by
    intro top rest h
    unfold failP at h
    split at h
    · cases h
    · split at h
      · rename_i tk htk
        cases h
        exact ⟨tk, List.mem_of_getElem? htk, rfl⟩
      · cases h
  cases st with
  | nil => simp [stepP] at h
  | cons top rest =>
    simp only [stepP] at h
    split at h
    · cases h
    · split at h
      · split at h
        · cases h
        · cases rest with
          | nil => simp only at h; split at h <;> cases h
          | cons parent rest' => simp only at h; cases h
      · split at h
        · split at h
          · split at h
            · cases h
            · exact hf _ _ h
          · split at h
            · cases h
            · exact hf _ _ h
        · cases h

/-- `ParsingError.src_pos` is the start position of one of the tokens handed to the parser -/
theorem runP_fail_pos {G : LL.Cfg σ} {toks : List (PTok σ)} :
    ∀ (fuel : Nat) (far : Far) (st : List (PFrame σ)) (p : Pos),
      runP G toks fuel far st = .error (.parsing p) → ∃ tk ∈ toks, p = tk.sp.s := by
  intro fuel
  induction fuel with
  | zero => intro far st p h; simp [runP] at h
  | succ fuel ih =>
    intro far st p h
    unfold runP at h
    split at h
    · exact ih _ _ p h
    · cases h
    · rename_i q hs
      cases h
      exact stepP_fail_pos hs
    · cases h

end SrcPos
