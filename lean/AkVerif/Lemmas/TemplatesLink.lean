import AkVerif.Lemmas.TemplatesJsonPlain
/-!
C05 links to what is executed: (1) `toVal` (the conversion the driver runs on the tree of the parse loop) flattens a
sequence exactly as `flattenSeq` / `seq_items` say; (2) `constructT` is the LL model's `constructG` (C01–C03) after
template expansion.
-/
namespace Templates
open Ak LL

/-- the derivation tree of a sequence as the parse loop builds it (`SEQ -> SEQ__ELEMENT SEQ | ()`), with its matched
elements in source order -/
inductive SeqTree (seqSyms : List Name) (n : Sym) : Tree Sym → List (Tree Sym) → Prop
  | nil : SeqTree seqSyms n (.node n []) []
  | cons (e : Sym) (x tl : Tree Sym) (xs : List (Tree Sym)) : e.name ∉ seqSyms → SeqTree seqSyms n tl xs →
      SeqTree seqSyms n (.node n [.node e [x], tl]) (x :: xs)

/-- what `toVal` (the function the driver executes on the tree of the parse loop) returns for a sequence node is what
`flattenSeq` returns for the un-flattened element tree, i.e. the leaf holding the converted elements in order -/
theorem toVal_seq (seqSyms : List Name) (n : Sym) (hn : n.name ∈ seqSyms) :
    ∀ (t : Tree Sym) (xs : List (Tree Sym)), SeqTree seqSyms n t xs → ∀ vs, toVals seqSyms xs = .ok vs →
      ∃ u, SeqShape n.name u vs ∧ toVal seqSyms t = flattenSeq u ∧
        toVal seqSyms t = .ok (.elem n.name true (.list vs)) := by
  intro t xs h
  induction h with
  | nil =>
    intro vs hvs
    simp [toVals] at hvs
    subst hvs
    refine ⟨.elem n.name true .none, .nil true, ?_, ?_⟩ <;> simp [toVal, hn, flattenSeq, processSeq]
  | cons e x tl xs he _ ih =>
    intro vs hvs
    rw [toVals] at hvs
    cases hx : toVal seqSyms x with
    | error err => simp [hx] at hvs
    | ok vx =>
      cases hxs : toVals seqSyms xs with
      | error err => simp [hx, hxs] at hvs
      | ok vs' =>
        simp [hx, hxs] at hvs
        subst hvs
        obtain ⟨u', hu', _, htl⟩ := ih vs' hxs
        have hel : toVal seqSyms (.node e [x]) = .ok (.elem e.name false (.list [vx])) := by
          simp [toVal, toVals, hx, he]
        have htop : toVal seqSyms (.node n [.node e [x], tl]) = .ok (.elem n.name true (.list (vx :: vs'))) := by
          rw [toVal, toVals, hel, toVals, htl, toVals]
          simp [hn, processSeq]
        refine ⟨.elem n.name false (.list [.elem e.name false (.list [vx]), u']),
          .cons e.name false vx u' vs' false hu', ?_, htop⟩
        rw [htop, flattenSeq_shape (SeqShape.cons e.name false vx u' vs' false hu')]

/-- every entry passes the reserved-name checks of the LL model's `createProdsT` -/
def OKp (T : Tmpl) (ps : List (Name × List (List Name))) : Prop :=
  ∀ p ∈ ps, (p.1 ∈ T.gen ∨ hasDunder p.1 = false) ∧
    (p.1 ∈ T.gen ∨ p.1 ∈ T.tmpl ∨ (p.2.any fun r => r.any hasDunder) = false)

theorem createProdsT_eq (T : Tmpl) : ∀ (ps : List (Name × List (List Name))) (n : Nat) (acc : LL.Prods Sym),
    OKp T ps → createProdsT T n ps acc = numberProds n ps acc := by
  intro ps
  induction ps with
  | nil => intro n acc _; simp [createProdsT, numberProds]
  | cons p ps ih =>
    intro n acc h
    obtain ⟨s, alts⟩ := p
    obtain ⟨h1, h2⟩ := h (s, alts) (by simp)
    have c1 : ¬ (s ∉ T.gen ∧ hasDunder s = true) := by
      rcases h1 with h | h
      · exact fun c => c.1 h
      · simp [h]
    have c2 : ¬ (s ∉ T.gen ∧ s ∉ T.tmpl ∧ (alts.any fun r => r.any hasDunder) = true) := by
      rcases h2 with h | h | h
      · exact fun c => c.1 h
      · exact fun c => c.2.1 h
      · simp [h]
    simp only [createProdsT, numberProds, c1, c2, if_false]
    split
    · rfl
    · exact ih _ _ (fun q hq => h q (by simp [hq]))

theorem OKp_mono {T T' : Tmpl} {ps : List (Name × List (List Name))} (hg : ∀ x ∈ T.gen, x ∈ T'.gen)
    (ht : ∀ x ∈ T.tmpl, x ∈ T'.tmpl) (h : OKp T ps) : OKp T' ps := by
  intro p hp
  obtain ⟨h1, h2⟩ := h p hp
  refine ⟨h1.imp (hg _) id, ?_⟩
  rcases h2 with h | h | h
  · exact Or.inl (hg _ h)
  · exact Or.inr (Or.inl (ht _ h))
  · exact Or.inr (Or.inr h)

theorem OKp_append {T : Tmpl} {a b : List (Name × List (List Name))} (ha : OKp T a) (hb : OKp T b) : OKp T (a ++ b) := by
  intro p hp
  rcases List.mem_append.mp hp with h | h
  · exact ha p h
  · exact hb p h

theorem mkListOpts_result {a : ListArgs} {sym : Name} {o : ListOpts} (h : mkListOpts a sym = .ok o) : o.result = sym := by
  obtain ⟨ob, item, dl, cb, afd, opt⟩ := a
  cases ob <;> cases cb <;> cases dl <;> cases afd <;> cases opt <;>
    simp [mkListOpts] at h <;>
    (try (rename_i b; cases b <;> simp at h)) <;>
    (try (rename_i b c; cases b <;> cases c <;> simp at h)) <;>
    (try (subst h; rfl))

theorem mkMapOpts_result {a : MapArgs} {sym : Name} {o : MapOpts} (h : mkMapOpts a sym = .ok o) : o.result = sym := by
  obtain ⟨ob, key, asg, val, dl, cb, opt, afd⟩ := a
  cases ob <;> cases cb <;> cases dl <;> cases asg <;> cases opt <;>
    simp [mkMapOpts] at h <;>
    (try (subst h; rfl))

theorem expandGrammar_OKp (terms : List Name) (hterms : ∀ t ∈ terms, hasDunder t = false) :
    ∀ (entries : List (Name × GramEntry)) (acc ex : Expanded), expandGrammar terms entries acc = .ok ex →
      OKp ⟨acc.tmplKeys, acc.genSyms⟩ acc.prods → OKp ⟨ex.tmplKeys, ex.genSyms⟩ ex.prods := by
  intro entries
  induction entries with
  | nil => intro acc ex h hk; simp [expandGrammar] at h; subst h; exact hk
  | cons en rest ih =>
    intro acc ex h hk
    obtain ⟨sym, e⟩ := en
    simp only [expandGrammar] at h
    split at h
    · cases h
    · rename_i hsd
      have hsd' : hasDunder sym = false := by simpa using hsd
      cases e with
      | plain ps =>
        simp only at h
        split at h
        · cases h
        · rename_i hpd
          cases hr : prodRules terms ps false with
          | error err => simp [hr] at h
          | ok rules =>
            simp only [hr] at h
            refine ih _ ex h (OKp_append hk ?_)
            intro p hp
            simp at hp
            subst hp
            refine ⟨Or.inr hsd', Or.inr (Or.inr ?_)⟩
            have e := prodRules_ok hr
            simp only [List.any_eq_false]
            intro r hr'
            rw [e] at hr'
            obtain ⟨pa, hpa, hmem⟩ := List.mem_flatMap.mp hr'
            cases pa with
            | empty => simp [ProdArg.denote] at hmem; subst hmem; simp
            | tuple q =>
              simp [ProdArg.denote] at hmem
              have : prodArgHasDunder (.tuple q) = false := by
                have := hpd; simp only [List.any_eq_true, not_exists, not_and] at this
                simpa using this _ hpa
              rw [hmem]
              simpa [prodArgHasDunder] using this
            | anyExcept ex' =>
              simp [ProdArg.denote] at hmem
              obtain ⟨t, ⟨ht, _⟩, rfl⟩ := hmem
              simp [hterms t ht]
      | list a =>
        simp only at h
        cases ho : mkListOpts a sym with
        | error err => simp [ho] at h
        | ok o =>
          simp only [ho] at h
          have hres := mkListOpts_result ho
          refine ih _ ex h (OKp_append (OKp_mono (fun x hx => by simp [hx]) (fun x hx => by simp [hx]) hk) ?_)
          intro p hp
          simp only [ListOpts.genProds, List.mem_cons] at hp
          rcases hp with rfl | hp
          · exact ⟨Or.inr (by rw [hres]; exact hsd'), Or.inr (Or.inl (by simp [hres]))⟩
          · split at hp
            · simp at hp; subst hp
              exact ⟨Or.inl (by simp), Or.inl (by simp)⟩
            · simp at hp
      | map a =>
        simp only at h
        cases ho : mkMapOpts a sym with
        | error err => simp [ho] at h
        | ok o =>
          simp only [ho] at h
          have hres := mkMapOpts_result ho
          refine ih _ ex h (OKp_append (OKp_mono (fun x hx => by simp [hx]) (fun x hx => by simp [hx]) hk) ?_)
          intro p hp
          simp only [MapOpts.genProds, List.mem_cons, List.not_mem_nil, or_false] at hp
          rcases hp with rfl | rfl | rfl
          · exact ⟨Or.inr (by rw [hres]; exact hsd'), Or.inr (Or.inl (by simp [hres]))⟩
          · exact ⟨Or.inl (by simp), Or.inl (by simp)⟩
          · exact ⟨Or.inl (by simp), Or.inl (by simp)⟩
      | seq args =>
        simp only at h
        cases ho : seqSymbols terms args with
        | error err => simp [ho] at h
        | ok syms =>
          simp only [ho] at h
          refine ih _ ex h (OKp_append (OKp_mono (fun x hx => by simp [hx]) (fun x hx => by simp [hx]) hk) ?_)
          intro p hp
          simp only [seqGenProds, List.mem_cons, List.not_mem_nil, or_false] at hp
          rcases hp with rfl | rfl
          · exact ⟨Or.inr hsd', Or.inr (Or.inl (by simp))⟩
          · exact ⟨Or.inl (by simp), Or.inl (by simp)⟩

/-- **`constructT` is the LL model's `constructG` after template expansion**: whenever C05's constructor succeeds, the LL
model's constructor for dictionaries with templates (`LL.constructG`, the object of C01–C03), given the expanded
productions and the template bookkeeping computed by `expandGrammar`, succeeds with the same parser (terminals, skip
set, start, dictionaries, suffix symbols, nullables, FIRST, FOLLOW, table). Hypothesis: the iteration order handed in
for `AnyTokenExcept` lists names without `__` (they are terminals). -/
theorem constructT_constructG (groups : List Name) (syn : List (Name × Name)) (skip : Option (List Name)) (start : Name)
    (smart : Bool) (keep termOrder : List Name) (entries : List (Name × GramEntry)) (TP : TParser)
    (hterms : ∀ t ∈ termOrder, hasDunder t = false)
    (h : constructT groups syn skip start smart keep termOrder entries = .ok TP) :
    ∃ ex, expandGrammar termOrder entries {} = .ok ex ∧
      constructG ⟨ex.tmplKeys, ex.genSyms⟩ ⟨groups, syn, [], skip, start, ex.prods, smart⟩ = .ok TP.ll := by
  unfold constructT at h
  simp only [bind, Except.bind] at h
  split at h
  · cases h
  · rename_i hd
    cases h1 : skipSet ⟨groups, syn, [], skip, start, [], smart⟩ (tokenNames ⟨groups, syn, [], skip, start, [], smart⟩) with
    | error e => simp [h1] at h
    | ok skipS =>
      simp only [h1] at h
      cases h2 : expandGrammar termOrder entries {} with
      | error e => simp [h2] at h
      | ok ex =>
        simp only [h2] at h
        refine ⟨ex, rfl, ?_⟩
        have hok := expandGrammar_OKp termOrder hterms entries {} ex h2 (by intro p hp; cases hp)
        cases h3 : numberProds 0 ex.prods [] with
        | error e => simp [h3] at h
        | ok U =>
          simp only [h3] at h
          cases h4 : factorize (tokenNames ⟨groups, syn, [], skip, start, [], smart⟩) U smart with
          | error e => simp [h4] at h
          | ok GS =>
            obtain ⟨G, suffix⟩ := GS
            simp only [h4] at h
            cases h5 : verifyPart1 (sadd (tokenNames ⟨groups, syn, [], skip, start, [], smart⟩) endSym) (parseSym start) G with
            | error e => simp [h5] at h
            | ok u5 =>
              simp only [h5] at h
              cases h6 : nullables G with
              | error e => simp [h6] at h
              | ok nulls =>
                simp only [h6] at h
                cases h7 : verifyTemplates nulls ex.templates with
                | error e => simp [h7] at h
                | ok u7 =>
                  simp only [h7] at h
                  cases h8 : firstSets (sadd (tokenNames ⟨groups, syn, [], skip, start, [], smart⟩) endSym) nulls G with
                  | error e => simp [h8] at h
                  | ok first =>
                    simp only [h8] at h
                    cases h9 : followSets (sadd (tokenNames ⟨groups, syn, [], skip, start, [], smart⟩) endSym) nulls first G
                        (parseSym start) endSym with
                    | error e => simp [h9] at h
                    | ok follow =>
                      simp only [h9] at h
                      cases h10 : mkTable (sadd (tokenNames ⟨groups, syn, [], skip, start, [], smart⟩) endSym) nulls first
                          follow G with
                      | error e => simp [h10] at h
                      | ok table =>
                        simp only [h10] at h
                        cases h11 : recCheck G (sadd (tokenNames ⟨groups, syn, [], skip, start, [], smart⟩) endSym) nulls
                            (sortedKeys G) with
                        | error e => simp [h11] at h
                        | ok u11 =>
                          simp only [h11] at h
                          cases h
                          have htn : tokenNames ⟨groups, syn, [], skip, start, ex.prods, smart⟩ =
                              tokenNames ⟨groups, syn, [], skip, start, [], smart⟩ := rfl
                          have hsk : skipSet ⟨groups, syn, [], skip, start, ex.prods, smart⟩ = 
                              skipSet ⟨groups, syn, [], skip, start, [], smart⟩ := rfl
                          unfold constructG
                          simp only [bind, Except.bind, htn, hsk, hd, h1, createProdsT_eq _ _ _ _ hok, h3, h4, h5, h6,
                            h8, h9, h10, h11]
                          rfl

/-! ### choice symbols and wrappers as sequence elements / items -/

theorem squashStep_fch_true (cl : Cleanuper) (name : Name) (rs : List (El × Bool)) (r : El × Bool)
    (h : squashStep cl name false true rs = .ok r) : r.2 = true := by
  unfold squashStep at h
  cases rs with
  | nil => simp at h; rw [← h]
  | cons a rest =>
    simp only at h
    split at h
    · cases rest with
      | nil =>
        simp only [Bool.true_or, Bool.true_and, Bool.or_false] at h
        split at h
        · cases h; rfl
        · first
            | (cases h; rfl)
            | (split at h
               · rename_i h1 h2
                 exact absurd h2 h1
               · cases h; rfl)
      | cons _ _ => simp at h
    · cases h; rfl

/-- an element cleaned as the child of a choice symbol (`for_choice=True`) must not be squashed further -/
theorem cleanup_fch_true (cl : Cleanuper) (t : Val) (r : El × Bool)
    (h : cleanup cl t false true = .ok r) : r.2 = true := by
  cases t with
  | elem name leaf v =>
    cases htp : lookup cl.templates name with
    | some tpl =>
      cases tpl with
      | list o =>
        rw [cleanup_of_list_template cl o _ _ _ _ _ htp] at h
        split at h
        · cases h; rfl
        · cases h
      | map o =>
        rw [cleanup_of_map_template cl o _ _ _ _ _ htp] at h
        split at h
        · cases h; rfl
        · cases h
    | none =>
      cases leaf with
      | true =>
        cases v with
        | list xs =>
          simp only [cleanup, htp, bind, Except.bind, pure, Except.pure] at h
          cases hcs : cleanSeq cl xs with
          | error e => simp [hcs] at h
          | ok ys => simp [hcs] at h; rw [← h]
        | none => simp [cleanup, htp] at h; rw [← h]
        | str _ => simp [cleanup, htp] at h; rw [← h]
        | dict _ => simp [cleanup, htp] at h; rw [← h]
        | elem _ _ _ => simp [cleanup, htp] at h; rw [← h]
      | false =>
        cases v with
        | list xs =>
          simp only [cleanup, htp, bind, Except.bind] at h
          cases hcs : cleanupAll cl xs (decide (name ∈ cl.choice)) with
          | error e => simp [hcs] at h
          | ok rs =>
            simp only [hcs] at h
            exact squashStep_fch_true _ _ _ _ h
        | none => simp [cleanup, htp] at h
        | str _ => simp [cleanup, htp] at h
        | dict _ => simp [cleanup, htp] at h
        | elem _ _ _ => simp [cleanup, htp] at h
  | none => simp [cleanup] at h
  | str _ => simp [cleanup] at h
  | list _ => simp [cleanup] at h
  | dict _ => simp [cleanup] at h

/-- a squashable choice symbol that is not kept vanishes around the alternative it selected, whatever the flags of the
call (container item, sequence element, root child): the result is the cleaned alternative itself -/
theorem cleanup_choice_node (cl : Cleanuper) (V : Name) (x : Val) (fc : Bool)
    (hT : lookup cl.templates V = none) (hs : V ∈ cl.squash) (hc : V ∈ cl.choice) (hk : V ∉ cl.keep) :
    cleanup cl (.elem V false (.list [x])) fc false = cleanup cl x false true := by
  have h1 : decide (V ∈ cl.choice) = true := by simp [hc]
  have h2 : decide (V ∈ cl.keep) = false := by simp [hk]
  simp only [cleanup, hT, cleanupAll, h1, bind, Except.bind, pure, Except.pure]
  cases hx : cleanup cl x false true with
  | error e => simp
  | ok r =>
    have hr := cleanup_fch_true cl x r hx
    simp [squashStep, hs, h2, hr]
    cases r; simp_all

/-- a one-production wrapper (squashable, not a choice symbol, not kept) around an element that must not be squashed
vanishes too -/
theorem cleanup_wrapper_node (cl : Cleanuper) (W : Name) (y : Val) (fc : Bool) (r : El × Bool)
    (hT : lookup cl.templates W = none) (hs : W ∈ cl.squash) (hc : W ∉ cl.choice) (hk : W ∉ cl.keep)
    (hy : cleanup cl y false false = .ok r) (hr : r.2 = true) :
    cleanup cl (.elem W false (.list [y])) fc false = .ok r := by
  have h1 : decide (W ∈ cl.choice) = false := by simp [hc]
  have h2 : decide (W ∈ cl.keep) = false := by simp [hk]
  simp only [cleanup, hT, cleanupAll, h1, hy, bind, Except.bind, pure, Except.pure]
  simp [squashStep, hs, h2, hr]
  cases r; simp_all


end Templates
