import AkVerif.Lemmas.LLLeast
import AkVerif.Lemmas.LLExpand3
import AkVerif.Lemmas.LLTransfer2
import AkVerif.Lemmas.LLTable2
/-!
Shared vocabulary of the proof of `C02.ll1_as_written_unambiguous` ("a grammar that is LL(1) as
written is reported as not ambiguous"): semantic FIRST of a sequence, semantic predict sets, the
position of a helper symbol below its user symbol.
-/
set_option linter.unusedSectionVars false
namespace LL

/-- FIRST of a sequence over the least FIRST relation (`First`) of the dictionary `D` -/
def FirstSeq (D : Prods Sym) (T N : List Sym) (e : List Sym) (t : Sym) : Prop :=
  FirstInM T N (First D T N) e t

/-- semantic predict set of the alternative `p` of `X`: FIRST(p), plus FOLLOW(X) when `p` is nullable
(`Follow` is the least FOLLOW relation w.r.t. the FIRST sets `first`) -/
def PredS (D : Prods Sym) (T N : List Sym) (first : SetMap Sym) (start endS : Sym) (X : Sym) (p : List Sym)
    (t : Sym) : Prop :=
  FirstSeq D T N p t ∨ (NullIn T N p ∧ Follow D T N first start endS X t)

/-- `h` is reached from `X` through last positions of rules over helper symbols; `c` = the symbols the
rules on the way put in front (no nullability requirement, unlike `TrAnc`) -/
inductive Below (G : Prods Sym) (S : List Sym) (X : Sym) : Sym → List Sym → Prop
  | root : Below G S X X []
  | down {k : Sym} {c pre : List Sym} {h : Sym} : Below G S X k c → pre ++ [h] ∈ gramRules G k → h ∈ S →
      Below G S X h (c ++ pre)

/-- the user symbol a (helper) symbol belongs to -/
def rootOf (s : Sym) : Sym := ⟨s.base, []⟩

theorem rootOf_user {s : Sym} (h : s.path = []) : rootOf s = s := by
  cases s; simp_all [rootOf]

theorem rootOf_ext {k l : Sym} (h : Ext k l) : rootOf l = rootOf k := by
  simp [rootOf, h.1]

theorem below_flat {G : Prods Sym} {S : List Sym} {X h : Sym} {c : List Sym} (hB : Below G S X h c) :
    ∀ e, FlatD G S h e → FlatD G S X (c ++ e) := by
  induction hB with
  | root => intro e he; simpa using he
  | down _ hp hs ih =>
    intro e he
    have := ih _ (FlatD.step hp hs he)
    rwa [← List.append_assoc] at this

end LL
