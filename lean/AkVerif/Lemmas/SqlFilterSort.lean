import AkVerif.Lemmas.SqlFilter
/-!
`sorted(kwargs.items())` does not depend on the order in which the keyword arguments were
written (C15): `strLt` is a strict total order, so the sorted list of a set of pairs with distinct
keys is unique.  Also: what `selectRows` returns.
-/
namespace SqlFilter
open Ak

theorem strLt_irrefl : ∀ (a : Str), strLt a a = false
  | [] => rfl
  | c :: cs => by simp [strLt, strLt_irrefl cs]

theorem strLt_trans : ∀ (a b c : Str), strLt a b = true → strLt b c = true → strLt a c = true
  | [], [], _, h, _ => by simp [strLt] at h
  | [], _ :: _, [], _, h => by simp [strLt] at h
  | [], _ :: _, _ :: _, _, _ => by simp [strLt]
  | _ :: _, [], _, h, _ => by simp [strLt] at h
  | _ :: _, _ :: _, [], _, h => by simp [strLt] at h
  | x :: xs, y :: ys, z :: zs, h1, h2 => by
    simp only [strLt] at h1 h2 ⊢
    by_cases hxy : x.toNat < y.toNat
    · by_cases hyz : y.toNat < z.toNat
      · have : x.toNat < z.toNat := by omega
        simp [this]
      · simp only [hyz, if_false] at h2
        by_cases hzy : z.toNat < y.toNat
        · simp [hzy] at h2
        · have : x.toNat < z.toNat := by omega
          simp [this]
    · simp only [hxy, if_false] at h1
      by_cases hyx : y.toNat < x.toNat
      · simp [hyx] at h1
      · simp only [hyx, if_false] at h1
        have hxe : x.toNat = y.toNat := by omega
        by_cases hyz : y.toNat < z.toNat
        · have : x.toNat < z.toNat := by omega
          simp [this]
        · simp only [hyz, if_false] at h2
          by_cases hzy : z.toNat < y.toNat
          · simp [hzy] at h2
          · simp only [hzy, if_false] at h2
            have h3 : ¬ x.toNat < z.toNat := by omega
            have h4 : ¬ z.toNat < x.toNat := by omega
            simp only [h3, h4, if_false]
            exact strLt_trans xs ys zs h1 h2

theorem strLt_total : ∀ (a b : Str), a ≠ b → strLt a b = true ∨ strLt b a = true
  | [], [], h => absurd rfl h
  | [], _ :: _, _ => by simp [strLt]
  | _ :: _, [], _ => by simp [strLt]
  | x :: xs, y :: ys, h => by
    simp only [strLt]
    by_cases hxy : x.toNat < y.toNat
    · simp [hxy]
    · by_cases hyx : y.toNat < x.toNat
      · simp [hyx]
      · have hxe : x = y := Char.toNat_inj.mp (by omega)
        subst hxe
        have : xs ≠ ys := fun e => h (by rw [e])
        simpa [hxy] using strLt_total xs ys this

theorem strLt_asymm (a b : Str) (h : strLt a b = true) : strLt b a = false := by
  cases hb : strLt b a with
  | false => rfl
  | true =>
    have := strLt_trans a b a h hb
    rw [strLt_irrefl] at this
    cases this

/-- strictly increasing keys -/
def SortedKw (l : List (Str × Arg)) : Prop := List.Pairwise (fun x y => strLt x.1 y.1 = true) l

theorem insertKw_sorted (x : Str × Arg) (l : List (Str × Arg)) (hs : SortedKw l)
    (hx : ∀ y ∈ l, y.1 ≠ x.1) : SortedKw (insertKw x l) := by
  induction l with
  | nil => simp [insertKw, SortedKw]
  | cons y ys ih =>
    unfold SortedKw at hs ⊢
    rw [List.pairwise_cons] at hs
    simp only [insertKw]
    by_cases hlt : strLt x.1 y.1 = true
    · simp only [hlt, if_true]
      rw [List.pairwise_cons, List.pairwise_cons]
      refine ⟨?_, hs⟩
      intro z hz
      rcases List.mem_cons.mp hz with rfl | hz
      · exact hlt
      · exact strLt_trans _ _ _ hlt (hs.1 z hz)
    · simp only [hlt, Bool.false_eq_true, if_false]
      rw [List.pairwise_cons]
      refine ⟨?_, ih hs.2 (fun z hz => hx z (List.mem_cons_of_mem _ hz))⟩
      intro z hz
      rcases (mem_insertKw x z ys).mp hz with rfl | hz
      · have hne : y.1 ≠ z.1 := hx y (List.mem_cons_self ..)
        rcases strLt_total _ _ hne with h | h
        · exact h
        · exact absurd h hlt
      · exact hs.1 z hz

theorem sortKw_sorted (l : List (Str × Arg)) (hn : (l.map (·.1)).Nodup) : SortedKw (sortKw l) := by
  induction l with
  | nil => simp [sortKw, SortedKw]
  | cons x xs ih =>
    simp only [List.map_cons, List.nodup_cons] at hn
    simp only [sortKw]
    apply insertKw_sorted x _ (ih hn.2)
    intro y hy hxy
    exact hn.1 (List.mem_map.mpr ⟨y, (mem_sortKw y xs).mp hy, hxy⟩)

theorem sorted_unique : ∀ (l l' : List (Str × Arg)), SortedKw l → SortedKw l' →
    (∀ x, x ∈ l ↔ x ∈ l') → l = l'
  | [], [], _, _, _ => rfl
  | [], y :: _, _, _, h => by have := (h y).mpr (List.mem_cons_self ..); simp at this
  | x :: _, [], _, _, h => by have := (h x).mp (List.mem_cons_self ..); simp at this
  | x :: xs, y :: ys, hs, hs', h => by
    unfold SortedKw at hs hs'
    rw [List.pairwise_cons] at hs hs'
    have hxy : x = y := by
      have hx := (h x).mp (List.mem_cons_self ..)
      have hy := (h y).mpr (List.mem_cons_self ..)
      rcases List.mem_cons.mp hx with e | hx'
      · exact e
      · rcases List.mem_cons.mp hy with e | hy'
        · exact e.symm
        · have h1 := hs'.1 x hx'
          have h2 := hs.1 y hy'
          rw [strLt_asymm _ _ h1] at h2
          cases h2
    subst hxy
    congr 1
    apply sorted_unique xs ys hs.2 hs'.2
    intro z
    constructor
    · intro hz
      rcases List.mem_cons.mp ((h z).mp (List.mem_cons_of_mem _ hz)) with e | hz'
      · subst e
        have := hs.1 z hz
        rw [strLt_irrefl] at this
        cases this
      · exact hz'
    · intro hz
      rcases List.mem_cons.mp ((h z).mpr (List.mem_cons_of_mem _ hz)) with e | hz'
      · subst e
        have := hs'.1 z hz
        rw [strLt_irrefl] at this
        cases this
      · exact hz'

/-- the sorted keyword list does not depend on the order the keywords were written in -/
theorem sortKw_perm (l l' : List (Str × Arg)) (hp : l.Perm l') (hn : (l.map (·.1)).Nodup) :
    sortKw l = sortKw l' := by
  have hn' : (l'.map (·.1)).Nodup := (hp.map (·.1)).nodup_iff.mp hn
  apply sorted_unique _ _ (sortKw_sorted l hn) (sortKw_sorted l' hn')
  intro x
  rw [mem_sortKw, mem_sortKw]
  exact hp.mem_iff

theorem lookupKw_some_iff (k : Str) : ∀ (l : List (Str × Arg)), (l.map (·.1)).Nodup → ∀ a,
    (lookupKw k l = some a ↔ (k, a) ∈ l)
  | [], _, a => by simp [lookupKw]
  | (k', b) :: rest, hn, a => by
    simp only [List.map_cons, List.nodup_cons] at hn
    simp only [lookupKw, List.mem_cons, Prod.mk.injEq]
    by_cases hk : k' = k
    · subst hk
      simp only [if_true, Option.some.injEq, true_and]
      constructor
      · intro h; exact Or.inl h.symm
      · rintro (h | h)
        · exact h.symm
        · exact absurd (List.mem_map.mpr ⟨(k', a), h, rfl⟩) hn.1
    · simp only [hk, if_false]
      rw [lookupKw_some_iff k rest hn.2 a]
      constructor
      · intro h; exact Or.inr h
      · rintro (h | h)
        · exact absurd h.1.symm hk
        · exact h

theorem lookupKw_perm (k : Str) (l l' : List (Str × Arg)) (hp : l.Perm l') (hn : (l.map (·.1)).Nodup) :
    lookupKw k l = lookupKw k l' := by
  have hn' : (l'.map (·.1)).Nodup := (hp.map (·.1)).nodup_iff.mp hn
  apply Option.ext
  intro a
  rw [lookupKw_some_iff k l hn, lookupKw_some_iff k l' hn']
  exact hp.mem_iff

theorem filterKwargs_nodup (l : List (Str × Arg)) (hn : (l.map (·.1)).Nodup) :
    ((filterKwargs l).map (·.1)).Nodup := by
  unfold filterKwargs
  exact List.Nodup.sublist (List.Sublist.map _ List.filter_sublist) hn

/-! ## rows returned -/

theorem selectRows_eq (fields : List Str) (ws : List Where) (ps : List Value) :
    ∀ (table out : List Cells), selectRows fields ws ps table = some out →
      out = table.filter (fun r =>
        match r.row? fields with
        | some row => decide (sem row ws ps = some .tt)
        | none => false)
  | [], out, h => by simp [selectRows] at h; subst h; rfl
  | r :: rs, out, h => by
    simp only [selectRows] at h
    cases hr : r.row? fields with
    | none => simp [hr] at h
    | some row =>
      simp only [hr] at h
      cases hs : sem row ws ps with
      | none => simp [hs] at h
      | some t =>
        cases ho : selectRows fields ws ps rs with
        | none => simp [hs, ho] at h
        | some out' =>
          simp only [hs, ho, Option.some.injEq] at h
          have ih := selectRows_eq fields ws ps rs out' ho
          rw [List.filter_cons, hr]
          by_cases ht : t = .tt
          · subst ht
            simp only [if_true] at h
            simp [hs, ← h, ← ih]
          · simp only [ht, if_false] at h
            simp [hs, ht, ← h, ← ih]

theorem selectRows_rows (fields : List Str) (ws : List Where) (ps : List Value) :
    ∀ (table out : List Cells), selectRows fields ws ps table = some out →
      ∀ r ∈ table, ∃ row, r.row? fields = some row
  | [], _, _, r, hr => by simp at hr
  | r0 :: rs, out, h, r, hr => by
    simp only [selectRows] at h
    cases hrow : r0.row? fields with
    | none => simp [hrow] at h
    | some row =>
      simp only [hrow] at h
      cases hs : sem row ws ps with
      | none => simp [hs] at h
      | some t =>
        cases ho : selectRows fields ws ps rs with
        | none => simp [hs, ho] at h
        | some out' =>
          rcases List.mem_cons.mp hr with e | hr'
          · subst e; exact ⟨row, hrow⟩
          · exact selectRows_rows fields ws ps rs out' ho r hr'

theorem insertRow_perm (o : OrderSpec) (r : Cells) : ∀ (l out : List Cells), insertRow o r l = some out →
    out.Perm (r :: l)
  | [], out, h => by simp [insertRow] at h; subst h; exact List.Perm.refl _
  | s :: ss, out, h => by
    simp only [insertRow] at h
    cases hb : rowBefore o r s with
    | none => simp [hb] at h
    | some b =>
      cases b with
      | true => simp [hb] at h; subst h; exact List.Perm.refl _
      | false =>
        simp only [hb] at h
        cases hi : insertRow o r ss with
        | none => simp [hi] at h
        | some out' =>
          simp [hi] at h
          subst h
          exact ((insertRow_perm o r ss out' hi).cons s).trans (List.Perm.swap r s ss)

theorem sortRows_perm (o : OrderSpec) : ∀ (l out : List Cells), sortRows o l = some out → out.Perm l
  | [], out, h => by simp [sortRows] at h; subst h; exact List.Perm.refl _
  | r :: rs, out, h => by
    simp only [sortRows] at h
    cases hs : sortRows o rs with
    | none => simp [hs] at h
    | some ss =>
      simp only [hs] at h
      exact (insertRow_perm o r ss out h).trans ((sortRows_perm o rs ss hs).cons r)

/-- every condition the caller wrote is true on the row -/
def satisfied (row : Row) (call : Call) : Bool :=
  decide (andAll (intendeds row (call.args.filterMap id) ++ intendedKw row (filterKwargs call.kwargs)) = some .tt)

theorem inSem_tt_iff (x : Value) (vs : List Value) : inSem x vs = .tt ↔ ∃ v ∈ vs, cmp3 .eq x v = .tt := by
  induction vs with
  | nil => simp [inSem]
  | cons v vs ih =>
    simp only [inSem, List.mem_cons, exists_eq_or_imp, ← ih]
    cases cmp3 .eq x v <;> cases inSem x vs <;> simp [Tri.or]

theorem inSem_ff_iff (x : Value) (vs : List Value) : inSem x vs = .ff ↔ ∀ v ∈ vs, cmp3 .eq x v = .ff := by
  induction vs with
  | nil => simp [inSem]
  | cons v vs ih =>
    simp only [inSem, List.mem_cons, forall_eq_or_imp, ← ih]
    cases cmp3 .eq x v <;> cases inSem x vs <;> simp [Tri.or]

theorem inSem_null_mem (x : Value) (vs : List Value) (h : Value.null ∈ vs) : inSem x vs ≠ .ff := by
  intro hf
  have := (inSem_ff_iff x vs).mp hf _ h
  cases x <;> simp [cmp3, cmpDb, Value.db] at this

/-! ## the semantics consumes exactly the slots of a clause -/

mutual
theorem semW_consumes (row : Row) : ∀ (w : Where) (ps : List Value) (t : Tri) (rest : List Value),
    semW row w ps = some (t, rest) → ∃ used, ps = used ++ rest ∧ used.length = slots w
  | .cmp f c, ps, t, rest, h => by
    cases ps with
    | nil => simp [semW, semCmp] at h
    | cons p ps' => simp [semW, semCmp] at h; exact ⟨[p], by simp [h.2], by simp [slots]⟩
  | .inList f neg n, ps, t, rest, h => by
    simp only [semW, semIn] at h
    by_cases hl : ps.length < n
    · simp [hl] at h
    · simp only [hl, if_false, Option.some.injEq, Prod.mk.injEq] at h
      exact ⟨ps.take n, by rw [← h.2, List.take_append_drop], by simp [slots]; omega⟩
  | .isNull f neg, ps, t, rest, h => by
    simp [semW, semNull] at h; exact ⟨[], by simp [h.2], by simp [slots]⟩
  | .like f neg, ps, t, rest, h => by
    cases ps with
    | nil => simp [semW, semLike] at h
    | cons p ps' => simp [semW, semLike] at h; exact ⟨[p], by simp [h.2], by simp [slots]⟩
  | .const b, ps, t, rest, h => by simp [semW] at h; exact ⟨[], by simp [h.2], by simp [slots]⟩
  | .false, ps, t, rest, h => by simp [semW] at h; exact ⟨[], by simp [h.2], by simp [slots]⟩
  | .raw _, ps, t, rest, h => by simp [semW] at h; exact ⟨[], by simp [h.2], by simp [slots]⟩
  | .or ws, ps, t, rest, h => by
    simp only [semW] at h
    simpa [slots] using semOr_consumes row ws ps t rest h
theorem semOr_consumes (row : Row) : ∀ (ws : List Where) (ps : List Value) (t : Tri) (rest : List Value),
    semOr row ws ps = some (t, rest) → ∃ used, ps = used ++ rest ∧ used.length = slotsL ws
  | [], ps, t, rest, h => by simp [semOr] at h; exact ⟨[], by simp [h.2], by simp [slotsL]⟩
  | w :: ws, ps, t, rest, h => by
    simp only [semOr] at h
    cases h1 : semW row w ps with
    | none => simp [h1] at h
    | some r1 =>
      obtain ⟨t1, ps1⟩ := r1
      simp only [h1] at h
      cases h2 : semOr row ws ps1 with
      | none => simp [h2] at h
      | some r2 =>
        obtain ⟨t2, ps2⟩ := r2
        simp only [h2, Option.some.injEq, Prod.mk.injEq] at h
        obtain ⟨u1, e1, l1⟩ := semW_consumes row w ps t1 ps1 h1
        obtain ⟨u2, e2, l2⟩ := semOr_consumes row ws ps1 t2 ps2 h2
        refine ⟨u1 ++ u2, ?_, by simp [slotsL, l1, l2]⟩
        rw [e1, e2, ← h.2, List.append_assoc]
end

theorem semAnd_consumes (row : Row) : ∀ (ws : List Where) (ps : List Value) (t : Tri) (rest : List Value),
    semAnd row ws ps = some (t, rest) → ∃ used, ps = used ++ rest ∧ used.length = slotsL ws
  | [], ps, t, rest, h => by simp [semAnd] at h; exact ⟨[], by simp [h.2], by simp [slotsL]⟩
  | w :: ws, ps, t, rest, h => by
    simp only [semAnd] at h
    cases h1 : semW row w ps with
    | none => simp [h1] at h
    | some r1 =>
      obtain ⟨t1, ps1⟩ := r1
      simp only [h1] at h
      cases h2 : semAnd row ws ps1 with
      | none => simp [h2] at h
      | some r2 =>
        obtain ⟨t2, ps2⟩ := r2
        simp only [h2, Option.some.injEq, Prod.mk.injEq] at h
        obtain ⟨u1, e1, l1⟩ := semW_consumes row w ps t1 ps1 h1
        obtain ⟨u2, e2, l2⟩ := semAnd_consumes row ws ps1 t2 ps2 h2
        refine ⟨u1 ++ u2, ?_, by simp [slotsL, l1, l2]⟩
        rw [e1, e2, ← h.2, List.append_assoc]

end SqlFilter
