import AkVerif.Lemmas.GhistInBump
import AkVerif.Lemmas.GhistBranch
import AkVerif.Lemmas.GhistOrder
/-!
C07: the bumps recorded in a build are the ones `_mk_bumps_info` computes from the commit's pins and the bumps of
the build's parent builds (`BumpsOk`); what `mkBump` puts into `from_rbuilds` / `to_rbuild`; what the registration
loop registers.
-/
namespace Ghist
open Ak

section
variable {π β : Type} {h : Hist π}

/-- parent builds resolved in `self.brcommits` -/
inductive Resolved (builds : List (RB β)) : List Nat → List (RB β) → Prop
  | nil : Resolved builds [] []
  | cons {i : Nat} {pb : RB β} {is : List Nat} {pbs : List (RB β)} :
      pb ∈ builds → pb.iid = i → Resolved builds is pbs → Resolved builds (i :: is) (pb :: pbs)

theorem buildsOf_resolved {rp : Repo β} : ∀ {is : List Nat} {bs : List (RB β)}, buildsOf rp is = some bs →
    Resolved rp.builds is bs := by
  intro is
  induction is with
  | nil => intro bs hb; simp [buildsOf] at hb; subst hb; exact .nil
  | cons i is ih =>
    intro bs hb
    simp only [buildsOf] at hb
    split at hb
    · rename_i b r hb1 hb2
      cases hb
      obtain ⟨h1, h2⟩ := build?_some hb1
      exact .cons h1 h2 (ih hb2)
    · cases hb

theorem Resolved.mono {bs bs' : List (RB β)} (hsub : ∀ b ∈ bs, b ∈ bs') {is : List Nat} {pbs : List (RB β)}
    (hr : Resolved bs is pbs) : Resolved bs' is pbs := by
  induction hr with
  | nil => exact .nil
  | cons h1 h2 _ ih => exact .cons (hsub _ h1) h2 ih

/-- every build carries the bumps computed from the pins of its commit and the bumps of its parent builds -/
def BumpsOk (h : Hist π) (pl : Plug π β) (L : List Nat → Prop) (rcs : List RC) (builds : List (RB β)) : Prop :=
  ∀ b ∈ builds, ∃ rc cm pbs, rcs[b.iid]? = some rc ∧ h.commits[rc.commit]? = some cm ∧
    Resolved builds b.parents pbs ∧ ∃ rel, L rel ∧ pl.mkBumps rel cm.pins (pbs.map (·.bumps)) = .ok b.bumps

theorem BumpsOk.mono {pl : Plug π β} {L : List Nat → Prop} {rcs rcs' : List RC} {bs bs' : List (RB β)}
    (hpre : ∃ ext, rcs' = rcs ++ ext) (hsub : ∀ b ∈ bs, b ∈ bs') (hnew : ∀ b ∈ bs', b ∉ bs →
      ∃ rc cm pbs, rcs'[b.iid]? = some rc ∧ h.commits[rc.commit]? = some cm ∧
        Resolved bs' b.parents pbs ∧ ∃ rel, L rel ∧ pl.mkBumps rel cm.pins (pbs.map (·.bumps)) = .ok b.bumps)
    (ok : BumpsOk h pl L rcs bs) : BumpsOk h pl L rcs' bs' := by
  classical
  intro b hb
  by_cases hold : b ∈ bs
  · obtain ⟨rc, cm, pbs, h1, h2, h3, h4⟩ := ok b hold
    obtain ⟨ext, rfl⟩ := hpre
    exact ⟨rc, cm, pbs, by rw [List.getElem?_append_left (List.getElem?_eq_some_iff.mp h1).1]; exact h1, h2,
      h3.mono hsub, h4⟩
  · exact hnew b hb hold

theorem finish_bumpsOk {pl : Plug π β} {L : List Nat → Prop} {head : Nat} {st st' : St β} {c : Nat} {cm : Commit π}
    {fr : List Nat} (hcm : h.commits[c]? = some cm) (ok : BumpsOk h pl L st.rp.rcs st.rp.builds)
    {rel : List Nat} (hL : L rel) (hf : finish pl head rel st c cm fr = .ok st') :
    BumpsOk h pl L st'.rp.rcs st'.rp.builds := by
  have hpre := finish_prefix hf
  cases finish_cases hf with
  | irrelevant => exact ok
  | plain =>
    simp only [Repo.addPlain]; split <;> exact ok
  | plainMatch =>
    exact ok.mono ⟨[_], rfl⟩ (fun b hb => hb) (fun b hb hn => absurd hb hn)
  | skip bpar new pb pbs bumps =>
    simp only [St.skipBuild, Repo.addPlain]; split <;> exact ok
  | build bpar new pb pbs bumps bn na _ _ hpbs hmk =>
    refine ok.mono ⟨[_], rfl⟩ (fun b hb => by simp only [St.addBuild, Repo.addRC]; exact List.mem_append_left _ hb) ?_
    intro b hb hn
    simp only [St.addBuild, Repo.addRC] at hb
    rcases List.mem_append.mp hb with hb | hb
    · exact absurd hb hn
    · simp at hb; subst hb
      refine ⟨{ commit := c, parents := fr, explicit := cm.isMatch, bns := buildNums cm (c == head), time := cm.time }, cm, pbs,
        by simp [St.addBuild, Repo.addRC], hcm, ?_, rel, hL, hmk⟩
      exact (buildsOf_resolved hpbs).mono (fun b hb => by
        simp only [St.addBuild, Repo.addRC]; exact List.mem_append_left _ hb)

theorem visit_bumpsOk (hT : h.Topo) {pl : Plug π β} {L : List Nat → Prop} (hR : RelInv h pl L) {head : Nat}
    {fuel : Nat} {s s' : St β} {acc acc' : List Nat} {c : Nat} (ok : BumpsOk h pl L s.rp.rcs s.rp.builds)
    {rel : List Nat} (hL : L rel) (hv : visit h pl head fuel rel (s, acc) c = .ok (s', acc')) :
    BumpsOk h pl L s'.rp.rcs s'.rp.builds := by
  have H : VisitHypsL h pl head (fun s => BumpsOk h pl L s.rp.rcs s.rp.builds) (fun _ _ _ => True)
      (fun _ _ => True) (fun _ => True) L :=
    { Rrefl := fun _ => trivial, Rtrans := fun _ _ => trivial, Qmono := fun _ _ _ _ => trivial
      Qnil := fun _ _ => trivial, Qcls := fun _ _ _ _ => trivial, Vstep := fun _ _ _ => trivial
      Lstep := fun hl _ hcm => hR.step _ _ _ hl hcm
      Hfin := fun hl hP _ _ hcm _ hf => ⟨finish_bumpsOk hcm hP hl hf, trivial⟩ }
  exact (visit_indL hT H fuel s [] acc c s' acc' hL ok trivial trivial hv).1

/-- the builds of the final graph carry the computed bumps, and the builds shown in the branches are among them -/
theorem rgraph_bumpsOk (hT : h.Topo) {pl : Plug π β} {L : List Nat → Prop} (hR : RelInv h pl L) {g : Graph β}
    {mt : Option Nat} (hg : rgraphNW h pl mt = .ok g) :
    BumpsOk h pl L g.rcs g.builds ∧
    ∀ rb ∈ g.all, ∀ b ∈ rb.rbuilds, b.rcommit.isSome = true → b ∈ g.builds := by
  unfold rgraphNW at hg
  split at hg
  · cases hg
  · rename_i rp rbs hr
    cases hg
    have hstep : ∀ (pre : List Branch) (rp : Repo β) (b : Branch) (rp' : Repo β) (rb : RBranch β),
        BumpsOk h pl L rp.rcs rp.builds → readBranch h pl pre.isEmpty rp b = .ok (rp', rb) →
        BumpsOk h pl L rp'.rcs rp'.builds ∧
          (∀ b' ∈ rb.rbuilds, b'.rcommit.isSome = true → b' ∈ rp'.builds) ∧
          (∀ b' ∈ rp.builds, b' ∈ rp'.builds) := by
      intro pre rp b rp' rb ok hrb
      obtain ⟨hc0, st, rheads, hhc0, hv, he⟩ := readBranch_inv hrb
      have ok1 := visit_bumpsOk hT hR ok (hR.init _ _ hhc0) hv
      have hs := endBranch_spec he
      obtain ⟨seen, curBuilds, _, hcb, hrbuilds, _⟩ := hs.seen
      refine ⟨by rw [hs.rcs, hs.builds]; exact ok1, ?_, ?_⟩
      · intro b' hb' hsome
        rw [hs.builds]
        obtain ⟨_, hmem⟩ := buildsOf_spec hcb
        rcases hrbuilds with h1 | ⟨fake, h1, h2, _⟩
        · rw [h1] at hb'; exact hmem b' hb'
        · rw [h1] at hb'
          rcases List.mem_append.mp hb' with h3 | h3
          · exact hmem b' h3
          · simp at h3; subst h3; rw [h2] at hsome; cases hsome
      · -- builds are only appended during the DFS
        intro b' hb'
        rw [hs.builds]
        have H : VisitHyps h pl b.head (fun _ => True) (fun _ _ _ => True)
            (fun s s' => ∀ x ∈ s.rp.builds, x ∈ s'.rp.builds) (fun _ => True) :=
          { Rrefl := fun _ _ hx => hx, Rtrans := fun h1 h2 x hx => h2 x (h1 x hx)
            Qmono := fun _ _ _ _ => trivial, Qnil := fun _ _ => trivial, Qcls := fun _ _ _ _ => trivial
            Vstep := fun _ _ _ => trivial
            Hfin := by
              intro rel s c cm fr s' _ _ _ _ _ hf
              refine ⟨trivial, ?_⟩
              cases finish_cases hf with
              | irrelevant => exact fun x hx => hx
              | plain => simp only [Repo.addPlain]; split <;> exact fun x hx => hx
              | plainMatch => exact fun x hx => hx
              | skip bpar new pb pbs bumps => simp only [St.skipBuild, Repo.addPlain]; split <;> exact fun x hx => hx
              | build bpar new pb pbs bumps bn na =>
                intro x hx; simp only [St.addBuild, Repo.addRC]; exact List.mem_append_left _ hx }
        exact (visit_ind hT H _ _ [] [] _ _ _ trivial trivial trivial hv).2.2 b' hb'
    obtain ⟨hI, hK, hlen, hF⟩ := readBranches_ind2 (fun _ rp => BumpsOk h pl L rp.rcs rp.builds)
      (fun _ _ rp' rb => ∀ b' ∈ rb.rbuilds, b'.rcommit.isSome = true → b' ∈ rp'.builds)
      (fun rp rp' => ∀ b' ∈ rp.builds, b' ∈ rp'.builds) (fun _ _ hx => hx)
      (fun h1 h2 x hx => h2 x (h1 x hx)) hstep (branchesOf h) [] Repo.empty rp rbs
      (by intro b hb; simp [Repo.empty] at hb) hr
    refine ⟨hI, ?_⟩
    intro rb hrb b hb hsome
    obtain ⟨j, hj⟩ := List.mem_iff_getElem?.mp hrb
    have hjlt : j < (branchesOf h).length := by
      rw [← hlen]; exact (List.getElem?_eq_some_iff.mp hj).1
    obtain ⟨rpj, h1, h2⟩ := hF j _ rb (List.getElem?_eq_getElem hjlt) hj
    exact h2 b (h1 b hb hsome)

end

/-! ### `_mk_bumps_info` -/

theorem lookup_some_mem {κ ν} [BEq κ] [LawfulBEq κ] : ∀ {l : List (κ × ν)} {k : κ} {v : ν},
    l.lookup k = some v → (k, v) ∈ l := by
  intro l
  induction l with
  | nil => intro k v h; simp at h
  | cons a l ih =>
    intro k v h
    obtain ⟨k', v'⟩ := a
    rw [List.lookup_cons] at h
    by_cases hk : k = k'
    · subst hk; simp at h; subst h; simp
    · have : (k == k') = false := by simpa using hk
      rw [this] at h
      exact List.mem_cons_of_mem _ (ih h)

/-- `from_rbuilds` of a new bump: the component builds the parent builds already contain -/
def fromSet (comp : Nat) (parents : List Bumps) : List Nat :=
  parents.foldl (fun acc pb =>
    match pb.lookup comp with
    | none => acc
    | some b => match b.toRb with
      | some x => addNew acc [x]
      | none => addNew acc b.fromRbs) []

theorem mem_fromSet_aux (comp : Nat) : ∀ (parents : List Bumps) (acc : List Nat) (x : Nat),
    x ∈ parents.foldl (fun acc pb =>
      match pb.lookup comp with
      | none => acc
      | some b => match b.toRb with
        | some x => addNew acc [x]
        | none => addNew acc b.fromRbs) acc ↔
    x ∈ acc ∨ ∃ pb ∈ parents, ∃ b0, pb.lookup comp = some b0 ∧
      (b0.toRb = some x ∨ (b0.toRb = none ∧ x ∈ b0.fromRbs)) := by
  intro parents
  induction parents with
  | nil => intro acc x; simp
  | cons pb parents ih =>
    intro acc x
    rw [List.foldl_cons, ih]
    cases hl : pb.lookup comp with
    | none =>
      simp only [List.mem_cons, exists_eq_or_imp, hl]
      constructor
      · rintro (h1 | h1)
        · exact Or.inl h1
        · exact Or.inr (Or.inr h1)
      · rintro (h1 | h1 | h1)
        · exact Or.inl h1
        · obtain ⟨b0, hb0, _⟩ := h1; cases hb0
        · exact Or.inr h1
    | some b =>
      cases ht : b.toRb with
      | some y =>
        simp only [hl, ht, mem_addNew, List.mem_cons, List.not_mem_nil, or_false, exists_eq_or_imp]
        constructor
        · rintro ((h1 | h1) | h1)
          · exact Or.inl h1
          · subst h1; exact Or.inr (Or.inl ⟨b, rfl, Or.inl ht⟩)
          · exact Or.inr (Or.inr h1)
        · rintro (h1 | ⟨b0, hb0, h1⟩ | h1)
          · exact Or.inl (Or.inl h1)
          · cases hb0
            rcases h1 with h1 | ⟨h1, _⟩
            · rw [ht] at h1; cases h1; exact Or.inl (Or.inr rfl)
            · rw [ht] at h1; cases h1
          · exact Or.inr h1
      | none =>
        simp only [hl, ht, mem_addNew, List.mem_cons, exists_eq_or_imp]
        constructor
        · rintro ((h1 | h1) | h1)
          · exact Or.inl h1
          · exact Or.inr (Or.inl ⟨b, rfl, Or.inr ⟨ht, h1⟩⟩)
          · exact Or.inr (Or.inr h1)
        · rintro (h1 | ⟨b0, hb0, h1⟩ | h1)
          · exact Or.inl (Or.inl h1)
          · cases hb0
            rcases h1 with h1 | ⟨_, h1⟩
            · rw [ht] at h1; cases h1
            · exact Or.inl (Or.inr h1)
          · exact Or.inr h1

theorem mem_fromSet (comp : Nat) (parents : List Bumps) (x : Nat) :
    x ∈ fromSet comp parents ↔ ∃ pb ∈ parents, ∃ b0, pb.lookup comp = some b0 ∧
      (b0.toRb = some x ∨ (b0.toRb = none ∧ x ∈ b0.fromRbs)) := by
  unfold fromSet
  rw [mem_fromSet_aux]; simp

/-- what `_mk_bumps_info` records for one component: `from_rbuilds` are the builds the parent builds contain,
`to_rbuild` is the `bn_map` entry of the pinned version — or, for a version unknown to the component, the newest
build the parents contain -/
theorem mkBump_spec {g : Graph Bumps} {comp : Nat} {v : Ver} {parents : List Bumps} {bump : Bump}
    (hb : mkBump g comp v parents = .ok bump) :
    bump.fromRbs = fromSet comp parents ∧ bump.toBn = ⟨v.1, v.2.1, v.2.2, v.2.2⟩ ∧
    ((∃ e, g.bnMapAll.lookup bump.toBn = some e ∧ bump.toRb = some e.2) ∨
     (g.bnMapAll.lookup bump.toBn = none ∧
       ((bump.fromRbs = [] ∧ bump.toRb = none) ∨ (∃ m, maxOf bump.fromRbs = some m ∧ bump.toRb = some m)))) := by
  unfold mkBump at hb
  simp only at hb
  split at hb
  · rename_i x hx
    cases hb
    refine ⟨rfl, rfl, Or.inl ?_⟩
    cases hl : g.bnMapAll.lookup ⟨v.1, v.2.1, v.2.2, v.2.2⟩ with
    | none => rw [hl] at hx; cases hx
    | some e => rw [hl] at hx; simp at hx; exact ⟨e, rfl, by simp [hx]⟩
  · rename_i hx
    have hnone : g.bnMapAll.lookup ⟨v.1, v.2.1, v.2.2, v.2.2⟩ = none := by
      cases hl : g.bnMapAll.lookup ⟨v.1, v.2.1, v.2.2, v.2.2⟩ with
      | none => rfl
      | some e => rw [hl] at hx; cases hx
    split at hb
    · rename_i he
      cases hb
      exact ⟨rfl, rfl, Or.inr ⟨hnone, Or.inl ⟨by simpa using he, rfl⟩⟩⟩
    · split at hb
      · cases hb
      · rename_i m hm
        cases hb
        refine ⟨rfl, rfl, Or.inr ⟨hnone, Or.inr ⟨m, ?_, rfl⟩⟩⟩
        unfold maxOfD at hm
        split at hm
        · rename_i m' hm'; cases hm; exact hm'
        · cases hm

theorem mkBumps_mem : ∀ {cvm : List (Nat × Graph Bumps)} {pins : Pins} {parents : List Bumps} {bumps : Bumps},
    mkBumps cvm pins parents = .ok bumps → ∀ comp bump, (comp, bump) ∈ bumps →
    ∃ g v, (comp, g) ∈ cvm ∧ pins.lookup comp = some v ∧ mkBump g comp v parents = .ok bump := by
  intro cvm
  induction cvm with
  | nil => intro pins parents bumps h comp bump hm; simp [mkBumps] at h; subst h; cases hm
  | cons cg cvm ih =>
    intro pins parents bumps h comp bump hm
    obtain ⟨c0, g0⟩ := cg
    simp only [mkBumps] at h
    split at h
    · cases h
    · rename_i rest hrest
      split at h
      · cases h
        obtain ⟨g, v, h1, h2, h3⟩ := ih hrest comp bump hm
        exact ⟨g, v, List.mem_cons_of_mem _ h1, h2, h3⟩
      · rename_i v hv
        split at h
        · cases h
        · rename_i b hb
          cases h
          rcases List.mem_cons.mp hm with hm | hm
          · cases hm
            exact ⟨g0, v, by simp, hv, hb⟩
          · obtain ⟨g, v', h1, h2, h3⟩ := ih hrest comp bump hm
            exact ⟨g, v', List.mem_cons_of_mem _ h1, h2, h3⟩

theorem mkBumps_complete : ∀ {cvm : List (Nat × Graph Bumps)} {pins : Pins} {parents : List Bumps} {bumps : Bumps},
    mkBumps cvm pins parents = .ok bumps → ∀ comp g v, (comp, g) ∈ cvm → pins.lookup comp = some v →
    ∃ g' bump, (comp, g') ∈ cvm ∧ (comp, bump) ∈ bumps ∧ mkBump g' comp v parents = .ok bump := by
  intro cvm
  induction cvm with
  | nil => intro pins parents bumps _ comp g v hm; cases hm
  | cons cg cvm ih =>
    intro pins parents bumps h comp g v hm hv
    obtain ⟨c0, g0⟩ := cg
    simp only [mkBumps] at h
    split at h
    · cases h
    · rename_i rest hrest
      rcases List.mem_cons.mp hm with hm | hm
      · cases hm
        rw [hv] at h
        simp only at h
        split at h
        · cases h
        · rename_i b hb
          cases h
          exact ⟨g, b, by simp, by simp, hb⟩
      · obtain ⟨g', bump, h1, h2, h3⟩ := ih hrest comp g v hm hv
        split at h
        · cases h; exact ⟨g', bump, List.mem_cons_of_mem _ h1, h2, h3⟩
        · split at h
          · cases h
          · cases h; exact ⟨g', bump, List.mem_cons_of_mem _ h1, List.mem_cons_of_mem _ h2, h3⟩

/-- if every entry of a dictionary under the key `k` has the same value, `lookup` returns it -/
theorem lookup_of_unique {ν} : ∀ {l : List (Nat × ν)} {k : Nat} {v : ν}, (k, v) ∈ l →
    (∀ v', (k, v') ∈ l → v' = v) → l.lookup k = some v := by
  intro l
  induction l with
  | nil => intro k v hm; cases hm
  | cons a l ih =>
    intro k v hm hu
    obtain ⟨k', v'⟩ := a
    by_cases hk : k = k'
    · subst hk
      rw [lookup_cons_self]
      rw [hu v' (by simp)]
    · rw [lookup_cons_ne _ _ _ _ hk]
      rcases List.mem_cons.mp hm with h1 | h1
      · cases h1; exact absurd rfl hk
      · exact ih h1 (fun v'' hv'' => hu v'' (List.mem_cons_of_mem _ hv''))

/-! ### the registration loop -/

theorem concatM_mem {α} : ∀ {l : List (Except Err (List α))} {out : List α}, concatM l = .ok out →
    ∀ x, x ∈ out ↔ ∃ e ∈ l, ∃ xs, e = .ok xs ∧ x ∈ xs := by
  intro l
  induction l with
  | nil => intro out h x; simp [concatM] at h; subst h; simp
  | cons e l ih =>
    intro out h x
    simp only [concatM] at h
    cases e with
    | error er => simp at h
    | ok a =>
      cases hb : concatM l with
      | error er => rw [hb] at h; simp at h
      | ok b =>
        rw [hb] at h
        simp at h; subst h
        rw [List.mem_append, ih hb x]
        constructor
        · rintro (h1 | ⟨e', he', xs, h2, h3⟩)
          · exact ⟨.ok a, by simp, a, rfl, h1⟩
          · exact ⟨e', List.mem_cons_of_mem _ he', xs, h2, h3⟩
        · rintro ⟨e', he', xs, h2, h3⟩
          rcases List.mem_cons.mp he' with h4 | h4
          · subst h4; cases h2; exact Or.inl h3
          · exact Or.inr ⟨e', h4, xs, h2, h3⟩

/-- what one parent build registers in the builds of one component: the component builds that the version pinned
by the build contains (`to_rbuild`) and none of the versions of the parent builds does (`from_rbuilds`) -/
theorem regsOfBuild_mem {repo : Nat} {branch : List Char} {comp : Nat} {g : Graph Bumps} {b : RB Bumps}
    {l : List Reg} (hl : regsOfBuild repo branch comp g b = .ok l) (x : Nat) :
    (⟨comp, x, repo, branch, b.bn⟩ : Reg) ∈ l ↔
      b.bn ≠ fakeNM ∧ ∃ bump t, b.bumps.lookup comp = some bump ∧ bump.toRb = some t ∧
        RbAnc g x t ∧ ∀ f ∈ bump.fromRbs, ¬ RbAnc g x f := by
  unfold regsOfBuild at hl
  split at hl
  · rename_i hnm
    cases hl
    simp [hnm]
  · rename_i hnm
    split at hl
    · rename_i hlk
      cases hl
      simp [hlk]
    · rename_i bump hlk
      split at hl
      · cases hl
      · rename_i xs hxs
        cases hl
        unfold rbuildsInBump at hxs
        split at hxs
        · rename_i ht
          cases hxs
          simp [hnm, hlk, ht]
        · rename_i t ht
          split at hxs
          · cases hxs
          · rename_i known hknown
            have hmem := inBump_mem hxs x
            have hk := known_mem hknown
            simp only [List.mem_map, Reg.mk.injEq, true_and, and_true, exists_eq_right]
            rw [hmem, rbAvoid_known hk x t]
            constructor
            · intro hav
              exact ⟨hnm, bump, t, hlk, ht, hav⟩
            · rintro ⟨_, bump', t', hlk', ht', hav⟩
              rw [hlk] at hlk'; cases hlk'
              rw [ht] at ht'; cases ht'
              exact hav

theorem mem_registrations {repo : Nat} {comps : List (Nat × Graph Bumps)} {g : Graph Bumps} {regs : List Reg}
    (hr : registrations repo comps g = .ok regs) (r : Reg) :
    r ∈ regs ↔ ∃ rb ∈ g.branches, ∃ cg ∈ comps, ∃ b ∈ rb.rbuilds, ∃ l,
      regsOfBuild repo rb.name cg.1 cg.2 b = .ok l ∧ r ∈ l := by
  unfold registrations at hr
  rw [concatM_mem hr r]
  simp only [List.mem_flatMap, List.mem_map]
  constructor
  · rintro ⟨e, ⟨rb, hrb, cg, hcg, b, hb, rfl⟩, xs, h1, h2⟩
    exact ⟨rb, hrb, cg, hcg, b, (mem_sortBy _ _ _).mp hb, xs, h1, h2⟩
  · rintro ⟨rb, hrb, cg, hcg, b, hb, l, h1, h2⟩
    exact ⟨_, ⟨rb, hrb, cg, hcg, b, (mem_sortBy _ _ _).mpr hb, rfl⟩, l, h1, h2⟩

end Ghist
