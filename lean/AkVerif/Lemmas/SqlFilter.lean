import AkVerif.Model.SqlFilter
/-!
Helper lemmas for C15 (`Model/SqlFilter.lean`).

1. three-valued logic, strict folds (`optFold`) and their order-independent forms (`orAll`, `andAll`)
2. `semFold`: `semOr` / `semAnd` as one fold over `semW`
3. binding (`bindAll`) and `toWheres` over `++`
4. the meaning of a constructed leaf (`leaf_sem`) and, by mutual induction over the nested
   condition tree, of a constructed condition (`cond_sem`, `conds_sem`, `kw_sem`)
-/
namespace SqlFilter
open Ak

/-! ## 1. three-valued logic -/

theorem Tri.or_assoc (a b c : Tri) : (a.or b).or c = a.or (b.or c) := by
  cases a <;> cases b <;> cases c <;> rfl

theorem Tri.and_assoc (a b c : Tri) : (a.and b).and c = a.and (b.and c) := by
  cases a <;> cases b <;> cases c <;> rfl

theorem Tri.ff_or (a : Tri) : Tri.ff.or a = a := by cases a <;> rfl
theorem Tri.or_ff (a : Tri) : a.or .ff = a := by cases a <;> rfl
theorem Tri.tt_and (a : Tri) : Tri.tt.and a = a := by cases a <;> rfl
theorem Tri.and_tt (a : Tri) : a.and .tt = a := by cases a <;> rfl

/-- strict sequential fold of optional truth values -/
def optFold (g : Tri → Tri → Tri) (e : Tri) : List (Option Tri) → Option Tri
  | [] => some e
  | o :: os =>
    match o, optFold g e os with
    | some t, some u => some (g t u)
    | _, _ => none

/-- strict three-valued AND of a list, order-independent form -/
def andAll (l : List (Option Tri)) : Option Tri :=
  if none ∈ l then none
  else if some Tri.ff ∈ l then some .ff
  else if some Tri.unk ∈ l then some .unk
  else some .tt

theorem optFold_or (l : List (Option Tri)) : optFold Tri.or .ff l = orAll l := by
  induction l with
  | nil => simp [optFold, orAll]
  | cons o os ih =>
    simp only [optFold, ih]
    cases o with
    | none => simp [orAll]
    | some t =>
      unfold orAll
      by_cases h1 : none ∈ os
      · simp [h1]
      · by_cases h2 : some Tri.tt ∈ os
        · cases t <;> simp [h1, h2, Tri.or]
        · by_cases h3 : some Tri.unk ∈ os
          · cases t <;> simp [h1, h2, h3, Tri.or]
          · cases t <;> simp [h1, h2, h3, Tri.or]

theorem optFold_and (l : List (Option Tri)) : optFold Tri.and .tt l = andAll l := by
  induction l with
  | nil => simp [optFold, andAll]
  | cons o os ih =>
    simp only [optFold, ih]
    cases o with
    | none => simp [andAll]
    | some t =>
      unfold andAll
      by_cases h1 : none ∈ os
      · simp [h1]
      · by_cases h2 : some Tri.ff ∈ os
        · cases t <;> simp [h1, h2, Tri.and]
        · by_cases h3 : some Tri.unk ∈ os
          · cases t <;> simp [h1, h2, h3, Tri.and]
          · cases t <;> simp [h1, h2, h3, Tri.and]

theorem orAll_congr {l l' : List (Option Tri)} (h : ∀ x, x ∈ l ↔ x ∈ l') : orAll l = orAll l' := by
  unfold orAll
  simp only [h]

theorem andAll_congr {l l' : List (Option Tri)} (h : ∀ x, x ∈ l ↔ x ∈ l') : andAll l = andAll l' := by
  unfold andAll
  simp only [h]

theorem andAll_eq_tt (l : List (Option Tri)) : andAll l = some .tt ↔ ∀ x ∈ l, x = some Tri.tt := by
  unfold andAll
  constructor
  · intro h x hx
    by_cases h1 : none ∈ l
    · simp [h1] at h
    · by_cases h2 : some Tri.ff ∈ l
      · simp [h1, h2] at h
      · by_cases h3 : some Tri.unk ∈ l
        · simp [h1, h2, h3] at h
        · cases x with
          | none => exact absurd hx h1
          | some t =>
            cases t with
            | tt => rfl
            | ff => exact absurd hx h2
            | unk => exact absurd hx h3
  · intro h
    have h1 : none ∉ l := fun hx => by have := h _ hx; simp at this
    have h2 : some Tri.ff ∉ l := fun hx => by have := h _ hx; simp at this
    have h3 : some Tri.unk ∉ l := fun hx => by have := h _ hx; simp at this
    simp [h1, h2, h3]

theorem optFold_append (g : Tri → Tri → Tri) (e : Tri) (hassoc : ∀ a b c, g (g a b) c = g a (g b c))
    (hid : ∀ a, g e a = a) (l1 l2 : List (Option Tri)) :
    optFold g e (l1 ++ l2) =
      match optFold g e l1, optFold g e l2 with
      | some t, some u => some (g t u)
      | _, _ => none := by
  induction l1 with
  | nil =>
    simp only [List.nil_append, optFold]
    cases optFold g e l2 <;> simp [hid]
  | cons o os ih =>
    simp only [List.cons_append, optFold, ih]
    cases o <;> cases optFold g e os <;> cases optFold g e l2 <;> simp [hassoc]

/-! ## 2. `semOr` and `semAnd` are folds over `semW` -/

def semFold (g : Tri → Tri → Tri) (e : Tri) (row : Row) : List Where → List Value → Option (Tri × List Value)
  | [], ps => some (e, ps)
  | w :: ws, ps =>
    match semW row w ps with
    | some (t, ps1) =>
      match semFold g e row ws ps1 with
      | some (u, ps2) => some (g t u, ps2)
      | none => none
    | none => none

theorem semOr_eq (row : Row) (ws : List Where) (ps : List Value) :
    semOr row ws ps = semFold Tri.or .ff row ws ps := by
  induction ws generalizing ps with
  | nil => simp [semOr, semFold]
  | cons w ws ih =>
    simp only [semOr, semFold]
    cases semW row w ps with
    | none => rfl
    | some r =>
      simp only [ih]
      cases semFold _ _ row ws r.2 <;> rfl

theorem semAnd_eq (row : Row) (ws : List Where) (ps : List Value) :
    semAnd row ws ps = semFold Tri.and .tt row ws ps := by
  induction ws generalizing ps with
  | nil => simp [semAnd, semFold]
  | cons w ws ih =>
    simp only [semAnd, semFold]
    cases semW row w ps with
    | none => rfl
    | some r =>
      simp only [ih]
      cases semFold _ _ row ws r.2 <;> rfl

/-- `Sem row w vs o`: with the parameters `vs` in front, the clause `w` has the value `o` and
leaves the rest of the parameter list untouched -/
def Sem (row : Row) (w : Where) (vs : List Value) (o : Option Tri) : Prop :=
  ∀ rest, semW row w (vs ++ rest) = o.map (·, rest)

def SemL (g : Tri → Tri → Tri) (e : Tri) (row : Row) (ws : List Where) (vs : List Value)
    (os : List (Option Tri)) : Prop :=
  ∀ rest, semFold g e row ws (vs ++ rest) = (optFold g e os).map (·, rest)

theorem SemL.nil (g e row) : SemL g e row [] [] [] := by
  intro rest; simp [semFold, optFold]

theorem SemL.cons {g e row w ws vs1 vs2 o os} (h1 : Sem row w vs1 o) (h2 : SemL g e row ws vs2 os) :
    SemL g e row (w :: ws) (vs1 ++ vs2) (o :: os) := by
  intro rest
  simp only [semFold, optFold, List.append_assoc, h1 (vs2 ++ rest)]
  cases o with
  | none => simp
  | some t =>
    simp only [Option.map_some, h2 rest]
    cases optFold g e os <;> simp

theorem semFold_append (g : Tri → Tri → Tri) (e : Tri) (hassoc : ∀ a b c, g (g a b) c = g a (g b c))
    (hid : ∀ a, g e a = a) (row : Row) (ws1 ws2 : List Where) (ps : List Value) :
    semFold g e row (ws1 ++ ws2) ps =
      match semFold g e row ws1 ps with
      | some (t, ps1) =>
        match semFold g e row ws2 ps1 with
        | some (u, ps2) => some (g t u, ps2)
        | none => none
      | none => none := by
  induction ws1 generalizing ps with
  | nil =>
    simp only [List.nil_append, semFold]
    cases semFold g e row ws2 ps with
    | none => rfl
    | some r => simp [hid]
  | cons w ws ih =>
    simp only [List.cons_append, semFold]
    cases semW row w ps with
    | none => rfl
    | some r =>
      simp only [ih]
      cases semFold g e row ws r.2 with
      | none => rfl
      | some r1 =>
        simp only []
        cases semFold g e row ws2 r1.2 with
        | none => rfl
        | some r2 => simp [hassoc]

theorem SemL.append {g e row ws1 ws2 vs1 vs2 os1 os2}
    (hassoc : ∀ a b c, g (g a b) c = g a (g b c)) (hid : ∀ a, g e a = a)
    (h1 : SemL g e row ws1 vs1 os1) (h2 : SemL g e row ws2 vs2 os2) :
    SemL g e row (ws1 ++ ws2) (vs1 ++ vs2) (os1 ++ os2) := by
  intro rest
  rw [optFold_append g e hassoc hid, semFold_append g e hassoc hid, List.append_assoc, h1 (vs2 ++ rest)]
  cases optFold g e os1 with
  | none => simp
  | some t =>
    simp only [Option.map_some, h2 rest]
    cases optFold g e os2 <;> simp

/-! ## 3. binding, `toWheres`, `sortKw` -/

theorem bindAll_scalars (vs : List Value) : bindAll (vs.map .scalar) = .ok vs := by
  induction vs with
  | nil => rfl
  | cons v vs ih => simp [bindAll, ih, bind, Except.bind, pure, Except.pure]

theorem bindAll_append_ok {as bs : List Arg} {vs : List Value} (h : bindAll (as ++ bs) = .ok vs) :
    ∃ v1 v2, bindAll as = .ok v1 ∧ bindAll bs = .ok v2 ∧ vs = v1 ++ v2 := by
  induction as generalizing vs with
  | nil => exact ⟨[], vs, rfl, h, rfl⟩
  | cons a as ih =>
    cases a with
    | scalar v =>
      simp only [List.cons_append, bindAll, bind, Except.bind] at h
      cases hr : bindAll (as ++ bs) with
      | error e => simp [hr] at h
      | ok r =>
        simp only [hr, pure, Except.pure, Except.ok.injEq] at h
        obtain ⟨v1, v2, h1, h2, h3⟩ := ih hr
        refine ⟨v :: v1, v2, ?_, h2, ?_⟩
        · simp [bindAll, h1, bind, Except.bind, pure, Except.pure]
        · simp [← h, h3]
    | list _ => simp [bindAll] at h
    | set _ => simp [bindAll] at h

theorem bindAll_length {as : List Arg} {vs : List Value} (h : bindAll as = .ok vs) : vs.length = as.length := by
  induction as generalizing vs with
  | nil => simp [bindAll] at h; simp [← h]
  | cons a as ih =>
    cases a with
    | scalar v =>
      simp only [bindAll, bind, Except.bind] at h
      cases hr : bindAll as with
      | error e => simp [hr] at h
      | ok r =>
        simp only [hr, pure, Except.pure, Except.ok.injEq] at h
        simp [← h, ih hr]
    | list _ => simp [bindAll] at h
    | set _ => simp [bindAll] at h

theorem toWheres_append (xs ys : List NCond) :
    toWheres (xs ++ ys) = ((toWheres xs).1 ++ (toWheres ys).1, (toWheres xs).2 ++ (toWheres ys).2) := by
  induction xs with
  | nil => simp [toWheres]
  | cons x xs ih => simp [toWheres, ih]

theorem toWhere_or_snd (l : List NCond) : (toWhere (.or l)).2 = (toWheres l).2 := by
  cases l <;> simp [toWhere, toWheres]

theorem toWhere_or_sem (row : Row) (l : List NCond) (ps : List Value) :
    semW row (toWhere (.or l)).1 ps = semFold Tri.or .ff row (toWheres l).1 ps := by
  cases l with
  | nil => simp [toWhere, toWheres, semW, semFold]
  | cons c cs => simp [toWhere, semW, semOr_eq]

theorem mem_insertKw (x y : Str × Arg) (l : List (Str × Arg)) : y ∈ insertKw x l ↔ y = x ∨ y ∈ l := by
  induction l with
  | nil => simp [insertKw]
  | cons z zs ih =>
    simp only [insertKw]
    split
    · simp
    · simp only [List.mem_cons, ih]
      constructor
      · rintro (h | h | h) <;> simp [h]
      · rintro (h | h | h) <;> simp [h]

theorem mem_sortKw (y : Str × Arg) (l : List (Str × Arg)) : y ∈ sortKw l ↔ y ∈ l := by
  induction l with
  | nil => simp [sortKw]
  | cons x xs ih => simp [sortKw, mem_insertKw, ih]

theorem intendedKw_eq_map (row : Row) (l : List (Str × Arg)) :
    intendedKw row l = l.map (fun ka => intendedLeaf row ka.1 opEq ka.2) := by
  induction l with
  | nil => rfl
  | cons x xs ih => obtain ⟨k, a⟩ := x; simp [intendedKw, ih]

theorem mem_intendedKw_sort (row : Row) (l : List (Str × Arg)) (x : Option Tri) :
    x ∈ intendedKw row (sortKw l) ↔ x ∈ intendedKw row l := by
  simp only [intendedKw_eq_map, List.mem_map, mem_sortKw]

/-! ## 4. the meaning of constructed conditions -/

theorem Tri.negIf_false (t : Tri) : Tri.negIf false t = t := rfl
theorem Tri.negIf_true (t : Tri) : Tri.negIf true t = t.not := rfl

theorem sem_inList (row : Row) (f : Str) (neg : Bool) (vs : List Value) :
    Sem row (.inList f neg vs.length) vs (some (Tri.negIf neg (inSem (row f) vs))) := by
  intro rest
  simp [semW, semIn]

theorem sem_cmp (row : Row) (f : Str) (c : CmpOp) (v : Value) :
    Sem row (.cmp f c) [v] (some (cmp3 c (row f) v)) := by
  intro rest; simp [semW, semCmp]

theorem sem_null (row : Row) (f : Str) (neg : Bool) :
    Sem row (.isNull f neg) [] (some (Tri.negIf neg (isNullSem (row f)))) := by
  intro rest; simp [semW, semNull]

theorem sem_like (row : Row) (f : Str) (neg : Bool) (p : Value) :
    Sem row (.like f neg) [p] (some (Tri.negIf neg (likeSem (row f) p))) := by
  intro rest; simp [semW, semLike]

theorem sem_const (row : Row) (b : Bool) : Sem row (.const b) [] (some (Tri.ofBool b)) := by
  intro rest; simp [semW]

/-- the clause of an `IN` / `NOT IN` leaf (with the empty-list special case) means membership -/
theorem sem_inl (row : Row) (f : Str) (neg : Bool) (vs ws : List Value)
    (hb : bindAll (leafWhere (.inl f neg vs)).2 = .ok ws) :
    Sem row (leafWhere (.inl f neg vs)).1 ws (some (Tri.negIf neg (inSem (row f) vs))) := by
  unfold leafWhere at hb ⊢
  by_cases he : vs.isEmpty
  · have : vs = [] := by simpa using he
    subst this
    simp only [List.isEmpty_nil, if_true] at hb ⊢
    simp [bindAll] at hb
    subst hb
    have := sem_const row neg
    cases neg <;> simpa [Tri.negIf, inSem, Tri.ofBool, Tri.not] using this
  · simp only [he, Bool.false_eq_true, if_false] at hb ⊢
    rw [bindAll_scalars] at hb
    cases hb
    exact sem_inList row f neg vs

theorem leaf_sem (row : Row) (f op : Str) (a : Arg) (l : Leaf) (vs : List Value)
    (h : mkLeaf f op a = .ok l) (hb : bindAll (leafWhere l).2 = .ok vs) :
    Sem row (leafWhere l).1 vs (intendedLeaf row f op a) := by
  unfold mkLeaf at h
  unfold intendedLeaf
  cases hc : classify (upper op) with
  | none => simp [hc] at h
  | some o =>
    simp only [hc] at h ⊢
    cases o with
    | cmp c =>
      cases c with
      | eq =>
        cases a with
        | scalar v =>
          cases v with
          | null => simp at h; subst h; simp [leafWhere, bindAll] at hb; subst hb; exact sem_null row f false
          | int i => simp at h; subst h; simp [leafWhere, bindAll, pure, Except.pure, bind, Except.bind] at hb; subst hb; exact sem_cmp row f .eq _
          | text t => simp at h; subst h; simp [leafWhere, bindAll, pure, Except.pure, bind, Except.bind] at hb; subst hb; exact sem_cmp row f .eq _
          | blob t => simp at h; subst h; simp [leafWhere, bindAll, pure, Except.pure, bind, Except.bind] at hb; subst hb; exact sem_cmp row f .eq _
          | obj k t => simp at h; subst h; simp [leafWhere, bindAll, pure, Except.pure, bind, Except.bind] at hb; subst hb; exact sem_cmp row f .eq _
        | list ws => simp at h; subst h; exact sem_inl row f false ws vs hb
        | set ws => simp at h; subst h; simp [leafWhere, bindAll] at hb
      | ne =>
        cases a with
        | scalar v =>
          cases v with
          | null => simp at h; subst h; simp [leafWhere, bindAll] at hb; subst hb; exact sem_null row f true
          | int i => simp at h; subst h; simp [leafWhere, bindAll, pure, Except.pure, bind, Except.bind] at hb; subst hb; exact sem_cmp row f .ne _
          | text t => simp at h; subst h; simp [leafWhere, bindAll, pure, Except.pure, bind, Except.bind] at hb; subst hb; exact sem_cmp row f .ne _
          | blob t => simp at h; subst h; simp [leafWhere, bindAll, pure, Except.pure, bind, Except.bind] at hb; subst hb; exact sem_cmp row f .ne _
          | obj k t => simp at h; subst h; simp [leafWhere, bindAll, pure, Except.pure, bind, Except.bind] at hb; subst hb; exact sem_cmp row f .ne _
        | list ws => simp at h; subst h; exact sem_inl row f true ws vs hb
        | set ws => simp at h; subst h; simp [leafWhere, bindAll] at hb
      | gt =>
        simp at h; subst h
        cases a with
        | scalar v => simp [leafWhere, bindAll, pure, Except.pure, bind, Except.bind] at hb; subst hb; exact sem_cmp row f .gt _
        | list ws => simp [leafWhere, bindAll] at hb
        | set ws => simp [leafWhere, bindAll] at hb
      | lt =>
        simp at h; subst h
        cases a with
        | scalar v => simp [leafWhere, bindAll, pure, Except.pure, bind, Except.bind] at hb; subst hb; exact sem_cmp row f .lt _
        | list ws => simp [leafWhere, bindAll] at hb
        | set ws => simp [leafWhere, bindAll] at hb
      | ge =>
        simp at h; subst h
        cases a with
        | scalar v => simp [leafWhere, bindAll, pure, Except.pure, bind, Except.bind] at hb; subst hb; exact sem_cmp row f .ge _
        | list ws => simp [leafWhere, bindAll] at hb
        | set ws => simp [leafWhere, bindAll] at hb
      | le =>
        simp at h; subst h
        cases a with
        | scalar v => simp [leafWhere, bindAll, pure, Except.pure, bind, Except.bind] at hb; subst hb; exact sem_cmp row f .le _
        | list ws => simp [leafWhere, bindAll] at hb
        | set ws => simp [leafWhere, bindAll] at hb
    | isIn neg =>
      cases a with
      | scalar v => simp at h
      | list ws => simp at h; subst h; exact sem_inl row f neg ws vs hb
      | set ws => simp at h; subst h; exact sem_inl row f neg ws vs hb
    | isNull neg =>
      cases a with
      | scalar v =>
        cases v with
        | null => simp at h; subst h; simp [leafWhere, bindAll] at hb; subst hb; exact sem_null row f neg
        | int i => simp at h
        | text t => simp at h
        | blob t => simp at h
        | obj k t => simp at h
      | list ws => simp at h
      | set ws => simp at h
    | like neg =>
      cases a with
      | scalar v =>
        cases v with
        | null => simp at h
        | int i => simp at h
        | blob t => simp at h
        | obj k t => simp at h
        | text t =>
          simp at h; subst h
          simp [leafWhere, bindAll, pure, Except.pure, bind, Except.bind] at hb; subst hb
          exact sem_like row f neg _
      | list ws => simp at h
      | set ws => simp at h

theorem toWhere_leaf (l : Leaf) : toWhere (.leaf l) = leafWhere l := by simp [toWhere]

theorem kw_sem (g : Tri → Tri → Tri) (e : Tri) (row : Row) :
    ∀ (kw : List (Str × Arg)) (ns : List NCond) (vs : List Value), mkKw kw = .ok ns →
      bindAll (toWheres ns).2 = .ok vs → SemL g e row (toWheres ns).1 vs (intendedKw row kw)
  | [], ns, vs, h, hb => by
    simp [mkKw] at h; subst h
    simp [toWheres, bindAll] at hb; subst hb
    exact SemL.nil g e row
  | (k, a) :: rest, ns, vs, h, hb => by
    simp only [mkKw, bind, Except.bind] at h
    cases hl : mkLeaf k opEq a with
    | error err => simp [hl] at h
    | ok l =>
      cases hr : mkKw rest with
      | error err => simp [hl, hr] at h
      | ok ls =>
        simp only [hl, hr, pure, Except.pure, Except.ok.injEq] at h
        subst h
        simp only [toWheres, toWhere_leaf] at hb ⊢
        obtain ⟨v1, v2, h1, h2, h3⟩ := bindAll_append_ok hb
        subst h3
        exact SemL.cons (leaf_sem row k _ a l v1 hl h1) (kw_sem g e row rest ls v2 hr h2)

mutual
theorem cond_sem (row : Row) : ∀ (c : Cond) (n : NCond) (vs : List Value), mkCond c = .ok n →
    bindAll (toWhere n).2 = .ok vs → Sem row (toWhere n).1 vs (intended row c)
  | .triple f op a, n, vs, h, hb => by
    simp only [mkCond, bind, Except.bind] at h
    cases hl : mkLeaf f op a with
    | error err => simp [hl] at h
    | ok l =>
      simp only [hl, pure, Except.pure, Except.ok.injEq] at h
      subst h
      simp only [toWhere_leaf] at hb ⊢
      simpa [intended] using leaf_sem row f op a l vs hl hb
  | .pair f a, n, vs, h, hb => by
    simp only [mkCond, bind, Except.bind] at h
    cases hl : mkLeaf f opEq a with
    | error err => simp [hl] at h
    | ok l =>
      simp only [hl, pure, Except.pure, Except.ok.injEq] at h
      subst h
      simp only [toWhere_leaf] at hb ⊢
      simpa [intended] using leaf_sem row f _ a l vs hl hb
  | .badOp _ _, n, vs, h, hb => by simp [mkCond] at h
  | .badShape, n, vs, h, hb => by simp [mkCond] at h
  | .raw t, n, vs, h, hb => by
    simp only [mkCond, Except.ok.injEq] at h
    subst h
    simp only [toWhere_leaf, leafWhere, bindAll, Except.ok.injEq] at hb ⊢
    subst hb
    intro rest
    simp [semW, intended]
  | .or cs kw, n, vs, h, hb => by
    simp only [mkCond, bind, Except.bind] at h
    cases hx : mkConds cs with
    | error err => simp [hx] at h
    | ok xs =>
      cases hy : mkKw (sortKw kw) with
      | error err => simp [hx, hy] at h
      | ok ys =>
        simp only [hx, hy, pure, Except.pure, Except.ok.injEq] at h
        subst h
        rw [toWhere_or_snd, toWheres_append] at hb
        obtain ⟨v1, v2, h1, h2, h3⟩ := bindAll_append_ok hb
        subst h3
        have hs := SemL.append Tri.or_assoc Tri.ff_or
          (conds_sem row Tri.or .ff cs xs v1 hx h1) (kw_sem Tri.or .ff row (sortKw kw) ys v2 hy h2)
        intro rest
        rw [toWhere_or_sem, toWheres_append]
        simp only [] at hs ⊢
        rw [hs rest, optFold_or, intended]
        rw [orAll_congr (l' := intendeds row cs ++ intendedKw row kw)]
        intro x
        simp only [List.mem_append, mem_intendedKw_sort]
theorem conds_sem (row : Row) (g : Tri → Tri → Tri) (e : Tri) : ∀ (cs : List Cond) (ns : List NCond)
    (vs : List Value), mkConds cs = .ok ns → bindAll (toWheres ns).2 = .ok vs →
      SemL g e row (toWheres ns).1 vs (intendeds row cs)
  | [], ns, vs, h, hb => by
    simp [mkConds] at h; subst h
    simp [toWheres, bindAll] at hb; subst hb
    simpa [intendeds, toWheres] using SemL.nil g e row
  | c :: cs, ns, vs, h, hb => by
    simp only [mkConds, bind, Except.bind] at h
    cases hx : mkCond c with
    | error err => simp [hx] at h
    | ok x =>
      cases hr : mkConds cs with
      | error err => simp [hx, hr] at h
      | ok xs =>
        simp only [hx, hr, pure, Except.pure, Except.ok.injEq] at h
        subst h
        simp only [toWheres] at hb ⊢
        obtain ⟨v1, v2, h1, h2, h3⟩ := bindAll_append_ok hb
        subst h3
        simpa [intendeds] using SemL.cons (cond_sem row c x v1 hx h1) (conds_sem row g e cs xs v2 hr h2)
end

/-! ## 5. a prepared call -/

/-- what `prepare` computes, step by step -/
theorem prepare_ok {pct : Bool} {st : Stmt} {call : Call} {p : Prepared} (h : prepare pct st call = .ok p) :
    ∃ xs ys ord, mkConds (call.args.filterMap id) = .ok xs ∧
      mkKw (sortKw (filterKwargs call.kwargs)) = .ok ys ∧
      p.conj = (toWheres (xs ++ ys)).1 ∧ orderClause st call.kwargs = .ok ord ∧
      sqlText pct { st with orderBy := ord } p.conj = .ok p.text ∧
      bindAll (toWheres (xs ++ ys)).2 = .ok p.params := by
  simp only [prepare, filters, bind, Except.bind] at h
  cases hx : mkConds (call.args.filterMap id) with
  | error err => simp [hx] at h
  | ok xs =>
    cases hy : mkKw (sortKw (filterKwargs call.kwargs)) with
    | error err => simp [hx, hy] at h
    | ok ys =>
      simp only [hx, hy, pure, Except.pure] at h
      cases ho : orderClause st call.kwargs with
      | error err => simp [ho] at h
      | ok ord =>
        simp only [ho] at h
        cases ht : sqlText pct { st with orderBy := ord } (toWheres (xs ++ ys)).1 with
        | error err => simp [ht] at h
        | ok text =>
          cases hb : bindAll (toWheres (xs ++ ys)).2 with
          | error err => simp [ht, hb] at h
          | ok params =>
            simp only [ht, hb, Except.ok.injEq] at h
            subst h
            exact ⟨xs, ys, ord, rfl, rfl, rfl, rfl, ht, hb⟩

theorem prepare_sem {pct : Bool} {st : Stmt} {call : Call} {p : Prepared} (h : prepare pct st call = .ok p)
    (row : Row) :
    sem row p.conj p.params =
      andAll (intendeds row (call.args.filterMap id) ++ intendedKw row (filterKwargs call.kwargs)) := by
  obtain ⟨xs, ys, _, hx, hy, hc, _, _, hb⟩ := prepare_ok h
  rw [toWheres_append] at hb hc
  obtain ⟨v1, v2, h1, h2, h3⟩ := bindAll_append_ok hb
  have hs := SemL.append Tri.and_assoc Tri.tt_and
    (conds_sem row Tri.and .tt _ xs v1 hx h1) (kw_sem Tri.and .tt row _ ys v2 hy h2)
  have := hs []
  simp only [List.append_nil] at this
  unfold sem
  rw [semAnd_eq, hc, h3, this, optFold_and]
  rw [andAll_congr (l' := intendeds row (call.args.filterMap id) ++ intendedKw row (filterKwargs call.kwargs))]
  · cases andAll (intendeds row (call.args.filterMap id) ++ intendedKw row (filterKwargs call.kwargs)) <;> rfl
  · intro x
    simp only [List.mem_append, mem_intendedKw_sort]

theorem mem_intendeds (row : Row) (cs : List Cond) (x : Option Tri) :
    x ∈ intendeds row cs ↔ ∃ c ∈ cs, intended row c = x := by
  induction cs with
  | nil => simp [intendeds]
  | cons c cs ih => simp [intendeds, ih, eq_comm]

theorem mem_intendedKw (row : Row) (kw : List (Str × Arg)) (x : Option Tri) :
    x ∈ intendedKw row kw ↔ ∃ ka ∈ kw, intended row (.pair ka.1 ka.2) = x := by
  simp [intendedKw_eq_map, intended, eq_comm]

end SqlFilter
