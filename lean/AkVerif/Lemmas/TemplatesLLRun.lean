import AkVerif.Model.LLParse
/-!
C05 on the LL parse loop (`LL.step` / `LL.run`, imported from the model of C01–C03): a derivation tree whose every
node is *predicted by ordered choice* — the table lists the node's production at position `j` for the node's look-ahead
and every earlier alternative fails after matching a prefix of terminals — is exactly what the loop returns (suffix
nodes spliced), with or without roll-backs. No FIRST/FOLLOW theory is needed: the condition is local to the tree.
-/
namespace LLT
open LL Ak

variable {σ : Type} [DecidableEq σ]

def iter (G : Cfg σ) (toks : List (Tok σ)) : Nat → List (Frame σ) → Res σ
  | 0, st => .cont st
  | k + 1, st =>
    match step G toks st with
    | .cont st' => iter G toks k st'
    | r => r

theorem iter_add (G : Cfg σ) (toks : List (Tok σ)) (a b : Nat) (st st' : List (Frame σ))
    (h : iter G toks a st = .cont st') : iter G toks (a + b) st = iter G toks b st' := by
  induction a generalizing st with
  | zero => simp [iter] at h; subst h; simp
  | succ a ih =>
    rw [Nat.succ_add]
    simp only [iter] at h ⊢
    cases hs : step G toks st with
    | cont s1 => simp only [hs] at h ⊢; exact ih s1 h
    | done t => simp [hs] at h
    | fail => simp [hs] at h
    | stuck => simp [hs] at h

theorem iter_one (G : Cfg σ) (toks : List (Tok σ)) (st st' : List (Frame σ))
    (h : step G toks st = .cont st') : iter G toks 1 st = .cont st' := by
  simp [iter, h]

theorem run_of_iter (G : Cfg σ) (toks : List (Tok σ)) : ∀ (k : Nat) (st : List (Frame σ)) (x : Tree σ),
    iter G toks k st = .done x → ∀ fuel, k ≤ fuel → run G toks fuel st = .ok x
  | 0, st, x, h, _, _ => by simp [iter] at h
  | k + 1, st, x, h, fuel, hle => by
    cases fuel with
    | zero => omega
    | succ fuel =>
      simp only [iter] at h
      cases hs : step G toks st with
      | cont st1 =>
        simp only [hs] at h
        have := run_of_iter G toks k st1 x h fuel (by omega)
        simpa [run, hs] using this
      | done y => simp [hs] at h; subst h; simp [run, hs]
      | fail => simp [hs] at h
      | stuck => simp [hs] at h

def names (w : List (Tok σ)) : List σ := w.map (·.name)

/-- name of the first token of `w`, `nx` when `w` is empty -/
def look (w : List (Tok σ)) (nx : σ) : σ :=
  match w with
  | [] => nx
  | t :: _ => t.name

/-- the alternative fails after matching a prefix `p` of terminals against the upcoming token names `up`:
the symbol after `p` is a terminal different from the next token, or a non-terminal without table entry for it -/
def FailsFast (G : Cfg σ) (alt : List σ) (up : List σ) : Prop :=
  ∃ p x q t, alt = p ++ x :: q ∧ (∀ s ∈ p, G.isTerm s = true) ∧ up.take p.length = p ∧
    up[p.length]? = some t ∧ (if G.isTerm x then x ≠ t else G.table x t = none)

mutual
/-- the node's production is the first alternative of its table entry that does not fail fast -/
def Pred (G : Cfg σ) : Tree σ → σ → Prop
  | .leaf n _, _ => G.isTerm n = true
  | .node n cs, nx =>
    G.isTerm n = false ∧
    (∃ (alts : List (List σ)) (j : Nat), G.table n (look (Tree.yieldList cs) nx) = some alts ∧ alts[j]? = some (cs.map Tree.name) ∧
      ∀ i : Nat, i < j → ∃ a, alts[i]? = some a ∧ FailsFast G a (names (Tree.yieldList cs) ++ [nx])) ∧
    PredL G cs nx
def PredL (G : Cfg σ) : List (Tree σ) → σ → Prop
  | [], _ => True
  | c :: cs, nx => Pred G c (look (Tree.yieldList cs) nx) ∧ PredL G cs nx
end

mutual
/-- the tree the loop builds: children of a factorised suffix node are merged into the parent -/
def fin (G : Cfg σ) : Tree σ → Tree σ
  | .leaf n v => .leaf n v
  | .node n cs => .node n (splice G (cs.map Tree.name) (finL G cs))
def finL (G : Cfg σ) : List (Tree σ) → List (Tree σ)
  | [] => []
  | c :: cs => fin G c :: finL G cs
end

theorem finL_length (G : Cfg σ) (cs : List (Tree σ)) : (finL G cs).length = cs.length := by
  induction cs with
  | nil => simp [finL]
  | cons c cs ih => simp [finL, ih]

theorem drop_eq_cons {α : Type} {l : List α} {i : Nat} {a : α} {r : List α}
    (h : l.drop i = a :: r) : l[i]? = some a ∧ l.drop (i + 1) = r := by
  induction l generalizing i with
  | nil => simp at h
  | cons x xs ih =>
    cases i with
    | zero => simp at h; simp [h.1, h.2]
    | succ i => simp at h; simpa using ih h

theorem drop_add_of_append {α : Type} {l a b : List α} {i : Nat}
    (h : l.drop i = a ++ b) : l.drop (i + a.length) = b := by
  have : l.drop (i + a.length) = (l.drop i).drop a.length := by
    rw [List.drop_drop]
  rw [this, h]; simp

theorem yieldList_cons (c : Tree σ) (cs : List (Tree σ)) :
    Tree.yieldList (c :: cs) = c.yield ++ Tree.yieldList cs := by
  rw [Tree.yieldList]

theorem yield_node (n : σ) (cs : List (Tree σ)) : (Tree.node n cs).yield = Tree.yieldList cs := by
  rw [Tree.yield]

/-- one failing alternative: `|p| + 1` steps bring the frame to its next alternative -/
theorem fail_alt (G : Cfg σ) (toks : List (Tok σ)) (g : Frame σ) (rest : List (Frame σ)) (alt : List σ)
    (up : List σ) (more : List (Tok σ))
    (halt : g.alts[g.idx]? = some alt) (hnext : g.idx + 1 < g.alts.length)
    (hv : g.vals = []) (hc : g.cur = g.start)
    (htoks : ∃ w, toks.drop g.start = w ++ more ∧ names w = up)
    (hf : FailsFast G alt up) :
    ∃ k, iter G toks k (g :: rest) = .cont ({ g with idx := g.idx + 1 } :: rest) := by
  obtain ⟨p, x, q, t, rfl, hpt, hptake, hpt', hx⟩ := hf
  obtain ⟨w, hw, hwn⟩ := htoks
  -- matching the terminals of `p` one by one
  have walk : ∀ (m : Nat), m ≤ p.length →
      ∃ vs, vs.length = m ∧ iter G toks m (g :: rest) = .cont ({ g with vals := vs, cur := g.start + m } :: rest) := by
    intro m
    induction m with
    | zero =>
      intro _
      refine ⟨[], rfl, ?_⟩
      cases g
      simp_all [iter]
    | succ m ih =>
      intro hm
      obtain ⟨vs, hvl, hit⟩ := ih (by omega)
      have hmlt : m < p.length := by omega
      have hsym : (p ++ x :: q)[m]? = some p[m] := by
        rw [List.getElem?_append_left hmlt]; simp [hmlt]
      have hup : up[m]? = some p[m] := by
        have : (up.take p.length)[m]? = some p[m] := by rw [hptake]; simp [hmlt]
        rw [List.getElem?_take] at this
        simpa [hmlt] using this
      have hwm : ∃ tk, w[m]? = some tk ∧ tk.name = p[m] := by
        rw [← hwn, names, List.getElem?_map] at hup
        cases hq : w[m]? with
        | none => simp [hq] at hup
        | some tk => simp [hq] at hup; exact ⟨tk, rfl, hup⟩
      obtain ⟨tk, htk, htkn⟩ := hwm
      have htok : toks[g.start + m]? = some tk := by
        have : (toks.drop g.start)[m]? = some tk := by
          rw [hw, List.getElem?_append_left (by
            have := List.getElem?_eq_some_iff.mp htk; exact this.1)]
          exact htk
        simpa [List.getElem?_drop] using this
      have hterm : G.isTerm p[m] = true := hpt _ (List.getElem_mem _)
      have hne : ¬ vs.length = (p ++ x :: q).length := by simp [hvl]; omega
      refine ⟨vs ++ [Tree.leaf p[m] tk.val], by simp [hvl], ?_⟩
      rw [iter_add G toks m 1 _ _ hit]
      apply iter_one
      simp [step, halt, hne, hvl, hsym, htok, hterm, htkn, Nat.add_assoc]
      intro h; omega
  obtain ⟨vs, hvl, hit⟩ := walk p.length (Nat.le_refl _)
  -- the symbol after the prefix does not match
  have hupt : ∃ tk, toks[g.start + p.length]? = some tk ∧ tk.name = t := by
    rw [← hwn, names, List.getElem?_map] at hpt'
    cases hq : w[p.length]? with
    | none => simp [hq] at hpt'
    | some tk =>
      simp [hq] at hpt'
      refine ⟨tk, ?_, hpt'⟩
      have : (toks.drop g.start)[p.length]? = some tk := by
        rw [hw, List.getElem?_append_left (by
          have := List.getElem?_eq_some_iff.mp hq; exact this.1)]
        exact hq
      simpa [List.getElem?_drop] using this
  obtain ⟨tk, htok, htkn⟩ := hupt
  have hsym : (p ++ x :: q)[p.length]? = some x := by simp
  have hne : ¬ vs.length = (p ++ x :: q).length := by simp [hvl]
  refine ⟨p.length + 1, ?_⟩
  rw [iter_add G toks p.length 1 _ _ hit]
  apply iter_one
  by_cases hxt : G.isTerm x = true
  · simp only [hxt, if_true] at hx
    have : ¬ tk.name = x := by rw [htkn]; exact fun e => hx e.symm
    simp [step, halt, hne, hvl, hsym, htok, hxt, this, backtrack, hnext]
    exact ⟨hc.symm, hv⟩
  · simp only [hxt] at hx
    simp at hx
    have hxt' : G.isTerm x = false := by simpa using hxt
    simp [step, halt, hne, hvl, hsym, htok, hxt', htkn, hx, backtrack, hnext]
    exact ⟨hc.symm, hv⟩

/-- all alternatives before `j` fail: the frame reaches alternative `j` with nothing consumed -/
theorem fail_alts (G : Cfg σ) (toks : List (Tok σ)) (rest : List (Frame σ)) (up : List σ) (more : List (Tok σ)) (j : Nat) :
    ∀ (d : Nat) (g : Frame σ), g.idx + d = j → j < g.alts.length → g.vals = [] → g.cur = g.start →
      (∃ w, toks.drop g.start = w ++ more ∧ names w = up) →
      (∀ i, g.idx ≤ i → i < j → ∃ a, g.alts[i]? = some a ∧ FailsFast G a up) →
      ∃ k, iter G toks k (g :: rest) = .cont ({ g with idx := j } :: rest) := by
  intro d
  induction d with
  | zero =>
    intro g hj _ _ _ _ _
    refine ⟨0, ?_⟩
    have : g.idx = j := by omega
    cases g; simp_all [iter]
  | succ d ih =>
    intro g hj hlen hv hc htoks hfail
    obtain ⟨a, ha, hfa⟩ := hfail g.idx (Nat.le_refl _) (by omega)
    obtain ⟨k1, hk1⟩ := fail_alt G toks g rest a up more ha (by omega) hv hc htoks hfa
    obtain ⟨k2, hk2⟩ := ih { g with idx := g.idx + 1 } (by simp; omega) (by simpa using hlen) (by simpa using hv)
      (by simpa using hc) (by simpa using htoks) (fun i hi hij => hfail i (by simp at hi; omega) hij)
    exact ⟨k1 + k2, by rw [iter_add G toks k1 k2 _ _ hk1, hk2]⟩

def _root_.LL.Frame.pushT (f : Frame σ) (t : Tree σ) (c : Nat) : Frame σ :=
  { f with vals := f.vals ++ [t], cur := c }

theorem names_append (a b : List (Tok σ)) : names (a ++ b) = names a ++ names b := by
  simp [names]

theorem look_append (w : List (Tok σ)) (r : List (Tok σ)) (nx : σ) :
    look (w ++ r) nx = look w (look r nx) := by
  cases w <;> simp [look]

/-- **main lemma**: the loop walks down a predicted tree -/
theorem descend {G : Cfg σ} {toks : List (Tok σ)} :
    ∀ (d : Tree σ) (nx : σ), Pred G d nx → ∀ (f : Frame σ) (rest : List (Frame σ)) (prod : List σ)
    (ntok : Tok σ) (suf : List (Tok σ)),
    f.alts[f.idx]? = some prod → prod[f.vals.length]? = some d.name →
    toks.drop f.cur = d.yield ++ ntok :: suf → ntok.name = nx →
    ∃ k, iter G toks k (f :: rest) = .cont (f.pushT (fin G d) (f.cur + d.yield.length) :: rest)
  | .leaf n v, nx, hp, f, rest, prod, ntok, suf, hcur, hsym, hin, hnx => by
    have hlt : f.vals.length < prod.length := by
      rcases Nat.lt_or_ge f.vals.length prod.length with h' | h'
      · exact h'
      · simp [List.getElem?_eq_none h'] at hsym
    have hne : ¬ f.vals.length = prod.length := by omega
    have hterm : G.isTerm n = true := by simpa [Pred] using hp
    simp only [Tree.yield, Tree.name] at hin hsym
    obtain ⟨htok, _⟩ := drop_eq_cons (by simpa using hin)
    refine ⟨1, ?_⟩
    simp [iter, step, hcur, hne, hsym, htok, hterm, Frame.pushT, Tree.yield, fin]
  | .node X cs, nx, hp, f, rest, prod, ntok, suf, hcur, hsym, hin, hnx => by
    have hlt : f.vals.length < prod.length := by
      rcases Nat.lt_or_ge f.vals.length prod.length with h' | h'
      · exact h'
      · simp [List.getElem?_eq_none h'] at hsym
    have hne : ¬ f.vals.length = prod.length := by omega
    rw [Pred] at hp
    obtain ⟨hnt, ⟨alts, j, htab, haltj, hfails⟩, hcs⟩ := hp
    simp only [Tree.name] at hsym
    rw [yield_node] at hin
    let p := cs.map Tree.name
    -- the look-ahead token
    have hlook : ∃ tok, toks[f.cur]? = some tok ∧ tok.name = look (Tree.yieldList cs) nx := by
      cases hy : Tree.yieldList cs with
      | nil =>
        rw [hy] at hin
        obtain ⟨htok, _⟩ := drop_eq_cons (by simpa using hin)
        exact ⟨ntok, htok, by simp [look, hnx]⟩
      | cons tok r =>
        rw [hy] at hin
        obtain ⟨htok, _⟩ := drop_eq_cons (by simpa using hin)
        exact ⟨tok, htok, by simp [look]⟩
    obtain ⟨tok, htok, htokn⟩ := hlook
    have hjlt : j < alts.length := by
      have := List.getElem?_eq_some_iff.mp haltj; exact this.1
    -- first step: push the frame for X
    let g0 : Frame σ := { sym := X, start := f.cur, cur := f.cur, alts := alts, idx := 0, vals := [] }
    have hs0 : step G toks (f :: rest) = .cont (g0 :: f :: rest) := by
      simp [step, hcur, hne, hsym, htok, hnt, htokn, htab, g0]
    -- roll over the failing alternatives
    obtain ⟨kf, hkf⟩ := fail_alts G toks (f :: rest) (names (Tree.yieldList cs) ++ [nx]) suf j j g0
      (by simp [g0]) (by simpa [g0] using hjlt) rfl rfl
      ⟨Tree.yieldList cs ++ [ntok], by simp [g0, hin], by simp [names, hnx]⟩
      (fun i _ hij => by simpa [g0] using hfails i hij)
    let gj : Frame σ := { g0 with idx := j }
    -- walking through the children
    have seq : ∀ (ds : List (Tree σ)), (∀ c ∈ ds, c ∈ cs) → PredL G ds nx → ∀ (g : Frame σ),
        g.sym = X → g.alts = alts → g.idx = j → p.drop g.vals.length = ds.map Tree.name →
        toks.drop g.cur = Tree.yieldList ds ++ ntok :: suf →
        ∃ k, iter G toks k (g :: f :: rest) =
            .cont ({ g with vals := g.vals ++ finL G ds, cur := g.cur + (Tree.yieldList ds).length } :: f :: rest) := by
      intro ds
      induction ds with
      | nil =>
        intro _ _ g _ _ _ _ _
        refine ⟨0, ?_⟩
        cases g; simp [iter, finL, Tree.yieldList]
      | cons c ds ih =>
        intro hds hpl g hgs hga hgi hdrop hgin
        have hc : c ∈ cs := hds c (by simp)
        have hds' : ∀ x ∈ ds, x ∈ cs := fun x hx => hds x (by simp [hx])
        rw [PredL] at hpl
        obtain ⟨hpc, hpds⟩ := hpl
        simp only [List.map_cons] at hdrop
        obtain ⟨hsymc, hdrop'⟩ := drop_eq_cons hdrop
        rw [yieldList_cons] at hgin
        have hgcur : g.alts[g.idx]? = some p := by rw [hga, hgi]; exact haltj
        -- the token after `c`
        have hnext : ∃ nt ns, Tree.yieldList ds ++ ntok :: suf = nt :: ns ∧
            nt.name = look (Tree.yieldList ds) nx := by
          cases hyd : Tree.yieldList ds with
          | nil => exact ⟨ntok, suf, by simp, by simp [look, hnx]⟩
          | cons t1 r1 => exact ⟨t1, r1 ++ ntok :: suf, by simp, by simp [look]⟩
        obtain ⟨nt, ns, hns, hntn⟩ := hnext
        have hginc : toks.drop g.cur = c.yield ++ nt :: ns := by
          rw [hgin, List.append_assoc, hns]
        obtain ⟨k1, hk1⟩ := descend c _ hpc g (f :: rest) p nt ns hgcur hsymc hginc hntn
        have hg1in : toks.drop (g.pushT (fin G c) (g.cur + c.yield.length)).cur =
            Tree.yieldList ds ++ ntok :: suf := by
          simp only [Frame.pushT]
          rw [hns]
          exact drop_add_of_append hginc
        obtain ⟨k2, hk2⟩ := ih hds' hpds (g.pushT (fin G c) (g.cur + c.yield.length))
          (by simp [Frame.pushT, hgs]) (by simp [Frame.pushT, hga]) (by simp [Frame.pushT, hgi])
          (by simp [Frame.pushT]; exact hdrop') hg1in
        refine ⟨k1 + k2, ?_⟩
        rw [iter_add G toks k1 k2 _ _ hk1, hk2]
        simp [Frame.pushT, finL, yieldList_cons, Nat.add_assoc]
    obtain ⟨k, hk⟩ := seq cs (fun _ h => h) hcs gj rfl rfl rfl (by simp [gj, g0, p])
      (by simpa [gj, g0] using hin)
    -- last step: the production of X is complete
    let g1 : Frame σ := { gj with vals := gj.vals ++ finL G cs, cur := gj.cur + (Tree.yieldList cs).length }
    have hs1 : step G toks (g1 :: f :: rest) =
        .cont (f.pushT (fin G (.node X cs)) (f.cur + (Tree.yieldList cs).length) :: rest) := by
      have : (finL G cs).length = p.length := by simp [p, finL_length]
      simp [step, g1, gj, g0, haltj, this, Frame.pushT, fin, p]
    refine ⟨1 + kf + k + 1, ?_⟩
    rw [yield_node]
    rw [iter_add G toks (1 + kf + k) 1 (f :: rest) (g1 :: f :: rest)]
    · simp [iter, hs1]
    · rw [iter_add G toks (1 + kf) k (f :: rest) (gj :: f :: rest)]
      · exact hk
      · rw [iter_add G toks 1 kf (f :: rest) (g0 :: f :: rest) (iter_one G toks _ _ hs0)]
        exact hkf
termination_by d => sizeOf d
decreasing_by
  simp_wf
  have := List.sizeOf_lt_of_mem hc
  omega

/-- **the loop returns the predicted tree** (suffix nodes spliced): for all sufficiently large fuel -/
theorem run_pred (G : Cfg σ) (init start endS : σ) (endTok : Tok σ) (hend : endTok.name = endS)
    (hendT : G.isTerm endS = true) (d : Tree σ) (hd : Pred G d endS) (hname : d.name = start) :
    ∃ k, ∀ fuel, k ≤ fuel →
      run G (d.yield ++ [endTok]) fuel (initStack init start endS) = .ok (fin G d) := by
  let b : Frame σ := { sym := init, start := 0, cur := 0, alts := [[start, endS]], idx := 0, vals := [] }
  obtain ⟨k, hk⟩ := descend (G := G) (toks := d.yield ++ [endTok]) d endS hd b [] [start, endS] endTok []
    rfl (by simp [b, hname]) (by simp [b]) hend
  have hs1 : step G (d.yield ++ [endTok]) [b.pushT (fin G d) (b.cur + d.yield.length)] =
      .cont [(b.pushT (fin G d) (b.cur + d.yield.length)).pushT (Tree.leaf endS endTok.val) (d.yield.length + 1)] := by
    have h' : (d.yield ++ [endTok])[d.yield.length]? = some endTok := by simp
    simp [step, Frame.pushT, b, hendT, hend, h']
  have hs2 : step G (d.yield ++ [endTok])
      [(b.pushT (fin G d) (b.cur + d.yield.length)).pushT (Tree.leaf endS endTok.val) (d.yield.length + 1)] =
        .done (fin G d) := by
    simp [step, Frame.pushT, b, splice, Tree.children]
    by_cases hsx : G.isSuffix endS = true <;> simp [hsx]
  refine ⟨k + 2, run_of_iter G _ (k + 2) _ (fin G d) ?_⟩
  show iter G _ (k + 2) (initStack init start endS) = _
  rw [show initStack init start endS = [b] from rfl, iter_add G _ k 2 _ _ hk]
  simp [iter, hs1, hs2]

end LLT
