import AkVerif.Lemmas.TableReach
/-!
Every reachable state keeps the negotiated widths inside the columns' bounds (C12 `reach_width_inv`), for every
kind of table (with or without `fields=`): every way to make or change a table but printing leaves the columns
WITHOUT a width, and printing writes widths inside the bounds.
-/
namespace Table
open Ak

/-- a negotiated width, when there is one, lies inside the column's bounds -/
def WidthInv (t : Tbl) : Prop :=
  ∀ c ∈ t.fmt.cols, ∀ w, c.width = some w → w ≤ c.maxW ∧ (c.minW ≤ c.maxW → c.minW ≤ w)

def Fresh (cols : List Col) : Prop := ∀ c ∈ cols, c.width = Option.none

theorem widthInv_of_fresh (t : Tbl) (h : Fresh t.fmt.cols) : WidthInv t := by
  intro c hc w hw
  rw [h c hc] at hw
  cases hw

theorem mkCol_fresh (f : Field) (p : PCol) (a b : Option Nat) (c : Col) (h : mkCol f p a b = .ok c) :
    c.width = Option.none := by
  simp only [mkCol, bind_ok] at h
  obtain ⟨_, _, h⟩ := h
  cases h
  rfl

theorem ctorCols_fresh (fields : List Field) (ps : List PCol) (cols : List Col)
    (h : ctorCols fields ps = .ok cols) : Fresh cols := by
  induction ps generalizing cols with
  | nil => simp [ctorCols] at h; subst h; intro c hc; cases hc
  | cons p ps ih =>
    unfold ctorCols at h
    split at h
    · exact ih cols h
    · split at h
      · cases h
      · simp only [bind_ok] at h
        obtain ⟨c0, hc0, rest, hr, h⟩ := h
        cases h
        intro c hc
        rcases List.mem_cons.mp hc with rfl | hc
        · split at hc0 <;> exact mkCol_fresh _ _ _ _ _ hc0
        · exact ih rest hr c hc

theorem setterCols_fresh (fields : List Field) (ps : List PCol) (cols : List Col)
    (h : setterCols fields ps = .ok cols) : Fresh cols := by
  induction ps generalizing cols with
  | nil => simp [setterCols] at h; subst h; intro c hc; cases hc
  | cons p ps ih =>
    unfold setterCols at h
    split at h
    · cases h
    · split at h
      · exact ih cols h
      · simp only [bind_ok] at h
        obtain ⟨c0, hc0, rest, hr, h⟩ := h
        cases h
        intro c hc
        rcases List.mem_cons.mp hc with rfl | hc
        · exact mkCol_fresh _ _ _ _ _ hc0
        · exact ih rest hr c hc
      · simp only [bind_ok] at h
        obtain ⟨c0, hc0, rest, hr, h⟩ := h
        cases h
        intro c hc
        rcases List.mem_cons.mp hc with rfl | hc
        · exact mkCol_fresh _ _ _ _ _ hc0
        · exact ih rest hr c hc

theorem dfltCols_fresh (fields : List Field) : Fresh (fields.map dfltCol) := by
  intro c hc
  simp only [List.mem_map] at hc
  obtain ⟨f, _, rfl⟩ := hc
  rfl

theorem fresh_filter {cols : List Col} (h : Fresh cols) (q : Col → Bool) : Fresh (cols.filter q) :=
  fun c hc => h c (List.mem_filter.mp hc).1

theorem fresh_map_reset (cols : List Col) : Fresh (cols.map fun c => { c with width := Option.none }) := by
  intro c hc
  simp only [List.mem_map] at hc
  obtain ⟨c0, _, rfl⟩ := hc
  rfl

/-- `PPTable(records, …)` — with or without `fields=`, every form of `fmt=` — has no widths yet -/
theorem mkTable_fresh (a : CtorArgs) (t : Tbl) (h : mkTable a = .ok t) : Fresh t.fmt.cols := by
  unfold mkTable at h
  simp only [bind_ok] at h
  obtain ⟨p, _, fc, hfc, h⟩ := h
  cases h
  have hf : Fresh fc.2 := by
    split at hfc
    · split at hfc
      · cases hfc
      · split at hfc
        · split at hfc
          · cases hfc
          · simp only [bind_ok] at hfc
            obtain ⟨cols, hcols, hfc⟩ := hfc
            cases hfc
            exact ctorCols_fresh _ _ _ hcols
        · cases hfc; exact dfltCols_fresh _
    · split at hfc
      · split at hfc
        · cases hfc
        · simp only [bind_ok] at hfc
          obtain ⟨cols, hcols, hfc⟩ := hfc
          cases hfc
          exact ctorCols_fresh _ _ _ hcols
      · cases hfc; exact dfltCols_fresh _
  show Fresh (match a.skip with
    | some names => fc.2.filter fun c => !names.contains c.field.name
    | Option.none => fc.2)
  cases a.skip with
  | none => exact hf
  | some names => exact fresh_filter hf _

theorem mkTableFromFmt_fresh (f : Fmt) (records : List Record) (limits : Option (Option Int × Option Int))
    (skip : Option (List (List Char))) (header footer : Option (List Char)) :
    Fresh (mkTableFromFmt f records limits skip header footer).fmt.cols := by
  simp only [mkTableFromFmt, cloneFmt]
  cases skip with
  | none => exact fresh_map_reset _
  | some names => exact fresh_filter (fresh_map_reset _) _

theorem applySetter_fresh (t t' : Tbl) (s : List Char) (h : applySetter t s = .ok t') : Fresh t'.fmt.cols := by
  unfold applySetter at h
  simp only [bind_ok] at h
  obtain ⟨p, _, cols, hcols, h⟩ := h
  cases h
  show Fresh cols
  split at hcols
  · cases hcols; exact fresh_map_reset _
  · cases hcols; exact dfltCols_fresh _
  · exact setterCols_fresh _ _ _ hcols

/-- printing writes widths inside the bounds (and a width that was there and is kept was inside them) -/
theorem render_widthInv (t t' : Tbl) (ls : List Line) (h : render t = .ok (t', ls)) (hinv : WidthInv t) :
    WidthInv t' := by
  obtain ⟨tls, ws, nTitle, body, R⟩ := render_elim h
  obtain ⟨_, h2⟩ := finalWidths_ok _ _ ws R.ws_eq hinv
  rw [R.state_eq]
  intro c hc w hw
  simp only [printed, setWidths, List.mem_map] at hc
  obtain ⟨cw, hcw, rfl⟩ := hc
  simp only [Option.some.injEq] at hw
  subst hw
  exact h2 cw hcw

theorem reach_widthInv {a : CtorArgs} {t : Tbl} (h : Reach a t) : WidthInv t := by
  induction h with
  | new a t hm => exact widthInv_of_fresh t (mkTable_fresh a t hm)
  | direct a cs lims t hm =>
    simp only [mkTableDirect, bind_ok] at hm
    obtain ⟨t0, _, cols, _, hm⟩ := hm
    cases hm
    exact widthInv_of_fresh _ (mkTableFromFmt_fresh _ _ _ _ _ _)
  | print a t t' ls _ hr ih => exact render_widthInv t t' ls hr ih
  | set a t t' s _ hs _ => exact widthInv_of_fresh t' (applySetter_fresh t t' s hs)
  | ctor a t t' s _ hm _ => exact widthInv_of_fresh t' (mkTable_fresh _ t' hm)
  | setLimits a t x y _ _ => exact widthInv_of_fresh _ (fresh_map_reset _)
  | removeCols a t names _ _ => exact widthInv_of_fresh _ (fresh_filter (fresh_map_reset _) _)
  | fromObj b a u lims skip _ _ _ => exact widthInv_of_fresh _ (mkTableFromFmt_fresh _ _ _ _ _ _)

end Table
