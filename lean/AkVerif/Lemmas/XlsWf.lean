import AkVerif.Lemmas.XlsRows
/-!
Helper lemmas for C18, fifth part: on a well-formed request (rectangular sheet, key attributes read
from columns that exist, key not longer than the attribute list, converters
that fail with `ValueError` only) the only exception that can end the iteration is `ValueError`:
every other error path of the model (`IndexError`, `AttributeError`, `AssertionError`, `TypeError`,
`KeyError`) is dead.
-/
namespace Xls
open Ak

theorem mapE_error {α β : Type} (f : α → Except Err β) :
    ∀ (l : List α) (e : Err), mapE f l = .error e → ∃ a ∈ l, f a = .error e := by
  intro l
  induction l with
  | nil => intro e h; simp [mapE] at h
  | cons a as ih =>
    intro e h
    simp only [mapE] at h
    split at h
    · rename_i e' he
      cases h
      exact ⟨a, by simp, he⟩
    · split at h
      · rename_i e' he
        cases h
        obtain ⟨x, hx, hf⟩ := ih e he
        exact ⟨x, by simp [hx], hf⟩
      · cases h

theorem zipInit_error {V : Type} (cv : Conv V) (k : Nat) :
    ∀ (rules : List (Rule V)) (srcs : List Src) (e : Err), zipInit cv k rules srcs = .error e →
      ∃ (i : Nat) (r : Rule V) (s : Src), rules[i]? = some r ∧ srcs[i]? = some s ∧
        initAttr cv k r s = .error e := by
  intro rules
  induction rules with
  | nil => intro srcs e h; simp [zipInit] at h
  | cons r rs ih =>
    intro srcs e h
    cases srcs with
    | nil => simp [zipInit] at h
    | cons s ss =>
      simp only [zipInit] at h
      split at h
      · rename_i e' he
        cases h
        exact ⟨0, r, s, by simp, by simp, he⟩
      · split at h
        · rename_i e' he
          cases h
          obtain ⟨i, r', s', h1, h2, h3⟩ := ih ss e he
          exact ⟨i + 1, r', s', by simpa using h1, by simpa using h2, h3⟩
        · cases h

/-- the converter a rule uses -/
def Rule.ct? {V : Type} : Rule V → Option Nat
  | .ext _ => none
  | .col _ ct _ => some ct
  | .range _ ct _ => some ct

/-- only conversions can fail when an attribute is built from what its own rule was bound to -/
theorem initAttr_error {V : Type} (cv : Conv V) (titles known : List Key) (row : Row) (r : Rule V)
    (sl : Slot) (s : Src) (e : Err) (k : Nat)
    (hconv : ∀ ct, r.ct? = some ct → ∀ v e, cv.conv ct v = .error e → e = .valueError)
    (hb : bindRule titles known r = .ok sl) (hs : srcOf row sl = .ok s)
    (hi : initAttr cv k r s = .error e) : e = .valueError := by
  cases r with
  | ext d =>
    simp only [bindRule] at hb; cases hb
    simp only [srcOf] at hs; cases hs
    simp [initAttr] at hi
  | col t ct dflt =>
    simp only [bindRule] at hb
    cases hl : lookupLast titles t with
    | some j =>
      rw [hl] at hb; cases hb
      simp only [srcOf] at hs
      split at hs
      · cases hs
        simp only [initAttr] at hi
        split at hi
        · cases hi
        · rename_i e' he
          cases hi
          exact hconv ct rfl _ _ he
      · cases hs
    | none =>
      rw [hl] at hb
      simp only [] at hb
      split at hb
      · rename_i hd
        cases hb
        simp only [srcOf] at hs; cases hs
        cases dflt with
        | none => simp at hd
        | some d => simp [initAttr] at hi
      · cases hb
  | range kind ct opt =>
    simp only [bindRule] at hb
    split at hb
    · cases hb
    · split at hb
      · cases hb
        simp only [srcOf] at hs
        split at hs
        · cases hs
          simp only [initAttr] at hi
          split at hi
          · rename_i e' he
            cases hi
            obtain ⟨c, _, hc⟩ := mapE_error _ _ _ he
            exact hconv ct rfl _ _ hc
          · cases kind <;> simp at hi
        · cases hs
      · cases hb

theorem lookupLast_lt (ts : List Key) (t : Key) (j : Nat) (h : lookupLast ts t = some j) :
    j < ts.length :=
  getElem?_lt_of_some _ _ _ (lookupLast_some ts t j h).1

/-- a row as long as the title row has a cell wherever a rule was bound to -/
theorem srcOf_ok {V : Type} (titles known : List Key) (row : Row) (r : Rule V) (sl : Slot)
    (hlen : row.length = titles.length) (hb : bindRule titles known r = .ok sl) :
    ∃ s, srcOf row sl = .ok s := by
  cases r with
  | ext d => simp only [bindRule] at hb; cases hb; exact ⟨.none, rfl⟩
  | col t ct dflt =>
    simp only [bindRule] at hb
    cases hl : lookupLast titles t with
    | some j =>
      rw [hl] at hb; cases hb
      have hj : j < row.length := by rw [hlen]; exact lookupLast_lt titles t j hl
      exact ⟨.cell row[j], by simp [srcOf, getCell, hj]⟩
    | none =>
      rw [hl] at hb
      simp only [] at hb
      split at hb
      · cases hb; exact ⟨.none, rfl⟩
      · cases hb
  | range kind ct opt =>
    simp only [bindRule] at hb
    split at hb
    · cases hb
    · split at hb
      · rename_i ids hids
        cases hb
        obtain ⟨_, hall⟩ := lookupAllLast_spec titles _ ids hids
        cases hm : mapE (getCell row) ids with
        | ok cs => exact ⟨.range (rangeNames known titles) cs, by simp [srcOf, hm]⟩
        | error e =>
          obtain ⟨j, hj, hg⟩ := mapE_error _ _ _ hm
          obtain ⟨m, hm'⟩ := List.getElem?_of_mem hj
          have hml : m < (rangeNames known titles).length := by
            have := getElem?_lt_of_some _ _ _ hm'
            have := (lookupAllLast_spec titles _ ids hids).1
            omega
          obtain ⟨j', hj', hl⟩ := hall m (rangeNames known titles)[m] (by simp [hml])
          rw [hm'] at hj'; cases hj'
          have hjl : j < row.length := by rw [hlen]; exact lookupLast_lt titles _ j hl
          simp [getCell, hjl] at hg
      · cases hb

theorem keyEmpty_cells : ∀ (l : List Src), (∀ s ∈ l, ∃ c, s = .cell c) → ∃ b, keyEmpty l = .ok b := by
  intro l
  induction l with
  | nil => intro _; exact ⟨true, rfl⟩
  | cons a as ih =>
    intro h
    obtain ⟨c, hc⟩ := h a (by simp)
    subst hc
    simp only [keyEmpty]
    split
    · exact ih (fun s hs => h s (by simp [hs]))
    · exact ⟨false, rfl⟩

/-- a plain rule whose column exists is bound to a column and gets a cell -/
theorem src_is_cell {V : Type} (titles known : List Key) (row : Row) (t : Key) (ct : Nat)
    (d : Option (Nat → V)) (sl : Slot) (s : Src) (ht : t ∈ titles)
    (hb : bindRule titles known (.col t ct d) = .ok sl) (hs : srcOf row sl = .ok s) :
    ∃ c, s = .cell c := by
  simp only [bindRule] at hb
  obtain ⟨j, hj⟩ := lookupLast_of_mem titles t ht
  rw [hj] at hb; cases hb
  simp only [srcOf] at hs
  split at hs
  · cases hs; exact ⟨_, rfl⟩
  · cases hs

/-- what "well formed" means for the rules with respect to the titles of the sheet -/
structure RulesOk {V : Type} (cv : Conv V) (cfg : Cfg V) (titles : List Key) : Prop where
  convErr : ∀ r ∈ cfg.rules, ∀ ct, r.ct? = some ct → ∀ v e, cv.conv ct v = .error e → e = .valueError
  numId : cfg.numId ≤ cfg.rules.length
  keys : ∀ k, k < cfg.numId → ∃ t ct d, cfg.rules[k]? = some (.col t ct d) ∧ t ∈ titles

theorem construct_error_wf {V : Type} (cv : Conv V) (cfg : Cfg V) (titles : List Key)
    (slots : List Slot) (k : Nat) (row : Row) (e : Err) (hw : RulesOk cv cfg titles)
    (hbind : bindTitles titles cfg.known cfg.rules = .ok slots) (hlen : row.length = titles.length)
    (h : construct cv cfg.numId cfg.rules slots k row = .error e) : e = .valueError := by
  obtain ⟨hslen, hsall⟩ := bindTitles_spec titles cfg.known cfg.rules slots hbind
  -- every slot finds its cells
  have hsrcs : ∃ srcs, mapE (srcOf row) slots = .ok srcs := by
    cases hm : mapE (srcOf row) slots with
    | ok srcs => exact ⟨srcs, rfl⟩
    | error e' =>
      obtain ⟨sl, hsl, hf⟩ := mapE_error _ _ _ hm
      obtain ⟨i, hi⟩ := List.getElem?_of_mem hsl
      have hir : i < cfg.rules.length := by have := getElem?_lt_of_some _ _ _ hi; omega
      obtain ⟨s, hs⟩ := srcOf_ok titles cfg.known row cfg.rules[i] sl hlen
        (hsall i cfg.rules[i] sl (by simp [hir]) hi)
      rw [hs] at hf; cases hf
  obtain ⟨srcs, hsrcs⟩ := hsrcs
  have hsl := mapE_length _ _ _ hsrcs
  -- the source of a plain rule whose column exists is a cell
  have hcell : ∀ (k : Nat) t ct d, cfg.rules[k]? = some (.col t ct d) → t ∈ titles →
      ∃ c, srcs[k]? = some (.cell c) := by
    intro k t ct d hr ht
    have hk : k < srcs.length := by have := getElem?_lt_of_some _ _ _ hr; omega
    obtain ⟨sl, hsl', hso⟩ := mapE_get _ _ _ hsrcs k srcs[k] (by simp [hk])
    obtain ⟨c, hc⟩ := src_is_cell titles _ row t ct d sl srcs[k] ht (hsall k _ sl hr hsl') hso
    exact ⟨c, by simp [hk, hc]⟩
  unfold construct at h
  rw [hsrcs] at h
  simp only [] at h
  have hkey : ∃ b, keyEmpty (srcs.take cfg.numId) = .ok b := by
    apply keyEmpty_cells
    intro s hs
    obtain ⟨k, hk⟩ := List.getElem?_of_mem hs
    rw [List.getElem?_take] at hk
    split at hk
    · rename_i hkn
      obtain ⟨t, ct, d, hr, ht⟩ := hw.keys k hkn
      obtain ⟨c, hc⟩ := hcell k t ct d hr ht
      rw [hc] at hk; cases hk
      exact ⟨c, rfl⟩
    · cases hk
  obtain ⟨b, hb⟩ := hkey
  rw [hb] at h
  simp only [] at h
  split at h
  · cases h
  · have hn : ¬ cfg.rules.length < cfg.numId := by have := hw.numId; omega
    simp only [hn, if_false] at h
    split at h
    · rename_i e' hz
      cases h
      obtain ⟨i, r, s, hr, hs, hi⟩ := zipInit_error cv k _ _ _ hz
      obtain ⟨sl, hsl', hso⟩ := mapE_get _ _ _ hsrcs i s hs
      exact initAttr_error cv titles _ row r sl s e k
        (hw.convErr r (List.mem_of_getElem? hr)) (hsall i r sl hr hsl') hso hi
    · split at h <;> cases h

theorem endFires_ok (stop : Stop) (row : Row) (h : 0 < row.length) : ∃ b, endFires stop row = .ok b := by
  cases stop with
  | blankAll => exact ⟨_, rfl⟩
  | blankFirst =>
    cases row with
    | nil => simp at h
    | cons c cs => exact ⟨_, rfl⟩

theorem dataRows_error_wf {V : Type} (cv : Conv V) (cfg : Cfg V) (titles : List Key)
    (slots : List Slot) (p : Option Nat) (hw : RulesOk cv cfg titles)
    (hbind : bindTitles titles cfg.known cfg.rules = .ok slots) (hpos : 0 < titles.length) :
    ∀ (rows : List Row) (k : Nat) (prev : Option Row), (∀ r ∈ rows, r.length = titles.length) →
      (∀ pr, prev = some pr → pr.length = titles.length) →
      ∀ e, (dataRows cv cfg slots p k prev rows).err = some e → e = .valueError := by
  intro rows
  induction rows with
  | nil => intro k prev _ _ e h; simp [dataRows] at h
  | cons row rest ih =>
    intro k prev hr hp e h
    have hrow := hr row (by simp)
    obtain ⟨b, hb⟩ := endFires_ok cfg.stop row (by omega)
    obtain ⟨cur, hcur, hclen⟩ := curRow_total p prev row (fun pr hpr => by rw [hp pr hpr, hrow])
    simp only [dataRows, hb, hcur] at h
    cases b with
    | true => simp at h
    | false =>
      simp only [] at h
      split at h
      · rename_i e' hc
        simp only [Option.some.injEq] at h
        subst h
        exact construct_error_wf cv cfg titles slots k cur e' hw hbind (by rw [hclen, hrow]) hc
      · exact ih _ (some cur) (fun r hr' => hr r (by simp [hr']))
          (fun pr hpr => by cases hpr; rw [hclen, hrow]) e h

theorem iterTable_error_wf {V : Type} (cv : Conv V) (cfg : Cfg V) (n : Nat) (hn : 0 < n) :
    ∀ (s : Sheet), (∀ r ∈ s, r.length = n) → RulesOk cv cfg (titlesOf s) →
      ∀ e, (iterTable cv cfg s).err = some e → e = .valueError := by
  intro s
  induction s with
  | nil => intro _ _ e h; simp [iterTable] at h
  | cons row rest ih =>
    intro hrect hw e h
    simp only [iterTable] at h
    simp only [titlesOf] at hw
    by_cases hre : rowEmpty row = true
    · simp only [hre, if_true] at h hw
      exact ih (fun r hr => hrect r (by simp [hr])) hw e h
    · have hre' : rowEmpty row = false := by
        cases hr : rowEmpty row with
        | false => rfl
        | true => exact absurd hr hre
      simp only [hre', Bool.false_eq_true, if_false] at h hw
      split at h
      · rename_i e' he
        simp only [Option.some.injEq] at h
        subst h
        unfold bindTitles at he
        obtain ⟨r, _, hr⟩ := mapE_error _ _ _ he
        exact bindRule_error _ _ r e' hr
      · rename_i slots hs
        have hl : (row.map fun c => titleOf c.val).length = n := by simp [hrect row (by simp)]
        exact dataRows_error_wf cv cfg _ slots _ hw hs (by omega) rest 0 none
          (fun r hr => by rw [hl]; exact hrect r (by simp [hr])) (by simp) e h

end Xls
