import AkVerif.Gen.C19
import AkVerif.Lemmas.CliGraphWords
/-! Helper lemmas for C19, fourth part: reachable `ArgParser` states over the configuration generated
from the source (`Gen.C19`). -/
namespace C19
open CliGraph Ak

abbrev cfg : Cfg := Gen.C19.cfg

/-- the actions every parser starts with (`nl` = the ArgParser was built with `_no_log=True`) -/
abbrev std (nl : Bool) : List OptSpec := cfg.stdOf nl

/-- what the driver requires of an `add_argument` request: distinct, non-empty option strings -/
def SpecOk (o : OptSpec) : Prop := o.strings ≠ [] ∧ o.strings.Nodup

/-- a reachable multi-command `ArgParser`: built from `ds`, then every `add_argument` of `adds` succeeded -/
def Reach (nl : Bool) (dflt : Option Name) (ds : List Decl) (adds : List (Option Name × OptSpec)) (st : St) : Prop :=
  ∃ st0, build cfg nl dflt ds = .ok st0 ∧ addAll st0 adds = .ok st

def hShort : Name := ['-', 'h']
def hLong : Name := ['-', '-', 'h', 'e', 'l', 'p']

theorem build_unfold {nl : Bool} {dflt : Option Name} {ds : List Decl} {st0 : St}
    (h : build cfg nl dflt ds = .ok st0) :
    ds ≠ [] ∧ declareAll (std nl) [] ds = .ok st0.parsers ∧ st0.default = chooseDefault dflt st0.parsers := by
  unfold build at h
  by_cases hne : ds = []
  · simp [hne] at h
  · simp only [hne, if_false] at h
    cases hd : declareAll (cfg.stdOf nl) [] ds with
    | error e => simp [hd] at h
    | ok ps =>
      simp only [hd] at h
      cases h
      exact ⟨hne, rfl, rfl⟩

theorem reach_unfold {nl : Bool} {dflt : Option Name} {ds : List Decl} {adds : List (Option Name × OptSpec)} {st : St}
    (h : Reach nl dflt ds adds st) :
    ∃ ps0, Inv (std nl) ds ps0 ∧ WF [] ds ∧ ds ≠ [] ∧ st.parsers = ps0.map (ext ps0 adds) ∧
      st.default = chooseDefault dflt ps0 := by
  obtain ⟨st0, hb, ha⟩ := h
  obtain ⟨hne, hd, hdf⟩ := build_unfold hb
  have hwf : WF [] ds := declareAll_wf ds (inv_nil (std nl)) hd
  obtain ⟨ps', he, hinv⟩ := declareAll_ok ds (inv_nil (std nl)) hwf
  rw [hd] at he
  cases he
  obtain ⟨h1, h2⟩ := addAll_ok st0.parsers adds [] st0 st (ext_nil _).symm ha
  exact ⟨st0.parsers, by simpa using hinv, hwf, hne, by simpa using h2, h1.trans hdf⟩

theorem reach_nodup {nl : Bool} {ds : List Decl} {ps0 : List Parser} {adds : List (Option Name × OptSpec)}
    (hinv : Inv (std nl) ds ps0) (hwf : WF [] ds) : (names (ps0.map (ext ps0 adds))).Nodup := by
  have : names (ps0.map (ext ps0 adds)) = names ps0 := by
    simp only [names, List.map_map]
    exact List.map_congr_left (fun q _ => rfl)
  rw [this, hinv.names]
  simpa using wf_nodup ds [] hwf (by simp)

theorem reach_names_nodup {nl dflt ds adds st} (hr : Reach nl dflt ds adds st) : (names st.parsers).Nodup := by
  obtain ⟨ps0, hinv, hwf, _, hp, _⟩ := reach_unfold hr
  exact hp ▸ reach_nodup hinv hwf

theorem reach_opts {nl dflt ds adds st} (hr : Reach nl dflt ds adds st) {q : Parser} (hq : q ∈ st.parsers) :
    ∃ extra, q.opts = std nl ++ extra := by
  obtain ⟨ps0, hinv, _, _, hp, _⟩ := reach_unfold hr
  rw [hp] at hq
  obtain ⟨q0, hq0, rfl⟩ := List.mem_map.mp hq
  exact ⟨(adds.filter (fun a => recvN ps0 a.1 q0.name)).map (·.2), by simp only [ext, hinv.opts q0 hq0]⟩

theorem reach_of_eval {nl dflt ds adds st}
    (h : (match build cfg nl dflt ds with
      | .ok st0 => addAll st0 adds
      | .error e => .error (.exc e)) = .ok st) : Reach nl dflt ds adds st := by
  cases hb : build cfg nl dflt ds with
  | error e => simp [hb] at h
  | ok st0 => exact ⟨st0, hb, by simpa [hb] using h⟩

theorem addAll_append (as bs : List (Option Name × OptSpec)) (s0 s1 : St) (h : addAll s0 as = .ok s1) :
    addAll s0 (as ++ bs) = addAll s1 bs := by
  induction as generalizing s0 with
  | nil => simp only [addAll] at h; cases h; rfl
  | cons a as ih =>
    have e1 : addAll s0 (a :: as) = match addOption s0 a.1 a.2 with
        | .error e => .error e
        | .ok st' => addAll st' as := rfl
    have e2 : addAll s0 (a :: as ++ bs) = match addOption s0 a.1 a.2 with
        | .error e => .error e
        | .ok st' => addAll st' (as ++ bs) := rfl
    rw [e1] at h
    rw [e2]
    cases ha' : addOption s0 a.1 a.2 with
    | error e => simp [ha'] at h
    | ok s2 => simp only [ha'] at h ⊢; exact ih s2 h

theorem std_noColor (nl : Bool) : (defaults (std nl) []).get noColor = some (.bool false) := by
  cases nl <;> decide +kernel

theorem reach_noColor {nl dflt ds adds st} (hr : Reach nl dflt ds adds st) {q : Parser} (hq : q ∈ st.parsers) :
    (defaults q.opts []).get noColor = some (.bool false) := by
  obtain ⟨extra, he⟩ := reach_opts hr hq
  rw [he, defaults_append]
  exact defaults_get (std_noColor nl) _

/-- arguments that start with the name of a public command go to that command's parser -/
theorem dispatch_reach {nl dflt ds adds st} (hr : Reach nl dflt ds adds st) {q : Parser} (hq : q ∈ st.parsers)
    (hpub : q.internal = false) (h1 : q.name ≠ hShort) (h2 : q.name ≠ hLong) (rest : List Name) :
    parseArgs cfg st (q.name :: rest) =
      match runParser q rest with
      | .error e => .error e
      | .ok sub => post (mergeNs [(command, .str q.name)] sub) := by
  have hn := reach_names_nodup hr
  rw [parseArgs_eq, List.map_cons, withDefault_keep _ (Or.inr (mem_firstArgNames hq hpub)),
    dispatch_public hn hq hpub h1 h2 rest]
  cases runParser q rest <;> rfl

/-- from the answer of the command's parser to the answer of `parse_args` -/
theorem parse_sub {nl dflt ds adds st} (hr : Reach nl dflt ds adds st) {q : Parser} (hq : q ∈ st.parsers)
    (hpub : q.internal = false) (h1 : q.name ≠ hShort) (h2 : q.name ≠ hLong) {rest : List Name} {sub : Ns}
    (hs : runParser q rest = .ok sub) (hnc : Has sub noColor) :
    ∃ ns, parseArgs cfg st (q.name :: rest) = .ok ns ∧ ns.get noColor = none ∧
      (∀ k v, k ≠ color → k ≠ noColor → sub.get k = some v → ns.get k = some v) ∧
      (sub.get command = none → ns.get command = some (.str q.name)) ∧
      (∀ v, sub.get noColor = some v → truthy v = true → ns.get color = some (.bool false)) ∧
      (∀ v c, sub.get noColor = some v → truthy v = false → sub.get color = some c → ns.get color = some c) := by
  obtain ⟨ns, h, hrest⟩ := final_of_sub q.name hnc
  refine ⟨ns, ?_, hrest⟩
  rw [dispatch_reach hr hq hpub h1 h2, hs]
  exact h

theorem parse_single {nl dflt ds adds st} (hr : Reach nl dflt ds adds st) {q : Parser} (hq : q ∈ st.parsers)
    (hpub : q.internal = false) (h1 : q.name ≠ hShort) (h2 : q.name ≠ hLong) {rest : List Name} {o : OptSpec}
    {v : Val} (h : SingleOk q rest o v) :
    ∃ ns, parseArgs cfg st (q.name :: rest) = .ok ns ∧ ns.get noColor = none ∧
      (destOf o ≠ color → destOf o ≠ noColor → (∀ o' ∈ posSpecs q.opts, destOf o' ≠ destOf o) →
        ns.get (destOf o) = some v) := by
  obtain ⟨sub, hs, hhas, hv, _⟩ := h.ok
  obtain ⟨ns, hp, hn, hk, _⟩ := parse_sub hr hq hpub h1 h2 hs (hhas _ (has_of_get (reach_noColor hr hq)))
  exact ⟨ns, hp, hn, fun c1 c2 c3 => hk _ _ c1 c2 (hv c3)⟩

/-- a single-command `ArgParser` after a history of successful `add_argument` calls -/
def addAllP : Parser → List OptSpec → Except Fail Parser
  | p, [] => .ok p
  | p, s :: ss =>
    match p.addOpt s with
    | .error e => .error e
    | .ok p' => addAllP p' ss

def ReachS (nl : Bool) (adds : List OptSpec) (p : Parser) : Prop :=
  addAllP (buildSingle cfg nl) adds = .ok p

theorem addAllP_opts {p p' : Parser} {adds : List OptSpec} (h : addAllP p adds = .ok p') :
    p'.opts = p.opts ++ adds := by
  induction adds generalizing p with
  | nil => simp only [addAllP] at h; cases h; simp
  | cons s ss ih =>
    unfold addAllP at h
    cases ha : p.addOpt s with
    | error e => simp [ha] at h
    | ok p1 =>
      simp only [ha] at h
      rw [ih h, addOpt_ok ha]
      simp

theorem reachS_opts {nl adds p} (h : ReachS nl adds p) : p.opts = std nl ++ adds := by
  rw [addAllP_opts h]
  rfl

end C19
