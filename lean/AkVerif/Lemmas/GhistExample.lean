import AkVerif.Lemmas.GhistInclSpec
/-!
The concrete scenario used for the non-vacuity examples of `Props/C07.lean`: a component whose history has a diamond of
reported builds and a parent with two builds pinning 10.20.2 and 10.20.4 — the histories, the graphs the model
computes for them, and the facts that discharge the hypotheses of the conditional C07 theorems on them.
-/
namespace Ghist.Ex
open Ghist Ghist.Incl Ak

def exLib : Hist Pins :=
  { commits := [⟨[], [⟨10, 20, 1, 1⟩], true, [], 0⟩, ⟨[0], [⟨10, 20, 2, 2⟩], true, [], 0⟩, ⟨[0], [⟨10, 20, 3, 3⟩], true, [], 0⟩,
                ⟨[1, 2], [⟨10, 20, 4, 4⟩], false, [], 0⟩],
    remote := "origin".toList, refs := [("origin/release/10.20".toList, 3)] }

def exApp : Hist Pins :=
  { commits := [⟨[], [⟨5, 1, 1, 1⟩], false, [(2, (10, 20, 2))], 0⟩, ⟨[0], [⟨5, 1, 2, 2⟩], false, [(2, (10, 20, 4))], 0⟩],
    remote := "origin".toList, refs := [("origin/release/5.1".toList, 1)] }

def gLib : Graph Bumps :=
  match rgraph exLib (mkPlug []) with | .ok g => g | .error _ => ⟨[], [], [], [], none⟩
theorem gLib_ok : rgraph exLib (mkPlug []) = .ok gLib := by
  have : (rgraph exLib (mkPlug [])).toBool = true := by decide +kernel
  unfold gLib
  cases h : rgraph exLib (mkPlug []) with
  | ok g => rfl
  | error e => rw [h] at this; cases this
def gApp : Graph Bumps :=
  match rgraph exApp (mkPlug [(2, gLib)]) with | .ok g => g | .error _ => ⟨[], [], [], [], none⟩
theorem gApp_ok : rgraph exApp (mkPlug [(2, gLib)]) = .ok gApp := by
  have : (rgraph exApp (mkPlug [(2, gLib)])).toBool = true := by decide +kernel
  unfold gApp
  cases h : rgraph exApp (mkPlug [(2, gLib)]) with
  | ok g => rfl
  | error e => rw [h] at this; cases this
def bApp : Branch := match (branchesOf exApp)[0]? with | some b => b | none => ⟨[], [], 0⟩
theorem bApp_ok : (branchesOf exApp)[0]? = some bApp := by
  have : ((branchesOf exApp)[0]?).isSome = true := by decide +kernel
  unfold bApp
  cases h : (branchesOf exApp)[0]? with
  | some b => rfl
  | none => rw [h] at this; cases this
def rbApp : RBranch Bumps := match gApp.all[0]? with | some b => b | none => ⟨[], [], [], []⟩
theorem rbApp_ok : gApp.all[0]? = some rbApp := by
  have : (gApp.all[0]?).isSome = true := by decide +kernel
  unfold rbApp
  cases h : gApp.all[0]? with
  | some b => rfl
  | none => rw [h] at this; cases this
theorem exApp_topo : exApp.Topo := Hist.topo_of_topoB _ (by decide)
theorem exApp_window : exApp.InWindow := Hist.inWindow_of_B (by decide)
theorem gLib_ne : gLib.bnMapAll ≠ [] := by
  have : gLib.bnMapAll.isEmpty = false := by decide +kernel
  intro h0; rw [h0] at this; cases this
theorem exApp_compWindow : CompWindow [(2, gLib)] exApp := by
  intro cg hcg
  have hcg' : cg = (2, gLib) := by
    simp only [relevantComps, List.mem_filter, List.mem_singleton] at hcg; exact hcg.1
  subst hcg'
  refine ⟨0, by decide +kernel, ?_⟩
  intro c cm _
  exact Nat.lt_of_lt_of_le (by decide) (Nat.le_add_left _ _)
theorem bApp_head : bApp.head = 1 := by decide +kernel
theorem specBuild_le {e : Nat} (hs : SpecBuild exApp ((branchesOf exApp).take 0) bApp e) : e = 0 ∨ e = 1 := by
  have := hs.2.1.le exApp_topo
  rw [bApp_head] at this
  omega
theorem pin0 : pinRb exApp 2 gLib 0 = some 2 := by decide +kernel
theorem pin1 : pinRb exApp 2 gLib 1 = some 3 := by decide +kernel
theorem rb22 : RbAnc gLib 2 2 := by
  obtain ⟨b, hb⟩ := Option.isSome_iff_exists.mp (by decide +kernel : (gLib.findBuild 2).isSome = true)
  exact .refl (by simp) hb
theorem rb33 : RbAnc gLib 3 3 := by
  obtain ⟨b, hb⟩ := Option.isSome_iff_exists.mp (by decide +kernel : (gLib.findBuild 3).isSome = true)
  exact .refl (by simp) hb
theorem rb23 : RbAnc gLib 2 3 := by
  have h3 : (gLib.findBuild 3).map (·.parents) = some [1, 2] := by decide +kernel
  cases hf : gLib.findBuild 3 with
  | none => rw [hf] at h3; cases h3
  | some b =>
    rw [hf] at h3
    simp only [Option.map_some, Option.some.injEq] at h3
    exact .step (by simp) hf (by rw [h3]; simp) rb22

/-! ### the component side of the example (for `included_first_git_partial`) -/

/-- executable test of `TagsUnique` -/
def tagsUniqueB (h : Hist Pins) : Bool :=
  ((List.range h.commits.length).all fun c1 => (List.range h.commits.length).all fun c2 =>
    match h.commits[c1]?, h.commits[c2]? with
    | some cm1, some cm2 => c1 == c2 || cm1.tags.all (fun bn => !cm2.tags.contains bn)
    | _, _ => true) &&
  h.commits.all fun cm => !cm.tags.contains fakeNB

theorem tagsUnique_of_B {h : Hist Pins} (hb : tagsUniqueB h = true) : TagsUnique h := by
  simp only [tagsUniqueB, Bool.and_eq_true] at hb
  obtain ⟨h1, h2⟩ := hb
  constructor
  · intro c1 c2 cm1 cm2 bn hc1 hc2 hb1 hb2
    have l1 : c1 < h.commits.length := (List.getElem?_eq_some_iff.mp hc1).1
    have l2 : c2 < h.commits.length := (List.getElem?_eq_some_iff.mp hc2).1
    have := List.all_eq_true.mp (List.all_eq_true.mp h1 c1 (List.mem_range.mpr l1)) c2 (List.mem_range.mpr l2)
    rw [hc1, hc2] at this
    simp only [Bool.or_eq_true, beq_iff_eq] at this
    rcases this with h3 | h3
    · exact h3
    · have := List.all_eq_true.mp h3 bn hb1
      simp at this
      exact absurd hb2 this
  · intro c cm hc hf
    have := List.all_eq_true.mp h2 cm (List.mem_of_getElem? hc)
    simp at this
    exact this hf

theorem exLib_topo : exLib.Topo := Hist.topo_of_topoB _ (by decide)
theorem exLib_window : exLib.InWindow := Hist.inWindow_of_B (by decide)
theorem exLib_tagsUnique : TagsUnique exLib := tagsUnique_of_B (by decide +kernel)
theorem gLib_len : gLib.rcs.length ≤ Gen.Ghist.fakeStart := by decide +kernel
def bLib : Branch := match (branchesOf exLib)[0]? with | some b => b | none => ⟨[], [], 0⟩
theorem bLib_ok : (branchesOf exLib)[0]? = some bLib := by
  have : ((branchesOf exLib)[0]?).isSome = true := by decide +kernel
  unfold bLib
  cases h : (branchesOf exLib)[0]? with
  | some b => rfl
  | none => rw [h] at this; cases this
def rbLib : RBranch Bumps := match gLib.all[0]? with | some b => b | none => ⟨[], [], [], []⟩
theorem rbLib_ok : gLib.all[0]? = some rbLib := by
  have : (gLib.all[0]?).isSome = true := by decide +kernel
  unfold rbLib
  cases h : gLib.all[0]? with
  | some b => rfl
  | none => rw [h] at this; cases this
theorem bLib_head : bLib.head = 3 := by decide +kernel

theorem anc13 : Anc exLib 1 3 := .step (c := 3) (p := 1) rfl (by simp) (.refl 1)

theorem spec1 : SpecBuild exLib ((branchesOf exLib).take 0) bLib 1 := by
  refine ⟨Or.inl (by decide), by rw [bLib_head]; exact anc13, ?_⟩
  intro b' hb'; simp at hb'
theorem spec3 : SpecBuild exLib ((branchesOf exLib).take 0) bLib 3 := by
  refine ⟨Or.inl (by decide), by rw [bLib_head]; exact .refl 3, ?_⟩
  intro b' hb'; simp at hb'

/-- the first parent build pins the build tag of component commit 1 (10.20.2), the second one that of commit 3 -/
theorem pinsAt0 : PinsAt exApp exLib 2 ((branchesOf exLib).take 0) bLib 0 1 :=
  ⟨_, _, _, rfl, rfl, rfl, by simp, spec1⟩
theorem pinsAt1 : PinsAt exApp exLib 2 ((branchesOf exLib).take 0) bLib 1 3 :=
  ⟨_, _, _, rfl, rfl, rfl, by simp, spec3⟩

theorem pinsAt0_eq {pre : List Branch} {cv : Nat} (hp : PinsAt exApp exLib 2 pre bLib 0 cv) : cv = 1 := by
  obtain ⟨cm, v, cmv, h1, h2, h3, h4, _⟩ := hp
  have e1 : cm = ⟨[], [⟨5, 1, 1, 1⟩], false, [(2, (10, 20, 2))], 0⟩ := by
    have : exApp.commits[0]? = some ⟨[], [⟨5, 1, 1, 1⟩], false, [(2, (10, 20, 2))], 0⟩ := rfl
    rw [this] at h1; exact (Option.some.inj h1).symm
  subst e1
  have e2 : v = (10, 20, 2) := by
    have : (([(2, (10, 20, 2))] : Pins).lookup 2) = some (10, 20, 2) := rfl
    rw [this] at h2; exact (Option.some.inj h2).symm
  subst e2
  exact exLib_tagsUnique.uniq cv 1 cmv _ _ h3 rfl h4 (by simp)

theorem pinsAt1_eq {pre : List Branch} {cv : Nat} (hp : PinsAt exApp exLib 2 pre bLib 1 cv) : cv = 3 := by
  obtain ⟨cm, v, cmv, h1, h2, h3, h4, _⟩ := hp
  have e1 : cm = ⟨[0], [⟨5, 1, 2, 2⟩], false, [(2, (10, 20, 4))], 0⟩ := by
    have : exApp.commits[1]? = some ⟨[0], [⟨5, 1, 2, 2⟩], false, [(2, (10, 20, 4))], 0⟩ := rfl
    rw [this] at h1; exact (Option.some.inj h1).symm
  subst e1
  have e2 : v = (10, 20, 4) := by
    have : (([(2, (10, 20, 4))] : Pins).lookup 2) = some (10, 20, 4) := rfl
    rw [this] at h2; exact (Option.some.inj h2).symm
  subst e2
  exact exLib_tagsUnique.uniq cv 3 cmv _ _ h3 rfl h4 (by simp)


end Ghist.Ex
