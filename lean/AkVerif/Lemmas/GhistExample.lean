import AkVerif.Lemmas.GhistInclSpec
/-!
The concrete scenario used for the non-vacuity examples of `Props/C07.lean`: a component whose history has a diamond of
reported builds and a parent with two builds pinning 10.20.2 and 10.20.4 — the histories, the graphs the model
computes for them, and the facts that discharge the hypotheses of the conditional C07 theorems on them.
-/
namespace Ghist.Ex
open Ghist Ghist.Incl Ak

def exLib : Hist Pins :=
  { commits := [⟨[], [⟨10, 20, 1, 1⟩], true, [], 0⟩, ⟨[0], [⟨10, 20, 2, 2⟩], true, [], 0⟩, ⟨[0], [⟨10, 20, 3, 3⟩], true, [], 0⟩,
                ⟨[1, 2], [⟨10, 20, 4, 4⟩], false, [], 0⟩],
    remote := "origin".toList, refs := [("origin/release/10.20".toList, 3)] }

def exApp : Hist Pins :=
  { commits := [⟨[], [⟨5, 1, 1, 1⟩], false, [(2, (10, 20, 2))], 0⟩, ⟨[0], [⟨5, 1, 2, 2⟩], false, [(2, (10, 20, 4))], 0⟩],
    remote := "origin".toList, refs := [("origin/release/5.1".toList, 1)] }

def gLib : Graph Bumps :=
  match rgraph exLib (mkPlug []) with | .ok g => g | .error _ => ⟨[], [], [], [], none⟩
theorem gLib_ok : rgraph exLib (mkPlug []) = .ok gLib := by
  have : (rgraph exLib (mkPlug [])).toBool = true := by decide +kernel
  unfold gLib
  cases h : rgraph exLib (mkPlug []) with
  | ok g => rfl
  | error e => rw [h] at this; cases this
def gApp : Graph Bumps :=
  match rgraph exApp (mkPlug [(2, gLib)]) with | .ok g => g | .error _ => ⟨[], [], [], [], none⟩
theorem gApp_ok : rgraph exApp (mkPlug [(2, gLib)]) = .ok gApp := by
  have : (rgraph exApp (mkPlug [(2, gLib)])).toBool = true := by decide +kernel
  unfold gApp
  cases h : rgraph exApp (mkPlug [(2, gLib)]) with
  | ok g => rfl
  | error e => rw [h] at this; cases this
def bApp : Branch := match (branchesOf exApp)[0]? with | some b => b | none => ⟨[], [], 0⟩
theorem bApp_ok : (branchesOf exApp)[0]? = some bApp := by
  have : ((branchesOf exApp)[0]?).isSome = true := by decide +kernel
  unfold bApp
  cases h : (branchesOf exApp)[0]? with
  | some b => rfl
  | none => rw [h] at this; cases this
def rbApp : RBranch Bumps := match gApp.all[0]? with | some b => b | none => ⟨[], [], [], []⟩
theorem rbApp_ok : gApp.all[0]? = some rbApp := by
  have : (gApp.all[0]?).isSome = true := by decide +kernel
  unfold rbApp
  cases h : gApp.all[0]? with
  | some b => rfl
  | none => rw [h] at this; cases this
theorem exApp_topo : exApp.Topo := Hist.topo_of_topoB _ (by decide)
theorem exApp_window : exApp.InWindow := Hist.inWindow_of_B (by decide)
theorem gLib_ne : gLib.bnMapAll ≠ [] := by
  have : gLib.bnMapAll.isEmpty = false := by decide +kernel
  intro h0; rw [h0] at this; cases this
theorem exApp_compWindow : CompWindow [(2, gLib)] exApp := by
  intro cg hcg
  have hcg' : cg = (2, gLib) := by
    simp only [relevantComps, List.mem_filter, List.mem_singleton] at hcg; exact hcg.1
  subst hcg'
  refine ⟨0, by decide +kernel, ?_⟩
  intro c cm _
  exact Nat.lt_of_lt_of_le (by decide) (Nat.le_add_left _ _)
theorem bApp_head : bApp.head = 1 := by decide +kernel
theorem specBuild_le {e : Nat} (hs : SpecBuild exApp ((branchesOf exApp).take 0) bApp e) : e = 0 ∨ e = 1 := by
  have := hs.2.1.le exApp_topo
  rw [bApp_head] at this
  omega
theorem pin0 : pinRb exApp 2 gLib 0 = some 2 := by decide +kernel
theorem pin1 : pinRb exApp 2 gLib 1 = some 3 := by decide +kernel
theorem rb22 : RbAnc gLib 2 2 := by
  obtain ⟨b, hb⟩ := Option.isSome_iff_exists.mp (by decide +kernel : (gLib.findBuild 2).isSome = true)
  exact .refl (by simp) hb
theorem rb33 : RbAnc gLib 3 3 := by
  obtain ⟨b, hb⟩ := Option.isSome_iff_exists.mp (by decide +kernel : (gLib.findBuild 3).isSome = true)
  exact .refl (by simp) hb
theorem rb23 : RbAnc gLib 2 3 := by
  have h3 : (gLib.findBuild 3).map (·.parents) = some [1, 2] := by decide +kernel
  cases hf : gLib.findBuild 3 with
  | none => rw [hf] at h3; cases h3
  | some b =>
    rw [hf] at h3
    simp only [Option.map_some, Option.some.injEq] at h3
    exact .step (by simp) hf (by rw [h3]; simp) rb22


end Ghist.Ex
