import AkVerif.Model.HttpConn
/-!
The base64 encoder the driver runs (`HttpConn.b64enc`) has a decoder: `b64dec (b64enc x) = some x` for
every list of bytes. With it `C17.auth_decodes` holds for the concrete instance (`C17.auth_decodes_b64`).
-/
namespace HttpConn

def b64v (c : Char) : Option Nat :=
  let n := c.toNat
  if 65 ≤ n ∧ n ≤ 90 then some (n - 65)
  else if 97 ≤ n ∧ n ≤ 122 then some (n - 71)
  else if 48 ≤ n ∧ n ≤ 57 then some (n + 4)
  else if n = 43 then some 62 else if n = 47 then some 63 else none

theorem b64_table : ∀ n, n < 64 → b64c n ≠ '=' ∧ b64v (b64c n) = some n := by decide +kernel

theorem utf8_lt (c : Char) : ∀ b ∈ utf8 c, b < 256 := by
  have hv : c.toNat < 0x110000 := by
    have := c.valid
    simp only [Char.toNat, UInt32.isValidChar, Nat.isValidChar] at *
    omega
  intro b hb
  simp only [utf8] at hb
  split at hb
  · simp at hb; omega
  · split at hb
    · simp at hb; omega
    · split at hb
      · simp at hb; omega
      · simp at hb; omega
def b64dec : Str → Option (List Nat)
  | c0 :: c1 :: c2 :: c3 :: r =>
    match b64v c0, b64v c1 with
    | some x, some y =>
      if c2 = '=' then (if c3 = '=' ∧ r = [] then some [(x * 64 + y) / 16] else none)
      else match b64v c2 with
        | none => none
        | some z =>
          if c3 = '=' then
            (if r = [] then some [(x * 4096 + y * 64 + z) / 1024, (x * 4096 + y * 64 + z) / 4 % 256] else none)
          else match b64v c3, b64dec r with
            | some w, some rest =>
              some ((x * 262144 + y * 4096 + z * 64 + w) / 65536 ::
                    (x * 262144 + y * 4096 + z * 64 + w) / 256 % 256 ::
                    (x * 262144 + y * 4096 + z * 64 + w) % 256 :: rest)
            | _, _ => none
    | _, _ => none
  | [] => some []
  | _ => none

theorem b64dec_b64enc (x : List Nat) (h : ∀ b ∈ x, b < 256) : b64dec (b64enc x) = some x := by
  fun_induction b64enc x with
  | case1 a b c r n ih =>
    have ha : a < 256 := h a (by simp)
    have hb : b < 256 := h b (by simp)
    have hc : c < 256 := h c (by simp)
    have ih' := ih (fun y hy => h y (by simp [hy]))
    have t0 := b64_table (n / 262144) (by omega)
    have t1 := b64_table (n / 4096 % 64) (by omega)
    have t2 := b64_table (n / 64 % 64) (by omega)
    have t3 := b64_table (n % 64) (by omega)
    simp only [b64dec, t0.2, t1.2, t2.2, t3.2, t2.1, t3.1, if_false, ih']
    have e : n / 262144 * 262144 + n / 4096 % 64 * 4096 + n / 64 % 64 * 64 + n % 64 = n := by omega
    rw [e]
    have e1 : n / 65536 = a := by omega
    have e2 : n / 256 % 256 = b := by omega
    have e3 : n % 256 = c := by omega
    rw [e1, e2, e3]
  | case2 a b n =>
    have ha : a < 256 := h a (by simp)
    have hb : b < 256 := h b (by simp)
    have t0 := b64_table (n / 4096) (by omega)
    have t1 := b64_table (n / 64 % 64) (by omega)
    have t2 := b64_table (n % 64) (by omega)
    simp only [b64dec, t0.2, t1.2, t2.2, t2.1, if_false, if_true]
    have e : n / 4096 * 4096 + n / 64 % 64 * 64 + n % 64 = n := by omega
    rw [e]
    have e1 : n / 1024 = a := by omega
    have e2 : n / 4 % 256 = b := by omega
    rw [e1, e2]
  | case3 a n =>
    have ha : a < 256 := h a (by simp)
    have t0 := b64_table (n / 64) (by omega)
    have t1 := b64_table (n % 64) (by omega)
    simp only [b64dec, t0.2, t1.2]
    have e : (n / 64 * 64 + n % 64) / 16 = a := by omega
    simp [e]
  | case4 => rfl
end HttpConn
