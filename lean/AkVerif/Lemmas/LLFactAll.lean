import AkVerif.Lemmas.LLSmart3
import AkVerif.Lemmas.LLFactTop
/-!
`C01.factorize_ok`, assembled: for the parser built by `construct`, the factorised dictionary
(with or without the smart undo) relates to the user's dictionary as `FactRelD` says, and its
keys are duplicate-free (the constructor's assertions exclude `__` names in keys and right-hand sides).
-/
set_option linter.unusedSectionVars false
namespace LL
open Ak

theorem userWF_nil : UserWF ([] : Prods Sym) :=
  ⟨by simp [pkeys], by simp [pkeys], by simp [psyms]⟩

theorem factRelD_of_built {inp : CtorIn} {P : Parser} (hB : Built inp P) :
    FactRelD P.userProds P.prods P.suffix ∧ (P.prods.map (·.1)).Nodup := by
  obtain ⟨hU, _⟩ := createProds_wf inp.prods 0 [] P.userProds hB.hU userWF_nil
  exact factRelD_factorize hU (terms_path_nil hB.hD) hB.hF

/-- the start symbol is one of the user's symbols when it is a key of `productions` -/
theorem start_user_of_built {inp : CtorIn} {P : Parser} (hB : Built inp P)
    (hs : inp.start ∈ inp.prods.map (·.1)) : P.start ∈ pkeys P.userProds := by
  obtain ⟨_, hk, _⟩ := createProds_wf inp.prods 0 [] P.userProds hB.hU userWF_nil
  rw [hk, hB.hstart]
  simp only [pkeys, List.map_nil, List.nil_append, List.mem_map]
  obtain ⟨e, he, hes⟩ := List.mem_map.1 hs
  exact ⟨e, he, by rw [hes]⟩

end LL
