import AkVerif.Lemmas.LLTmplC02
import AkVerif.Lemmas.LLSetsTotal
import AkVerif.Lemmas.LLCtorN
import AkVerif.Lemmas.LLCtorRec
/-!
Totality of the set computations on the dictionaries the constructor meets:

* `later_stages_total` — once `_verify_grammar_structure_part1` passed, nullables / FIRST / FOLLOW / the table
  never fail on the factorised dictionary: the stages between part 1 and the recursion check cannot raise;
* `user_sets_total`, `user_sets_total_G` — for a constructed parser the three set functions also succeed on the
  dictionary **the user wrote** (its symbols are terminals or keys, the start symbol is a key), which removes the
  hypotheses `hFU`/`hWU` of "LL(1) as written ⇒ not ambiguous" (`ll1_unambiguous'`, `ll1_unambiguous_G'`);
* `construct_rec_iff'`, `constructGN_rec_iff'` — the constructor-level iff of C03 without the FIRST / FOLLOW /
  table hypotheses.
-/
set_option linter.unusedSectionVars false
namespace LL
open Ak

theorem knownSyms_of_psyms {terms : List Sym} {G : Prods Sym}
    (h : ∀ s ∈ psyms G, s ∈ terms ∨ s ∈ pkeys G) : KnownSyms terms G :=
  fun X rules hm r hr s hs => h s (mem_psyms.2 ⟨X, rules, hm, r, hr, hs⟩)

/-- after part 1 of the structure check the remaining computations before the recursion check cannot fail -/
theorem later_stages_total {terms : List Sym} {start : Sym} {G : Prods Sym}
    (hV : verifyPart1 terms start G = .ok ()) (hend : endSym ∈ terms) :
    ∃ N F W Tb, nullables G = .ok N ∧ firstSets terms N G = .ok F ∧
      followSets terms N F G start endSym = .ok W ∧ mkTable terms N F W G = .ok Tb := by
  have h1 := verifyPart1_ok hV
  exact sets_total terms G start endSym (knownSyms_of_psyms h1.known) h1.startKey hend

section G
variable {T : Tmpl} {inp : CtorIn} {P : Parser}

/-- the three set functions succeed on the (expanded) dictionary the user wrote -/
theorem user_sets_total_G (hB : BuiltG T inp P) (hpl : PlainNames inp.prods)
    (hstart : inp.start ∈ inp.prods.map (·.1)) :
    ∃ NU FU WU, nullables P.userProds = .ok NU ∧ firstSets P.terminals NU P.userProds = .ok FU ∧
      followSets P.terminals NU FU P.userProds P.start endSym = .ok WU := by
  obtain ⟨hk, _, hs, he⟩ := userDict_facts_G hB hpl hstart
  obtain ⟨N, F, W, _, h1, h2, h3, _⟩ :=
    sets_total P.terminals P.userProds P.start endSym (knownSyms_of_psyms hk) hs he
  exact ⟨N, F, W, h1, h2, h3⟩

/-- "LL(1) as written ⇒ not ambiguous" with the user's sets existentially provided by the model -/
theorem ll1_unambiguous_G' (hP : constructG T inp = .ok P) (hpl : PlainNames inp.prods)
    (hne : ∀ X rules, (X, rules) ∈ P.userProds → rules ≠ [])
    (hstart : inp.start ∈ inp.prods.map (·.1)) :
    ∃ NU FU WU, nullables P.userProds = .ok NU ∧ firstSets P.terminals NU P.userProds = .ok FU ∧
      followSets P.terminals NU FU P.userProds P.start endSym = .ok WU ∧
      ((∀ X rules, (X, rules) ∈ P.userProds → rules.Pairwise (PredDisjoint P.terminals NU FU WU X)) →
        isAmbiguous P.table = false) := by
  obtain ⟨NU, FU, WU, h1, h2, h3⟩ := user_sets_total_G (constructG_built hP) hpl hstart
  exact ⟨NU, FU, WU, h1, h2, h3, fun hLL => ll1_unambiguous_G hP hpl h1 h2 h3 hne hstart hLL⟩

end G

/-! ### the same for `construct` (no templates) -/

/-- a dictionary `_create_productions` accepts has no helper-shaped names -/
theorem plainNames_of_createProds : ∀ (prods : List (List Char × List (List (List Char)))) (n : Nat)
    (acc U : Prods Sym), createProds n prods acc = .ok U → PlainNames prods
  | [], _, _, _, _ => by intro e he; cases he
  | (s, alts) :: rest, n, acc, U, h => by
    simp only [createProds] at h
    split at h
    · simp at h
    · rename_i h1
      split at h
      · simp at h
      · rename_i h2
        split at h
        · simp at h
        · have ih := plainNames_of_createProds rest _ _ U h
          have h1' : hasDunder s = false := by simpa using h1
          have h2' : ∀ p ∈ alts, ∀ x ∈ p, hasDunder x = false := by
            intro p hp x hx
            cases hd : hasDunder x with
            | false => rfl
            | true =>
              exfalso; apply h2
              simp only [List.any_eq_true]
              exact ⟨p, hp, x, hx, hd⟩
          intro e he
          rcases List.mem_cons.1 he with he | he
          · subst he
            exact ⟨by rw [parseSym_plain h1'], fun p hp x hx => by rw [parseSym_plain (h2' p hp x hx)]⟩
          · exact ih e he

theorem constructG_of_construct {inp : CtorIn} {P : Parser} (h : construct inp = .ok P) :
    constructG Tmpl.none inp = .ok P ∧ PlainNames inp.prods := by
  refine ⟨by rw [constructG_none]; exact h, ?_⟩
  exact plainNames_of_createProds inp.prods 0 [] P.userProds (construct_built h).hU

theorem user_sets_total {inp : CtorIn} {P : Parser} (hP : construct inp = .ok P)
    (hstart : inp.start ∈ inp.prods.map (·.1)) :
    ∃ NU FU WU, nullables P.userProds = .ok NU ∧ firstSets P.terminals NU P.userProds = .ok FU ∧
      followSets P.terminals NU FU P.userProds P.start endSym = .ok WU := by
  obtain ⟨hG, hpl⟩ := constructG_of_construct hP
  exact user_sets_total_G (constructG_built hG) hpl hstart

theorem ll1_unambiguous' {inp : CtorIn} {P : Parser} (hP : construct inp = .ok P)
    (hne : ∀ X rules, (X, rules) ∈ P.userProds → rules ≠ [])
    (hstart : inp.start ∈ inp.prods.map (·.1)) :
    ∃ NU FU WU, nullables P.userProds = .ok NU ∧ firstSets P.terminals NU P.userProds = .ok FU ∧
      followSets P.terminals NU FU P.userProds P.start endSym = .ok WU ∧
      ((∀ X rules, (X, rules) ∈ P.userProds → rules.Pairwise (PredDisjoint P.terminals NU FU WU X)) →
        isAmbiguous P.table = false) := by
  obtain ⟨hG, hpl⟩ := constructG_of_construct hP
  exact ll1_unambiguous_G' hG hpl hne hstart

/-! ### the constructor-level iff of C03 without the FIRST / FOLLOW / table hypotheses -/

theorem mem_sadd_end (l : List Sym) : endSym ∈ sadd l endSym := mem_sadd.2 (Or.inr rfl)

theorem construct_rec_iff' {inp : CtorIn} {skip : List Sym} {U G : Prods Sym} {S NU : List Sym}
    (hD : (tokenNames inp).any (fun t => hasDunder t.name) = false)
    (hskip : skipSet inp (tokenNames inp) = .ok skip)
    (hU : createProds 0 inp.prods [] = .ok U)
    (hF : factorize (tokenNames inp) U inp.smart = .ok (G, S))
    (hV : verifyPart1 (sadd (tokenNames inp) endSym) (parseSym inp.start) G = .ok ())
    (hNU : nullables U = .ok NU) :
    (construct inp = .error .grammarIsRecursive ↔ ∃ X, Plus (Reach1 U NU) X X) ∧
    ((∃ P, construct inp = .ok P) ↔ ¬ ∃ X, Plus (Reach1 U NU) X X) := by
  obtain ⟨N, F, W, Tb, hN, hFi, hFo, hT⟩ := later_stages_total hV (mem_sadd_end _)
  exact construct_rec_iff hD hskip hU hF hV hN hFi hFo hT hNU

theorem constructGN_rec_iff' {nonull : List (List Char)} {T : Tmpl} {inp : CtorIn} {skip : List Sym}
    {U G : Prods Sym} {S NG NU : List Sym} (hpl : PlainNames inp.prods)
    (hD : (tokenNames inp).any (fun t => hasDunder t.name) = false)
    (hskip : skipSet inp (tokenNames inp) = .ok skip)
    (hU : createProdsT T 0 inp.prods [] = .ok U)
    (hF : factorize (tokenNames inp) U inp.smart = .ok (G, S))
    (hV : verifyPart1 (sadd (tokenNames inp) endSym) (parseSym inp.start) G = .ok ())
    (hN : nullables G = .ok NG)
    (hVT : ∀ n ∈ nonull, parseSym n ∉ NG)
    (hNU : nullables U = .ok NU) :
    (constructGN nonull T inp = .error .grammarIsRecursive ↔ ∃ X, Plus (Reach1 U NU) X X) ∧
    ((∃ P, constructGN nonull T inp = .ok P) ↔ ¬ ∃ X, Plus (Reach1 U NU) X X) := by
  obtain ⟨N, F, W, Tb, hN', hFi, hFo, hT⟩ := later_stages_total hV (mem_sadd_end _)
  rw [hN] at hN'
  cases hN'
  exact constructGN_rec_iff hpl hD hskip hU hF hV hN hVT hFi hFo hT hNU

end LL
