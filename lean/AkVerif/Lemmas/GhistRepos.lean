import AkVerif.Model.GhistComp
import AkVerif.Lemmas.GhistOrder
/-!
The ordering DFS of `ReposCollection.__init__` (`sortRepos`): the result is a topological order of the
dependency graph restricted to the supplied repositories, a `ValueError` is raised exactly for cyclic graphs, and
nothing else can happen.
-/
namespace Ghist
open Ak

section
variable (ids : List Nat) (deps : Nat → List Nat)

/-- `a` lists `b` among its components and `b` is one of the supplied repositories -/
def Edge (a b : Nat) : Prop := b ∈ deps a ∧ b ∈ ids

/-- non-empty dependency path -/
inductive DPath : Nat → Nat → Prop
  | one {a b : Nat} : Edge ids deps a b → DPath a b
  | cons {a b c : Nat} : Edge ids deps a b → DPath b c → DPath a c

def Cyclic : Prop := ∃ a, DPath ids deps a a

variable {ids deps}

theorem DPath.snoc {a b c : Nat} (h : DPath ids deps a b) (e : Edge ids deps b c) : DPath ids deps a c := by
  induction h with
  | one e1 => exact .cons e1 (.one e)
  | cons e1 _ ih => exact .cons e1 (ih e)

theorem DPath.trans {a b c : Nat} (h1 : DPath ids deps a b) (h2 : DPath ids deps b c) : DPath ids deps a c := by
  induction h1 with
  | one e1 => exact .cons e1 h2
  | cons e1 _ ih => exact .cons e1 (ih h2)

/-- topological order, read from the end: everything a repository depends on stands before it -/
def TopoR : List Nat → Prop
  | [] => True
  | a :: l => (∀ b, Edge ids deps a b → b ∈ l) ∧ TopoR l

theorem TopoR.mem_of_path : ∀ {l : List Nat}, @TopoR ids deps l → ∀ {a b}, a ∈ l → DPath ids deps a b → b ∈ l := by
  intro l
  induction l with
  | nil => intro _ a b ha; cases ha
  | cons x l ih =>
    intro ht a b ha hp
    induction hp with
    | one e =>
      rcases List.mem_cons.mp ha with h | h
      · subst h; exact List.mem_cons_of_mem _ (ht.1 _ e)
      · exact List.mem_cons_of_mem _ (ih ht.2 h (.one e))
    | cons e _ ih2 =>
      apply ih2
      rcases List.mem_cons.mp ha with h | h
      · subst h; exact List.mem_cons_of_mem _ (ht.1 _ e)
      · exact List.mem_cons_of_mem _ (ih ht.2 h (.one e))

theorem TopoR.acyclic : ∀ {l : List Nat}, @TopoR ids deps l → l.Nodup → ∀ a ∈ l, ¬ DPath ids deps a a := by
  intro l
  induction l with
  | nil => intro _ _ a ha; cases ha
  | cons x l ih =>
    intro ht hnd a ha hp
    rw [List.nodup_cons] at hnd
    rcases List.mem_cons.mp ha with h | h
    · subst h
      -- the first edge leads into `l`, the path stays in `l` and comes back to `a ∉ l`
      cases hp with
      | one e => exact hnd.1 (ht.1 _ e)
      | cons e hp' =>
        have hb := ht.1 _ e
        exact hnd.1 (TopoR.mem_of_path ht.2 hb hp')
    · exact ih ht.2 hnd.2 a h hp

/-- the stack of path names: every entry depends on the one above it (`c :: p` : `c` is the top) -/
def Stack : List Nat → Prop
  | [] => True
  | [_] => True
  | x :: y :: r => Edge ids deps y x ∧ Stack (y :: r)

theorem Stack.path_to_top : ∀ {p : List Nat} {c d : Nat}, @Stack ids deps (c :: p) → d ∈ c :: p →
    d = c ∨ DPath ids deps d c := by
  intro p
  induction p with
  | nil => intro c d _ hd; simp at hd; exact Or.inl hd
  | cons y r ih =>
    intro c d hs hd
    rcases List.mem_cons.mp hd with h | h
    · exact Or.inl h
    · right
      rcases ih hs.2 h with h1 | h1
      · subst h1; exact .one hs.1
      · exact h1.snoc hs.1

/-- invariant of `(done_repos, sorted_repos)` -/
structure OrdInv (st : List Nat × List Nat) : Prop where
  same : ∀ x, x ∈ st.1 ↔ x ∈ st.2
  nodup : st.2.Nodup
  sub : ∀ x ∈ st.2, x ∈ ids
  topo : @TopoR ids deps st.2.reverse

theorem mem_ascending (l : List Nat) (a : Nat) : a ∈ ascending l ↔ a ∈ l := mem_sortBy _ l a

theorem mem_subsOf (done : List Nat) (cur d : Nat) :
    d ∈ subsOf ids deps done cur ↔ Edge ids deps cur d ∧ d ∉ done := by
  simp only [subsOf, mem_ascending, List.mem_filter, Edge, Bool.and_eq_true, List.contains_eq_mem,
    decide_eq_true_eq, Bool.not_eq_true', decide_eq_false_iff_not]
  constructor
  · rintro ⟨h1, h2, h3⟩; exact ⟨⟨h1, h2⟩, h3⟩
  · rintro ⟨⟨h1, h2⟩, h3⟩; exact ⟨h1, h2, h3⟩

/-- result of one look at `cur` -/
inductive VisitRes (st : List Nat × List Nat) (path : List Nat) (cur : Nat) :
    Except Err (List Nat × List Nat) → Prop
  | ok (st' : List Nat × List Nat) : @OrdInv ids deps st' → cur ∈ st'.1 → (∀ x ∈ st.1, x ∈ st'.1) →
      VisitRes st path cur (.ok st')
  | cycle : Cyclic ids deps → VisitRes st path cur (.error .valueError)

/-- a repository whose components are all done is appended (or was done already): one unit of fuel is enough -/
theorem visitRepo_ready (fuel : Nat) (st : List Nat × List Nat) (path : List Nat) (cur : Nat)
    (hI : @OrdInv ids deps st) (hcur : cur ∈ ids) (hready : ∀ d, Edge ids deps cur d → d ∈ st.1) :
    @VisitRes ids deps st path cur (visitRepo ids deps (fuel + 1) st path cur) := by
  obtain ⟨done, sorted⟩ := st
  rw [visitRepo]
  split
  · rename_i hd
    exact .ok _ hI (by simpa using hd) (fun x hx => hx)
  · rename_i hd
    have hd : cur ∉ done := by simpa using hd
    have hsubs : subsOf ids deps done cur = [] := by
      cases hs : subsOf ids deps done cur with
      | nil => rfl
      | cons d l =>
        have hd' : d ∈ subsOf ids deps done cur := by rw [hs]; simp
        obtain ⟨h1, h2⟩ := (mem_subsOf done cur d).mp hd'
        exact absurd (hready d h1) h2
    simp only [hsubs, List.isEmpty_nil, if_true]
    refine .ok _ ⟨?_, ?_, ?_, ?_⟩ (by simp) (fun x hx => List.mem_cons_of_mem _ hx)
    · intro x
      simp only [List.mem_cons, List.mem_append, List.not_mem_nil, or_false]
      rw [hI.same x]
      constructor
      · rintro (h | h); exact Or.inr h; exact Or.inl h
      · rintro (h | h); exact Or.inr h; exact Or.inl h
    · simp only
      rw [List.nodup_append]
      refine ⟨hI.nodup, by simp, ?_⟩
      intro a ha b hb
      simp at hb; subst hb
      intro hab; subst hab
      exact hd ((hI.same _).mpr ha)
    · intro x hx
      simp only [List.mem_append, List.mem_cons, List.not_mem_nil, or_false] at hx
      rcases hx with hx | hx
      · exact hI.sub x hx
      · subst hx; exact hcur
    · simp only [List.reverse_append, List.reverse_cons, List.reverse_nil, List.nil_append,
        List.singleton_append]
      refine ⟨?_, hI.topo⟩
      intro b hb
      rw [List.mem_reverse, ← hI.same b]
      exact hready b hb

theorem visitRepo_spec : ∀ (fuel : Nat) (st : List Nat × List Nat) (path : List Nat) (cur : Nat),
    @OrdInv ids deps st → @Stack ids deps (cur :: path) → (cur :: path).Nodup → (∀ x ∈ cur :: path, x ∈ ids) →
    ids.length + 1 ≤ fuel + path.length →
    @VisitRes ids deps st path cur (visitRepo ids deps fuel st path cur) := by
  intro fuel
  induction fuel with
  | zero =>
    intro st path cur _ _ hnd hsub hfuel
    exfalso
    have := List.Nodup.length_le_of_subset hnd (fun x hx => hsub x hx)
    simp at this hfuel; omega
  | succ fuel ih =>
    intro st path cur hI hS hnd hsub hfuel
    have hlen : path.length + 1 ≤ ids.length := by
      have := List.Nodup.length_le_of_subset hnd (fun x hx => hsub x hx)
      simpa using this
    by_cases hready : ∀ d, Edge ids deps cur d → d ∈ st.1
    · exact visitRepo_ready fuel st path cur hI (hsub cur (by simp)) hready
    obtain ⟨done, sorted⟩ := st
    rw [visitRepo]
    split
    · rename_i hd
      exact .ok _ hI (by simpa using hd) (fun x hx => hx)
    · rename_i hd
      have hd : cur ∉ done := by simpa using hd
      simp only
      split
      · rename_i hsubs
        have hsubs : subsOf ids deps done cur = [] := by simpa using hsubs
        exfalso
        apply hready
        intro d he
        apply Classical.byContradiction
        intro hdd
        have : d ∈ subsOf ids deps done cur := (mem_subsOf done cur d).mpr ⟨he, hdd⟩
        rw [hsubs] at this; cases this
      · rename_i hsubs
        split
        · -- a component is on the path: cycle
          rename_i hcyc
          obtain ⟨d, hd1, hd2⟩ := List.any_eq_true.mp hcyc
          have hd2 : d ∈ cur :: path := by simpa using hd2
          have he := ((mem_subsOf done cur d).mp hd1).1
          refine .cycle ⟨d, ?_⟩
          rcases Stack.path_to_top hS hd2 with h | h
          · subst h; exact .one he
          · exact h.snoc he
        · rename_i hcyc
          have hcyc : ∀ d ∈ subsOf ids deps done cur, d ∉ cur :: path := by
            intro d hd1 hd2
            apply hcyc
            exact List.any_eq_true.mpr ⟨d, hd1, by simpa using hd2⟩
          -- the fold over the components
          have hfold : ∀ (l : List Nat) (st0 : List Nat × List Nat), @OrdInv ids deps st0 →
              (∀ x ∈ (done, sorted).1, x ∈ st0.1) → (∀ d ∈ l, d ∈ subsOf ids deps done cur) →
              (∃ st1, l.foldlM (fun st d => visitRepo ids deps fuel st (cur :: path) d) st0 = .ok st1 ∧
                @OrdInv ids deps st1 ∧ (∀ x ∈ st0.1, x ∈ st1.1) ∧ ∀ d ∈ l, d ∈ st1.1) ∨
              (l.foldlM (fun st d => visitRepo ids deps fuel st (cur :: path) d) st0 = .error .valueError ∧
                Cyclic ids deps) := by
            intro l
            induction l with
            | nil => intro st0 h0 _ _; exact Or.inl ⟨st0, rfl, h0, fun x hx => hx, by simp⟩
            | cons d l ihl =>
              intro st0 h0 hmono hl
              have hdsub := hl d (by simp)
              have hnc := hcyc d hdsub
              have hspec := ih st0 (cur :: path) d h0
                ⟨((mem_subsOf done cur d).mp hdsub).1, hS⟩
                (List.nodup_cons.mpr ⟨hnc, hnd⟩)
                (by
                  intro x hx
                  rcases List.mem_cons.mp hx with h | h
                  · subst h; exact ((mem_subsOf done cur x).mp hdsub).1.2
                  · exact hsub x h)
                (by simp at hfuel ⊢; omega)
              rw [List.foldlM_cons]
              cases hspec' : visitRepo ids deps fuel st0 (cur :: path) d with
              | error e =>
                rw [hspec'] at hspec
                cases hspec with
                | cycle hc => exact Or.inr ⟨rfl, hc⟩
              | ok st1 =>
                rw [hspec'] at hspec
                cases hspec with
                | ok _ h1 hd1 hm1 =>
                  rcases ihl st1 h1 (fun x hx => hm1 x (hmono x hx)) (fun d' hd' => hl d' (by simp [hd'])) with
                    ⟨st2, hf2, h2, hm2, hl2⟩ | ⟨hf2, hc⟩
                  · refine Or.inl ⟨st2, hf2, h2, fun x hx => hm2 x (hm1 x hx), ?_⟩
                    intro d' hd'
                    rcases List.mem_cons.mp hd' with h | h
                    · subst h; exact hm2 _ hd1
                    · exact hl2 d' h
                  · exact Or.inr ⟨hf2, hc⟩
          rcases hfold (subsOf ids deps done cur).reverse (done, sorted) hI (fun x hx => hx)
              (fun d hd => List.mem_reverse.mp hd) with ⟨st1, hf1, h1, hm1, hl1⟩ | ⟨hf1, hc⟩
          · rw [hf1]
            simp only
            have hready1 : ∀ d, Edge ids deps cur d → d ∈ st1.1 := by
              intro d he
              by_cases hdd : d ∈ done
              · exact hm1 d hdd
              · exact hl1 d (List.mem_reverse.mpr ((mem_subsOf done cur d).mpr ⟨he, hdd⟩))
            have hfuel1 : ∃ f, fuel = f + 1 := ⟨fuel - 1, by omega⟩
            obtain ⟨f, hf⟩ := hfuel1
            have hre := visitRepo_ready f st1 path cur h1 (hsub cur (by simp)) hready1
            rw [← hf] at hre
            cases hre' : visitRepo ids deps fuel st1 path cur with
            | error e =>
              rw [hre'] at hre
              cases hre with
              | cycle hc => exact .cycle hc
            | ok st2 =>
              rw [hre'] at hre
              cases hre with
              | ok _ h2 hc2 hm2 => exact .ok _ h2 hc2 (fun x hx => hm2 x (hm1 x hx))
          · rw [hf1]
            exact .cycle hc

/-- a fold of `visitRepo` over a level list whose elements satisfy the step specification -/
theorem fold_spec (f : List Nat × List Nat → Nat → Except Err (List Nat × List Nat)) (p : List Nat) :
    ∀ (l : List Nat) (st0 : List Nat × List Nat), @OrdInv ids deps st0 →
      (∀ st d, @OrdInv ids deps st → d ∈ l → @VisitRes ids deps st p d (f st d)) →
      (∃ st1, l.foldlM f st0 = .ok st1 ∧ @OrdInv ids deps st1 ∧ (∀ x ∈ st0.1, x ∈ st1.1) ∧ ∀ d ∈ l, d ∈ st1.1) ∨
      (l.foldlM f st0 = .error .valueError ∧ Cyclic ids deps) := by
  intro l
  induction l with
  | nil => intro st0 h0 _; exact Or.inl ⟨st0, rfl, h0, fun x hx => hx, by simp⟩
  | cons d l ihl =>
    intro st0 h0 hstep
    have hspec := hstep st0 d h0 (by simp)
    rw [List.foldlM_cons]
    cases hspec' : f st0 d with
    | error e =>
      rw [hspec'] at hspec
      cases hspec with
      | cycle hc => exact Or.inr ⟨rfl, hc⟩
    | ok st1 =>
      rw [hspec'] at hspec
      cases hspec with
      | ok _ h1 hd1 hm1 =>
        rcases ihl st1 h1 (fun st d' hI hd' => hstep st d' hI (by simp [hd'])) with
          ⟨st2, hf2, h2, hm2, hl2⟩ | ⟨hf2, hc⟩
        · refine Or.inl ⟨st2, hf2, h2, fun x hx => hm2 x (hm1 x hx), ?_⟩
          intro d' hd'
          rcases List.mem_cons.mp hd' with h | h
          · subst h; exact hm2 _ hd1
          · exact hl2 d' h
        · exact Or.inr ⟨hf2, hc⟩

theorem ordInv_empty : @OrdInv ids deps ([], []) :=
  { same := fun _ => Iff.rfl
    nodup := List.nodup_nil
    sub := fun x hx => by cases hx
    topo := trivial }

/-- `sortRepos` either returns a topological order of all repositories or raises `ValueError` on a cyclic graph -/
theorem sortRepos_spec (hnd : ids.Nodup) :
    (∃ l, sortRepos ids deps = .ok l ∧ l.Perm ids ∧ @TopoR ids deps l.reverse) ∨
    (sortRepos ids deps = .error .valueError ∧ Cyclic ids deps) := by
  unfold sortRepos
  simp only
  have hstep : ∀ (st : List Nat × List Nat) (d : Nat), @OrdInv ids deps st → d ∈ (ascending ids).reverse →
      @VisitRes ids deps st [] d (visitRepo ids deps (2 * ids.length + 2) st [] d) := by
    intro st d hI hd
    have hd' : d ∈ ids := (mem_ascending ids d).mp (List.mem_reverse.mp hd)
    exact visitRepo_spec _ st [] d hI (by simp [Stack]) (by simp) (by intro x hx; simp at hx; subst hx; exact hd')
      (by simp; omega)
  rcases fold_spec (fun st d => visitRepo ids deps (2 * ids.length + 2) st [] d) [] (ascending ids).reverse ([], [])
      ordInv_empty hstep with ⟨st1, hf, h1, _, hl⟩ | ⟨hf, hc⟩
  · left
    rw [hf]
    obtain ⟨done, sorted⟩ := st1
    refine ⟨sorted, rfl, ?_, h1.topo⟩
    apply (List.perm_ext_iff_of_nodup h1.nodup hnd).mpr
    intro a
    constructor
    · exact h1.sub a
    · intro ha
      exact (h1.same a).mp (hl a (List.mem_reverse.mpr ((mem_ascending ids a).mpr ha)))
  · right
    rw [hf]
    exact ⟨rfl, hc⟩

theorem topoR_split : ∀ (r1 : List Nat) (l r2 : List Nat) (a : Nat), @TopoR ids deps l → l = r1 ++ a :: r2 →
    ∀ b, Edge ids deps a b → b ∈ r2 := by
  intro r1
  induction r1 with
  | nil => intro l r2 a ht hl b he; subst hl; exact ht.1 b he
  | cons x r1 ih => intro l r2 a ht hl b he; subst hl; exact ih _ r2 a ht.2 rfl b he

theorem topoR_reverse_split (l : List Nat) (ht : @TopoR ids deps l.reverse)
    (l1 l2 : List Nat) (a : Nat) (hl : l = l1 ++ a :: l2) (b : Nat) (he : Edge ids deps a b) : b ∈ l1 := by
  have : l.reverse = l2.reverse ++ a :: l1.reverse := by subst hl; simp
  exact List.mem_reverse.mp (topoR_split l2.reverse _ l1.reverse a ht this b he)

/-! ### the result does not depend on the order in which the repositories are supplied -/

theorem visitRepo_congr (ids' : List Nat) (hc : ∀ x, ids.contains x = ids'.contains x) :
    ∀ (fuel : Nat) (st : List Nat × List Nat) (path : List Nat) (cur : Nat),
      visitRepo ids deps fuel st path cur = visitRepo ids' deps fuel st path cur := by
  have hsubs : ∀ done cur, subsOf ids deps done cur = subsOf ids' deps done cur := by
    intro done cur
    simp only [subsOf, hc]
  intro fuel
  induction fuel with
  | zero => intro st path cur; simp [visitRepo]
  | succ fuel ih =>
    intro st path cur
    obtain ⟨done, sorted⟩ := st
    rw [visitRepo, visitRepo]
    simp only [hsubs]
    have : (fun st d => visitRepo ids deps fuel st (cur :: path) d) =
        (fun st d => visitRepo ids' deps fuel st (cur :: path) d) := by
      funext st d; exact ih st _ d
    rw [this]
    split
    · rfl
    · split
      · rfl
      · split
        · rfl
        · split
          · rfl
          · exact ih _ _ _

theorem ascending_perm {l l' : List Nat} (hp : l.Perm l') : ascending l = ascending l' := by
  apply List.Perm.eq_of_pairwise (le := fun a b => a ≤ b)
  · intro a b _ _ h1 h2; omega
  · have := sortBy_sorted (fun a b : Nat => decide (a < b)) (by intro a b h; simp at h ⊢; omega)
      (by intro a b c h1 h2; simp at h1 h2 ⊢; omega) l
    exact this.imp (by intro a b h; simp at h; omega)
  · have := sortBy_sorted (fun a b : Nat => decide (a < b)) (by intro a b h; simp at h ⊢; omega)
      (by intro a b c h1 h2; simp at h1 h2 ⊢; omega) l'
    exact this.imp (by intro a b h; simp at h; omega)
  · exact ((sortBy_perm _ l).trans hp).trans (sortBy_perm _ l').symm

theorem sortRepos_perm {ids' : List Nat} (hp : ids.Perm ids') : sortRepos ids deps = sortRepos ids' deps := by
  unfold sortRepos
  have hc : ∀ x, ids.contains x = ids'.contains x := by
    intro x
    have := hp.mem_iff (a := x)
    cases h1 : ids.contains x <;> cases h2 : ids'.contains x <;> simp_all
  have hlen : ids.length = ids'.length := hp.length_eq
  have : (fun st d => visitRepo ids deps (2 * ids.length + 2) st [] d) =
      (fun st d => visitRepo ids' deps (2 * ids'.length + 2) st [] d) := by
    funext st d; rw [hlen]; exact visitRepo_congr ids' hc _ st [] d
  simp only [this, ascending_perm hp]

end

end Ghist
