import AkVerif.Lemmas.SrcPosTok
/-!
C04 helper lemmas: the tokens cover the text (`tokenize_cover`); the configurations the scanner
reaches (`Reach`) and lexical errors as the first reachable character no pattern matches.
-/
namespace SrcPos
open Ak

/-- the position of column `c` (0-based) of line `i` (0-based) -/
def at_ (i c : Nat) : Pos := ⟨1 + i, c + 1⟩

/-- what becomes of an open span during one pass: it is closed by a token that starts where the
span started and ends behind the current column, or it stays open and nothing is emitted -/
theorem Run_spanFate {cfg : Cfg} {re : Re} {i : Nat} {line : List Char} {col : Nat} {st st' : St}
    {ts : List Tok} (h : Run cfg re i line col st st' ts) (sp : SpanSt) (hs : st.span = some sp) :
    (∃ t ∈ ts, t.s = sp.start ∧ at_ i col < t.e) ∨
    (ts = [] ∧ ∃ sp', st'.span = some sp' ∧ sp'.start = sp.start) := by
  cases h with
  | done _ => exact Or.inr ⟨rfl, sp, hs, rfl⟩
  | spanMiss hlt hs' hb =>
    rw [hs] at hs'; cases hs'
    exact Or.inr ⟨rfl, _, rfl, rfl⟩
  | spanClose hlt hs' hb hadv hrun =>
    rw [hs] at hs'; cases hs'
    refine Or.inl ⟨_, List.mem_cons_self, rfl, ?_⟩
    simp [spanTok, at_, Pos.lt_def]; omega
  | opener hlt hs' => rw [hs] at hs'; cases hs'
  | token hlt hs' => rw [hs] at hs'; cases hs'

theorem Run_cover {cfg : Cfg} {re : Re} {i : Nat} {line : List Char} {col : Nat} {st st' : St}
    {ts : List Tok} (h : Run cfg re i line col st st' ts) :
    (∀ sp, st.span = some sp → sp.start ≤ at_ i col) →
    (∀ c, col ≤ c → c < line.length →
      (∃ t ∈ ts, t.s ≤ at_ i c ∧ at_ i c < t.e) ∨ (∃ sp, st'.span = some sp ∧ sp.start ≤ at_ i c)) ∧
    (∀ sp, st'.span = some sp → sp.start.line ≤ 1 + i) := by
  induction h with
  | @done col st hn =>
    intro hsp
    refine ⟨fun c h1 h2 => absurd h2 (by omega), ?_⟩
    intro sp hs
    have := hsp sp hs
    simp only [at_, Pos.le_def] at this; omega
  | @spanMiss col st sp hlt hs hb =>
    intro hsp
    have h0 := hsp sp hs
    constructor
    · intro c h1 h2
      right
      refine ⟨_, rfl, ?_⟩
      simp only [at_, Pos.le_def] at h0 ⊢; omega
    · intro sp' hs'
      simp at hs'; subst hs'
      simp only [at_, Pos.le_def] at h0 ⊢; omega
  | @spanClose col st sp m st' ts hlt hs hb hadv hrun ih =>
    intro hsp
    have h0 := hsp sp hs
    obtain ⟨ih1, ih2⟩ := ih (by intro sp h; simp at h)
    refine ⟨?_, ih2⟩
    intro c h1 h2
    by_cases hc : c < m.stop
    · left
      refine ⟨_, List.mem_cons_self, ?_, ?_⟩
      · simp only [spanTok, at_, Pos.le_def] at h0 ⊢; omega
      · simp [spanTok, at_, Pos.lt_def]; omega
    · rcases ih1 c (by omega) h2 with ⟨t, ht, h⟩ | h
      · exact Or.inl ⟨t, List.mem_cons_of_mem _ ht, h⟩
      · exact Or.inr h
  | @opener col st m st' ts hlt hs hm hadv hk hrun ih =>
    intro hsp
    have hnew : ∀ sp, (⟨st.prevEnd, some ⟨m.kind, ⟨1 + i, col + 1⟩, []⟩⟩ : St).span = some sp →
        sp.start ≤ at_ i m.stop := by
      intro sp h; simp at h; subst h
      simp [at_, Pos.le_def]; omega
    obtain ⟨ih1, ih2⟩ := ih hnew
    refine ⟨?_, ih2⟩
    intro c h1 h2
    by_cases hc : c < m.stop
    · rcases Run_spanFate hrun _ rfl with ⟨t, ht, h3, h4⟩ | ⟨_, sp', h3, h4⟩
      · left
        refine ⟨t, ht, ?_, ?_⟩
        · rw [h3]; simp [at_, Pos.le_def]; omega
        · simp only [at_, Pos.lt_def] at h4 ⊢; omega
      · right
        refine ⟨sp', h3, ?_⟩
        rw [h4]; simp [at_, Pos.le_def]; omega
    · exact ih1 c (by omega) h2
  | @token col st m st' ts hlt hs hm hadv hk hrun ih =>
    intro hsp
    obtain ⟨ih1, ih2⟩ := ih (by intro sp h; simp at h)
    refine ⟨?_, ih2⟩
    intro c h1 h2
    by_cases hc : c < m.stop
    · left
      refine ⟨_, List.mem_cons_self, ?_, ?_⟩
      · simp [plainTok, at_, Pos.le_def]; omega
      · simp [plainTok, at_, Pos.lt_def]; omega
    · rcases ih1 c (by omega) h2 with ⟨t, ht, h⟩ | h
      · exact Or.inl ⟨t, List.mem_cons_of_mem _ ht, h⟩
      · exact Or.inr h

theorem RunLines_spanFate {cfg : Cfg} {re : Re} {i : Nat} {lines : List (List Char)} {st st' : St}
    {ts : List Tok} (h : RunLines cfg re i lines st st' ts) :
    ∀ sp, st.span = some sp →
    (∃ t ∈ ts, t.s = sp.start ∧ 1 + i ≤ t.e.line) ∨ (∃ sp', st'.span = some sp' ∧ sp'.start = sp.start) := by
  induction h with
  | nil => intro sp hs; exact Or.inr ⟨sp, hs, rfl⟩
  | @cons i l ls st st1 st2 ts1 ts2 h1 _ ih =>
    intro sp hs
    rcases Run_spanFate h1 sp hs with ⟨t, ht, h3, h4⟩ | ⟨_, sp', h3, h4⟩
    · left
      refine ⟨t, List.mem_append_left _ ht, h3, ?_⟩
      simp only [at_, Pos.lt_def] at h4; omega
    · rcases ih sp' h3 with ⟨t, ht, h5, h6⟩ | ⟨sp'', h5, h6⟩
      · exact Or.inl ⟨t, List.mem_append_right _ ht, h5.trans h4, by omega⟩
      · exact Or.inr ⟨sp'', h5, h6.trans h4⟩

theorem RunLines_cover {cfg : Cfg} {re : Re} {i : Nat} {lines : List (List Char)} {st st' : St}
    {ts : List Tok} (h : RunLines cfg re i lines st st' ts) :
    (∀ sp, st.span = some sp → sp.start ≤ at_ i 0) →
    ∀ k line c, lines[k]? = some line → c < line.length →
      (∃ t ∈ ts, t.s ≤ at_ (i + k) c ∧ at_ (i + k) c < t.e) ∨
      (∃ sp, st'.span = some sp ∧ sp.start ≤ at_ (i + k) c) := by
  induction h with
  | nil => intro _ k line c hl; simp at hl
  | @cons i l ls st st1 st2 ts1 ts2 h1 h2 ih =>
    intro hsp k line c hl hc
    obtain ⟨c1, c2⟩ := Run_cover h1 hsp
    cases k with
    | zero =>
      simp at hl; subst hl
      rcases c1 c (Nat.zero_le _) hc with ⟨t, ht, h⟩ | ⟨sp, hs, hle⟩
      · exact Or.inl ⟨t, List.mem_append_left _ ht, h⟩
      · rcases RunLines_spanFate h2 sp hs with ⟨t, ht, h5, h6⟩ | ⟨sp', h5, h6⟩
        · left
          refine ⟨t, List.mem_append_right _ ht, h5 ▸ hle, ?_⟩
          simp only [at_, Pos.lt_def]; left; simp; omega
        · exact Or.inr ⟨sp', h5, h6 ▸ hle⟩
    | succ k =>
      simp at hl
      have hsp1 : ∀ sp, st1.span = some sp → sp.start ≤ at_ (i + 1) 0 := by
        intro sp hs
        have := c2 sp hs
        simp only [at_, Pos.le_def]; omega
      rcases ih hsp1 k line c hl hc with ⟨t, ht, h⟩ | h
      · left
        refine ⟨t, List.mem_append_right _ ht, ?_⟩
        rw [show i + (k + 1) = i + 1 + k by omega]; exact h
      · right
        rw [show i + (k + 1) = i + 1 + k by omega]; exact h

/-- the tokens cover the text: every character of every line the tokenizer iterates over lies inside
the span of a token -/
theorem tokenize_cover {cfg : Cfg} {re : Re} {lines : List (List Char)} {toks : List Tok}
    (h : tokenize Bases.std cfg re lines = .ok toks) (i : Nat) (line : List Char) (c : Nat)
    (hl : lines[i]? = some line) (hc : c < line.length) :
    ∃ t ∈ toks.dropLast, t.s ≤ at_ i c ∧ at_ i c < t.e := by
  obtain ⟨st, ts, hrun, hnone, rfl⟩ := tokenize_ok h
  rcases RunLines_cover hrun (by intro sp h; simp at h) i line c hl hc with ⟨t, ht, h⟩ | ⟨sp, hs, _⟩
  · exact ⟨t, by simpa using ht, by simpa using h⟩
  · rw [hnone] at hs; cases hs


/-! ## reachable configurations and lexical errors -/

/-- the configurations (line, column, group of the open span) the scanner goes through -/
inductive Reach (cfg : Cfg) (re : Re) (lines : List (List Char)) : Nat → Nat → Option Nat → Prop
  | start : Reach cfg re lines 0 0 none
  | token {i c line m} : Reach cfg re lines i c none → lines[i]? = some line → c < line.length →
      re.norm i c = some m → c < m.stop → ¬ m.kind ∈ cfg.spanKinds → Reach cfg re lines i m.stop none
  | opener {i c line m} : Reach cfg re lines i c none → lines[i]? = some line → c < line.length →
      re.norm i c = some m → c < m.stop → m.kind ∈ cfg.spanKinds →
      Reach cfg re lines i m.stop (some m.kind)
  | close {i c line k m} : Reach cfg re lines i c (some k) → lines[i]? = some line → c < line.length →
      re.body k i c = some m → c < m.stop → Reach cfg re lines i m.stop none
  | miss {i c line k} : Reach cfg re lines i c (some k) → lines[i]? = some line → c < line.length →
      re.body k i c = none → Reach cfg re lines (i + 1) 0 (some k)
  | eol {i c line s} : Reach cfg re lines i c s → lines[i]? = some line → ¬ c < line.length →
      Reach cfg re lines (i + 1) 0 s

def St.kind (st : St) : Option Nat := st.span.map (·.kind)

/-- from this configuration the rest of the text is tokenized successfully -/
def Succ (cfg : Cfg) (re : Re) (lines : List (List Char)) (i c : Nat) (s : Option Nat) : Prop :=
  (∃ line, lines[i]? = some line ∧ ∃ st st1 st' ts1 ts2, st.kind = s ∧
    Run cfg re i line c st st1 ts1 ∧ RunLines cfg re (i + 1) (lines.drop (i + 1)) st1 st' ts2 ∧
    st'.span = none) ∨
  (lines.length ≤ i ∧ s = none)

theorem succ_next {cfg : Cfg} {re : Re} {lines : List (List Char)} {i : Nat} {st1 st' : St}
    {ts2 : List Tok} (h : RunLines cfg re (i + 1) (lines.drop (i + 1)) st1 st' ts2)
    (hn : st'.span = none) : Succ cfg re lines (i + 1) 0 st1.kind := by
  generalize hd : lines.drop (i + 1) = rest at h
  cases h with
  | nil =>
    right
    refine ⟨?_, by simp [St.kind, hn]⟩
    have := congrArg List.length hd
    simp at this; omega
  | @cons _ l ls _ st2 _ ts1 ts2 h1 h2 =>
    left
    have hl : lines[i + 1]? = some l := by
      have := congrArg (fun x => x[0]?) hd
      simpa using this
    have hd' : lines.drop (i + 1 + 1) = ls := by
      have := congrArg (fun x => x.drop 1) hd
      simpa using this
    exact ⟨l, hl, st1, st2, st', ts1, ts2, rfl, h1, hd' ▸ h2, hn⟩

theorem reach_succ {cfg : Cfg} {re : Re} {lines : List (List Char)} {toks : List Tok}
    (h : tokenize Bases.std cfg re lines = .ok toks) {i c : Nat} {s : Option Nat}
    (hr : Reach cfg re lines i c s) : Succ cfg re lines i c s := by
  induction hr with
  | start =>
    obtain ⟨st, ts, hrun, hnone, _⟩ := tokenize_ok h
    have : Succ cfg re lines (0 + 0) 0 (St.kind ⟨⟨1, 1⟩, none⟩) := by
      cases hrun with
      | nil => right; simp [St.kind]
      | @cons _ l ls _ st1 _ ts1 ts2 h1 h2 =>
        left
        exact ⟨l, by simp, _, st1, st, ts1, ts2, rfl, h1, by simpa using h2, hnone⟩
    simpa [St.kind] using this
  | @token i c line m _ hl hc hm hadv hk ih =>
    rcases ih with ⟨line', hl', st, st1, st', ts1, ts2, hkind, hrun, hrest, hn⟩ | ⟨hlen, _⟩
    · rw [hl] at hl'; cases hl'
      have hs : st.span = none := by simpa [St.kind] using hkind
      left
      cases hrun with
      | done hn' => exact absurd hc hn'
      | spanMiss _ hs' => rw [hs] at hs'; cases hs'
      | spanClose _ hs' => rw [hs] at hs'; cases hs'
      | opener _ _ hm' _ hk' => rw [hm] at hm'; cases hm'; exact absurd hk' hk
      | token _ _ hm' _ _ hrun' =>
        rw [hm] at hm'; cases hm'
        exact ⟨line, hl, _, st1, st', _, ts2, by simp [St.kind], hrun', hrest, hn⟩
    · have := (List.getElem?_eq_some_iff.mp hl).1; omega
  | @opener i c line m _ hl hc hm hadv hk ih =>
    rcases ih with ⟨line', hl', st, st1, st', ts1, ts2, hkind, hrun, hrest, hn⟩ | ⟨hlen, _⟩
    · rw [hl] at hl'; cases hl'
      have hs : st.span = none := by simpa [St.kind] using hkind
      left
      cases hrun with
      | done hn' => exact absurd hc hn'
      | spanMiss _ hs' => rw [hs] at hs'; cases hs'
      | spanClose _ hs' => rw [hs] at hs'; cases hs'
      | token _ _ hm' _ hk' => rw [hm] at hm'; cases hm'; exact absurd hk hk'
      | opener _ _ hm' _ _ hrun' =>
        rw [hm] at hm'; cases hm'
        exact ⟨line, hl, _, st1, st', _, ts2, by simp [St.kind], hrun', hrest, hn⟩
    · have := (List.getElem?_eq_some_iff.mp hl).1; omega
  | @close i c line k m _ hl hc hm hadv ih =>
    rcases ih with ⟨line', hl', st, st1, st', ts1, ts2, hkind, hrun, hrest, hn⟩ | ⟨hlen, hs⟩
    · rw [hl] at hl'; cases hl'
      obtain ⟨sp, hs, hk⟩ : ∃ sp, st.span = some sp ∧ sp.kind = k := by
        simpa [St.kind] using hkind
      subst hk
      left
      cases hrun with
      | done hn' => exact absurd hc hn'
      | spanMiss _ hs' hb => rw [hs] at hs'; cases hs'; rw [hm] at hb; cases hb
      | opener _ hs' => rw [hs] at hs'; cases hs'
      | token _ hs' => rw [hs] at hs'; cases hs'
      | spanClose _ hs' hb _ hrun' =>
        rw [hs] at hs'; cases hs'
        rw [hm] at hb; cases hb
        exact ⟨line, hl, _, st1, st', _, ts2, by simp [St.kind], hrun', hrest, hn⟩
    · cases hs
  | @miss i c line k _ hl hc hm ih =>
    rcases ih with ⟨line', hl', st, st1, st', ts1, ts2, hkind, hrun, hrest, hn⟩ | ⟨hlen, hs⟩
    · rw [hl] at hl'; cases hl'
      obtain ⟨sp, hs, hk⟩ : ∃ sp, st.span = some sp ∧ sp.kind = k := by
        simpa [St.kind] using hkind
      subst hk
      cases hrun with
      | done hn' => exact absurd hc hn'
      | opener _ hs' => rw [hs] at hs'; cases hs'
      | token _ hs' => rw [hs] at hs'; cases hs'
      | spanClose _ hs' hb => rw [hs] at hs'; cases hs'; rw [hm] at hb; cases hb
      | spanMiss _ hs' hb =>
        rw [hs] at hs'; cases hs'
        have := succ_next hrest hn
        simpa [St.kind] using this
    · cases hs
  | @eol i c line s _ hl hc ih =>
    rcases ih with ⟨line', hl', st, st1, st', ts1, ts2, hkind, hrun, hrest, hn⟩ | ⟨hlen, _⟩
    · rw [hl] at hl'; cases hl'
      cases hrun with
      | done _ =>
        have := succ_next hrest hn
        rw [hkind] at this; exact this
      | spanMiss h' => exact absurd h' hc
      | spanClose h' => exact absurd h' hc
      | opener h' => exact absurd h' hc
      | token h' => exact absurd h' hc
    · have := (List.getElem?_eq_some_iff.mp hl).1; omega

/-- If the text is tokenized, every character the scan reaches outside a span is matched by the token
pattern (contrapositive: a reachable character no pattern matches makes `tokenize` fail). -/
theorem tokenize_complete {cfg : Cfg} {re : Re} {lines : List (List Char)} {toks : List Tok}
    (h : tokenize Bases.std cfg re lines = .ok toks) {i c : Nat} {line : List Char}
    (hr : Reach cfg re lines i c none) (hl : lines[i]? = some line) (hc : c < line.length) :
    ∃ m, re.norm i c = some m := by
  rcases reach_succ h hr with ⟨line', hl', st, st1, st', ts1, ts2, hkind, hrun, _, _⟩ | ⟨hlen, _⟩
  · rw [hl] at hl'; cases hl'
    have hs : st.span = none := by simpa [St.kind] using hkind
    cases hrun with
    | done hn' => exact absurd hc hn'
    | spanMiss _ hs' => rw [hs] at hs'; cases hs'
    | spanClose _ hs' => rw [hs] at hs'; cases hs'
    | opener _ _ hm => exact ⟨_, hm⟩
    | token _ _ hm => exact ⟨_, hm⟩
  · have := (List.getElem?_eq_some_iff.mp hl).1; omega

theorem Run_reach {cfg : Cfg} {re : Re} {all : List (List Char)} {i : Nat} {line : List Char} {col : Nat}
    {st st' : St} {ts : List Tok} (h : Run cfg re i line col st st' ts) (hl : all[i]? = some line) :
    Reach cfg re all i col st.kind → Reach cfg re all (i + 1) 0 st'.kind := by
  induction h with
  | done hn => intro hr; exact .eol hr hl hn
  | @spanMiss col st sp hlt hs hb =>
    intro hr
    have hk : st.kind = some sp.kind := by simp [St.kind, hs]
    rw [hk] at hr
    exact .miss hr hl hlt hb
  | @spanClose col st sp m st' ts hlt hs hb hadv hrun ih =>
    intro hr
    have hk : st.kind = some sp.kind := by simp [St.kind, hs]
    rw [hk] at hr
    exact ih (.close hr hl hlt hb hadv)
  | @opener col st m st' ts hlt hs hm hadv hk hrun ih =>
    intro hr
    have hk' : st.kind = none := by simp [St.kind, hs]
    rw [hk'] at hr
    exact ih (.opener hr hl hlt hm hadv hk)
  | @token col st m st' ts hlt hs hm hadv hk hrun ih =>
    intro hr
    have hk' : st.kind = none := by simp [St.kind, hs]
    rw [hk'] at hr
    exact ih (.token hr hl hlt hm hadv hk)

theorem scanLine_lexical_reach (cfg : Cfg) (re : Re) (all : List (List Char)) (i : Nat)
    (line : List Char) (hl : all[i]? = some line) (fuel col : Nat) (st : St) :
    ∀ p, Reach cfg re all i col st.kind →
      scanLine Bases.std cfg re i line fuel col st = .error (.lexical p) →
      ∃ c, Reach cfg re all i c none ∧ c < line.length ∧ re.norm i c = none ∧ p = ⟨1 + i, c⟩ := by
  fun_induction scanLine Bases.std cfg re i line fuel col st <;> intro p hr h
  all_goals first | (cases h; done) | skip
  · rename_i st hlt _ sp hs m hm hadv _ x hrec ih
    cases h
    have hk : st.kind = some sp.kind := by simp [St.kind, hs]
    rw [hk] at hr
    exact ih p (.close hr hl hlt hm hadv) hrec
  · rename_i col st hlt lineId hs hm
    cases h
    have hk : st.kind = none := by simp [St.kind, hs]
    rw [hk] at hr
    exact ⟨col, hr, hlt, hm, by simp +zetaDelta [Bases.std]⟩
  · rename_i st hlt _ hs m hm hadv _ _ hk ih
    have hk' : st.kind = none := by simp [St.kind, hs]
    rw [hk'] at hr
    exact ih p (.opener hr hl hlt hm hadv hk) h
  · rename_i st hlt _ hs m hm hadv hk _ x hrec ih
    cases h
    have hk' : st.kind = none := by simp [St.kind, hs]
    rw [hk'] at hr
    exact ih p (.token hr hl hlt hm hadv hk) hrec

theorem Reach_le {cfg : Cfg} {re : Re} {lines : List (List Char)} {i c : Nat} {s : Option Nat}
    (h : Reach cfg re lines i c s) : i ≤ lines.length := by
  induction h with
  | start => omega
  | token _ hl => have := (List.getElem?_eq_some_iff.mp hl).1; omega
  | opener _ hl => have := (List.getElem?_eq_some_iff.mp hl).1; omega
  | close _ hl => have := (List.getElem?_eq_some_iff.mp hl).1; omega
  | miss _ hl => have := (List.getElem?_eq_some_iff.mp hl).1; omega
  | eol _ hl => have := (List.getElem?_eq_some_iff.mp hl).1; omega

theorem scanLines_lexical_reach (cfg : Cfg) (re : Re) (all lines : List (List Char)) :
    ∀ i st, all.drop i = lines → Reach cfg re all i 0 st.kind →
      (∀ p, scanLines Bases.std cfg re i lines st = .error (.lexical p) →
        ∃ i c line, Reach cfg re all i c none ∧ all[i]? = some line ∧ c < line.length ∧
          re.norm i c = none ∧ p = ⟨1 + i, c⟩) ∧
      (∀ st' ts, scanLines Bases.std cfg re i lines st = .ok (st', ts) →
        Reach cfg re all all.length 0 st'.kind) := by
  induction lines with
  | nil =>
    intro i st hd hr
    have hlen : all.length ≤ i := by simpa using hd
    constructor
    · intro p h; simp [scanLines] at h
    · intro st' ts h
      simp [scanLines] at h
      have hi : i = all.length := by have := Reach_le hr; omega
      rw [← h.1, ← hi]; exact hr
  | cons l ls ih =>
    intro i st hd hr
    have hl : all[i]? = some l := by
      have := congrArg (fun x => x[0]?) hd
      simpa using this
    have hd' : all.drop (i + 1) = ls := by
      have := congrArg (fun x => x.drop 1) hd
      simpa using this
    constructor
    · intro p h
      unfold scanLines at h
      split at h
      · rename_i x hx
        cases h
        obtain ⟨c, h1, h2, h3, h4⟩ := scanLine_lexical_reach cfg re all i l hl _ _ _ _ hr hx
        exact ⟨i, c, l, h1, hl, h2, h3, h4⟩
      · rename_i st1 ts1 h1
        have hr1 := Run_reach (scanLine_run _ _ _ _ _ _ _ _ _ h1) hl hr
        split at h
        · rename_i x hx
          cases h
          exact (ih _ _ hd' hr1).1 _ hx
        · cases h
    · intro st' ts h
      unfold scanLines at h
      split at h
      · cases h
      · rename_i st1 ts1 h1
        have hr1 := Run_reach (scanLine_run _ _ _ _ _ _ _ _ _ h1) hl hr
        split at h
        · cases h
        · rename_i st2 ts2 h2
          cases h
          exact (ih _ _ hd' hr1).2 _ _ h2

/-- A `LexicalError` is raised at the first character the scan reaches that no token pattern matches,
and names its line (1-based) and column (0-based); or the end of the text is reached inside a span. -/
theorem tokenize_lexical_reach {cfg : Cfg} {re : Re} {lines : List (List Char)} {p : Pos}
    (h : tokenize Bases.std cfg re lines = .error (.lexical p)) :
    (∃ i c line, Reach cfg re lines i c none ∧ lines[i]? = some line ∧ c < line.length ∧
      re.norm i c = none ∧ p = ⟨1 + i, c⟩) ∨
    (∃ k, Reach cfg re lines lines.length 0 (some k)) := by
  have hstart : Reach cfg re lines 0 0 (St.kind ⟨⟨1, 1⟩, none⟩) := .start
  obtain ⟨h1, h2⟩ := scanLines_lexical_reach cfg re lines lines 0 _ (by simp) hstart
  unfold tokenize at h
  split at h
  · rename_i x hx
    cases h
    exact Or.inl (h1 _ hx)
  · rename_i st ts hs
    split at h
    · rename_i sp hsp
      right
      have := h2 _ _ hs
      exact ⟨sp.kind, by simpa [St.kind, hsp] using this⟩
    · cases h


/-! ## the scan is deterministic: it stops at most once -/

/-- a configuration of the scanner: line, column, group of the open span -/
structure Conf where
  i : Nat
  c : Nat
  s : Option Nat
  deriving DecidableEq

/-- the scanner as a function: the next configuration, `none` when it stops (end of the text, a
character no pattern matches, a match that does not advance) -/
def stepConf (cfg : Cfg) (re : Re) (lines : List (List Char)) (x : Conf) : Option Conf :=
  match lines[x.i]? with
  | none => none
  | some line =>
    if x.c < line.length then
      match x.s with
      | none =>
        match re.norm x.i x.c with
        | none => none
        | some m =>
          if x.c < m.stop then some ⟨x.i, m.stop, if m.kind ∈ cfg.spanKinds then some m.kind else none⟩
          else none
      | some k =>
        match re.body k x.i x.c with
        | none => some ⟨x.i + 1, 0, some k⟩
        | some m => if x.c < m.stop then some ⟨x.i, m.stop, none⟩ else none
    else some ⟨x.i + 1, 0, x.s⟩

def iterConf (cfg : Cfg) (re : Re) (lines : List (List Char)) : Nat → Conf → Option Conf
  | 0, x => some x
  | n + 1, x =>
    match iterConf cfg re lines n x with
    | none => none
    | some y => stepConf cfg re lines y

theorem reach_iter {cfg : Cfg} {re : Re} {lines : List (List Char)} {i c : Nat} {s : Option Nat}
    (h : Reach cfg re lines i c s) : ∃ n, iterConf cfg re lines n ⟨0, 0, none⟩ = some ⟨i, c, s⟩ := by
  induction h with
  | start => exact ⟨0, rfl⟩
  | token _ hl hc hm hadv hk ih =>
    obtain ⟨n, hn⟩ := ih
    exact ⟨n + 1, by simp [iterConf, hn, stepConf, hl, hc, hm, hadv, hk]⟩
  | opener _ hl hc hm hadv hk ih =>
    obtain ⟨n, hn⟩ := ih
    exact ⟨n + 1, by simp [iterConf, hn, stepConf, hl, hc, hm, hadv, hk]⟩
  | close _ hl hc hm hadv ih =>
    obtain ⟨n, hn⟩ := ih
    exact ⟨n + 1, by simp [iterConf, hn, stepConf, hl, hc, hm, hadv]⟩
  | miss _ hl hc hm ih =>
    obtain ⟨n, hn⟩ := ih
    exact ⟨n + 1, by simp [iterConf, hn, stepConf, hl, hc, hm]⟩
  | eol _ hl hc ih =>
    obtain ⟨n, hn⟩ := ih
    exact ⟨n + 1, by simp [iterConf, hn, stepConf, hl, hc]⟩

theorem iter_stuck {cfg : Cfg} {re : Re} {lines : List (List Char)} {x0 x : Conf} {n : Nat}
    (hx : iterConf cfg re lines n x0 = some x) (hs : stepConf cfg re lines x = none) :
    ∀ k, iterConf cfg re lines (n + 1 + k) x0 = none := by
  intro k
  induction k with
  | zero => simp [iterConf, hx, hs]
  | succ k ih => rw [show n + 1 + (k + 1) = (n + 1 + k) + 1 by omega]; simp [iterConf, ih]

/-- the scan stops at most once: two reachable configurations at which the scanner cannot go on are
the same configuration -/
theorem stuck_unique {cfg : Cfg} {re : Re} {lines : List (List Char)} {x y : Conf}
    {n m : Nat} (hx : iterConf cfg re lines n ⟨0, 0, none⟩ = some x)
    (hy : iterConf cfg re lines m ⟨0, 0, none⟩ = some y)
    (sx : stepConf cfg re lines x = none) (sy : stepConf cfg re lines y = none) : x = y := by
  rcases Nat.lt_trichotomy n m with h | h | h
  · have := iter_stuck hx sx (m - n - 1)
    rw [show n + 1 + (m - n - 1) = m by omega, hy] at this; cases this
  · subst h; rw [hx] at hy; cases hy; rfl
  · have := iter_stuck hy sy (n - m - 1)
    rw [show m + 1 + (n - m - 1) = n by omega, hx] at this; cases this

/-- there is only one reachable character (outside a span) that no token pattern matches -/
theorem unmatched_unique {cfg : Cfg} {re : Re} {lines : List (List Char)} {i c i' c' : Nat}
    {line line' : List Char}
    (h1 : Reach cfg re lines i c none) (hl : lines[i]? = some line) (hc : c < line.length)
    (hn : re.norm i c = none)
    (h2 : Reach cfg re lines i' c' none) (hl' : lines[i']? = some line') (hc' : c' < line'.length)
    (hn' : re.norm i' c' = none) : i = i' ∧ c = c' := by
  obtain ⟨n, hx⟩ := reach_iter h1
  obtain ⟨m, hy⟩ := reach_iter h2
  have := stuck_unique hx hy (by simp [stepConf, hl, hc, hn]) (by simp [stepConf, hl', hc', hn'])
  cases this; exact ⟨rfl, rfl⟩


/-- A reachable character (outside a span) that no token pattern matches makes `tokenize` raise the
`LexicalError` at exactly that character — it cannot succeed, run out of fuel, or end in "span never closed". -/
theorem tokenize_unmatched {cfg : Cfg} {re : Re} (hadv : ReAdv re) {lines : List (List Char)} {i c : Nat}
    {line : List Char} (hr : Reach cfg re lines i c none) (hl : lines[i]? = some line)
    (hc : c < line.length) (hn : re.norm i c = none) :
    tokenize Bases.std cfg re lines = .error (.lexical ⟨1 + i, c⟩) := by
  cases hres : tokenize Bases.std cfg re lines with
  | ok toks =>
    obtain ⟨m, hm⟩ := tokenize_complete hres hr hl hc
    rw [hn] at hm; cases hm
  | error x =>
    cases x with
    | py e => exact absurd hres (tokenize_no_py cfg re hadv lines e)
    | lexical p =>
      rcases tokenize_lexical_reach hres with ⟨i', c', line', h1, h2, h3, h4, rfl⟩ | ⟨k, hk⟩
      · obtain ⟨rfl, rfl⟩ := unmatched_unique hr hl hc hn h1 h2 h3 h4
        rfl
      · exfalso
        obtain ⟨n, hx⟩ := reach_iter hr
        obtain ⟨m, hy⟩ := reach_iter hk
        have := stuck_unique hx hy (by simp [stepConf, hl, hc, hn]) (by simp [stepConf])
        cases this

end SrcPos
