import AkVerif.Lemmas.LLFact
/-!
Second part of the factorisation proof: where symbols may occur in the produced rules
(`factorizeList_occ`), `factorizeAll`, the relation `FactRelD` between the user's dictionary and
the factorised one, established for `factorize … false` (no smart undo) and transported to the
parser-level record `FactRel`.
-/
set_option linter.unusedSectionVars false
namespace LL
open Ak

/-- the factorisation relation on dictionaries (no parser involved) -/
structure FactRelD (U G : Prods Sym) (S : List Sym) : Prop where
  inner : ∀ s rules, (s, rules) ∈ G → ∀ r ∈ rules, ∀ x ∈ r.rhs.dropLast, x ∉ S
  flatIn : ∀ s, s ∉ S → ∀ e, FlatD G S s e → e ∈ gramRules U s
  flatOut : ∀ s p, p ∈ gramRules U s → FlatD G S s p
  keys : ∀ s ∈ pkeys U, s ∈ pkeys G
  keysBack : ∀ s ∈ pkeys G, s ∉ S → s ∈ pkeys U
  sufKeys : ∀ s ∈ S, s ∈ pkeys G
  sufNotUser : ∀ s ∈ S, s ∉ pkeys U

/-- what the constructor's checks and the shape of the input guarantee about the user's dictionary -/
structure UserWF (U : Prods Sym) : Prop where
  nodup : (pkeys U).Nodup
  keyUser : ∀ k ∈ pkeys U, k.path = []
  symUser : ∀ s ∈ psyms U, s.path = []

/-! ### occurrences of symbols in the produced rules -/

/-- every rule produced for a key of the result: all symbols but the last are symbols of the given
rules; the last one is such a symbol or a child of the key (`key.suf g`) that is itself a key of the result -/
def OccOK (_sym : Sym) (rules : List (Rule Sym)) (d : Prods Sym) : Prop :=
  ∀ k rs', (k, rs') ∈ d → ∀ r ∈ rs',
    (∀ x ∈ r.rhs.dropLast, x ∈ rulesSyms rules) ∧
    (∀ l, r.rhs.getLast? = some l → l ∈ rulesSyms rules ∨ (∃ g, l = k.suf g ∧ l ∈ pkeys d))

theorem mem_of_mem_dropLast' {α : Type} {x : α} : ∀ {l : List α}, x ∈ l.dropLast → x ∈ l
  | [], h => by simp at h
  | [_], h => by simp at h
  | a :: b :: l, h => by
    simp only [List.dropLast_cons_cons, List.mem_cons] at h
    rcases h with h | h
    · simp [h]
    · exact List.mem_cons_of_mem _ (mem_of_mem_dropLast' h)

theorem mem_rulesSyms_of_dropLast {rules : List (Rule Sym)} {r : Rule Sym} (hr : r ∈ rules) {x : Sym}
    (hx : x ∈ r.rhs.dropLast) : x ∈ rulesSyms rules :=
  mem_rulesSyms.2 ⟨r, hr, mem_of_mem_dropLast' hx⟩

theorem factorizeChunks_occ {recur : Sym → List (Rule Sym) → Except Err (Prods Sym)}
    (hshape : ShapeOK recur) (hrec : ∀ s rl d, recur s rl = .ok d → OccOK s rl d) (sym : Sym) :
    ∀ (chunks : List (List (Rule Sym))) (gid : Nat) (rs : List (Rule Sym)) (sp : Prods Sym),
    factorizeChunks recur sym chunks gid = .ok (rs, sp) →
    (∀ r ∈ rs, (∀ x ∈ r.rhs.dropLast, x ∈ rulesSyms chunks.flatten) ∧
      (∀ l, r.rhs.getLast? = some l → l ∈ rulesSyms chunks.flatten ∨ (∃ g, l = sym.suf g ∧ l ∈ pkeys sp))) ∧
    (∀ k rs', (k, rs') ∈ sp → ∀ r ∈ rs',
      (∀ x ∈ r.rhs.dropLast, x ∈ rulesSyms chunks.flatten) ∧
      (∀ l, r.rhs.getLast? = some l → l ∈ rulesSyms chunks.flatten ∨ (∃ g, l = k.suf g ∧ l ∈ pkeys sp)))
  | [], gid, rs, sp, h => by
    obtain ⟨e1, e2⟩ := factorizeChunks_nil h
    subst e1; subst e2
    exact ⟨by simp, by simp⟩
  | [] :: rest, gid, rs, sp, h => by simp [factorizeChunks] at h
  | [r] :: rest, gid, rs, sp, h => by
    obtain ⟨rs', e, h'⟩ := factorizeChunks_single h
    subst e
    obtain ⟨ih1, ih2⟩ := factorizeChunks_occ hshape hrec sym rest gid rs' sp h'
    have hsub : ∀ x, x ∈ rulesSyms rest.flatten → x ∈ rulesSyms ([r] :: rest).flatten := by
      intro x hx
      obtain ⟨r', hr', hx'⟩ := mem_rulesSyms.1 hx
      exact mem_rulesSyms.2 ⟨r', by simp [hr'], hx'⟩
    constructor
    · intro r' hr'
      simp only [List.mem_cons] at hr'
      rcases hr' with hr' | hr'
      · subst hr'
        refine ⟨fun x hx => mem_rulesSyms_of_dropLast (by simp) hx, fun l hl => Or.inl ?_⟩
        exact mem_rulesSyms.2 ⟨r', by simp, List.mem_of_getLast? hl⟩
      · obtain ⟨a, b⟩ := ih1 r' hr'
        refine ⟨fun x hx => hsub x (a x hx), fun l hl => ?_⟩
        rcases b l hl with b | b
        · exact Or.inl (hsub l b)
        · exact Or.inr b
    · intro k rs'' hk r' hr'
      obtain ⟨a, b⟩ := ih2 k rs'' hk r' hr'
      refine ⟨fun x hx => hsub x (a x hx), fun l hl => ?_⟩
      rcases b l hl with b | b
      · exact Or.inl (hsub l b)
      · exact Or.inr b
  | (r0 :: r1 :: more) :: rest, gid, rs, sp, h => by
    obtain ⟨hne, extra, rs', sp', h1, h2, e1, e2⟩ := factorizeChunks_group h
    subst e1; subst e2
    obtain ⟨ih1, ih2⟩ := factorizeChunks_occ hshape hrec sym rest (gid + 1) rs' sp' h2
    obtain ⟨rsx, spx, ex, hx⟩ := hshape _ _ _ h1
    have hocc := hrec _ _ _ h1
    have hsubR : ∀ x, x ∈ rulesSyms rest.flatten → x ∈ rulesSyms ((r0 :: r1 :: more) :: rest).flatten := by
      intro x hx
      obtain ⟨r', hr', hx'⟩ := mem_rulesSyms.1 hx
      exact mem_rulesSyms.2 ⟨r', by simp [hr'], hx'⟩
    have hsubC : ∀ x, x ∈ rulesSyms (r0 :: r1 :: more) → x ∈ rulesSyms ((r0 :: r1 :: more) :: rest).flatten := by
      intro x hx
      obtain ⟨r', hr', hx'⟩ := mem_rulesSyms.1 hx
      exact mem_rulesSyms.2 ⟨r', by simp only [List.flatten_cons, List.mem_append]; exact Or.inl hr', hx'⟩
    have hpre0 : lcpAll r0.rhs (r1 :: more) <+: r0.rhs := lcpAll_prefix_init _ _
    constructor
    · intro r hr
      simp only [List.mem_cons] at hr
      rcases hr with hr | hr
      · subst hr
        constructor
        · intro x hx
          simp only [List.dropLast_concat] at hx
          exact hsubC x (mem_rulesSyms.2 ⟨r0, by simp, hpre0.subset hx⟩)
        · intro l hl
          simp only [List.getLast?_append, List.getLast?_singleton, Option.some_or, Option.some.injEq] at hl
          subst hl
          exact Or.inr ⟨gid, rfl, by rw [ex]; simp [pkeys]⟩
      · obtain ⟨a, b⟩ := ih1 r hr
        refine ⟨fun x hx => hsubR x (a x hx), fun l hl => ?_⟩
        rcases b l hl with b | ⟨g, b1, b2⟩
        · exact Or.inl (hsubR l b)
        · exact Or.inr ⟨g, b1, by simp only [pkeys, List.map_append, List.mem_append]; exact Or.inr b2⟩
    · intro k rs'' hk r hr
      simp only [List.mem_append] at hk
      rcases hk with hk | hk
      · obtain ⟨a, b⟩ := hocc k rs'' hk r hr
        refine ⟨fun x hx => hsubC x (sufRules_syms (a x hx)), fun l hl => ?_⟩
        rcases b l hl with b | ⟨g, b1, b2⟩
        · exact Or.inl (hsubC l (sufRules_syms b))
        · exact Or.inr ⟨g, b1, by simp only [pkeys, List.map_append, List.mem_append]; exact Or.inl b2⟩
      · obtain ⟨a, b⟩ := ih2 k rs'' hk r hr
        refine ⟨fun x hx => hsubR x (a x hx), fun l hl => ?_⟩
        rcases b l hl with b | ⟨g, b1, b2⟩
        · exact Or.inl (hsubR l b)
        · exact Or.inr ⟨g, b1, by simp only [pkeys, List.map_append, List.mem_append]; exact Or.inr b2⟩

theorem factorizeList_occ : ∀ (fuel : Nat) (s : Sym) (rl : List (Rule Sym)) (d : Prods Sym),
    factorizeList fuel s rl = .ok d → OccOK s rl d
  | 0, s, rl, d, h => by simp [factorizeList] at h
  | fuel + 1, s, rl, d, h => by
    obtain ⟨rs, sp, h1, e⟩ := factorizeList_succ h
    subst e
    obtain ⟨c1, c2⟩ := factorizeChunks_occ (factorizeList_shape fuel) (factorizeList_occ fuel) s _ 0 rs sp h1
    rw [splitChunks_flatten] at c1 c2
    intro k rs' hk r hr
    simp only [List.mem_cons, Prod.mk.injEq] at hk
    rcases hk with ⟨hk1, hk2⟩ | hk
    · subst hk1; subst hk2
      obtain ⟨a, b⟩ := c1 r hr
      refine ⟨a, fun l hl => ?_⟩
      rcases b l hl with b | ⟨g, b1, b2⟩
      · exact Or.inl b
      · exact Or.inr ⟨g, b1, by simp [pkeys] at b2 ⊢; exact Or.inr b2⟩
    · obtain ⟨a, b⟩ := c2 k rs' hk r hr
      refine ⟨a, fun l hl => ?_⟩
      rcases b l hl with b | ⟨g, b1, b2⟩
      · exact Or.inl b
      · exact Or.inr ⟨g, b1, by simp [pkeys] at b2 ⊢; exact Or.inr b2⟩

/-! ### `factorizeAll` -/

theorem factorizeAll_spec (fuel : Nat) : ∀ (U d : Prods Sym), factorizeAll fuel U = .ok d →
    (∀ s rules, (s, rules) ∈ U → ∃ part, factorizeList fuel s rules = .ok part ∧ ∀ e ∈ part, e ∈ d) ∧
    (∀ e ∈ d, ∃ s rules part, (s, rules) ∈ U ∧ factorizeList fuel s rules = .ok part ∧ e ∈ part)
  | [], d, h => by
    simp only [factorizeAll] at h
    cases h
    exact ⟨by simp, by simp⟩
  | (s0, rules0) :: rest, d, h => by
    simp only [factorizeAll] at h
    obtain ⟨a, ha, h⟩ := Except.bind_ok h
    obtain ⟨b, hb, h⟩ := Except.bind_ok h
    simp only [Except.ok.injEq] at h
    subst h
    obtain ⟨i1, i2⟩ := factorizeAll_spec fuel rest b hb
    constructor
    · intro s rules hm
      simp only [List.mem_cons, Prod.mk.injEq] at hm
      rcases hm with ⟨e1, e2⟩ | hm
      · subst e1; subst e2
        exact ⟨a, ha, fun e he => by simp [he]⟩
      · obtain ⟨part, hp, hsub⟩ := i1 s rules hm
        exact ⟨part, hp, fun e he => by simp [hsub e he]⟩
    · intro e he
      simp only [List.mem_append] at he
      rcases he with he | he
      · exact ⟨s0, rules0, a, by simp, ha, he⟩
      · obtain ⟨s, rules, part, hm, hp, hep⟩ := i2 e he
        exact ⟨s, rules, part, by simp [hm], hp, hep⟩

/-! ### the relation for the un-smart factorisation -/

theorem path_nil_not_isSuf {s : Sym} (h : s.path = []) : s.isSuf = false := by
  simp [Sym.isSuf, h]

theorem gramRules_of_nodup {G : Prods Sym} (hnd : (G.map (·.1)).Nodup) {s : Sym} {rules : List (Rule Sym)}
    (hm : (s, rules) ∈ G) : gramRules G s = rules.map (·.rhs) := by
  unfold gramRules
  have : (G.filter fun e => decide (e.1 = s)) = [(s, rules)] := by
    induction G with
    | nil => simp at hm
    | cons e G ih =>
      simp only [List.map_cons, List.nodup_cons] at hnd
      simp only [List.mem_cons] at hm
      rcases hm with hm | hm
      · subst hm
        simp only [List.filter_cons, decide_true, if_true, List.cons.injEq, true_and]
        rw [List.filter_eq_nil_iff]
        intro e' he'
        simp only [decide_eq_true_eq]
        intro heq
        exact hnd.1 (List.mem_map.2 ⟨e', he', heq⟩)
      · have hne : e.1 ≠ s := by
          intro heq
          exact hnd.1 (List.mem_map.2 ⟨(s, rules), hm, heq.symm⟩)
        simp only [List.filter_cons, hne, decide_false]
        exact ih hnd.2 hm
  rw [this]
  simp

/-- `_factorize_productions(smart_factorization=False)`: result `d` with duplicate-free keys,
suffix list = the helper keys -/
theorem factRelD_plain {U d : Prods Sym} {fuel : Nat} (hU : UserWF U) (h : factorizeAll fuel U = .ok d)
    (hnd : (d.map (·.1)).Nodup) : FactRelD U d ((d.map (·.1)).filter Sym.isSuf) := by
  obtain ⟨sp1, sp2⟩ := factorizeAll_spec fuel U d h
  let S := (d.map (·.1)).filter Sym.isSuf
  have hS : ∀ x, x ∈ S ↔ x ∈ pkeys d ∧ x.isSuf = true := by
    intro x; simp [S, pkeys, List.mem_filter]
  have hsymS : ∀ s rules, (s, rules) ∈ U → ∀ x ∈ rulesSyms rules, x ∉ S := by
    intro s rules hm x hx hxS
    obtain ⟨r, hr, hxr⟩ := mem_rulesSyms.1 hx
    have : x.path = [] := hU.symUser x (mem_psyms.2 ⟨s, rules, hm, r, hr, hxr⟩)
    have := path_nil_not_isSuf this
    rw [((hS x).1 hxS).2] at this
    cases this
  -- per user symbol
  have hper : ∀ s rules, (s, rules) ∈ U →
      (s, rules) ∈ U ∧ (∀ e, FlatD d S s e → e ∈ rules.map (·.rhs)) ∧ (∀ r ∈ rules, FlatD d S s r.rhs) := by
    intro s rules hm
    obtain ⟨part, hp, hsub⟩ := sp1 s rules hm
    obtain ⟨rs, sp, epart, hext⟩ := factorizeList_shape fuel s rules part hp
    have := factorizeList_flat d S hnd fuel s rules part hp hsub
      (fun k hk hne => by
        rw [epart] at hk
        simp only [pkeys, List.map_cons, List.mem_cons] at hk
        rcases hk with hk | hk
        · exact absurd hk hne
        · refine (hS k).2 ⟨?_, Ext_isSuf (hext k hk)⟩
          obtain ⟨e, he, hek⟩ := List.mem_map.1 hk
          exact List.mem_map.2 ⟨e, hsub e (by rw [epart]; simp [he]), hek⟩)
      (hsymS s rules hm)
    exact ⟨hm, this.1, this.2⟩
  -- every key of d is a user key or a helper
  have hkeys : ∀ k ∈ pkeys d, k ∈ pkeys U ∨ k.isSuf = true := by
    intro k hk
    obtain ⟨e, he, hek⟩ := List.mem_map.1 hk
    obtain ⟨s, rules, part, hm, hp, hep⟩ := sp2 e he
    obtain ⟨rs, sp, epart, hext⟩ := factorizeList_shape fuel s rules part hp
    rw [epart] at hep
    simp only [List.mem_cons] at hep
    rcases hep with hep | hep
    · left
      rw [← hek, hep]
      exact List.mem_map.2 ⟨(s, rules), hm, rfl⟩
    · right
      rw [← hek]
      exact Ext_isSuf (hext _ (List.mem_map.2 ⟨e, hep, rfl⟩))
  have hUkeys : ∀ s ∈ pkeys U, s ∈ pkeys d := by
    intro s hs
    obtain ⟨⟨s', rules⟩, hm, hk⟩ := List.mem_map.1 hs
    simp only at hk; subst hk
    obtain ⟨part, hp, hsub⟩ := sp1 _ rules hm
    obtain ⟨rs, sp, epart, _⟩ := factorizeList_shape fuel _ rules part hp
    exact List.mem_map.2 ⟨(s', rs), hsub _ (by rw [epart]; simp), rfl⟩
  refine { inner := ?_, flatIn := ?_, flatOut := ?_, keys := hUkeys, keysBack := ?_, sufKeys := ?_, sufNotUser := ?_ }
  · intro k rs' hk r hr x hx hxS
    obtain ⟨s, rules, part, hm, hp, hep⟩ := sp2 (k, rs') hk
    have := (factorizeList_occ fuel s rules part hp k rs' hep r hr).1 x hx
    exact hsymS s rules hm x this hxS
  · intro s hs e he
    have hsk : s ∈ pkeys d := by
      cases he with
      | base hp _ => obtain ⟨rules, hm, _⟩ := mem_gramRules.1 hp; exact List.mem_map.2 ⟨_, hm, rfl⟩
      | step hp _ _ => obtain ⟨rules, hm, _⟩ := mem_gramRules.1 hp; exact List.mem_map.2 ⟨_, hm, rfl⟩
    have hsU : s ∈ pkeys U := by
      rcases hkeys s hsk with h' | h'
      · exact h'
      · exact absurd ((hS s).2 ⟨hsk, h'⟩) hs
    obtain ⟨⟨s', rules⟩, hm, hk⟩ := List.mem_map.1 hsU
    simp only at hk; subst hk
    rw [gramRules_of_nodup hU.nodup hm]
    exact (hper _ rules hm).2.1 e he
  · intro s p hp
    obtain ⟨rules, hm, r, hr, hrp⟩ := mem_gramRules.1 hp
    subst hrp
    exact (hper s rules hm).2.2 r hr
  · intro s hs hsS
    rcases hkeys s hs with h' | h'
    · exact h'
    · exact absurd ((hS s).2 ⟨hs, h'⟩) hsS
  · intro s hs; exact ((hS s).1 hs).1
  · intro s hs hsU
    have := path_nil_not_isSuf (hU.keyUser s hsU)
    rw [((hS s).1 hs).2] at this
    cases this

end LL
