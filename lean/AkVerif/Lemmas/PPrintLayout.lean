import AkVerif.Lemmas.PPrintLex
/-!
Helper lemmas for C11, part 3: every layout of a container is, for the lexer, a sequence
`pre₁ item₁ pre₂ item₂ … ` where `pre₁` is white space and every other `preᵢ` is one comma plus white
space (`Body`); the lexer turns such a text into the comma-joined token lists of the items.
-/
namespace PPrint

variable (c : Consts)

/-- white space only -/
def IsWsTxt (s : List Char) : Prop := ∀ rest, lexGo c .idle (s ++ rest) = lexGo c .idle rest

/-- a separator: begins with a delimiter and is one comma for the lexer -/
def IsSep (s : List Char) : Prop :=
  (∃ d r, s = d :: r ∧ isDelim d = true) ∧
  ∀ rest, lexGo c .idle (s ++ rest) = addT [.comma] (lexGo c .idle rest)

/-- the text of a value: followed by a delimiter (or nothing) it gives exactly the tokens `ts` -/
def LexV (s : List Char) (ts : List Tok) : Prop :=
  ∀ rest, Delim rest → lexGo c .idle (s ++ rest) = addT ts (lexGo c .idle rest)

inductive Body : Bool → List Char → List (List Tok) → Prop
  | nil (b : Bool) : Body b [] []
  | first {pre it r : List Char} {ts : List Tok} {tss : List (List Tok)} :
      IsWsTxt c pre → LexV c it ts → Body false r tss → Body true (pre ++ (it ++ r)) (ts :: tss)
  | next {pre it r : List Char} {ts : List Tok} {tss : List (List Tok)} :
      IsSep c pre → LexV c it ts → Body false r tss → Body false (pre ++ (it ++ r)) (ts :: tss)

/-- token lists joined by commas -/
def joinT : Bool → List (List Tok) → List Tok
  | _, [] => []
  | first, ts :: r => (if first then [] else [.comma]) ++ ts ++ joinT false r

theorem Body_false_delim {r : List Char} {tss : List (List Tok)} (h : Body c false r tss)
    (x : List Char) (hx : Delim x) : Delim (r ++ x) := by
  cases h with
  | nil => simpa using hx
  | next hp _ _ =>
    obtain ⟨⟨d, r', rfl, hd⟩, _⟩ := hp
    exact Delim_cons hd

theorem lex_body {b : Bool} {txt : List Char} {tss : List (List Tok)} (h : Body c b txt tss) :
    ∀ rest, Delim rest → lexGo c .idle (txt ++ rest) = addT (joinT b tss) (lexGo c .idle rest) := by
  induction h with
  | nil b => intro rest _; simp [joinT]
  | first hp hi hb ih =>
    intro rest hr
    rw [List.append_assoc, hp, List.append_assoc, hi _ (Body_false_delim c hb rest hr), ih rest hr]
    simp [joinT]
  | next hp hi hb ih =>
    intro rest hr
    rw [List.append_assoc, hp.2, List.append_assoc, hi _ (Body_false_delim c hb rest hr), ih rest hr]
    simp [joinT]

/-! ### separators the printer uses -/

theorem isWsTxt_nil : IsWsTxt c [] := fun _ => rfl

theorem isWsTxt_spaces (n : Nat) : IsWsTxt c (spaces n) := fun rest => lex_spaces c n rest

theorem isWsTxt_nl_spaces (n : Nat) : IsWsTxt c ('\n' :: spaces n) := by
  intro rest; simp

theorem isSep_comma_space : IsSep c [',', ' '] := by
  refine ⟨⟨',', [' '], rfl, by decide⟩, ?_⟩
  intro rest; simp

theorem isSep_comma_nl_spaces (n : Nat) : IsSep c (',' :: '\n' :: spaces n) := by
  refine ⟨⟨',', _, rfl, by decide⟩, ?_⟩
  intro rest; simp

/-! ### the three layouts -/

section layouts
variable {α : Type} (f : α → List (Option Chunk)) (g : α → List Tok)

theorem body_sepItems (l : List α) (h : ∀ a, a ∈ l → LexV c (text (f a)) (g a)) (first : Bool) :
    Body c first (text (sepItems first (l.map f))) (l.map g) := by
  induction l generalizing first with
  | nil => exact .nil _
  | cons a r ih =>
    have ha := h a (by simp)
    have hr := ih (fun x hx => h x (by simp [hx])) false
    cases first with
    | true =>
      simp only [List.map_cons, sepItems, if_true, List.nil_append, text_append]
      exact (List.nil_append _) ▸ Body.first (isWsTxt_nil c) ha hr
    | false =>
      simp only [List.map_cons, sepItems, text_append]
      exact Body.next (isSep_comma_space c) ha hr

theorem body_multiBody (n : Nat) (l : List α) (h : ∀ a, a ∈ l → LexV c (text (f a)) (g a))
    (first : Bool) :
    Body c first (text (multiBody (spaces n) first (l.map f))) (l.map g) := by
  induction l generalizing first with
  | nil => exact .nil _
  | cons a r ih =>
    have ha := h a (by simp)
    have hr := ih (fun x hx => h x (by simp [hx])) false
    cases first with
    | true =>
      have e : text (multiBody (spaces n) true ((a :: r).map f)) =
          ('\n' :: spaces n) ++ (text (f a) ++ text (multiBody (spaces n) false (r.map f))) := by
        simp [multiBody, text_append]
      rw [e]
      exact Body.first (isWsTxt_nl_spaces c n) ha hr
    | false =>
      have e : text (multiBody (spaces n) false ((a :: r).map f)) =
          (',' :: '\n' :: spaces n) ++ (text (f a) ++ text (multiBody (spaces n) false (r.map f))) := by
        simp [multiBody, text_append]
      rw [e]
      exact Body.next (isSep_comma_nl_spaces c n) ha hr

end layouts

/-- what follows an item in the loop of the wrapped layout -/
def wrapTail (L : Limits) (off : Nat) (rest : List Chunk) (n : Nat) : List (Option Chunk) :=
  match rest with
  | [] => [none]
  | _ :: _ => wrapItems L off rest n false

theorem wrapItems_true (L : Limits) (off : Nat) (it : Chunk) (rest : List Chunk) (ly : Nat) :
    wrapItems L off (it :: rest) ly true =
      some (plain (spaces (off + L.indent))) :: some it ::
        wrapTail L off rest (off + L.indent + it.text.length) := by
  rw [wrapItems.eq_def]; cases rest <;> simp [wrapTail]

theorem wrapItems_brk (L : Limits) (off : Nat) (it : Chunk) (rest : List Chunk) (ly : Nat)
    (h : ly + it.text.length > L.wrap) :
    wrapItems L off (it :: rest) ly false =
      some (plain [',']) :: none :: some (plain (spaces (off + L.indent))) :: some it ::
        wrapTail L off rest (off + L.indent + it.text.length) := by
  rw [wrapItems.eq_def]; cases rest <;> simp [wrapTail, h]

theorem wrapItems_nobrk (L : Limits) (off : Nat) (it : Chunk) (rest : List Chunk) (ly : Nat)
    (h : ¬ ly + it.text.length > L.wrap) :
    wrapItems L off (it :: rest) ly false =
      some (plain [',', ' ']) :: some it :: wrapTail L off rest (ly + 2 + it.text.length) := by
  rw [wrapItems.eq_def]; cases rest <;> simp [wrapTail, h]

/-- the wrapped layout: whatever the line-breaking state does, the items come out once each, in
order, separated by exactly one comma; the loop ends with a new-line marker -/
theorem body_wrapItems {α : Type} (f : α → Chunk) (g : α → List Tok) (L : Limits) (off : Nat)
    (a : α) (l : List α) (h : ∀ x, x ∈ a :: l → LexV c (f x).text (g x)) (ly : Nat) (first : Bool) :
    ∃ body, text (wrapItems L off ((a :: l).map f) ly first) = body ++ ['\n'] ∧
      Body c first body ((a :: l).map g) := by
  induction l generalizing a ly first with
  | nil =>
    have ha := h a (by simp)
    cases first with
    | true =>
      refine ⟨spaces (off + L.indent) ++ ((f a).text ++ []), ?_,
        Body.first (isWsTxt_spaces c _) ha (.nil _)⟩
      simp [wrapItems_true, wrapTail]
    | false =>
      by_cases hb : ly + (f a).text.length > L.wrap
      · refine ⟨(',' :: '\n' :: spaces (off + L.indent)) ++ ((f a).text ++ []), ?_,
          Body.next (isSep_comma_nl_spaces c _) ha (.nil _)⟩
        simp [wrapItems_brk, hb, wrapTail]
      · refine ⟨[',', ' '] ++ ((f a).text ++ []), ?_, Body.next (isSep_comma_space c) ha (.nil _)⟩
        simp [wrapItems_nobrk, hb, wrapTail]
  | cons b r ih =>
    have ha := h a (by simp)
    have hr := fun ly' => ih b (fun x hx => h x (List.mem_cons_of_mem _ hx)) ly' false
    have ht : ∀ n, wrapTail L off ((b :: r).map f) n = wrapItems L off ((b :: r).map f) n false :=
      fun _ => rfl
    cases first with
    | true =>
      obtain ⟨body, e, hb⟩ := hr (off + L.indent + (f a).text.length)
      refine ⟨spaces (off + L.indent) ++ ((f a).text ++ body), ?_,
        Body.first (isWsTxt_spaces c _) ha hb⟩
      rw [List.map_cons, wrapItems_true, ht, text_some, text_some, e]
      simp
    | false =>
      by_cases hbk : ly + (f a).text.length > L.wrap
      · obtain ⟨body, e, hb⟩ := hr (off + L.indent + (f a).text.length)
        refine ⟨(',' :: '\n' :: spaces (off + L.indent)) ++ ((f a).text ++ body), ?_,
          Body.next (isSep_comma_nl_spaces c _) ha hb⟩
        rw [List.map_cons, wrapItems_brk _ _ _ _ _ hbk, ht, text_some, text_none, text_some,
          text_some, e]
        simp
      · obtain ⟨body, e, hb⟩ := hr (ly + 2 + (f a).text.length)
        refine ⟨[',', ' '] ++ ((f a).text ++ body), ?_, Body.next (isSep_comma_space c) ha hb⟩
        rw [List.map_cons, wrapItems_nobrk _ _ _ _ _ hbk, ht, text_some, text_some, e]
        simp

/-! ### token sequences -/

theorem toksList_eq (first : Bool) (xs : List J) :
    toksList first xs = joinT first (xs.map toks) := by
  induction xs generalizing first with
  | nil => simp [toksList, joinT]
  | cons x r ih => simp [toksList, joinT, ih]

theorem toksEntries_eq (first : Bool) (kvs : List (Key × J)) :
    toksEntries first kvs = joinT first (kvs.map fun kv => keyTok kv.1 :: .colon :: toks kv.2) := by
  induction kvs generalizing first with
  | nil => simp [toksEntries, joinT]
  | cons kv r ih => obtain ⟨k, v⟩ := kv; simp [toksEntries, joinT, ih]

/-! ### simple values, by position -/

/-- the classification used positionally in the lemmas (`emptyList` stands for "not simple") -/
def toSimple (v : J) : Simple :=
  match v.simple? with
  | some s => s
  | none => .emptyList

theorem allSimple?_map {xs : List J} {ss : List Simple} (h : allSimple? xs = some ss) :
    ss = xs.map toSimple ∧ ∀ x, x ∈ xs → x.simple? = some (toSimple x) := by
  induction xs generalizing ss with
  | nil => simp [allSimple?] at h; subst h; simp
  | cons x xs ih =>
    simp only [allSimple?] at h
    split at h
    · rename_i s ss' h1 h2
      cases h
      obtain ⟨e, hall⟩ := ih h2
      have hx : toSimple x = s := by simp [toSimple, h1]
      refine ⟨by simp [hx, e], ?_⟩
      intro y hy
      rcases List.mem_cons.mp hy with rfl | hy
      · rw [hx]; exact h1
      · exact hall y hy
    · cases h

theorem allSimpleD?_map {kvs : List (Key × J)} {ss : List (Key × Simple)}
    (h : allSimpleD? kvs = some ss) :
    ss = kvs.map (fun kv => (kv.1, toSimple kv.2)) ∧
      ∀ kv, kv ∈ kvs → kv.2.simple? = some (toSimple kv.2) := by
  induction kvs generalizing ss with
  | nil => simp [allSimpleD?] at h; subst h; simp
  | cons kv r ih =>
    obtain ⟨k, v⟩ := kv
    simp only [allSimpleD?] at h
    split at h
    · rename_i s ss' h1 h2
      cases h
      obtain ⟨e, hall⟩ := ih h2
      have hx : toSimple v = s := by simp [toSimple, h1]
      refine ⟨by simp [hx, e], ?_⟩
      intro y hy
      rcases List.mem_cons.mp hy with rfl | hy
      · simp only; rw [hx]; exact h1
      · exact hall y hy
    · cases h

end PPrint
