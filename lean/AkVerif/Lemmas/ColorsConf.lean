import AkVerif.Model.ColorsConf
/-!
Lemmas for C14: the incremental resolution of `add_new_items` computes exactly the declarative
relation `Resolves` on the descriptions held by the configuration.

Invariant of a configuration (`Inv`):
* `Sound`    — a resolved entry carries the attributes `Resolves` gives its id, and the formatter of them;
* `Roots`    — an entry without a parent reference is resolved (the constructor resolves it at once);
* `Complete` — every id that `Resolves` is resolved in the map.
-/
namespace ColorsConf
open Ak

/-! ### the relation -/

theorem Resolves.det {dm : Id → Option Desc} {id : Id} {r1 r2 : Resolved}
    (h1 : Resolves dm id r1) (h2 : Resolves dm id r2) : r1 = r2 := by
  induction h1 generalizing r2 with
  | root hd hp =>
    cases h2 with
    | root hd' _ => rw [hd] at hd'; cases hd'; rfl
    | step hd' hp' _ => rw [hd] at hd'; cases hd'; rw [hp] at hp'; cases hp'
  | step hd hp _ ih =>
    cases h2 with
    | root hd' hp' => rw [hd] at hd'; cases hd'; rw [hp] at hp'; cases hp'
    | step hd' hp' hr' =>
      rw [hd] at hd'; cases hd'; rw [hp] at hp'; cases hp'
      rw [ih hr']

theorem Resolves.mono {dm dm' : Id → Option Desc} (hsub : ∀ id d, dm id = some d → dm' id = some d)
    {id : Id} {r : Resolved} (h : Resolves dm id r) : Resolves dm' id r := by
  induction h with
  | root hd hp => exact .root (hsub _ _ hd) hp
  | step hd hp _ ih => exact .step (hsub _ _ hd) hp ih

theorem Resolves.parent {dm : Id → Option Desc} {id p : Id} {d : Desc} {r : Resolved}
    (hd : dm id = some d) (hp : d.parent = some p) (h : Resolves dm id r) :
    ∃ pr, Resolves dm p pr ∧ r = effOf (some pr) d := by
  cases h with
  | root hd' hp' => rw [hd] at hd'; cases hd'; rw [hp] at hp'; cases hp'
  | step hd' hp' hr => rw [hd] at hd'; cases hd'; rw [hp] at hp'; cases hp'; exact ⟨_, hr, rfl⟩

theorem Resolves.known {dm : Id → Option Desc} {id : Id} {r : Resolved} (h : Resolves dm id r) :
    ∃ d, dm id = some d := by
  cases h with
  | root hd _ => exact ⟨_, hd⟩
  | step hd _ _ => exact ⟨_, hd⟩

theorem Resolvable.parent {dm : Id → Option Desc} {id p : Id} {d : Desc}
    (hd : dm id = some d) (hp : d.parent = some p) (h : Resolvable dm id) : Resolvable dm p := by
  obtain ⟨r, hr⟩ := h
  obtain ⟨pr, hpr, _⟩ := Resolves.parent hd hp hr
  exact ⟨pr, hpr⟩

/-! ### the function with fuel -/

theorem resolveSpec_sound {dm : Id → Option Desc} :
    ∀ (n : Nat) (id : Id) (r : Resolved), resolveSpec dm n id = some r → Resolves dm id r := by
  intro n
  induction n with
  | zero => intro id r h; simp [resolveSpec] at h
  | succ n ih =>
    intro id r h
    unfold resolveSpec at h
    cases hd : dm id with
    | none => simp [hd] at h
    | some d =>
      cases hp : d.parent with
      | none =>
        simp [hd, hp] at h
        rw [← h]; exact .root hd hp
      | some p =>
        cases hr : resolveSpec dm n p with
        | none => simp [hd, hp, hr] at h
        | some pr =>
          simp [hd, hp, hr] at h
          rw [← h]; exact .step hd hp (ih p pr hr)

theorem resolveSpec_mono {dm : Id → Option Desc} :
    ∀ (n : Nat) (id : Id) (r : Resolved), resolveSpec dm n id = some r →
      resolveSpec dm (n + 1) id = some r := by
  intro n
  induction n with
  | zero => intro id r h; simp [resolveSpec] at h
  | succ n ih =>
    intro id r h
    unfold resolveSpec at h ⊢
    cases hd : dm id with
    | none => simp [hd] at h
    | some d =>
      cases hp : d.parent with
      | none => simpa [hd, hp] using h
      | some p =>
        cases hr : resolveSpec dm n p with
        | none => simp [hd, hp, hr] at h
        | some pr =>
          simp [hd, hp, hr] at h
          simp [hp, ih p pr hr, h]

theorem resolveSpec_mono_le {dm : Id → Option Desc} {n k : Nat} (hk : n ≤ k) {id : Id} {r : Resolved}
    (h : resolveSpec dm n id = some r) : resolveSpec dm k id = some r := by
  induction hk with
  | refl => exact h
  | step _ ih => exact resolveSpec_mono _ _ _ ih

theorem resolveSpec_complete {dm : Id → Option Desc} {id : Id} {r : Resolved} (h : Resolves dm id r) :
    ∃ n, resolveSpec dm n id = some r := by
  induction h with
  | root hd hp => exact ⟨1, by simp [resolveSpec, hd, hp]⟩
  | step hd hp _ ih =>
    obtain ⟨n, hn⟩ := ih
    exact ⟨n + 1, by simp [resolveSpec, hd, hp, hn]⟩

/-! ### association list -/

theorem lookup_setRes_same {m : SMap} {id : Id} {e : Entry} (r : Res) (h : lookup m id = some e) :
    lookup (setRes m id r) id = some { e with res := some r } := by
  induction m with
  | nil => simp [lookup] at h
  | cons ke m ih =>
    obtain ⟨k, e'⟩ := ke
    by_cases hk : k = id
    · simp [lookup, hk] at h
      simp [setRes, lookup, hk, h]
    · simp [lookup, hk] at h
      simp [setRes, lookup, hk, ih h]

theorem lookup_setRes_other {m : SMap} {id id' : Id} (r : Res) (h : id' ≠ id) :
    lookup (setRes m id r) id' = lookup m id' := by
  induction m with
  | nil => simp [setRes]
  | cons ke m ih =>
    obtain ⟨k, e'⟩ := ke
    by_cases hk : k = id
    · have : k ≠ id' := fun h' => h (h' ▸ hk ▸ rfl)
      simp [setRes, lookup, hk]
      subst hk
      simp [this]
    · by_cases hk' : k = id'
      · subst hk'
        simp [setRes, lookup, hk]
      · simp [setRes, lookup, hk, hk', ih]

theorem descOf_setRes (m : SMap) (id : Id) (r : Res) : descOf (setRes m id r) = descOf m := by
  funext id'
  unfold descOf
  by_cases h : id' = id
  · subst h
    cases hl : lookup m id' with
    | none =>
      have : lookup (setRes m id' r) id' = none := by
        induction m with
        | nil => simp [setRes, lookup]
        | cons ke m ih =>
          obtain ⟨k, e'⟩ := ke
          by_cases hk : k = id'
          · simp [lookup, hk] at hl
          · simp [lookup, hk] at hl
            simp [setRes, lookup, hk, ih hl]
      simp [this]
    | some e => simp [lookup_setRes_same r hl]
  · rw [lookup_setRes_other r h]

theorem lookup_append_new {m : SMap} {k : Id} (e : Entry) (id : Id) :
    lookup (m ++ [(k, e)]) id =
      match lookup m id with
      | some x => some x
      | none => if k = id then some e else none := by
  induction m with
  | nil => simp [lookup]
  | cons ke m ih =>
    obtain ⟨k', e'⟩ := ke
    by_cases hk : k' = id
    · simp [lookup, hk]
    · simp [lookup, hk, ih]

/-! ### the invariant -/

def Sound (nc : Bool) (m : SMap) : Prop :=
  ∀ id e r, lookup m id = some e → e.res = some r →
    Resolves (descOf m) id r.eff ∧ mkFmt nc r.eff = .ok r.fmt

def Roots (m : SMap) : Prop :=
  ∀ id e, lookup m id = some e → e.desc.parent = none → e.res ≠ none

def Complete (m : SMap) : Prop :=
  ∀ id r, Resolves (descOf m) id r → ∃ e rr, lookup m id = some e ∧ e.res = some rr

/-- `m'` has the same descriptions as `m` and keeps everything `m` had resolved -/
def Ext (m m' : SMap) : Prop :=
  descOf m' = descOf m ∧ ∀ id e, lookup m id = some e → e.res ≠ none → lookup m' id = some e

theorem Ext.refl (m : SMap) : Ext m m := ⟨rfl, fun _ _ h _ => h⟩

theorem Ext.trans {a b c : SMap} (h1 : Ext a b) (h2 : Ext b c) : Ext a c :=
  ⟨h2.1.trans h1.1, fun id e h hr => h2.2 id e (h1.2 id e h hr) hr⟩

/-- `id` needs no further attention: it is resolved, or the descriptions do not resolve it -/
def Done (dm : Id → Option Desc) (m : SMap) (id : Id) : Prop :=
  (∃ e, lookup m id = some e ∧ e.res ≠ none) ∨ ¬ Resolvable dm id

theorem Done.ext {dm : Id → Option Desc} {m m' : SMap} {id : Id} (h : Done dm m id) (he : Ext m m') :
    Done dm m' id := by
  rcases h with ⟨e, hl, hr⟩ | h
  · exact .inl ⟨e, he.2 id e hl hr, hr⟩
  · exact .inr h

/-- the chain accumulated by `walk`: newest element first, each one unresolved and referring to the
one before it (`top` for the head) -/
def ChainTo (m : SMap) : Id → List Id → Prop
  | _, [] => True
  | top, x :: rest =>
    (∃ e, lookup m x = some e ∧ e.res = none ∧ e.desc.parent = some top) ∧ ChainTo m x rest

/-! ### `walk` -/

theorem walk_stuck {nc : Bool} {m : SMap} {cant : List Id} (hroots : Roots m)
    (hcant : ∀ x ∈ cant, ¬ Resolvable (descOf m) x) :
    ∀ (fuel : Nat) (cur : Id) (rpath p : List Id),
      (∀ x ∈ rpath, Resolvable (descOf m) x → Resolvable (descOf m) cur) →
      walk m cant fuel cur rpath = .ok (.stuck p) →
      (∀ x ∈ p, ¬ Resolvable (descOf m) x) ∧ ¬ Resolvable (descOf m) cur := by
  have _ := nc
  intro fuel
  induction fuel with
  | zero => intro cur rpath p _ h; simp [walk] at h
  | succ fuel ih =>
    intro cur rpath p hchain h
    unfold walk at h
    split at h
    · cases h
    · cases hl : lookup m cur with
      | none => simp [hl] at h
      | some e =>
        cases hres : e.res with
        | some r => simp [hl, hres] at h
        | none =>
          cases hpar : e.desc.parent with
          | none => exact absurd hres (hroots cur e hl hpar)
          | some par =>
            have hd : descOf m cur = some e.desc := by simp [descOf, hl]
            simp only [hl, hres, hpar] at h
            split at h
            · rename_i hstop
              cases h
              have hnot : ¬ Resolvable (descOf m) cur := by
                rcases hstop with hc | hn
                · exact hcant cur hc
                · intro hr
                  obtain ⟨pr, hpr⟩ := Resolvable.parent hd hpar hr
                  obtain ⟨d', hd'⟩ := hpr.known
                  cases hlp : lookup m par with
                  | none => simp [descOf, hlp] at hd'
                  | some _ => simp [hlp] at hn
              exact ⟨fun x hx hr => hnot (hchain x hx hr), hnot⟩
            · have hchain' : ∀ x ∈ cur :: rpath, Resolvable (descOf m) x → Resolvable (descOf m) par := by
                intro x hx hr
                rcases List.mem_cons.mp hx with rfl | hx
                · exact Resolvable.parent hd hpar hr
                · exact Resolvable.parent hd hpar (hchain x hx hr)
              obtain ⟨h1, h2⟩ := ih par (cur :: rpath) p hchain' h
              exact ⟨h1, fun hr => h2 (Resolvable.parent hd hpar hr)⟩

theorem walk_found {m : SMap} {cant : List Id} :
    ∀ (fuel : Nat) (cur : Id) (rpath p : List Id) (par : Resolved),
      ChainTo m cur rpath → rpath.Nodup →
      walk m cant fuel cur rpath = .ok (.found par p) →
      ∃ anc e r, ChainTo m anc p ∧ p.Nodup ∧ lookup m anc = some e ∧ e.res = some r ∧ r.eff = par ∧
        (∀ e', lookup m cur = some e' → e'.res = none → cur ∈ p) ∧ (∀ x ∈ rpath, x ∈ p) := by
  intro fuel
  induction fuel with
  | zero => intro cur rpath p par _ _ h; simp [walk] at h
  | succ fuel ih =>
    intro cur rpath p par hchain hnd h
    unfold walk at h
    split at h
    · cases h
    · rename_i hnotin
      cases hl : lookup m cur with
      | none => simp [hl] at h
      | some e =>
        cases hres : e.res with
        | some r =>
          simp [hl, hres] at h
          obtain ⟨h1, h2⟩ := h
          subst h2
          refine ⟨cur, e, r, hchain, hnd, hl, hres, h1, ?_, fun x hx => hx⟩
          intro e' he' hn
          cases he'; rw [hres] at hn; cases hn
        | none =>
          cases hpar : e.desc.parent with
          | none => simp [hl, hres, hpar] at h
          | some q =>
            simp only [hl, hres, hpar] at h
            split at h
            · cases h
            · have hchain' : ChainTo m q (cur :: rpath) := ⟨⟨e, hl, hres, hpar⟩, hchain⟩
              have hnd' : (cur :: rpath).Nodup := List.nodup_cons.mpr ⟨hnotin, hnd⟩
              obtain ⟨anc, e2, r2, hc, hn, hl2, hr2, hp2, _, hsub⟩ := ih q (cur :: rpath) p par hchain' hnd' h
              exact ⟨anc, e2, r2, hc, hn, hl2, hr2, hp2,
                fun _ _ _ => hsub cur (List.mem_cons_self),
                fun x hx => hsub x (List.mem_cons_of_mem _ hx)⟩

/-! ### `resolvePath` -/

theorem resolve1_some {nc : Bool} {d : Desc} {par : Resolved} {r : Res}
    (h : resolve1 nc d (some par) = .ok r) :
    r.eff = effOf (some par) d ∧ mkFmt nc r.eff = .ok r.fmt := by
  unfold resolve1 at h
  split at h
  · cases h
  · cases hf : mkFmt nc (effOf (some par) d) with
    | error x => simp [hf] at h
    | ok f =>
      simp [hf] at h
      subst h
      exact ⟨rfl, hf⟩

theorem resolve1_none {nc : Bool} {d : Desc} {r : Res} (h : resolve1 nc d none = .ok r) :
    d.parent = none ∧ r.eff = effOf none d ∧ mkFmt nc r.eff = .ok r.fmt := by
  unfold resolve1 at h
  split at h
  · cases h
  · rename_i hp
    cases hf : mkFmt nc (effOf none d) with
    | error x => simp [hf] at h
    | ok f =>
      simp [hf] at h
      subst h
      refine ⟨?_, rfl, hf⟩
      cases hd : d.parent with
      | none => rfl
      | some p => simp [hd] at hp

theorem setRes_inv {nc : Bool} {m : SMap} {x : Id} {e : Entry} {r : Res}
    (hs : Sound nc m) (hr : Roots m) (hl : lookup m x = some e) (hn : e.res = none)
    (hres : Resolves (descOf m) x r.eff) (hf : mkFmt nc r.eff = .ok r.fmt) :
    Sound nc (setRes m x r) ∧ Roots (setRes m x r) ∧ Ext m (setRes m x r) := by
  refine ⟨?_, ?_, descOf_setRes m x r, ?_⟩
  · intro id e' r' hl' hr'
    rw [descOf_setRes]
    by_cases hid : id = x
    · subst hid
      rw [lookup_setRes_same r hl] at hl'
      cases hl'
      simp at hr'
      subst hr'
      exact ⟨hres, hf⟩
    · rw [lookup_setRes_other r hid] at hl'
      exact hs id e' r' hl' hr'
  · intro id e' hl' hp'
    by_cases hid : id = x
    · subst hid
      rw [lookup_setRes_same r hl] at hl'
      cases hl'
      simp
    · rw [lookup_setRes_other r hid] at hl'
      exact hr id e' hl' hp'
  · intro id e' hl' hr'
    by_cases hid : id = x
    · subst hid
      rw [hl] at hl'; cases hl'
      exact absurd hn hr'
    · rw [lookup_setRes_other r hid]; exact hl'

theorem chainTo_congr {m m1 : SMap} : ∀ (l : List Id) (t : Id),
    (∀ y ∈ l, lookup m1 y = lookup m y) → ChainTo m t l → ChainTo m1 t l := by
  intro l
  induction l with
  | nil => intro _ _ _; trivial
  | cons x rest ih =>
    intro t hsame hc
    obtain ⟨⟨e, hl, hn, hp⟩, hrest⟩ := hc
    refine ⟨⟨e, ?_, hn, hp⟩, ih x (fun y hy => hsame y (List.mem_cons_of_mem _ hy)) hrest⟩
    rw [hsame x List.mem_cons_self]; exact hl

theorem resolvePath_spec {nc : Bool} : ∀ (rpath : List Id) (m : SMap) (top : Id) (par : Resolved) (m' : SMap),
    Sound nc m → Roots m → ChainTo m top rpath → rpath.Nodup → Resolves (descOf m) top par →
    resolvePath nc m par rpath = .ok m' →
    Sound nc m' ∧ Roots m' ∧ Ext m m' ∧ ∀ x ∈ rpath, ∃ e, lookup m' x = some e ∧ e.res ≠ none := by
  intro rpath
  induction rpath with
  | nil =>
    intro m top par m' hs hr _ _ _ h
    simp [resolvePath] at h
    subst h
    exact ⟨hs, hr, Ext.refl m, fun x hx => by cases hx⟩
  | cons x rest ih =>
    intro m top par m' hs hr hc hnd hpar h
    obtain ⟨⟨e, hl, hn, hp⟩, hrest⟩ := hc
    obtain ⟨hxrest, hndrest⟩ := List.nodup_cons.mp hnd
    unfold resolvePath at h
    simp only [hl, hn] at h
    cases h1 : resolve1 nc e.desc (some par) with
    | error err => simp [h1] at h
    | ok r =>
      simp [h1] at h
      obtain ⟨heff, hfmt⟩ := resolve1_some h1
      have hd : descOf m x = some e.desc := by simp [descOf, hl]
      have hres : Resolves (descOf m) x r.eff := by rw [heff]; exact .step hd hp hpar
      obtain ⟨hs1, hr1, he1⟩ := setRes_inv hs hr hl hn hres hfmt
      have hsame : ∀ y ∈ rest, lookup (setRes m x r) y = lookup m y := by
        intro y hy
        apply lookup_setRes_other
        intro hyx; subst hyx; exact hxrest hy
      have hc1 : ChainTo (setRes m x r) x rest := chainTo_congr rest x hsame hrest
      have hres1 : Resolves (descOf (setRes m x r)) x r.eff := by rw [descOf_setRes]; exact hres
      obtain ⟨hs', hr', he', hall⟩ := ih (setRes m x r) x r.eff m' hs1 hr1 hc1 hndrest hres1 h
      refine ⟨hs', hr', he1.trans he', ?_⟩
      intro y hy
      rcases List.mem_cons.mp hy with rfl | hy
      · refine ⟨{ e with res := some r }, ?_, by simp⟩
        exact he'.2 _ _ (lookup_setRes_same r hl) (by simp)
      · exact hall y hy

/-! ### one item of a pass, a pass, the loop -/

structure PInv (nc : Bool) (dm : Id → Option Desc) (s : PassSt) : Prop where
  sound : Sound nc s.m
  roots : Roots s.m
  desc : descOf s.m = dm
  cant : ∀ x ∈ s.cant, ¬ Resolvable dm x

theorem passStep_spec {nc : Bool} {fuel : Nat} {dm : Id → Option Desc} {s s' : PassSt} {id : Id}
    (hi : PInv nc dm s) (h : passStep nc fuel s id = .ok s') :
    PInv nc dm s' ∧ Ext s.m s'.m ∧ Done dm s'.m id := by
  unfold passStep at h
  cases hl : lookup s.m id with
  | none => simp [hl] at h
  | some e =>
    simp only [hl] at h
    cases hres : e.res with
    | some r =>
      simp [hres] at h
      subst h
      exact ⟨hi, Ext.refl _, .inl ⟨e, hl, by simp [hres]⟩⟩
    | none =>
      simp only [hres] at h
      cases hw : walk s.m s.cant fuel id [] with
      | error err => simp [hw] at h
      | ok w =>
        cases w with
        | stuck p =>
          simp [hw] at h
          subst h
          have hcant : ∀ x ∈ s.cant, ¬ Resolvable (descOf s.m) x := by rw [hi.desc]; exact hi.cant
          obtain ⟨hp, hid⟩ := walk_stuck (nc := nc) hi.roots hcant fuel id [] p (fun x hx => by cases hx) hw
          rw [hi.desc] at hp hid
          refine ⟨⟨hi.sound, hi.roots, hi.desc, ?_⟩, Ext.refl _, .inr hid⟩
          intro x hx
          rcases List.mem_append.mp hx with hx | hx
          · exact hp x hx
          · exact hi.cant x hx
        | found par p =>
          simp only [hw] at h
          cases hrp : resolvePath nc s.m par p with
          | error err => simp [hrp] at h
          | ok m' =>
            simp [hrp] at h
            subst h
            obtain ⟨anc, e2, r2, hc, hnd, hl2, hr2, hp2, hstart, _⟩ :=
              walk_found fuel id [] p par trivial List.nodup_nil hw
            have hanc : Resolves (descOf s.m) anc par := by
              rw [← hp2]; exact (hi.sound anc e2 r2 hl2 hr2).1
            obtain ⟨hs', hr', he', hall⟩ := resolvePath_spec p s.m anc par m' hi.sound hi.roots hc hnd hanc hrp
            refine ⟨⟨hs', hr', by rw [he'.1]; exact hi.desc, hi.cant⟩, he', .inl ?_⟩
            exact hall id (hstart e hl hres)

theorem pass_spec {nc : Bool} {fuel : Nat} {dm : Id → Option Desc} :
    ∀ (ids : List Id) (s s' : PassSt), PInv nc dm s → pass nc fuel s ids = .ok s' →
      PInv nc dm s' ∧ Ext s.m s'.m ∧ ∀ id ∈ ids, Done dm s'.m id := by
  intro ids
  induction ids with
  | nil =>
    intro s s' hi h
    simp [pass] at h
    subst h
    exact ⟨hi, Ext.refl _, fun id hid => by cases hid⟩
  | cons id ids ih =>
    intro s s' hi h
    unfold pass at h
    cases h1 : passStep nc fuel s id with
    | error err => simp [h1] at h
    | ok s1 =>
      simp [h1] at h
      obtain ⟨hi1, he1, hd1⟩ := passStep_spec hi h1
      obtain ⟨hi', he', hall⟩ := ih s1 s' hi1 h
      refine ⟨hi', he1.trans he', ?_⟩
      intro x hx
      rcases List.mem_cons.mp hx with rfl | hx
      · exact hd1.ext he'
      · exact hall x hx

theorem loop_spec {nc : Bool} {wfuel : Nat} {ids : List Id} {dm : Id → Option Desc} :
    ∀ (fuel : Nat) (m : SMap) (cant : List Id) (m' : SMap),
      PInv nc dm ⟨m, cant, false⟩ → loop nc wfuel ids fuel m cant = .ok m' →
      Sound nc m' ∧ Roots m' ∧ Ext m m' ∧ ∀ id ∈ ids, Done dm m' id := by
  intro fuel
  induction fuel with
  | zero => intro m cant m' _ h; simp [loop] at h
  | succ fuel ih =>
    intro m cant m' hi h
    unfold loop at h
    cases hp : pass nc wfuel ⟨m, cant, false⟩ ids with
    | error err => simp [hp] at h
    | ok s =>
      simp only [hp] at h
      obtain ⟨hi', he', hall⟩ := pass_spec ids _ s hi hp
      split at h
      · have hi2 : PInv nc dm ⟨s.m, s.cant, false⟩ := ⟨hi'.sound, hi'.roots, hi'.desc, hi'.cant⟩
        obtain ⟨hs2, hr2, he2, hall2⟩ := ih s.m s.cant m' hi2 h
        exact ⟨hs2, hr2, Ext.trans he' he2, hall2⟩
      · cases h
        exact ⟨hi'.sound, hi'.roots, he', hall⟩

/-! ### `resolveAll` -/

theorem mem_insertSorted {x y : Id} {l : List Id} : y ∈ insertSorted x l ↔ y = x ∨ y ∈ l := by
  induction l with
  | nil => simp [insertSorted]
  | cons z l ih =>
    unfold insertSorted
    split
    · simp [ih]; constructor
      · rintro (h | h | h)
        · exact .inr (.inl h)
        · exact .inl h
        · exact .inr (.inr h)
      · rintro (h | h | h)
        · exact .inr (.inl h)
        · exact .inl h
        · exact .inr (.inr h)
    · simp

theorem mem_sortIds {y : Id} {l : List Id} : y ∈ sortIds l ↔ y ∈ l := by
  induction l with
  | nil => simp [sortIds]
  | cons x l ih =>
    have : sortIds (x :: l) = insertSorted x (sortIds l) := rfl
    rw [this, mem_insertSorted, ih]; simp

theorem mem_unresolvedIds {m : SMap} {id : Id} {e : Entry} (hl : lookup m id = some e) (hn : e.res = none) :
    id ∈ unresolvedIds m := by
  induction m with
  | nil => simp [lookup] at hl
  | cons ke m ih =>
    obtain ⟨k, e'⟩ := ke
    by_cases hk : k = id
    · simp [lookup, hk] at hl
      subst hl
      simp [unresolvedIds, List.filter, hn, hk]
    · simp [lookup, hk] at hl
      have := ih hl
      unfold unresolvedIds at this ⊢
      simp only [List.filter]
      split
      · simp; exact .inr (by simpa using this)
      · exact this

theorem resolveAll_spec {nc : Bool} {m m' : SMap} (hs : Sound nc m) (hr : Roots m)
    (h : resolveAll nc m = .ok m') :
    Sound nc m' ∧ Roots m' ∧ Ext m m' ∧ Complete m' := by
  unfold resolveAll at h
  simp only at h
  split at h
  · rename_i hempty
    cases h
    refine ⟨hs, hr, Ext.refl _, ?_⟩
    intro id r hres
    obtain ⟨d, hd⟩ := hres.known
    cases hl : lookup m id with
    | none => simp [descOf, hl] at hd
    | some e =>
      cases hres' : e.res with
      | some rr => exact ⟨e, rr, rfl, hres'⟩
      | none =>
        have := mem_sortIds.mpr (mem_unresolvedIds hl hres')
        rw [hempty] at this
        cases this
  · have hi : PInv nc (descOf m) ⟨m, [], false⟩ := ⟨hs, hr, rfl, fun x hx => by cases hx⟩
    obtain ⟨hs', hr', he', hall⟩ := loop_spec _ m [] m' hi h
    refine ⟨hs', hr', he', ?_⟩
    intro id r hres
    rw [he'.1] at hres
    obtain ⟨d, hd⟩ := hres.known
    cases hl : lookup m id with
    | none => simp [descOf, hl] at hd
    | some e =>
      cases hres' : e.res with
      | some rr => exact ⟨e, rr, he'.2 id e hl (by simp [hres']), hres'⟩
      | none =>
        have hmem := mem_sortIds.mpr (mem_unresolvedIds hl hres')
        rcases hall id hmem with ⟨e2, hl2, hr2⟩ | hnot
        · cases hr2' : e2.res with
          | none => exact absurd hr2' hr2
          | some rr => exact ⟨e2, rr, hl2, hr2'⟩
        · exact absurd ⟨r, hres⟩ hnot

end ColorsConf
