import AkVerif.Model.ColorsConf
/-!
Lemmas for C14: the incremental resolution of `add_new_items` computes exactly the declarative
relation `Resolves` on the descriptions held by the configuration.

Invariant of a configuration (`Inv`):
* `Sound`    — a resolved entry carries the attributes `Resolves` gives its id, and the formatter of them;
* `Roots`    — an entry without a parent reference is resolved (the constructor resolves it at once);
* `Complete` — every id that `Resolves` is resolved in the map.
-/
namespace ColorsConf
open Ak

/-! ### the relation -/

theorem Resolves.det {dm : Id → Option Desc} {id : Id} {r1 r2 : Resolved}
    (h1 : Resolves dm id r1) (h2 : Resolves dm id r2) : r1 = r2 := by
  induction h1 generalizing r2 with
  | root hd hp =>
    cases h2 with
    | root hd' _ => rw [hd] at hd'; cases hd'; rfl
    | step hd' hp' _ => rw [hd] at hd'; cases hd'; rw [hp] at hp'; cases hp'
  | step hd hp _ ih =>
    cases h2 with
    | root hd' hp' => rw [hd] at hd'; cases hd'; rw [hp] at hp'; cases hp'
    | step hd' hp' hr' =>
      rw [hd] at hd'; cases hd'; rw [hp] at hp'; cases hp'
      rw [ih hr']

theorem Resolves.mono {dm dm' : Id → Option Desc} (hsub : ∀ id d, dm id = some d → dm' id = some d)
    {id : Id} {r : Resolved} (h : Resolves dm id r) : Resolves dm' id r := by
  induction h with
  | root hd hp => exact .root (hsub _ _ hd) hp
  | step hd hp _ ih => exact .step (hsub _ _ hd) hp ih

theorem Resolves.parent {dm : Id → Option Desc} {id p : Id} {d : Desc} {r : Resolved}
    (hd : dm id = some d) (hp : d.parent = some p) (h : Resolves dm id r) :
    ∃ pr, Resolves dm p pr ∧ r = effOf (some pr) d := by
  cases h with
  | root hd' hp' => rw [hd] at hd'; cases hd'; rw [hp] at hp'; cases hp'
  | step hd' hp' hr => rw [hd] at hd'; cases hd'; rw [hp] at hp'; cases hp'; exact ⟨_, hr, rfl⟩

theorem Resolves.known {dm : Id → Option Desc} {id : Id} {r : Resolved} (h : Resolves dm id r) :
    ∃ d, dm id = some d := by
  cases h with
  | root hd _ => exact ⟨_, hd⟩
  | step hd _ _ => exact ⟨_, hd⟩

theorem Resolvable.parent {dm : Id → Option Desc} {id p : Id} {d : Desc}
    (hd : dm id = some d) (hp : d.parent = some p) (h : Resolvable dm id) : Resolvable dm p := by
  obtain ⟨r, hr⟩ := h
  obtain ⟨pr, hpr, _⟩ := Resolves.parent hd hp hr
  exact ⟨pr, hpr⟩

/-! ### the function with fuel -/

theorem resolveSpec_sound {dm : Id → Option Desc} :
    ∀ (n : Nat) (id : Id) (r : Resolved), resolveSpec dm n id = some r → Resolves dm id r := by
  intro n
  induction n with
  | zero => intro id r h; simp [resolveSpec] at h
  | succ n ih =>
    intro id r h
    unfold resolveSpec at h
    cases hd : dm id with
    | none => simp [hd] at h
    | some d =>
      cases hp : d.parent with
      | none =>
        simp [hd, hp] at h
        rw [← h]; exact .root hd hp
      | some p =>
        cases hr : resolveSpec dm n p with
        | none => simp [hd, hp, hr] at h
        | some pr =>
          simp [hd, hp, hr] at h
          rw [← h]; exact .step hd hp (ih p pr hr)

theorem resolveSpec_mono {dm : Id → Option Desc} :
    ∀ (n : Nat) (id : Id) (r : Resolved), resolveSpec dm n id = some r →
      resolveSpec dm (n + 1) id = some r := by
  intro n
  induction n with
  | zero => intro id r h; simp [resolveSpec] at h
  | succ n ih =>
    intro id r h
    unfold resolveSpec at h ⊢
    cases hd : dm id with
    | none => simp [hd] at h
    | some d =>
      cases hp : d.parent with
      | none => simpa [hd, hp] using h
      | some p =>
        cases hr : resolveSpec dm n p with
        | none => simp [hd, hp, hr] at h
        | some pr =>
          simp [hd, hp, hr] at h
          simp [hp, ih p pr hr, h]

theorem resolveSpec_mono_le {dm : Id → Option Desc} {n k : Nat} (hk : n ≤ k) {id : Id} {r : Resolved}
    (h : resolveSpec dm n id = some r) : resolveSpec dm k id = some r := by
  induction hk with
  | refl => exact h
  | step _ ih => exact resolveSpec_mono _ _ _ ih

theorem resolveSpec_complete {dm : Id → Option Desc} {id : Id} {r : Resolved} (h : Resolves dm id r) :
    ∃ n, resolveSpec dm n id = some r := by
  induction h with
  | root hd hp => exact ⟨1, by simp [resolveSpec, hd, hp]⟩
  | step hd hp _ ih =>
    obtain ⟨n, hn⟩ := ih
    exact ⟨n + 1, by simp [resolveSpec, hd, hp, hn]⟩

/-! ### association list -/

theorem lookup_setRes_same {m : SMap} {id : Id} {e : Entry} (r : Res) (h : lookup m id = some e) :
    lookup (setRes m id r) id = some { e with res := some r } := by
  induction m with
  | nil => simp [lookup] at h
  | cons ke m ih =>
    obtain ⟨k, e'⟩ := ke
    by_cases hk : k = id
    · simp [lookup, hk] at h
      simp [setRes, lookup, hk, h]
    · simp [lookup, hk] at h
      simp [setRes, lookup, hk, ih h]

theorem lookup_setRes_other {m : SMap} {id id' : Id} (r : Res) (h : id' ≠ id) :
    lookup (setRes m id r) id' = lookup m id' := by
  induction m with
  | nil => simp [setRes]
  | cons ke m ih =>
    obtain ⟨k, e'⟩ := ke
    by_cases hk : k = id
    · have : k ≠ id' := fun h' => h (h' ▸ hk ▸ rfl)
      simp [setRes, lookup, hk]
      subst hk
      simp [this]
    · by_cases hk' : k = id'
      · subst hk'
        simp [setRes, lookup, hk]
      · simp [setRes, lookup, hk, hk', ih]

theorem descOf_setRes (m : SMap) (id : Id) (r : Res) : descOf (setRes m id r) = descOf m := by
  funext id'
  unfold descOf
  by_cases h : id' = id
  · subst h
    cases hl : lookup m id' with
    | none =>
      have : lookup (setRes m id' r) id' = none := by
        induction m with
        | nil => simp [setRes, lookup]
        | cons ke m ih =>
          obtain ⟨k, e'⟩ := ke
          by_cases hk : k = id'
          · simp [lookup, hk] at hl
          · simp [lookup, hk] at hl
            simp [setRes, lookup, hk, ih hl]
      simp [this]
    | some e => simp [lookup_setRes_same r hl]
  · rw [lookup_setRes_other r h]

theorem lookup_append_new {m : SMap} {k : Id} (e : Entry) (id : Id) :
    lookup (m ++ [(k, e)]) id =
      match lookup m id with
      | some x => some x
      | none => if k = id then some e else none := by
  induction m with
  | nil => simp [lookup]
  | cons ke m ih =>
    obtain ⟨k', e'⟩ := ke
    by_cases hk : k' = id
    · simp [lookup, hk]
    · simp [lookup, hk, ih]

/-! ### the invariant -/

def Sound (nc : Bool) (m : SMap) : Prop :=
  ∀ id e r, lookup m id = some e → e.res = some r →
    Resolves (descOf m) id r.eff ∧ mkFmt nc r.eff = .ok r.fmt

def Roots (m : SMap) : Prop :=
  ∀ id e, lookup m id = some e → e.desc.parent = none → e.res ≠ none

def Complete (m : SMap) : Prop :=
  ∀ id r, Resolves (descOf m) id r → ∃ e rr, lookup m id = some e ∧ e.res = some rr

/-- `m'` has the same descriptions as `m` and keeps everything `m` had resolved -/
def Ext (m m' : SMap) : Prop :=
  descOf m' = descOf m ∧ ∀ id e, lookup m id = some e → e.res ≠ none → lookup m' id = some e

theorem Ext.refl (m : SMap) : Ext m m := ⟨rfl, fun _ _ h _ => h⟩

theorem Ext.trans {a b c : SMap} (h1 : Ext a b) (h2 : Ext b c) : Ext a c :=
  ⟨h2.1.trans h1.1, fun id e h hr => h2.2 id e (h1.2 id e h hr) hr⟩

/-- `id` needs no further attention: it is resolved, or the descriptions do not resolve it -/
def Done (dm : Id → Option Desc) (m : SMap) (id : Id) : Prop :=
  (∃ e, lookup m id = some e ∧ e.res ≠ none) ∨ ¬ Resolvable dm id

theorem Done.ext {dm : Id → Option Desc} {m m' : SMap} {id : Id} (h : Done dm m id) (he : Ext m m') :
    Done dm m' id := by
  rcases h with ⟨e, hl, hr⟩ | h
  · exact .inl ⟨e, he.2 id e hl hr, hr⟩
  · exact .inr h

/-- the chain accumulated by `walk`: newest element first, each one unresolved and referring to the
one before it (`top` for the head) -/
def ChainTo (m : SMap) : Id → List Id → Prop
  | _, [] => True
  | top, x :: rest =>
    (∃ e, lookup m x = some e ∧ e.res = none ∧ e.desc.parent = some top) ∧ ChainTo m x rest

/-! ### `walk` -/

theorem walk_stuck {nc : Bool} {m : SMap} {cant : List Id} (hroots : Roots m)
    (hcant : ∀ x ∈ cant, ¬ Resolvable (descOf m) x) :
    ∀ (fuel : Nat) (cur : Id) (rpath p : List Id),
      (∀ x ∈ rpath, Resolvable (descOf m) x → Resolvable (descOf m) cur) →
      walk m cant fuel cur rpath = .ok (.stuck p) →
      (∀ x ∈ p, ¬ Resolvable (descOf m) x) ∧ ¬ Resolvable (descOf m) cur := by
  have _ := nc
  intro fuel
  induction fuel with
  | zero => intro cur rpath p _ h; simp [walk] at h
  | succ fuel ih =>
    intro cur rpath p hchain h
    unfold walk at h
    split at h
    · cases h
    · cases hl : lookup m cur with
      | none => simp [hl] at h
      | some e =>
        cases hres : e.res with
        | some r => simp [hl, hres] at h
        | none =>
          cases hpar : e.desc.parent with
          | none => exact absurd hres (hroots cur e hl hpar)
          | some par =>
            have hd : descOf m cur = some e.desc := by simp [descOf, hl]
            simp only [hl, hres, hpar] at h
            split at h
            · rename_i hstop
              cases h
              have hnot : ¬ Resolvable (descOf m) cur := by
                rcases hstop with hc | hn
                · exact hcant cur hc
                · intro hr
                  obtain ⟨pr, hpr⟩ := Resolvable.parent hd hpar hr
                  obtain ⟨d', hd'⟩ := hpr.known
                  cases hlp : lookup m par with
                  | none => simp [descOf, hlp] at hd'
                  | some _ => simp [hlp] at hn
              exact ⟨fun x hx hr => hnot (hchain x hx hr), hnot⟩
            · have hchain' : ∀ x ∈ cur :: rpath, Resolvable (descOf m) x → Resolvable (descOf m) par := by
                intro x hx hr
                rcases List.mem_cons.mp hx with rfl | hx
                · exact Resolvable.parent hd hpar hr
                · exact Resolvable.parent hd hpar (hchain x hx hr)
              obtain ⟨h1, h2⟩ := ih par (cur :: rpath) p hchain' h
              exact ⟨h1, fun hr => h2 (Resolvable.parent hd hpar hr)⟩

theorem walk_found {m : SMap} {cant : List Id} :
    ∀ (fuel : Nat) (cur : Id) (rpath p : List Id) (par : Resolved),
      ChainTo m cur rpath → rpath.Nodup →
      walk m cant fuel cur rpath = .ok (.found par p) →
      ∃ anc e r, ChainTo m anc p ∧ p.Nodup ∧ lookup m anc = some e ∧ e.res = some r ∧ r.eff = par ∧
        (∀ e', lookup m cur = some e' → e'.res = none → cur ∈ p) ∧ (∀ x ∈ rpath, x ∈ p) := by
  intro fuel
  induction fuel with
  | zero => intro cur rpath p par _ _ h; simp [walk] at h
  | succ fuel ih =>
    intro cur rpath p par hchain hnd h
    unfold walk at h
    split at h
    · cases h
    · rename_i hnotin
      cases hl : lookup m cur with
      | none => simp [hl] at h
      | some e =>
        cases hres : e.res with
        | some r =>
          simp [hl, hres] at h
          obtain ⟨h1, h2⟩ := h
          subst h2
          refine ⟨cur, e, r, hchain, hnd, hl, hres, h1, ?_, fun x hx => hx⟩
          intro e' he' hn
          cases he'; rw [hres] at hn; cases hn
        | none =>
          cases hpar : e.desc.parent with
          | none => simp [hl, hres, hpar] at h
          | some q =>
            simp only [hl, hres, hpar] at h
            split at h
            · cases h
            · have hchain' : ChainTo m q (cur :: rpath) := ⟨⟨e, hl, hres, hpar⟩, hchain⟩
              have hnd' : (cur :: rpath).Nodup := List.nodup_cons.mpr ⟨hnotin, hnd⟩
              obtain ⟨anc, e2, r2, hc, hn, hl2, hr2, hp2, _, hsub⟩ := ih q (cur :: rpath) p par hchain' hnd' h
              exact ⟨anc, e2, r2, hc, hn, hl2, hr2, hp2,
                fun _ _ _ => hsub cur (List.mem_cons_self),
                fun x hx => hsub x (List.mem_cons_of_mem _ hx)⟩

end ColorsConf
