import AkVerif.Model.PPrint
/-!
Helper lemmas for C11: `showInt` (the model of Python's `str(int)`) produces a JSON number text
that the reader's `intOf?` turns back into the same integer.
-/
namespace PPrint

theorem digit_facts : ∀ d, d < 10 →
    isDigit (digitChar d) = true ∧ (digitChar d).toNat - 48 = d ∧
    (digitChar d = '0' → d = 0) ∧ digitChar d ≠ '-' := by decide

/-- value of least-significant-first digits -/
def lsVal : List Nat → Nat
  | [] => 0
  | d :: r => d + 10 * lsVal r

theorem lsDigits_lt (f n : Nat) : ∀ d, d ∈ lsDigits f n → d < 10 := by
  induction f generalizing n with
  | zero => intro d h; simp [lsDigits] at h
  | succ f ih =>
    intro d h
    simp only [lsDigits] at h
    split at h
    · simp at h
    · rcases List.mem_cons.mp h with h | h
      · omega
      · exact ih _ d h

theorem lsVal_lsDigits (f n : Nat) (h : n ≤ f) : lsVal (lsDigits f n) = n := by
  induction f generalizing n with
  | zero => have : n = 0 := by omega
            subst this; rfl
  | succ f ih =>
    simp only [lsDigits]
    split
    · rename_i h0; subst h0; rfl
    · rename_i h0
      simp only [lsVal]
      rw [ih (n / 10) (by omega)]
      omega

/-- the most significant digit of a positive number is not zero -/
theorem lsDigits_last (f n : Nat) (h0 : 0 < n) (h : n ≤ f) :
    ∃ l d, lsDigits f n = l ++ [d] ∧ d ≠ 0 := by
  induction f generalizing n with
  | zero => omega
  | succ f ih =>
    simp only [lsDigits, Nat.ne_of_gt h0, if_false]
    by_cases hq : n / 10 = 0
    · refine ⟨[], n % 10, ?_, by omega⟩
      cases f <;> simp [lsDigits, hq]
    · obtain ⟨l, d, e, hd⟩ := ih (n / 10) (by omega) (by omega)
      exact ⟨n % 10 :: l, d, by simp [e], hd⟩

theorem decVal_snoc (cs : List Char) (ch : Char) :
    decVal (cs ++ [ch]) = 10 * decVal cs + (ch.toNat - 48) := by
  simp [decVal, List.foldl_append]

theorem decVal_digits (l : List Nat) (h : ∀ d, d ∈ l → d < 10) :
    decVal (l.reverse.map digitChar) = lsVal l := by
  induction l with
  | nil => rfl
  | cons d r ih =>
    simp only [List.reverse_cons, List.map_append, List.map_cons, List.map_nil, decVal_snoc, lsVal]
    rw [ih (fun x hx => h x (List.mem_cons_of_mem _ hx)), (digit_facts d (h d (by simp))).2.1]
    omega

theorem all_isDigit_digits (l : List Nat) (h : ∀ d, d ∈ l → d < 10) :
    (l.map digitChar).all isDigit = true := by
  induction l with
  | nil => rfl
  | cons d r ih =>
    simp only [List.map_cons, List.all_cons, Bool.and_eq_true]
    exact ⟨(digit_facts d (h d (by simp))).1, ih (fun x hx => h x (List.mem_cons_of_mem _ hx))⟩

/-- shape of the text of a positive number: a non-zero digit, then digits; its value is the number -/
theorem showNat_pos (n : Nat) (h0 : 0 < n) :
    ∃ c0 cs, showNat n = c0 :: cs ∧ isDigit c0 = true ∧ c0 ≠ '0' ∧ c0 ≠ '-' ∧
      cs.all isDigit = true ∧ decVal (c0 :: cs) = n := by
  obtain ⟨l, d, e, hd⟩ := lsDigits_last n n h0 (Nat.le_refl n)
  have hlt := lsDigits_lt n n
  have hv := lsVal_lsDigits n n (Nat.le_refl n)
  have hdv := decVal_digits (lsDigits n n) hlt
  have hd10 : d < 10 := hlt d (by simp [e])
  have hl10 : ∀ x, x ∈ l.reverse → x < 10 := fun x hx => hlt x (by simp [e]; left; simpa using hx)
  have hs : showNat n = digitChar d :: l.reverse.map digitChar := by
    simp [showNat, Nat.ne_of_gt h0, e]
  refine ⟨digitChar d, l.reverse.map digitChar, hs, (digit_facts d hd10).1, ?_,
    (digit_facts d hd10).2.2.2, all_isDigit_digits _ hl10, ?_⟩
  · intro h; exact hd ((digit_facts d hd10).2.2.1 h)
  · rw [← hs]
    simp only [showNat, Nat.ne_of_gt h0, if_false]
    rw [hdv, hv]

theorem nrun_int_digits (cs : List Char) (h : cs.all isDigit = true) : nrun .int cs = some .int := by
  induction cs with
  | nil => rfl
  | cons x r ih =>
    simp only [List.all_cons, Bool.and_eq_true] at h
    simp [nrun, nstep, h.1, ih h.2]

theorem numOk_showNat (n : Nat) : numOk (showNat n) = true ∧ numOk ('-' :: showNat (n + 1)) = true := by
  constructor
  · by_cases h0 : n = 0
    · subst h0; decide
    · obtain ⟨c0, cs, e, hd, hz, hm, hall, _⟩ := showNat_pos n (Nat.pos_of_ne_zero h0)
      simp [e, numOk, nrun, nstep, hd, hz, hm, nrun_int_digits cs hall, naccept]
  · obtain ⟨c0, cs, e, hd, hz, hm, hall, _⟩ := showNat_pos (n + 1) (Nat.succ_pos n)
    simp [e, numOk, nrun, nstep, hd, hz, nrun_int_digits cs hall, naccept]

theorem numOk_showInt (n : Int) : numOk (showInt n) = true := by
  cases n with
  | ofNat k => exact (numOk_showNat k).1
  | negSucc k => exact (numOk_showNat k).2

/-- reading the text of an int gives the int -/
theorem intOf?_showInt (n : Int) : intOf? (showInt n) = some n := by
  cases n with
  | ofNat k =>
    simp only [showInt]
    by_cases h0 : k = 0
    · subst h0; decide
    · obtain ⟨c0, cs, e, hd, hz, hm, hall, hv⟩ := showNat_pos k (Nat.pos_of_ne_zero h0)
      rw [e]
      simp only [intOf?, hm, if_false, List.all_cons, hd, hall, Bool.and_self, if_true, hv]
      rfl
  | negSucc k =>
    obtain ⟨c0, cs, e, hd, hz, hm, hall, hv⟩ := showNat_pos (k + 1) (Nat.succ_pos k)
    simp only [showInt, intOf?, if_true, e]
    simp only [List.isEmpty_cons, Bool.not_false, List.all_cons, hd, hall, Bool.and_self, if_true, hv]
    rfl

theorem numTok_showInt (n : Int) : numTok (showInt n) = .int n := by
  simp [numTok, intOf?_showInt]

theorem numTok_float {t : List Char} (h : intOf? t = none) : numTok t = .num t := by
  simp [numTok, h]

end PPrint
