import AkVerif.Model.SrcPosCompose
import AkVerif.Lemmas.SrcPos
import AkVerif.Lemmas.SrcPosParse
import AkVerif.Lemmas.SrcPosErase
/-! C04 helper lemmas for the composition tokenizer + LL parser + positions. -/
namespace SrcPos
open Ak

/-- the parser's tokens carry the spans of the tokenizer's tokens that survive the skip filter -/
theorem ptoksOf_spans (names : List (List Char)) (cfg : Cfg) (skip : List LL.Sym) :
    ∀ (ts : List Tok) (r : List (PTok LL.Sym)), ptoksOf names cfg skip ts = some r →
      r.map (·.sp) = (ts.filter (keepTok names cfg skip)).map Tok.span := by
  intro ts
  induction ts with
  | nil => intro r h; simp [ptoksOf] at h; subst h; rfl
  | cons t ts ih =>
    intro r h
    unfold ptoksOf at h
    split at h
    · rename_i n r' hn hr
      have := ih r' hr
      by_cases hs : n ∈ skip
      · simp [hs] at h; subst h
        simp [List.filter, keepTok, hn, hs, this]
      · simp [hs] at h; subst h
        simp [List.filter, keepTok, hn, hs, this]
    · cases h

theorem parserOk_suffix {P : LL.Parser} (h : parserOk P = true) :
    ∀ s, P.cfg.isSuffix s = true → P.cfg.isTerm s = false := by
  intro s hs
  simp only [parserOk, Bool.and_eq_true, List.all_eq_true] at h
  simp only [LL.Parser.cfg, LL.cfgOf, decide_eq_true_eq] at hs
  have := h.1 s hs
  simpa [LL.Parser.cfg, LL.cfgOf] using this

theorem parserOk_end {P : LL.Parser} (h : parserOk P = true) : P.cfg.isTerm LL.endSym = true := by
  simp only [parserOk, Bool.and_eq_true] at h
  simpa [LL.Parser.cfg, LL.cfgOf] using h.2

end SrcPos
