import AkVerif.Lemmas.LLLang
/-!
C02 strengthened: the factorised tree built from a user derivation tree (`gtree_of_derives`) gives
back the user tree when its helper nodes are spliced into their parents (`unf`).  Hence the map
user tree -> factorised tree is injective.
-/
set_option linter.unusedSectionVars false
namespace LL
open Ak

/-- children after splicing a trailing helper child (as `LL.splice` does at every node) -/
def spliceLast (S : List Sym) (cs : List (Tree Sym)) : List (Tree Sym) :=
  match cs.getLast? with
  | some v => if v.name ∈ S then cs.dropLast ++ v.children else cs
  | none => cs

mutual
/-- the user-level view of a tree of the factorised dictionary: helper nodes (always last children)
are spliced into their parents, bottom-up -/
def unf (S : List Sym) : Tree Sym → Tree Sym
  | .leaf n v => .leaf n v
  | .node n cs => .node n (spliceLast S (unfList S cs))
def unfList (S : List Sym) : List (Tree Sym) → List (Tree Sym)
  | [] => []
  | t :: ts => unf S t :: unfList S ts
end

theorem unfList_eq (S : List Sym) (cs : List (Tree Sym)) : unfList S cs = cs.map (unf S) := by
  induction cs with
  | nil => simp [unfList]
  | cons t ts ih => simp [unfList, ih]

theorem unf_leaf (S : List Sym) (n : Sym) (v : List Char) : unf S (.leaf n v) = .leaf n v := by
  simp [unf]

theorem unf_node (S : List Sym) (n : Sym) (cs : List (Tree Sym)) :
    unf S (.node n cs) = .node n (spliceLast S (cs.map (unf S))) := by
  simp [unf, unfList_eq]

theorem unf_name (S : List Sym) (t : Tree Sym) : (unf S t).name = t.name := by
  cases t with
  | leaf n v => simp [unf_leaf, Tree.name]
  | node n cs => simp [unf_node, Tree.name]

/-- no splicing when the last child is not a helper -/
theorem spliceLast_noHelper (S : List Sym) (cs : List (Tree Sym)) (h : ∀ c ∈ cs, c.name ∉ S) :
    spliceLast S cs = cs := by
  unfold spliceLast
  cases hl : cs.getLast? with
  | none => rfl
  | some v =>
    have hv : v ∈ cs := List.mem_of_getLast? hl
    simp [h v hv]

/-- splicing a trailing helper -/
theorem spliceLast_helper (S : List Sym) (front : List (Tree Sym)) (v : Tree Sym) (h : v.name ∈ S) :
    spliceLast S (front ++ [v]) = front ++ v.children := by
  unfold spliceLast
  simp [h]

section Unf
variable {terms : List Sym} {U G : Prods Sym} {S : List Sym}

/-- un-splicing, with the splice of the built tree: along a flattened expansion, trees for the
expansion (none rooted at a helper) give a tree for the symbol whose user-level view has exactly the
user-level views of the given trees as children -/
theorem build_of_flat_unf (hdisj : ∀ k ∈ pkeys G, k ∉ terms) :
    ∀ {s : Sym} {e : List Sym}, FlatD G S s e → ∀ (cs : List (Tree Sym)), cs.map Tree.name = e →
      (∀ c ∈ cs, GTree terms G c) → (∀ c ∈ cs, c.name ∉ S) →
      ∃ t, GTree terms G t ∧ t.name = s ∧ t.yield = yieldL cs ∧ unf S t = .node s (cs.map (unf S)) := by
  intro s e h
  induction h with
  | @base s p hp _ =>
    intro cs hn hv hns
    have hk : s ∈ pkeys G := by
      obtain ⟨rules, hm, _⟩ := mem_gramRules.1 hp
      exact List.mem_map.2 ⟨_, hm, rfl⟩
    refine ⟨.node s cs, (gtree_node ..).2 ⟨hdisj s hk, hn ▸ hp, hv⟩, rfl, by simp, ?_⟩
    rw [unf_node, spliceLast_noHelper]
    intro c hc
    obtain ⟨c0, hc0, rfl⟩ := List.mem_map.1 hc
    rw [unf_name]; exact hns c0 hc0
  | @step s pre s' e' hp hs' _ ih =>
    intro cs hn hv hns
    have hk : s ∈ pkeys G := by
      obtain ⟨rules, hm, _⟩ := mem_gramRules.1 hp
      exact List.mem_map.2 ⟨_, hm, rfl⟩
    -- split the children after `pre`
    have hsplit : cs = cs.take pre.length ++ cs.drop pre.length := (List.take_append_drop _ _).symm
    have hlen : pre.length ≤ cs.length := by
      have := congrArg List.length hn
      simp at this; omega
    have h1 : (cs.take pre.length).map Tree.name = pre := by
      rw [List.map_take, hn]; simp
    have h2 : (cs.drop pre.length).map Tree.name = e' := by
      rw [List.map_drop, hn]; simp
    obtain ⟨t2, ht2, hn2, hy2, hu2⟩ := ih (cs.drop pre.length) h2
      (fun c hc => hv c (List.mem_of_mem_drop hc)) (fun c hc => hns c (List.mem_of_mem_drop hc))
    refine ⟨.node s (cs.take pre.length ++ [t2]), (gtree_node ..).2 ⟨hdisj s hk, ?_, ?_⟩, rfl, ?_, ?_⟩
    · simp [h1, hn2]; exact hp
    · intro c hc
      simp only [List.mem_append, List.mem_singleton] at hc
      rcases hc with hc | hc
      · exact hv c (List.mem_of_mem_take hc)
      · subst hc; exact ht2
    · rw [yield_node, yieldL_append, yieldL_single, hy2, ← yieldL_append, ← hsplit]
    · have hname : (unf S t2).name ∈ S := by rw [unf_name, hn2]; exact hs'
      have hch : (unf S t2).children = (cs.drop pre.length).map (unf S) := by
        rw [hu2]; rfl
      rw [unf_node, List.map_append, List.map_cons, List.map_nil, spliceLast_helper S _ _ hname, hch,
        ← List.map_append, ← hsplit]

/-- the root of a user derivation tree is not a helper -/
theorem derives_name_notSuf (hR : FactRelD U G S) (hST : ∀ s ∈ S, s ∉ terms) :
    ∀ (t : Tree Sym), Derives terms U t → t.name ∉ S
  | .leaf n v, h => fun hs => hST n hs ((Derives_leaf ..).1 h)
  | .node n cs, h => by
    obtain ⟨hrule, _⟩ := (Derives_node ..).1 h
    obtain ⟨rules, hm, _⟩ := mem_gramRules.1 hrule
    have hk : n ∈ pkeys U := List.mem_map.2 ⟨_, hm, rfl⟩
    exact fun hs => hR.sufNotUser n hs hk

/-- `L(U) ⊆ L(G)`, tree by tree, and splicing the helpers of the factorised tree gives the user tree
back -/
theorem gtree_of_derives_unf (hR : FactRelD U G S) (hdisj : ∀ k ∈ pkeys G, k ∉ terms)
    (hST : ∀ s ∈ S, s ∉ terms) :
    ∀ (t : Tree Sym), Derives terms U t →
      ∃ t', GTree terms G t' ∧ t'.name = t.name ∧ t'.yield = t.yield ∧ unf S t' = t
  | .leaf n v, h => ⟨.leaf n v, (gtree_leaf ..).2 ((Derives_leaf ..).1 h), rfl, rfl, unf_leaf ..⟩
  | .node n cs, h => by
    obtain ⟨hrule, hcs⟩ := (Derives_node ..).1 h
    -- convert the children
    have hconv : ∀ (l : List (Tree Sym)), (∀ c ∈ l, c ∈ cs) →
        ∃ l', l'.map Tree.name = l.map Tree.name ∧ (∀ c ∈ l', GTree terms G c) ∧ yieldL l' = yieldL l ∧
          l'.map (unf S) = l := by
      intro l
      induction l with
      | nil => intro _; exact ⟨[], rfl, by simp, rfl, rfl⟩
      | cons c l ih =>
        intro hl
        have hc : c ∈ cs := hl c (by simp)
        obtain ⟨c', hc1, hc2, hc3, hc4⟩ := gtree_of_derives_unf hR hdisj hST c (hcs c hc)
        obtain ⟨l', hl1, hl2, hl3, hl4⟩ := ih (fun x hx => hl x (by simp [hx]))
        refine ⟨c' :: l', by simp [hc2, hl1], ?_, ?_, by simp [hc4, hl4]⟩
        · intro x hx
          simp only [List.mem_cons] at hx
          rcases hx with hx | hx
          · subst hx; exact hc1
          · exact hl2 x hx
        · have e1 : yieldL (c' :: l') = c'.yield ++ yieldL l' := by simp [yieldL]
          have e2 : yieldL (c :: l) = c.yield ++ yieldL l := by simp [yieldL]
          rw [e1, e2, hc3, hl3]
    obtain ⟨cs', hn, hv, hy, hu⟩ := hconv cs (fun _ h => h)
    have hns : ∀ c ∈ cs', c.name ∉ S := by
      intro c' hc'
      have : c'.name ∈ cs.map Tree.name := hn ▸ List.mem_map.2 ⟨c', hc', rfl⟩
      obtain ⟨c, hc, hcn⟩ := List.mem_map.1 this
      rw [← hcn]
      exact derives_name_notSuf hR hST c (hcs c hc)
    obtain ⟨t', ht1, ht2, ht3, ht4⟩ :=
      build_of_flat_unf (S := S) hdisj (hR.flatOut n _ hrule) cs' hn hv hns
    exact ⟨t', ht1, ht2, by rw [ht3, hy]; simp, by rw [ht4, hu]⟩
termination_by t => sizeOf t
decreasing_by
  simp_wf
  have := List.sizeOf_lt_of_mem hc
  omega

/-- the same without the redundant hypothesis on the helpers (they are keys of `G`) -/
theorem gtree_of_derives_unf' (hR : FactRelD U G S) (hdisj : ∀ k ∈ pkeys G, k ∉ terms)
    (t : Tree Sym) (h : Derives terms U t) :
    ∃ t', GTree terms G t' ∧ t'.name = t.name ∧ t'.yield = t.yield ∧ unf S t' = t :=
  gtree_of_derives_unf hR hdisj (fun s hs => hdisj s (hR.sufKeys s hs)) t h

/-- injectivity: two user trees with the same factorised tree are equal; stated on the witnesses -/
theorem unf_inj_witness {t1 t2 t' : Tree Sym} (h1 : unf S t' = t1) (h2 : unf S t' = t2) : t1 = t2 :=
  h1.symm.trans h2

end Unf
end LL
