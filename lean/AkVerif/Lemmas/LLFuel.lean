import AkVerif.Lemmas.LLFollow
/-!
The fuel of the three fixpoint loops of `Model/LLGrammar.lean` always suffices:

* `nullables_fuel`  — `nullables G ≠ .error .outOfFuel`,
* `firstSets_fuel`  — `firstSets terms nulls G ≠ .error .outOfFuel`,
* `followSets_fuel` — `followSets terms nulls first G start endS ≠ .error .outOfFuel`
  (FIRST sets made of terminals, `endS` a terminal).

`nullLoop`: the current set is duplicate-free and made of keys of `G`, every pass that does not stop
makes it longer.  `firstLoop` / `depsLoop`: the state is a dictionary with `G.length` entries whose
values are duplicate-free lists of terminals (`FSInv`); the total size `tot` never shrinks and a pass
that reports an update made it strictly larger (`Prog`).  Errors of the passes themselves are
`KeyError`s (`*_err`).

Also: `firstSets_terms` (the FIRST sets are duplicate-free lists of terminals).
-/
set_option linter.unusedSectionVars false
set_option linter.unusedVariables false
namespace LL
open Ak

/-! ### generic helpers -/

theorem exc_bind_err {ε α β : Type} {x : Except ε α} {f : α → Except ε β} {e : ε}
    (h : (x >>= f) = .error e) : x = .error e ∨ ∃ a, x = .ok a ∧ f a = .error e := by
  cases x with
  | error e' =>
    simp only [bind, Except.bind, Except.error.injEq] at h
    exact Or.inl (by rw [h])
  | ok a => exact Or.inr ⟨a, rfl, h⟩

/-- a duplicate-free list inside `m` is not longer than `m` -/
theorem nodup_sub_length {α : Type} [DecidableEq α] : ∀ (l m : List α), l.Nodup →
    (∀ x ∈ l, x ∈ m) → l.length ≤ m.length
  | [], m, _, _ => Nat.zero_le _
  | a :: l, m, hn, hs => by
    have ha : a ∈ m := hs a (by simp)
    have hn' := List.nodup_cons.1 hn
    have hsub : ∀ x ∈ l, x ∈ m.erase a := by
      intro x hx
      have hne : x ≠ a := by
        intro e; subst e; exact hn'.1 hx
      exact (List.mem_erase_of_ne hne).2 (hs x (List.mem_cons_of_mem _ hx))
    have h1 := nodup_sub_length l (m.erase a) hn'.2 hsub
    rw [List.length_erase_of_mem ha] at h1
    have h2 : 0 < m.length := List.length_pos_of_mem ha
    simp only [List.length_cons]
    omega

section Dict
variable {κ β : Type} [DecidableEq κ]

theorem dgetE_err {k : κ} {d : List (κ × β)} {e : Err} (h : dgetE k d = .error e) : e = .keyError := by
  unfold dgetE at h
  split at h
  · cases h
  · cases h; rfl

theorem nodup_snoc {s : List κ} {x : κ} (hs : s.Nodup) (hx : x ∉ s) : (s ++ [x]).Nodup := by
  induction s with
  | nil => simp
  | cons a s ih =>
    have hn := List.nodup_cons.1 hs
    have hxa : x ≠ a := fun e => hx (by simp [e])
    have hxs : x ∉ s := fun h => hx (List.mem_cons_of_mem _ h)
    simp only [List.cons_append, List.nodup_cons, List.mem_append, List.mem_singleton]
    refine ⟨?_, ih hn.2 hxs⟩
    rintro (h | h)
    · exact hn.1 h
    · exact hxa h.symm

theorem sadd_nodup_f {s : List κ} (x : κ) (hs : s.Nodup) : (sadd s x).Nodup := by
  unfold sadd
  split
  · exact hs
  · rename_i hx; exact nodup_snoc hs hx

theorem sunion_nodup_f {a : List κ} (b : List κ) (ha : a.Nodup) : (sunion a b).Nodup := by
  unfold sunion
  induction b generalizing a with
  | nil => simpa using ha
  | cons x xs ih =>
    simp only [List.foldl_cons]
    exact ih (sadd_nodup_f x ha)

theorem sunion_length_le (a b : List κ) : a.length ≤ (sunion a b).length := by
  obtain ⟨t, ht⟩ := sunion_prefix a b
  rw [ht]; simp

theorem length_dset_of_dget {k : κ} {v old : β} : ∀ {d : List (κ × β)}, dget k d = some old →
    (dset k v d).length = d.length
  | [], h => by simp [dget] at h
  | (k', v') :: rest, h => by
    unfold dget at h
    unfold dset
    split at h
    · rename_i hk; simp [hk]
    · rename_i hk
      simp only [hk, if_false, List.length_cons]
      rw [length_dset_of_dget h]

theorem mem_dset {k : κ} {v : β} {p : κ × β} : ∀ {d : List (κ × β)}, p ∈ dset k v d →
    p ∈ d ∨ p.2 = v
  | [], h => by
    simp only [dset, List.mem_singleton] at h
    subst h; exact Or.inr rfl
  | (k', v') :: rest, h => by
    unfold dset at h
    split at h
    · rcases List.mem_cons.1 h with e | h
      · subst e; exact Or.inr rfl
      · exact Or.inl (List.mem_cons_of_mem _ h)
    · rcases List.mem_cons.1 h with e | h
      · subst e; exact Or.inl (by simp)
      · rcases mem_dset h with h | h
        · exact Or.inl (List.mem_cons_of_mem _ h)
        · exact Or.inr h

end Dict

variable {σ : Type} [DecidableEq σ]

/-! ### `nullables` -/

theorem nullPass_nodup (cur : List σ) : ∀ (G : Prods σ) (next : List σ), next.Nodup →
    (nullPass cur G next).Nodup
  | [], next, h => by simpa [nullPass] using h
  | (nt, rules) :: rest, next, h => by
    unfold nullPass
    split
    · exact nullPass_nodup cur rest next h
    · rename_i hin
      split
      · exact nullPass_nodup cur rest _ (nodup_snoc h hin)
      · exact nullPass_nodup cur rest next h

theorem nullLoop_fuel (G : Prods σ) : ∀ (fuel : Nat) (cur : List σ), cur.Nodup →
    (∀ x ∈ cur, x ∈ G.map (·.1)) → G.length + 1 ≤ fuel + cur.length →
    nullLoop G fuel cur ≠ .error .outOfFuel
  | 0, cur, hn, hs, hf => by
    have := nodup_sub_length cur (G.map (·.1)) hn hs
    simp only [List.length_map] at this
    omega
  | fuel + 1, cur, hn, hs, hf => by
    unfold nullLoop
    simp only
    split
    · intro h; cases h
    · rename_i hlen
      obtain ⟨t, ht⟩ := nullPass_prefix cur G cur
      have hlt : cur.length + 1 ≤ (nullPass cur G cur).length := by
        rw [ht] at hlen ⊢
        cases t with
        | nil => simp at hlen
        | cons a b => simp
      refine nullLoop_fuel G fuel _ (nullPass_nodup cur G cur hn) ?_ (by omega)
      intro x hx
      rcases mem_nullPass cur G cur x hx with h | ⟨rules, _, hm, _⟩
      · exact hs x h
      · exact List.mem_map.2 ⟨(x, rules), hm, rfl⟩

/-- the fuel of `_get_nullables` suffices -/
theorem nullables_fuel (G : Prods σ) : nullables G ≠ .error .outOfFuel :=
  nullLoop_fuel G _ [] List.nodup_nil (by simp) (by simp)

/-! ### the measure of `firstLoop` and `depsLoop` -/

/-- total size of the sets of a dictionary -/
def tot : SetMap σ → Nat
  | [] => 0
  | (_, v) :: rest => v.length + tot rest

theorem tot_dset {k : σ} {v old : List σ} : ∀ {d : SetMap σ}, dget k d = some old →
    tot (dset k v d) + old.length = tot d + v.length
  | [], h => by simp [dget] at h
  | (k', v') :: rest, h => by
    unfold dget at h
    unfold dset
    split at h
    · rename_i hk
      cases h
      simp only [hk, if_true, tot]
      omega
    · rename_i hk
      have := tot_dset (v := v) h
      simp only [hk, if_false, tot]
      omega

/-- `n` entries, every value a duplicate-free list of terminals -/
def FSInv (terms : List σ) (n : Nat) (M : SetMap σ) : Prop :=
  M.length = n ∧ ∀ p ∈ M, p.2.Nodup ∧ ∀ t ∈ p.2, t ∈ terms

theorem FSInv.get {terms : List σ} {n : Nat} {M : SetMap σ} (h : FSInv terms n M) {k : σ} {v : List σ}
    (hk : dget k M = some v) : v.Nodup ∧ ∀ t ∈ v, t ∈ terms :=
  h.2 (k, v) (dget_mem hk)

theorem FSInv.dset {terms : List σ} {n : Nat} {M : SetMap σ} (h : FSInv terms n M) {k : σ}
    {old v : List σ} (hk : dget k M = some old) (hn : v.Nodup) (hs : ∀ t ∈ v, t ∈ terms) :
    FSInv terms n (dset k v M) := by
  refine ⟨by rw [length_dset_of_dget hk]; exact h.1, ?_⟩
  intro p hp
  rcases mem_dset hp with hp | hp
  · exact h.2 p hp
  · rw [hp]; exact ⟨hn, hs⟩

theorem tot_le_of_forall {m : Nat} : ∀ (M : SetMap σ), (∀ p ∈ M, p.2.length ≤ m) →
    tot M ≤ M.length * m
  | [], _ => by simp [tot]
  | (k, v) :: rest, h => by
    have h1 : v.length ≤ m := h (k, v) (by simp)
    have h2 := tot_le_of_forall rest (fun p hp => h p (List.mem_cons_of_mem _ hp))
    simp only [tot, List.length_cons, Nat.add_mul, Nat.one_mul]
    omega

theorem FSInv.bound {terms : List σ} {n : Nat} {M : SetMap σ} (h : FSInv terms n M) :
    tot M ≤ n * terms.length := by
  rw [← h.1]
  exact tot_le_of_forall M (fun p hp => nodup_sub_length _ _ (h.2 p hp).1 (h.2 p hp).2)

theorem FSInv_emptySets (terms : List σ) (G : Prods σ) : FSInv terms G.length (emptySets G) := by
  refine ⟨by simp [emptySets], ?_⟩
  intro p hp
  simp only [emptySets, List.mem_map] at hp
  obtain ⟨q, _, hq⟩ := hp
  subst hq
  simp

/-- sizes do not shrink, and a raised flag means: it was raised before or the size grew -/
def Prog (M : SetMap σ) (u : Bool) (M' : SetMap σ) (u' : Bool) : Prop :=
  tot M ≤ tot M' ∧ (u' = true → u = true ∨ tot M < tot M')

theorem Prog.refl (M : SetMap σ) (u : Bool) : Prog M u M u := ⟨Nat.le_refl _, fun h => Or.inl h⟩

theorem Prog.trans {M1 M2 M3 : SetMap σ} {u1 u2 u3 : Bool} (h1 : Prog M1 u1 M2 u2)
    (h2 : Prog M2 u2 M3 u3) : Prog M1 u1 M3 u3 := by
  refine ⟨Nat.le_trans h1.1 h2.1, fun h => ?_⟩
  rcases h2.2 h with h | h
  · rcases h1.2 h with h | h
    · exact Or.inl h
    · exact Or.inr (Nat.lt_of_lt_of_le h h2.1)
  · exact Or.inr (Nat.lt_of_le_of_lt h1.1 h)

/-- replacing a set by a superset-prefix of it, flag = "length changed" -/
theorem Prog_dset {M : SetMap σ} {k : σ} {old v : List σ} (u : Bool) (hk : dget k M = some old)
    (hle : old.length ≤ v.length) :
    Prog M u (dset k v M) (u || decide (v.length ≠ old.length)) := by
  have ht := tot_dset (v := v) hk
  refine ⟨by omega, fun h => ?_⟩
  simp only [Bool.or_eq_true, decide_eq_true_eq] at h
  rcases h with h | h
  · exact Or.inl h
  · exact Or.inr (by omega)

/-! ### `firstSets` -/

section First
variable {terms nulls : List σ}

theorem firstSyms_err {nt : σ} : ∀ (l : List σ) (fs : SetMap σ) (upd : Bool) (e : Err),
    firstSyms terms nulls nt l fs upd = .error e → e = .keyError
  | [], fs, upd, e, h => by simp [firstSyms] at h
  | s :: rest, fs, upd, e, h => by
    unfold firstSyms at h
    rcases exc_bind_err h with h1 | ⟨cur, _, h⟩
    · exact dgetE_err h1
    · simp only at h
      split at h
      · rcases exc_bind_err h with h1 | ⟨⟨fs1, upd1⟩, _, h⟩
        · split at h1 <;> cases h1
        · simp only at h
          split at h
          · exact firstSyms_err rest _ _ _ h
          · cases h
      · rcases exc_bind_err h with h1 | ⟨other, _, h⟩
        · exact dgetE_err h1
        · simp only [pure_bind] at h
          split at h
          · exact firstSyms_err rest _ _ _ h
          · cases h

theorem firstRules_err {nt : σ} : ∀ (rs : List (Rule σ)) (fs : SetMap σ) (upd : Bool) (e : Err),
    firstRules terms nulls nt rs fs upd = .error e → e = .keyError
  | [], fs, upd, e, h => by simp [firstRules] at h
  | r :: rest, fs, upd, e, h => by
    unfold firstRules at h
    rcases exc_bind_err h with h1 | ⟨⟨fs1, upd1⟩, _, h⟩
    · exact firstSyms_err _ _ _ _ h1
    · exact firstRules_err rest _ _ _ h

theorem firstPass_err : ∀ (G : Prods σ) (fs : SetMap σ) (upd : Bool) (e : Err),
    firstPass terms nulls G fs upd = .error e → e = .keyError
  | [], fs, upd, e, h => by simp [firstPass] at h
  | (nt, rs) :: rest, fs, upd, e, h => by
    unfold firstPass at h
    rcases exc_bind_err h with h1 | ⟨⟨fs1, upd1⟩, _, h⟩
    · exact firstRules_err _ _ _ _ h1
    · exact firstPass_err rest _ _ _ h

theorem firstSyms_prog {n : Nat} {nt : σ} : ∀ (l : List σ) (fs : SetMap σ) (upd : Bool)
    (res : SetMap σ × Bool), firstSyms terms nulls nt l fs upd = .ok res → FSInv terms n fs →
    FSInv terms n res.1 ∧ Prog fs upd res.1 res.2
  | [], fs, upd, res, h, hI => by
    simp only [firstSyms, Except.ok.injEq] at h
    subst h
    exact ⟨hI, Prog.refl _ _⟩
  | s :: rest, fs, upd, res, h, hI => by
    obtain ⟨cur, fs1, upd1, hcur, hstep, h⟩ := firstSyms_cons_ok h
    have hc := hI.get hcur
    have h1 : FSInv terms n fs1 ∧ Prog fs upd fs1 upd1 := by
      rcases hstep with ⟨h1, ⟨_, hfs, hu⟩ | ⟨h2, hfs, hu⟩⟩ | ⟨h1, other, hother, hfs, hu⟩
      · subst hfs; subst hu; exact ⟨hI, Prog.refl _ _⟩
      · subst hfs; subst hu
        refine ⟨hI.dset hcur (nodup_snoc hc.1 h2) ?_, ?_⟩
        · intro t ht
          rcases List.mem_append.1 ht with ht | ht
          · exact hc.2 t ht
          · rw [List.mem_singleton.1 ht]; exact h1
        · have ht := tot_dset (v := cur ++ [s]) hcur
          simp only [List.length_append, List.length_singleton] at ht
          exact ⟨by omega, fun _ => Or.inr (by omega)⟩
      · subst hfs; subst hu
        have ho := hI.get hother
        refine ⟨hI.dset hcur (sunion_nodup_f other hc.1) ?_, Prog_dset upd hcur (sunion_length_le _ _)⟩
        intro t ht
        rcases mem_sunion.1 ht with ht | ht
        · exact hc.2 t ht
        · exact ho.2 t ht
    split at h
    · obtain ⟨h2, h3⟩ := firstSyms_prog rest fs1 upd1 res h h1.1
      exact ⟨h2, h1.2.trans h3⟩
    · simp only [Except.ok.injEq] at h
      subst h
      exact h1

theorem firstRules_prog {n : Nat} {nt : σ} : ∀ (rs : List (Rule σ)) (fs : SetMap σ) (upd : Bool)
    (res : SetMap σ × Bool), firstRules terms nulls nt rs fs upd = .ok res → FSInv terms n fs →
    FSInv terms n res.1 ∧ Prog fs upd res.1 res.2
  | [], fs, upd, res, h, hI => by
    simp only [firstRules, Except.ok.injEq] at h
    subst h
    exact ⟨hI, Prog.refl _ _⟩
  | r :: rest, fs, upd, res, h, hI => by
    unfold firstRules at h
    obtain ⟨⟨fs1, upd1⟩, h0, h⟩ := exc_bind_ok h
    simp only at h
    obtain ⟨h1, h2⟩ := firstSyms_prog _ _ _ _ h0 hI
    obtain ⟨h3, h4⟩ := firstRules_prog rest _ _ _ h h1
    exact ⟨h3, h2.trans h4⟩

theorem firstPass_prog {n : Nat} : ∀ (G : Prods σ) (fs : SetMap σ) (upd : Bool)
    (res : SetMap σ × Bool), firstPass terms nulls G fs upd = .ok res → FSInv terms n fs →
    FSInv terms n res.1 ∧ Prog fs upd res.1 res.2
  | [], fs, upd, res, h, hI => by
    simp only [firstPass, Except.ok.injEq] at h
    subst h
    exact ⟨hI, Prog.refl _ _⟩
  | (nt, rs) :: rest, fs, upd, res, h, hI => by
    unfold firstPass at h
    obtain ⟨⟨fs1, upd1⟩, h0, h⟩ := exc_bind_ok h
    simp only at h
    obtain ⟨h1, h2⟩ := firstRules_prog _ _ _ _ h0 hI
    obtain ⟨h3, h4⟩ := firstPass_prog rest _ _ _ h h1
    exact ⟨h3, h2.trans h4⟩

theorem firstLoop_fuel {n : Nat} (G : Prods σ) : ∀ (fuel : Nat) (fs : SetMap σ), FSInv terms n fs →
    n * terms.length + 1 ≤ fuel + tot fs → firstLoop terms nulls G fuel fs ≠ .error .outOfFuel
  | 0, fs, hI, hf => by
    have := hI.bound
    omega
  | fuel + 1, fs, hI, hf => by
    unfold firstLoop
    cases hp : firstPass terms nulls G fs false with
    | error e =>
      have := firstPass_err _ _ _ _ hp
      subst this
      intro h; cases h
    | ok res =>
      obtain ⟨fs1, upd1⟩ := res
      obtain ⟨h1, h2⟩ := firstPass_prog _ _ _ _ hp hI
      simp only [bind, Except.bind]
      split
      · rename_i hu
        have hlt : tot fs < tot fs1 := by
          rcases h2.2 hu with h | h
          · cases h
          · exact h
        exact firstLoop_fuel G fuel fs1 h1 (by omega)
      · intro h; cases h

theorem firstLoop_inv {n : Nat} (G : Prods σ) : ∀ (fuel : Nat) (fs first : SetMap σ),
    firstLoop terms nulls G fuel fs = .ok first → FSInv terms n fs → FSInv terms n first
  | 0, _, _, h, _ => by simp [firstLoop] at h
  | fuel + 1, fs, first, h, hI => by
    unfold firstLoop at h
    obtain ⟨⟨fs1, upd1⟩, h0, h⟩ := exc_bind_ok h
    simp only at h
    have h1 := (firstPass_prog _ _ _ _ h0 hI).1
    split at h
    · exact firstLoop_inv G fuel fs1 first h h1
    · simp only [Except.ok.injEq] at h
      subst h
      exact h1

end First

/-- the fuel of `_calc_first_sets` suffices (no hypothesis on the grammar needed) -/
theorem firstSets_fuel' (terms nulls : List σ) (G : Prods σ) :
    firstSets terms nulls G ≠ .error .outOfFuel := by
  unfold firstSets
  refine firstLoop_fuel G _ _ (FSInv_emptySets terms G) ?_
  simp only [Nat.mul_add, Nat.mul_one]
  omega

theorem firstSets_fuel (terms nulls : List σ) (G : Prods σ) (hnd : (G.map (·.1)).Nodup) :
    firstSets terms nulls G ≠ .error .outOfFuel :=
  firstSets_fuel' terms nulls G

/-- the FIRST sets are duplicate-free lists of terminals -/
theorem firstSets_terms {terms nulls : List σ} {G : Prods σ} {first : SetMap σ}
    (h : firstSets terms nulls G = .ok first) :
    ∀ X f, dget X first = some f → ∀ t ∈ f, t ∈ terms ∧ f.Nodup := by
  intro X f hf t ht
  have := (firstLoop_inv G _ _ _ h (FSInv_emptySets terms G)).get hf
  exact ⟨this.2 t ht, this.1⟩

/-! ### `followSets`, phase 1: errors and the invariant -/

section Follow
variable {terms nulls : List σ} {first : SetMap σ}

theorem followTail_err {A X : σ} : ∀ (β : List σ) (st : SetMap σ × SetMap σ) (e : Err),
    followTail terms nulls first A X β st = .error e → e = .keyError
  | [], (W, D), e, h => by
    unfold followTail at h
    rcases exc_bind_err h with h1 | ⟨d, _, h⟩
    · exact dgetE_err h1
    · cases h
  | n :: rest, (W, D), e, h => by
    unfold followTail at h
    rcases exc_bind_err h with h1 | ⟨w, _, h⟩
    · exact dgetE_err h1
    · simp only at h
      split at h
      · simp only [pure_bind] at h
        split at h
        · exact followTail_err rest _ _ h
        · cases h
      · rcases exc_bind_err h with h1 | ⟨f, _, h⟩
        · exact dgetE_err h1
        · simp only [pure_bind] at h
          split at h
          · exact followTail_err rest _ _ h
          · cases h

theorem followRule_err {A : σ} : ∀ (l : List σ) (st : SetMap σ × SetMap σ) (e : Err),
    followRule terms nulls first A l st = .error e → e = .keyError
  | [], st, e, h => by simp [followRule] at h
  | X :: rest, st, e, h => by
    unfold followRule at h
    split at h
    · exact followRule_err rest st e h
    · rcases exc_bind_err h with h1 | ⟨st1, _, h⟩
      · exact followTail_err _ _ _ h1
      · exact followRule_err rest st1 e h

theorem followRules_err {A : σ} : ∀ (rs : List (Rule σ)) (st : SetMap σ × SetMap σ) (e : Err),
    followRules terms nulls first A rs st = .error e → e = .keyError
  | [], st, e, h => by simp [followRules] at h
  | r :: rest, st, e, h => by
    unfold followRules at h
    rcases exc_bind_err h with h1 | ⟨st1, _, h⟩
    · exact followRule_err _ _ _ h1
    · exact followRules_err rest st1 e h

theorem followImm_err : ∀ (G : Prods σ) (st : SetMap σ × SetMap σ) (e : Err),
    followImm terms nulls first G st = .error e → e = .keyError
  | [], st, e, h => by simp [followImm] at h
  | (A, rs) :: rest, st, e, h => by
    unfold followImm at h
    rcases exc_bind_err h with h1 | ⟨st1, _, h⟩
    · exact followRules_err _ _ _ h1
    · exact followImm_err rest st1 e h

variable (hfirst : ∀ X f, dget X first = some f → ∀ t ∈ f, t ∈ terms)
include hfirst

theorem followTail_inv {n : Nat} {A X : σ} : ∀ (β : List σ) (st st' : SetMap σ × SetMap σ),
    followTail terms nulls first A X β st = .ok st' → FSInv terms n st.1 → FSInv terms n st'.1
  | [], (W, D), st', h, hI => by
    unfold followTail at h
    obtain ⟨d, _, h⟩ := exc_bind_ok h
    simp only [Except.ok.injEq] at h
    subst h
    exact hI
  | m :: rest, (W, D), st', h, hI => by
    obtain ⟨w, W1, D1, hw, hstep, h⟩ := followTail_cons_ok h
    have hc := hI.get hw
    have h1 : FSInv terms n W1 := by
      rcases hstep with ⟨h1, hW, _⟩ | ⟨_, f, hf, hW, _⟩
      · subst hW
        refine hI.dset hw (sadd_nodup_f m hc.1) ?_
        intro t ht
        rcases mem_sadd.1 ht with ht | ht
        · exact hc.2 t ht
        · rw [ht]; exact h1
      · subst hW
        refine hI.dset hw (sunion_nodup_f f hc.1) ?_
        intro t ht
        rcases mem_sunion.1 ht with ht | ht
        · exact hc.2 t ht
        · exact hfirst m f hf t ht
    split at h
    · exact followTail_inv rest (W1, D1) st' h h1
    · simp only [Except.ok.injEq] at h
      subst h
      exact h1

theorem followRule_inv {n : Nat} {A : σ} : ∀ (l : List σ) (st st' : SetMap σ × SetMap σ),
    followRule terms nulls first A l st = .ok st' → FSInv terms n st.1 → FSInv terms n st'.1
  | [], st, st', h, hI => by
    simp only [followRule, Except.ok.injEq] at h
    subst h
    exact hI
  | X :: rest, st, st', h, hI => by
    unfold followRule at h
    split at h
    · exact followRule_inv rest st st' h hI
    · obtain ⟨st1, h1, h⟩ := exc_bind_ok h
      exact followRule_inv rest st1 st' h (followTail_inv hfirst _ _ _ h1 hI)

theorem followRules_inv {n : Nat} {A : σ} : ∀ (rs : List (Rule σ)) (st st' : SetMap σ × SetMap σ),
    followRules terms nulls first A rs st = .ok st' → FSInv terms n st.1 → FSInv terms n st'.1
  | [], st, st', h, hI => by
    simp only [followRules, Except.ok.injEq] at h
    subst h
    exact hI
  | r :: rest, st, st', h, hI => by
    unfold followRules at h
    obtain ⟨st1, h1, h⟩ := exc_bind_ok h
    exact followRules_inv rest st1 st' h (followRule_inv hfirst _ _ _ h1 hI)

theorem followImm_inv {n : Nat} : ∀ (G : Prods σ) (st st' : SetMap σ × SetMap σ),
    followImm terms nulls first G st = .ok st' → FSInv terms n st.1 → FSInv terms n st'.1
  | [], st, st', h, hI => by
    simp only [followImm, Except.ok.injEq] at h
    subst h
    exact hI
  | (A, rs) :: rest, st, st', h, hI => by
    unfold followImm at h
    obtain ⟨st1, h1, h⟩ := exc_bind_ok h
    exact followImm_inv rest st1 st' h (followRules_inv hfirst _ _ _ h1 hI)

omit hfirst

/-! ### phase 2 -/

theorem depsOne_err {X : σ} : ∀ (deps : List σ) (W : SetMap σ) (e : Err),
    depsOne X deps W = .error e → e = .keyError
  | [], W, e, h => by simp [depsOne] at h
  | dep :: rest, W, e, h => by
    unfold depsOne at h
    rcases exc_bind_err h with h1 | ⟨w, _, h⟩
    · exact dgetE_err h1
    · rcases exc_bind_err h with h1 | ⟨wd, _, h⟩
      · exact dgetE_err h1
      · exact depsOne_err rest _ e h

theorem depsPass_err : ∀ (D W : SetMap σ) (upd : Bool) (e : Err),
    depsPass D W upd = .error e → e = .keyError
  | [], W, upd, e, h => by simp [depsPass] at h
  | (X, deps) :: rest, W, upd, e, h => by
    unfold depsPass at h
    rcases exc_bind_err h with h1 | ⟨w0, _, h⟩
    · exact dgetE_err h1
    · rcases exc_bind_err h with h1 | ⟨W1, _, h⟩
      · exact depsOne_err _ _ _ h1
      · rcases exc_bind_err h with h1 | ⟨w1, _, h⟩
        · exact dgetE_err h1
        · exact depsPass_err rest _ _ e h

/-- `depsOne X` only replaces `W[X]`, by a set that is not shorter -/
theorem depsOne_prog {n : Nat} {X : σ} : ∀ (deps : List σ) (W W' : SetMap σ) (w : List σ),
    depsOne X deps W = .ok W' → dget X W = some w → FSInv terms n W →
    FSInv terms n W' ∧ ∃ w', dget X W' = some w' ∧ w.length ≤ w'.length ∧
      tot W' + w.length = tot W + w'.length
  | [], W, W', w, h, hw, hI => by
    simp only [depsOne, Except.ok.injEq] at h
    subst h
    exact ⟨hI, w, hw, Nat.le_refl _, rfl⟩
  | dep :: rest, W, W', w, h, hw, hI => by
    unfold depsOne at h
    obtain ⟨w0, hw0, h⟩ := exc_bind_ok h
    have hw0 := dgetE_ok hw0
    rw [hw] at hw0; cases hw0
    obtain ⟨wd, hwd, h⟩ := exc_bind_ok h
    have hwd := dgetE_ok hwd
    have hc := hI.get hw
    have hd := hI.get hwd
    have h1 : FSInv terms n (dset X (sunion w wd) W) := by
      refine hI.dset hw (sunion_nodup_f wd hc.1) ?_
      intro t ht
      rcases mem_sunion.1 ht with ht | ht
      · exact hc.2 t ht
      · exact hd.2 t ht
    obtain ⟨h2, w', hw', hle, htot⟩ :=
      depsOne_prog rest _ W' (sunion w wd) h (dget_dset_self _ _ _) h1
    have hl := sunion_length_le w wd
    have ht := tot_dset (v := sunion w wd) hw
    exact ⟨h2, w', hw', by omega, by omega⟩

theorem depsPass_prog {n : Nat} : ∀ (D W : SetMap σ) (upd : Bool) (res : SetMap σ × Bool),
    depsPass D W upd = .ok res → FSInv terms n W → FSInv terms n res.1 ∧ Prog W upd res.1 res.2
  | [], W, upd, res, h, hI => by
    simp only [depsPass, Except.ok.injEq] at h
    subst h
    exact ⟨hI, Prog.refl _ _⟩
  | (X, deps) :: rest, W, upd, res, h, hI => by
    unfold depsPass at h
    obtain ⟨w0, hw0, h⟩ := exc_bind_ok h
    have hw0 := dgetE_ok hw0
    obtain ⟨W1, hone, h⟩ := exc_bind_ok h
    obtain ⟨w1, hw1, h⟩ := exc_bind_ok h
    have hw1 := dgetE_ok hw1
    obtain ⟨h1, w', hw', hle, htot⟩ := depsOne_prog deps W W1 w0 hone hw0 hI
    rw [hw'] at hw1; cases hw1
    obtain ⟨h2, h3⟩ := depsPass_prog rest W1 _ res h h1
    refine ⟨h2, Prog.trans ?_ h3⟩
    refine ⟨by omega, fun hu => ?_⟩
    simp only [Bool.or_eq_true, decide_eq_true_eq] at hu
    rcases hu with hu | hu
    · exact Or.inl hu
    · exact Or.inr (by omega)

theorem depsLoop_fuel {n : Nat} (D : SetMap σ) : ∀ (fuel : Nat) (W : SetMap σ), FSInv terms n W →
    n * terms.length + 1 ≤ fuel + tot W → depsLoop D fuel W ≠ .error .outOfFuel
  | 0, W, hI, hf => by
    have := hI.bound
    omega
  | fuel + 1, W, hI, hf => by
    unfold depsLoop
    cases hp : depsPass D W false with
    | error e =>
      have := depsPass_err _ _ _ _ hp
      subst this
      intro h; cases h
    | ok res =>
      obtain ⟨W1, upd1⟩ := res
      obtain ⟨h1, h2⟩ := depsPass_prog _ _ _ _ hp hI
      simp only [bind, Except.bind]
      split
      · rename_i hu
        have hlt : tot W < tot W1 := by
          rcases h2.2 hu with h | h
          · cases h
          · exact h
        exact depsLoop_fuel D fuel W1 h1 (by omega)
      · intro h; cases h

end Follow

/-- the fuel of `_calc_follow_sets` suffices (no hypothesis on the keys of the grammar needed) -/
theorem followSets_fuel' (terms nulls : List σ) (first : SetMap σ) (G : Prods σ) (start endS : σ)
    (hfirst : ∀ X f, dget X first = some f → ∀ t ∈ f, t ∈ terms) (hend : endS ∈ terms) :
    followSets terms nulls first G start endS ≠ .error .outOfFuel := by
  unfold followSets
  simp only
  cases hs : dget start (emptySets G) with
  | none =>
    intro h
    simp only [bind, Except.bind] at h
    cases h
  | some ws =>
    simp only [pure_bind]
    have h0 := FSInv_emptySets terms G
    have hc := h0.get hs
    have h1 : FSInv terms G.length (dset start (sadd ws endS) (emptySets G)) := by
      refine h0.dset hs (sadd_nodup_f endS hc.1) ?_
      intro t ht
      rcases mem_sadd.1 ht with ht | ht
      · exact hc.2 t ht
      · rw [ht]; exact hend
    cases himm : followImm terms nulls first G
        (dset start (sadd ws endS) (emptySets G), emptySets G) with
    | error e =>
      have := followImm_err _ _ _ himm
      subst this
      intro h
      simp only [bind, Except.bind] at h
      cases h
    | ok st =>
      obtain ⟨W2, D⟩ := st
      have h2 : FSInv terms G.length W2 := followImm_inv hfirst _ _ _ himm h1
      simp only [bind, Except.bind]
      refine depsLoop_fuel D _ W2 h2 ?_
      simp only [Nat.mul_add, Nat.mul_one]
      omega

theorem followSets_fuel (terms nulls : List σ) (first : SetMap σ) (G : Prods σ) (start endS : σ)
    (hnd : (G.map (·.1)).Nodup) (hfirst : ∀ X f, dget X first = some f → ∀ t ∈ f, t ∈ terms)
    (hend : endS ∈ terms) :
    followSets terms nulls first G start endS ≠ .error .outOfFuel :=
  followSets_fuel' terms nulls first G start endS hfirst hend

end LL
