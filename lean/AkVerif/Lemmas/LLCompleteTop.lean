import AkVerif.Lemmas.LLLang
import AkVerif.Lemmas.LLNoStuck
import AkVerif.Lemmas.LLFactTop
/-!
C02, composed for the constructed parser: when the table is conflict-free the parser accepts
exactly the sentences of the user's grammar, and every non-sentence ends in `ParsingError`.
-/
set_option linter.unusedSectionVars false
namespace LL
open Ak

theorem pvalid_of_gtree {terms : List Sym} {G : Prods Sym} (T : Table Sym) (S : List Sym) :
    ∀ (t : Tree Sym), GTree terms G t → PValid (cfgOf terms T S) { prods := gramRules G } t
  | .leaf n v, h => by
    rw [PValid_leaf]
    simpa [cfgOf] using (gtree_leaf ..).1 h
  | .node n cs, h => by
    obtain ⟨h1, h2, h3⟩ := (gtree_node ..).1 h
    rw [PValid_node]
    refine ⟨by simpa [cfgOf] using h1, h2, fun c hc => pvalid_of_gtree T S c (h3 c hc)⟩
termination_by t => sizeOf t
decreasing_by
  simp_wf
  have := List.sizeOf_lt_of_mem hc
  omega

section Top
variable {P : Parser} {inp : CtorIn}

/-- C02 (completeness), composed: a conflict-free table accepts every sentence of the factorised
dictionary — no roll-back is ever needed -/
theorem accepts_of_gtree (hB : Built inp P) (hnd : (P.prods.map (·.1)).Nodup)
    (hamb : isAmbiguous P.table = false) (d : Tree Sym) (hd : GTree P.terminals P.prods d)
    (hname : d.name = P.start) :
    ∃ k x, ∀ fuel, k ≤ fuel →
      run P.cfg (d.yield ++ [⟨endSym, []⟩]) fuel (initStack startSym P.start endSym) = .ok x := by
  have h1 := verifyPart1_ok hB.hV
  have hendT : endSym ∈ P.terminals := by rw [hB.hterms]; exact mem_sadd.2 (Or.inr rfl)
  obtain ⟨hC, hW⟩ := model_closed P.suffix hnd (fun k hk => h1.disjoint k hk) hB.hN hB.hFi hB.hFo hB.hT hamb
  exact det_complete (G := P.cfg) hC startSym P.start endSym ⟨endSym, []⟩ rfl
    (by simp [Parser.cfg, cfgOf, hendT]) hW d (pvalid_of_gtree P.table P.suffix d hd) hname
    (by have := h1.disjoint _ h1.startKey; simp [Parser.cfg, cfgOf, this])

/-- C02 `exact`: with a conflict-free table, `parse` accepts a token list iff it is a sentence of
the *user's* grammar -/
theorem exact_of_built (hB : Built inp P) (hD : FactRelD P.userProds P.prods P.suffix)
    (hnd : (P.prods.map (·.1)).Nodup) (hamb : isAmbiguous P.table = false)
    (hsu : P.start ∈ pkeys P.userProds) (raw : List (List Char × List Char))
    (hEnd : ∀ tok ∈ (P.tokens raw).dropLast, tok.name ≠ endSym) :
    (∃ fuel t, P.parse raw fuel = .ok t) ↔
      InLang P.terminals P.userProds P.start (P.tokens raw).dropLast := by
  have h1 := verifyPart1_ok hB.hV
  constructor
  · rintro ⟨fuel, t, h⟩
    obtain ⟨hn, hd, _, hy⟩ := parse_sound_of_rel hB.core (factRel_of_D h1 hD) hsu raw hEnd fuel t h
    exact ⟨t, hd, hn, hy⟩
  · intro hL
    have hs : P.start ∉ P.suffix := fun h => hD.sufNotUser _ h hsu
    obtain ⟨d, hd, hn, hy⟩ := (lang_eq hD (fun k hk => h1.disjoint k hk) hs _).1 hL
    obtain ⟨k, x, hk⟩ := accepts_of_gtree hB hnd hamb d hd hn
    refine ⟨k, x, ?_⟩
    have htoks : P.tokens raw = d.yield ++ [⟨endSym, []⟩] := by
      rw [hy]; simp [Parser.tokens]
    unfold Parser.parse
    rw [htoks]
    exact hk k (Nat.le_refl _)

/-- C02 `reject_raises`: with C03's termination, a non-sentence ends in `ParsingError` -/
theorem reject_of_built (hB : Built inp P) (hD : FactRelD P.userProds P.prods P.suffix)
    (hnd : (P.prods.map (·.1)).Nodup) (hsu : P.start ∈ pkeys P.userProds)
    (raw : List (List Char × List Char)) (hEnd : ∀ tok ∈ (P.tokens raw).dropLast, tok.name ≠ endSym)
    (hnot : ¬ InLang P.terminals P.userProds P.start (P.tokens raw).dropLast) :
    ∃ k, ∀ fuel, k ≤ fuel → P.parse raw fuel = .error .parsingError := by
  have h1 := verifyPart1_ok hB.hV
  obtain ⟨k, hk⟩ := parse_terminates_of_built hB.core hnd raw
  refine ⟨k, fun fuel hf => ?_⟩
  have hsuf : endSym ∉ P.suffix := fun h => h1.endNoKey (hD.sufKeys _ h)
  cases hres : P.parse raw fuel with
  | ok t =>
    exfalso
    obtain ⟨hn, hd, _, hy⟩ := parse_sound_of_rel hB.core (factRel_of_D h1 hD) hsu raw hEnd fuel t hres
    exact hnot ⟨t, hd, hn, hy⟩
  | error e =>
    rcases run_error_cases fuel _ e hres with he | he | he
    · subst he; exact absurd hres (hk fuel hf)
    · subst he; rfl
    · subst he; exact absurd hres (parse_no_stuck_of_built hB.core hnd hsuf raw fuel)

end Top
end LL
