import AkVerif.Lemmas.GhistPar
import AkVerif.Lemmas.GhistElig
/-!
Eligible commits that did not become builds, with the parent builds found for them described in git ancestry:
the (at most one) parent build is a build of the branch properly below the commit, and every build of the branch
properly below the commit lies below it.
-/
namespace Ghist
open Ak

section
variable {π β : Type} {h : Hist π}

/-- why the eligible commit `e` is not a build, relative to the builds `bs` of the current branch -/
def SkipRec (h : Hist π) (pl : Plug π β) (L : List Nat → Prop) (rcs : List RC) (isB : RB β → Prop) (e : Nat) : Prop :=
  h.isMatch e = false ∧
  ((L [] ∧ ∀ bq, isB bq → ∀ rcq, rcs[bq.iid]? = some rcq → rcq.commit ≠ e → ¬ Anc h rcq.commit e) ∨
   ∃ (cm : Commit π) (pbs : List (RB β)) (bumps : β) (rel : List Nat), L rel ∧ h.commits[e]? = some cm ∧
    pbs.length ≤ 1 ∧
    (∀ pb ∈ pbs, isB pb ∧ ∃ rcp, rcs[pb.iid]? = some rcp ∧ rcp.commit ≠ e ∧ Anc h rcp.commit e) ∧
    (∀ bq, isB bq → ∀ rcq, rcs[bq.iid]? = some rcq → rcq.commit ≠ e → Anc h rcq.commit e →
      ∃ pb ∈ pbs, ∃ rcp, rcs[pb.iid]? = some rcp ∧ Anc h rcq.commit rcp.commit) ∧
    pl.mkBumps rel cm.pins (pbs.map (·.bumps)) = .ok bumps ∧ pl.nonTrivial bumps = false)

def SkipInv (h : Hist π) (pl : Plug π β) (L : List Nat → Prop) (rp0 : Repo β) (head : Nat) (st : St β) : Prop :=
  ∀ e cl, classify st.rp e = some cl → classify rp0 e = none → Elig h head e →
    (∃ b ∈ st.rp.builds, CurB st.rp b.iid ∧ ∃ rc, st.rp.rcs[b.iid]? = some rc ∧ rc.commit = e) ∨
    SkipRec h pl L st.rp.rcs (fun b => b ∈ st.rp.builds ∧ CurB st.rp b.iid) e

theorem finish_skipInv (hT : h.Topo) {pl : Plug π β} {L : List Nat → Prop} {head : Nat} {st st' : St β} {c : Nat} {cm : Commit π}
    {fr : List Nat} {rp0 : Repo β} (w : WF h st) (sm : Sem h st.rp) (v : VInv st) (ok : SkipInv h pl L rp0 head st)
    (hcl : classify st.rp c = none) (hcm : h.commits[c]? = some cm) (hQ : FrontQ h st cm.parents.reverse fr)
    {rel : List Nat} (hL : L rel) (hf : finish pl head rel st c cm fr = .ok st') : SkipInv h pl L rp0 head st' := by
  obtain ⟨rp, br⟩ := st
  have hpre := finish_prefix hf
  have hmatch := Hist.isMatch_of_get hcm
  have htag := Hist.tagged_of_get (h := h) hcm
  -- builds of the old state, seen in the new one
  have hold : (∀ b ∈ rp.builds, b ∈ st'.rp.builds) → (∀ i, CurB rp i → CurB st'.rp i) →
      (∀ b ∈ st'.rp.builds, CurB st'.rp b.iid → b ∈ rp.builds ∧ CurB rp b.iid ∨
        ∃ rc, st'.rp.rcs[b.iid]? = some rc ∧ rc.commit = c) →
      (Elig h head c → (∃ b ∈ st'.rp.builds, CurB st'.rp b.iid ∧ ∃ rc, st'.rp.rcs[b.iid]? = some rc ∧ rc.commit = c) ∨
        SkipRec h pl L st'.rp.rcs (fun b => b ∈ st'.rp.builds ∧ CurB st'.rp b.iid) c) →
      SkipInv h pl L rp0 head st' := by
    intro hsub hcur hnewb hnew e cl he h0 hel
    by_cases hec : e = c
    · subst hec; exact hnew hel
    · rw [finish_classify_ne hf e hec] at he
      rcases ok e cl he h0 hel with ⟨b, hb, hcb, rc, hrc, hce⟩ | ⟨hm, hs⟩
      · exact Or.inl ⟨b, hsub b hb, hcur _ hcb, rc, getElem?_prefix hpre hrc, hce⟩
      · right
        refine ⟨hm, ?_⟩
        rcases hs with ⟨hs, hnb⟩ | ⟨cm', pbs, bumps, rel', hl', h1, h2, h3, h4, h5, h6⟩
        · left
          refine ⟨hs, ?_⟩
          intro bq ⟨hbq, hcq⟩ rcq hrcq hne hanc
          rcases hnewb bq hbq hcq with ⟨hbq', hcq'⟩ | ⟨rc, hrc, hrcc⟩
          · have hlt := w.bldLt bq hbq'
            rw [getElem?_prefix_lt hpre hlt] at hrcq
            exact hnb bq ⟨hbq', hcq'⟩ rcq hrcq hne hanc
          · rw [hrc] at hrcq; cases hrcq
            rw [hrcc] at hanc
            obtain ⟨cl', hcl'⟩ := sm.anc_classified he hanc
            rw [hcl] at hcl'; cases hcl'
        · right
          refine ⟨cm', pbs, bumps, rel', hl', h1, h2, ?_, ?_, h5, h6⟩
          · intro pb hpb
            obtain ⟨⟨h7, h8⟩, rcp, h9, h10⟩ := h3 pb hpb
            exact ⟨⟨hsub pb h7, hcur _ h8⟩, rcp, getElem?_prefix hpre h9, h10⟩
          · intro bq ⟨hbq, hcq⟩ rcq hrcq hne hanc
            rcases hnewb bq hbq hcq with ⟨hbq', hcq'⟩ | ⟨rc, hrc, hrcc⟩
            · have hlt := w.bldLt bq hbq'
              rw [getElem?_prefix_lt hpre hlt] at hrcq
              obtain ⟨pb, hpb, rcp, h11, h12⟩ := h4 bq ⟨hbq', hcq'⟩ rcq hrcq hne hanc
              exact ⟨pb, hpb, rcp, getElem?_prefix hpre h11, h12⟩
            · -- the new build sits at `c`, which is not an ancestor of the already classified `e`
              exfalso
              rw [hrc] at hrcq; cases hrcq
              rw [hrcc] at hanc
              obtain ⟨cl', hcl'⟩ := sm.anc_classified he hanc
              rw [hcl] at hcl'; cases hcl'
  have hnoelig : cm.tags = [] → c ≠ head → ¬ Elig h head c := by
    intro ht hh hel
    rcases hel with h1 | h1
    · rw [htag, ht] at h1; cases h1
    · exact hh h1
  cases finish_cases hf with
  | irrelevant hm hrel hfr0 =>
    refine hold (fun b hb => hb) (fun i hi => hi) (fun b hb hc => Or.inl ⟨hb, hc⟩)
      (fun _ => Or.inr ⟨by rw [hmatch]; exact hm, Or.inl ⟨by rw [← hrel]; exact hL, ?_⟩⟩)
    intro bq ⟨hbq, _⟩ rcq hrcq hne hanc
    have hrcq' : rp.rcs[bq.iid]? = some rcq := hrcq
    rcases hanc.cases_parent with h1 | ⟨cm', p, hcm', hp, hyp⟩
    · exact absurd h1 hne
    · rw [hcm] at hcm'; cases hcm'
      obtain ⟨r, hr, _⟩ := (hQ.reach bq.iid).mpr ⟨p, List.mem_reverse.mpr hp, rcq.commit, hyp, w.rcSel bq.iid rcq hrcq'⟩
      rw [hfr0] at hr; cases hr
  | plain htags hnh _ _ =>
    have hb : (rp.addPlain c fr).builds = rp.builds := by simp only [Repo.addPlain]; split <;> rfl
    have hcur : ∀ i, isCurBuild (rp.addPlain c fr) i = isCurBuild rp i := by
      intro i; simp only [Repo.addPlain]; split <;> rfl
    exact hold (fun b hb' => by rw [hb]; exact hb') (fun i hi => by simp only [CurB, hcur]; exact hi)
      (fun b hb' hc => Or.inl ⟨by rw [hb] at hb'; exact hb', by simp only [CurB, hcur] at hc; exact hc⟩)
      (fun hel => absurd hel (hnoelig htags hnh))
  | plainMatch htags hnh _ =>
    exact hold (fun b hb' => hb') (fun i hi => hi) (fun b hb' hc => Or.inl ⟨hb', hc⟩)
      (fun hel => absurd hel (hnoelig htags hnh))
  | skip bpar new pb pbs bumps _ _ hfn hm _ hpb hpbs hmk hnt =>
    have hb : (rp.addPlain c fr).builds = rp.builds := by simp only [Repo.addPlain]; split <;> rfl
    have hr : (rp.addPlain c fr).rcs = rp.rcs := by simp only [Repo.addPlain]; split <;> rfl
    have hcur : ∀ i, isCurBuild (rp.addPlain c fr) i = isCurBuild rp i := by
      intro i; simp only [Repo.addPlain]; split <;> rfl
    refine hold (fun b hb' => by simp only [St.skipBuild]; rw [hb]; exact hb')
      (fun i hi => by simp only [St.skipBuild, CurB, hcur]; exact hi)
      (fun b hb' hc => Or.inl ⟨by simp only [St.skipBuild] at hb'; rw [hb] at hb'; exact hb',
        by simp only [St.skipBuild, CurB, hcur] at hc; exact hc⟩) ?_
    intro _
    right
    refine ⟨by rw [hmatch]; exact hm, Or.inr ⟨cm, pbs, bumps, rel, hL, hcm, ?_, ?_, ?_, hmk, hnt⟩⟩
    · rw [buildsOf_length hpbs]; exact hpb
    all_goals
      have hlt : ∀ x, CurB rp x → x < rp.rcs.length := by
        intro x hx
        simp only [CurB, isCurBuild, Bool.and_eq_true, List.any_eq_true] at hx
        obtain ⟨⟨b, hb', he⟩, _⟩ := hx
        have : b.iid = x := by simpa using he
        rw [← this]; exact w.bldLt b hb'
      have hanck : ∀ x, CurB rp x → x ∈ keys br.anc := fun x hx => w.ancKeys x ((w.curIff x).mpr hx)
      obtain ⟨_, _, hpbm⟩ := findNew_vals w.rcPar hlt v.anc hanck v.vals hfn
      obtain ⟨hids, hmem⟩ := buildsOf_spec hpbs
      simp only [St.skipBuild]
      rw [hr, hb]
    · -- the parent build found lies properly below `c`
      intro pbx hpbx
      have hpbb := hmem pbx hpbx
      have hin : pbx.iid ∈ pb := by rw [← hids]; exact List.mem_map.mpr ⟨pbx, hpbx, rfl⟩
      obtain ⟨hcx, r, hrfr, hrr⟩ := ((hpbm pbx.iid).mp hin).1
      refine ⟨⟨hpbb, by simp only [CurB, hcur]; exact hcx⟩, ?_⟩
      obtain ⟨p, hp, y, hy, hsy⟩ := (hQ.reach pbx.iid).mp ⟨r, hrfr, hrr⟩
      obtain ⟨rcp, h1, h2⟩ := w.selOk y pbx.iid hsy
      have hpar : p ∈ cm.parents := List.mem_reverse.mp hp
      refine ⟨rcp, h1, ?_, ?_⟩
      · rw [h2]; intro hyc
        have := hy.le hT; have := hT c cm hcm p hpar; omega
      · rw [h2]; exact .step hcm hpar hy
    · -- every build of the branch properly below `c` lies below it
      intro bq ⟨hbq, hcq⟩ rcq hrcq hne hanc
      have hcq' : CurB rp bq.iid := by simp only [CurB, hcur] at hcq; exact hcq
      -- `bq`'s commit is an ancestor of a parent of `c`
      rcases hanc.cases_parent with h1 | ⟨cm', p, hcm', hp, hyp⟩
      · exact absurd h1 hne
      · rw [hcm] at hcm'; cases hcm'
        have hsel : selOf rp rcq.commit bq.iid := w.rcSel bq.iid rcq hrcq
        obtain ⟨r, hrfr, hrr⟩ := (hQ.reach bq.iid).mpr ⟨p, List.mem_reverse.mpr hp, rcq.commit, hyp, hsel⟩
        obtain ⟨m, hm, hqm⟩ := exists_max w.rcPar (URr rp fr) rp.rcs.length (fun y hy => hlt y hy.1)
          (rp.rcs.length - bq.iid) bq.iid (Nat.le_refl _) ⟨hcq', r, hrfr, hrr⟩
        have hmpb : m ∈ pb := (hpbm m).mpr hm
        rw [← hids] at hmpb
        obtain ⟨pbx, hpbx, rfl⟩ := List.mem_map.mp hmpb
        have hlx := w.bldLt pbx (hmem pbx hpbx)
        refine ⟨pbx, hpbx, rp.rcs[pbx.iid], List.getElem?_eq_getElem hlx, ?_⟩
        exact (rreach_iff_anc w sm hrcq (List.getElem?_eq_getElem hlx)).mp hqm
  | build bpar new pb pbs bumps bn na =>
    have hnp : rp.rcs.length ∉ rp.prevBuilds := fun hm' => by have := w.prevLt _ hm'; simp only at this; omega
    let rc : RC := { commit := c, parents := fr, explicit := cm.isMatch, bns := buildNums cm (c == head), time := cm.time }
    let b : RB β := { iid := rp.rcs.length, rcommit := some rp.rcs.length, parents := pb,
                      rcommits := new ++ [rp.rcs.length], bumps := bumps, bn := bn }
    have hcur1 : ∀ i, isCurBuild (St.addBuild ⟨rp, br⟩ rc bn bpar new pb bumps na).rp i =
        (isCurBuild rp i || i == rp.rcs.length) := fun i => isCurBuild_push (rp.addRC rc) b hnp i
    refine hold (fun b' hb' => by simp only [St.addBuild, Repo.addRC]; exact List.mem_append_left _ hb')
      (fun i hi => by
        show isCurBuild _ i = true
        have hi' : isCurBuild rp i = true := hi
        rw [hcur1, hi']; rfl) ?_ ?_
    · intro b' hb' hc
      simp only [St.addBuild, Repo.addRC] at hb'
      rcases List.mem_append.mp hb' with h1 | h1
      · left
        refine ⟨h1, ?_⟩
        have hc' : isCurBuild (St.addBuild ⟨rp, br⟩ rc bn bpar new pb bumps na).rp b'.iid = true := hc
        rw [hcur1] at hc'
        have : b'.iid ≠ rp.rcs.length := by have := w.bldLt b' h1; simp only at this; omega
        have : (b'.iid == rp.rcs.length) = false := by simpa using this
        show isCurBuild rp b'.iid = true
        simpa [this] using hc'
      · right
        simp at h1; subst h1
        exact ⟨rc, by simp [St.addBuild, Repo.addRC, rc], rfl⟩
    · intro _
      refine Or.inl ⟨b, by simp [St.addBuild, Repo.addRC, b], ?_, rc, ?_, rfl⟩
      · show isCurBuild _ b.iid = true
        rw [hcur1]; simp [b]
      · simp [St.addBuild, Repo.addRC, b, rc]

theorem skip_hyps (hT : h.Topo) (pl : Plug π β) {L : List Nat → Prop} (hR : RelInv h pl L) (head : Nat)
    (rp0 : Repo β) :
    VisitHypsL h pl head (fun s => ((WF h s ∧ Sem h s.rp) ∧ VInv s) ∧ SkipInv h pl L rp0 head s) (FrontQ h)
      (fun s s' => Grow s.rp s'.rp) (fun _ => True) L where
  Rrefl := fun s => Grow.refl s.rp
  Rtrans := fun h1 h2 => h1.trans h2
  Qmono := fun hP hP' hR hQ => (sem_hyps h pl head).Qmono hP.1.1 hP'.1.1 hR hQ
  Qnil := fun s hP => (sem_hyps h pl head).Qnil s hP.1.1
  Qcls := fun hP hQ _ hc => (sem_hyps h pl head).Qcls hP.1.1 hQ trivial hc
  Vstep := fun _ _ _ => trivial
  Lstep := fun hl _ hcm => hR.step _ _ _ hl hcm
  Hfin := by
    intro rel s c cm fr s' hl hP _ hcl hcm hQ hf
    obtain ⟨⟨w', sm'⟩, g⟩ := (sem_hyps h pl head).Hfin hP.1.1 trivial hcl hcm hQ hf
    exact ⟨⟨⟨⟨w', sm'⟩, finish_vinv hP.1.1.1 w' hP.1.2 hQ.lt hf⟩,
      finish_skipInv hT hP.1.1.1 hP.1.1.2 hP.1.2 hP.2 hcl hcm hQ hl hf⟩, g⟩

theorem SkipRec.congr {pl : Plug π β} {L : List Nat → Prop} {rcs : List RC} {P Q : RB β → Prop} (hPQ : ∀ b, P b ↔ Q b) {e : Nat}
    (hs : SkipRec h pl L rcs P e) : SkipRec h pl L rcs Q e := by
  obtain ⟨h1, h2⟩ := hs
  refine ⟨h1, ?_⟩
  rcases h2 with ⟨h2, hnb⟩ | ⟨cm, pbs, bumps, rel, hl, h3, h4, h5, h6, h7, h8⟩
  · exact Or.inl ⟨h2, fun bq hbq => hnb bq ((hPQ bq).mpr hbq)⟩
  · exact Or.inr ⟨cm, pbs, bumps, rel, hl, h3, h4, fun pb hpb => ⟨(hPQ pb).mp (h5 pb hpb).1, (h5 pb hpb).2⟩,
      fun bq hbq => h6 bq ((hPQ bq).mpr hbq), h7, h8⟩

theorem SkipRec.ext {pl : Plug π β} {L : List Nat → Prop} {rcs : List RC} {P : RB β → Prop} (hlt : ∀ b, P b → b.iid < rcs.length)
    (ext : List RC) {e : Nat} (hs : SkipRec h pl L rcs P e) : SkipRec h pl L (rcs ++ ext) P e := by
  obtain ⟨h1, h2⟩ := hs
  refine ⟨h1, ?_⟩
  rcases h2 with ⟨h2, hnb⟩ | ⟨cm, pbs, bumps, rel, hl, h3, h4, h5, h6, h7, h8⟩
  · left
    refine ⟨h2, ?_⟩
    intro bq hbq rcq hrcq hne hanc
    rw [List.getElem?_append_left (hlt bq hbq)] at hrcq
    exact hnb bq hbq rcq hrcq hne hanc
  · refine Or.inr ⟨cm, pbs, bumps, rel, hl, h3, h4, ?_, ?_, h7, h8⟩
    · intro pb hpb
      obtain ⟨h9, rcp, h10, h11⟩ := h5 pb hpb
      exact ⟨h9, rcp, by rw [List.getElem?_append_left (hlt pb h9)]; exact h10, h11⟩
    · intro bq hbq rcq hrcq hne hanc
      rw [List.getElem?_append_left (hlt bq hbq)] at hrcq
      obtain ⟨pb, hpb, rcp, h12, h13⟩ := h6 bq hbq rcq hrcq hne hanc
      exact ⟨pb, hpb, rcp, by rw [List.getElem?_append_left (hlt pb (h5 pb hpb).1)]; exact h12, h13⟩

/-- per branch: an eligible commit of the branch is one of its builds, or it was skipped with trivial bumps relative
to the nearest build of the branch below it -/
def BrSkip (h : Hist π) (pl : Plug π β) (L : List Nat → Prop) (pre : List Branch) (b : Branch) (rcs : List RC) (rb : RBranch β) : Prop :=
  ∀ e, SpecBuild h pre b e → (∃ bd ∈ rb.rbuilds, BuildAt rcs bd e) ∨
    SkipRec h pl L rcs (fun bx => bx ∈ rb.rbuilds ∧ bx.rcommit = some bx.iid) e

theorem readBranch_skip (hT : h.Topo) {pl : Plug π β} {L : List Nat → Prop} (hR : RelInv h pl L) {pre : List Branch} {rp0 : Repo β} {b : Branch}
    {rp' : Repo β} {rb : RBranch β} (inv : RepoInv h pre rp0)
    (hr : readBranch h pl pre.isEmpty rp0 b = .ok (rp', rb)) : BrSkip h pl L pre b rp'.rcs rb := by
  obtain ⟨inv', _, _⟩ := readBranch_sem hT inv hr
  obtain ⟨hc0, st, rheads, hhc0, hv, he⟩ := readBranch_inv hr
  have H := skip_hyps (h := h) hT pl hR b.head rp0
  have ok0 : SkipInv h pl L rp0 b.head ⟨rp0, Br.empty⟩ := by
    intro e cl h1 h2; simp only at h1; rw [h2] at h1; cases h1
  have hP0 : ((WF h (⟨rp0, Br.empty⟩ : St β) ∧ Sem h rp0) ∧ VInv (⟨rp0, Br.empty⟩ : St β)) ∧
      SkipInv h pl L rp0 b.head ⟨rp0, Br.empty⟩ := ⟨⟨⟨inv.wf, inv.sem⟩, vinv_init inv.wf⟩, ok0⟩
  obtain ⟨⟨⟨⟨w, _⟩, _⟩, ok⟩, _, _⟩ := visit_indL hT H h.commits.length ⟨rp0, Br.empty⟩ [] [] b.head st rheads
    (hR.init _ _ hhc0) hP0 (H.Qnil _ hP0) trivial hv
  have hn := visit_buildsNormal hT inv.normal hv
  have hs := endBranch_spec he
  obtain ⟨seen, curBuilds, _, hcb, hrbuilds, _⟩ := hs.seen
  obtain ⟨hids, hmem⟩ := buildsOf_spec hcb
  have hcc : ∀ c, classify rp' c = classify st.rp c := classify_congr hs.done hs.visited hs.selected
  -- builds of the current branch in the state = builds of the branch with a build commit
  have hiff : ∀ bx : RB β, (bx ∈ st.rp.builds ∧ CurB st.rp bx.iid) ↔ (bx ∈ rb.rbuilds ∧ bx.rcommit = some bx.iid) := by
    intro bx
    constructor
    · rintro ⟨h1, h2⟩
      have hbc : bx ∈ curBuilds := buildsOf_mem w.bldInc hcb bx h1 ((w.curIff bx.iid).mpr h2)
      refine ⟨?_, hn bx h1⟩
      rcases hrbuilds with h3 | ⟨fake, h3, _, _⟩
      · rw [h3]; exact hbc
      · rw [h3]; exact List.mem_append_left _ hbc
    · rintro ⟨h1, h2⟩
      have hbc : bx ∈ curBuilds := by
        rcases hrbuilds with h3 | ⟨fake, h3, h4, _⟩
        · rw [h3] at h1; exact h1
        · rw [h3] at h1
          rcases List.mem_append.mp h1 with h5 | h5
          · exact h5
          · simp at h5; subst h5; rw [h4] at h2; cases h2
      exact ⟨hmem bx hbc, (w.curIff bx.iid).mp (by rw [← hids]; exact List.mem_map.mpr ⟨bx, hbc, rfl⟩)⟩
  rw [hs.rcs]
  intro e ⟨hel, hanc, hno⟩
  have h0 : classify rp0 e = none := by
    cases hc0 : classify rp0 e with
    | none => rfl
    | some cl0 =>
      obtain ⟨b', hb', hab⟩ := (inv.cover e).mp ⟨cl0, hc0⟩
      exact absurd hab (hno b' hb')
  obtain ⟨cl, hcl⟩ := (inv'.cover e).mpr ⟨b, by simp, hanc⟩
  rw [hcc] at hcl
  rcases ok e cl hcl h0 hel with ⟨bd, hbd, hcur, rc, hrc, hce⟩ | hsk
  · left
    obtain ⟨h1, h2⟩ := (hiff bd).mp ⟨hbd, hcur⟩
    exact ⟨bd, h1, h2, rc, hrc, hce⟩
  · right
    exact hsk.congr hiff

theorem rgraph_skip (hT : h.Topo) {pl : Plug π β} {L : List Nat → Prop} (hR : RelInv h pl L) {g : Graph β} {mt : Option Nat} (hg : rgraphNW h pl mt = .ok g) :
    ∀ j b rb, (branchesOf h)[j]? = some b → g.all[j]? = some rb →
      BrSkip h pl L ((branchesOf h).take j) b g.rcs rb := by
  unfold rgraphNW at hg
  split at hg
  · cases hg
  · rename_i rp rbs hr
    cases hg
    have hstep : ∀ (pre : List Branch) (rp : Repo β) (b : Branch) (rp' : Repo β) (rb : RBranch β),
        RepoInv h pre rp → readBranch h pl pre.isEmpty rp b = .ok (rp', rb) →
        RepoInv h (pre ++ [b]) rp' ∧
          (BrSkip h pl L pre b rp'.rcs rb ∧ ∀ bd ∈ rb.rbuilds, bd.rcommit.isSome = true → bd.iid < rp'.rcs.length) ∧
          ∃ ext, rp'.rcs = rp.rcs ++ ext := by
      intro pre rp b rp' rb inv hrb
      obtain ⟨h1, h2, h3⟩ := readBranch_sem hT inv hrb
      exact ⟨h1, ⟨readBranch_skip hT hR inv hrb, fun bd hbd hs => (h2.bound bd hbd).2 hs⟩, h3⟩
    obtain ⟨_, _, hlen, hF⟩ := readBranches_ind2 (RepoInv h)
      (fun pre b rp' rb => BrSkip h pl L pre b rp'.rcs rb ∧
        ∀ bd ∈ rb.rbuilds, bd.rcommit.isSome = true → bd.iid < rp'.rcs.length)
      (fun rp rp' => ∃ ext, rp'.rcs = rp.rcs ++ ext) (fun rp => ⟨[], by simp⟩)
      (by
        rintro a b c ⟨e1, h1⟩ ⟨e2, h2⟩
        exact ⟨e1 ++ e2, by rw [h2, h1]; simp⟩)
      hstep (branchesOf h) [] Repo.empty rp rbs repoInv_empty hr
    intro j b rb hb hrb
    obtain ⟨rpj, ⟨h1, h2⟩, ⟨ext, hext⟩⟩ := hF j b rb hb hrb
    simp only [List.nil_append] at h1
    rw [hext]
    intro e he
    rcases h1 e he with ⟨bd, hbd, hba⟩ | hsk
    · exact Or.inl ⟨bd, hbd, (BuildAt.ext (h2 bd hbd) e).mpr hba⟩
    · exact Or.inr (hsk.ext (fun bx hbx => h2 bx hbx.1 (by rw [hbx.2]; rfl)) ext)

end

end Ghist
