import AkVerif.Lemmas.GhistPar
import AkVerif.Lemmas.GhistElig
/-!
Eligible commits that did not become builds, with the parent builds found for them described in git ancestry:
the (at most one) parent build is a build of the branch properly below the commit, and every build of the branch
properly below the commit lies below it.
-/
namespace Ghist
open Ak

section
variable {π β : Type} {h : Hist π}

/-- why the eligible commit `e` is not a build, relative to the builds `bs` of the current branch -/
def SkipRec (h : Hist π) (pl : Plug π β) (rcs : List RC) (isB : RB β → Prop) (e : Nat) : Prop :=
  h.isMatch e = false ∧
  (pl.rel = false ∨ ∃ (cm : Commit π) (pbs : List (RB β)) (bumps : β), h.commits[e]? = some cm ∧ pbs.length ≤ 1 ∧
    (∀ pb ∈ pbs, isB pb ∧ ∃ rcp, rcs[pb.iid]? = some rcp ∧ rcp.commit ≠ e ∧ Anc h rcp.commit e) ∧
    (∀ bq, isB bq → ∀ rcq, rcs[bq.iid]? = some rcq → rcq.commit ≠ e → Anc h rcq.commit e →
      ∃ pb ∈ pbs, ∃ rcp, rcs[pb.iid]? = some rcp ∧ Anc h rcq.commit rcp.commit) ∧
    pl.mkBumps cm.pins (pbs.map (·.bumps)) = .ok bumps ∧ pl.nonTrivial bumps = false)

def SkipInv (h : Hist π) (pl : Plug π β) (rp0 : Repo β) (head : Nat) (st : St β) : Prop :=
  ∀ e cl, classify st.rp e = some cl → classify rp0 e = none → Elig h head e →
    (∃ b ∈ st.rp.builds, CurB st.rp b.iid ∧ ∃ rc, st.rp.rcs[b.iid]? = some rc ∧ rc.commit = e) ∨
    SkipRec h pl st.rp.rcs (fun b => b ∈ st.rp.builds ∧ CurB st.rp b.iid) e

theorem finish_skipInv (hT : h.Topo) {pl : Plug π β} {head : Nat} {st st' : St β} {c : Nat} {cm : Commit π}
    {fr : List Nat} {rp0 : Repo β} (w : WF h st) (sm : Sem h st.rp) (v : VInv st) (ok : SkipInv h pl rp0 head st)
    (hcl : classify st.rp c = none) (hcm : h.commits[c]? = some cm) (hQ : FrontQ h st cm.parents.reverse fr)
    (hf : finish pl head st c cm fr = .ok st') : SkipInv h pl rp0 head st' := by
  obtain ⟨rp, br⟩ := st
  have hpre := finish_prefix hf
  have hmatch := Hist.isMatch_of_get hcm
  have htag := Hist.tagged_of_get (h := h) hcm
  -- builds of the old state, seen in the new one
  have hold : (∀ b ∈ rp.builds, b ∈ st'.rp.builds) → (∀ i, CurB rp i → CurB st'.rp i) →
      (∀ b ∈ st'.rp.builds, CurB st'.rp b.iid → b ∈ rp.builds ∧ CurB rp b.iid ∨
        ∃ rc, st'.rp.rcs[b.iid]? = some rc ∧ rc.commit = c) →
      (Elig h head c → (∃ b ∈ st'.rp.builds, CurB st'.rp b.iid ∧ ∃ rc, st'.rp.rcs[b.iid]? = some rc ∧ rc.commit = c) ∨
        SkipRec h pl st'.rp.rcs (fun b => b ∈ st'.rp.builds ∧ CurB st'.rp b.iid) c) →
      SkipInv h pl rp0 head st' := by
    intro hsub hcur hnewb hnew e cl he h0 hel
    by_cases hec : e = c
    · subst hec; exact hnew hel
    · rw [finish_classify_ne hf e hec] at he
      rcases ok e cl he h0 hel with ⟨b, hb, hcb, rc, hrc, hce⟩ | ⟨hm, hs⟩
      · exact Or.inl ⟨b, hsub b hb, hcur _ hcb, rc, getElem?_prefix hpre hrc, hce⟩
      · right
        refine ⟨hm, ?_⟩
        rcases hs with hs | ⟨cm', pbs, bumps, h1, h2, h3, h4, h5, h6⟩
        · exact Or.inl hs
        · right
          refine ⟨cm', pbs, bumps, h1, h2, ?_, ?_, h5, h6⟩
          · intro pb hpb
            obtain ⟨⟨h7, h8⟩, rcp, h9, h10⟩ := h3 pb hpb
            exact ⟨⟨hsub pb h7, hcur _ h8⟩, rcp, getElem?_prefix hpre h9, h10⟩
          · intro bq ⟨hbq, hcq⟩ rcq hrcq hne hanc
            rcases hnewb bq hbq hcq with ⟨hbq', hcq'⟩ | ⟨rc, hrc, hrcc⟩
            · have hlt := w.bldLt bq hbq'
              rw [getElem?_prefix_lt hpre hlt] at hrcq
              obtain ⟨pb, hpb, rcp, h11, h12⟩ := h4 bq ⟨hbq', hcq'⟩ rcq hrcq hne hanc
              exact ⟨pb, hpb, rcp, getElem?_prefix hpre h11, h12⟩
            · -- the new build sits at `c`, which is not an ancestor of the already classified `e`
              exfalso
              rw [hrc] at hrcq; cases hrcq
              rw [hrcc] at hanc
              obtain ⟨cl', hcl'⟩ := sm.anc_classified he hanc
              rw [hcl] at hcl'; cases hcl'
  have hnoelig : cm.tags = [] → c ≠ head → ¬ Elig h head c := by
    intro ht hh hel
    rcases hel with h1 | h1
    · rw [htag, ht] at h1; cases h1
    · exact hh h1
  cases finish_cases hf with
  | irrelevant hm hrel _ =>
    exact hold (fun b hb => hb) (fun i hi => hi) (fun b hb hc => Or.inl ⟨hb, hc⟩)
      (fun _ => Or.inr ⟨by rw [hmatch]; exact hm, Or.inl hrel⟩)
  | plain htags hnh _ _ =>
    have hb : (rp.addPlain c fr).builds = rp.builds := by simp only [Repo.addPlain]; split <;> rfl
    have hcur : ∀ i, isCurBuild (rp.addPlain c fr) i = isCurBuild rp i := by
      intro i; simp only [Repo.addPlain]; split <;> rfl
    exact hold (fun b hb' => by rw [hb]; exact hb') (fun i hi => by simp only [CurB, hcur]; exact hi)
      (fun b hb' hc => Or.inl ⟨by rw [hb] at hb'; exact hb', by simp only [CurB, hcur] at hc; exact hc⟩)
      (fun hel => absurd hel (hnoelig htags hnh))
  | plainMatch htags hnh _ =>
    exact hold (fun b hb' => hb') (fun i hi => hi) (fun b hb' hc => Or.inl ⟨hb', hc⟩)
      (fun hel => absurd hel (hnoelig htags hnh))
  | skip bpar new pb pbs bumps _ _ hfn hm _ hpb hpbs hmk hnt =>
    have hb : (rp.addPlain c fr).builds = rp.builds := by simp only [Repo.addPlain]; split <;> rfl
    have hr : (rp.addPlain c fr).rcs = rp.rcs := by simp only [Repo.addPlain]; split <;> rfl
    have hcur : ∀ i, isCurBuild (rp.addPlain c fr) i = isCurBuild rp i := by
      intro i; simp only [Repo.addPlain]; split <;> rfl
    refine hold (fun b hb' => by simp only [St.skipBuild]; rw [hb]; exact hb')
      (fun i hi => by simp only [St.skipBuild, CurB, hcur]; exact hi)
      (fun b hb' hc => Or.inl ⟨by simp only [St.skipBuild] at hb'; rw [hb] at hb'; exact hb',
        by simp only [St.skipBuild, CurB, hcur] at hc; exact hc⟩) ?_
    intro _
    right
    refine ⟨by rw [hmatch]; exact hm, Or.inr ⟨cm, pbs, bumps, hcm, ?_, ?_, ?_, hmk, hnt⟩⟩
    · rw [buildsOf_length hpbs]; exact hpb
    all_goals
      have hlt : ∀ x, CurB rp x → x < rp.rcs.length := by
        intro x hx
        simp only [CurB, isCurBuild, Bool.and_eq_true, List.any_eq_true] at hx
        obtain ⟨⟨b, hb', he⟩, _⟩ := hx
        have : b.iid = x := by simpa using he
        rw [← this]; exact w.bldLt b hb'
      have hanck : ∀ x, CurB rp x → x ∈ keys br.anc := fun x hx => w.ancKeys x ((w.curIff x).mpr hx)
      obtain ⟨_, _, hpbm⟩ := findNew_vals w.rcPar hlt v.anc hanck v.vals hfn
      obtain ⟨hids, hmem⟩ := buildsOf_spec hpbs
      simp only [St.skipBuild]
      rw [hr, hb]
    · -- the parent build found lies properly below `c`
      intro pbx hpbx
      have hpbb := hmem pbx hpbx
      have hin : pbx.iid ∈ pb := by rw [← hids]; exact List.mem_map.mpr ⟨pbx, hpbx, rfl⟩
      obtain ⟨hcx, r, hrfr, hrr⟩ := ((hpbm pbx.iid).mp hin).1
      refine ⟨⟨hpbb, by simp only [CurB, hcur]; exact hcx⟩, ?_⟩
      obtain ⟨p, hp, y, hy, hsy⟩ := (hQ.reach pbx.iid).mp ⟨r, hrfr, hrr⟩
      obtain ⟨rcp, h1, h2⟩ := w.selOk y pbx.iid hsy
      have hpar : p ∈ cm.parents := List.mem_reverse.mp hp
      refine ⟨rcp, h1, ?_, ?_⟩
      · rw [h2]; intro hyc
        have := hy.le hT; have := hT c cm hcm p hpar; omega
      · rw [h2]; exact .step hcm hpar hy
    · -- every build of the branch properly below `c` lies below it
      intro bq ⟨hbq, hcq⟩ rcq hrcq hne hanc
      have hcq' : CurB rp bq.iid := by simp only [CurB, hcur] at hcq; exact hcq
      -- `bq`'s commit is an ancestor of a parent of `c`
      rcases hanc.cases_parent with h1 | ⟨cm', p, hcm', hp, hyp⟩
      · exact absurd h1 hne
      · rw [hcm] at hcm'; cases hcm'
        have hsel : selOf rp rcq.commit bq.iid := w.rcSel bq.iid rcq hrcq
        obtain ⟨r, hrfr, hrr⟩ := (hQ.reach bq.iid).mpr ⟨p, List.mem_reverse.mpr hp, rcq.commit, hyp, hsel⟩
        obtain ⟨m, hm, hqm⟩ := exists_max w.rcPar (URr rp fr) rp.rcs.length (fun y hy => hlt y hy.1)
          (rp.rcs.length - bq.iid) bq.iid (Nat.le_refl _) ⟨hcq', r, hrfr, hrr⟩
        have hmpb : m ∈ pb := (hpbm m).mpr hm
        rw [← hids] at hmpb
        obtain ⟨pbx, hpbx, rfl⟩ := List.mem_map.mp hmpb
        have hlx := w.bldLt pbx (hmem pbx hpbx)
        refine ⟨pbx, hpbx, rp.rcs[pbx.iid], List.getElem?_eq_getElem hlx, ?_⟩
        exact (rreach_iff_anc w sm hrcq (List.getElem?_eq_getElem hlx)).mp hqm
  | build bpar new pb pbs bumps bn na =>
    have hnp : rp.rcs.length ∉ rp.prevBuilds := fun hm' => by have := w.prevLt _ hm'; simp only at this; omega
    let rc : RC := { commit := c, parents := fr, explicit := cm.isMatch, bns := buildNums cm (c == head) }
    let b : RB β := { iid := rp.rcs.length, rcommit := some rp.rcs.length, parents := pb,
                      rcommits := new ++ [rp.rcs.length], bumps := bumps, bn := bn }
    have hcur1 : ∀ i, isCurBuild (St.addBuild ⟨rp, br⟩ rc bn bpar new pb bumps na).rp i =
        (isCurBuild rp i || i == rp.rcs.length) := fun i => isCurBuild_push (rp.addRC rc) b hnp i
    refine hold (fun b' hb' => by simp only [St.addBuild, Repo.addRC]; exact List.mem_append_left _ hb')
      (fun i hi => by
        show isCurBuild _ i = true
        have hi' : isCurBuild rp i = true := hi
        rw [hcur1, hi']; rfl) ?_ ?_
    · intro b' hb' hc
      simp only [St.addBuild, Repo.addRC] at hb'
      rcases List.mem_append.mp hb' with h1 | h1
      · left
        refine ⟨h1, ?_⟩
        have hc' : isCurBuild (St.addBuild ⟨rp, br⟩ rc bn bpar new pb bumps na).rp b'.iid = true := hc
        rw [hcur1] at hc'
        have : b'.iid ≠ rp.rcs.length := by have := w.bldLt b' h1; simp only at this; omega
        have : (b'.iid == rp.rcs.length) = false := by simpa using this
        show isCurBuild rp b'.iid = true
        simpa [this] using hc'
      · right
        simp at h1; subst h1
        exact ⟨rc, by simp [St.addBuild, Repo.addRC, rc], rfl⟩
    · intro _
      refine Or.inl ⟨b, by simp [St.addBuild, Repo.addRC, b], ?_, rc, ?_, rfl⟩
      · show isCurBuild _ b.iid = true
        rw [hcur1]; simp [b]
      · simp [St.addBuild, Repo.addRC, b, rc]

end

end Ghist
