import AkVerif.Lemmas.GhistCompSide
import AkVerif.Lemmas.GhistPlugTotal
/-!
The "not merged" pseudo build of a branch (C07, pending bumps): `endBranch` computes its bumps from the build of the
branch that was created last — the greatest iid, i.e. the last one in the post-order of the DFS — and never looks at
build numbers; that build is not a proper git ancestor of another build of the branch.  `pendingBumps` starts each
pending bump from the version that build pins.
-/
namespace Ghist
open Ak

section
variable {π β : Type} {h : Hist π}

theorem maxOf_le : ∀ {l : List Nat} {m : Nat}, maxOf l = some m → ∀ x ∈ l, x ≤ m := by
  intro l
  induction l with
  | nil => intro m hm; simp [maxOf] at hm
  | cons y ys ih =>
    intro m hm x hx
    simp only [maxOf] at hm
    cases hys : maxOf ys with
    | none =>
      rw [hys] at hm
      simp only [Option.some.injEq] at hm
      subst hm
      cases ys with
      | nil => simp at hx; omega
      | cons a as =>
        exfalso
        simp only [maxOf] at hys
        split at hys <;> cases hys
    | some m' =>
      rw [hys] at hm
      simp only [Option.some.injEq] at hm
      rcases List.mem_cons.mp hx with h1 | h1
      · subst h1; subst hm; split <;> omega
      · have := ih hys x h1
        subst hm; split <;> omega

theorem maxOf_none {l : List Nat} (hm : maxOf l = none) : l = [] := by
  cases l with
  | nil => rfl
  | cons a as =>
    exfalso
    simp only [maxOf] at hm
    split at hm <;> cases hm

theorem buildsOf_get {rp : Repo β} : ∀ {is : List Nat} {bs : List (RB β)}, buildsOf rp is = some bs →
    ∀ i ∈ is, ∃ b ∈ bs, rp.build? i = some b := by
  intro is
  induction is with
  | nil => intro bs _ i hi; cases hi
  | cons j js ih =>
    intro bs hb i hi
    simp only [buildsOf] at hb
    split at hb
    · rename_i b0 r hb0 hr
      cases hb
      rcases List.mem_cons.mp hi with h1 | h1
      · subst h1; exact ⟨b0, by simp, hb0⟩
      · obtain ⟨b1, hb1, hf⟩ := ih hr i h1
        exact ⟨b1, by simp [hb1], hf⟩
    · cases hb

/-- what the pseudo build of a branch is made from -/
def PendingSpec (pl : Plug π β) (rb : RBranch β) (fake : RB β) : Prop :=
  (∃ lb ∈ rb.rbuilds, lb.rcommit = some lb.iid ∧ (∀ x ∈ rb.rbuilds, x.rcommit ≠ none → x.iid ≤ lb.iid) ∧
    fake.parents = [lb.iid] ∧ pl.pending lb.bumps = .ok fake.bumps) ∨
  ((∀ x ∈ rb.rbuilds, x.rcommit = none) ∧ fake.parents = [] ∧ fake.bumps = pl.noBumps)

theorem endBranch_pending {pl : Plug π β} {first : Bool} {b : Branch} {st : St β} {rheads : List Nat}
    {rp' : Repo β} {rb : RBranch β} (he : endBranch pl first b st rheads = .ok (rp', rb))
    (hn : ∀ x ∈ st.rp.builds, x.rcommit = some x.iid) :
    ∀ fake ∈ rb.rbuilds, fake.rcommit = none → PendingSpec pl rb fake := by
  unfold endBranch at he
  split at he
  · cases he
  · rename_i seen hseen
    simp only at he
    generalize (if first = true then [] else notMerged seen 0 st.rp.rcs) = nm at he
    split at he
    · cases he
    · rename_i curBuilds hcb
      obtain ⟨hids, hmem⟩ := buildsOf_spec hcb
      have hcur : ∀ x ∈ curBuilds, x.rcommit = some x.iid := fun x hx => hn x (hmem x hx)
      split at he
      · cases he
      · rename_i pend hpend
        by_cases hfake : (!nm.isEmpty || !pl.isEmpty pend) = true
        · rw [if_pos hfake] at he
          cases he
          intro fake hfk hnone
          rcases List.mem_append.mp hfk with h1 | h1
          · have := hcur fake h1; rw [hnone] at this; cases this
          have h2 := List.mem_singleton.mp h1
          subst h2
          unfold PendingSpec
          cases hmax : maxOf st.br.cur with
          | none =>
            right
            have hc0 : st.br.cur = [] := maxOf_none hmax
            have hb0 : curBuilds = [] := by
              have := congrArg List.length hids
              rw [hc0] at this
              simpa [iids] using this
            rw [hmax] at hpend
            simp only [Option.bind_none] at hpend
            cases hpend
            subst hb0
            refine ⟨?_, by simp only, rfl⟩
            intro x hx
            simp at hx; subst hx; rfl
          | some m =>
            left
            obtain ⟨lb, hlb, hf⟩ := buildsOf_get hcb m (maxOf_mem hmax)
            have hlbi : lb.iid = m := (build?_some hf).2
            rw [hmax] at hpend
            simp only [Option.bind_some, hf] at hpend
            refine ⟨lb, List.mem_append_left _ hlb, hcur lb hlb, ?_, by simp only [hlbi], hpend⟩
            intro x hx hxn
            rcases List.mem_append.mp hx with h1 | h1
            · have : x.iid ∈ st.br.cur := by rw [← hids]; exact List.mem_map.mpr ⟨x, h1, rfl⟩
              rw [hlbi]; exact maxOf_le hmax _ this
            · simp at h1; subst h1; exact absurd rfl hxn
        · rw [if_neg hfake] at he
          cases he
          intro fake hfk hnone
          have := hcur fake hfk; rw [hnone] at this; cases this

/-- every pseudo build of the final graph is made from the last build of its branch -/
theorem rgraph_pending (hT : h.Topo) {pl : Plug π β} {g : Graph β} {mt : Option Nat} (hg : rgraphNW h pl mt = .ok g) :
    ∀ rb ∈ g.all, ∀ fake ∈ rb.rbuilds, fake.rcommit = none → PendingSpec pl rb fake := by
  unfold rgraphNW at hg
  split at hg
  · cases hg
  · rename_i rp rbs hr
    cases hg
    have hstep : ∀ (pre : List Branch) (rp : Repo β) (b : Branch) (rp' : Repo β) (rb : RBranch β),
        (WF h ⟨rp, Br.empty⟩ ∧ BuildsNormal rp) → readBranch h pl pre.isEmpty rp b = .ok (rp', rb) →
        (WF h ⟨rp', Br.empty⟩ ∧ BuildsNormal rp') ∧
          (∀ fake ∈ rb.rbuilds, fake.rcommit = none → PendingSpec pl rb fake) := by
      intro pre rp b rp' rb ⟨w, hn⟩ hrb
      obtain ⟨hc0, st, rheads, hhc0, hv, he⟩ := readBranch_inv hrb
      obtain ⟨w1, _, _⟩ := visit_wf hT w (by simp) hv
      have hn1 := visit_buildsNormal hT hn hv
      refine ⟨⟨endBranch_wf w1 he, ?_⟩, endBranch_pending he hn1⟩
      have hs := endBranch_spec he
      intro b' hb'; rw [hs.builds] at hb'; exact hn1 b' hb'
    obtain ⟨_, hlen, hF⟩ := readBranches_ind (fun _ rp => WF h ⟨rp, Br.empty⟩ ∧ BuildsNormal rp)
      (fun _ _ rb => ∀ fake ∈ rb.rbuilds, fake.rcommit = none → PendingSpec pl rb fake) hstep (branchesOf h) []
      Repo.empty rp rbs ⟨wf_empty, by intro b hb; simp [Repo.empty] at hb⟩ hr
    intro rb hrb
    obtain ⟨j, hj⟩ := List.mem_iff_getElem?.mp hrb
    have hjlt : j < (branchesOf h).length := by
      rw [← hlen]; exact (List.getElem?_eq_some_iff.mp hj).1
    exact hF j _ rb (List.getElem?_eq_getElem hjlt) hj

/-- report commits are numbered in post-order: the report commit of a git ancestor has the smaller (or the same) id -/
theorem rgraph_iid_mono (hT : h.Topo) {pl : Plug π β} {g : Graph β} {mt : Option Nat} (hg : rgraphNW h pl mt = .ok g) :
    ∀ (i j : Nat) (rci rcj : RC), g.rcs[i]? = some rci → g.rcs[j]? = some rcj → Anc h rci.commit rcj.commit → i ≤ j := by
  unfold rgraphNW at hg
  split at hg
  · cases hg
  · rename_i rp rbs hr
    cases hg
    have hstep : ∀ (pre : List Branch) (rp : Repo β) (b : Branch) (rp' : Repo β) (rb : RBranch β),
        RepoInv h pre rp → readBranch h pl pre.isEmpty rp b = .ok (rp', rb) → RepoInv h (pre ++ [b]) rp' ∧ True := by
      intro pre rp b rp' rb inv hrb
      exact ⟨(readBranch_sem hT inv hrb).1, trivial⟩
    obtain ⟨inv, _, _⟩ := readBranches_ind (RepoInv h) (fun _ _ _ => True) hstep (branchesOf h) [] Repo.empty rp rbs
      repoInv_empty hr
    intro i j rci rcj hi hj hanc
    simp only at hi hj
    have w := inv.wf
    have hsi : selOf rp rci.commit i := (selOf_iff_rcs w _ _).mpr ⟨rci, hi, rfl⟩
    have hsj : selOf rp rcj.commit j := (selOf_iff_rcs w _ _).mpr ⟨rcj, hj, rfl⟩
    have hcl := inv.sem.selCls _ _ hsj
    obtain ⟨r, hr1, hr2⟩ := (inv.sem.reach _ _ hcl i).mpr ⟨rci.commit, hanc, hsi⟩
    simp only [clsList, List.mem_singleton] at hr1
    subst hr1
    exact hr2.lt_or_eq w.rcPar

end

/-! ### `pendingBumps` -/

/-- a pending bump of a component starts from the version pinned by the build the bumps `bumps` belong to
(`to_buildnum` of its bump, naming the component build `incl`) and leads to the latest build `lat` of the component
branch that holds `incl`; it is recorded only when `lat` is another build than `incl` -/
theorem pendingBumps_mem (cvm : List (Nat × Graph Bumps)) : ∀ (bumps r : Bumps), pendingBumps cvm bumps = .ok r →
    ∀ comp pb, (comp, pb) ∈ r →
      ∃ pbump incl gC cb e lat, (comp, pbump) ∈ bumps ∧ pbump.toRb = some incl ∧ cvm.lookup comp = some gC ∧
        gC.findBuild incl = some cb ∧ gC.bnMapAll.lookup cb.bn = some e ∧ gC.latestOf e.1 = some lat ∧
        pb = ⟨[pbump.toBn], lat.bn, [incl], some lat.iid⟩ ∧ lat.iid ≠ incl := by
  intro bumps
  induction bumps with
  | nil => intro r hr comp pb hm; simp [pendingBumps] at hr; subst hr; cases hm
  | cons hd rest ih =>
    obtain ⟨c0, pbump⟩ := hd
    intro r hr comp pb hm
    simp only [pendingBumps] at hr
    split at hr
    · cases hr
    · rename_i r0 hr0
      have hrec : ∀ comp pb, (comp, pb) ∈ r0 →
          ∃ pbump' incl gC cb e lat, (comp, pbump') ∈ (c0, pbump) :: rest ∧ pbump'.toRb = some incl ∧
            cvm.lookup comp = some gC ∧ gC.findBuild incl = some cb ∧ gC.bnMapAll.lookup cb.bn = some e ∧
            gC.latestOf e.1 = some lat ∧ pb = ⟨[pbump'.toBn], lat.bn, [incl], some lat.iid⟩ ∧ lat.iid ≠ incl := by
        intro comp pb hm
        obtain ⟨p, incl, gC, cb, e, lat, h1, h2⟩ := ih r0 hr0 comp pb hm
        exact ⟨p, incl, gC, cb, e, lat, List.mem_cons_of_mem _ h1, h2⟩
      split at hr
      · cases hr; exact hrec comp pb hm
      · rename_i incl hincl
        split at hr
        · cases hr
        · rename_i gC hgC
          split at hr
          · cases hr
          · rename_i cb hcb
            split at hr
            · cases hr
            · rename_i j e2 hlk
              split at hr
              · cases hr
              · rename_i lat hlat
                simp only [Except.ok.injEq] at hr
                by_cases htr : (Bump.trivial ⟨[pbump.toBn], lat.bn, [incl], some lat.iid⟩) = true
                · rw [if_pos htr] at hr; subst hr; exact hrec comp pb hm
                · rw [if_neg htr] at hr; subst hr
                  rcases List.mem_cons.mp hm with h1 | h1
                  · cases h1
                    refine ⟨pbump, incl, gC, cb, (j, e2), lat, by simp, hincl, hgC, hcb, hlk, hlat, rfl, ?_⟩
                    intro heq
                    apply htr
                    simp [Bump.trivial, heq]
                  · exact hrec comp pb h1

end Ghist
