import AkVerif.Lemmas.ColorsConfHist
import AkVerif.Model.ColorsConfGlobal
/-!
Lemmas for C14, fourth part: the configuration as the global one and synced palettes (model part 6).

* `Step g g'` — what every registration on a possibly global configuration guarantees, in particular:
  if the configuration is the global one then either nothing visible changed (same map, same synced
  snapshots) or a complete re-sync ran last and every synced palette is `Fresh`.
* With the configuration not being the global one the `…G` functions are the plain ones (`*_off`).
-/
namespace ColorsConf
open Ak

theorem getColor_map_eq {c c' : Conf} (h : c'.map = c.map) (id : Id) : getColor c' id = getColor c id := by
  unfold getColor getEntry
  rw [h]

theorem snapOf_map_eq {c c' : Conf} (h : c'.map = c.map) (a : List (Str × Id)) : snapOf c' a = snapOf c a :=
  snapOf_congr (getColor_map_eq h) a

/-- every synced palette shows what `get_color` answers now -/
def Fresh (classes : List ClassDef) (g : GWorld) : Prop :=
  ∀ k s, cacheGet g.synced k = some s → ∃ cd, classes[k]? = some cd ∧ s = snapOf g.w.conf cd.accessors

def FreshOn (classes : List ClassDef) (g : GWorld) (ks : List Nat) : Prop :=
  ∀ k ∈ ks, ∃ cd, classes[k]? = some cd ∧ cacheGet g.synced k = some (snapOf g.w.conf cd.accessors)

structure Step (classes : List ClassDef) (g g' : GWorld) : Prop where
  good : WGood classes g'.w
  later : Later g.w.conf g'.w.conf
  glob : g'.isGlobal = g.isGlobal
  keys : g'.synced.map (·.1) = g.synced.map (·.1)
  fresh : g.isGlobal = true →
    (g'.w.conf.map = g.w.conf.map ∧ g'.synced = g.synced) ∨ Fresh classes g'

theorem Step.refl {classes : List ClassDef} {g : GWorld} (hg : WGood classes g.w) : Step classes g g :=
  ⟨hg, Later.refl _, rfl, rfl, fun _ => .inl ⟨rfl, rfl⟩⟩

theorem Fresh.of_same {classes : List ClassDef} {g g' : GWorld} (h : Fresh classes g)
    (hm : g'.w.conf.map = g.w.conf.map) (hs : g'.synced = g.synced) : Fresh classes g' := by
  intro k s hk
  rw [hs] at hk
  obtain ⟨cd, hcd, hsn⟩ := h k s hk
  exact ⟨cd, hcd, by rw [hsn, snapOf_map_eq hm]⟩

theorem Step.trans {classes : List ClassDef} {a b c : GWorld} (h1 : Step classes a b) (h2 : Step classes b c) :
    Step classes a c := by
  refine ⟨h2.good, h1.later.trans h2.later, h2.glob.trans h1.glob, h2.keys.trans h1.keys, ?_⟩
  intro hga
  have hgb : b.isGlobal = true := h1.glob.trans hga
  rcases h1.fresh hga with ⟨hm1, hs1⟩ | hf1
  · rcases h2.fresh hgb with ⟨hm2, hs2⟩ | hf2
    · exact .inl ⟨hm2.trans hm1, hs2.trans hs1⟩
    · exact .inr hf2
  · rcases h2.fresh hgb with ⟨hm2, hs2⟩ | hf2
    · exact .inr (hf1.of_same hm2 hs2)
    · exact .inr hf2

theorem cacheGet_isSome_of_mem {l : List (Nat × Snap)} {k : Nat} (h : k ∈ l.map (·.1)) :
    (cacheGet l k).isSome = true := by
  induction l with
  | nil => simp at h
  | cons x l ih =>
    obtain ⟨k0, s0⟩ := x
    by_cases hk : k0 = k
    · simp [cacheGet, hk]
    · simp [cacheGet, hk]
      apply ih
      simp at h
      rcases h with h | h
      · exact absurd h.symm hk
      · simpa using h

theorem cacheGet_some_mem {l : List (Nat × Snap)} {k : Nat} {s : Snap} (h : cacheGet l k = some s) :
    k ∈ l.map (·.1) := by
  induction l with
  | nil => simp [cacheGet] at h
  | cons x l ih =>
    obtain ⟨k0, s0⟩ := x
    by_cases hk : k0 = k
    · simp [hk]
    · simp [cacheGet, hk] at h
      simp; exact .inr (by simpa using ih h)

theorem cacheSet_keys {l : List (Nat × Snap)} {k : Nat} (s : Snap) (h : (cacheGet l k).isSome = true) :
    (cacheSet l k s).map (·.1) = l.map (·.1) := by
  induction l with
  | nil => simp [cacheGet] at h
  | cons x l ih =>
    obtain ⟨k0, s0⟩ := x
    by_cases hk : k0 = k
    · simp [cacheSet, hk]
    · simp [cacheGet, hk] at h
      simp [cacheSet, hk, ih h]

theorem FreshOn.fresh {classes : List ClassDef} {g : GWorld} (h : FreshOn classes g (g.synced.map (·.1))) :
    Fresh classes g := by
  intro k s hk
  obtain ⟨cd, hcd, hs⟩ := h k (cacheGet_some_mem hk)
  rw [hk] at hs
  cases hs
  exact ⟨cd, hcd, rfl⟩

theorem Fresh.on {classes : List ClassDef} {g : GWorld} (h : Fresh classes g) (ks : List Nat)
    (hks : ∀ k ∈ ks, (cacheGet g.synced k).isSome = true) : FreshOn classes g ks := by
  intro k hk
  cases hc : cacheGet g.synced k with
  | none => have := hks k hk; simp [hc] at this
  | some s =>
    obtain ⟨cd, hcd, hs⟩ := h k s hc
    exact ⟨cd, hcd, by rw [hs]⟩

/-! ### the re-sync loop -/

theorem syncList_spec {classes : List ClassDef} {regC : GWorld → Nat → Except Err GWorld}
    (hreg : ∀ g k g', WGood classes g.w → regC g k = .ok g' → Step classes g g') :
    ∀ (ks : List Nat) (g g' : GWorld) (done : List Nat), WGood classes g.w →
      (∀ k ∈ ks, (cacheGet g.synced k).isSome = true) → (∀ k ∈ done, (cacheGet g.synced k).isSome = true) →
      syncList classes regC g ks = .ok g' →
      WGood classes g'.w ∧ Later g.w.conf g'.w.conf ∧ g'.isGlobal = g.isGlobal ∧
        g'.synced.map (·.1) = g.synced.map (·.1) ∧
        (g.isGlobal = true → FreshOn classes g done → FreshOn classes g' (done ++ ks)) := by
  intro ks
  induction ks with
  | nil =>
    intro g g' done hg _ _ h
    simp [syncList] at h
    subst h
    exact ⟨hg, Later.refl _, rfl, rfl, fun _ hd => by simpa using hd⟩
  | cons k ks ih =>
    intro g g' done hg hks hdone h
    unfold syncList at h
    cases h1 : regC g k with
    | error err => simp [h1] at h
    | ok g1 =>
      simp only [h1] at h
      cases hcd : classes[k]? with
      | none => simp [hcd] at h
      | some cd =>
        simp only [hcd] at h
        have st := hreg g k g1 hg h1
        have hsome : ∀ x, (cacheGet g.synced x).isSome = true → (cacheGet g1.synced x).isSome = true := by
          intro x hx
          cases hc : cacheGet g.synced x with
          | none => simp [hc] at hx
          | some s0 =>
            apply cacheGet_isSome_of_mem
            rw [st.keys]
            exact cacheGet_some_mem hc
        have hk1 : (cacheGet g1.synced k).isSome = true := hsome k (hks k List.mem_cons_self)
        let g2 : GWorld := { g1 with synced := cacheSet g1.synced k (snapOf g1.w.conf cd.accessors) }
        have hkeys2 : g2.synced.map (·.1) = g1.synced.map (·.1) := cacheSet_keys _ hk1
        have hsome2 : ∀ x, (cacheGet g.synced x).isSome = true → (cacheGet g2.synced x).isSome = true := by
          intro x hx
          have := hsome x hx
          cases hc : cacheGet g1.synced x with
          | none => simp [hc] at this
          | some s0 =>
            apply cacheGet_isSome_of_mem
            rw [hkeys2]
            exact cacheGet_some_mem hc
        obtain ⟨hg', hl', hgl', hk', hf'⟩ := ih g2 g' (done ++ [k]) st.good
          (fun x hx => hsome2 x (hks x (List.mem_cons_of_mem _ hx)))
          (fun x hx => by
            rcases List.mem_append.mp hx with hx | hx
            · exact hsome2 x (hdone x hx)
            · simp at hx; subst hx; exact hsome2 x (hks x List.mem_cons_self)) h
        refine ⟨hg', st.later.trans hl', hgl'.trans st.glob, (hk'.trans hkeys2).trans st.keys, ?_⟩
        intro hglob hdoneF
        have : FreshOn classes g' ((done ++ [k]) ++ ks) := by
          apply hf' (st.glob.trans hglob)
          -- the processed keys are fresh in g2
          have hdone1 : FreshOn classes g1 done := by
            rcases st.fresh hglob with ⟨hm, hs⟩ | hfr
            · intro x hx
              obtain ⟨cdx, hcdx, hsx⟩ := hdoneF x hx
              exact ⟨cdx, hcdx, by rw [hs, hsx, snapOf_map_eq hm]⟩
            · exact hfr.on done (fun x hx => hsome x (hdone x hx))
          intro x hx
          rcases List.mem_append.mp hx with hx | hx
          · obtain ⟨cdx, hcdx, hsx⟩ := hdone1 x hx
            refine ⟨cdx, hcdx, ?_⟩
            show cacheGet (cacheSet g1.synced k (snapOf g1.w.conf cd.accessors)) x = _
            rw [cacheGet_cacheSet]
            split
            · rename_i hkx; subst hkx
              rw [hcd] at hcdx; cases hcdx; rfl
            · exact hsx
          · simp at hx; subst hx
            refine ⟨cd, hcd, ?_⟩
            show cacheGet (cacheSet g1.synced x (snapOf g1.w.conf cd.accessors)) x = _
            rw [cacheGet_cacheSet]; simp; rfl
        simpa [List.append_assoc] using this

theorem syncAll_step {classes : List ClassDef} {regC : GWorld → Nat → Except Err GWorld}
    (hreg : ∀ g k g', WGood classes g.w → regC g k = .ok g' → Step classes g g')
    {g g' : GWorld} (hg : WGood classes g.w)
    (h : syncList classes regC g (g.synced.map (·.1)) = .ok g') :
    WGood classes g'.w ∧ Later g.w.conf g'.w.conf ∧ g'.isGlobal = g.isGlobal ∧
      g'.synced.map (·.1) = g.synced.map (·.1) ∧ (g.isGlobal = true → Fresh classes g') := by
  obtain ⟨h1, h2, h3, h4, h5⟩ := syncList_spec hreg _ g g' [] hg
    (fun k hk => cacheGet_isSome_of_mem hk) (fun k hk => by cases hk) h
  refine ⟨h1, h2, h3, h4, fun hglob => ?_⟩
  apply FreshOn.fresh
  rw [h4]
  simpa using h5 hglob (fun k hk => by cases hk)

/-! ### registrations on a possibly global configuration -/

theorem addWith_step {classes : List ClassDef} {sync : GWorld → Except Err GWorld}
    (hsync : ∀ g g', WGood classes g.w → sync g = .ok g' →
      WGood classes g'.w ∧ Later g.w.conf g'.w.conf ∧ g'.isGlobal = g.isGlobal ∧
        g'.synced.map (·.1) = g.synced.map (·.1) ∧ (g.isGlobal = true → Fresh classes g'))
    {g g' : GWorld} {items : List (Id × Str)} (hg : WGood classes g.w) (h : addWith sync g items = .ok g') :
    Step classes g g' := by
  unfold addWith at h
  cases h1 : addNewItems g.w.conf items with
  | error err => simp [h1] at h
  | ok c' =>
    simp only [h1] at h
    obtain ⟨hgc, hlc, _, _⟩ := addNewItems_cgood hg.conf h1
    split at h
    · rename_i hcond
      have hg1 : WGood classes ({ g with w := { g.w with conf := c' } } : GWorld).w := ⟨hgc, hg.nc⟩
      obtain ⟨a, b, c, d, e⟩ := hsync _ g' hg1 h
      exact ⟨a, hlc.trans b, c, d, fun hglob => .inr (e hglob)⟩
    · rename_i hcond
      cases h
      refine ⟨⟨hgc, hg.nc⟩, hlc, rfl, rfl, fun hglob => .inl ⟨?_, rfl⟩⟩
      simp only [hglob, Bool.true_and, decide_eq_true_eq] at hcond
      exact Classical.not_not.mp hcond

theorem regCompWith_step {classes : List ClassDef} {sync : GWorld → Except Err GWorld}
    (hsync : ∀ g g', WGood classes g.w → sync g = .ok g' →
      WGood classes g'.w ∧ Later g.w.conf g'.w.conf ∧ g'.isGlobal = g.isGlobal ∧
        g'.synced.map (·.1) = g.synced.map (·.1) ∧ (g.isGlobal = true → Fresh classes g'))
    {g g' : GWorld} {cfg : Cfg} {src : Src} (hg : WGood classes g.w)
    (h : regCompWith sync g cfg src = .ok g') : Step classes g g' := by
  unfold regCompWith at h
  split at h
  · cases h
  · have hg1 : WGood classes
        ({ g with w := { g.w with conf := { g.w.conf with sources := src :: g.w.conf.sources } } } : GWorld).w :=
      ⟨⟨hg.conf.good, hg.conf.cache⟩, hg.nc⟩
    have st := addWith_step hsync hg1 h
    exact ⟨st.good, ⟨st.later.nc, st.later.strs⟩, st.glob, st.keys, st.fresh⟩

theorem regParents_step {classes : List ClassDef} {reg : GWorld → Nat → Except Err GWorld}
    (hreg : ∀ g k g', WGood classes g.w → reg g k = .ok g' → Step classes g g') :
    ∀ (ps : List Nat) (g g' : GWorld), WGood classes g.w → regParents reg g ps = .ok g' → Step classes g g' := by
  intro ps
  induction ps with
  | nil => intro g g' hg h; simp [regParents] at h; subst h; exact Step.refl hg
  | cons p ps ih =>
    intro g g' hg h
    unfold regParents at h
    cases h1 : reg g p with
    | error err => simp [h1] at h
    | ok g1 =>
      simp [h1] at h
      have s1 := hreg g p g1 hg h1
      exact s1.trans (ih g1 g' s1.good h)

theorem registerClassG_step {classes : List ClassDef} : ∀ (fuel : Nat) (g : GWorld) (k : Nat) (g' : GWorld),
    WGood classes g.w → registerClassG classes fuel g k = .ok g' → Step classes g g' := by
  intro fuel
  induction fuel with
  | zero => intro g k g' _ h; simp [registerClassG] at h
  | succ fuel ih =>
    intro g k g' hg h
    unfold registerClassG at h
    split at h
    · cases h; exact Step.refl hg
    · cases hcd : classes[k]? with
      | none => simp [hcd] at h
      | some cd =>
        simp only [hcd] at h
        cases h1 : regParents (registerClassG classes fuel) g cd.parents with
        | error err => simp [h1] at h
        | ok g1 =>
          simp only [h1] at h
          have s1 := regParents_step (fun g k g' => ih g k g') cd.parents g g1 hg h1
          cases hdf : cd.defaults with
          | none => simp [hdf] at h; subst h; exact s1
          | some cfg =>
            simp only [hdf] at h
            exact s1.trans (regCompWith_step
              (fun g g' hgg hs => syncAll_step (fun g k g' => ih g k g') hgg hs) s1.good h)

theorem syncTop_spec {classes : List ClassDef} {g g' : GWorld} (hg : WGood classes g.w)
    (h : syncTop classes g = .ok g') :
    WGood classes g'.w ∧ Later g.w.conf g'.w.conf ∧ g'.isGlobal = g.isGlobal ∧
      g'.synced.map (·.1) = g.synced.map (·.1) ∧ (g.isGlobal = true → Fresh classes g') :=
  syncAll_step (fun g k g' => registerClassG_step _ g k g') hg h

/-! ### histories -/

/-- invariant of the protocol state: the configuration is `WGood`, and while it is the global one every
synced palette is fresh -/
structure GInv (classes : List ClassDef) (g : GWorld) : Prop where
  good : WGood classes g.w
  fresh : g.isGlobal = true → Fresh classes g

theorem GInv.step {classes : List ClassDef} {g g' : GWorld} (hi : GInv classes g) (st : Step classes g g') :
    GInv classes g' := by
  refine ⟨st.good, fun hglob => ?_⟩
  have hg : g.isGlobal = true := st.glob.symm.trans hglob
  rcases st.fresh hg with ⟨hm, hs⟩ | hf
  · exact (hi.fresh hg).of_same hm hs
  · exact hf

theorem cacheGet_append {l : List (Nat × Snap)} {k k' : Nat} {s : Snap} :
    cacheGet (l ++ [(k, s)]) k' = match cacheGet l k' with
      | some x => some x
      | none => if k = k' then some s else none := by
  induction l with
  | nil => simp [cacheGet]
  | cons x l ih =>
    obtain ⟨k0, s0⟩ := x
    by_cases hk : k0 = k'
    · simp [cacheGet, hk]
    · simp [cacheGet, hk, ih]

/-- what `getPaletteG` returns, and what it does to the state -/
theorem getPaletteG_spec {classes : List ClassDef} {g g' : GWorld} {k : Nat} {nc : Bool} {s : Snap}
    (hi : GInv classes g) (h : getPaletteG classes g k nc = .ok (g', s)) :
    GInv classes g' ∧ Later g.w.conf g'.w.conf ∧ g'.isGlobal = g.isGlobal ∧
      ∃ cd, classes[k]? = some cd ∧
        s = if nc then plainSnap cd.accessors else snapOf g'.w.conf cd.accessors := by
  unfold getPaletteG at h
  cases hcd : classes[k]? with
  | none => simp [hcd] at h
  | some cd =>
    simp only [hcd] at h
    cases nc with
    | true =>
      simp only [if_true] at h
      cases h1 : registerClassG classes (gFuel classes) g k with
      | error err => simp [h1] at h
      | ok g1 =>
        simp only [h1] at h
        have st := registerClassG_step _ g k g1 hi.good h1
        have hi1 := hi.step st
        cases hc : cacheGet g1.w.ncCache k with
        | some s0 =>
          simp [hc] at h
          obtain ⟨hw, hs⟩ := h
          subst hw; subst hs
          obtain ⟨cd', hcd', hs0⟩ := hi1.good.nc k s0 hc
          rw [hcd] at hcd'; cases hcd'
          exact ⟨hi1, st.later, st.glob, cd, rfl, by simp [hs0]⟩
        | none =>
          simp [hc] at h
          obtain ⟨hw, hs⟩ := h
          subst hw; subst hs
          refine ⟨⟨⟨hi1.good.conf, ?_⟩, fun hglob => (hi1.fresh hglob).of_same rfl rfl⟩, st.later, st.glob,
            cd, rfl, by simp⟩
          intro k' s' hk'
          simp only at hk'
          rw [cacheGet_cacheSet] at hk'
          split at hk'
          · rename_i hkk; subst hkk; cases hk'; exact ⟨cd, hcd, rfl⟩
          · exact hi1.good.nc k' s' hk'
    | false =>
      simp only [Bool.false_eq_true, if_false] at h
      cases hc : cacheGet g.w.conf.cache k with
      | some s0 =>
        simp [hc] at h
        obtain ⟨hw, hs⟩ := h
        subst hw; subst hs
        obtain ⟨cd', hcd', hs0⟩ := hi.good.conf.cache k s0 hc
        rw [hcd] at hcd'; cases hcd'
        exact ⟨hi, Later.refl _, rfl, cd, rfl, by simp [hs0]⟩
      | none =>
        simp only [hc] at h
        cases h1 : registerClassG classes (gFuel classes) g k with
        | error err => simp [h1] at h
        | ok g1 =>
          simp [h1] at h
          obtain ⟨hw, hs⟩ := h
          subst hw; subst hs
          have st := registerClassG_step _ g k g1 hi.good h1
          have hi1 := hi.step st
          refine ⟨⟨⟨⟨hi1.good.conf.good, ?_⟩, hi1.good.nc⟩, fun hglob => (hi1.fresh hglob).of_same rfl rfl⟩,
            ⟨st.later.nc, st.later.strs⟩, st.glob, cd, rfl, by simp; rfl⟩
          intro k' s' hk'
          simp only at hk'
          rw [cacheGet_cacheSet] at hk'
          split at hk'
          · rename_i hkk; subst hkk; cases hk'; exact ⟨cd, hcd, rfl⟩
          · exact hi1.good.conf.cache k' s' hk'

theorem stepG_inv {classes : List ClassDef} {g g' : GWorld} {op : GOp} {o : Option Snap}
    (hi : GInv classes g) (h : stepG classes g op = .ok (g', o)) :
    GInv classes g' ∧ Later g.w.conf g'.w.conf := by
  cases op with
  | op o' =>
    cases o' with
    | add items =>
      simp only [stepG] at h
      cases h1 : addWith (syncTop classes) g items with
      | error err => simp [h1] at h
      | ok g1 =>
        simp [h1] at h
        obtain ⟨hw, _⟩ := h; subst hw
        have st := addWith_step (fun g g' hg hs => syncTop_spec hg hs) hi.good h1
        exact ⟨hi.step st, st.later⟩
    | reg name cfg =>
      simp only [stepG] at h
      cases h1 : regCompWith (syncTop classes) g cfg (.name name) with
      | error err => simp [h1] at h
      | ok g1 =>
        simp [h1] at h
        obtain ⟨hw, _⟩ := h; subst hw
        have st := regCompWith_step (fun g g' hg hs => syncTop_spec hg hs) hi.good h1
        exact ⟨hi.step st, st.later⟩
    | pal k nc =>
      simp only [stepG] at h
      cases h1 : getPaletteG classes g k nc with
      | error err => simp [h1] at h
      | ok gs =>
        obtain ⟨g1, s1⟩ := gs
        simp [h1] at h
        obtain ⟨hw, _⟩ := h; subst hw
        obtain ⟨a, b, _, _⟩ := getPaletteG_spec hi h1
        exact ⟨a, b⟩
    | get id =>
      simp [stepG] at h
      obtain ⟨hw, _⟩ := h; subst hw
      exact ⟨hi, Later.refl _⟩
  | setGlobal =>
    simp only [stepG] at h
    cases h1 : syncTop classes { g with isGlobal := true } with
    | error err => simp [h1] at h
    | ok g1 =>
      simp [h1] at h
      obtain ⟨hw, _⟩ := h; subst hw
      obtain ⟨a, b, c, _, e⟩ := syncTop_spec (g := { g with isGlobal := true }) hi.good h1
      exact ⟨⟨a, fun _ => e rfl⟩, b⟩
  | syn k =>
    simp only [stepG] at h
    cases hc : cacheGet g.synced k with
    | some s0 =>
      simp [hc] at h
      obtain ⟨hw, _⟩ := h; subst hw
      exact ⟨hi, Later.refl _⟩
    | none =>
      simp only [hc] at h
      cases hcd : classes[k]? with
      | none => simp [hcd] at h
      | some cd =>
        simp only [hcd] at h
        cases hgl : g.isGlobal with
        | false =>
          simp [hgl] at h
          obtain ⟨hw, _⟩ := h; subst hw
          exact ⟨⟨hi.good, fun hglob => by simp at hglob⟩, Later.refl _⟩
        | true =>
          simp only [hgl, Bool.not_true, Bool.false_eq_true, if_false] at h
          cases h1 : registerClassG classes (gFuel classes) g k with
          | error err => simp [h1] at h
          | ok g1 =>
            simp [h1] at h
            obtain ⟨hw, _⟩ := h; subst hw
            have st := registerClassG_step _ g k g1 hi.good h1
            have hi1 := hi.step st
            refine ⟨⟨hi1.good, fun hglob => ?_⟩, st.later⟩
            intro k' s' hk'
            simp only at hk'
            rw [cacheGet_append] at hk'
            cases hc1 : cacheGet g1.synced k' with
            | some x =>
              simp [hc1] at hk'
              subst hk'
              exact hi1.fresh hglob k' x hc1
            | none =>
              simp [hc1] at hk'
              obtain ⟨hkk, hs⟩ := hk'
              subst hkk; subst hs
              exact ⟨cd, hcd, rfl⟩
  | sget k =>
    simp only [stepG] at h
    cases hc : cacheGet g.synced k with
    | some s0 =>
      simp [hc] at h
      obtain ⟨hw, _⟩ := h; subst hw
      exact ⟨hi, Later.refl _⟩
    | none => simp [hc] at h

theorem runG_inv {classes : List ClassDef} : ∀ (ops : List GOp) (g g' : GWorld),
    GInv classes g → runG classes g ops = .ok g' → GInv classes g' ∧ Later g.w.conf g'.w.conf := by
  intro ops
  induction ops with
  | nil => intro g g' hi h; simp [runG] at h; subst h; exact ⟨hi, Later.refl _⟩
  | cons op ops ih =>
    intro g g' hi h
    unfold runG at h
    cases h1 : stepG classes g op with
    | error err => simp [h1] at h
    | ok go =>
      obtain ⟨g1, o⟩ := go
      simp [h1] at h
      obtain ⟨hi1, hl1⟩ := stepG_inv hi h1
      obtain ⟨hi2, hl2⟩ := ih g1 g' hi1 h
      exact ⟨hi2, hl1.trans hl2⟩

/-! ### with the configuration not being the global one nothing of part 6 happens -/

def mapE {α β : Type} (f : α → β) : Except Err α → Except Err β
  | .ok a => .ok (f a)
  | .error e => .error e

def liftC (g : GWorld) (c : Conf) : GWorld := { g with w := { g.w with conf := c } }
def liftW (g : GWorld) (w : World) : GWorld := { g with w := w }

theorem addWith_off {sync : GWorld → Except Err GWorld} {g : GWorld} (hg : g.isGlobal = false)
    (items : List (Id × Str)) : addWith sync g items = mapE (liftC g) (addNewItems g.w.conf items) := by
  unfold addWith
  cases addNewItems g.w.conf items with
  | error e => rfl
  | ok c => simp [hg, mapE, liftC]

theorem regCompWith_off {sync : GWorld → Except Err GWorld} {g : GWorld} (hg : g.isGlobal = false)
    (cfg : Cfg) (src : Src) :
    regCompWith sync g cfg src = mapE (liftC g) (registerComponent g.w.conf cfg src) := by
  unfold regCompWith registerComponent
  split
  · rfl
  · rw [addWith_off (by exact hg)]
    rfl

theorem regParents_off {regG : GWorld → Nat → Except Err GWorld} {reg : Conf → Nat → Except Err Conf}
    (hreg : ∀ g k, g.isGlobal = false → regG g k = mapE (liftC g) (reg g.w.conf k)) :
    ∀ (ps : List Nat) (g : GWorld), g.isGlobal = false →
      regParents regG g ps = mapE (liftC g) (regParents reg g.w.conf ps) := by
  intro ps
  induction ps with
  | nil => intro g _; rfl
  | cons p ps ih =>
    intro g hg
    unfold regParents
    rw [hreg g p hg]
    cases h1 : reg g.w.conf p with
    | error e => rfl
    | ok c1 =>
      simp only [mapE]
      rw [ih (liftC g c1) (by exact hg)]
      rfl

theorem registerClassG_off {classes : List ClassDef} : ∀ (fuel : Nat) (g : GWorld) (k : Nat),
    g.isGlobal = false →
    registerClassG classes fuel g k = mapE (liftC g) (registerClass classes fuel g.w.conf k) := by
  intro fuel
  induction fuel with
  | zero => intro g k _; rfl
  | succ fuel ih =>
    intro g k hg
    unfold registerClassG registerClass
    split
    · rfl
    · cases hcd : classes[k]? with
      | none => rfl
      | some cd =>
        simp only
        rw [regParents_off (reg := registerClass classes fuel) (fun g k hg => ih g k hg) cd.parents g hg]
        cases h1 : regParents (registerClass classes fuel) g.w.conf cd.parents with
        | error e => rfl
        | ok c1 =>
          simp only [mapE]
          cases hdf : cd.defaults with
          | none => rfl
          | some cfg =>
            simp only
            rw [regCompWith_off (by exact hg)]
            rfl

theorem getPaletteG_off {classes : List ClassDef} {g : GWorld} (hg : g.isGlobal = false) (k : Nat) (nc : Bool) :
    getPaletteG classes g k nc =
      mapE (fun ws => (liftW g ws.1, ws.2)) (getPalette classes g.w k nc) := by
  unfold getPaletteG getPalette
  cases hcd : classes[k]? with
  | none => rfl
  | some cd =>
    simp only
    cases nc with
    | true =>
      simp only [if_true]
      rw [registerClassG_off _ g k hg]
      cases h1 : registerClass classes (gFuel classes) g.w.conf k with
      | error e => rfl
      | ok c1 =>
        simp only [mapE, liftC]
        cases hc : cacheGet g.w.ncCache k <;> rfl
    | false =>
      simp only [Bool.false_eq_true, if_false]
      cases hc : cacheGet g.w.conf.cache k with
      | some s0 => rfl
      | none =>
        simp only
        rw [registerClassG_off _ g k hg]
        cases h1 : registerClass classes (gFuel classes) g.w.conf k with
        | error e => rfl
        | ok c1 => rfl

theorem stepG_off {classes : List ClassDef} {g : GWorld} (hg : g.isGlobal = false) (o : Op) :
    stepG classes g (.op o) = mapE (fun wo => (liftW g wo.1, wo.2)) (stepOp classes g.w o) := by
  cases o with
  | add items =>
    simp only [stepG, stepOp]
    rw [addWith_off hg]
    cases addNewItems g.w.conf items <;> rfl
  | reg name cfg =>
    simp only [stepG, stepOp]
    rw [regCompWith_off hg]
    cases registerComponent g.w.conf cfg (.name name) <;> rfl
  | pal k nc =>
    simp only [stepG, stepOp]
    rw [getPaletteG_off hg]
    cases getPalette classes g.w k nc <;> rfl
  | get id => rfl

theorem runG_off {classes : List ClassDef} : ∀ (ops : List Op) (g : GWorld), g.isGlobal = false →
    runG classes g (ops.map GOp.op) = mapE (liftW g) (runOps classes g.w ops) := by
  intro ops
  induction ops with
  | nil => intro g _; rfl
  | cons o ops ih =>
    intro g hg
    simp only [List.map_cons]
    unfold runG runOps
    rw [stepG_off hg]
    cases h1 : stepOp classes g.w o with
    | error e => rfl
    | ok wo =>
      obtain ⟨w1, o1⟩ := wo
      simp only [mapE]
      rw [ih (liftW g w1) (by exact hg)]
      rfl

end ColorsConf
