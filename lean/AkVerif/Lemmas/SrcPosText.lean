import AkVerif.Model.SrcPos
/-!
C04 helper lemmas about text: `splitNl`/`joinNl`, `rstrip`, slices, and `getOrigText` as a substring of
the whole text (by character offsets).
-/
namespace SrcPos
open Ak

theorem Pos.le_def (a b : Pos) : a ≤ b ↔ a.line < b.line ∨ (a.line = b.line ∧ a.col ≤ b.col) := Iff.rfl
theorem Pos.lt_def (a b : Pos) : a < b ↔ a.line < b.line ∨ (a.line = b.line ∧ a.col < b.col) := Iff.rfl

/-! ## split / join / rstrip -/

theorem splitNl_ne_nil (t : List Char) : splitNl t ≠ [] := by
  induction t with
  | nil => simp [splitNl]
  | cons c cs ih =>
    unfold splitNl
    split
    · simp
    · split <;> simp

theorem joinNl_cons (l : List Char) (ls : List (List Char)) (h : ls ≠ []) :
    joinNl (l :: ls) = l ++ '\n' :: joinNl ls := by
  cases ls with
  | nil => exact absurd rfl h
  | cons a as => rfl

/-- `"\n".join(text.split("\n")) == text` -/
theorem joinNl_splitNl (t : List Char) : joinNl (splitNl t) = t := by
  induction t with
  | nil => rfl
  | cons c cs ih =>
    unfold splitNl
    split
    · rename_i hc
      rw [joinNl_cons _ _ (splitNl_ne_nil cs), ih, hc]; rfl
    · split
      · rename_i h; exact absurd h (splitNl_ne_nil cs)
      · rename_i l ls h
        rw [h] at ih
        cases ls with
        | nil => simp [joinNl] at ih ⊢; exact ih
        | cons a as =>
          rw [joinNl_cons _ _ (by simp)] at ih ⊢
          simp [← ih]

/-- the right-stripped line is a prefix of the line -/
theorem rstrip_prefix (ws : Char → Bool) (l : List Char) : ∃ r, l = rstrip ws l ++ r := by
  refine ⟨(l.reverse.takeWhile ws).reverse, ?_⟩
  unfold rstrip
  rw [← List.reverse_append, List.takeWhile_append_dropWhile, List.reverse_reverse]

/-- `olines` are the lines of `lines`, each possibly followed by more characters (the blanks `rstrip`
removed) -/
def Ext (lines olines : List (List Char)) : Prop :=
  ∀ (i : Nat) (l : List Char), lines[i]? = some l → ∃ r : List Char, olines[i]? = some (l ++ r)

theorem Ext.refl (lines : List (List Char)) : Ext lines lines :=
  fun _ l h => ⟨[], by simpa using h⟩

theorem ext_input (ws : Char → Bool) (inp : Input) : Ext (tokLines ws inp) (origLines inp) := by
  cases inp with
  | lines ls => exact Ext.refl ls
  | str t =>
    unfold Ext
    intro i l h
    simp only [tokLines, List.getElem?_map, Option.map_eq_some_iff] at h
    obtain ⟨o, ho, rfl⟩ := h
    obtain ⟨r, hr⟩ := rstrip_prefix ws o
    exact ⟨r, by simp only [origLines]; rw [ho, ← hr]⟩

/-! ## slices -/

theorem slice_append_left {α} (l r : List α) (a b : Nat) (h : b ≤ l.length) :
    slice (l ++ r) a b = slice l a b := by
  unfold slice
  rw [List.take_append_of_le_length h]

theorem slice_append_right {α} (p x : List α) (a b : Nat) :
    slice (p ++ x) (p.length + a) (p.length + b) = slice x a b := by
  unfold slice
  rw [List.take_append, List.drop_append]
  simp

/-! ## get_orig_text on well-formed spans -/

theorem getOrigText_sameLine {olines : List (List Char)} {i : Nat} {ol : List Char} {a b : Nat}
    (hl : olines[i]? = some ol) (hab : a ≤ b) (hb : b ≤ ol.length) :
    getOrigText Bases.std olines ⟨1 + i, a + 1⟩ ⟨1 + i, b + 1⟩ = .ok (slice ol a b) := by
  unfold getOrigText
  have h1 : (⟨1 + i, a + 1⟩ : Pos) ≤ ⟨1 + i, b + 1⟩ := by simp [Pos.le_def]; omega
  simp [h1, Bases.std, hl, hb]

theorem getOrigText_multi {olines : List (List Char)} {i j : Nat} {oi oj : List Char} {a b : Nat}
    (hij : i < j) (hi : olines[i]? = some oi) (hj : olines[j]? = some oj)
    (ha : a ≤ oi.length) (hb : b ≤ oj.length) :
    getOrigText Bases.std olines ⟨1 + i, a + 1⟩ ⟨1 + j, b + 1⟩ =
      .ok (joinNl ([oi.drop a] ++ slice olines (i + 1) j ++ [oj.take b])) := by
  unfold getOrigText
  have h1 : (⟨1 + i, a + 1⟩ : Pos) ≤ ⟨1 + j, b + 1⟩ := by simp [Pos.le_def]; omega
  have h2 : i ≠ j := by omega
  simp [h1, Bases.std, hi, hj, ha, hb, h2]

/-! ## get_orig_text returns a substring of the whole text -/

/-- the lines, each followed by its line break -/
def catNl : List (List Char) → List Char
  | [] => []
  | l :: ls => l ++ '\n' :: catNl ls

/-- offset of column `c` (0-based) of line `i` (0-based) in `"\n".join(lines)` -/
def offset (lines : List (List Char)) (i c : Nat) : Nat := (catNl (lines.take i)).length + c

theorem catNl_append (a b : List (List Char)) : catNl (a ++ b) = catNl a ++ catNl b := by
  induction a with
  | nil => rfl
  | cons l ls ih => simp [catNl, ih]

theorem joinNl_append (a b : List (List Char)) (hb : b ≠ []) : joinNl (a ++ b) = catNl a ++ joinNl b := by
  induction a with
  | nil => rfl
  | cons l ls ih =>
    rw [List.cons_append, joinNl_cons _ _ (by simp [hb]), ih]
    simp [catNl]

theorem joinNl_head (l : List Char) (ls : List (List Char)) : ∃ tail, joinNl (l :: ls) = l ++ tail := by
  cases ls with
  | nil => exact ⟨[], by simp [joinNl]⟩
  | cons a as => exact ⟨_, joinNl_cons _ _ (by simp)⟩

theorem split_at {lines : List (List Char)} {i : Nat} {l : List Char} (h : lines[i]? = some l) :
    lines = lines.take i ++ l :: lines.drop (i + 1) ∧ (lines.take i).length = i := by
  obtain ⟨hlt, hl⟩ := List.getElem?_eq_some_iff.mp h
  constructor
  · conv => lhs; rw [← List.take_append_drop i lines]
    rw [List.drop_eq_getElem_cons hlt, hl]
  · simp; omega

/-- same line: the slice of the line is the slice of the whole text between the two offsets -/
theorem flat_same {lines : List (List Char)} {i : Nat} {l : List Char} {a b : Nat}
    (hl : lines[i]? = some l) (hb : b ≤ l.length) :
    slice (joinNl lines) (offset lines i a) (offset lines i b) = slice l a b := by
  obtain ⟨hsplit, _⟩ := split_at hl
  obtain ⟨tail, ht⟩ := joinNl_head l (lines.drop (i + 1))
  unfold offset
  conv => lhs; arg 1; rw [hsplit, joinNl_append _ _ (by simp), ht]
  rw [slice_append_right, slice_append_left _ _ _ _ hb]

theorem split_at2 {lines : List (List Char)} {i j : Nat} {li lj : List Char} (hij : i < j)
    (hi : lines[i]? = some li) (hj : lines[j]? = some lj) :
    ∃ P M S, lines = P ++ li :: (M ++ lj :: S) ∧ lines.take i = P ∧ lines.take j = P ++ li :: M ∧
      slice lines (i + 1) j = M := by
  obtain ⟨h1, hlen⟩ := split_at hi
  have hj' : (lines.drop (i + 1))[j - (i + 1)]? = some lj := by
    rw [List.getElem?_drop]; rw [← hj]; congr 1; omega
  obtain ⟨h2, hlen2⟩ := split_at hj'
  generalize lines.take i = P at *
  generalize lines.drop (i + 1) = D at *
  generalize D.take (j - (i + 1)) = M at *
  generalize D.drop (j - (i + 1) + 1) = S at *
  have htake : lines.take j = P ++ li :: M := by
    have e : j - P.length = (M.length + 1) := by omega
    rw [h1, List.take_append, List.take_of_length_le (by omega), e, List.take_succ_cons, h2]
    simp
  refine ⟨P, M, S, by rw [h1, h2], rfl, htake, ?_⟩
  unfold slice
  rw [htake, List.drop_append, List.drop_of_length_le (by omega)]
  have e : i + 1 - P.length = 1 := by omega
  rw [e]; simp

theorem catNl_length_cons (l : List Char) (ls : List (List Char)) :
    (catNl (l :: ls)).length = l.length + 1 + (catNl ls).length := by
  simp [catNl]; omega

/-- several lines: the region `get_orig_text` assembles is the slice of the whole text between the
two offsets -/
theorem flat_multi {lines : List (List Char)} {i j : Nat} {li lj : List Char} {a b : Nat} (hij : i < j)
    (hi : lines[i]? = some li) (hj : lines[j]? = some lj) (ha : a ≤ li.length) (hb : b ≤ lj.length) :
    slice (joinNl lines) (offset lines i a) (offset lines j b) =
      joinNl ([li.drop a] ++ slice lines (i + 1) j ++ [lj.take b]) := by
  obtain ⟨P, M, S, h1, h2, h3, h4⟩ := split_at2 hij hi hj
  obtain ⟨tail, ht⟩ := joinNl_head lj S
  unfold offset
  rw [h2, h3, h4]
  have hflat : joinNl lines = catNl P ++ ((li ++ '\n' :: catNl M) ++ (lj ++ tail)) := by
    rw [h1, joinNl_append _ _ (by simp), joinNl_cons _ _ (by simp), joinNl_append _ _ (by simp), ht]
    simp
  have hoff : (catNl (P ++ li :: M)).length + b = (catNl P).length + ((li ++ '\n' :: catNl M).length + b) := by
    rw [catNl_append, List.length_append, catNl_length_cons]; simp; omega
  rw [hflat, hoff, slice_append_right]
  have hr : joinNl ([li.drop a] ++ M ++ [lj.take b]) = li.drop a ++ '\n' :: (catNl M ++ lj.take b) := by
    rw [List.append_assoc, List.singleton_append, joinNl_cons _ _ (by simp), joinNl_append _ _ (by simp)]
    simp [joinNl]
  rw [hr]
  unfold slice
  rw [List.take_append, List.take_of_length_le (by omega)]
  have e : (li ++ '\n' :: catNl M).length + b - (li ++ '\n' :: catNl M).length = b := by omega
  rw [e, List.take_append_of_le_length hb, List.append_assoc, List.drop_append_of_le_length ha]
  simp


/-- `get_orig_text` of a span that lies inside the text is exactly the text between the two
positions: the slice of `"\n".join(lines)` between the character offsets of start and end -/
theorem getOrigText_flat {lines : List (List Char)} {i j : Nat} {li lj : List Char} {a b : Nat}
    (hi : lines[i]? = some li) (hj : lines[j]? = some lj) (ha : a ≤ li.length) (hb : b ≤ lj.length)
    (hle : i < j ∨ (i = j ∧ a ≤ b)) :
    getOrigText Bases.std lines ⟨1 + i, a + 1⟩ ⟨1 + j, b + 1⟩ =
      .ok (slice (joinNl lines) (offset lines i a) (offset lines j b)) := by
  rcases hle with h | ⟨rfl, hab⟩
  · rw [getOrigText_multi h hi hj ha hb, flat_multi h hi hj ha hb]
  · rw [hi] at hj; cases hj
    rw [getOrigText_sameLine hi hab hb, flat_same hi hb]

end SrcPos
