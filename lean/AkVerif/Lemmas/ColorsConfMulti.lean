import AkVerif.Lemmas.ColorsConfGlobal
/-!
Lemmas for C14, seventh part: several configurations taking turns as the global one (model part 7).

* a registration into a configuration that is not the current global one does not touch the synced palettes,
  the global index or any other configuration (`stepM_on_inert`);
* invariant `MInv`: every configuration is `CGood`, and the synced palettes are `Fresh` with respect to the
  configuration that is the global one *now* (`runM_inv`).
-/
namespace ColorsConf
open Ak

theorem stepG_glob {classes : List ClassDef} {g g' : GWorld} {o : Op} {r : Option Snap} (hi : GInv classes g)
    (h : stepG classes g (.op o) = .ok (g', r)) : g'.isGlobal = g.isGlobal := by
  cases o with
  | add items =>
    simp only [stepG] at h
    cases h1 : addWith (syncTop classes) g items with
    | error e => simp [h1] at h
    | ok g1 =>
      simp [h1] at h
      obtain ⟨hw, _⟩ := h; subst hw
      exact (addWith_step (fun g g' hg hs => syncTop_spec hg hs) hi.good h1).glob
  | reg name cfg =>
    simp only [stepG] at h
    cases h1 : regCompWith (syncTop classes) g cfg (.name name) with
    | error e => simp [h1] at h
    | ok g1 =>
      simp [h1] at h
      obtain ⟨hw, _⟩ := h; subst hw
      exact (regCompWith_step (fun g g' hg hs => syncTop_spec hg hs) hi.good h1).glob
  | pal k nc =>
    simp only [stepG] at h
    cases h1 : getPaletteG classes g k nc with
    | error e => simp [h1] at h
    | ok gs =>
      obtain ⟨g1, s1⟩ := gs
      simp [h1] at h
      obtain ⟨hw, _⟩ := h; subst hw
      exact (getPaletteG_spec hi h1).2.2.1
  | get id =>
    simp [stepG] at h
    obtain ⟨hw, _⟩ := h; subst hw; rfl

/-- **a registration into a configuration that is not the global one is inert for the synced palettes** -/
theorem stepM_on_inert {classes : List ClassDef} {m m' : MWorld} {i : Nat} {o : Op} {r : Option Snap}
    (h : stepM classes m (.on i o) = .ok (m', r)) (hng : m.glob ≠ some i) :
    m'.synced = m.synced ∧ m'.glob = m.glob ∧ ∀ j, j ≠ i → m'.confs[j]? = m.confs[j]? := by
  simp only [stepM] at h
  cases hc : m.confs[i]? with
  | none => simp [hc] at h
  | some c =>
    simp only [hc] at h
    have hoff : (viewOf m i c).isGlobal = false := by simp [viewOf, hng]
    rw [stepG_off hoff] at h
    cases h1 : stepOp classes (viewOf m i c).w o with
    | error e => simp [h1, mapE] at h
    | ok wo =>
      obtain ⟨w1, o1⟩ := wo
      simp [h1, mapE] at h
      obtain ⟨hm, _⟩ := h
      subst hm
      refine ⟨rfl, rfl, fun j hj => ?_⟩
      simp only [putBack, liftW]
      rw [List.getElem?_set_ne (Ne.symm hj)]

/-- every synced palette shows the configuration that is the global one now -/
def MFresh (classes : List ClassDef) (m : MWorld) : Prop :=
  ∀ j c, m.glob = some j → m.confs[j]? = some c →
    ∀ k s, cacheGet m.synced k = some s → ∃ cd, classes[k]? = some cd ∧ s = snapOf c cd.accessors

structure MInv (classes : List ClassDef) (m : MWorld) : Prop where
  confs : ∀ (i : Nat) (c : Conf), m.confs[i]? = some c → CGood classes c
  nc : NcOK classes m.ncCache
  fresh : MFresh classes m
  globOK : ∀ j, m.glob = some j → j < m.confs.length

theorem MInv.view {classes : List ClassDef} {m : MWorld} (hi : MInv classes m) {i : Nat} {c : Conf}
    (hc : m.confs[i]? = some c) : GInv classes (viewOf m i c) := by
  refine ⟨⟨hi.confs i c hc, hi.nc⟩, fun hg => ?_⟩
  have : m.glob = some i := by simpa [viewOf] using hg
  exact fun k s hk => hi.fresh i c this hc k s hk

theorem lt_of_getElem? {α : Type} {l : List α} {i : Nat} {x : α} (h : l[i]? = some x) : i < l.length := by
  cases Nat.lt_or_ge i l.length with
  | inl h' => exact h'
  | inr h' => simp [List.getElem?_eq_none h'] at h

theorem getElem?_set_self' {α : Type} {l : List α} {i : Nat} {a x : α} (h : l[i]? = some x) :
    (l.set i a)[i]? = some a := by
  simp [lt_of_getElem? h]

/-- putting the result of an operation on the view of configuration `i` back -/
theorem putBack_inv {classes : List ClassDef} {m : MWorld} (hi : MInv classes m) {i : Nat} {c : Conf}
    (hc : m.confs[i]? = some c) {g' : GWorld} (hg' : GInv classes g')
    (hglob : m.glob = some i → g'.isGlobal = true)
    (hsame : m.glob ≠ some i → g'.synced = m.synced) : MInv classes (putBack m i g') := by
  refine ⟨?_, hg'.good.nc, ?_, ?_⟩
  · intro j cj hj
    simp only [putBack] at hj
    by_cases hji : i = j
    · subst hji
      rw [getElem?_set_self' hc] at hj
      cases hj
      exact hg'.good.conf
    · rw [List.getElem?_set_ne hji] at hj
      exact hi.confs j cj hj
  · intro j cj hgj hj k s hk
    simp only [putBack] at hgj hj hk
    by_cases hji : i = j
    · subst hji
      rw [getElem?_set_self' hc] at hj
      cases hj
      exact hg'.fresh (hglob hgj) k s hk
    · rw [List.getElem?_set_ne hji] at hj
      have hne : m.glob ≠ some i := by
        rw [hgj]; intro h; cases h; exact hji rfl
      rw [hsame hne] at hk
      exact hi.fresh j cj hgj hj k s hk
  · intro j hj
    simp only [putBack, List.length_set] at hj ⊢
    exact hi.globOK j hj

/-- an operation of part 4 on the view of configuration `i`, written back -/
theorem on_view_op {classes : List ClassDef} {m : MWorld} (hi : MInv classes m) {i : Nat} {c : Conf}
    (hc : m.confs[i]? = some c) {o : Op} {g' : GWorld} {r : Option Snap}
    (h : stepG classes (viewOf m i c) (.op o) = .ok (g', r)) : MInv classes (putBack m i g') := by
  have hv := hi.view hc
  obtain ⟨hg', _⟩ := stepG_inv hv h
  refine putBack_inv hi hc hg' (fun hgl => ?_) (fun hng => ?_)
  · rw [stepG_glob hv h]; simp [viewOf, hgl]
  · have hoff : (viewOf m i c).isGlobal = false := by simp [viewOf, hng]
    rw [stepG_off hoff] at h
    cases h1 : stepOp classes (viewOf m i c).w o with
    | error e => simp [h1, mapE] at h
    | ok wo =>
      obtain ⟨w1, o1⟩ := wo
      simp [h1, mapE] at h
      obtain ⟨hm, _⟩ := h
      subst hm
      rfl

/-- a synced palette created from the configuration that is the global one -/
theorem on_view_syn {classes : List ClassDef} {m : MWorld} (hi : MInv classes m) {i : Nat} {c : Conf}
    (hc : m.confs[i]? = some c) (hgl : m.glob = some i) {k : Nat} {g' : GWorld} {r : Option Snap}
    (h : stepG classes (viewOf m i c) (.syn k) = .ok (g', r)) : MInv classes (putBack m i g') := by
  have hv := hi.view hc
  obtain ⟨hg', _⟩ := stepG_inv hv h
  refine putBack_inv hi hc hg' (fun _ => ?_) (fun hng => absurd hgl hng)
  have hglv : (viewOf m i c).isGlobal = true := by simp [viewOf, hgl]
  simp only [stepG] at h
  cases hcg : cacheGet (viewOf m i c).synced k with
  | some s0 => simp [hcg] at h; obtain ⟨hw, _⟩ := h; subst hw; exact hglv
  | none =>
    simp only [hcg] at h
    cases hcd : classes[k]? with
    | none => simp [hcd] at h
    | some cd =>
      simp only [hcd, hglv, Bool.not_true, Bool.false_eq_true, if_false] at h
      cases h1 : registerClassG classes (gFuel classes) (viewOf m i c) k with
      | error e => simp [h1] at h
      | ok g1 =>
        simp [h1] at h
        obtain ⟨hw, _⟩ := h; subst hw
        exact (registerClassG_step _ _ _ g1 hv.good h1).glob.trans hglv

theorem stepM_inv {classes : List ClassDef} {m m' : MWorld} {op : MOp} {r : Option Snap}
    (hi : MInv classes m) (h : stepM classes m op = .ok (m', r)) : MInv classes m' := by
  cases op with
  | new nc cfg =>
    simp only [stepM] at h
    cases h1 : newConf nc cfg with
    | error e => simp [h1] at h
    | ok c =>
      simp [h1] at h
      obtain ⟨hm, _⟩ := h; subst hm
      obtain ⟨hgc, _, _⟩ := newConf_good (classes := classes) h1
      refine ⟨?_, hi.nc, ?_, ?_⟩
      · intro j cj hj
        simp only at hj
        rw [List.getElem?_append] at hj
        split at hj
        · exact hi.confs j cj hj
        · have : cj ∈ [c] := List.mem_of_getElem? hj
          simp at this; rw [this]; exact hgc
      · intro j cj hgj hj k s hk
        simp only at hgj hj hk
        rw [List.getElem?_append, if_pos (hi.globOK j hgj)] at hj
        exact hi.fresh j cj hgj hj k s hk
      · intro j hj
        simp only [List.length_append, List.length_cons, List.length_nil] at hj ⊢
        have := hi.globOK j hj
        omega
  | on i o =>
    simp only [stepM] at h
    cases hc : m.confs[i]? with
    | none => simp [hc] at h
    | some c =>
      simp only [hc] at h
      cases h1 : stepG classes (viewOf m i c) (.op o) with
      | error e => simp [h1] at h
      | ok gs =>
        obtain ⟨g', s⟩ := gs
        simp [h1] at h
        obtain ⟨hm, _⟩ := h; subst hm
        exact on_view_op hi hc h1
  | setGlobal i =>
    simp only [stepM] at h
    cases hc : m.confs[i]? with
    | none => simp [hc] at h
    | some c =>
      simp only [hc] at h
      cases h1 : stepG classes (viewOf m i c) .setGlobal with
      | error e => simp [h1] at h
      | ok gs =>
        obtain ⟨g', s⟩ := gs
        simp [h1] at h
        obtain ⟨hm, _⟩ := h; subst hm
        have hv := hi.view hc
        obtain ⟨hg', _⟩ := stepG_inv hv h1
        have hglob : g'.isGlobal = true := by
          simp only [stepG] at h1
          cases h2 : syncTop classes { viewOf m i c with isGlobal := true } with
          | error e => simp [h2] at h1
          | ok g1 =>
            simp [h2] at h1
            obtain ⟨hw, _⟩ := h1; subst hw
            exact (syncTop_spec (g := { viewOf m i c with isGlobal := true }) hv.good h2).2.2.1
        refine ⟨?_, hg'.good.nc, ?_, ?_⟩
        · intro j cj hj
          simp only [putBack] at hj
          by_cases hji : i = j
          · subst hji
            rw [getElem?_set_self' hc] at hj
            cases hj
            exact hg'.good.conf
          · rw [List.getElem?_set_ne hji] at hj
            exact hi.confs j cj hj
        · intro j cj hgj hj k s' hk
          simp only [putBack] at hgj hj hk
          cases hgj
          rw [getElem?_set_self' hc] at hj
          cases hj
          exact hg'.fresh hglob k s' hk
        · intro j hj
          simp only [putBack, List.length_set] at hj ⊢
          cases hj
          exact lt_of_getElem? hc
  | syn k =>
    simp only [stepM] at h
    cases hgl : m.glob with
    | some j =>
      simp only [hgl] at h
      cases hc : m.confs[j]? with
      | none => simp [hc] at h
      | some c =>
        simp only [hc] at h
        cases h1 : stepG classes (viewOf m j c) (.syn k) with
        | error e => simp [h1] at h
        | ok gs =>
          obtain ⟨g', s⟩ := gs
          simp [h1] at h
          obtain ⟨hm, _⟩ := h; subst hm
          exact on_view_syn hi hc hgl h1
    | none =>
      simp only [hgl] at h
      cases h1 : stepG classes ⟨⟨⟨false, [], [], []⟩, m.ncCache⟩, false, m.synced⟩ (.syn k) with
      | error e => simp [h1] at h
      | ok gs =>
        obtain ⟨g', s⟩ := gs
        simp [h1] at h
        obtain ⟨hm, _⟩ := h; subst hm
        exact ⟨hi.confs, hi.nc, fun j c hj => by simp at hj, fun j hj => by simp at hj⟩
  | sget k =>
    simp only [stepM] at h
    cases hc : cacheGet m.synced k with
    | some s0 => simp [hc] at h; obtain ⟨hm, _⟩ := h; subst hm; exact hi
    | none => simp [hc] at h

theorem runM_inv {classes : List ClassDef} : ∀ (ops : List MOp) (m m' : MWorld),
    MInv classes m → runM classes m ops = .ok m' → MInv classes m' := by
  intro ops
  induction ops with
  | nil => intro m m' hi h; simp [runM] at h; subst h; exact hi
  | cons op ops ih =>
    intro m m' hi h
    unfold runM at h
    cases h1 : stepM classes m op with
    | error e => simp [h1] at h
    | ok mo =>
      obtain ⟨m1, o⟩ := mo
      simp [h1] at h
      exact ih m1 m' (stepM_inv hi h1) h

theorem minv_empty (classes : List ClassDef) : MInv classes ⟨[], [], none, []⟩ :=
  ⟨fun i c h => by simp at h, fun k s h => by simp [cacheGet] at h, fun j c h => by simp at h,
   fun j h => by simp at h⟩

/-! ### a case with one configuration is a case of part 6 -/

def liftOp : GOp → MOp
  | .op o => .on 0 o
  | .setGlobal => .setGlobal 0
  | .syn k => .syn k
  | .sget k => .sget k

/-- the state of part 6 as a state with one configuration -/
def toM (g : GWorld) : MWorld := ⟨[g.w.conf], g.w.ncCache, if g.isGlobal then some 0 else none, g.synced⟩

theorem viewOf_toM (g : GWorld) : viewOf (toM g) 0 g.w.conf = g := by
  obtain ⟨⟨c, n⟩, b, s⟩ := g
  cases b <;> simp [viewOf, toM]

theorem putBack_toM {g g' : GWorld} (h : g'.isGlobal = g.isGlobal) : putBack (toM g) 0 g' = toM g' := by
  simp [putBack, toM, h]

theorem stepG_setGlobal_glob {classes : List ClassDef} {g g' : GWorld} {r : Option Snap} (hi : GInv classes g)
    (h : stepG classes g .setGlobal = .ok (g', r)) : g'.isGlobal = true := by
  simp only [stepG] at h
  cases h2 : syncTop classes { g with isGlobal := true } with
  | error e => simp [h2] at h
  | ok g1 =>
    simp [h2] at h
    obtain ⟨hw, _⟩ := h; subst hw
    exact (syncTop_spec (g := { g with isGlobal := true }) hi.good h2).2.2.1

theorem stepM_single {classes : List ClassDef} {g : GWorld} (hi : GInv classes g) (op : GOp) :
    stepM classes (toM g) (liftOp op) = mapE (fun gr => (toM gr.1, gr.2)) (stepG classes g op) := by
  cases op with
  | op o =>
    simp only [liftOp, stepM]
    have : (toM g).confs[0]? = some g.w.conf := by simp [toM]
    simp only [this, viewOf_toM]
    cases h1 : stepG classes g (.op o) with
    | error e => rfl
    | ok gr =>
      obtain ⟨g', r⟩ := gr
      simp only [mapE]
      rw [putBack_toM (stepG_glob hi h1)]
  | setGlobal =>
    simp only [liftOp, stepM]
    have : (toM g).confs[0]? = some g.w.conf := by simp [toM]
    simp only [this, viewOf_toM]
    cases h1 : stepG classes g .setGlobal with
    | error e => rfl
    | ok gr =>
      obtain ⟨g', r⟩ := gr
      have hg := stepG_setGlobal_glob hi h1
      simp [mapE, putBack, toM, hg]
  | syn k =>
    simp only [liftOp, stepM]
    cases hgl : g.isGlobal with
    | true =>
      have hglob : (toM g).glob = some 0 := by simp [toM, hgl]
      have : (toM g).confs[0]? = some g.w.conf := by simp [toM]
      simp only [hglob, this, viewOf_toM]
      cases h1 : stepG classes g (.syn k) with
      | error e => rfl
      | ok gr =>
        obtain ⟨g', r⟩ := gr
        simp only [mapE]
        have hg' : g'.isGlobal = g.isGlobal := by
          simp only [stepG] at h1
          cases hcg : cacheGet g.synced k with
          | some s0 => simp [hcg] at h1; obtain ⟨hw, _⟩ := h1; subst hw; rfl
          | none =>
            simp only [hcg] at h1
            cases hcd : classes[k]? with
            | none => simp [hcd] at h1
            | some cd =>
              simp only [hcd, hgl, Bool.not_true, Bool.false_eq_true, if_false] at h1
              cases h2 : registerClassG classes (gFuel classes) g k with
              | error e => simp [h2] at h1
              | ok g1 =>
                simp [h2] at h1
                obtain ⟨hw, _⟩ := h1; subst hw
                exact (registerClassG_step _ _ _ g1 hi.good h2).glob
        rw [putBack_toM hg']
    | false =>
      have hglob : (toM g).glob = none := by simp [toM, hgl]
      simp only [hglob]
      have hs : (toM g).synced = g.synced := rfl
      simp only [stepG, hs]
      cases hcg : cacheGet g.synced k with
      | some s0 => simp [mapE, toM, hgl]
      | none =>
        simp only
        cases hcd : classes[k]? with
        | none => rfl
        | some cd => simp [mapE, toM, hgl]
  | sget k =>
    simp only [liftOp, stepM, stepG, toM]
    cases hcg : cacheGet g.synced k <;> rfl

theorem runM_single {classes : List ClassDef} : ∀ (ops : List GOp) (g : GWorld), GInv classes g →
    runM classes (toM g) (ops.map liftOp) = mapE toM (runG classes g ops) := by
  intro ops
  induction ops with
  | nil => intro g _; rfl
  | cons op ops ih =>
    intro g hi
    simp only [List.map_cons]
    unfold runM runG
    rw [stepM_single hi]
    cases h1 : stepG classes g op with
    | error e => rfl
    | ok gr =>
      obtain ⟨g1, r⟩ := gr
      simp only [mapE]
      exact ih g1 (stepG_inv hi h1).1

/-! ### an operation touches only the configuration it is aimed at -/

/-- the configuration an operation can modify -/
def opTarget (m : MWorld) : MOp → Option Nat
  | .on j _ => some j
  | .setGlobal j => some j
  | .syn _ => m.glob
  | .new _ _ => none
  | .sget _ => none

theorem stepM_other_conf {classes : List ClassDef} {m m' : MWorld} {op : MOp} {r : Option Snap} {i : Nat} {c : Conf}
    (h : stepM classes m op = .ok (m', r)) (ht : opTarget m op ≠ some i) (hc : m.confs[i]? = some c) :
    m'.confs[i]? = some c := by
  cases op with
  | new nc cfg =>
    simp only [stepM] at h
    cases h1 : newConf nc cfg with
    | error e => simp [h1] at h
    | ok c1 =>
      simp [h1] at h
      obtain ⟨hm, _⟩ := h; subst hm
      simp only
      rw [List.getElem?_append, if_pos (lt_of_getElem? hc)]
      exact hc
  | on j o =>
    have hji : j ≠ i := fun e => ht (by simp [opTarget, e])
    simp only [stepM] at h
    cases hcj : m.confs[j]? with
    | none => simp [hcj] at h
    | some cj =>
      simp only [hcj] at h
      cases h1 : stepG classes (viewOf m j cj) (.op o) with
      | error e => simp [h1] at h
      | ok gs =>
        obtain ⟨g', s⟩ := gs
        simp [h1] at h
        obtain ⟨hm, _⟩ := h; subst hm
        simp only [putBack]
        rw [List.getElem?_set_ne hji]; exact hc
  | setGlobal j =>
    have hji : j ≠ i := fun e => ht (by simp [opTarget, e])
    simp only [stepM] at h
    cases hcj : m.confs[j]? with
    | none => simp [hcj] at h
    | some cj =>
      simp only [hcj] at h
      cases h1 : stepG classes (viewOf m j cj) .setGlobal with
      | error e => simp [h1] at h
      | ok gs =>
        obtain ⟨g', s⟩ := gs
        simp [h1] at h
        obtain ⟨hm, _⟩ := h; subst hm
        simp only [putBack]
        rw [List.getElem?_set_ne hji]; exact hc
  | syn k =>
    simp only [stepM] at h
    cases hgl : m.glob with
    | some j =>
      have hji : j ≠ i := fun e => ht (by simp [opTarget, hgl, e])
      simp only [hgl] at h
      cases hcj : m.confs[j]? with
      | none => simp [hcj] at h
      | some cj =>
        simp only [hcj] at h
        cases h1 : stepG classes (viewOf m j cj) (.syn k) with
        | error e => simp [h1] at h
        | ok gs =>
          obtain ⟨g', s⟩ := gs
          simp [h1] at h
          obtain ⟨hm, _⟩ := h; subst hm
          simp only [putBack]
          rw [List.getElem?_set_ne hji]; exact hc
    | none =>
      simp only [hgl] at h
      cases h1 : stepG classes ⟨⟨⟨false, [], [], []⟩, m.ncCache⟩, false, m.synced⟩ (.syn k) with
      | error e => simp [h1] at h
      | ok gs =>
        obtain ⟨g', s⟩ := gs
        simp [h1] at h
        obtain ⟨hm, _⟩ := h; subst hm
        exact hc
  | sget k =>
    simp only [stepM] at h
    cases hcg : cacheGet m.synced k with
    | some s0 => simp [hcg] at h; obtain ⟨hm, _⟩ := h; subst hm; exact hc
    | none => simp [hcg] at h

end ColorsConf
