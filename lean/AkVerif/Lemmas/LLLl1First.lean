import AkVerif.Lemmas.LLLl1Defs
/-!
FIRST of the factorised dictionary `G` is contained in FIRST of the user's dictionary `U`
(`FactRelD U G S`, `S` the helper symbols, `T` the terminals, `NU` / `NG` the computed nullable sets).

* `first_sub`          — `First G T NG s t → FirstU U G S T NU s t` (`First.least` on `G`),
* `first_sub_user`     — for `X ∉ S`: `First G T NG X t → First U T NU X t`,
* `first_sub_helper`   — for `h ∈ S`: some flattened expansion of `h` has `t` in its FIRST over `U`,
* `firstSeq_sub`       — sequences of non-helper symbols,
* `firstSeq_rule_sub`  — a right-hand side of `G` (its last symbol may be a helper),
* `firstSeq_flat_sub`  — the same, packaged as a flattened expansion of the left-hand side,
* `nullIn_sub`, `null_helper_sub` — the nullable analogues.

Besides `FactRelD` and the two `nullables` equations the proofs use `hST` (helpers are not terminals)
and `hprod` (every helper symbol has a flattened expansion; established for the result of `factorize`
in `LLTransfer2.lean`).  Both are needed: a helper that is a terminal contributes itself to FIRST in `G`
but not in `U`; a rule of `G` ending in a helper without expansion has no counterpart in `U`.
-/
set_option linter.unusedSectionVars false
namespace LL
open Ak

/-! ### `FirstInM` on `cons` and `++` -/

theorem l1f_cons {σ : Type} [DecidableEq σ] {T N : List σ} {M : σ → σ → Prop} {s t : σ} {rest : List σ} :
    FirstInM T N M (s :: rest) t ↔
      ((s ∈ T ∧ t = s) ∨ (s ∉ T ∧ (M s t ∨ (s ∈ N ∧ FirstInM T N M rest t)))) := by
  rw [FirstInM]

theorem l1f_nil {σ : Type} [DecidableEq σ] {T N : List σ} {M : σ → σ → Prop} {t : σ} :
    ¬ FirstInM T N M [] t := by
  rw [FirstInM]; exact id

theorem l1f_nullIn_cons {σ : Type} [DecidableEq σ] {T N : List σ} {x : σ} {a : List σ} :
    NullIn T N (x :: a) ↔ (x ∉ T ∧ x ∈ N) ∧ NullIn T N a := by
  unfold NullIn
  exact List.forall_mem_cons

theorem l1f_append {σ : Type} [DecidableEq σ] {T N : List σ} {M : σ → σ → Prop} {t : σ} (b : List σ) :
    ∀ a : List σ, FirstInM T N M (a ++ b) t ↔
      FirstInM T N M a t ∨ (NullIn T N a ∧ FirstInM T N M b t)
  | [] => by
    rw [List.nil_append]
    constructor
    · exact fun h => Or.inr ⟨fun s hs => by simp at hs, h⟩
    · rintro (h | h)
      · exact absurd h l1f_nil
      · exact h.2
  | x :: a => by
    rw [List.cons_append, l1f_cons, l1f_cons, l1f_append b a, l1f_nullIn_cons]
    constructor
    · rintro (h | ⟨h1, h2 | ⟨hn, h3 | ⟨h3, h4⟩⟩⟩)
      · exact Or.inl (Or.inl h)
      · exact Or.inl (Or.inr ⟨h1, Or.inl h2⟩)
      · exact Or.inl (Or.inr ⟨h1, Or.inr ⟨hn, h3⟩⟩)
      · exact Or.inr ⟨⟨⟨h1, hn⟩, h3⟩, h4⟩
    · rintro ((h | ⟨h1, h2 | ⟨hn, h3⟩⟩) | ⟨⟨⟨h1, hn⟩, h3⟩, h4⟩)
      · exact Or.inl h
      · exact Or.inr ⟨h1, Or.inl h2⟩
      · exact Or.inr ⟨h1, Or.inr ⟨hn, Or.inl h3⟩⟩
      · exact Or.inr ⟨h1, Or.inr ⟨hn, Or.inr ⟨h3, h4⟩⟩⟩

section L1First
variable {U G : Prods Sym} {S T NU NG : List Sym}

/-- what FIRST of a symbol of `G` means on the user's side -/
def FirstU (U G : Prods Sym) (S T NU : List Sym) (s t : Sym) : Prop :=
  (s ∉ S → First U T NU s t) ∧ (s ∈ S → ∃ e, FlatD G S s e ∧ FirstSeq U T NU e t)

/-! ### nullable analogues -/

/-- a `G`-nullable sequence of non-helper symbols is `U`-nullable -/
theorem nullIn_sub (hR : FactRelD U G S) (hNU : nullables U = .ok NU) (hNG : nullables G = .ok NG)
    {e : List Sym} (hn : NullIn T NG e) (he : ∀ x ∈ e, x ∉ S) : NullIn T NU e :=
  fun x hx => ⟨(hn x hx).1, (nullables_transfer hR hNU hNG x (he x hx)).1 (hn x hx).2⟩

/-- a `G`-nullable symbol (in particular a helper) has a flattened expansion made of `U`-nullable symbols -/
theorem null_helper_sub (hR : FactRelD U G S) (hNU : nullables U = .ok NU) (hNG : nullables G = .ok NG)
    {h : Sym} (hn : h ∈ NG) : ∃ e, FlatD G S h e ∧ ∀ x ∈ e, x ∈ NU :=
  nullables_least hNG (fun s => ∃ e, FlatD G S s e ∧ ∀ x ∈ e, x ∈ NU) (tr_null_closed hR hNU) h hn

/-! ### sequences, for an arbitrary relation `M` that means `First U` on non-helpers -/

theorem l1f_seq (hR : FactRelD U G S) (hNU : nullables U = .ok NU) (hNG : nullables G = .ok NG)
    {M : Sym → Sym → Prop} {t : Sym} (hM1 : ∀ x, x ∉ S → M x t → First U T NU x t) :
    ∀ e : List Sym, (∀ x ∈ e, x ∉ S) → FirstInM T NG M e t → FirstSeq U T NU e t
  | [], _, h => absurd h l1f_nil
  | x :: rest, he, h => by
    unfold FirstSeq
    rw [l1f_cons] at h ⊢
    have hx : x ∉ S := he x (by simp)
    rcases h with h | ⟨h1, h2 | ⟨hn, h3⟩⟩
    · exact Or.inl h
    · exact Or.inr ⟨h1, Or.inl (hM1 x hx h2)⟩
    · exact Or.inr ⟨h1, Or.inr ⟨(nullables_transfer hR hNU hNG x hx).1 hn,
        l1f_seq hR hNU hNG hM1 rest (fun y hy => he y (List.mem_cons_of_mem _ hy)) h3⟩⟩

/-- a right-hand side of `G`, for an arbitrary relation `M` that means `First U` on non-helpers and
"some expansion has `t` in FIRST" on helpers -/
theorem l1f_rule (hR : FactRelD U G S) (hNU : nullables U = .ok NU) (hNG : nullables G = .ok NG)
    (hST : ∀ s ∈ S, s ∉ T) (hprod : ∀ s ∈ S, ∃ e, FlatD G S s e)
    {M : Sym → Sym → Prop} {t : Sym} (hM1 : ∀ x, x ∉ S → M x t → First U T NU x t)
    (hM2 : ∀ h, h ∈ S → M h t → ∃ e, FlatD G S h e ∧ FirstSeq U T NU e t)
    {k : Sym} {p : List Sym} (hp : p ∈ gramRules G k) (h : FirstInM T NG M p t) :
    ((∀ l, p.getLast? = some l → l ∉ S) ∧ FirstSeq U T NU p t) ∨
    (∃ pre h', p = pre ++ [h'] ∧ h' ∈ S ∧ ∃ e, FlatD G S h' e ∧ FirstSeq U T NU (pre ++ e) t) := by
  obtain ⟨rules, hm, r, hr, hrp⟩ := mem_gramRules.1 hp
  have hinner : ∀ x ∈ p.dropLast, x ∉ S := by
    rw [← hrp]; exact hR.inner k rules hm r hr
  rcases hl : p.getLast? with _ | l
  · rw [List.getLast?_eq_none_iff.1 hl] at h
    exact absurd h l1f_nil
  · have hsplit : p.dropLast ++ [l] = p := tr_split_last hl
    by_cases hlS : l ∈ S
    · right
      refine ⟨p.dropLast, l, hsplit.symm, hlS, ?_⟩
      have h' : FirstInM T NG M (p.dropLast ++ [l]) t := by rw [hsplit]; exact h
      rcases (l1f_append [l] p.dropLast).1 h' with h1 | ⟨hn, h2⟩
      · obtain ⟨e, he⟩ := hprod l hlS
        exact ⟨e, he, (l1f_append e _).2 (Or.inl (l1f_seq hR hNU hNG hM1 _ hinner h1))⟩
      · rw [l1f_cons] at h2
        rcases h2 with ⟨hT, _⟩ | ⟨_, h2 | ⟨_, hF⟩⟩
        · exact absurd hT (hST l hlS)
        · obtain ⟨e, he, hf⟩ := hM2 l hlS h2
          exact ⟨e, he, (l1f_append e _).2 (Or.inr ⟨nullIn_sub hR hNU hNG hn hinner, hf⟩)⟩
        · exact absurd hF l1f_nil
    · left
      refine ⟨?_, ?_⟩
      · intro l' hl'
        have e : l = l' := by simpa using hl'
        rw [← e]; exact hlS
      · refine l1f_seq hR hNU hNG hM1 p ?_ h
        intro x hx
        rw [← hsplit] at hx
        rcases List.mem_append.1 hx with hx | hx
        · exact hinner x hx
        · rw [List.mem_singleton.1 hx]; exact hlS

/-- … packaged: some flattened expansion of the left-hand side has `t` in its FIRST over `U` -/
theorem l1f_flat (hR : FactRelD U G S) (hNU : nullables U = .ok NU) (hNG : nullables G = .ok NG)
    (hST : ∀ s ∈ S, s ∉ T) (hprod : ∀ s ∈ S, ∃ e, FlatD G S s e)
    {M : Sym → Sym → Prop} {t : Sym} (hM1 : ∀ x, x ∉ S → M x t → First U T NU x t)
    (hM2 : ∀ h, h ∈ S → M h t → ∃ e, FlatD G S h e ∧ FirstSeq U T NU e t)
    {k : Sym} {p : List Sym} (hp : p ∈ gramRules G k) (h : FirstInM T NG M p t) :
    ∃ e, FlatD G S k e ∧ FirstSeq U T NU e t := by
  rcases l1f_rule hR hNU hNG hST hprod hM1 hM2 hp h with ⟨hlast, hf⟩ | ⟨pre, h', hpe, hS, e, he, hf⟩
  · exact ⟨p, FlatD.base hp hlast, hf⟩
  · exact ⟨pre ++ e, FlatD.step (by rw [← hpe]; exact hp) hS he, hf⟩

/-- `FirstU` is closed under the rules of `G` -/
theorem l1f_closed (hR : FactRelD U G S) (hNU : nullables U = .ok NU) (hNG : nullables G = .ok NG)
    (hST : ∀ s ∈ S, s ∉ T) (hprod : ∀ s ∈ S, ∃ e, FlatD G S s e) :
    ∀ X rules, (X, rules) ∈ G → ∀ r ∈ rules, ∀ t,
      FirstInM T NG (FirstU U G S T NU) r.rhs t → FirstU U G S T NU X t := by
  intro X rules hm r hr t h
  have hp : r.rhs ∈ gramRules G X := mem_gramRules.2 ⟨rules, hm, r, hr, rfl⟩
  obtain ⟨e, he, hf⟩ := l1f_flat hR hNU hNG hST hprod (M := FirstU U G S T NU)
    (fun x hx hx' => hx'.1 hx) (fun x hx hx' => hx'.2 hx) hp h
  refine ⟨fun hX => ?_, fun _ => ⟨e, he, hf⟩⟩
  obtain ⟨rules', hm', r', hr', hrp'⟩ := mem_gramRules.1 (hR.flatIn X hX e he)
  exact First.closed hm' hr' (by rw [hrp']; exact hf)

/-! ### the main statements -/

theorem first_sub (hR : FactRelD U G S) (hNU : nullables U = .ok NU) (hNG : nullables G = .ok NG)
    (hST : ∀ s ∈ S, s ∉ T) (hprod : ∀ s ∈ S, ∃ e, FlatD G S s e) :
    ∀ s t, First G T NG s t → FirstU U G S T NU s t :=
  fun _ _ h => First.least (FirstU U G S T NU) (l1f_closed hR hNU hNG hST hprod) h

theorem first_sub_user (hR : FactRelD U G S) (hNU : nullables U = .ok NU) (hNG : nullables G = .ok NG)
    (hST : ∀ s ∈ S, s ∉ T) (hprod : ∀ s ∈ S, ∃ e, FlatD G S s e) {X t : Sym} (hX : X ∉ S) :
    First G T NG X t → First U T NU X t :=
  fun h => (first_sub hR hNU hNG hST hprod X t h).1 hX

theorem first_sub_helper (hR : FactRelD U G S) (hNU : nullables U = .ok NU) (hNG : nullables G = .ok NG)
    (hST : ∀ s ∈ S, s ∉ T) (hprod : ∀ s ∈ S, ∃ e, FlatD G S s e) {h t : Sym} (hh : h ∈ S) :
    First G T NG h t → ∃ e, FlatD G S h e ∧ FirstSeq U T NU e t :=
  fun hF => (first_sub hR hNU hNG hST hprod h t hF).2 hh

/-- sequences of non-helper symbols -/
theorem firstSeq_sub (hR : FactRelD U G S) (hNU : nullables U = .ok NU) (hNG : nullables G = .ok NG)
    (hST : ∀ s ∈ S, s ∉ T) (hprod : ∀ s ∈ S, ∃ e, FlatD G S s e) {e : List Sym} {t : Sym}
    (he : ∀ x ∈ e, x ∉ S) : FirstInM T NG (First G T NG) e t → FirstSeq U T NU e t :=
  l1f_seq hR hNU hNG (fun _ hx => first_sub_user hR hNU hNG hST hprod hx) e he

/-- a right-hand side of `G` whose last symbol may be a helper: some flattening of it has `t` in its
FIRST over `U` -/
theorem firstSeq_rule_sub (hR : FactRelD U G S) (hNU : nullables U = .ok NU) (hNG : nullables G = .ok NG)
    (hST : ∀ s ∈ S, s ∉ T) (hprod : ∀ s ∈ S, ∃ e, FlatD G S s e) {k t : Sym} {p : List Sym}
    (hp : p ∈ gramRules G k) (h : FirstInM T NG (First G T NG) p t) :
    ((∀ l, p.getLast? = some l → l ∉ S) ∧ FirstSeq U T NU p t) ∨
    (∃ pre h', p = pre ++ [h'] ∧ h' ∈ S ∧ ∃ e, FlatD G S h' e ∧ FirstSeq U T NU (pre ++ e) t) :=
  l1f_rule hR hNU hNG hST hprod (fun _ hx => first_sub_user hR hNU hNG hST hprod hx)
    (fun _ hx => first_sub_helper hR hNU hNG hST hprod hx) hp h

/-- the same, as a flattened expansion of the left-hand side `k` (for `k ∉ S` it is a rule of `U`) -/
theorem firstSeq_flat_sub (hR : FactRelD U G S) (hNU : nullables U = .ok NU) (hNG : nullables G = .ok NG)
    (hST : ∀ s ∈ S, s ∉ T) (hprod : ∀ s ∈ S, ∃ e, FlatD G S s e) {k t : Sym} {p : List Sym}
    (hp : p ∈ gramRules G k) (h : FirstInM T NG (First G T NG) p t) :
    ∃ e, FlatD G S k e ∧ FirstSeq U T NU e t :=
  l1f_flat hR hNU hNG hST hprod (fun _ hx => first_sub_user hR hNU hNG hST hprod hx)
    (fun _ hx => first_sub_helper hR hNU hNG hST hprod hx) hp h

end L1First

end LL

section
open LL
#print axioms first_sub
#print axioms first_sub_user
#print axioms first_sub_helper
#print axioms firstSeq_sub
#print axioms firstSeq_rule_sub
#print axioms firstSeq_flat_sub
#print axioms nullIn_sub
#print axioms null_helper_sub
end
