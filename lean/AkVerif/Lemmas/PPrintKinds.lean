import AkVerif.Lemmas.PPrintLayout
/-!
Helper lemmas for C11: the syntax class of every chunk of `gen` agrees with its text
(a `name` chunk is a quoted key, a `number` chunk a number text, a `keyword` chunk a literal).
-/
namespace PPrint

/-- what the syntax class of a chunk promises about its text -/
def ChunkOk (c : Consts) (ch : Chunk) : Prop :=
  match ch.kind with
  | .text => True
  | .name => ∃ k : Key, ch.text = keyText k
  | .number => numOk ch.text = true
  | .keyword => ∃ k, ch.text = c.lit k

theorem chunkOk_plain (c : Consts) (t : List Char) : ChunkOk c (plain t) := by
  simp [ChunkOk, plain]

theorem chunkOk_simple (c : Consts) {sk : Bool} {v : J} {s : Simple} (h : v.simple? = some s)
    (hw : WF sk v) :
    ChunkOk c (simpleChunk c s) := by
  cases v with
  | str x => simp [J.simple?] at h; subst h; exact chunkOk_plain c _
  | int n => simp [J.simple?] at h; subst h; simp [ChunkOk, simpleChunk, numOk_showInt]
  | num t => simp [J.simple?] at h; subst h; simp only [WF] at hw; simp [ChunkOk, simpleChunk, hw.1]
  | kw k => simp [J.simple?] at h; subst h; simp only [ChunkOk, simpleChunk]; exact ⟨k, rfl⟩
  | list xs =>
    cases xs with
    | nil => simp [J.simple?] at h; subst h; exact chunkOk_plain c _
    | cons _ _ => simp [J.simple?] at h
  | dict kvs =>
    cases kvs with
    | nil => simp [J.simple?] at h; subst h; exact chunkOk_plain c _
    | cons _ _ => simp [J.simple?] at h

theorem mem_sepItems {ch : Chunk} {first : Bool} {subs : List (List (Option Chunk))}
    (h : some ch ∈ sepItems first subs) : ch = plain [',', ' '] ∨ ∃ s, s ∈ subs ∧ some ch ∈ s := by
  induction subs generalizing first with
  | nil => simp [sepItems] at h
  | cons s r ih =>
    simp only [sepItems, List.mem_append] at h
    rcases h with (h | h) | h
    · cases first <;> simp at h
      exact Or.inl h
    · exact Or.inr ⟨s, by simp, h⟩
    · rcases ih h with h | ⟨t, ht, hc⟩
      · exact Or.inl h
      · exact Or.inr ⟨t, List.mem_cons_of_mem _ ht, hc⟩

theorem mem_multiBody {ch : Chunk} {pre : List Char} {first : Bool}
    {subs : List (List (Option Chunk))} (h : some ch ∈ multiBody pre first subs) :
    ch.kind = .text ∨ ∃ s, s ∈ subs ∧ some ch ∈ s := by
  induction subs generalizing first with
  | nil => simp [multiBody] at h
  | cons s r ih =>
    simp only [multiBody, List.mem_append] at h
    rcases h with ((h | h) | h) | h
    · cases first <;> simp at h
      exact Or.inl (by rw [h]; rfl)
    · simp at h; exact Or.inl (by rw [h]; rfl)
    · exact Or.inr ⟨s, by simp, h⟩
    · rcases ih h with h | ⟨t, ht, hc⟩
      · exact Or.inl h
      · exact Or.inr ⟨t, List.mem_cons_of_mem _ ht, hc⟩

theorem mem_multiLine {ch : Chunk} {L : Limits} {o cl : Char} {off : Nat}
    {subs : List (List (Option Chunk))} (h : some ch ∈ multiLine L o cl off subs) :
    ch.kind = .text ∨ ∃ s, s ∈ subs ∧ some ch ∈ s := by
  simp only [multiLine, List.mem_cons, List.mem_append] at h
  rcases h with h | h | h
  · exact Or.inl (by simp at h; rw [h]; rfl)
  · exact mem_multiBody h
  · simp at h; exact Or.inl (by rw [h]; rfl)

theorem mem_wrapItems {ch : Chunk} {L : Limits} {off : Nat} {items : List Chunk} {ly : Nat}
    {first : Bool} (h : some ch ∈ wrapItems L off items ly first) :
    ch.kind = .text ∨ ch ∈ items := by
  induction items generalizing ly first with
  | nil => simp [wrapItems] at h
  | cons it r ih =>
    rw [wrapItems.eq_def] at h
    simp only [List.mem_append, List.mem_cons] at h
    rcases h with (h | h) | h
    · split at h <;> simp at h
      exact Or.inl (by rw [h]; rfl)
    · rcases h with h | h | h
      · simp at h; exact Or.inl (by rw [h]; rfl)
      · simp at h; exact Or.inr (by simp [h])
      · simp at h
    · cases r with
      | nil => simp at h
      | cons b r' =>
        rcases ih h with h | h
        · exact Or.inl h
        · exact Or.inr (List.mem_cons_of_mem _ h)

theorem chunkOk_of_text (c : Consts) {ch : Chunk} (h : ch.kind = .text) : ChunkOk c ch := by
  simp [ChunkOk, h]

theorem mem_entryChunks {ch : Chunk} {k : Key} {val : List (Option Chunk)}
    (h : some ch ∈ entryChunks k val) : ch = keyChunk k ∨ ch.kind = .text ∨ some ch ∈ val := by
  simp only [entryChunks, List.mem_cons] at h
  rcases h with h | h | h
  · exact Or.inl (by simpa using h)
  · exact Or.inr (Or.inl (by simp at h; rw [h]; rfl))
  · exact Or.inr (Or.inr h)

theorem chunkOk_keyChunk (c : Consts) (k : Key) : ChunkOk c (keyChunk k) := by
  simp only [ChunkOk, keyChunk]; exact ⟨k, rfl⟩

theorem gen_chunkOk (c : Consts) (L : Limits) (sk : Bool) :
    ∀ v, WF sk v → ∀ off ch, some ch ∈ gen c L v off → ChunkOk c ch := by
  intro v
  induction v using J.ind with
  | hs s => intro hw off ch h; simp [gen] at h; subst h; exact chunkOk_simple c (v := .str s) rfl hw
  | hi n => intro hw off ch h; simp [gen] at h; subst h; exact chunkOk_simple c (v := .int n) rfl hw
  | hn t => intro hw off ch h; simp [gen] at h; subst h; exact chunkOk_simple c (v := .num t) rfl hw
  | hk k => intro hw off ch h; simp [gen] at h; subst h; exact chunkOk_simple c (v := .kw k) rfl hw
  | hl xs ih =>
    intro hw off ch h
    have hw' := (WFList_iff sk xs).mp (by simpa [WF] using hw)
    simp only [gen, renderList] at h
    cases xs with
    | nil => simp at h; subst h; exact chunkOk_plain c _
    | cons x xs' =>
      simp only [] at h
      cases hs : allSimple? (x :: xs') with
      | none =>
        rw [hs] at h
        rcases mem_multiLine h with h | ⟨s, hs', hc⟩
        · exact chunkOk_of_text c h
        · rw [genList_eq, List.mem_map] at hs'
          obtain ⟨y, hy, rfl⟩ := hs'
          exact ih y hy (hw' y hy) _ ch hc
      | some ss =>
        rw [hs] at h
        obtain ⟨hss, hsim⟩ := allSimple?_map hs
        have hitems : ∀ it, it ∈ ss.map (simpleChunk c) → ChunkOk c it := by
          intro it hit
          rw [hss, List.map_map, List.mem_map] at hit
          obtain ⟨y, hy, rfl⟩ := hit
          exact chunkOk_simple c (hsim y hy) (hw' y hy)
        simp only [] at h
        split at h
        · simp only [List.mem_cons, List.mem_append] at h
          rcases h with h | h | h
          · simp at h; subst h; exact chunkOk_plain c _
          · rcases mem_sepItems h with h | ⟨s, hs', hc⟩
            · subst h; exact chunkOk_plain c _
            · rw [List.mem_map] at hs'
              obtain ⟨it, hit, rfl⟩ := hs'
              simp at hc; subst hc
              exact hitems _ hit
          · simp at h; subst h; exact chunkOk_plain c _
        · simp only [wrappedList, List.mem_append, List.mem_cons] at h
          rcases h with (h | h) | h
          · rcases h with h | h | h
            · simp at h; subst h; exact chunkOk_plain c _
            · simp at h
            · simp at h
          · rcases mem_wrapItems h with h | h
            · exact chunkOk_of_text c h
            · exact hitems _ h
          · simp at h; subst h; exact chunkOk_plain c _
  | hd kvs ih =>
    intro hw off ch h
    have hw' := (WFEntries_iff sk kvs).mp (by simpa [WF] using hw)
    simp only [gen, renderDict] at h
    cases kvs with
    | nil => simp at h; subst h; exact chunkOk_plain c _
    | cons kv r =>
      simp only [] at h
      have hmulti : ∀ ch, some ch ∈ multiLine L '{' '}' off
          ((sortE (genEntries c L (kv :: r) (off + L.indent))).map fun e => entryChunks e.1 e.2) →
          ChunkOk c ch := by
        intro ch h
        rcases mem_multiLine h with h | ⟨s, hs', hc⟩
        · exact chunkOk_of_text c h
        · rw [List.mem_map] at hs'
          obtain ⟨e, he, rfl⟩ := hs'
          rw [mem_sortE, genEntries_eq, List.mem_map] at he
          obtain ⟨y, hy, rfl⟩ := he
          rcases mem_entryChunks hc with h | h | h
          · subst h; exact chunkOk_keyChunk c _
          · exact chunkOk_of_text c h
          · exact ih y hy (hw' y hy).2 _ ch h
      cases hs : allSimpleD? (kv :: r) with
      | none => rw [hs] at h; exact hmulti ch h
      | some ss =>
        rw [hs] at h
        obtain ⟨hss, hsim⟩ := allSimpleD?_map hs
        simp only [] at h
        split at h
        · simp only [List.mem_cons, List.mem_append] at h
          rcases h with h | h | h
          · simp at h; subst h; exact chunkOk_plain c _
          · rcases mem_sepItems h with h | ⟨s, hs', hc⟩
            · subst h; exact chunkOk_plain c _
            · rw [List.mem_map] at hs'
              obtain ⟨e, he, rfl⟩ := hs'
              rw [mem_sortE, hss, List.mem_map] at he
              obtain ⟨y, hy, rfl⟩ := he
              rcases mem_entryChunks hc with h | h | h
              · subst h; exact chunkOk_keyChunk c _
              · exact chunkOk_of_text c h
              · simp at h; subst h
                exact chunkOk_simple c (hsim y hy) (hw' y hy).2
          · simp at h; subst h; exact chunkOk_plain c _
        · exact hmulti ch h

end PPrint
