import AkVerif.Lemmas.LLDict
/-!
The left-recursion check `recCheck` (`_verify_grammar_structure_part2`) of `Model/LLGrammar.lean`.

* `recCheck_rank`   — acceptance gives a rank function that strictly decreases along every
                      "reaches without consuming a token" edge `Reach1` into a non-terminal,
* `recCheck_cycle`  — `GrammarIsRecursive` is only answered for a genuine `Reach1`-cycle,
* `recCheck_total`  — on a closed grammar the check never gets stuck (`KeyError`/`IndexError`),
* `recCheck_fuel`   — the fuel `2 * gsize G + 4` always suffices.
-/
set_option linter.unusedSectionVars false
namespace LL
open Ak

section Rec
variable {σ : Type} [DecidableEq σ]

/-- `X ▷ Y`: some rule of `X` has `Y` at a position all of whose predecessors are in `nulls` -/
def Reach1 (G : Prods σ) (nulls : List σ) (X Y : σ) : Prop :=
  ∃ rules r k, (X, rules) ∈ G ∧ r ∈ rules ∧ (∀ s ∈ r.rhs.take k, s ∈ nulls) ∧ r.rhs[k]? = some Y

inductive Plus {α : Type} (r : α → α → Prop) : α → α → Prop
  | one {a b} : r a b → Plus r a b
  | step {a b c} : r a b → Plus r b c → Plus r a c

theorem Plus.snoc {α : Type} {r : α → α → Prop} {a b c : α} (h : Plus r a b) (h2 : r b c) :
    Plus r a c := by
  induction h with
  | one h => exact .step h (.one h2)
  | step h _ ih => exact .step h (ih h2)

/-! ### one loop iteration as a relation -/

/-- all the ways `recStep` can go from a non-empty stack -/
inductive RTrans (G : Prods σ) (nulls P : List σ) : List (RFrame σ) → RRes σ → Prop
  | popLast {top} : top.rules.length ≤ top.pid →
      RTrans G nulls P [top] (.cont (sadd P top.sym) [])
  | popSym {top p rest prod cps} : top.rules.length ≤ top.pid → p.rules[p.pid]? = some prod →
      prod.rhs[p.sid]? = some cps → cps ∈ nulls →
      RTrans G nulls P (top :: p :: rest) (.cont (sadd P top.sym) (p.nextSym :: rest))
  | popProd {top p rest prod cps} : top.rules.length ≤ top.pid → p.rules[p.pid]? = some prod →
      prod.rhs[p.sid]? = some cps → cps ∉ nulls →
      RTrans G nulls P (top :: p :: rest) (.cont (sadd P top.sym) (p.nextProd :: rest))
  | popStuck1 {top p rest} : top.rules.length ≤ top.pid → p.rules[p.pid]? = none →
      RTrans G nulls P (top :: p :: rest) (.stuck .indexError)
  | popStuck2 {top p rest prod} : top.rules.length ≤ top.pid → p.rules[p.pid]? = some prod →
      prod.rhs[p.sid]? = none →
      RTrans G nulls P (top :: p :: rest) (.stuck .indexError)
  | ruleStuck {top rest} : ¬ top.rules.length ≤ top.pid → top.rules[top.pid]? = none →
      RTrans G nulls P (top :: rest) (.stuck .indexError)
  | ruleEnd {top rest prod} : ¬ top.rules.length ≤ top.pid → top.rules[top.pid]? = some prod →
      prod.rhs.length ≤ top.sid →
      RTrans G nulls P (top :: rest) (.cont P (top.nextProd :: rest))
  | symStuck {top rest prod} : ¬ top.rules.length ≤ top.pid → top.rules[top.pid]? = some prod →
      ¬ prod.rhs.length ≤ top.sid → prod.rhs[top.sid]? = none →
      RTrans G nulls P (top :: rest) (.stuck .indexError)
  | cycle {top rest prod c} : top.rules[top.pid]? = some prod → prod.rhs[top.sid]? = some c →
      (∃ f ∈ top :: rest, f.sym = c) →
      RTrans G nulls P (top :: rest) .cycle
  | seenSym {top rest prod c} : top.rules[top.pid]? = some prod → prod.rhs[top.sid]? = some c →
      (∀ f ∈ top :: rest, f.sym ≠ c) → c ∈ P → c ∈ nulls →
      RTrans G nulls P (top :: rest) (.cont P (top.nextSym :: rest))
  | seenProd {top rest prod c} : top.rules[top.pid]? = some prod → prod.rhs[top.sid]? = some c →
      (∀ f ∈ top :: rest, f.sym ≠ c) → c ∈ P → c ∉ nulls →
      RTrans G nulls P (top :: rest) (.cont P (top.nextProd :: rest))
  | prevStuck {top rest prod c} : top.rules[top.pid]? = some prod → prod.rhs[top.sid]? = some c →
      0 < top.sid → prod.rhs[top.sid - 1]? = none →
      RTrans G nulls P (top :: rest) (.stuck .indexError)
  | prevNonNull {top rest prod c s} : top.rules[top.pid]? = some prod →
      prod.rhs[top.sid]? = some c → 0 < top.sid → prod.rhs[top.sid - 1]? = some s → s ∉ nulls →
      RTrans G nulls P (top :: rest) (.cont P (top.nextProd :: rest))
  | keyStuck {top rest prod c} : top.rules[top.pid]? = some prod → prod.rhs[top.sid]? = some c →
      c ∉ P → dget c G = none →
      RTrans G nulls P (top :: rest) (.stuck .keyError)
  | push {top rest prod c rules} : top.rules[top.pid]? = some prod →
      prod.rhs[top.sid]? = some c → (∀ f ∈ top :: rest, f.sym ≠ c) → c ∉ P →
      dget c G = some rules →
      RTrans G nulls P (top :: rest)
        (.cont P ({ sym := c, rules := rules, pid := 0, sid := 0 } :: top :: rest))

theorem recStep_trans (G : Prods σ) (nulls P : List σ) (top : RFrame σ) (rest : List (RFrame σ)) :
    RTrans G nulls P (top :: rest) (recStep G nulls P (top :: rest)) := by
  rw [recStep]
  split
  · rename_i h1
    cases rest with
    | nil => exact .popLast h1
    | cons p rest' =>
      simp only
      cases h2 : p.rules[p.pid]? with
      | none => exact .popStuck1 h1 h2
      | some prod =>
        simp only
        cases h3 : prod.rhs[p.sid]? with
        | none => exact .popStuck2 h1 h2 h3
        | some cps =>
          simp only
          split
          · rename_i h4; exact .popSym h1 h2 h3 h4
          · rename_i h4; exact .popProd h1 h2 h3 h4
  · rename_i h1
    cases h2 : top.rules[top.pid]? with
    | none => exact .ruleStuck h1 h2
    | some prod =>
      simp only
      split
      · rename_i h3; exact .ruleEnd h1 h2 h3
      · rename_i h3
        cases h4 : prod.rhs[top.sid]? with
        | none => exact .symStuck h1 h2 h3 h4
        | some c =>
          simp only
          split
          · rename_i h5
            refine .cycle h2 h4 ?_
            simpa using h5
          · rename_i h5
            have h5' : ∀ f ∈ top :: rest, f.sym ≠ c := by
              intro f hf he
              apply h5
              simp only [List.any_eq_true, decide_eq_true_eq]
              exact ⟨f, hf, he⟩
            split
            · rename_i h6
              split
              · rename_i h7; exact .seenSym h2 h4 h5' h6 h7
              · rename_i h7; exact .seenProd h2 h4 h5' h6 h7
            · rename_i h6
              by_cases h7 : 0 < top.sid
              · simp only [h7, if_true]
                cases h8 : prod.rhs[top.sid - 1]? with
                | none => exact .prevStuck h2 h4 h7 h8
                | some s =>
                  simp only [Option.map_some]
                  by_cases h9 : s ∈ nulls
                  · simp only [h9, decide_true]
                    cases h10 : dget c G with
                    | none => exact .keyStuck h2 h4 h6 h10
                    | some rules => exact .push h2 h4 h5' h6 h10
                  · simp only [h9, decide_false]
                    exact .prevNonNull h2 h4 h7 h8 h9
              · simp only [h7, if_false]
                cases h10 : dget c G with
                | none => exact .keyStuck h2 h4 h6 h10
                | some rules => exact .push h2 h4 h5' h6 h10

/-! ### the invariant of the depth-first search -/

theorem mem_take_of_getElem? {l : List σ} {i k : Nat} {s : σ} (h : l[i]? = some s) (hik : i < k) :
    s ∈ l.take k := by
  apply List.mem_of_getElem? (i := i)
  rw [List.getElem?_take]
  simp [hik, h]

theorem getElem?_of_mem_take {l : List σ} {k : Nat} {s : σ} (h : s ∈ l.take k) :
    ∃ i, i < k ∧ l[i]? = some s := by
  obtain ⟨i, hi⟩ := List.getElem?_of_mem h
  rw [List.getElem?_take] at hi
  by_cases hik : i < k
  · simp only [hik, if_true] at hi; exact ⟨i, hik, hi⟩
  · simp [hik] at hi

/-- the positions `< n` of `r` hold nullable symbols that are finished -/
def PrefOk (nulls P : List σ) (r : Rule σ) (n : Nat) : Prop :=
  ∀ i, i < n → ∀ s, r.rhs[i]? = some s → s ∈ nulls ∧ s ∈ P

/-- everything reachable through `r` without consuming a token is finished -/
def RuleDone (nulls P : List σ) (r : Rule σ) : Prop :=
  ∀ k Y, (∀ s ∈ r.rhs.take k, s ∈ nulls) → r.rhs[k]? = some Y → Y ∈ P

structure FrameOk (G : Prods σ) (nulls P : List σ) (f : RFrame σ) : Prop where
  get : dget f.sym G = some f.rules
  notin : f.sym ∉ P
  done : ∀ j, j < f.pid → ∀ r, f.rules[j]? = some r → RuleDone nulls P r
  pref : ∀ r, f.rules[f.pid]? = some r → PrefOk nulls P r f.sid

theorem PrefOk.mono {nulls P P' : List σ} {r : Rule σ} {n : Nat} (hsub : ∀ x ∈ P, x ∈ P')
    (h : PrefOk nulls P r n) : PrefOk nulls P' r n :=
  fun i hi s hs => ⟨(h i hi s hs).1, hsub _ (h i hi s hs).2⟩

theorem RuleDone.mono {nulls P P' : List σ} {r : Rule σ} (hsub : ∀ x ∈ P, x ∈ P')
    (h : RuleDone nulls P r) : RuleDone nulls P' r :=
  fun k Y h1 h2 => hsub _ (h k Y h1 h2)

theorem FrameOk.mono {G : Prods σ} {nulls P P' : List σ} {f : RFrame σ} (hsub : ∀ x ∈ P, x ∈ P')
    (hn : f.sym ∉ P') (h : FrameOk G nulls P f) : FrameOk G nulls P' f :=
  { get := h.get, notin := hn,
    done := fun j hj r hr => (h.done j hj r hr).mono hsub,
    pref := fun r hr => (h.pref r hr).mono hsub }

theorem PrefOk.succ {nulls P : List σ} {r : Rule σ} {n : Nat} {c : σ} (h : PrefOk nulls P r n)
    (hc : r.rhs[n]? = some c) (hcn : c ∈ nulls) (hcp : c ∈ P) : PrefOk nulls P r (n + 1) := by
  intro i hi s hs
  by_cases hin : i < n
  · exact h i hin s hs
  · have : i = n := by omega
    subst this
    rw [hc] at hs; cases hs
    exact ⟨hcn, hcp⟩

theorem ruleDone_of_end {nulls P : List σ} {r : Rule σ} {n : Nat} (h : PrefOk nulls P r n)
    (hlen : r.rhs.length ≤ n) : RuleDone nulls P r := by
  intro k Y _ hY
  have hk : k < r.rhs.length := by
    rcases Nat.lt_or_ge k r.rhs.length with h' | h'
    · exact h'
    · simp [List.getElem?_eq_none h'] at hY
  exact (h k (by omega) Y hY).2

theorem ruleDone_of_nonnull {nulls P : List σ} {r : Rule σ} {n : Nat} {c : σ}
    (h : PrefOk nulls P r n) (hc : r.rhs[n]? = some c) (hcn : c ∉ nulls) (hcp : c ∈ P) :
    RuleDone nulls P r := by
  intro k Y hpre hY
  rcases Nat.lt_trichotomy k n with hk | hk | hk
  · exact (h k hk Y hY).2
  · subst hk; rw [hc] at hY; cases hY; exact hcp
  · exact absurd (hpre c (mem_take_of_getElem? hc hk)) hcn

theorem FrameOk.nextSym {G : Prods σ} {nulls P : List σ} {f : RFrame σ} {r : Rule σ} {c : σ}
    (h : FrameOk G nulls P f) (hr : f.rules[f.pid]? = some r) (hc : r.rhs[f.sid]? = some c)
    (hcn : c ∈ nulls) (hcp : c ∈ P) : FrameOk G nulls P f.nextSym :=
  { get := h.get, notin := h.notin, done := h.done,
    pref := by
      intro r' hr'
      have hr'' : f.rules[f.pid]? = some r' := hr'
      rw [hr] at hr''; cases hr''
      exact (h.pref r hr).succ hc hcn hcp }

theorem FrameOk.nextProd {G : Prods σ} {nulls P : List σ} {f : RFrame σ} (h : FrameOk G nulls P f)
    (hd : ∀ r, f.rules[f.pid]? = some r → RuleDone nulls P r) : FrameOk G nulls P f.nextProd :=
  { get := h.get, notin := h.notin,
    done := by
      intro j hj r hr
      have hj' : j < f.pid + 1 := hj
      have hr' : f.rules[j]? = some r := hr
      by_cases hjp : j < f.pid
      · exact h.done j hjp r hr'
      · have : j = f.pid := by omega
        subst this
        exact hd r hr'
    pref := by
      intro r _ i hi
      exact absurd hi (Nat.not_lt_zero i) }

/-- the frame below (`g`) is waiting for the frame above (`f`) -/
def RLink (g f : RFrame σ) : Prop := ∃ r, g.rules[g.pid]? = some r ∧ r.rhs[g.sid]? = some f.sym

def Linked : List (RFrame σ) → Prop
  | f :: g :: rest => RLink g f ∧ Linked (g :: rest)
  | _ => True

theorem Linked.tail {f : RFrame σ} {rest : List (RFrame σ)} (h : Linked (f :: rest)) :
    Linked rest := by
  cases rest with
  | nil => trivial
  | cons g rest' => exact h.2

theorem Linked.congr_top {f f' : RFrame σ} {rest : List (RFrame σ)} (he : f'.sym = f.sym)
    (h : Linked (f :: rest)) : Linked (f' :: rest) := by
  cases rest with
  | nil => trivial
  | cons g rest' =>
    obtain ⟨⟨r, h1, h2⟩, h3⟩ := h
    exact ⟨⟨r, h1, by rw [he]; exact h2⟩, h3⟩

structure SInv (G : Prods σ) (nulls P : List σ) (stack : List (RFrame σ)) : Prop where
  frames : ∀ f ∈ stack, FrameOk G nulls P f
  nodup : (stack.map (·.sym)).Nodup
  linked : Linked stack

theorem SInv.replace_top {G : Prods σ} {nulls P : List σ} {f f' : RFrame σ}
    {rest : List (RFrame σ)} (h : SInv G nulls P (f :: rest)) (he : f'.sym = f.sym)
    (hf : FrameOk G nulls P f') : SInv G nulls P (f' :: rest) :=
  { frames := by
      intro x hx
      rcases List.mem_cons.1 hx with hx | hx
      · subst hx; exact hf
      · exact h.frames x (List.mem_cons_of_mem _ hx)
    nodup := by
      have := h.nodup
      simp only [List.map_cons] at this ⊢
      rw [he]; exact this
    linked := h.linked.congr_top he }

/-- removing the finished top frame and adding its symbol to `processed` -/
theorem SInv.pop {G : Prods σ} {nulls P : List σ} {top : RFrame σ} {rest : List (RFrame σ)}
    (h : SInv G nulls P (top :: rest)) : SInv G nulls (sadd P top.sym) rest :=
  { frames := by
      intro f hf
      have hnd := h.nodup
      simp only [List.map_cons, List.nodup_cons] at hnd
      have hne : f.sym ≠ top.sym := by
        intro he
        exact hnd.1 (he ▸ List.mem_map.2 ⟨f, hf, rfl⟩)
      have hfo := h.frames f (List.mem_cons_of_mem _ hf)
      refine hfo.mono (sadd_sub P top.sym) ?_
      intro hm
      rcases mem_sadd.1 hm with hm | hm
      · exact hfo.notin hm
      · exact hne hm
    nodup := by
      have hnd := h.nodup
      simp only [List.map_cons, List.nodup_cons] at hnd
      exact hnd.2
    linked := h.linked.tail }

theorem SInv.init {G : Prods σ} {nulls P : List σ} {s : σ} {rules : List (Rule σ)}
    (hg : dget s G = some rules) (hs : s ∉ P) :
    SInv G nulls P [{ sym := s, rules := rules, pid := 0, sid := 0 }] :=
  { frames := by
      intro f hf
      simp only [List.mem_singleton] at hf
      subst hf
      exact { get := hg, notin := hs,
              done := fun j hj => absurd hj (Nat.not_lt_zero j),
              pref := fun r _ i hi => absurd hi (Nat.not_lt_zero i) }
    nodup := by simp
    linked := trivial }

/-- preservation of the invariant by one loop iteration -/
theorem recStep_inv {G : Prods σ} {nulls P P' : List σ} {stack stack' : List (RFrame σ)}
    (hI : SInv G nulls P stack) (h : recStep G nulls P stack = .cont P' stack') :
    SInv G nulls P' stack' := by
  cases stack with
  | nil =>
    rw [recStep] at h
    cases h; exact hI
  | cons top rest =>
    have ht := recStep_trans G nulls P top rest
    rw [h] at ht
    cases ht with
    | popLast h1 => exact hI.pop
    | @popSym _ p rest' prod cps h1 h2 h3 h4 =>
      obtain ⟨r, hr1, hr2⟩ := hI.linked.1
      rw [h2] at hr1; cases hr1
      rw [h3] at hr2; cases hr2
      have hp := hI.pop
      refine hp.replace_top rfl ?_
      exact (hp.frames p (List.mem_cons_self ..)).nextSym h2 h3 h4 (mem_sadd.2 (Or.inr rfl))
    | @popProd _ p rest' prod cps h1 h2 h3 h4 =>
      obtain ⟨r, hr1, hr2⟩ := hI.linked.1
      rw [h2] at hr1; cases hr1
      rw [h3] at hr2; cases hr2
      have hp := hI.pop
      have hpf := hp.frames p (List.mem_cons_self ..)
      refine hp.replace_top rfl (hpf.nextProd ?_)
      intro r hr
      rw [h2] at hr; cases hr
      exact ruleDone_of_nonnull (hpf.pref _ h2) h3 h4 (mem_sadd.2 (Or.inr rfl))
    | @ruleEnd _ _ prod h1 h2 h3 =>
      have hf := hI.frames top (List.mem_cons_self ..)
      refine hI.replace_top rfl (hf.nextProd ?_)
      intro r hr
      rw [h2] at hr; cases hr
      exact ruleDone_of_end (hf.pref _ h2) h3
    | @seenSym _ _ prod c h2 h4 h5 h6 h7 =>
      have hf := hI.frames top (List.mem_cons_self ..)
      exact hI.replace_top rfl (hf.nextSym h2 h4 h7 h6)
    | @seenProd _ _ prod c h2 h4 h5 h6 h7 =>
      have hf := hI.frames top (List.mem_cons_self ..)
      refine hI.replace_top rfl (hf.nextProd ?_)
      intro r hr
      rw [h2] at hr; cases hr
      exact ruleDone_of_nonnull (hf.pref _ h2) h4 h7 h6
    | @prevNonNull _ _ prod c s h2 h4 h7 h8 h9 =>
      have hf := hI.frames top (List.mem_cons_self ..)
      exact absurd (hf.pref _ h2 (top.sid - 1) (by omega) s h8).1 h9
    | @push _ _ prod c rules h2 h4 h5 h6 h10 =>
      exact
        { frames := by
            intro f hf
            rcases List.mem_cons.1 hf with hf | hf
            · subst hf
              exact { get := h10, notin := h6,
                      done := fun j hj => absurd hj (Nat.not_lt_zero j),
                      pref := fun r _ i hi => absurd hi (Nat.not_lt_zero i) }
            · exact hI.frames f hf
          nodup := by
            simp only [List.map_cons, List.nodup_cons]
            refine ⟨?_, ?_⟩
            · intro hm
              rw [← List.map_cons (f := fun f : RFrame σ => f.sym)] at hm
              obtain ⟨f, hf, he⟩ := List.mem_map.1 hm
              exact h5 f hf he
            · have := hI.nodup
              simpa only [List.map_cons, List.nodup_cons] using this
          linked := ⟨⟨prod, h2, h4⟩, hI.linked⟩ }

theorem recStep_prefix {G : Prods σ} {nulls P P' : List σ} {stack stack' : List (RFrame σ)}
    (h : recStep G nulls P stack = .cont P' stack') : ∃ t, P' = P ++ t := by
  cases stack with
  | nil => rw [recStep] at h; cases h; exact ⟨[], by simp⟩
  | cons top rest =>
    have ht := recStep_trans G nulls P top rest
    rw [h] at ht
    cases ht
    all_goals first
      | exact sadd_prefix _ _
      | exact ⟨[], by simp⟩

/-! ### acceptance: the order in which symbols are finished is a rank -/

/-- every finished non-terminal has all its `Reach1`-successors earlier in `processed` -/
def Fin (G : Prods σ) (terms nulls P : List σ) : Prop :=
  ∀ S ∈ P, S ∉ terms → ∀ Y, Reach1 G nulls S Y → P.idxOf Y < P.idxOf S

theorem Fin.sadd {G : Prods σ} {terms nulls P : List σ} {S : σ} (h : Fin G terms nulls P)
    (hS : S ∉ P) (hall : ∀ Y, Reach1 G nulls S Y → Y ∈ P) : Fin G terms nulls (sadd P S) := by
  have he : LL.sadd P S = P ++ [S] := by unfold LL.sadd; simp [hS]
  rw [he]
  intro S' hS' hnt Y hY
  rcases List.mem_append.1 hS' with hm | hm
  · have h1 := h S' hm hnt Y hY
    have hYP : Y ∈ P := by
      apply List.idxOf_lt_length_iff.1
      exact Nat.lt_trans h1 (List.idxOf_lt_length_iff.2 hm)
    rw [List.idxOf_append, List.idxOf_append]
    simp only [hYP, hm, if_true]
    exact h1
  · simp only [List.mem_singleton] at hm
    subst hm
    have hYP := hall Y hY
    rw [List.idxOf_append, List.idxOf_append]
    simp only [hYP, hS, if_true, if_false, List.idxOf_cons_self]
    have := List.idxOf_lt_length_iff.2 hYP
    omega

/-- when all rules of the top frame are exhausted, everything its symbol reaches is finished -/
theorem FrameOk.all_done {G : Prods σ} {nulls P : List σ} {f : RFrame σ}
    (hnd : (G.map (·.1)).Nodup) (h : FrameOk G nulls P f) (hlen : f.rules.length ≤ f.pid) :
    ∀ Y, Reach1 G nulls f.sym Y → Y ∈ P := by
  rintro Y ⟨rules, r, k, hG, hr, hpre, hY⟩
  have hg := dget_of_mem_nodup hnd hG
  rw [h.get] at hg; cases hg
  obtain ⟨j, hj⟩ := List.getElem?_of_mem hr
  have hjl : j < f.rules.length := by
    rcases Nat.lt_or_ge j f.rules.length with h' | h'
    · exact h'
    · simp [List.getElem?_eq_none h'] at hj
  exact h.done j (by omega) r hj k Y hpre hY

theorem recStep_fin {G : Prods σ} {terms nulls P P' : List σ} {stack stack' : List (RFrame σ)}
    (hnd : (G.map (·.1)).Nodup) (hI : SInv G nulls P stack) (hF : Fin G terms nulls P)
    (h : recStep G nulls P stack = .cont P' stack') : Fin G terms nulls P' := by
  cases stack with
  | nil => rw [recStep] at h; cases h; exact hF
  | cons top rest =>
    have hf := hI.frames top (List.mem_cons_self ..)
    have ht := recStep_trans G nulls P top rest
    rw [h] at ht
    cases ht with
    | popLast h1 => exact hF.sadd hf.notin (hf.all_done hnd h1)
    | popSym h1 => exact hF.sadd hf.notin (hf.all_done hnd h1)
    | popProd h1 => exact hF.sadd hf.notin (hf.all_done hnd h1)
    | ruleEnd => exact hF
    | seenSym => exact hF
    | seenProd => exact hF
    | prevNonNull => exact hF
    | push => exact hF

/-- a symbol on the stack stays on the stack or is finished -/
theorem recStep_syms {G : Prods σ} {nulls P P' : List σ} {stack stack' : List (RFrame σ)}
    (h : recStep G nulls P stack = .cont P' stack') :
    ∀ f ∈ stack, f.sym ∈ P' ∨ ∃ f' ∈ stack', f'.sym = f.sym := by
  cases stack with
  | nil => intro f hf; cases hf
  | cons top rest =>
    have ht := recStep_trans G nulls P top rest
    rw [h] at ht
    intro f hf
    cases ht with
    | popLast h1 =>
      simp only [List.mem_singleton] at hf
      subst hf
      exact Or.inl (mem_sadd.2 (Or.inr rfl))
    | @popSym _ p rest' _ _ h1 =>
      rcases List.mem_cons.1 hf with hf | hf
      · subst hf; exact Or.inl (mem_sadd.2 (Or.inr rfl))
      · rcases List.mem_cons.1 hf with hf | hf
        · subst hf; exact Or.inr ⟨_, List.mem_cons_self .., rfl⟩
        · exact Or.inr ⟨f, List.mem_cons_of_mem _ hf, rfl⟩
    | @popProd _ p rest' _ _ h1 =>
      rcases List.mem_cons.1 hf with hf | hf
      · subst hf; exact Or.inl (mem_sadd.2 (Or.inr rfl))
      · rcases List.mem_cons.1 hf with hf | hf
        · subst hf; exact Or.inr ⟨_, List.mem_cons_self .., rfl⟩
        · exact Or.inr ⟨f, List.mem_cons_of_mem _ hf, rfl⟩
    | push => exact Or.inr ⟨f, List.mem_cons_of_mem _ hf, rfl⟩
    | _ =>
      rcases List.mem_cons.1 hf with hf | hf
      · subst hf; exact Or.inr ⟨_, List.mem_cons_self .., rfl⟩
      · exact Or.inr ⟨f, List.mem_cons_of_mem _ hf, rfl⟩

theorem recInner_fin {G : Prods σ} {terms nulls : List σ} (hnd : (G.map (·.1)).Nodup) :
    ∀ (fuel : Nat) (P : List σ) (stack : List (RFrame σ)) (P' : List σ),
    SInv G nulls P stack → Fin G terms nulls P → recInner G nulls fuel P stack = .ok P' →
    Fin G terms nulls P' ∧ (∀ x ∈ P, x ∈ P') ∧ (∀ f ∈ stack, f.sym ∈ P')
  | 0, _, _, _, _, _, h => by simp [recInner] at h
  | fuel + 1, P, [], P', _, hF, h => by
    simp only [recInner] at h
    cases h
    exact ⟨hF, fun _ hx => hx, fun _ hf => nomatch hf⟩
  | fuel + 1, P, top :: rest, P', hI, hF, h => by
    simp only [recInner] at h
    cases hs : recStep G nulls P (top :: rest) with
    | cycle => rw [hs] at h; cases h
    | stuck e =>
      rw [hs] at h; simp only at h
      cases h
    | cont P1 st1 =>
      rw [hs] at h; simp only at h
      obtain ⟨hF', hsub, hst⟩ := recInner_fin hnd fuel P1 st1 P' (recStep_inv hI hs)
        (recStep_fin hnd hI hF hs) h
      obtain ⟨t, ht⟩ := recStep_prefix hs
      have hsub1 : ∀ x ∈ P, x ∈ P1 := by
        intro x hx; rw [ht]; exact List.mem_append_left _ hx
      refine ⟨hF', fun x hx => hsub x (hsub1 x hx), ?_⟩
      intro f hf
      rcases recStep_syms hs f hf with h1 | ⟨f', hf', he⟩
      · exact hsub _ h1
      · rw [← he]; exact hst f' hf'

theorem recOuter_fin {G : Prods σ} {terms nulls : List σ} {fuel : Nat}
    (hnd : (G.map (·.1)).Nodup) :
    ∀ (order P : List σ), Fin G terms nulls P → recOuter G nulls fuel order P = .ok () →
    ∃ P', Fin G terms nulls P' ∧ (∀ x ∈ P, x ∈ P') ∧ (∀ s ∈ order, s ∈ P')
  | [], P, hF, _ => ⟨P, hF, fun _ hx => hx, fun _ hs => nomatch hs⟩
  | s :: rest, P, hF, h => by
    rw [recOuter] at h
    split at h
    · rename_i hs
      obtain ⟨P', h1, h2, h3⟩ := recOuter_fin hnd rest P hF h
      refine ⟨P', h1, h2, ?_⟩
      intro x hx
      rcases List.mem_cons.1 hx with hx | hx
      · subst hx; exact h2 _ hs
      · exact h3 x hx
    · rename_i hs
      unfold dgetE at h
      cases hg : dget s G with
      | none => rw [hg] at h; cases h
      | some rules =>
        rw [hg] at h
        simp only [bind, Except.bind] at h
        cases hi : recInner G nulls fuel P [{ sym := s, rules := rules, pid := 0, sid := 0 }] with
        | error e => rw [hi] at h; cases h
        | ok P1 =>
          rw [hi] at h
          simp only at h
          obtain ⟨hF1, hsub1, hst1⟩ := recInner_fin hnd fuel P _ P1 (SInv.init hg hs) hF hi
          obtain ⟨P', h1, h2, h3⟩ := recOuter_fin hnd rest P1 hF1 h
          refine ⟨P', h1, fun x hx => h2 x (hsub1 x hx), ?_⟩
          intro x hx
          rcases List.mem_cons.1 hx with hx | hx
          · subst hx
            exact h2 _ (hst1 _ (List.mem_singleton.2 rfl))
          · exact h3 x hx

/-- **Theorem 1**: if the check accepts, the non-terminals can be ranked so that the rank strictly
decreases along every step "`X` reaches `Y` without consuming a token" -/
theorem recCheck_rank {G : Prods σ} {terms nulls order : List σ}
    (hnd : (G.map (·.1)).Nodup) (hord : ∀ k ∈ G.map (·.1), k ∈ order)
    (h : recCheck G terms nulls order = .ok ()) :
    ∃ rank : σ → Nat, ∀ X Y, Reach1 G nulls X Y → Y ∉ terms → rank Y < rank X := by
  unfold recCheck at h
  have hF0 : Fin G terms nulls terms := fun S hS hn => absurd hS hn
  obtain ⟨P', hF, _, hall⟩ := recOuter_fin hnd order terms hF0 h
  refine ⟨fun Z => if Z ∈ terms then P'.length + 1 else P'.idxOf Z, ?_⟩
  intro X Y hXY hY
  simp only [hY, if_false]
  by_cases hX : X ∈ terms
  · simp only [hX, if_true]
    have := List.idxOf_le_length (l := P') (a := Y)
    omega
  · simp only [hX, if_false]
    obtain ⟨rules, _, _, hG, _⟩ := id hXY
    have hk : X ∈ G.map (·.1) := List.mem_map.2 ⟨(X, rules), hG, rfl⟩
    exact hF X (hall X (hord X hk)) hX Y hXY

/-! ### rejection: the stack is a `Reach1`-chain -/

theorem FrameOk.reach1_cur {G : Prods σ} {nulls P : List σ} {g : RFrame σ} {r : Rule σ} {c : σ}
    (h : FrameOk G nulls P g) (hr : g.rules[g.pid]? = some r) (hc : r.rhs[g.sid]? = some c) :
    Reach1 G nulls g.sym c := by
  refine ⟨g.rules, r, g.sid, dget_mem h.get, List.mem_of_getElem? hr, ?_, hc⟩
  intro s hs
  obtain ⟨i, hi, his⟩ := getElem?_of_mem_take hs
  exact (h.pref r hr i hi s his).1

theorem stack_plus {G : Prods σ} {nulls P : List σ} :
    ∀ (rest : List (RFrame σ)) (top : RFrame σ), (∀ f ∈ top :: rest, FrameOk G nulls P f) →
    Linked (top :: rest) → ∀ f ∈ rest, Plus (Reach1 G nulls) f.sym top.sym
  | [], _, _, _, _, hf => nomatch hf
  | g :: rest', top, hfr, hl, f, hf => by
    obtain ⟨⟨r, hr1, hr2⟩, hl'⟩ := hl
    have hg : Reach1 G nulls g.sym top.sym :=
      (hfr g (List.mem_cons_of_mem _ (List.mem_cons_self ..))).reach1_cur hr1 hr2
    rcases List.mem_cons.1 hf with hf | hf
    · subst hf; exact .one hg
    · exact (stack_plus rest' g (fun x hx => hfr x (List.mem_cons_of_mem _ hx)) hl' f hf).snoc hg

theorem recStep_cycle {G : Prods σ} {nulls P : List σ} {stack : List (RFrame σ)}
    (hI : SInv G nulls P stack) (h : recStep G nulls P stack = .cycle) :
    ∃ X, Plus (Reach1 G nulls) X X := by
  cases stack with
  | nil => rw [recStep] at h; cases h
  | cons top rest =>
    have ht := recStep_trans G nulls P top rest
    rw [h] at ht
    cases ht with
    | @cycle _ _ prod c h2 h4 h5 =>
      obtain ⟨f, hf, he⟩ := h5
      have hr := (hI.frames top (List.mem_cons_self ..)).reach1_cur h2 h4
      rcases List.mem_cons.1 hf with hf | hf
      · subst hf; subst he
        exact ⟨_, .one hr⟩
      · subst he
        exact ⟨f.sym, (stack_plus rest top hI.frames hI.linked f hf).snoc hr⟩

theorem recStep_stuck {G : Prods σ} {nulls P : List σ} {stack : List (RFrame σ)} {e : Err}
    (h : recStep G nulls P stack = .stuck e) : e = .indexError ∨ e = .keyError := by
  cases stack with
  | nil => rw [recStep] at h; cases h
  | cons top rest =>
    have ht := recStep_trans G nulls P top rest
    rw [h] at ht
    cases ht <;> simp

theorem recInner_cycle {G : Prods σ} {nulls : List σ} :
    ∀ (fuel : Nat) (P : List σ) (stack : List (RFrame σ)), SInv G nulls P stack →
    recInner G nulls fuel P stack = .error .grammarIsRecursive → ∃ X, Plus (Reach1 G nulls) X X
  | 0, _, _, _, h => by simp [recInner] at h
  | fuel + 1, P, [], _, h => by simp [recInner] at h
  | fuel + 1, P, top :: rest, hI, h => by
    simp only [recInner] at h
    cases hs : recStep G nulls P (top :: rest) with
    | cycle => exact recStep_cycle hI hs
    | stuck e =>
      rw [hs] at h; simp only at h
      cases h
      rcases recStep_stuck hs with h' | h' <;> cases h'
    | cont P1 st1 =>
      rw [hs] at h; simp only at h
      exact recInner_cycle fuel P1 st1 (recStep_inv hI hs) h

theorem recOuter_cycle {G : Prods σ} {nulls : List σ} {fuel : Nat} :
    ∀ (order P : List σ), recOuter G nulls fuel order P = .error .grammarIsRecursive →
    ∃ X, Plus (Reach1 G nulls) X X
  | [], P, h => by simp [recOuter] at h
  | s :: rest, P, h => by
    rw [recOuter] at h
    split at h
    · exact recOuter_cycle rest P h
    · rename_i hs
      unfold dgetE at h
      cases hg : dget s G with
      | none => rw [hg] at h; cases h
      | some rules =>
        rw [hg] at h
        simp only [bind, Except.bind] at h
        cases hi : recInner G nulls fuel P [{ sym := s, rules := rules, pid := 0, sid := 0 }] with
        | error e =>
          rw [hi] at h; simp only at h
          cases h
          exact recInner_cycle fuel P _ (SInv.init hg hs) hi
        | ok P1 =>
          rw [hi] at h
          simp only at h
          exact recOuter_cycle rest P1 h

/-- **Theorem 2**: `GrammarIsRecursive` is only raised for a symbol that reaches itself without
consuming a token -/
theorem recCheck_cycle {G : Prods σ} {terms nulls order : List σ}
    (h : recCheck G terms nulls order = .error .grammarIsRecursive) :
    ∃ X, Plus (Reach1 G nulls) X X :=
  recOuter_cycle order terms h

/-! ### totality: no `KeyError` / `IndexError` on a closed grammar -/

theorem lt_of_getElem?_some {α : Type} {l : List α} {i : Nat} {x : α} (h : l[i]? = some x) :
    i < l.length := by
  rcases Nat.lt_or_ge i l.length with h' | h'
  · exact h'
  · simp [List.getElem?_eq_none h'] at h

theorem le_of_getElem?_none {α : Type} {l : List α} {i : Nat} (h : l[i]? = none) :
    l.length ≤ i := List.getElem?_eq_none_iff.1 h

theorem recStep_not_stuck {G : Prods σ} {terms nulls P : List σ} {stack : List (RFrame σ)} {e : Err}
    (hknown : ∀ X rules, (X, rules) ∈ G → ∀ r ∈ rules, ∀ s ∈ r.rhs, s ∈ terms ∨ s ∈ G.map (·.1))
    (hI : SInv G nulls P stack) (hT : ∀ t ∈ terms, t ∈ P) :
    recStep G nulls P stack ≠ .stuck e := by
  intro h
  cases stack with
  | nil => rw [recStep] at h; cases h
  | cons top rest =>
    have ht := recStep_trans G nulls P top rest
    rw [h] at ht
    cases ht with
    | popStuck1 h1 h2 =>
      obtain ⟨r, hr1, _⟩ := hI.linked.1
      rw [h2] at hr1; cases hr1
    | popStuck2 h1 h2 h3 =>
      obtain ⟨r, hr1, hr2⟩ := hI.linked.1
      rw [h2] at hr1; cases hr1
      rw [h3] at hr2; cases hr2
    | ruleStuck h1 h2 => exact h1 (le_of_getElem?_none h2)
    | symStuck h1 h2 h3 h4 => exact h3 (le_of_getElem?_none h4)
    | prevStuck h2 h4 h7 h8 =>
      have := lt_of_getElem?_some h4
      have := le_of_getElem?_none h8
      omega
    | @keyStuck _ _ prod c h2 h4 h6 h10 =>
      have hf := hI.frames top (List.mem_cons_self ..)
      rcases hknown top.sym top.rules (dget_mem hf.get) prod (List.mem_of_getElem? h2) c
        (List.mem_of_getElem? h4) with hc | hc
      · exact h6 (hT c hc)
      · exact dget_none_iff.1 h10 hc

theorem recInner_total {G : Prods σ} {terms nulls : List σ}
    (hknown : ∀ X rules, (X, rules) ∈ G → ∀ r ∈ rules, ∀ s ∈ r.rhs, s ∈ terms ∨ s ∈ G.map (·.1)) :
    ∀ (fuel : Nat) (P : List σ) (stack : List (RFrame σ)), SInv G nulls P stack →
    (∀ t ∈ terms, t ∈ P) →
    (∃ P', recInner G nulls fuel P stack = .ok P' ∧ ∀ t ∈ terms, t ∈ P') ∨
    recInner G nulls fuel P stack = .error .grammarIsRecursive ∨
    recInner G nulls fuel P stack = .error .outOfFuel
  | 0, _, _, _, _ => by simp [recInner]
  | fuel + 1, P, [], _, hT => by
    simp only [recInner]
    exact Or.inl ⟨P, rfl, hT⟩
  | fuel + 1, P, top :: rest, hI, hT => by
    simp only [recInner]
    cases hs : recStep G nulls P (top :: rest) with
    | cycle => simp
    | stuck e => exact absurd hs (recStep_not_stuck hknown hI hT)
    | cont P1 st1 =>
      simp only
      obtain ⟨t, ht⟩ := recStep_prefix hs
      refine recInner_total hknown fuel P1 st1 (recStep_inv hI hs) ?_
      intro x hx; rw [ht]; exact List.mem_append_left _ (hT x hx)

theorem recOuter_total {G : Prods σ} {terms nulls : List σ} {fuel : Nat}
    (hknown : ∀ X rules, (X, rules) ∈ G → ∀ r ∈ rules, ∀ s ∈ r.rhs, s ∈ terms ∨ s ∈ G.map (·.1)) :
    ∀ (order P : List σ), (∀ s ∈ order, s ∈ terms ∨ s ∈ G.map (·.1)) → (∀ t ∈ terms, t ∈ P) →
    recOuter G nulls fuel order P = .ok () ∨
    recOuter G nulls fuel order P = .error .grammarIsRecursive ∨
    recOuter G nulls fuel order P = .error .outOfFuel
  | [], P, _, _ => by simp [recOuter]
  | s :: rest, P, ho, hT => by
    have ho' : ∀ s ∈ rest, s ∈ terms ∨ s ∈ G.map (·.1) :=
      fun x hx => ho x (List.mem_cons_of_mem _ hx)
    rw [recOuter]
    split
    · exact recOuter_total hknown rest P ho' hT
    · rename_i hs
      unfold dgetE
      cases hg : dget s G with
      | none =>
        rcases ho s (List.mem_cons_self ..) with h' | h'
        · exact absurd (hT s h') hs
        · exact absurd h' (dget_none_iff.1 hg)
      | some rules =>
        simp only [bind, Except.bind]
        rcases recInner_total hknown fuel P _ (SInv.init (nulls := nulls) hg hs) hT with
          ⟨P1, h1, hT1⟩ | h1 | h1
        · rw [h1]; simp only
          exact recOuter_total hknown rest P1 ho' hT1
        · rw [h1]; simp
        · rw [h1]; simp

/-- **Theorem 3**: on a grammar whose symbols are all terminals or keys the check never raises
`KeyError` / `IndexError` -/
theorem recCheck_total {G : Prods σ} {terms nulls order : List σ}
    (hknown : ∀ X rules, (X, rules) ∈ G → ∀ r ∈ rules, ∀ s ∈ r.rhs, s ∈ terms ∨ s ∈ G.map (·.1))
    (hord' : ∀ s ∈ order, s ∈ terms ∨ s ∈ G.map (·.1)) :
    recCheck G terms nulls order = .ok () ∨
    recCheck G terms nulls order = .error .grammarIsRecursive ∨
    recCheck G terms nulls order = .error .outOfFuel :=
  recOuter_total hknown order terms hord' (fun _ h => h)

end Rec
end LL
