import AkVerif.Lemmas.GhistAnalyse
import AkVerif.Lemmas.GhistRepos
/-!
Totality of the multi-repository analysis, second part: the component plug built from good component graphs never
fails (`plugTotal_mkPlug`), the `included_at` registrations never fail (`registrations_total`), and so the loop over
the sorted repositories never fails (`analyseAll_total`).
-/
namespace Ghist
open Ak

/-- `i` is the id of a build of the component that has a build commit -/
def Norm (g : Graph Bumps) (i : Nat) : Prop := ∃ b ∈ g.builds, b.iid = i

/-- the component builds a bump refers to exist in the component's graph -/
def BumpOk (g : Graph Bumps) (b : Bump) : Prop :=
  (∀ x, b.toRb = some x → Norm g x) ∧ ∀ x ∈ b.fromRbs, Norm g x

/-- every bump is about a component of `cvm` and refers to builds of that component -/
def BumpsGood (cvm : List (Nat × Graph Bumps)) (bs : Bumps) : Prop :=
  ∀ cb ∈ bs, ∃ g, (cb.1, g) ∈ cvm ∧ BumpOk g cb.2

/-- the components handed to a parent: different ids, good graphs -/
structure CompsGood (comps : List (Nat × Graph Bumps)) : Prop where
  nodup : (comps.map (·.1)).Nodup
  good : ∀ cg ∈ comps, GraphGood cg.2

theorem mem_unique_of_nodup {ν} : ∀ {l : List (Nat × ν)}, (l.map (·.1)).Nodup → ∀ {k : Nat} {v v' : ν},
    (k, v) ∈ l → (k, v') ∈ l → v = v' := by
  intro l
  induction l with
  | nil => intro _ k v v' h1; cases h1
  | cons a l ih =>
    intro hnd k v v' h1 h2
    simp only [List.map_cons, List.nodup_cons] at hnd
    rcases List.mem_cons.mp h1 with h1 | h1 <;> rcases List.mem_cons.mp h2 with h2 | h2
    · rw [← h1] at h2; exact (Prod.mk.inj h2).2.symm
    · exfalso; apply hnd.1; rw [← h1]; exact List.mem_map.mpr ⟨(k, v'), h2, rfl⟩
    · exfalso; apply hnd.1; rw [← h2]; exact List.mem_map.mpr ⟨(k, v), h1, rfl⟩
    · exact ih hnd.2 h1 h2

section
variable {comps : List (Nat × Graph Bumps)}

theorem cvm_mem {cg : Nat × Graph Bumps}
    (h : cg ∈ sortBy (fun a b : Nat × Graph Bumps => decide (a.1 < b.1)) (relevantComps comps)) : cg ∈ comps := by
  have := (mem_sortBy _ _ _).mp h
  simp only [relevantComps, List.mem_filter] at this
  exact this.1

theorem cvm_nodup (hc : CompsGood comps) :
    ((sortBy (fun a b : Nat × Graph Bumps => decide (a.1 < b.1)) (relevantComps comps)).map (·.1)).Nodup := by
  have hp := (sortBy_perm (fun a b : Nat × Graph Bumps => decide (a.1 < b.1)) (relevantComps comps)).map (·.1)
  rw [hp.nodup_iff]
  exact (List.Sublist.map _ (List.filter_sublist (l := comps))).nodup hc.nodup

/-! ### `_mk_bumps_info` -/

theorem maxOf_mem {l : List Nat} {m : Nat} (h : maxOf l = some m) : m ∈ l := by
  have hne : l ≠ [] := by intro hl; rw [hl] at h; simp [maxOf] at h
  obtain ⟨m', h1, h2⟩ := maxOf_some hne
  rw [h] at h1; cases h1; exact h2

theorem mkBump_good {g : Graph Bumps} (hg : GraphGood g) {comp : Nat} (v : Ver) {parents : List Bumps}
    (hp : ∀ pb ∈ parents, ∀ b, pb.lookup comp = some b → BumpOk g b) :
    ∃ b, mkBump g comp v parents = .ok b ∧ BumpOk g b := by
  have hex : ∃ b, mkBump g comp v parents = .ok b := by
    unfold mkBump
    simp only
    split
    · exact ⟨_, rfl⟩
    · split
      · exact ⟨_, rfl⟩
      · rename_i hne
        generalize hfr : (parents.foldl (fun acc pb =>
          match pb.lookup comp with
          | none => acc
          | some b => match b.toRb with
            | some x => addNew acc [x]
            | none => addNew acc b.fromRbs) []) = fr at hne
        have hne' : fr ≠ [] := by intro h0; rw [h0] at hne; simp at hne
        obtain ⟨m, hm, _⟩ := maxOf_some hne'
        simp only [maxOfD, hm]
        exact ⟨_, rfl⟩
  obtain ⟨b, hb⟩ := hex
  refine ⟨b, hb, ?_⟩
  obtain ⟨h1, _, h3⟩ := mkBump_spec hb
  have hfrom : ∀ x ∈ b.fromRbs, Norm g x := by
    intro x hx
    rw [h1, mem_fromSet] at hx
    obtain ⟨pb, hpb, b0, hb0, hcase⟩ := hx
    rcases hcase with h4 | ⟨_, h4⟩
    · exact (hp pb hpb b0 hb0).1 x h4
    · exact (hp pb hpb b0 hb0).2 x h4
  refine ⟨?_, hfrom⟩
  intro x hx
  rcases h3 with ⟨e, h4, h5⟩ | ⟨_, h4⟩
  · rw [h5] at hx; cases hx
    obtain ⟨bd, hbd, hbi⟩ := hg.vals _ (lookup_some_mem h4)
    exact ⟨bd, hbd, hbi⟩
  · rcases h4 with ⟨_, h5⟩ | ⟨m, h5, h6⟩
    · rw [h5] at hx; cases hx
    · rw [h6] at hx; cases hx
      exact hfrom _ (maxOf_mem h5)

theorem mkBumps_good (hc : CompsGood comps) (pins : Pins) {parents : List Bumps}
    (hp : ∀ pb ∈ parents, BumpsGood (sortBy (fun a b => a.1 < b.1) (relevantComps comps)) pb) :
    ∀ (cvm' : List (Nat × Graph Bumps)),
      (∀ cg ∈ cvm', cg ∈ sortBy (fun a b : Nat × Graph Bumps => decide (a.1 < b.1)) (relevantComps comps)) →
      ∃ bs, mkBumps cvm' pins parents = .ok bs ∧
        BumpsGood (sortBy (fun a b => a.1 < b.1) (relevantComps comps)) bs := by
  intro cvm'
  induction cvm' with
  | nil => intro _; exact ⟨[], rfl, by intro cb hcb; cases hcb⟩
  | cons cg cvm' ih =>
    intro hsub
    obtain ⟨comp, g⟩ := cg
    obtain ⟨rest, hrest, hgood⟩ := ih (fun x hx => hsub x (List.mem_cons_of_mem _ hx))
    simp only [mkBumps, hrest]
    cases hv : pins.lookup comp with
    | none => exact ⟨rest, rfl, hgood⟩
    | some v =>
      have hin := hsub (comp, g) (by simp)
      have hgg : GraphGood g := hc.good (comp, g) (cvm_mem hin)
      have hpar : ∀ pb ∈ parents, ∀ b, pb.lookup comp = some b → BumpOk g b := by
        intro pb hpb b hb
        obtain ⟨g', h1, h2⟩ := hp pb hpb (comp, b) (lookup_some_mem hb)
        have : g' = g := mem_unique_of_nodup (cvm_nodup hc) h1 hin
        rw [← this]; exact h2
      obtain ⟨b, hb, hbok⟩ := mkBump_good hgg v hpar
      simp only [hb]
      refine ⟨_, rfl, ?_⟩
      intro cb hcb
      rcases List.mem_cons.mp hcb with h1 | h1
      · subst h1; exact ⟨g, hin, hbok⟩
      · exact hgood cb h1

/-! ### pending bumps -/

theorem pendingBumps_total (hc : CompsGood comps) : ∀ (bs : Bumps),
    BumpsGood (sortBy (fun a b => a.1 < b.1) (relevantComps comps)) bs →
    ∃ r, pendingBumps (sortBy (fun a b => a.1 < b.1) (relevantComps comps)) bs = .ok r := by
  intro bs
  induction bs with
  | nil => intro _; exact ⟨[], rfl⟩
  | cons cb bs ih =>
    intro hgood
    obtain ⟨comp, pbump⟩ := cb
    obtain ⟨r, hr⟩ := ih (fun x hx => hgood x (List.mem_cons_of_mem _ hx))
    simp only [pendingBumps, hr]
    cases hto : pbump.toRb with
    | none => exact ⟨r, rfl⟩
    | some incl =>
      obtain ⟨g, hin, hok⟩ := hgood (comp, pbump) (by simp)
      have hl : (sortBy (fun a b : Nat × Graph Bumps => decide (a.1 < b.1)) (relevantComps comps)).lookup comp = some g :=
        lookup_of_unique hin (fun v' hv' => mem_unique_of_nodup (cvm_nodup hc) hv' hin)
      have hgg : GraphGood g := hc.good (comp, g) (cvm_mem hin)
      obtain ⟨cb, hcb, hci⟩ := hok.1 incl hto
      have hf : g.findBuild incl = some cb := by rw [← hci]; exact hgg.find cb hcb
      obtain ⟨e, he, hlat⟩ := hgg.key cb hcb
      obtain ⟨lat, hlat'⟩ := Option.isSome_iff_exists.mp hlat
      obtain ⟨j, i⟩ := e
      simp only [hl, hf, he, hlat']
      exact ⟨_, rfl⟩

theorem plugTotal_mkPlug (hc : CompsGood comps) :
    PlugTotal (mkPlug comps) (BumpsGood (sortBy (fun a b => a.1 < b.1) (relevantComps comps))) :=
  { mkB := by
      intro rel pins l hl
      simp only [mkPlug]
      exact mkBumps_good hc pins hl _ (fun cg hcg => (List.mem_filter.mp hcg).1)
    pend := by
      intro x hx
      simp only [mkPlug]
      exact pendingBumps_total hc x hx }

/-! ### `get_rbuilds_in_bump` -/

theorem foldlM_total {σ α} (f : σ → α → Except Err σ) (G : α → Prop)
    (hf : ∀ s a, G a → ∃ s', f s a = .ok s') : ∀ (l : List α) (s : σ), (∀ a ∈ l, G a) → ∃ s', l.foldlM f s = .ok s' := by
  intro l
  induction l with
  | nil => intro s _; exact ⟨s, rfl⟩
  | cons a l ih =>
    intro s hG
    obtain ⟨s1, h1⟩ := hf s a (hG a (by simp))
    obtain ⟨s2, h2⟩ := ih s1 (fun x hx => hG x (by simp [hx]))
    exact ⟨s2, by rw [List.foldlM_cons, h1]; exact h2⟩

theorem rbClosure_total {g : Graph Bumps} (hg : GraphGood g) : ∀ (fuel : Nat) (seen : List Nat) (x : Nat),
    x < fuel → Norm g x → ∃ s, rbClosure g fuel seen x = .ok s := by
  intro fuel
  induction fuel with
  | zero => intro seen x hx; omega
  | succ fuel ih =>
    intro seen x hx hn
    rw [rbClosure]
    split
    · exact ⟨seen, rfl⟩
    · obtain ⟨b, hb, hbi⟩ := hn
      have hf : g.findBuild x = some b := by rw [← hbi]; exact hg.find b hb
      simp only [hf]
      apply foldlM_total (rbClosure g fuel) (fun p => p < fuel ∧ Norm g p)
      · intro s a ⟨h1, h2⟩; exact ih s a h1 h2
      · intro p hp
        obtain ⟨h1, pb, h2, h3⟩ := hg.par b hb p hp
        exact ⟨by omega, pb, h2, h3⟩

theorem inBump_total {g : Graph Bumps} (hg : GraphGood g) (stop : List Nat) : ∀ (fuel : Nat) (seen : List Nat) (x : Nat),
    x < fuel → Norm g x → ∃ s, inBump g stop fuel seen x = .ok s := by
  intro fuel
  induction fuel with
  | zero => intro seen x hx; omega
  | succ fuel ih =>
    intro seen x hx hn
    rw [inBump]
    split
    · exact ⟨seen, rfl⟩
    · obtain ⟨b, hb, hbi⟩ := hn
      have hf : g.findBuild x = some b := by rw [← hbi]; exact hg.find b hb
      simp only [hf]
      apply foldlM_total (inBump g stop fuel) (fun p => p < fuel ∧ Norm g p)
      · intro s a ⟨h1, h2⟩; exact ih s a h1 h2
      · intro p hp
        obtain ⟨h1, pb, h2, h3⟩ := hg.par b hb p hp
        exact ⟨by omega, pb, h2, h3⟩

theorem rbuildsInBump_total {g : Graph Bumps} (hg : GraphGood g) {b : Bump} (hb : BumpOk g b) :
    ∃ xs, rbuildsInBump g b = .ok xs := by
  unfold rbuildsInBump
  cases hto : b.toRb with
  | none => exact ⟨[], rfl⟩
  | some x =>
    simp only
    obtain ⟨known, hk⟩ := foldlM_total (fun seen f => rbClosure g (f + 1) seen f) (fun f => Norm g f)
      (fun s a ha => rbClosure_total hg (a + 1) s a (by omega) ha) b.fromRbs [] hb.2
    simp only [hk]
    exact inBump_total hg known (x + 1) [] x (by omega) (hb.1 x hto)

/-! ### the registration loop -/

theorem concatM_total {α} : ∀ (l : List (Except Err (List α))), (∀ x ∈ l, ∃ a, x = .ok a) → ∃ r, concatM l = .ok r := by
  intro l
  induction l with
  | nil => intro _; exact ⟨[], rfl⟩
  | cons x xs ih =>
    intro hall
    obtain ⟨a, rfl⟩ := hall x (by simp)
    obtain ⟨r, hr⟩ := ih (fun y hy => hall y (by simp [hy]))
    exact ⟨a ++ r, by simp only [concatM, hr]⟩

theorem registrations_total (hc : CompsGood comps) (repo : Nat) {g : Graph Bumps} (hgood : GraphGood g)
    (hJ : ∀ b ∈ g.builds, BumpsGood (sortBy (fun a b => a.1 < b.1) (relevantComps comps)) b.bumps)
    (hbr : ∀ rb ∈ g.branches, rb ∈ g.all) : ∃ regs, registrations repo comps g = .ok regs := by
  unfold registrations
  apply concatM_total
  intro x hx
  simp only [List.mem_flatMap, List.mem_map] at hx
  obtain ⟨rb, hrb, cg, hcg, b, hb, rfl⟩ := hx
  have hb' : b ∈ rb.rbuilds := (mem_sortBy _ _ _).mp hb
  unfold regsOfBuild
  split
  · exact ⟨[], rfl⟩
  · rename_i hbn
    split
    · exact ⟨[], rfl⟩
    · rename_i bump hl
      have hbg : b ∈ g.builds := hgood.kind rb (hbr rb hrb) b hb' hbn
      obtain ⟨g', hin, hok⟩ := hJ b hbg (cg.1, bump) (lookup_some_mem hl)
      have : g' = cg.2 := mem_unique_of_nodup hc.nodup (cvm_mem hin) hcg
      rw [this] at hok
      obtain ⟨xs, hxs⟩ := rbuildsInBump_total (hc.good cg hcg) hok
      simp only [hxs]
      exact ⟨_, rfl⟩

end

/-! ### the loop over the repositories -/

theorem rgraph_branches_sub {π β} {h : Hist π} {pl : Plug π β} {g : Graph β} (hg : rgraph h pl = .ok g) :
    ∀ rb ∈ g.branches, rb ∈ g.all := by
  unfold rgraph at hg
  split at hg
  · cases hg
  · cases hg
    intro rb hrb
    exact List.mem_reverse.mp (List.mem_filter.mp hrb).1

/-- the repositories analysed so far: different ids, graphs that are good to be read as components -/
structure AccGood (acc : List Analysed) : Prop where
  nodup : (acc.map (·.id)).Nodup
  good : ∀ a ∈ acc, GraphGood a.graph

theorem analyseAll_total (repos : List RepoIn) (hT : ∀ r ∈ repos, r.hist.Topo)
    (hrefs : ∀ r ∈ repos, ∀ ref ∈ r.hist.refs, ref.2 < r.hist.commits.length)
    (hlen : ∀ r ∈ repos, r.hist.commits.length ≤ Gen.Ghist.fakeStart) :
    ∀ (is : List Nat) (acc : List Analysed) (regs : List Reg),
      (∀ i ∈ is, ∃ r ∈ repos, r.id = i) → is.Nodup → (∀ i ∈ is, i ∉ acc.map (·.id)) → AccGood acc →
      ∃ res, analyseAll repos is acc regs = .ok res := by
  intro is
  induction is with
  | nil => intro acc regs _ _ _ _; exact ⟨_, rfl⟩
  | cons i is ih =>
    intro acc regs hex hnd hdis hacc
    obtain ⟨r0, hr0, hr0i⟩ := hex i (by simp)
    obtain ⟨r, hfind⟩ : ∃ r, repos.find? (fun r => r.id == i) = some r := by
      cases hf : repos.find? (fun r => r.id == i) with
      | some r => exact ⟨r, rfl⟩
      | none =>
        have := List.find?_eq_none.mp hf r0 hr0
        simp [hr0i] at this
    have hrm : r ∈ repos := List.mem_of_find?_eq_some hfind
    simp only [analyseAll, hfind]
    -- the components handed to `r`
    have hc : CompsGood ((acc.filter fun a => r.deps.contains a.id).map fun a => (a.id, a.graph)) :=
      { nodup := by
          rw [List.map_map]
          exact (List.Sublist.map _ (List.filter_sublist (l := acc))).nodup hacc.nodup
        good := by
          intro cg hcg
          obtain ⟨a, ha, rfl⟩ := List.mem_map.mp hcg
          exact hacc.good a (List.mem_filter.mp ha).1 }
    have hany : ((relevantComps ((acc.filter fun a => r.deps.contains a.id).map fun a => (a.id, a.graph))).any
        (fun cg => cg.2.minTs.isNone)) = false := by
      rw [List.any_eq_false]
      intro cg hcg
      simp only [relevantComps, List.mem_filter] at hcg
      have hne : cg.2.bnMapAll ≠ [] := by
        intro h0; rw [h0] at hcg; simp at hcg
      have := (hc.good cg hcg.1).ts hne
      cases hm : cg.2.minTs with
      | none => rw [hm] at this; cases this
      | some m => simp
    simp only [hany, Bool.false_eq_true, if_false]
    obtain ⟨g, hg, hJ⟩ := rgraph_total (hT r hrm) (plugTotal_mkPlug hc) (heads_of_refs (hrefs r hrm))
    have hgood := rgraph_good (hT r hrm) (hlen r hrm) hg
    obtain ⟨rs, hrs⟩ := registrations_total hc i hgood hJ (rgraph_branches_sub hg)
    simp only [hg, hrs]
    apply ih
    · intro j hj; exact hex j (List.mem_cons_of_mem _ hj)
    · exact (List.nodup_cons.mp hnd).2
    · intro j hj hmem
      simp only [List.map_append, List.map_cons, List.map_nil, List.mem_append, List.mem_singleton] at hmem
      rcases hmem with h1 | h1
      · exact hdis j (List.mem_cons_of_mem _ hj) h1
      · subst h1; exact (List.nodup_cons.mp hnd).1 hj
    · exact
        { nodup := by
            simp only [List.map_append, List.map_cons, List.map_nil]
            rw [List.nodup_append]
            refine ⟨hacc.nodup, by simp, ?_⟩
            intro a ha b hb
            simp only [List.mem_singleton] at hb
            subst hb
            intro hab; subst hab
            exact hdis a (by simp) ha
          good := by
            intro a ha
            rcases List.mem_append.mp ha with h1 | h1
            · exact hacc.good a h1
            · simp only [List.mem_singleton] at h1; subst h1; exact hgood }

/-! ### what `analyse` returns, in terms of `rgraph` and `registrations` -/

/-- the component graphs handed to the repository `r` : the graphs of the repositories analysed before it that it
names as components (the expression of `analyseAll`) -/
def compsOf (acc : List Analysed) (r : RepoIn) : List (Nat × Graph Bumps) :=
  (acc.filter fun a => r.deps.contains a.id).map fun a => (a.id, a.graph)

/-- the run of `analyseAll` step by step: every repository of the order list gets the graph `rgraph` computes for its
history with the plug of the components analysed before it, and contributes the registrations of that graph -/
theorem analyseAll_steps (repos : List RepoIn) : ∀ (is : List Nat) (acc : List Analysed) (regs : List Reg)
    (acc' : List Analysed) (regs' : List Reg), analyseAll repos is acc regs = .ok (acc', regs') →
    ∃ steps : List (Analysed × List Reg), acc' = acc ++ steps.map (·.1) ∧ regs' = regs ++ steps.flatMap (·.2) ∧
      steps.map (·.1.id) = is ∧
      ∀ k a rs, steps[k]? = some (a, rs) → ∃ rr, repos.find? (fun x => x.id == a.id) = some rr ∧
        rgraph rr.hist (mkPlug (compsOf (acc ++ (steps.take k).map (·.1)) rr)) = .ok a.graph ∧
        registrations a.id (compsOf (acc ++ (steps.take k).map (·.1)) rr) a.graph = .ok rs := by
  intro is
  induction is with
  | nil =>
    intro acc regs acc' regs' h
    simp only [analyseAll] at h
    cases h
    exact ⟨[], by simp, by simp, rfl, by intro k a rs hk; simp at hk⟩
  | cons i is ih =>
    intro acc regs acc' regs' h
    simp only [analyseAll] at h
    split at h
    · cases h
    · rename_i rr hfind
      split at h
      · cases h
      · split at h
        · cases h
        · rename_i g hg
          split at h
          · cases h
          · rename_i rs hrs
            obtain ⟨steps, h1, h2, h3, h4⟩ := ih _ _ _ _ h
            refine ⟨(⟨i, g⟩, rs) :: steps, by rw [h1]; simp, by rw [h2]; simp, by simp [h3], ?_⟩
            intro k a rs' hk
            cases k with
            | zero =>
              simp only [List.getElem?_cons_zero, Option.some.injEq, Prod.mk.injEq] at hk
              obtain ⟨rfl, rfl⟩ := hk
              exact ⟨rr, hfind, by simpa [compsOf] using hg, by simpa [compsOf] using hrs⟩
            | succ k =>
              obtain ⟨rr', hf', hg', hrs'⟩ := h4 k a rs' (by simpa using hk)
              exact ⟨rr', hf', by simpa [List.append_assoc] using hg', by simpa [List.append_assoc] using hrs'⟩

end Ghist
