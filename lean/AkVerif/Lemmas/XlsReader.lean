import AkVerif.Lemmas.XlsRows
/-!
Helper lemmas for C18, seventh part: a reader with several rule sets (`iterTableM`) yields, per
rule set, what `iterTable` yields for that rule set configured with the reader's known titles.
-/
namespace Xls
open Ak

theorem constructAll_get {V : Type} (cv : Conv V) :
    ∀ (cfgs : List (Cfg V)) (slotss : List (List Slot)) (ks : List Nat) (row : Row)
      (os : List (Option (Obj V))), constructAll cv cfgs slotss ks row = .ok os →
      ∀ (j : Nat) c sl k, cfgs[j]? = some c → slotss[j]? = some sl → ks[j]? = some k →
        ∃ o, os[j]? = some o ∧ construct cv c.numId c.rules sl k row = .ok o := by
  intro cfgs
  induction cfgs with
  | nil => intro slotss ks row os _ j c sl k hc; simp at hc
  | cons c0 cs ih =>
    intro slotss ks row os h j c sl k hc hsl hk
    cases slotss with
    | nil => simp at hsl
    | cons sl0 sls =>
      cases ks with
      | nil => simp at hk
      | cons k0 ks' =>
        simp only [constructAll] at h
        split at h
        · cases h
        · rename_i o0 ho0
          split at h
          · cases h
          · rename_i os' hos'
            cases h
            cases j with
            | zero =>
              simp at hc hsl hk; subst hc; subst hsl; subst hk
              exact ⟨o0, by simp, ho0⟩
            | succ j =>
              obtain ⟨o, h1, h2⟩ := ih sls ks' row os' hos' j c sl k (by simpa using hc)
                (by simpa using hsl) (by simpa using hk)
              exact ⟨o, by simpa using h1, h2⟩

theorem nextKs_get {V : Type} :
    ∀ (cfgs : List (Cfg V)) (slotss : List (List Slot)) (ks : List Nat) (row : Row)
      (j : Nat) c sl k, cfgs[j]? = some c → slotss[j]? = some sl → ks[j]? = some k →
        (nextKs cfgs slotss ks row)[j]? = some (nextK c.numId sl k row) := by
  intro cfgs
  induction cfgs with
  | nil => intro slotss ks row j c sl k hc; simp at hc
  | cons c0 cs ih =>
    intro slotss ks row j c sl k hc hsl hk
    cases slotss with
    | nil => simp at hsl
    | cons sl0 sls =>
      cases ks with
      | nil => simp at hk
      | cons k0 ks' =>
        simp only [nextKs]
        cases j with
        | zero => simp at hc hsl hk; subst hc; subst hsl; subst hk; simp
        | succ j =>
          simpa using ih sls ks' row j c sl k (by simpa using hc) (by simpa using hsl)
            (by simpa using hk)

/-- the rows of the reader, seen from its `j`-th rule set, are the results of that rule set -/
theorem dataRowsM_proj {V : Type} (cv : Conv V) (stop : Stop) (cfgs : List (Cfg V))
    (slotss : List (List Slot)) (p : Option Nat) (j : Nat) (c : Cfg V) (sl : List Slot)
    (hc : cfgs[j]? = some c) (hsl : slotss[j]? = some sl) (hstop : c.stop = stop) :
    ∀ (rows : List Row) (ks : List Nat) (k : Nat) (prev : Option Row), ks[j]? = some k →
      (∀ (i : Nat) res, (dataRowsM cv stop cfgs slotss p ks prev rows).rows[i]? = some res →
        ∃ o, res[j]? = some o ∧ (dataRows cv c sl p k prev rows).objs[i]? = some o) ∧
      ((dataRowsM cv stop cfgs slotss p ks prev rows).err = none →
        (dataRows cv c sl p k prev rows).err = none ∧
        (dataRows cv c sl p k prev rows).objs.length
          = (dataRowsM cv stop cfgs slotss p ks prev rows).rows.length) := by
  intro rows
  induction rows with
  | nil => intro ks k prev _; simp [dataRowsM, dataRows]
  | cons row rest ih =>
    intro ks k prev hk
    simp only [dataRowsM, dataRows, hstop]
    cases he : endFires stop row with
    | error e => simp
    | ok b =>
      cases b with
      | true => simp
      | false =>
        simp only []
        cases hcur : curRow p prev row with
        | error e => simp
        | ok cur =>
          simp only []
          cases hall : constructAll cv cfgs slotss ks cur with
          | error e => simp
          | ok os =>
            obtain ⟨o, ho1, ho2⟩ := constructAll_get cv cfgs slotss ks cur os hall j c sl k hc hsl hk
            have hk' := nextKs_get cfgs slotss ks cur j c sl k hc hsl hk
            obtain ⟨ih1, ih2⟩ := ih (nextKs cfgs slotss ks cur) (nextK c.numId sl k cur) (some cur) hk'
            simp only [ho2]
            constructor
            · intro i res hres
              cases i with
              | zero => simp at hres; subst hres; exact ⟨o, ho1, by simp⟩
              | succ i =>
                obtain ⟨o', h1, h2⟩ := ih1 i res (by simpa using hres)
                exact ⟨o', h1, by simpa using h2⟩
            · intro herr
              obtain ⟨g1, g2⟩ := ih2 herr
              exact ⟨g1, by simp [g2]⟩

theorem mem_allKnown {V : Type} : ∀ (sets : List (Nat × List (Rule V))) (s : Nat × List (Rule V))
    (t : Key), s ∈ sets → t ∈ knownTitles s.2 → t ∈ allKnown sets := by
  intro sets
  induction sets with
  | nil => intro s t h; cases h
  | cons a as ih =>
    intro s t hs ht
    simp only [allKnown, List.mem_append]
    simp only [List.mem_cons] at hs
    rcases hs with hs | hs
    · subst hs; exact Or.inl ht
    · exact Or.inr (ih s t hs ht)

theorem iterTableM_proj {V : Type} (cv : Conv V) (r : Reader V) (j : Nat) (c : Cfg V)
    (hc : r.cfgs[j]? = some c) :
    ∀ (s : Sheet),
      (∀ (i : Nat) res, (iterTableM cv r s).rows[i]? = some res →
        ∃ o, res[j]? = some o ∧ (iterTable cv c s).objs[i]? = some o) ∧
      ((iterTableM cv r s).err = none →
        (iterTable cv c s).err = none ∧
        (iterTable cv c s).objs.length = (iterTableM cv r s).rows.length) := by
  have hcfg : ∃ st, r.sets[j]? = some st ∧ c = r.cfgOf st := by
    unfold Reader.cfgs at hc
    rw [List.getElem?_map] at hc
    cases hs : r.sets[j]? with
    | none => rw [hs] at hc; cases hc
    | some st => rw [hs] at hc; simp at hc; exact ⟨st, rfl, hc.symm⟩
  obtain ⟨st, _, hceq⟩ := hcfg
  have hstop : c.stop = r.stop := by rw [hceq]; rfl
  have hlad : c.ladder = r.ladder := by rw [hceq]; rfl
  intro s
  induction s with
  | nil => simp [iterTableM, iterTable]
  | cons row rest ih =>
    simp only [iterTableM, iterTable]
    by_cases hre : rowEmpty row = true
    · simp only [hre, if_true]; exact ih
    · have hre' : rowEmpty row = false := by
        cases hr : rowEmpty row with
        | false => rfl
        | true => exact absurd hr hre
      simp only [hre', Bool.false_eq_true, if_false]
      cases hb : bindAll (row.map fun c => titleOf c.val) r.cfgs with
      | error e => simp
      | ok slotss =>
        simp only []
        unfold bindAll at hb
        obtain ⟨sl, hsl, hbs⟩ := mapE_get' _ _ _ hb j c hc
        rw [hbs]
        simp only [ladderPos, hlad]
        exact dataRowsM_proj cv r.stop r.cfgs slotss _ j c sl hc hsl hstop rest
          (r.cfgs.map fun _ => 0) 0 none (by rw [List.getElem?_map, hc]; rfl)

end Xls
