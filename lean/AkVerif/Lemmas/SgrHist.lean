import AkVerif.Model.SgrText
import AkVerif.Lemmas.SgrText
import AkVerif.Lemmas.CHText
/-! Helper lemmas for C09, part 3: `CHText` values (model of C08) rendered through a palette of
formatters; histories of one object; several calls in one process. -/
namespace SgrText
open Ak Sgr

/-- every colour id of the palette stands for a formatter whose prefix/suffix do what was requested -/
def PalGood (k : CharClass) (fin : Char) (pal : Palette) (attrs : List Attr) : Prop :=
  ∀ col p q, entry pal col = some (p, q) →
    ∃ a, attrOf attrs col = some a ∧ PreShows p a ∧ SufResets q a ∧
      Strippable k fin p ∧ Strippable k fin q

theorem palGood_of_specs (k : CharClass) (fin : Char)
    (hk : ∀ c ∈ ';' :: codeAlphabet, k.mem c = true) (hfin : fin = 'm') (hm : k.mem fin = false)
    (specs : List Spec) (pal : Palette) (attrs : List Attr)
    (hp : mkPalette std specs = .ok pal) (ha : wantedAttrs specs = some attrs) :
    PalGood k fin pal attrs := by
  intro col p q he
  cases col with
  | zero =>
    simp [entry] at he
    obtain ⟨rfl, rfl⟩ := he
    exact ⟨Attr.default, rfl, fun _ => rfl, fun _ => rfl, fun _ => rfl, fun _ => rfl⟩
  | succ i =>
    simp only [entry] at he
    induction specs generalizing pal attrs i with
    | nil => simp [mkPalette] at hp; subst hp; simp at he
    | cons s rest ih =>
      simp only [mkPalette] at hp
      simp only [wantedAttrs] at ha
      cases hs : mkSeq std s with
      | error e => simp [hs] at hp
      | ok pq =>
        cases hr : mkPalette std rest with
        | error e => simp [hs, hr] at hp
        | ok es =>
          simp [hs, hr] at hp; subst hp
          cases hw : wantedAttr s with
          | none => simp [hw] at ha
          | some a =>
            cases hwr : wantedAttrs rest with
            | none => simp [hw, hwr] at ha
            | some as =>
              simp [hw, hwr] at ha; subst ha
              cases i with
              | zero =>
                simp at he; subst he
                obtain ⟨p', q', hpq, hpre, hsuf⟩ := mkSeq_shows s a hw
                rw [hs] at hpq; cases hpq
                obtain ⟨h1, h2⟩ := mkSeq_strippable k fin hk hfin hm s p q hs
                exact ⟨a, rfl, hpre, hsuf, h1, h2⟩
              | succ j =>
                simp at he
                exact ih es as hr hwr j he

theorem mkPalette_invalid (specs : List Spec) (h : wantedAttrs specs = none) :
    mkPalette std specs = .error .valueError := by
  induction specs with
  | nil => simp [wantedAttrs] at h
  | cons s rest ih =>
    simp only [wantedAttrs] at h
    simp only [mkPalette]
    cases hw : wantedAttr s with
    | none => simp [mkSeq_invalid s hw]
    | some a =>
      obtain ⟨p, q, hpq, _⟩ := mkSeq_shows s a hw
      cases hr : wantedAttrs rest with
      | none => simp [hpq, ih hr]
      | some as => simp [hw, hr] at h

/-- any chunk list rendered through a good palette: shown cells, final state, stripping -/
theorem toChunks_shows (k : CharClass) (fin : Char) (pal : Palette) (attrs : List Attr)
    (hg : PalGood k fin pal attrs) (chunks : List CHText.Chunk) (scs : List Sgr.Chunk)
    (h : toChunks pal chunks = some scs)
    (hne : NoEsc ((CHText.cellsOf chunks).map Prod.fst)) :
    ∃ screen, screenOf attrs (CHText.cellsOf chunks) = some screen ∧
      (∀ rest, run .ground Attr.default (render scs ++ rest) =
        prepend screen (run .ground Attr.default rest)) ∧
      (∀ rest, strip k fin (render scs ++ rest) =
        (CHText.cellsOf chunks).map Prod.fst ++ strip k fin rest) := by
  induction chunks generalizing scs with
  | nil =>
    simp [toChunks] at h; subst h
    exact ⟨[], rfl, fun rest => by simp [render, prepend_nil], fun rest => by simp [render]⟩
  | cons c cs ih =>
    simp only [toChunks] at h
    cases he : entry pal c.col with
    | none => simp [he] at h
    | some pq =>
      obtain ⟨p, q⟩ := pq
      cases hr : toChunks pal cs with
      | none => simp [he, hr] at h
      | some rest' =>
        simp [he, hr] at h; subst h
        have hsplit : NoEsc c.text ∧ NoEsc ((CHText.cellsOf cs).map Prod.fst) := by
          have : (CHText.cellsOf (c :: cs)).map Prod.fst = c.text ++ (CHText.cellsOf cs).map Prod.fst := by
            simp [CHText.cellsOf, CHText.Chunk.cells, List.map_map, Function.comp_def]
          rw [this] at hne
          exact NoEsc_append.mp hne
        obtain ⟨a, hattr, hpre, hsuf, hsp, hsq⟩ := hg c.col p q he
        obtain ⟨screen, hscreen, hrun, hstrip⟩ := ih rest' hr hsplit.2
        refine ⟨c.text.map (fun x => (x, a)) ++ screen, ?_, ?_, ?_⟩
        · have hcells : ∀ (t : List Char) (tail : CHText.Cells) (sc : List (Char × Attr)),
              screenOf attrs tail = some sc →
              screenOf attrs (t.map (fun x => (x, c.col)) ++ tail) = some (t.map (fun x => (x, a)) ++ sc) := by
            intro t tail sc htail
            induction t with
            | nil => simpa using htail
            | cons x t iht => simp [screenOf, hattr, iht]
          simpa [CHText.cellsOf, CHText.Chunk.cells] using hcells c.text _ screen hscreen
        · intro rest
          simp only [render, List.append_assoc]
          rw [run_chunk ⟨p, c.text, q⟩ a ⟨hpre, hsuf, hsplit.1⟩, hrun rest, prepend_append]
        · intro rest
          simp only [render, List.append_assoc]
          rw [hsp, strip_text k fin _ _ hsplit.1, hsq, hstrip rest]
          simp [CHText.cellsOf, CHText.Chunk.cells, List.map_map, Function.comp_def]

/-! ### histories -/

/-- what the cells of the object should be at every observation (plain list operations) -/
def histCells (cells : CHText.Cells) : List HOp → List CHText.Cells
  | [] => []
  | .look :: ops => cells :: histCells cells ops
  | .app col s :: ops => histCells (cells ++ s.map (fun x => (x, col))) ops
  | .str s :: ops => histCells (cells ++ s.map (fun x => (x, 0))) ops
  | .self :: ops => histCells (cells ++ cells) ops
  | .selfList :: ops => histCells (cells ++ cells) ops
  | .clone :: ops => histCells cells ops

theorem histRun_cells (t : CHText.Text) (ops : List HOp) :
    (histRun t ops).map CHText.Text.cells = histCells t.cells ops := by
  induction ops generalizing t with
  | nil => rfl
  | cons op ops ih =>
    cases op with
    | look => simp [histRun, histCells, ih]
    | app col s =>
      simp only [histRun, histCells, HOp.apply]
      rw [ih, CHText.iadd_cells]; rfl
    | str s =>
      simp only [histRun, histCells, HOp.apply]
      rw [ih, CHText.iadd_cells]; rfl
    | self =>
      simp only [histRun, histCells, HOp.apply]
      rw [ih, CHText.iadd_cells]; rfl
    | selfList =>
      simp only [histRun, histCells, HOp.apply]
      rw [ih, CHText.iadd_cells]
      simp [CHText.Part.cells, CHText.Part.cellsList]
    | clone =>
      simp only [histRun, histCells, HOp.apply]
      rw [ih, CHText.construct_cells]
      simp [CHText.Part.cells, CHText.Part.cellsList]

/-! ### several calls in one process -/

/-- the object each call leaves behind -/
def objOf (cfg : SgrCfg) : Call → Option FmtObj
  | .fmt s t => (callFmt cfg s t).2
  | _ => none

/-- the answer to one call, given the objects made by the calls before it -/
def answer (cfg : SgrCfg) (objs : List (Option FmtObj)) : Call → CallResult
  | .fmt s t => (callFmt cfg s t).1
  | .bytes s b => callBytes cfg s b
  | .again k t => callAgain objs k t
  | .plain t => (callFmt cfg plainSpec t).1

theorem runCalls_get (cfg : SgrCfg) (objs : List (Option FmtObj)) (calls : List Call) (i : Nat)
    (c : Call) (h : calls[i]? = some c) :
    (runCalls cfg objs calls)[i]? = some (answer cfg (objs ++ (calls.take i).map (objOf cfg)) c) := by
  induction calls generalizing objs i with
  | nil => simp at h
  | cons d rest ih =>
    cases i with
    | zero =>
      simp at h; subst h
      cases d <;> simp [runCalls, answer]
    | succ j =>
      simp at h
      have := ih (objs ++ [objOf cfg d]) j h
      cases d <;> simpa [runCalls, objOf, List.append_assoc] using this

/-! ### colour ids and prefixes: the abstraction of the CHText model -/

/-- `_append_chunk` on prefix/suffix chunks, one chunk at a time (what the code does) -/
def pushS : List Sgr.Chunk → Sgr.Chunk → List Sgr.Chunk
  | [], c => [c]
  | [p], c => if p.pre = c.pre then [{ p with text := p.text ++ c.text }] else [p, c]
  | p :: q :: ps, c => p :: pushS (q :: ps) c

def appendS (acc : List Sgr.Chunk) (c : Sgr.Chunk) : List Sgr.Chunk :=
  if c.text = [] then acc else pushS acc c

theorem buildGo_some_push (p : Sgr.Chunk) (init : List Sgr.Chunk) (cs : List Sgr.Chunk) :
    init ++ buildGo (some p) cs = cs.foldl appendS (init ++ [p]) := by
  induction cs generalizing p init with
  | nil => simp [buildGo]
  | cons c cs ih =>
    have hpush : ∀ (init : List Sgr.Chunk) (p c : Sgr.Chunk),
        pushS (init ++ [p]) c =
          if p.pre = c.pre then init ++ [{ p with text := p.text ++ c.text }] else init ++ [p, c] := by
      intro init p c
      induction init with
      | nil => simp [pushS]
      | cons a init iha =>
        cases init with
        | nil => simp [pushS]; split <;> rfl
        | cons b init => simp only [List.cons_append] at iha ⊢; simp only [pushS, iha]; split <;> rfl
    simp only [buildGo, List.foldl_cons, appendS]
    split
    · exact ih p init
    · rw [hpush]
      split
      · exact ih _ init
      · have := ih c (init ++ [p])
        simpa using this

theorem buildChunks_foldl (cs : List Sgr.Chunk) : buildChunks cs = cs.foldl appendS [] := by
  unfold buildChunks
  induction cs with
  | nil => rfl
  | cons c cs ih =>
    simp only [buildGo, List.foldl_cons, appendS]
    split
    · exact ih
    · have := buildGo_some_push c [] cs
      simpa [pushS] using this

/-- a chunk of the CHText model as the code's chunk object -/
def toS (pre suf : Nat → List Char) (c : CHText.Chunk) : Sgr.Chunk := ⟨pre c.col, c.text, suf c.col⟩

theorem pushS_map (pre suf : Nat → List Char) (cs : List CHText.Chunk) (c : CHText.Chunk)
    (hinj : ∀ d ∈ cs, pre d.col = pre c.col → d.col = c.col) :
    pushS (cs.map (toS pre suf)) (toS pre suf c) = (CHText.pushChunk cs c).map (toS pre suf) := by
  induction cs with
  | nil => rfl
  | cons p ps ih =>
    cases ps with
    | nil =>
      simp only [List.map_cons, List.map_nil, pushS, CHText.pushChunk, toS]
      by_cases h : p.col = c.col
      · simp [h, toS]
      · have : pre p.col ≠ pre c.col := fun he => h (hinj p (by simp) he)
        simp [h, this, toS]
    | cons q qs =>
      simp only [List.map_cons, pushS, CHText.pushChunk]
      have := ih (fun d hd => hinj d (by simp [hd]))
      simp only [List.map_cons] at this
      rw [this]

theorem pushChunk_cols (cs : List CHText.Chunk) (c d : CHText.Chunk) (h : d ∈ CHText.pushChunk cs c) :
    d.col = c.col ∨ ∃ e ∈ cs, d.col = e.col := by
  induction cs with
  | nil => simp [CHText.pushChunk] at h; exact Or.inl (by rw [h])
  | cons p ps ih =>
    cases ps with
    | nil =>
      simp only [CHText.pushChunk] at h
      split at h
      · simp at h; subst h; exact Or.inr ⟨p, by simp, rfl⟩
      · simp at h
        rcases h with rfl | rfl
        · exact Or.inr ⟨d, by simp, rfl⟩
        · exact Or.inl rfl
    | cons q qs =>
      simp only [CHText.pushChunk, List.mem_cons] at h
      rcases h with rfl | h
      · exact Or.inr ⟨d, by simp, rfl⟩
      · rcases ih (by simpa [List.mem_cons] using h) with h' | ⟨e, he, h'⟩
        · exact Or.inl h'
        · exact Or.inr ⟨e, by simp at he ⊢; right; exact he, h'⟩

/-- prefixes and colour ids correspond one to one on the ids in `ids` -/
def InjOn (pre : Nat → List Char) (ids : List Nat) : Prop :=
  ∀ i ∈ ids, ∀ j ∈ ids, pre i = pre j → i = j

theorem appendChunks_map (pre suf : Nat → List Char) (ids : List Nat) (hinj : InjOn pre ids)
    (t : CHText.Text) (cs : List CHText.Chunk)
    (ht : ∀ d ∈ t.chunks, d.col ∈ ids) (hcs : ∀ d ∈ cs, d.col ∈ ids) :
    (cs.map (toS pre suf)).foldl appendS (t.chunks.map (toS pre suf)) =
      (CHText.appendChunks t cs).chunks.map (toS pre suf) := by
  induction cs generalizing t with
  | nil => rfl
  | cons c cs ih =>
    simp only [List.map_cons, List.foldl_cons, CHText.appendChunks]
    have hc := hcs c (by simp)
    have hstep : appendS (t.chunks.map (toS pre suf)) (toS pre suf c) =
        (CHText.appendChunk t c).chunks.map (toS pre suf) := by
      by_cases hempty : c.text = []
      · simp [appendS, CHText.appendChunk, toS, hempty]
      · have := pushS_map pre suf t.chunks c (fun d hd he => hinj d.col (ht d hd) c.col hc he)
        simpa [appendS, CHText.appendChunk, toS, hempty] using this
    rw [hstep]
    apply ih
    · intro d hd
      simp only [CHText.appendChunk] at hd
      split at hd
      · exact ht d hd
      · rcases pushChunk_cols t.chunks c d hd with h | ⟨e, he, h⟩
        · rw [h]; exact hc
        · rw [h]; exact ht e he
    · intro d hd; exact hcs d (by simp [hd])

/-- the abstraction of the CHText model is sound: the code compares *prefixes* when it decides to
merge a chunk into the previous one, the model compares *colour ids*; when ids and prefixes
correspond one to one both build the same chunk list -/
theorem fromChunks_map (pre suf : Nat → List Char) (ids : List Nat) (hinj : InjOn pre ids)
    (cs : List CHText.Chunk) (hcs : ∀ d ∈ cs, d.col ∈ ids) :
    buildChunks (cs.map (toS pre suf)) = (CHText.fromChunks cs).chunks.map (toS pre suf) := by
  rw [buildChunks_foldl]
  exact appendChunks_map pre suf ids hinj CHText.Text.empty cs (by simp [CHText.Text.empty]) hcs

theorem distinct_getElem (l : List (List Char)) (h : distinct l = true) (i j : Nat) (a : List Char)
    (hi : l[i]? = some a) (hj : l[j]? = some a) : i = j := by
  induction l generalizing i j with
  | nil => simp at hi
  | cons x xs ih =>
    simp only [distinct, Bool.and_eq_true, Bool.not_eq_true', List.contains_eq_mem,
      decide_eq_false_iff_not] at h
    cases i with
    | zero =>
      cases j with
      | zero => rfl
      | succ j =>
        simp at hi hj; subst hi
        exact absurd (List.mem_of_getElem? hj) h.1
    | succ i =>
      cases j with
      | zero =>
        simp at hi hj; subst hj
        exact absurd (List.mem_of_getElem? hi) h.1
      | succ j =>
        simp at hi hj
        rw [ih h.2 i j hi hj]

/-- prefix of colour id `i` in a palette (`[]` also for ids outside the palette) -/
def prefixOf (pal : Palette) (i : Nat) : List Char :=
  match entry pal i with
  | some e => e.1
  | none => []

def suffixOf (pal : Palette) (i : Nat) : List Char :=
  match entry pal i with
  | some e => e.2
  | none => []

/-- the check the driver makes on every palette gives the one-to-one correspondence -/
theorem palOk_inj (pal : Palette) (h : palOk pal = true) :
    InjOn (prefixOf pal) (List.range (pal.length + 1)) := by
  simp only [palOk, Bool.and_eq_true, List.all_eq_true, Bool.not_eq_true'] at h
  obtain ⟨hne, hd⟩ := h
  have hpre : ∀ i, i < pal.length → ∃ e, pal[i]? = some e ∧ prefixOf pal (i + 1) = e.1 ∧ e.1 ≠ [] := by
    intro i hi
    refine ⟨pal[i], by simp [hi], by simp [prefixOf, entry, hi], ?_⟩
    have := hne pal[i] (List.getElem_mem hi)
    intro he; simp [he] at this
  intro i hi j hj hij
  simp only [List.mem_range] at hi hj
  cases i with
  | zero =>
    cases j with
    | zero => rfl
    | succ j =>
      obtain ⟨e, _, h2, h3⟩ := hpre j (by omega)
      rw [h2] at hij
      exact absurd hij.symm (by simpa [prefixOf, entry] using h3)
  | succ i =>
    cases j with
    | zero =>
      obtain ⟨e, _, h2, h3⟩ := hpre i (by omega)
      rw [h2] at hij
      exact absurd hij (by simpa [prefixOf, entry] using h3)
    | succ j =>
      obtain ⟨e, he1, he2, _⟩ := hpre i (by omega)
      obtain ⟨f, hf1, hf2, _⟩ := hpre j (by omega)
      rw [he2, hf2] at hij
      have h1 : (pal.map Prod.fst)[i]? = some e.1 := by simp [he1]
      have h2 : (pal.map Prod.fst)[j]? = some e.1 := by simp [hf1, hij]
      rw [distinct_getElem _ hd i j e.1 h1 h2]

theorem toChunks_eq_map (pal : Palette) (cs : List CHText.Chunk) (h : ∀ d ∈ cs, d.col < pal.length + 1) :
    toChunks pal cs = some (cs.map (toS (prefixOf pal) (suffixOf pal))) := by
  induction cs with
  | nil => rfl
  | cons c cs ih =>
    have hc := h c (by simp)
    have : ∃ e, entry pal c.col = some e := by
      cases hcol : c.col with
      | zero => exact ⟨_, rfl⟩
      | succ i =>
        have hi : i < pal.length := by
          have h1 : c.col < pal.length + 1 := h c (by simp)
          rw [hcol] at h1
          exact Nat.lt_of_succ_lt_succ h1
        exact ⟨pal[i], by simp [entry, hi]⟩
    obtain ⟨e, he⟩ := this
    simp only [toChunks, he, ih (fun d hd => h d (by simp [hd])), List.map_cons, toS, prefixOf, suffixOf]

theorem appendChunks_cols (t : CHText.Text) (cs : List CHText.Chunk) (d : CHText.Chunk)
    (h : d ∈ (CHText.appendChunks t cs).chunks) : (∃ e ∈ t.chunks, d.col = e.col) ∨ ∃ e ∈ cs, d.col = e.col := by
  induction cs generalizing t with
  | nil => exact Or.inl ⟨d, h, rfl⟩
  | cons c cs ih =>
    simp only [CHText.appendChunks] at h
    rcases ih _ h with ⟨e, he, hd⟩ | ⟨e, he, hd⟩
    · simp only [CHText.appendChunk] at he
      split at he
      · exact Or.inl ⟨e, he, hd⟩
      · rcases pushChunk_cols t.chunks c e he with h' | ⟨f, hf, h'⟩
        · exact Or.inr ⟨c, by simp, by rw [hd, h']⟩
        · exact Or.inl ⟨f, hf, by rw [hd, h']⟩
    · exact Or.inr ⟨e, by simp [he], hd⟩
/-! ### chunk lists given as data (the judged path of the driver) -/

theorem dropLast_getLast {α} (l : List α) (a : α) (h : l.getLast? = some a) : l = l.dropLast ++ [a] := by
  induction l with
  | nil => simp at h
  | cons x xs ih =>
    cases xs with
    | nil => simp at h; simp [h]
    | cons y ys =>
      have : (y :: ys).getLast? = some a := by simpa [List.getLast?_cons_cons] using h
      have := ih this
      simp only [List.dropLast_cons_cons, List.cons_append]
      rw [← this]

theorem seqBody_eq (p body : List Char) (h : seqBody p = some body) :
    p = ESC :: '[' :: (body ++ ['m']) := by
  match p, h with
  | a :: b :: rest, h =>
    simp only [seqBody] at h
    split at h
    · rename_i hc
      obtain ⟨rfl, rfl, hl⟩ := hc
      simp at h; subst h
      rw [← dropLast_getLast rest 'm' hl]
    · simp at h

theorem paramAlphabet_facts :
    ∀ c ∈ paramAlphabet, isParamChar c = true ∧ c ∈ ';' :: codeAlphabet := by decide +kernel

theorem rawOk_good (k : CharClass) (fin : Char)
    (hk : ∀ c ∈ ';' :: codeAlphabet, k.mem c = true) (hfin : fin = 'm') (hm : k.mem fin = false)
    (p q : List Char) (h : rawOk p q = true) :
    ∃ a, rawAttr p = some a ∧ PreShows p a ∧ SufResets q a ∧ Strippable k fin p ∧ Strippable k fin q := by
  have hnil : Strippable k fin [] := fun _ => rfl
  by_cases hp : p = []
  · subst hp
    cases q with
    | nil => exact ⟨Attr.default, rfl, fun _ => rfl, fun _ => rfl, hnil, hnil⟩
    | cons c cs =>
      simp only [rawOk, rawAttr] at h
      generalize seqBody (c :: cs) = o at h
      cases o <;> simp at h
  · have hro : rawOk p q = (match rawAttr p, seqBody q with
        | some a, some body => body.all paramAlphabet.contains && applySgr body a == some Attr.default && !p.isEmpty
        | _, _ => false) := by
      cases p with
      | nil => exact absurd rfl hp
      | cons c cs => rfl
    rw [hro] at h
    cases ha : rawAttr p with
    | none => simp [ha] at h
    | some a =>
      cases hq : seqBody q with
      | none => simp [ha, hq] at h
      | some bq =>
        simp only [ha, hq, Bool.and_eq_true, beq_iff_eq] at h
        obtain ⟨⟨hbq, hreset⟩, _⟩ := h
        have hqeq := seqBody_eq q bq hq
        -- the prefix
        have hpa : ∃ bp, seqBody p = some bp ∧ bp.all paramAlphabet.contains = true ∧
            applySgr bp Attr.default = some a := by
          cases p with
          | nil => exact absurd rfl hp
          | cons c cs =>
            simp only [rawAttr] at ha
            cases hb : seqBody (c :: cs) with
            | none => simp [hb] at ha
            | some bp =>
              simp only [hb] at ha
              split at ha
              · rename_i hall; exact ⟨bp, rfl, hall, ha⟩
              · simp at ha
        obtain ⟨bp, hbp, hallp, happ⟩ := hpa
        have hpeq := seqBody_eq p bp hbp
        have memp : ∀ c ∈ bp, c ∈ paramAlphabet := by
          intro c hc; have := List.all_eq_true.mp hallp c hc; simpa using this
        have memq : ∀ c ∈ bq, c ∈ paramAlphabet := by
          intro c hc; have := List.all_eq_true.mp hbq c hc; simpa using this
        refine ⟨a, rfl, ?_, ?_, ?_, ?_⟩
        · intro rest
          have := run_seq bp rest Attr.default (fun c hc => (paramAlphabet_facts c (memp c hc)).1)
          rw [hpeq]; simpa [happ] using this
        · intro rest
          have := run_seq bq rest a (fun c hc => (paramAlphabet_facts c (memq c hc)).1)
          rw [hqeq]; simpa [hreset] using this
        · intro rest
          have := strip_seq k fin bp rest (fun c hc => hk c (paramAlphabet_facts c (memp c hc)).2) hm
          subst hfin; rw [hpeq]; simpa using this
        · intro rest
          have := strip_seq k fin bq rest (fun c hc => hk c (paramAlphabet_facts c (memq c hc)).2) hm
          subst hfin; rw [hqeq]; simpa using this

/-- the judged path: a given chunk list (ids through a good palette, raw chunks well formed) -/
theorem given_shows (k : CharClass) (fin : Char)
    (hk : ∀ c ∈ ';' :: codeAlphabet, k.mem c = true) (hfin : fin = 'm') (hm : k.mem fin = false)
    (pal : Palette) (attrs : List Attr) (hg : PalGood k fin pal attrs)
    (gs : List Given) (cs : List Sgr.Chunk) (h : givenChunks pal gs = some cs)
    (hok : ∀ g ∈ gs, g.ok = true) (hne : ∀ g ∈ gs, NoEsc g.text) :
    ∃ screen, givenScreen attrs gs = some screen ∧
      (∀ rest, run .ground Attr.default (render cs ++ rest) =
        prepend screen (run .ground Attr.default rest)) ∧
      AllChunks (fun p q => ∃ a, PreShows p a ∧ SufResets q a) cs ∧
      (∀ rest, strip k fin (render cs ++ rest) = gs.flatMap Given.text ++ strip k fin rest) ∧
      plain cs = gs.flatMap Given.text := by
  induction gs generalizing cs with
  | nil =>
    simp [givenChunks] at h; subst h
    exact ⟨[], rfl, fun rest => by simp [render, prepend_nil], fun c hc => by simp at hc,
      fun rest => by simp [render], rfl⟩
  | cons g gs ih =>
    simp only [givenChunks] at h
    cases hc : givenChunk pal g with
    | none => simp [hc] at h
    | some c =>
      cases hr : givenChunks pal gs with
      | none => simp [hc, hr] at h
      | some cs' =>
        simp [hc, hr] at h; subst h
        obtain ⟨screen, hscreen, hrun, hall, hstrip, hplain⟩ :=
          ih cs' hr (fun x hx => hok x (by simp [hx])) (fun x hx => hne x (by simp [hx]))
        have hte := hne g (by simp)
        -- the chunk `c` is good with some attribute `a` that `givenScreen` also finds
        have hgood : ∃ a, g.attr attrs = some a ∧ c.text = g.text ∧
              PreShows c.pre a ∧ SufResets c.suf a ∧ Strippable k fin c.pre ∧ Strippable k fin c.suf := by
          cases g with
          | byId col t =>
            simp only [givenChunk] at hc
            cases he : entry pal col with
            | none => simp [he] at hc
            | some e =>
              simp [he] at hc; subst hc
              obtain ⟨a, h1, h2, h3, h4, h5⟩ := hg col e.1 e.2 (by simp [he])
              exact ⟨a, h1, rfl, h2, h3, h4, h5⟩
          | raw p q t =>
            simp [givenChunk] at hc; subst hc
            have := hok (.raw p q t) (by simp)
            obtain ⟨a, h1, h2, h3, h4, h5⟩ := rawOk_good k fin hk hfin hm p q this
            exact ⟨a, h1, rfl, h2, h3, h4, h5⟩
        obtain ⟨a, hattr, htext, hpre, hsuf, hsp, hsq⟩ := hgood
        have hnoesc : NoEsc c.text := htext ▸ hte
        refine ⟨g.text.map (fun x => (x, a)) ++ screen, ?_, ?_, ?_, ?_, ?_⟩
        · simp only [givenScreen, hattr, hscreen]
        · intro rest
          simp only [render, List.append_assoc]
          rw [run_chunk c a ⟨hpre, hsuf, hnoesc⟩, hrun rest, prepend_append, htext]
        · intro x hx
          simp only [List.mem_cons] at hx
          rcases hx with rfl | hx
          · exact ⟨⟨a, hpre, hsuf⟩, hnoesc⟩
          · exact hall x hx
        · intro rest
          simp only [render, List.append_assoc]
          rw [hsp, strip_text k fin _ _ hnoesc, hsq, hstrip rest, htext]
          simp
        · simp [plain, hplain, htext]

/-- the link to `renderText`: a `CHText` value is the chunk list of its ids -/
theorem toChunks_given (pal : Palette) (chunks : List CHText.Chunk) :
    toChunks pal chunks = givenChunks pal (chunks.map fun c => Given.byId c.col c.text) := by
  induction chunks with
  | nil => rfl
  | cons c cs ih =>
    simp only [toChunks, List.map_cons, givenChunks, givenChunk, ih]
    cases entry pal c.col with
    | none => simp
    | some e =>
      obtain ⟨p, q⟩ := e
      cases givenChunks pal (cs.map fun c => Given.byId c.col c.text) <;> simp
end SgrText

/-! ### `CHText.make` and the routes from a chunk to a `str` -/
namespace Sgr
open Ak

theorem mergeGo_inv (P : List Char → List Char → Prop) (cur : Chunk) (cs : List Chunk)
    (hcur : P cur.pre cur.suf ∧ NoEsc cur.text) (hcs : AllChunks P cs) :
    AllChunks P (mergeGo cur cs) := by
  induction cs generalizing cur with
  | nil => intro c hc; simp [mergeGo] at hc; rw [hc]; exact hcur
  | cons c cs ih =>
    have hc := hcs c (by simp)
    have hrest : AllChunks P cs := fun x hx => hcs x (by simp [hx])
    simp only [mergeGo]
    split
    · exact ih _ ⟨hcur.1, NoEsc_append.mpr ⟨hcur.2, hc.2⟩⟩ hrest
    · intro x hx
      simp only [List.mem_cons] at hx
      rcases hx with rfl | hx
      · exact hcur
      · exact ih c hc hrest x hx

theorem plain_mergeGo (cur : Chunk) (cs : List Chunk) :
    plain (mergeGo cur cs) = cur.text ++ plain cs := by
  induction cs generalizing cur with
  | nil => simp [mergeGo, plain]
  | cons c cs ih =>
    simp only [mergeGo]
    split <;> simp [ih, plain]

theorem mergeGo_shows (gs : List (Chunk × Attr)) (hg : ∀ g ∈ gs, Good g.1 g.2)
    (p : Chunk) (ap : Attr) (hp : Good p ap) (rest : List Char) :
    run .ground Attr.default (render (mergeGo p (gs.map Prod.fst)) ++ rest) =
      prepend (p.text.map (fun x => (x, ap)) ++ cellsOf gs) (run .ground Attr.default rest) := by
  induction gs generalizing p ap with
  | nil =>
    simp only [List.map_nil, mergeGo, render, List.append_nil, List.append_assoc, cellsOf]
    exact run_chunk p ap hp rest
  | cons g gs ih =>
    obtain ⟨c, ac⟩ := g
    have hc : Good c ac := hg (c, ac) (by simp)
    have hrest : ∀ g ∈ gs, Good g.1 g.2 := fun x hx => hg x (by simp [hx])
    simp only [List.map_cons, mergeGo, cellsOf]
    split
    · rename_i he
      have : ap = ac := PreShows_unique p.pre ap ac hp.1 (he ▸ hc.1)
      subst this
      rw [ih hrest { p with text := p.text ++ c.text } ap ⟨hp.1, hp.2.1, NoEsc_append.mpr ⟨hp.2.2, hc.2.2⟩⟩]
      simp
    · simp only [render, List.append_assoc]
      rw [run_chunk p ap hp, ih hrest c ac hc]
      simp only [prepend_append]

/-- routes: what is written around the chunk stays outside its sequences -/
theorem routeStr_shows (l r : List Char) (c : Chunk) (a : Attr) (rt : Route)
    (hc : Good c a) (hl : NoEsc l) (hr : NoEsc r) :
    interp (routeStr l r c rt) =
      some (l.map (fun x => (x, Attr.default)) ++ c.text.map (fun x => (x, a)) ++
            r.map (fun x => (x, Attr.default)), Attr.default) := by
  have hend : run .ground Attr.default (r ++ []) =
      prepend (r.map fun x => (x, Attr.default)) (run .ground Attr.default []) :=
    run_text Attr.default r [] hr
  have hbody : run .ground Attr.default (routeBody c rt ++ r) =
      prepend (c.text.map fun x => (x, a)) (run .ground Attr.default r) := by
    cases rt with
    | direct =>
      have := run_chunk c a hc r
      simpa [routeBody, render] using this
    | viaText =>
      simp only [routeBody]
      split
      · rename_i he; simp [he, prepend_nil]
      · have := run_chunk c a hc r
        simpa [render] using this
  unfold interp routeStr
  rw [List.append_assoc, run_text Attr.default l _ hl, hbody]
  simp only [List.append_nil] at hend
  rw [hend]
  simp [run, prepend]

theorem routeStr_strip (k : CharClass) (fin : Char) (l r : List Char) (c : Chunk) (rt : Route)
    (hp : Strippable k fin c.pre) (hq : Strippable k fin c.suf)
    (hl : NoEsc l) (hr : NoEsc r) (ht : NoEsc c.text) :
    strip k fin (routeStr l r c rt) = l ++ c.text ++ r := by
  have hr' : strip k fin r = r := by
    have := strip_text k fin r [] hr
    simpa [strip_nil] using this
  have hbody : strip k fin (routeBody c rt ++ r) = c.text ++ r := by
    have hfull : strip k fin (render [c] ++ r) = c.text ++ r := by
      simp only [render, List.append_nil, List.append_assoc]
      rw [hp, strip_text k fin _ _ ht, hq, hr']
    cases rt with
    | direct => simpa [routeBody] using hfull
    | viaText =>
      simp only [routeBody]
      split
      · rename_i he; simp [he, hr']
      · exact hfull
  unfold routeStr
  rw [List.append_assoc, strip_text k fin l _ hl, hbody]
  simp
end Sgr
