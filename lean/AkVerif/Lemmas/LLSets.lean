import AkVerif.Lemmas.LLDict
/-!
Closure properties read off the fixpoint loops of `Model/LLGrammar.lean`:

* `nullables` (`nullables_closed`, `nullables_sub_keys`, `nullables_sound`),
* `firstSets` (`firstSets_closed`): for every rule `r` of `X`, every token that can start the scanned
  prefix of `r.rhs` (`FirstIn`) is in `first[X]`.

`FirstIn` / `NullIn` are the model-side readings of `firstSeq` / `nullSeq` of `LLComplete.lean`
(the bridge is in `LLClosed.lean`).  `DLe` is the pointwise order on dictionaries of lists.
-/
set_option linter.unusedSectionVars false
namespace LL

theorem exc_bind_ok {ε α β : Type} {x : Except ε α} {f : α → Except ε β} {b : β}
    (h : (x >>= f) = .ok b) : ∃ a, x = .ok a ∧ f a = .ok b := by
  cases x with
  | error e => simp [bind, Except.bind] at h
  | ok a => exact ⟨a, rfl, h⟩

section Dict
variable {κ γ : Type} [DecidableEq κ]

theorem dgetE_ok {β : Type} {k : κ} {d : List (κ × β)} {v : β} (h : dgetE k d = .ok v) :
    dget k d = some v := by
  unfold dgetE at h
  split at h
  · rename_i v' hv; cases h; exact hv
  · cases h

/-- pointwise order on dictionaries of lists: every key stays, its list only gains members -/
def DLe (M M' : List (κ × List γ)) : Prop :=
  ∀ k v, dget k M = some v → ∃ v', dget k M' = some v' ∧ ∀ y ∈ v, y ∈ v'

theorem DLe.refl (M : List (κ × List γ)) : DLe M M := fun _ v h => ⟨v, h, fun _ hy => hy⟩

theorem DLe.trans {M1 M2 M3 : List (κ × List γ)} (h1 : DLe M1 M2) (h2 : DLe M2 M3) : DLe M1 M3 := by
  intro k v hv
  obtain ⟨v2, hv2, hs2⟩ := h1 k v hv
  obtain ⟨v3, hv3, hs3⟩ := h2 k v2 hv2
  exact ⟨v3, hv3, fun y hy => hs3 y (hs2 y hy)⟩

theorem DLe_dset {M : List (κ × List γ)} {k : κ} {v v' : List γ} (hk : dget k M = some v)
    (hs : ∀ y ∈ v, y ∈ v') : DLe M (dset k v' M) := by
  intro k1 v1 h1
  rw [dget_dset]
  by_cases e : k = k1
  · subst e
    rw [hk] at h1; cases h1
    exact ⟨v', by simp, hs⟩
  · exact ⟨v1, by simp [e, h1], fun _ hy => hy⟩

theorem DLe.mem {M M' : List (κ × List γ)} (h : DLe M M') {k : κ} {y : γ}
    (hy : ∃ v, dget k M = some v ∧ y ∈ v) : ∃ v, dget k M' = some v ∧ y ∈ v := by
  obtain ⟨v, hv, hyv⟩ := hy
  obtain ⟨v', hv', hs⟩ := h k v hv
  exact ⟨v', hv', hs y hyv⟩

end Dict

variable {σ : Type} [DecidableEq σ]

/-! ### nullables -/

theorem nullPass_prefix (cur : List σ) : ∀ (G : Prods σ) (next : List σ),
    ∃ t, nullPass cur G next = next ++ t
  | [], next => ⟨[], by simp [nullPass]⟩
  | (nt, rules) :: rest, next => by
    unfold nullPass
    split
    · exact nullPass_prefix cur rest next
    · split
      · obtain ⟨t, ht⟩ := nullPass_prefix cur rest (next ++ [nt])
        exact ⟨nt :: t, by rw [ht]; simp⟩
      · exact nullPass_prefix cur rest next

theorem nullPass_fix (cur : List σ) : ∀ (G : Prods σ) (next : List σ),
    (nullPass cur G next).length = next.length →
    ∀ X rules, (X, rules) ∈ G → ∀ r ∈ rules, (∀ s ∈ r.rhs, s ∈ cur) → X ∈ next
  | [], next, _, X, rules, hm, _, _, _ => by simp at hm
  | (nt, rs) :: rest, next, hlen, X, rules, hm, r, hr, hall => by
    unfold nullPass at hlen
    split at hlen
    · rename_i hin
      rcases List.mem_cons.1 hm with h | h
      · cases h; exact hin
      · exact nullPass_fix cur rest next hlen X rules h r hr hall
    · rename_i hin
      split at hlen
      · obtain ⟨t, ht⟩ := nullPass_prefix cur rest (next ++ [nt])
        rw [ht] at hlen; simp at hlen
      · rename_i hany
        rcases List.mem_cons.1 hm with h | h
        · cases h
          exfalso; apply hany
          simp only [List.any_eq_true, List.all_eq_true, decide_eq_true_eq]
          exact ⟨r, hr, hall⟩
        · exact nullPass_fix cur rest next hlen X rules h r hr hall

theorem mem_nullPass (cur : List σ) : ∀ (G : Prods σ) (next : List σ) (X : σ),
    X ∈ nullPass cur G next →
    X ∈ next ∨ ∃ rules r, (X, rules) ∈ G ∧ r ∈ rules ∧ ∀ s ∈ r.rhs, s ∈ cur
  | [], next, X, h => by simp [nullPass] at h; exact Or.inl h
  | (nt, rs) :: rest, next, X, h => by
    have lift : (∃ rules r, (X, rules) ∈ rest ∧ r ∈ rules ∧ ∀ s ∈ r.rhs, s ∈ cur) →
        ∃ rules r, (X, rules) ∈ (nt, rs) :: rest ∧ r ∈ rules ∧ ∀ s ∈ r.rhs, s ∈ cur := by
      rintro ⟨rules, r, h1, h2⟩
      exact ⟨rules, r, List.mem_cons_of_mem _ h1, h2⟩
    unfold nullPass at h
    split at h
    · rcases mem_nullPass cur rest next X h with h | h
      · exact Or.inl h
      · exact Or.inr (lift h)
    · split at h
      · rename_i hany
        rcases mem_nullPass cur rest _ X h with h | h
        · simp only [List.mem_append, List.mem_singleton] at h
          rcases h with h | h
          · exact Or.inl h
          · subst h
            simp only [List.any_eq_true, List.all_eq_true, decide_eq_true_eq] at hany
            obtain ⟨r, hr, hall⟩ := hany
            exact Or.inr ⟨rs, r, by simp, hr, hall⟩
        · exact Or.inr (lift h)
      · rcases mem_nullPass cur rest next X h with h | h
        · exact Or.inl h
        · exact Or.inr (lift h)

/-- an invariant of the passes holds for the result, and the result is a fixpoint of `nullPass` -/
theorem nullLoop_inv {G : Prods σ} (P : List σ → Prop) (hstep : ∀ c, P c → P (nullPass c G c)) :
    ∀ (fuel : Nat) (cur N : List σ), P cur → nullLoop G fuel cur = .ok N → P N ∧ nullPass N G N = N
  | 0, _, _, _, h => by simp [nullLoop] at h
  | fuel + 1, cur, N, hP, h => by
    unfold nullLoop at h
    simp only at h
    split at h
    · rename_i hlen
      cases h
      obtain ⟨t, ht⟩ := nullPass_prefix cur G cur
      have hfix : nullPass cur G cur = cur := by
        rw [ht] at hlen ⊢
        cases t with
        | nil => simp
        | cons a b => simp at hlen
      rw [hfix]; exact ⟨hP, hfix⟩
    · exact nullLoop_inv P hstep fuel _ N (hstep cur hP) h

theorem nullables_closed {G : Prods σ} {N : List σ} (h : nullables G = .ok N) :
    ∀ X rules, (X, rules) ∈ G → ∀ r ∈ rules, (∀ s ∈ r.rhs, s ∈ N) → X ∈ N := by
  obtain ⟨_, hfix⟩ := nullLoop_inv (G := G) (fun _ => True) (fun _ _ => trivial) _ [] N trivial h
  exact nullPass_fix N G N (by rw [hfix])

theorem nullables_sub_keys {G : Prods σ} {N : List σ} (h : nullables G = .ok N) :
    ∀ X ∈ N, X ∈ G.map (·.1) := by
  refine (nullLoop_inv (G := G) (fun c => ∀ X ∈ c, X ∈ G.map (·.1)) ?_ _ [] N (by simp) h).1
  intro c hc X hX
  rcases mem_nullPass c G c X hX with h | ⟨rules, _, hm, _⟩
  · exact hc X h
  · exact List.mem_map.2 ⟨(X, rules), hm, rfl⟩

/-- every computed nullable has a rule made of computed nullables (exactness direction) -/
theorem nullables_sound {G : Prods σ} {N : List σ} (h : nullables G = .ok N) :
    ∀ X ∈ N, ∃ rules r, (X, rules) ∈ G ∧ r ∈ rules ∧ ∀ s ∈ r.rhs, s ∈ N := by
  refine (nullLoop_inv (G := G)
    (fun c => ∀ X ∈ c, ∃ rules r, (X, rules) ∈ G ∧ r ∈ rules ∧ ∀ s ∈ r.rhs, s ∈ c) ?_ _ [] N
    (by simp) h).1
  intro c hc X hX
  obtain ⟨t, ht⟩ := nullPass_prefix c G c
  have hsub : ∀ s ∈ c, s ∈ nullPass c G c := by
    intro s hs; rw [ht]; exact List.mem_append_left _ hs
  rcases mem_nullPass c G c X hX with h | ⟨rules, r, hm, hr, hall⟩
  · obtain ⟨rules, r, hm, hr, hall⟩ := hc X h
    exact ⟨rules, r, hm, hr, fun s hs => hsub s (hall s hs)⟩
  · exact ⟨rules, r, hm, hr, fun s hs => hsub s (hall s hs)⟩

/-! ### FIRST -/

/-- `t` can start the prefix of `l` that `firstSyms` / `followTail` / `startSyms` scan
(model-side reading of `firstSeq`) -/
def FirstIn (terms nulls : List σ) (first : SetMap σ) : List σ → σ → Prop
  | [], _ => False
  | s :: rest, t => (s ∈ terms ∧ t = s) ∨
      (s ∉ terms ∧ ((∃ f, dget s first = some f ∧ t ∈ f) ∨
        (s ∈ nulls ∧ FirstIn terms nulls first rest t)))

/-- model-side reading of `nullSeq` -/
def NullIn (terms nulls : List σ) (l : List σ) : Prop := ∀ s ∈ l, s ∉ terms ∧ s ∈ nulls

/-- what a successful `firstSyms` on `s :: rest` did -/
theorem firstSyms_cons_ok {terms nulls : List σ} {nt s : σ} {rest : List σ} {fs : SetMap σ}
    {upd : Bool} {res : SetMap σ × Bool}
    (h : firstSyms terms nulls nt (s :: rest) fs upd = .ok res) :
    ∃ cur fs1 upd1, dget nt fs = some cur ∧
      ((s ∈ terms ∧ ((s ∈ cur ∧ fs1 = fs ∧ upd1 = upd) ∨
          (s ∉ cur ∧ fs1 = dset nt (cur ++ [s]) fs ∧ upd1 = true))) ∨
       (s ∉ terms ∧ ∃ other, dget s fs = some other ∧ fs1 = dset nt (sunion cur other) fs ∧
          upd1 = (upd || decide ((sunion cur other).length ≠ cur.length)))) ∧
      (if s ∈ nulls then firstSyms terms nulls nt rest fs1 upd1 else .ok (fs1, upd1)) = .ok res := by
  unfold firstSyms at h
  obtain ⟨cur, hcur, h⟩ := exc_bind_ok h
  simp only at h
  split at h
  · rename_i h1
    obtain ⟨⟨fs1, upd1⟩, hstep, h⟩ := exc_bind_ok h
    simp only at h
    refine ⟨cur, fs1, upd1, dgetE_ok hcur, Or.inl ⟨h1, ?_⟩, h⟩
    split at hstep
    · rename_i h2
      simp only [pure, Except.pure, Except.ok.injEq, Prod.mk.injEq] at hstep
      exact Or.inl ⟨h2, hstep.1.symm, hstep.2.symm⟩
    · rename_i h2
      simp only [pure, Except.pure, Except.ok.injEq, Prod.mk.injEq] at hstep
      exact Or.inr ⟨h2, hstep.1.symm, hstep.2.symm⟩
  · rename_i h1
    obtain ⟨other, hother, h⟩ := exc_bind_ok h
    simp only [pure_bind] at h
    exact ⟨cur, _, _, dgetE_ok hcur, Or.inr ⟨h1, other, dgetE_ok hother, rfl, rfl⟩, h⟩

/-- a scan of one rule that reports "nothing changed" changed nothing, and everything it would
have added was already there -/
theorem firstSyms_fix {terms nulls : List σ} {nt : σ} :
    ∀ (l : List σ) (fs fs' : SetMap σ) (upd : Bool),
    firstSyms terms nulls nt l fs upd = .ok (fs', false) →
    upd = false ∧ fs' = fs ∧
      ∀ t, FirstIn terms nulls fs l t → ∃ c, dget nt fs = some c ∧ t ∈ c
  | [], fs, fs', upd, h => by
    simp only [firstSyms, Except.ok.injEq, Prod.mk.injEq] at h
    exact ⟨h.2, h.1.symm, fun t ht => ht.elim⟩
  | s :: rest, fs, fs', upd, h => by
    obtain ⟨cur, fs1, upd1, hcur, hstep, h⟩ := firstSyms_cons_ok h
    have hfin : upd1 = false ∧ fs' = fs1 ∧ (s ∈ nulls → ∀ t, FirstIn terms nulls fs1 rest t →
        ∃ c, dget nt fs1 = some c ∧ t ∈ c) := by
      split at h
      · obtain ⟨h1, h2, h3⟩ := firstSyms_fix rest fs1 fs' upd1 h
        exact ⟨h1, h2, fun _ => h3⟩
      · rename_i hn
        simp only [Except.ok.injEq, Prod.mk.injEq] at h
        exact ⟨h.2, h.1.symm, fun h => absurd h hn⟩
    obtain ⟨hu1, hfs', hrest⟩ := hfin
    subst hu1
    have key : upd = false ∧ fs1 = fs ∧ (s ∈ terms → s ∈ cur) ∧
        (s ∉ terms → ∀ f, dget s fs = some f → ∀ y ∈ f, y ∈ cur) := by
      rcases hstep with ⟨h1, ⟨h2, hfs, hu⟩ | ⟨_, _, hu⟩⟩ | ⟨h1, other, hother, hfs, hu⟩
      · exact ⟨hu.symm, hfs, fun _ => h2, fun h => absurd h1 h⟩
      · cases hu
      · have hu' := hu.symm
        simp only [Bool.or_eq_false_iff, decide_eq_false_iff_not, ne_eq, Decidable.not_not] at hu'
        obtain ⟨hupd, hlen⟩ := hu'
        rw [sunion_eq_of_length hlen, dset_same hcur] at hfs
        refine ⟨hupd, hfs, fun h => absurd h h1, fun _ f hf y hy => ?_⟩
        rw [hother] at hf; cases hf
        exact sunion_sub_of_length hlen y hy
    obtain ⟨hu, hfs1, ht, hnt⟩ := key
    subst hfs1
    refine ⟨hu, hfs', ?_⟩
    intro t hF
    simp only [FirstIn] at hF
    rcases hF with ⟨h1, h2⟩ | ⟨h1, ⟨f, hf, htf⟩ | ⟨hn, hr⟩⟩
    · subst h2; exact ⟨cur, hcur, ht h1⟩
    · exact ⟨cur, hcur, hnt h1 f hf t htf⟩
    · exact hrest hn t hr

theorem firstRules_fix {terms nulls : List σ} {nt : σ} :
    ∀ (rs : List (Rule σ)) (fs fs' : SetMap σ) (upd : Bool),
    firstRules terms nulls nt rs fs upd = .ok (fs', false) →
    upd = false ∧ fs' = fs ∧
      ∀ r ∈ rs, ∀ t, FirstIn terms nulls fs r.rhs t → ∃ c, dget nt fs = some c ∧ t ∈ c
  | [], fs, fs', upd, h => by
    simp only [firstRules, Except.ok.injEq, Prod.mk.injEq] at h
    exact ⟨h.2, h.1.symm, fun r hr => by simp at hr⟩
  | r0 :: rest, fs, fs', upd, h => by
    unfold firstRules at h
    obtain ⟨⟨fs1, upd1⟩, h0, h⟩ := exc_bind_ok h
    simp only at h
    obtain ⟨hu1, hfs', hrest⟩ := firstRules_fix rest fs1 fs' upd1 h
    subst hu1
    obtain ⟨hu, hfs1, h0'⟩ := firstSyms_fix _ _ _ _ h0
    subst hfs1
    refine ⟨hu, hfs', ?_⟩
    intro r hr
    rcases List.mem_cons.1 hr with e | hr
    · subst e; exact h0'
    · exact hrest r hr

theorem firstPass_fix {terms nulls : List σ} :
    ∀ (G : Prods σ) (fs fs' : SetMap σ) (upd : Bool),
    firstPass terms nulls G fs upd = .ok (fs', false) →
    upd = false ∧ fs' = fs ∧
      ∀ X rules, (X, rules) ∈ G → ∀ r ∈ rules, ∀ t, FirstIn terms nulls fs r.rhs t →
        ∃ c, dget X fs = some c ∧ t ∈ c
  | [], fs, fs', upd, h => by
    simp only [firstPass, Except.ok.injEq, Prod.mk.injEq] at h
    exact ⟨h.2, h.1.symm, fun X rules hm => by simp at hm⟩
  | (nt, rs) :: rest, fs, fs', upd, h => by
    unfold firstPass at h
    obtain ⟨⟨fs1, upd1⟩, h0, h⟩ := exc_bind_ok h
    simp only at h
    obtain ⟨hu1, hfs', hrest⟩ := firstPass_fix rest fs1 fs' upd1 h
    subst hu1
    obtain ⟨hu, hfs1, h0'⟩ := firstRules_fix _ _ _ _ h0
    subst hfs1
    refine ⟨hu, hfs', ?_⟩
    intro X rules hm
    rcases List.mem_cons.1 hm with e | hm
    · cases e; exact h0'
    · exact hrest X rules hm

theorem firstLoop_closed {terms nulls : List σ} {G : Prods σ} :
    ∀ (fuel : Nat) (fs first : SetMap σ), firstLoop terms nulls G fuel fs = .ok first →
      ∀ X rules, (X, rules) ∈ G → ∀ r ∈ rules, ∀ t, FirstIn terms nulls first r.rhs t →
        ∃ c, dget X first = some c ∧ t ∈ c
  | 0, _, _, h => by simp [firstLoop] at h
  | fuel + 1, fs, first, h => by
    unfold firstLoop at h
    obtain ⟨⟨fs1, upd1⟩, h0, h⟩ := exc_bind_ok h
    simp only at h
    split at h
    · exact firstLoop_closed fuel fs1 first h
    · rename_i hu
      simp only [Except.ok.injEq] at h
      subst h
      have hu : upd1 = false := by simpa using hu
      subst hu
      obtain ⟨_, hfs1, hc⟩ := firstPass_fix _ _ _ _ h0
      subst hfs1
      exact hc

/-- the computed FIRST sets are closed under the rules of the grammar -/
theorem firstSets_closed {terms nulls : List σ} {G : Prods σ} {first : SetMap σ}
    (h : firstSets terms nulls G = .ok first) :
    ∀ X rules, (X, rules) ∈ G → ∀ r ∈ rules, ∀ t, FirstIn terms nulls first r.rhs t →
      ∃ c, dget X first = some c ∧ t ∈ c :=
  firstLoop_closed _ _ _ h

end LL
