import AkVerif.Lemmas.SrcPosText
/-!
C04 helper lemmas about the tokenizer (core Lean only).

`Run` is a fuel-free, relational description of one successful pass of `scanLine` (with the offsets the
source has today, `Bases.std`); `scanLine_run` shows that every successful run of the executable model is
such a pass, all invariants are then proved by induction on `Run`.
-/
namespace SrcPos
open Ak


theorem Pos.le_refl (a : Pos) : a ≤ a := by simp [Pos.le_def]
theorem Pos.le_trans {a b c : Pos} (h1 : a ≤ b) (h2 : b ≤ c) : a ≤ c := by
  simp only [Pos.le_def] at *; omega
theorem Pos.lt_of_lt_of_le {a b c : Pos} (h1 : a < b) (h2 : b ≤ c) : a < c := by
  simp only [Pos.le_def, Pos.lt_def] at *; omega
theorem Pos.lt_of_le_of_lt {a b c : Pos} (h1 : a ≤ b) (h2 : b < c) : a < c := by
  simp only [Pos.le_def, Pos.lt_def] at *; omega
theorem Pos.le_of_lt {a b : Pos} (h : a < b) : a ≤ b := by
  simp only [Pos.le_def, Pos.lt_def] at *; omega
theorem Pos.ne_of_lt {a b : Pos} (h : a < b) : a ≠ b := by
  intro e; subst e; simp only [Pos.lt_def] at h; omega
theorem Pos.ext' {a b : Pos} (h1 : a.line = b.line) (h2 : a.col = b.col) : a = b := by
  cases a; cases b; simp_all

/-! ## one pass over a line, relationally -/

def plainTok (cfg : Cfg) (i : Nat) (line : List Char) (col : Nat) (m : Match) : Tok :=
  ⟨cfg.kw (cfg.syn m.kind) (slice line m.gs m.ge), some (slice line m.gs m.ge),
    ⟨1 + i, col + 1⟩, ⟨1 + i, m.stop + 1⟩⟩

def spanTok (cfg : Cfg) (i : Nat) (line : List Char) (sp : SpanSt) (m : Match) : Tok :=
  ⟨cfg.syn sp.kind, some (joinNl (sp.acc ++ [slice line m.gs m.ge])), sp.start, ⟨1 + i, m.stop + 1⟩⟩

inductive Run (cfg : Cfg) (re : Re) (i : Nat) (line : List Char) : Nat → St → St → List Tok → Prop
  | done {col st} : ¬ col < line.length → Run cfg re i line col st st []
  | spanMiss {col st sp} : col < line.length → st.span = some sp → re.body sp.kind i col = none →
      Run cfg re i line col st ⟨st.prevEnd, some { sp with acc := sp.acc ++ [line.drop col] }⟩ []
  | spanClose {col st sp m st' ts} : col < line.length → st.span = some sp →
      re.body sp.kind i col = some m → col < m.stop →
      Run cfg re i line m.stop ⟨⟨1 + i, m.stop + 1⟩, none⟩ st' ts →
      Run cfg re i line col st st' (spanTok cfg i line sp m :: ts)
  | opener {col st m st' ts} : col < line.length → st.span = none → re.norm i col = some m → col < m.stop →
      m.kind ∈ cfg.spanKinds →
      Run cfg re i line m.stop ⟨st.prevEnd, some ⟨m.kind, ⟨1 + i, col + 1⟩, []⟩⟩ st' ts →
      Run cfg re i line col st st' ts
  | token {col st m st' ts} : col < line.length → st.span = none → re.norm i col = some m → col < m.stop →
      ¬ m.kind ∈ cfg.spanKinds →
      Run cfg re i line m.stop ⟨⟨1 + i, m.stop + 1⟩, none⟩ st' ts →
      Run cfg re i line col st st' (plainTok cfg i line col m :: ts)

theorem scanLine_run (cfg : Cfg) (re : Re) (i : Nat) (line : List Char) (fuel col : Nat) (st : St) :
    ∀ st' ts, scanLine Bases.std cfg re i line fuel col st = .ok (st', ts) →
      Run cfg re i line col st st' ts := by
  fun_induction scanLine Bases.std cfg re i line fuel col st <;> intro st' ts h
  all_goals first | (cases h; done) | skip
  · cases h; exact .done (by assumption)
  · cases h
    rename_i st hlt sp hs hb
    exact .spanMiss hlt hs hb
  · rename_i st hlt lineId sp hs m hm hadv e t st1 ts1 hrec ih
    cases h
    have := ih _ _ hrec
    simp +zetaDelta only [Bases.std] at this
    exact .spanClose hlt hs hm hadv this
  · rename_i st hlt lineId hs m hm hadv here start hk ih
    have hst : start = here := by
      simp +zetaDelta only; split <;> simp_all
    have := ih _ _ h
    rw [hst] at this
    simp +zetaDelta only [Bases.std] at this
    exact .opener hlt hs hm hadv hk this
  · rename_i col st hlt lineId hs m hm hadv here start hk v e t st1 ts1 hrec ih
    cases h
    have hst : start = here := by
      simp +zetaDelta only; split <;> simp_all
    have := ih _ _ hrec
    simp +zetaDelta only [Bases.std] at this
    have ht : t = plainTok cfg i line col m := by
      simp +zetaDelta only [plainTok, Bases.std]
      simp +zetaDelta only [Bases.std] at hst
      rw [hst]
    rw [ht]
    exact .token hlt hs hm hadv hk this
  · cases h; exact .done (by assumption)

/-- every successful `scanLines` is a sequence of passes -/
inductive RunLines (cfg : Cfg) (re : Re) : Nat → List (List Char) → St → St → List Tok → Prop
  | nil {i st} : RunLines cfg re i [] st st []
  | cons {i l ls st st1 st2 ts1 ts2} : Run cfg re i l 0 st st1 ts1 → RunLines cfg re (i + 1) ls st1 st2 ts2 →
      RunLines cfg re i (l :: ls) st st2 (ts1 ++ ts2)

theorem scanLines_run (cfg : Cfg) (re : Re) (lines : List (List Char)) :
    ∀ i st st' ts, scanLines Bases.std cfg re i lines st = .ok (st', ts) →
      RunLines cfg re i lines st st' ts := by
  induction lines with
  | nil => intro i st st' ts h; simp [scanLines] at h; obtain ⟨rfl, rfl⟩ := h; exact .nil
  | cons l ls ih =>
    intro i st st' ts h
    unfold scanLines at h
    split at h
    · cases h
    · rename_i st1 ts1 h1
      split at h
      · cases h
      · rename_i st2 ts2 h2
        cases h
        exact .cons (scanLine_run _ _ _ _ _ _ _ _ _ h1) (ih _ _ _ _ h2)

/-! ## adjacency, line starts, monotonicity -/

/-- `b` continues where `a` ended, or `b` is at column 1 of a later line -/
def Rel (a b : Pos) : Prop := a = b ∨ (b.col = 1 ∧ a.line < b.line)

theorem Rel.le {a b : Pos} (h : Rel a b) : a ≤ b := by
  rcases h with rfl | ⟨_, h⟩
  · exact Pos.le_refl _
  · exact Or.inl h

def Linked : Pos → List Tok → Prop
  | _, [] => True
  | p, t :: ts => Rel p t.s ∧ Linked t.e ts

def lastEnd : Pos → List Tok → Pos
  | p, [] => p
  | _, t :: ts => lastEnd t.e ts

theorem Linked_append (p : Pos) (a b : List Tok) :
    Linked p (a ++ b) ↔ Linked p a ∧ Linked (lastEnd p a) b := by
  induction a generalizing p with
  | nil => simp [Linked, lastEnd]
  | cons t a ih => simp [Linked, lastEnd, ih, and_assoc]

theorem lastEnd_append (p : Pos) (a b : List Tok) : lastEnd p (a ++ b) = lastEnd (lastEnd p a) b := by
  induction a generalizing p with
  | nil => simp [lastEnd]
  | cons t a ih => simp [lastEnd, ih]

/-- invariant of the loop at column `col` of line `i` -/
def StInv (i col : Nat) (st : St) : Prop :=
  match st.span with
  | none => st.prevEnd = ⟨1 + i, col + 1⟩ ∨ (col = 0 ∧ st.prevEnd.line < 1 + i)
  | some sp => Rel st.prevEnd sp.start ∧ sp.start < ⟨1 + i, col + 1⟩

theorem StInv_next {i col : Nat} {st : St} (h : StInv i col st) : StInv (i + 1) 0 st := by
  unfold StInv at *
  split
  · rename_i hs; simp only [hs] at h
    right; refine ⟨rfl, ?_⟩
    rcases h with h | h
    · rw [h]; simp
    · omega
  · rename_i sp hs; simp only [hs] at h
    refine ⟨h.1, ?_⟩
    have := h.2; simp only [Pos.lt_def] at this ⊢; omega

theorem Run_linked {cfg : Cfg} {re : Re} {i : Nat} {line : List Char} {col : Nat} {st st' : St}
    {ts : List Tok} (h : Run cfg re i line col st st' ts) : StInv i col st →
    Linked st.prevEnd ts ∧ (∀ t ∈ ts, t.s < t.e) ∧ st'.prevEnd = lastEnd st.prevEnd ts ∧
      ∃ col', StInv i col' st' := by
  induction h with
  | done _ => intro hinv; exact ⟨trivial, by simp, rfl, _, hinv⟩
  | @spanMiss col st sp hlt hs hb =>
    intro hinv
    refine ⟨trivial, by simp, rfl, col, ?_⟩
    unfold StInv at *; simp only [hs] at hinv; exact hinv
  | @spanClose col st sp m st' ts hlt hs hb hadv hrun ih =>
    intro hinv
    have hinv1 : StInv i m.stop ⟨⟨1 + i, m.stop + 1⟩, none⟩ := by unfold StInv; simp
    obtain ⟨h1, h2, h3, h4⟩ := ih hinv1
    unfold StInv at hinv; simp only [hs] at hinv
    refine ⟨⟨hinv.1, h1⟩, ?_, h3, h4⟩
    intro t ht
    simp at ht
    rcases ht with rfl | ht
    · have := hinv.2
      simp only [Pos.lt_def, spanTok] at this ⊢; omega
    · exact h2 _ ht
  | @opener col st m st' ts hlt hs hm hadv hk hrun ih =>
    intro hinv
    unfold StInv at hinv; simp only [hs] at hinv
    apply ih
    unfold StInv; simp only
    constructor
    · rcases hinv with h | h
      · left; exact h
      · right; simp; omega
    · simp only [Pos.lt_def, true_and]; omega
  | @token col st m st' ts hlt hs hm hadv hk hrun ih =>
    intro hinv
    have hinv1 : StInv i m.stop ⟨⟨1 + i, m.stop + 1⟩, none⟩ := by unfold StInv; simp
    obtain ⟨h1, h2, h3, h4⟩ := ih hinv1
    unfold StInv at hinv; simp only [hs] at hinv
    refine ⟨⟨?_, h1⟩, ?_, h3, h4⟩
    · rcases hinv with h | h
      · left; exact h
      · right; simp [plainTok]; omega
    · intro t ht
      simp at ht
      rcases ht with rfl | ht
      · simp only [Pos.lt_def, plainTok, true_and]; omega
      · exact h2 _ ht

theorem RunLines_linked {cfg : Cfg} {re : Re} {i : Nat} {lines : List (List Char)} {st st' : St}
    {ts : List Tok} (h : RunLines cfg re i lines st st' ts) : StInv i 0 st →
    Linked st.prevEnd ts ∧ (∀ t ∈ ts, t.s < t.e) ∧ st'.prevEnd = lastEnd st.prevEnd ts ∧
      ∃ i', StInv i' 0 st' := by
  induction h with
  | nil => intro h; exact ⟨trivial, by simp, rfl, _, h⟩
  | cons h1 _ ih =>
    intro hinv
    obtain ⟨a1, a2, a3, _, a4⟩ := Run_linked h1 hinv
    obtain ⟨b1, b2, b3, b4⟩ := ih (StInv_next a4)
    refine ⟨(Linked_append _ _ _).mpr ⟨a1, a3 ▸ b1⟩, ?_, ?_, b4⟩
    · intro t ht
      rcases List.mem_append.mp ht with h | h
      · exact a2 _ h
      · exact b2 _ h
    · rw [lastEnd_append, ← a3, b3]

theorem tokenize_ok {cfg : Cfg} {re : Re} {lines : List (List Char)} {toks : List Tok}
    (h : tokenize Bases.std cfg re lines = .ok toks) :
    ∃ st ts, RunLines cfg re 0 lines ⟨⟨1, 1⟩, none⟩ st ts ∧ st.span = none ∧
      toks = ts ++ [endTok cfg st.prevEnd] := by
  unfold tokenize at h
  split at h
  · cases h
  · rename_i st ts hs
    split at h
    · cases h
    · rename_i hn
      cases h
      exact ⟨st, ts, scanLines_run _ _ _ _ _ _ _ hs, hn, rfl⟩

theorem StInv_init : StInv 0 0 ⟨⟨1, 1⟩, none⟩ := by unfold StInv; simp

theorem Linked_get {p : Pos} {l : List Tok} (h : Linked p l) {k : Nat} {t u : Tok}
    (ht : l[k]? = some t) (hu : l[k + 1]? = some u) : Rel t.e u.s := by
  induction l generalizing p k with
  | nil => simp at ht
  | cons a l ih =>
    cases k with
    | zero =>
      simp at ht; subst ht
      cases l with
      | nil => simp at hu
      | cons b l => simp at hu; subst hu; exact h.2.1
    | succ k =>
      simp at ht hu
      exact ih h.2 ht hu

theorem Linked_head {p : Pos} {l : List Tok} (h : Linked p l) {t : Tok} (ht : l[0]? = some t) :
    Rel p t.s := by
  cases l with
  | nil => simp at ht
  | cons a l => simp at ht; subst ht; exact h.1

theorem Linked_lower {p : Pos} {l : List Tok} (h : Linked p l) (hw : ∀ t ∈ l, t.s ≤ t.e) :
    ∀ t ∈ l, p ≤ t.s := by
  induction l generalizing p with
  | nil => simp
  | cons a l ih =>
    intro t ht
    simp at ht
    rcases ht with rfl | ht
    · exact h.1.le
    · exact Pos.le_trans (Pos.le_trans h.1.le (hw a (by simp))) (ih h.2 (fun t ht => hw t (by simp [ht])) t ht)

theorem Linked_pairwise {p : Pos} {l : List Tok} (h : Linked p l) (hw : ∀ t ∈ l, t.s ≤ t.e) :
    l.Pairwise (fun t u => t.e ≤ u.s) := by
  induction l generalizing p with
  | nil => simp
  | cons a l ih =>
    simp only [List.pairwise_cons]
    exact ⟨Linked_lower h.2 (fun t ht => hw t (by simp [ht])), ih h.2 (fun t ht => hw t (by simp [ht]))⟩

theorem tokenize_linked {cfg : Cfg} {re : Re} {lines : List (List Char)} {toks : List Tok}
    (h : tokenize Bases.std cfg re lines = .ok toks) :
    ∃ ts p, toks = ts ++ [endTok cfg p] ∧ Linked ⟨1, 1⟩ toks ∧ (∀ t ∈ ts, t.s < t.e) := by
  obtain ⟨st, ts, hrun, _, rfl⟩ := tokenize_ok h
  obtain ⟨h1, h2, h3, _⟩ := RunLines_linked hrun StInv_init
  refine ⟨ts, st.prevEnd, rfl, ?_, h2⟩
  refine (Linked_append _ _ _).mpr ⟨h1, ?_, trivial⟩
  left; exact h3.symm

/-! ## where a token comes from -/

/-- the token was made from one match of the ordinary matcher at column `c` of line `i` -/
def IsPlain (cfg : Cfg) (re : Re) (lines : List (List Char)) (t : Tok) (i c : Nat) (m : Match) : Prop :=
  ∃ line, lines[i]? = some line ∧ c < line.length ∧ re.norm i c = some m ∧ c < m.stop ∧
    ¬ m.kind ∈ cfg.spanKinds ∧ t = plainTok cfg i line c m

/-- an opener matched at column `c` of line `i` -/
def IsOpener (cfg : Cfg) (re : Re) (lines : List (List Char)) (i c : Nat) (m : Match) : Prop :=
  ∃ line, lines[i]? = some line ∧ c < line.length ∧ re.norm i c = some m ∧ c < m.stop ∧
    m.kind ∈ cfg.spanKinds

/-- the token is a span token: opener `m` at `(i, c)`, closer found by the body matcher of that opener
at `(j, d)`, behind the opener -/
def IsSpanTok (cfg : Cfg) (re : Re) (lines : List (List Char)) (t : Tok) (i c : Nat) (m : Match)
    (j d : Nat) (m' : Match) : Prop :=
  IsOpener cfg re lines i c m ∧
  (∃ lj, lines[j]? = some lj ∧ d < lj.length) ∧ re.body m.kind j d = some m' ∧ d < m'.stop ∧
  (i < j ∨ (i = j ∧ m.stop ≤ d)) ∧
  t.name = cfg.syn m.kind ∧ t.s = ⟨1 + i, c + 1⟩ ∧ t.e = ⟨1 + j, m'.stop + 1⟩

def SpOrig (cfg : Cfg) (re : Re) (lines : List (List Char)) (i col : Nat) (sp : SpanSt) : Prop :=
  ∃ i0 c m, IsOpener cfg re lines i0 c m ∧ sp.kind = m.kind ∧ sp.start = ⟨1 + i0, c + 1⟩ ∧
    (i0 < i ∨ (i0 = i ∧ m.stop ≤ col))

def Origin (cfg : Cfg) (re : Re) (lines : List (List Char)) (t : Tok) : Prop :=
  (∃ i c m, IsPlain cfg re lines t i c m) ∨ (∃ i c m j d m', IsSpanTok cfg re lines t i c m j d m')

theorem Run_origin {cfg : Cfg} {re : Re} {all : List (List Char)} {i : Nat} {line : List Char} {col : Nat}
    {st st' : St} {ts : List Tok} (h : Run cfg re i line col st st' ts) (hl : all[i]? = some line) :
    (∀ sp, st.span = some sp → SpOrig cfg re all i col sp) →
    (∀ t ∈ ts, Origin cfg re all t) ∧ (∀ sp, st'.span = some sp → SpOrig cfg re all (i + 1) 0 sp) := by
  have weaken : ∀ col sp, SpOrig cfg re all i col sp → SpOrig cfg re all (i + 1) 0 sp := by
    intro col sp ⟨i0, c, m, h1, h2, h3, h4⟩
    exact ⟨i0, c, m, h1, h2, h3, by omega⟩
  induction h with
  | done _ => intro hsp; exact ⟨by simp, fun sp hs => weaken _ _ (hsp sp hs)⟩
  | @spanMiss col st sp hlt hs hb =>
    intro hsp
    refine ⟨by simp, ?_⟩
    intro sp' hs'
    simp at hs'; subst hs'
    obtain ⟨i0, c, m, h1, h2, h3, h4⟩ := hsp sp hs
    exact ⟨i0, c, m, h1, h2, h3, by omega⟩
  | @spanClose col st sp m' st' ts hlt hs hb hadv hrun ih =>
    intro hsp
    obtain ⟨h1, h2⟩ := ih (by intro sp h; simp at h)
    refine ⟨?_, h2⟩
    intro t ht
    simp at ht
    rcases ht with rfl | ht
    · obtain ⟨i0, c, m, g1, g2, g3, g4⟩ := hsp sp hs
      right
      refine ⟨i0, c, m, i, col, m', g1, ⟨line, hl, hlt⟩, g2 ▸ hb, hadv, g4, ?_, g3, rfl⟩
      simp [spanTok, g2]
    · exact h1 t ht
  | @opener col st m st' ts hlt hs hm hadv hk hrun ih =>
    intro hsp
    apply ih
    intro sp h
    simp at h; subst h
    exact ⟨i, col, m, ⟨line, hl, hlt, hm, hadv, hk⟩, rfl, rfl, Or.inr ⟨rfl, Nat.le_refl _⟩⟩
  | @token col st m st' ts hlt hs hm hadv hk hrun ih =>
    intro hsp
    obtain ⟨h1, h2⟩ := ih (by intro sp h; simp at h)
    refine ⟨?_, h2⟩
    intro t ht
    simp at ht
    rcases ht with rfl | ht
    · left; exact ⟨i, col, m, line, hl, hlt, hm, hadv, hk, rfl⟩
    · exact h1 t ht

theorem RunLines_origin {cfg : Cfg} {re : Re} {all : List (List Char)} {i : Nat} {lines : List (List Char)}
    {st st' : St} {ts : List Tok} (h : RunLines cfg re i lines st st' ts) (hd : all.drop i = lines) :
    (∀ sp, st.span = some sp → SpOrig cfg re all i 0 sp) →
    (∀ t ∈ ts, Origin cfg re all t) ∧
      (∀ sp, st'.span = some sp → ∃ i' , SpOrig cfg re all i' 0 sp) := by
  induction h with
  | nil => intro hsp; exact ⟨by simp, fun sp hs => ⟨_, hsp sp hs⟩⟩
  | @cons i l ls st st1 st2 ts1 ts2 h1 _ ih =>
    intro hsp
    have hl : all[i]? = some l := by
      have := congrArg (fun x => x[0]?) hd
      simpa using this
    have hd' : all.drop (i + 1) = ls := by
      have := congrArg (fun x => x.drop 1) hd
      simpa using this
    obtain ⟨a1, a2⟩ := Run_origin h1 hl hsp
    obtain ⟨b1, b2⟩ := ih hd' a2
    refine ⟨?_, b2⟩
    intro t ht
    rcases List.mem_append.mp ht with h | h
    · exact a1 t h
    · exact b1 t h

/-- every token except `$END$` was made from matches of `re` on the text -/
theorem tokenize_origin {cfg : Cfg} {re : Re} {lines : List (List Char)} {toks : List Tok}
    (h : tokenize Bases.std cfg re lines = .ok toks) : ∀ t ∈ toks.dropLast, Origin cfg re lines t := by
  obtain ⟨st, ts, hrun, _, rfl⟩ := tokenize_ok h
  have := (RunLines_origin (all := lines) hrun (by simp) (by intro sp h; simp at h)).1
  simpa using this

/-! ## lexical errors -/

theorem scanLine_lexical (cfg : Cfg) (re : Re) (i : Nat) (line : List Char) (fuel col : Nat) (st : St) :
    ∀ p, scanLine Bases.std cfg re i line fuel col st = .error (.lexical p) →
      ∃ c, col ≤ c ∧ c < line.length ∧ re.norm i c = none ∧ p = ⟨1 + i, c⟩ := by
  fun_induction scanLine Bases.std cfg re i line fuel col st <;> intro p h
  all_goals first | (cases h; done) | skip
  · rename_i hlt _ _ _ _ _ hadv _ x hrec ih
    cases h
    obtain ⟨c, h1, h2⟩ := ih p hrec
    exact ⟨c, by omega, h2⟩
  · rename_i col st hlt lineId hs hm
    cases h
    exact ⟨col, Nat.le_refl _, hlt, hm, by simp +zetaDelta [Bases.std]⟩
  · rename_i hadv _ _ _ ih
    obtain ⟨c, h1, h2⟩ := ih p h
    exact ⟨c, by omega, h2⟩
  · rename_i hadv _ _ x hrec ih
    cases h
    obtain ⟨c, h1, h2⟩ := ih p hrec
    exact ⟨c, by omega, h2⟩


theorem scanLines_lexical (cfg : Cfg) (re : Re) (all lines : List (List Char)) :
    ∀ i st p, all.drop i = lines → scanLines Bases.std cfg re i lines st = .error (.lexical p) →
      ∃ i c line, all[i]? = some line ∧ c < line.length ∧ re.norm i c = none ∧ p = ⟨1 + i, c⟩ := by
  induction lines with
  | nil => intro i st p _ h; simp [scanLines] at h
  | cons l ls ih =>
    intro i st p hd h
    have hl : all[i]? = some l := by
      have := congrArg (fun x => x[0]?) hd
      simpa using this
    have hd' : all.drop (i + 1) = ls := by
      have := congrArg (fun x => x.drop 1) hd
      simpa using this
    unfold scanLines at h
    split at h
    · rename_i x hx
      cases h
      obtain ⟨c, _, h2, h3, h4⟩ := scanLine_lexical _ _ _ _ _ _ _ _ hx
      exact ⟨i, c, l, hl, h2, h3, h4⟩
    · split at h
      · rename_i x hx
        cases h
        exact ih _ _ _ hd' hx
      · cases h

/-- a `LexicalError` names the line and the 0-based column of a character at which no token pattern
matches, or (second case) some span opener was read and the text ended before its closer -/
theorem tokenize_lexical {cfg : Cfg} {re : Re} {lines : List (List Char)} {p : Pos}
    (h : tokenize Bases.std cfg re lines = .error (.lexical p)) :
    (∃ i c line, lines[i]? = some line ∧ c < line.length ∧ re.norm i c = none ∧ p = ⟨1 + i, c⟩) ∨
    (∃ i c m, IsOpener cfg re lines i c m ∧ p ≤ ⟨1 + i, c + 1⟩) := by
  unfold tokenize at h
  split at h
  · rename_i x hx
    cases h
    exact Or.inl (scanLines_lexical cfg re lines lines 0 _ _ (by simp) hx)
  · rename_i st ts hs
    split at h
    · rename_i sp hsp
      cases h
      right
      have hrun := scanLines_run _ _ _ _ _ _ _ hs
      obtain ⟨_, _, _, i', hinv⟩ := RunLines_linked hrun StInv_init
      obtain ⟨_, ho⟩ := RunLines_origin (all := lines) hrun (by simp) (by intro sp h; simp at h)
      obtain ⟨_, i0, c, m, hop, _, hstart, _⟩ := ho sp hsp
      unfold StInv at hinv; simp only [hsp] at hinv
      exact ⟨i0, c, m, hop, hstart ▸ hinv.1.le⟩
    · cases h

/-! ## the fuel is enough -/

/-- token patterns never match the empty string (`match.end() > col`) -/
def ReAdv (re : Re) : Prop :=
  (∀ i c m, re.norm i c = some m → c < m.stop) ∧ (∀ k i c m, re.body k i c = some m → c < m.stop)

theorem scanLine_no_py (cfg : Cfg) (re : Re) (hadv : ReAdv re) (i : Nat) (line : List Char)
    (fuel col : Nat) (st : St) :
    line.length - col ≤ fuel → ∀ e, scanLine Bases.std cfg re i line fuel col st ≠ .error (.py e) := by
  fun_induction scanLine Bases.std cfg re i line fuel col st <;> intro hf e h
  all_goals first | (cases h; done) | skip
  · omega
  · rename_i hlt _ _ _ _ m _ hm _ x hrec ih
    cases h
    exact ih (by omega) e hrec
  · rename_i m hm hn
    exact hn (hadv.2 _ _ _ _ hm)
  · rename_i hlt _ _ m _ hm _ _ _ ih
    exact ih (by omega) e h
  · rename_i hlt _ _ m _ hm _ _ x hrec ih
    cases h
    exact ih (by omega) e hrec
  · rename_i m hm hn
    exact hn (hadv.1 _ _ _ hm)

theorem scanLines_no_py (cfg : Cfg) (re : Re) (hadv : ReAdv re) (lines : List (List Char)) :
    ∀ i st e, scanLines Bases.std cfg re i lines st ≠ .error (.py e) := by
  induction lines with
  | nil => intro i st e h; simp [scanLines] at h
  | cons l ls ih =>
    intro i st e h
    unfold scanLines at h
    split at h
    · rename_i x hx
      cases h
      exact scanLine_no_py cfg re hadv i l l.length 0 st (by omega) e hx
    · split at h
      · rename_i x hx
        cases h
        exact ih _ _ e hx
      · cases h

/-- the fuel of the model is enough: if no pattern matches the empty string, the model never stops
with `outOfFuel` (or any other Python error): the result is a token list or a `LexicalError` -/
theorem tokenize_no_py (cfg : Cfg) (re : Re) (hadv : ReAdv re) (lines : List (List Char)) :
    ∀ e, tokenize Bases.std cfg re lines ≠ .error (.py e) := by
  intro e h
  unfold tokenize at h
  split at h
  · rename_i x hx
    cases h
    exact scanLines_no_py cfg re hadv lines _ _ e hx
  · split at h <;> cases h


end SrcPos
