import AkVerif.Model.Sgr
/-! Helper lemmas for C09 (core Lean only): the terminal, split/join, strip, and the standard
SGR constants `std` against which the generated constants are compared (`C09.sgr_std`). -/
namespace Sgr
open Ak

/-! terminal -/
def prepend (cells : List (Char × Attr)) (r : Option (List (Char × Attr) × Attr)) :
    Option (List (Char × Attr) × Attr) :=
  r.map fun x => (cells ++ x.1, x.2)

theorem prepend_nil (r) : prepend [] r = r := by
  cases r <;> simp [prepend]

theorem prepend_append (a b r) : prepend (a ++ b) r = prepend a (prepend b r) := by
  cases r <;> simp [prepend]

theorem NoEsc_cons {c : Char} {t : List Char} : NoEsc (c :: t) ↔ c ≠ ESC ∧ NoEsc t := by
  simp [NoEsc]

theorem NoEsc_append {s t : List Char} : NoEsc (s ++ t) ↔ NoEsc s ∧ NoEsc t := by
  simp [NoEsc, or_imp, forall_and]

theorem NoEsc_nil : NoEsc [] := by simp [NoEsc]

theorem run_text (a : Attr) (t rest : List Char) (h : NoEsc t) :
    run .ground a (t ++ rest) = prepend (t.map fun c => (c, a)) (run .ground a rest) := by
  induction t with
  | nil => simp [prepend_nil]
  | cons c t ih =>
    obtain ⟨hc, ht⟩ := NoEsc_cons.mp h
    simp only [List.cons_append, run, if_neg hc, ih ht, List.map_cons]
    cases run .ground a rest <;> simp [prepend]

theorem paramChar_ne_m (c : Char) (h : isParamChar c = true) : c ≠ 'm' := by
  intro e; subst e; revert h; decide

theorem run_csi (buf body rest : List Char) (a : Attr) (h : ∀ c ∈ body, isParamChar c = true) :
    run (.csi buf) a (body ++ 'm' :: rest) =
      (applySgr (buf ++ body) a).bind fun a' => run .ground a' rest := by
  induction body generalizing buf with
  | nil => simp only [List.nil_append, run, if_true, List.append_nil]; cases applySgr buf a <;> rfl
  | cons c body ih =>
    have hc := h c (by simp)
    have := paramChar_ne_m c hc
    simp only [List.cons_append, run, if_neg this, hc, if_true]
    rw [ih (buf ++ [c]) (fun x hx => h x (by simp [hx]))]
    simp

theorem run_seq (body rest : List Char) (a : Attr) (h : ∀ c ∈ body, isParamChar c = true) :
    run .ground a (ESC :: '[' :: (body ++ 'm' :: rest)) =
      (applySgr body a).bind fun a' => run .ground a' rest := by
  simp only [run, if_true]
  simpa using run_csi [] body rest a h

/-! split / join -/
theorem splitGo_append (sep : Char) (cur x rest : List Char) (h : ∀ c ∈ x, c ≠ sep) :
    splitGo sep cur (x ++ rest) = splitGo sep (cur ++ x) rest := by
  induction x generalizing cur with
  | nil => simp
  | cons c x ih =>
    have hc := h c (by simp)
    simp only [List.cons_append, splitGo, if_neg hc]
    rw [ih _ (fun y hy => h y (by simp [hy]))]
    simp

theorem splitGo_join (sep : Char) (cur c : List Char) (cs : List (List Char))
    (h : ∀ x ∈ c :: cs, ∀ y ∈ x, y ≠ sep) :
    splitGo sep cur (joinWith [sep] (c :: cs)) = (cur ++ c) :: cs := by
  induction cs generalizing cur c with
  | nil =>
    have := splitGo_append sep cur c [] (h c (by simp))
    simpa [joinWith, splitGo] using this
  | cons d ds ih =>
    simp only [joinWith, List.append_assoc]
    rw [splitGo_append sep cur c _ (h c (by simp))]
    simp only [List.singleton_append, splitGo, if_true]
    rw [ih [] d (fun x hx => h x (by simp at hx ⊢; right; exact hx))]
    simp

theorem applyParams_append (ps qs : List (List Char)) (a : Attr) :
    applyParams (ps ++ qs) a =
      (applyParams ps a).bind fun a' => applyParams qs a' := by
  induction ps generalizing a with
  | nil => simp [applyParams]
  | cons p ps ih =>
    simp only [List.cons_append, applyParams]
    cases parseParam p with
    | none => simp
    | some act => simp [ih]

theorem mem_joinWith (sep : List Char) (cs : List (List Char)) (c : Char) (h : c ∈ joinWith sep cs) :
    c ∈ sep ∨ ∃ x ∈ cs, c ∈ x := by
  induction cs with
  | nil => simp [joinWith] at h
  | cons x rest ih =>
    cases rest with
    | nil => simp [joinWith] at h; right; exact ⟨x, by simp, h⟩
    | cons y rest =>
      simp only [joinWith, List.mem_append] at h
      rcases h with (h | h) | h
      · right; exact ⟨x, by simp, h⟩
      · left; exact h
      · rcases ih h with h | ⟨z, hz, hc⟩
        · left; exact h
        · right; exact ⟨z, by simp at hz ⊢; right; exact hz, hc⟩

/-! strip -/
theorem stripGo_skip (k : CharClass) (fin : Char) (xs rest : List Char) :
    stripGo k fin xs.length (xs ++ rest) = stripGo k fin 0 rest := by
  induction xs with
  | nil => simp
  | cons x xs ih => simpa [stripGo] using ih

theorem stripGo_text (k : CharClass) (fin : Char) (t rest : List Char) (h : NoEsc t) :
    stripGo k fin 0 (t ++ rest) = t ++ stripGo k fin 0 rest := by
  induction t with
  | nil => simp
  | cons c t ih =>
    obtain ⟨hc, ht⟩ := NoEsc_cons.mp h
    simp [stripGo, hc, ih ht]

theorem matchBody_run (k : CharClass) (fin : Char) (body rest : List Char)
    (hb : ∀ c ∈ body, k.mem c = true) (hf : k.mem fin = false) :
    matchBody k fin (body ++ fin :: rest) = some (body.length + 1) := by
  induction body with
  | nil => simp [matchBody, hf]
  | cons c body ih =>
    simp [matchBody, hb c (by simp), ih (fun x hx => hb x (by simp [hx]))]

/-- a complete sequence `ESC [ body fin` at the head of the input disappears -/
theorem strip_seq (k : CharClass) (fin : Char) (body rest : List Char)
    (hb : ∀ c ∈ body, k.mem c = true) (hf : k.mem fin = false) :
    strip k fin (ESC :: '[' :: (body ++ fin :: rest)) = strip k fin rest := by
  unfold strip
  simp only [stripGo, if_true, matchAfterEsc, matchBody_run k fin body rest hb hf, Option.map_some]
  have := stripGo_skip k fin (body ++ [fin]) rest
  simpa using this

theorem strip_text (k : CharClass) (fin : Char) (t rest : List Char) (h : NoEsc t) :
    strip k fin (t ++ rest) = t ++ strip k fin rest := stripGo_text k fin t rest h

theorem strip_nil (k : CharClass) (fin : Char) : strip k fin [] = [] := rfl

/-! the standard constants -/
def std : SgrCfg where
  colors := [("BLACK".toList, "0".toList), ("RED".toList, "1".toList), ("GREEN".toList, "2".toList),
             ("YELLOW".toList, "3".toList), ("BLUE".toList, "4".toList), ("MAGENTA".toList, "5".toList),
             ("CYAN".toList, "6".toList), ("WHITE".toList, "7".toList)]
  effects := [(.bold, "1".toList), (.faint, "2".toList), (.underline, "4".toList),
              (.blink, "5".toList), (.crossed, "9".toList)]
  intro := [ESC, '[']
  final := ['m']
  joiner := [';']
  reset := [ESC, '[', '0', 'm']
  fgId := ['3']
  bgId := ['4']
  ext := "8:5:".toList

def codeAlphabet : List Char := "0123456789:".toList

def elemOf (isBg : Bool) : Colour → List Char
  | .dflt => []
  | .basic k => (if isBg then std.bgId else std.fgId) ++ natDigits k
  | .idx n => (if isBg then std.bgId else std.fgId) ++ std.ext ++ natDigits n

def actOf (isBg : Bool) (c : Colour) : Action := if isBg then .bg c else .fg c

def CodeOk (code : List Char) (act : Action) : Prop :=
  parseParam code = some act ∧ ∀ c ∈ code, c ∈ codeAlphabet

instance (code act) : Decidable (CodeOk code act) := by unfold CodeOk; infer_instance

theorem basic_ok : ∀ b : Bool, ∀ k, k < 8 → CodeOk (elemOf b (.basic k)) (actOf b (.basic k)) := by
  decide +kernel

theorem idx_ok : ∀ b : Bool, ∀ n, n < 256 → CodeOk (elemOf b (.idx n)) (actOf b (.idx n)) := by
  decide +kernel

def WFc : Colour → Prop
  | .dflt => False
  | .basic k => k < 8
  | .idx n => n < 256

theorem lookup_eq (tbl : List (List Char × List Char)) (s : List Char) :
    lookup tbl s = (nameIndex (tbl.map Prod.fst) s).bind fun k => (tbl.map Prod.snd)[k]? := by
  induction tbl with
  | nil => rfl
  | cons e tbl ih =>
    obtain ⟨n, v⟩ := e
    simp only [lookup, List.map_cons, nameIndex]
    by_cases h : n = s
    · simp [h]
    · simp only [if_neg h, ih]
      cases nameIndex (tbl.map Prod.fst) s <;> simp

theorem nameIndex_lt_length (l : List (List Char)) (s : List Char) (k : Nat)
    (h : nameIndex l s = some k) : k < l.length := by
  induction l generalizing k with
  | nil => simp [nameIndex] at h
  | cons n l ih =>
    simp only [nameIndex] at h
    by_cases hn : n = s
    · simp [hn] at h; subst h; simp
    · simp only [if_neg hn] at h
      cases hi : nameIndex l s with
      | none => simp [hi] at h
      | some j =>
        simp [hi] at h; subst h
        have := ih j hi
        simp; omega

theorem std_names : std.colors.map Prod.fst = stdNames := by decide +kernel

theorem std_codes : ∀ k, k < 8 → (std.colors.map Prod.snd)[k]? = some (natDigits k) := by
  decide +kernel

theorem nameIndex_lt (s : List Char) (k : Nat) (h : nameIndex stdNames s = some k) : k < 8 :=
  nameIndex_lt_length stdNames s k h

theorem lookup_std (s : List Char) :
    lookup std.colors s = (nameIndex stdNames s).map natDigits := by
  rw [lookup_eq, std_names]
  cases h : nameIndex stdNames s with
  | none => rfl
  | some k => simp only [Option.bind_some, Option.map_some]; exact std_codes k (nameIndex_lt s k h)

theorem intElem_ok (id : List Char) (n : Int) (h0 : 0 ≤ n) (h1 : n ≤ 255) :
    intElem std id n = .ok (id ++ std.ext ++ natDigits n.toNat) := by
  cases n with
  | ofNat k =>
    simp only [Int.ofNat_eq_natCast] at h0 h1 ⊢
    simp only [intElem]
    rw [if_neg (by omega)]
    rfl
  | negSucc k => omega

theorem intElem_err (id : List Char) (n : Int) (h : n < 0 ∨ n > 255) :
    intElem std id n = .error .valueError := by
  cases n with
  | ofNat k =>
    simp only [Int.ofNat_eq_natCast] at h
    simp only [intElem]
    rw [if_pos (by omega)]
  | negSucc k => rfl

theorem seqElement_str (b : Bool) (s : List Char) :
    seqElement std b (.str s) =
      match wantedColour (.str s) with
      | some col => .ok (elemOf b col)
      | none => .error .valueError := by
  simp only [seqElement, wantedColour, lookup_std]
  cases hn : nameIndex stdNames s with
  | some k => simp [elemOf]
  | none =>
    simp only [Option.map_none]
    split
    · rename_i rest
      cases hp : parseDec rest with
      | none => simp
      | some n =>
        simp only []
        by_cases h24 : n > 24
        · have h23 : ¬ n ≤ 23 := by omega
          simp [h24, h23]
        · by_cases h23 : n ≤ 23
          · simp only [if_neg h24, if_pos h23]
            rw [intElem_ok _ _ (by omega) (by omega)]
            have : (232 + (n : Int)).toNat = 232 + n := by omega
            simp [elemOf, this]
          · simp only [if_neg h24, if_neg h23]
            exact intElem_err _ _ (by omega)
    · rfl
theorem intsOf_some (xs : List Num) (l : List Int) (h : intsOf xs = some l) : xs = l.map Num.int := by
  induction xs generalizing l with
  | nil => simp [intsOf] at h; subst h; rfl
  | cons x xs ih =>
    cases x with
    | flt a b => simp [intsOf] at h
    | other => simp [intsOf] at h
    | int n =>
      simp only [intsOf] at h
      cases hr : intsOf xs with
      | none => simp [hr] at h
      | some l' => simp [hr] at h; subst h; simp [ih l' hr]

theorem wantedColour_ints (k : SeqKind) (r g b : Int) :
    wantedColour (.tuple k [.int r, .int g, .int b]) =
      if 0 ≤ r ∧ r ≤ 5 ∧ 0 ≤ g ∧ g ≤ 5 ∧ 0 ≤ b ∧ b ≤ 5 then some (.idx (16 + 36 * r + 6 * g + b).toNat)
      else none := by
  simp [wantedColour, intsOf]

theorem wantedColour_tuple_none (k : SeqKind) (xs : List Num) (h : ∀ r g b, xs ≠ [.int r, .int g, .int b]) :
    wantedColour (.tuple k xs) = none := by
  simp only [wantedColour]
  cases hi : intsOf xs with
  | none => rfl
  | some l =>
    have := intsOf_some xs l hi
    match l, this with
    | [], _ | [_], _ | [_, _], _ | _ :: _ :: _ :: _ :: _, _ => rfl
    | [r, g, b], hx => exact absurd hx (h r g b)

theorem seqElement_tuple (b : Bool) (k : SeqKind) (xs : List Num) :
    seqElement std b (.tuple k xs) =
      match wantedColour (.tuple k xs) with
      | some col => .ok (elemOf b col)
      | none => .error .valueError := by
  match xs with
  | [] | [_] | [_, _] | _ :: _ :: _ :: _ :: _ =>
    rw [wantedColour_tuple_none _ _ (by intro r g b h; simp at h)]; rfl
  | [.int r, .int g, .int b'] =>
    rw [wantedColour_ints]
    simp only [seqElement]
    by_cases h : 0 ≤ r ∧ r ≤ 5 ∧ 0 ≤ g ∧ g ≤ 5 ∧ 0 ≤ b' ∧ b' ≤ 5
    · rw [if_pos h, if_neg (by omega), intElem_ok _ _ (by omega) (by omega)]
      have : (16 + r * 36 + g * 6 + b').toNat = (16 + 36 * r + 6 * g + b').toNat := by
        congr 1; omega
      simp [elemOf, this]
    · rw [if_neg h, if_pos (by omega)]
  | [.flt _ _, _, _] | [.other, _, _] | [.int _, .flt _ _, _] | [.int _, .other, _]
  | [.int _, .int _, .flt _ _] | [.int _, .int _, .other] =>
    rw [wantedColour_tuple_none _ _ (by intro r g b h; simp at h)]
    rfl

theorem seqElement_spec (b : Bool) (c : ColorSpec) (hc : c ≠ .none) :
    seqElement std b c =
      match wantedColour c with
      | some col => .ok (elemOf b col)
      | none => .error .valueError := by
  cases c with
  | none => exact absurd rfl hc
  | str s => exact seqElement_str b s
  | other => rfl
  | int n =>
    simp only [seqElement, wantedColour]
    by_cases h : 0 ≤ n ∧ n ≤ 255
    · rw [if_pos h, intElem_ok _ _ h.1 h.2]; simp [elemOf]
    · rw [if_neg h]; exact intElem_err _ _ (by omega)
  | tuple k xs => exact seqElement_tuple b k xs
  | float _ _ => rfl

theorem wantedColour_wf (c : ColorSpec) (col : Colour) (h : wantedColour c = some col) :
    (c = .none ∧ col = .dflt) ∨ (c ≠ .none ∧ WFc col) := by
  cases c with
  | none => simp [wantedColour] at h; exact Or.inl ⟨rfl, h.symm⟩
  | other => simp [wantedColour] at h
  | int n =>
    simp only [wantedColour] at h
    split at h
    · simp at h; subst h; right; simp [WFc]; omega
    · simp at h
  | float _ _ => simp [wantedColour] at h
  | tuple k xs =>
    right
    refine ⟨by simp, ?_⟩
    by_cases hx : ∃ r g b, xs = [.int r, .int g, .int b]
    · obtain ⟨r, g, b', rfl⟩ := hx
      rw [wantedColour_ints] at h
      split at h
      · simp at h; subst h; simp [WFc]; omega
      · simp at h
    · rw [wantedColour_tuple_none _ xs (by intro r g b hh; exact hx ⟨r, g, b, hh⟩)] at h
      cases h
  | str s =>
    right
    refine ⟨by simp, ?_⟩
    simp only [wantedColour] at h
    cases hn : nameIndex stdNames s with
    | some k => simp [hn] at h; subst h; exact nameIndex_lt s k hn
    | none =>
      simp only [hn] at h
      split at h
      · rename_i rest
        cases hp : parseDec rest with
        | none => simp [hp] at h
        | some n =>
          simp only [hp] at h
          split at h
          · simp at h; subst h; simp [WFc]; omega
          · simp at h
      · simp at h

/-! the colour grammar, spelled out -/
theorem nameIndex_isSome (l : List (List Char)) (s : List Char) :
    (nameIndex l s).isSome = true ↔ s ∈ l := by
  induction l with
  | nil => simp [nameIndex]
  | cons n l ih =>
    simp only [nameIndex, List.mem_cons]
    by_cases h : n = s
    · simp [h]
    · simp only [if_neg h, Option.isSome_map, ih]
      constructor
      · exact Or.inr
      · rintro (h' | h')
        · exact absurd h'.symm h
        · exact h'

theorem wantedColour_domain (c : ColorSpec) :
    (wantedColour c).isSome = true ↔
      c = .none ∨ (∃ s ∈ stdNames, c = .str s) ∨ (∃ n : Int, 0 ≤ n ∧ n ≤ 255 ∧ c = .int n) ∨
      (∃ k, ∃ r g b : Int, (0 ≤ r ∧ r ≤ 5 ∧ 0 ≤ g ∧ g ≤ 5 ∧ 0 ≤ b ∧ b ≤ 5) ∧
        c = .tuple k [.int r, .int g, .int b]) ∨
      (∃ ds n, parseDec ds = some n ∧ n ≤ 23 ∧ c = .str ('g' :: ds)) := by
  cases c with
  | none => simp [wantedColour]
  | other => simp [wantedColour]
  | int n =>
    simp only [wantedColour]
    by_cases h : 0 ≤ n ∧ n ≤ 255
    · simp [h]
    · simp [h]
  | float _ _ => simp [wantedColour]
  | tuple k xs =>
    by_cases hx : ∃ r g b, xs = [.int r, .int g, .int b]
    · obtain ⟨r, g, b, rfl⟩ := hx
      rw [wantedColour_ints]
      by_cases h : 0 ≤ r ∧ r ≤ 5 ∧ 0 ≤ g ∧ g ≤ 5 ∧ 0 ≤ b ∧ b ≤ 5
      · simp only [if_pos h, Option.isSome_some, true_iff]
        exact Or.inr (Or.inr (Or.inr (Or.inl ⟨k, r, g, b, h, rfl⟩)))
      · simp only [if_neg h, Option.isSome_none, Bool.false_eq_true, false_iff]
        rintro (h' | ⟨_, _, h'⟩ | ⟨_, _, _, h'⟩ | ⟨k', r', g', b', h', he⟩ | ⟨_, _, _, _, h'⟩)
        · cases h'
        · cases h'
        · cases h'
        · simp at he
          obtain ⟨_, rfl, rfl, rfl⟩ := he
          exact h h'
        · cases h'
    · rw [wantedColour_tuple_none _ xs (by intro r g b hh; exact hx ⟨r, g, b, hh⟩)]
      simp only [Option.isSome_none, Bool.false_eq_true, false_iff]
      rintro (h' | ⟨_, _, h'⟩ | ⟨_, _, _, h'⟩ | ⟨k', r', g', b', _, he⟩ | ⟨_, _, _, _, h'⟩)
      · cases h'
      · cases h'
      · cases h'
      · simp at he
        exact hx ⟨r', g', b', he.2⟩
      · cases h'
  | str s =>
    simp only [wantedColour]
    cases hn : nameIndex stdNames s with
    | some k =>
      have : s ∈ stdNames := (nameIndex_isSome stdNames s).mp (by simp [hn])
      simp [this]
    | none =>
      have hs : s ∉ stdNames := fun h => by
        have := (nameIndex_isSome stdNames s).mpr h
        simp [hn] at this
      simp only [reduceCtorEq, false_or, ColorSpec.str.injEq, exists_eq_right', hs]
      split
      · rename_i rest
        cases hp : parseDec rest with
        | none =>
          simp
          intro ds n h1 _ h2
          subst h2; simp [hp] at h1
        | some n =>
          by_cases h23 : n ≤ 23
          · simp [h23]
            exact ⟨rest, n, hp, h23, rfl⟩
          · simp [h23]
            intro ds m h1 h2 h3
            subst h3; simp [hp] at h1; omega
      · rename_i hg
        simp
        intro ds n _ _ h
        exact hg ds h
end Sgr
