import AkVerif.Lemmas.GhistBnAll
import AkVerif.Lemmas.GhistWindow
/-!
Totality of the multi-repository analysis (`analyse`): what a parent repository reads from the graph of a component
(`GraphGood`) never makes `_mk_bumps_info`, the pending bumps or the `included_at` registrations fail.  Everything here
is about the graph as the loop *with* the obsolete-branch test builds it: no hypothesis about commit times.
-/
namespace Ghist
open Ak

section
variable {π β : Type} {h : Hist π}

/-! ### two more invariants of the commit DFS -/

/-- parent builds of a build are earlier builds with a build commit -/
def ParOk (builds : List (RB β)) : Prop :=
  ∀ b ∈ builds, ∀ p ∈ b.parents, p < b.iid ∧ ∃ pb ∈ builds, pb.iid = p

/-- the build number of every build of the current branch is a key of the branch's `bn_map` -/
def KeyOk (st : St β) : Prop :=
  ∀ b ∈ st.rp.builds, isCurBuild st.rp b.iid = true → ∃ i, st.br.bnMap.lookup b.bn = some i

theorem lookup_foldl_setAll_some (bns : List BN) : ∀ (pb : List Nat) (m : List (BN × Nat)) (bn : BN) (i : Nat),
    m.lookup bn = some i → ∃ i', (pb.foldl (fun m rb => setAll bns rb m) m).lookup bn = some i' := by
  intro pb
  induction pb with
  | nil => intro m bn i hl; exact ⟨i, hl⟩
  | cons p pb ih =>
    intro m bn i hl
    rw [List.foldl_cons]
    have : ∃ i1, (setAll bns p m).lookup bn = some i1 := by
      rw [lookup_setAll]
      split
      · exact ⟨p, rfl⟩
      · exact ⟨i, hl⟩
    obtain ⟨i1, h1⟩ := this
    exact ih _ bn i1 h1

theorem isCurBuild_addPlain (rp : Repo β) (c : Nat) (fr : List Nat) (i : Nat) :
    isCurBuild (rp.addPlain c fr) i = isCurBuild rp i := by
  simp only [Repo.addPlain]; split <;> rfl

theorem isCurBuild_mem {rp : Repo β} {i : Nat} (hc : isCurBuild rp i = true) : ∃ b ∈ rp.builds, b.iid = i := by
  simp only [isCurBuild, Bool.and_eq_true, List.any_eq_true] at hc
  obtain ⟨⟨b, hb, he⟩, _⟩ := hc
  exact ⟨b, hb, by simpa using he⟩

theorem finish_parOk {pl : Plug π β} {head : Nat} {rel : List Nat} {s s' : St β} {c : Nat} {cm : Commit π}
    {fr : List Nat} (w : WF h s) (v : VB s) (hQ : ∀ r ∈ fr, r < s.rp.rcs.length) (ok : ParOk s.rp.builds)
    (hf : finish pl head rel s c cm fr = .ok s') : ParOk s'.rp.builds := by
  have hcur : ∀ i, isCurBuild s.rp i = true → i ∈ s.br.cur := fun i hi => (w.curIff i).mpr hi
  cases finish_cases hf with
  | irrelevant => exact ok
  | plain => simp only [addPlain_builds]; exact ok
  | plainMatch => exact ok
  | skip bpar new pb pbs bumps => simp only [St.skipBuild, addPlain_builds]; exact ok
  | build bpar new pb pbs bumps bn na _ hfn =>
    obtain ⟨bpar', new', pb', hfn', _, hpb⟩ := findNew_total w.rcPar hcur w.ancKeys v.1 fr hQ
    rw [hfn] at hfn'; cases hfn'
    intro b hb p hp
    simp only [St.addBuild, Repo.addRC] at hb ⊢
    rcases List.mem_append.mp hb with hb | hb
    · obtain ⟨h1, pb0, h2, h3⟩ := ok b hb p hp
      exact ⟨h1, pb0, List.mem_append_left _ h2, h3⟩
    · simp only [List.mem_singleton] at hb; subst hb
      simp only at hp ⊢
      have hpc := (w.curIff p).mp (hpb p hp)
      obtain ⟨pb0, h2, h3⟩ := isCurBuild_mem hpc
      refine ⟨?_, pb0, List.mem_append_left _ h2, h3⟩
      rw [← h3]; exact w.bldLt pb0 h2

theorem finish_keyOk {pl : Plug π β} {head : Nat} {rel : List Nat} {s s' : St β} {c : Nat} {cm : Commit π}
    {fr : List Nat} (w : WF h s) (ok : KeyOk s) (hf : finish pl head rel s c cm fr = .ok s') : KeyOk s' := by
  cases finish_cases hf with
  | irrelevant => exact ok
  | plain =>
    intro b hb hc
    simp only [addPlain_builds] at hb
    simp only [isCurBuild_addPlain] at hc
    exact ok b hb hc
  | plainMatch => exact ok
  | skip bpar new pb pbs bumps =>
    intro b hb hc
    simp only [St.skipBuild, addPlain_builds] at hb
    simp only [St.skipBuild, isCurBuild_addPlain] at hc
    obtain ⟨i, hi⟩ := ok b hb hc
    simp only [St.skipBuild]
    exact lookup_foldl_setAll_some _ _ _ _ i hi
  | build bpar new pb pbs bumps bn na _ _ _ _ _ hbn =>
    obtain ⟨rp, br⟩ := s
    have hnp : rp.rcs.length ∉ rp.prevBuilds := fun hm' => by have := w.prevLt _ hm'; simp only at this; omega
    let rc : RC := { commit := c, parents := fr, explicit := cm.isMatch, bns := buildNums cm (c == head), time := cm.time }
    let b0 : RB β := { iid := rp.rcs.length, rcommit := some rp.rcs.length, parents := pb,
                       rcommits := new ++ [rp.rcs.length], bumps := bumps, bn := bn }
    have hcur1 : ∀ i, isCurBuild (St.addBuild ⟨rp, br⟩ rc bn bpar new pb bumps na).rp i =
        (isCurBuild rp i || i == rp.rcs.length) := fun i => isCurBuild_push (rp.addRC rc) b0 hnp i
    intro b hb hc
    rw [hcur1] at hc
    simp only [St.addBuild, Repo.addRC] at hb ⊢
    rw [lookup_setAll]
    rcases List.mem_append.mp hb with hb | hb
    · split
      · exact ⟨_, rfl⟩
      · have hlt := w.bldLt b hb
        have hne : (b.iid == rp.rcs.length) = false := by
          have : b.iid ≠ rp.rcs.length := by simp only at hlt; omega
          simpa using this
        rw [hne, Bool.or_false] at hc
        exact ok b hb hc
    · simp only [List.mem_singleton] at hb; subst hb
      have : bn ∈ buildNums cm (c == head) := List.mem_of_mem_head? hbn
      simp only [this, if_true]
      exact ⟨_, rfl⟩

/-! ### one branch -/

/-- the combined invariant of the DFS of one branch (`rp0` = the repository state before the branch) -/
def TotInv (h : Hist π) (rp0 : Repo β) (st : St β) : Prop :=
  WF h st ∧ VB st ∧ ParOk st.rp.builds ∧ KeyOk st ∧
    (∀ b ∈ st.rp.builds, b ∈ rp0.builds ∨ isCurBuild st.rp b.iid = true) ∧ (∀ b ∈ rp0.builds, b ∈ st.rp.builds)

theorem finish_newCur {pl : Plug π β} {head : Nat} {rel : List Nat} {s s' : St β} {c : Nat} {cm : Commit π}
    {fr : List Nat} {rp0 : Repo β} (w : WF h s)
    (ok : (∀ b ∈ s.rp.builds, b ∈ rp0.builds ∨ isCurBuild s.rp b.iid = true) ∧ (∀ b ∈ rp0.builds, b ∈ s.rp.builds))
    (hf : finish pl head rel s c cm fr = .ok s') :
    (∀ b ∈ s'.rp.builds, b ∈ rp0.builds ∨ isCurBuild s'.rp b.iid = true) ∧ (∀ b ∈ rp0.builds, b ∈ s'.rp.builds) := by
  cases finish_cases hf with
  | irrelevant => exact ok
  | plain =>
    refine ⟨?_, ?_⟩
    · intro b hb; simp only [addPlain_builds] at hb; simp only [isCurBuild_addPlain]; exact ok.1 b hb
    · intro b hb; simp only [addPlain_builds]; exact ok.2 b hb
  | plainMatch => exact ok
  | skip bpar new pb pbs bumps =>
    refine ⟨?_, ?_⟩
    · intro b hb; simp only [St.skipBuild, addPlain_builds] at hb
      simp only [St.skipBuild, isCurBuild_addPlain]; exact ok.1 b hb
    · intro b hb; simp only [St.skipBuild, addPlain_builds]; exact ok.2 b hb
  | build bpar new pb pbs bumps bn na =>
    obtain ⟨rp, br⟩ := s
    have hnp : rp.rcs.length ∉ rp.prevBuilds := fun hm' => by have := w.prevLt _ hm'; simp only at this; omega
    let rc : RC := { commit := c, parents := fr, explicit := cm.isMatch, bns := buildNums cm (c == head), time := cm.time }
    let b0 : RB β := { iid := rp.rcs.length, rcommit := some rp.rcs.length, parents := pb,
                       rcommits := new ++ [rp.rcs.length], bumps := bumps, bn := bn }
    have hcur1 : ∀ i, isCurBuild (St.addBuild ⟨rp, br⟩ rc bn bpar new pb bumps na).rp i =
        (isCurBuild rp i || i == rp.rcs.length) := fun i => isCurBuild_push (rp.addRC rc) b0 hnp i
    refine ⟨?_, ?_⟩
    · intro b hb
      rw [hcur1]
      simp only [St.addBuild, Repo.addRC] at hb
      rcases List.mem_append.mp hb with hb | hb
      · rcases ok.1 b hb with h1 | h1
        · exact Or.inl h1
        · right; have h1' : isCurBuild rp b.iid = true := h1; rw [h1']; rfl
      · simp only [List.mem_singleton] at hb; subst hb; right; simp
    · intro b hb
      simp only [St.addBuild, Repo.addRC]
      exact List.mem_append_left _ (ok.2 b hb)

theorem visit_totInv (hT : h.Topo) {pl : Plug π β} {head : Nat} {rp0 : Repo β} {fuel : Nat} {rel : List Nat}
    {s s' : St β} {acc acc' : List Nat} {c : Nat} (ok : TotInv h rp0 s) (hacc : ∀ r ∈ acc, r < s.rp.rcs.length)
    (hv : visit h pl head fuel rel (s, acc) c = .ok (s', acc')) : TotInv h rp0 s' := by
  have H : VisitHyps h pl head (TotInv h rp0) (fun s _ acc => ∀ r ∈ acc, r < s.rp.rcs.length)
      (fun s s' => s.rp.rcs.length ≤ s'.rp.rcs.length) (fun _ => True) :=
    { Rrefl := fun _ => Nat.le_refl _
      Rtrans := fun h1 h2 => Nat.le_trans h1 h2
      Qmono := by
        intro s s' _ acc _ _ hR hQ r hr
        have := hQ r hr; omega
      Qnil := by intro s _ r hr; simp at hr
      Qcls := by
        intro s _ acc c cl hP hQ _ hc r hr
        rcases (mem_addCls acc cl r).mp hr with hr | hr
        · exact hQ r hr
        · exact hP.1.cls_lt hc r hr
      Vstep := fun _ _ _ => trivial
      Hfin := by
        intro rel s c cm fr s' hP _ hcl hcm hQ hf
        obtain ⟨w, v, p, k, n⟩ := hP
        obtain ⟨w', hlen⟩ := finish_wf (h := h) w hQ hcl hcm hf
        exact ⟨⟨w', finish_vb w v hQ hf, finish_parOk w v hQ p hf, finish_keyOk w k hf, finish_newCur w n hf⟩, hlen⟩ }
  exact (visit_ind hT H fuel s [] acc c s' acc' ok hacc trivial hv).1

theorem endBranch_fakeBn {pl : Plug π β} {first : Bool} {b : Branch} {st : St β} {rheads : List Nat}
    {rp' : Repo β} {rb : RBranch β} (he : endBranch pl first b st rheads = .ok (rp', rb))
    (hn : ∀ x ∈ st.rp.builds, x.rcommit = some x.iid) : ∀ bd ∈ rb.rbuilds, bd.rcommit = none → bd.bn = fakeNM := by
  unfold endBranch at he
  split at he
  · cases he
  · rename_i seen hseen
    simp only at he
    generalize (if first = true then [] else notMerged seen 0 st.rp.rcs) = nm at he
    split at he
    · cases he
    · rename_i curBuilds hcb
      have hcur : ∀ x ∈ curBuilds, x.rcommit ≠ none := by
        intro x hx hnone
        have := hn x ((buildsOf_spec hcb).2 x hx)
        rw [hnone] at this; cases this
      split at he
      · cases he
      · rename_i pend hpend
        by_cases hfake : (!nm.isEmpty || !pl.isEmpty pend) = true
        · rw [if_pos hfake] at he; cases he
          intro bd hbd hnone
          rcases List.mem_append.mp hbd with h1 | h1
          · exact absurd hnone (hcur bd h1)
          · simp at h1; subst h1; rfl
        · rw [if_neg hfake] at he; cases he
          intro bd hbd hnone
          exact absurd hnone (hcur bd hbd)

/-- what is known about a repository state between two branches -/
structure RpGood (h : Hist π) (rp : Repo β) : Prop where
  wf : WF h ⟨rp, Br.empty⟩
  normal : BuildsNormal rp
  fake : Gen.Ghist.fakeStart ≤ rp.fakeCounter
  par : ParOk rp.builds
  time : RcTime h rp.rcs

/-- what is known about a finished branch, relative to a repository state after it -/
structure RbGood (rp : Repo β) (rb : RBranch β) : Prop where
  kind : ∀ bd ∈ rb.rbuilds, (bd.rcommit = some bd.iid ∧ bd ∈ rp.builds) ∨
          (bd.rcommit = none ∧ bd.bn = fakeNM ∧ Gen.Ghist.fakeStart ≤ bd.iid)
  vals : ∀ e ∈ rb.bnMap, ∃ bd ∈ rb.rbuilds, bd.iid = e.2 ∧ bd ∈ rp.builds
  keys : ∀ bd ∈ rb.rbuilds, bd.rcommit = some bd.iid → ∃ i, rb.bnMap.lookup bd.bn = some i
  nodup : (bkeys rb.bnMap).Nodup

theorem RbGood.mono {rp rp' : Repo β} {rb : RBranch β} (g : RbGood rp rb) (hsub : ∀ b ∈ rp.builds, b ∈ rp'.builds) :
    RbGood rp' rb :=
  { kind := by
      intro bd hbd
      rcases g.kind bd hbd with ⟨h1, h2⟩ | h1
      · exact Or.inl ⟨h1, hsub bd h2⟩
      · exact Or.inr h1
    vals := by
      intro e he
      obtain ⟨bd, h1, h2, h3⟩ := g.vals e he
      exact ⟨bd, h1, h2, hsub bd h3⟩
    keys := g.keys
    nodup := g.nodup }

theorem rbGood_skipped (rp : Repo β) (name : List Char) : RbGood rp (RBranch.skipped name) :=
  { kind := by intro bd hbd; simp [RBranch.skipped] at hbd
    vals := by intro e he; simp [RBranch.skipped] at he
    keys := by intro bd hbd; simp [RBranch.skipped] at hbd
    nodup := by simp [RBranch.skipped, bkeys] }

theorem readBranch_good (hT : h.Topo) {pl : Plug π β} {first : Bool} {rp : Repo β} {b : Branch} {rp' : Repo β}
    {rb : RBranch β} (g : RpGood h rp) (hr : readBranch h pl first rp b = .ok (rp', rb)) :
    RpGood h rp' ∧ RbGood rp' rb ∧ (∀ x ∈ rp.builds, x ∈ rp'.builds) ∧
      (∀ x ∈ rp'.builds, x ∈ rp.builds ∨ x ∈ rb.rbuilds) := by
  obtain ⟨hc0, st, rheads, hhc0, hv, he⟩ := readBranch_inv hr
  have hnocur : ∀ i, isCurBuild rp i = false := by
    intro i
    cases hcc : isCurBuild rp i with
    | false => rfl
    | true => have := (g.wf.curIff i).mpr hcc; simp [Br.empty] at this
  have ok0 : TotInv h rp (⟨rp, Br.empty⟩ : St β) := by
    refine ⟨g.wf, vb_empty rp, g.par, ?_, fun x hx => Or.inl hx, fun x hx => hx⟩
    intro x hx hc
    have hc' : isCurBuild rp x.iid = true := hc
    rw [hnocur] at hc'; cases hc'
  obtain ⟨w, v, p, k, n1, n2⟩ := visit_totInv hT ok0 (by simp) hv
  have hn := visit_buildsNormal hT g.normal hv
  have hfc := visit_fakeCounter hT hv
  have hk := visit_bkeys hT (s := (⟨rp, Br.empty⟩ : St β)) (by simp [Br.empty, bkeys]) hv
  have ht := visit_rcTime hT g.time hv
  have hs := endBranch_spec he
  obtain ⟨hfk1, hfk2⟩ := endBranch_fake he hn
  have hfbn := endBranch_fakeBn he hn
  obtain ⟨seen, curBuilds, _, hcb, hrbuilds, _⟩ := hs.seen
  obtain ⟨hids, hmem⟩ := buildsOf_spec hcb
  have hbm := endBranch_bnMap he
  -- members of the result
  have hcurB : ∀ bd ∈ curBuilds, bd ∈ rb.rbuilds := by
    intro bd hbd
    rcases hrbuilds with h1 | ⟨fake, h1, _, _⟩
    · rw [h1]; exact hbd
    · rw [h1]; exact List.mem_append_left _ hbd
  have hsplit : ∀ bd ∈ rb.rbuilds, bd ∈ curBuilds ∨ bd.rcommit = none := by
    intro bd hbd
    rcases hrbuilds with h1 | ⟨fake, h1, h2, _⟩
    · rw [h1] at hbd; exact Or.inl hbd
    · rw [h1] at hbd
      rcases List.mem_append.mp hbd with h3 | h3
      · exact Or.inl h3
      · simp at h3; subst h3; exact Or.inr h2
  have hcurOf : ∀ x ∈ st.rp.builds, isCurBuild st.rp x.iid = true → x ∈ curBuilds :=
    fun x hx hc => buildsOf_mem w.bldInc hcb x hx ((w.curIff x.iid).mpr hc)
  refine ⟨?_, ?_, ?_, ?_⟩
  · exact { wf := endBranch_wf w he
            normal := by intro x hx; rw [hs.builds] at hx; exact hn x hx
            fake := by
              have h1 := g.fake
              have h2 : st.rp.fakeCounter = rp.fakeCounter := hfc
              omega
            par := by rw [hs.builds]; exact p
            time := by rw [hs.rcs]; exact ht }
  · exact
      { kind := by
          intro bd hbd
          rcases hsplit bd hbd with h1 | h1
          · exact Or.inl ⟨hn bd (hmem bd h1), by rw [hs.builds]; exact hmem bd h1⟩
          · refine Or.inr ⟨h1, hfbn bd hbd h1, ?_⟩
            rw [hfk1 bd hbd h1, hfc]; exact g.fake
        vals := by
          intro e he'
          rw [hbm] at he'
          have hc := (w.curIff e.2).mp (v.2 e he')
          obtain ⟨x, hx, hxi⟩ := isCurBuild_mem hc
          exact ⟨x, hcurB x (hcurOf x hx (by rw [hxi]; exact hc)), hxi, by rw [hs.builds]; exact hx⟩
        keys := by
          intro bd hbd hsome
          rcases hsplit bd hbd with h1 | h1
          · have hin : bd.iid ∈ st.br.cur := by rw [← hids]; exact List.mem_map.mpr ⟨bd, h1, rfl⟩
            rw [hbm]
            exact k bd (hmem bd h1) ((w.curIff bd.iid).mp hin)
          · rw [h1] at hsome; cases hsome
        nodup := by rw [hbm]; exact hk }
  · intro x hx; rw [hs.builds]; exact n2 x hx
  · intro x hx
    rw [hs.builds] at hx
    rcases n1 x hx with h1 | h1
    · exact Or.inl h1
    · exact Or.inr (hcurB x (hcurOf x hx h1))

/-! ### the loop over the branches, with the obsolete-branch test -/

theorem minTs_isSome {rcs : List RC} : ∀ (bm : List (BN × Nat)) (mt mt1 : Option Nat),
    minTs rcs mt bm = .ok mt1 → (mt.isSome = true ∨ bm ≠ []) → mt1.isSome = true := by
  intro bm
  induction bm with
  | nil =>
    intro mt mt1 hm hor
    simp only [minTs] at hm; cases hm
    rcases hor with h1 | h1
    · exact h1
    · exact absurd rfl h1
  | cons e bm ih =>
    intro mt mt1 hm _
    obtain ⟨bn, i⟩ := e
    simp only [minTs] at hm
    split at hm
    · cases hm
    · exact ih _ mt1 hm (Or.inl rfl)

theorem readBranches_good (hT : h.Topo) {pl : Plug π β} : ∀ (bs : List Branch) (mt : Option Nat) (first : Bool)
    (rp : Repo β) (res : Repo β × List (RBranch β) × Option Nat), RpGood h rp →
    readBranches h pl mt first rp bs = .ok res →
    RpGood h res.1 ∧ (∀ rb ∈ res.2.1, RbGood res.1 rb) ∧ (∀ x ∈ rp.builds, x ∈ res.1.builds) ∧
      (∀ x ∈ res.1.builds, x ∈ rp.builds ∨ ∃ rb ∈ res.2.1, x ∈ rb.rbuilds) ∧
      ((mt.isSome = true ∨ ∃ rb ∈ res.2.1, rb.bnMap ≠ []) → res.2.2.isSome = true) := by
  intro bs
  induction bs with
  | nil =>
    intro mt first rp res g hr
    simp only [readBranches] at hr; cases hr
    refine ⟨g, by simp, fun x hx => hx, fun x hx => Or.inl hx, ?_⟩
    rintro (h1 | ⟨rb, hrb, _⟩)
    · exact h1
    · simp at hrb
  | cons b bs ih =>
    intro mt first rp res g hr
    simp only [readBranches] at hr
    split at hr
    · cases hr
    · rename_i hc hhc
      split at hr
      · -- skipped as obsolete
        split at hr
        · cases hr
        · rename_i rp2 rbs mt2 h2
          cases hr
          obtain ⟨g2, hrb2, hs2, hn2, ht2⟩ := ih mt first rp (rp2, rbs, mt2) g h2
          refine ⟨g2, ?_, hs2, ?_, ?_⟩
          · intro rb hrb
            rcases List.mem_cons.mp hrb with h1 | h1
            · subst h1; exact rbGood_skipped _ _
            · exact hrb2 rb h1
          · intro x hx
            rcases hn2 x hx with h1 | ⟨rb, h1, h3⟩
            · exact Or.inl h1
            · exact Or.inr ⟨rb, List.mem_cons_of_mem _ h1, h3⟩
          · rintro (h1 | ⟨rb, hrb, hne⟩)
            · exact ht2 (Or.inl h1)
            · rcases List.mem_cons.mp hrb with h1 | h1
              · subst h1; simp [RBranch.skipped] at hne
              · exact ht2 (Or.inr ⟨rb, h1, hne⟩)
      · split at hr
        · cases hr
        · rename_i rp1 rb h1
          split at hr
          · cases hr
          · rename_i mt1 hm
            split at hr
            · cases hr
            · rename_i rp2 rbs mt2 h2
              cases hr
              obtain ⟨g1, hrb1, hs1, hn1⟩ := readBranch_good hT g h1
              obtain ⟨g2, hrb2, hs2, hn2, ht2⟩ := ih mt1 false rp1 (rp2, rbs, mt2) g1 h2
              refine ⟨g2, ?_, fun x hx => hs2 x (hs1 x hx), ?_, ?_⟩
              · intro rb' hrb'
                rcases List.mem_cons.mp hrb' with h3 | h3
                · subst h3; exact hrb1.mono hs2
                · exact hrb2 rb' h3
              · intro x hx
                rcases hn2 x hx with h3 | ⟨rb', h3, h4⟩
                · rcases hn1 x h3 with h5 | h5
                  · exact Or.inl h5
                  · exact Or.inr ⟨rb, by simp, h5⟩
                · exact Or.inr ⟨rb', List.mem_cons_of_mem _ h3, h4⟩
              · rintro (h3 | ⟨rb', hrb', hne⟩)
                · exact ht2 (Or.inl (minTs_isSome _ _ _ hm (Or.inl h3)))
                · rcases List.mem_cons.mp hrb' with h3 | h3
                  · subst h3; exact ht2 (Or.inl (minTs_isSome _ _ _ hm (Or.inr hne)))
                  · exact ht2 (Or.inr ⟨rb', h3, hne⟩)

/-- report commits stand at different commits of the history, so there are no more of them than commits -/
theorem rcs_le_commits {rp : Repo β} {br : Br} (w : WF h ⟨rp, br⟩) (ht : RcTime h rp.rcs) :
    rp.rcs.length ≤ h.commits.length := by
  have hnd : (rp.rcs.map (·.commit)).Nodup := by
    rw [List.nodup_iff_pairwise_ne, List.pairwise_iff_getElem]
    intro i j hi hj hij heq
    simp only [List.length_map] at hi hj
    simp only [List.getElem_map] at heq
    have h1 := w.rcSel i rp.rcs[i] (List.getElem?_eq_getElem hi)
    have h2 := w.rcSel j rp.rcs[j] (List.getElem?_eq_getElem hj)
    simp only at h1 h2
    rw [heq, h2] at h1
    have : j = i := by simpa using h1
    omega
  have hsub : rp.rcs.map (·.commit) ⊆ List.range h.commits.length := by
    intro c hc
    obtain ⟨rc, hrc, rfl⟩ := List.mem_map.mp hc
    obtain ⟨i, hi⟩ := List.mem_iff_getElem?.mp hrc
    obtain ⟨cm, hcm, _⟩ := ht i rc hi
    exact List.mem_range.mpr (List.getElem?_eq_some_iff.mp hcm).1
  have := hnd.length_le_of_subset hsub
  simpa using this

/-! ### what a parent repository reads from the graph of a component -/

theorem maxOf_some : ∀ {l : List Nat}, l ≠ [] → ∃ m, maxOf l = some m ∧ m ∈ l := by
  intro l
  induction l with
  | nil => intro hne; exact absurd rfl hne
  | cons x xs ih =>
    intro _
    simp only [maxOf]
    cases hxs : maxOf xs with
    | none => exact ⟨x, rfl, by simp⟩
    | some m =>
      have hm : m ∈ xs := by
        cases xs with
        | nil => simp [maxOf] at hxs
        | cons y ys =>
          obtain ⟨m', h1, h2⟩ := ih (by simp)
          rw [hxs] at h1; cases h1; exact h2
      by_cases hlt : m < x
      · exact ⟨x, by simp [hlt], by simp⟩
      · exact ⟨m, by simp [hlt], List.mem_cons_of_mem _ hm⟩

theorem latestOf_isSome {g : Graph β} {j : Nat} {rb : RBranch β} (hj : g.all[j]? = some rb) (hne : rb.rbuilds ≠ []) :
    (g.latestOf j).isSome = true := by
  unfold Graph.latestOf
  simp only [hj]
  obtain ⟨m, hm, hmem⟩ := maxOf_some (l := rb.rbuilds.map (·.iid)) (by simpa using hne)
  simp only [hm]
  obtain ⟨b, hb, hbi⟩ := List.mem_map.mp hmem
  cases hf : rb.rbuilds.find? (fun b => b.iid == m) with
  | some _ => rfl
  | none =>
    have := List.find?_eq_none.mp hf b hb
    simp [hbi] at this

theorem fold_dset_vals (j : Nat) : ∀ (l : List (BN × Nat)) (m : List (BN × Nat × Nat)),
    ∀ e ∈ l.foldl (fun m e' => dset e'.1 (j, e'.2) m) m, e ∈ m ∨ ∃ e' ∈ l, e.2 = (j, e'.2) := by
  intro l
  induction l with
  | nil => intro m e he; exact Or.inl he
  | cons a l ih =>
    intro m e he
    rw [List.foldl_cons] at he
    rcases ih _ e he with h1 | ⟨e', h1, h2⟩
    · rcases dset_vals _ _ _ e h1 with h3 | h3
      · exact Or.inr ⟨a, by simp, h3⟩
      · exact Or.inl h3
    · exact Or.inr ⟨e', List.mem_cons_of_mem _ h1, h2⟩

theorem go_vals : ∀ (rbs : List (RBranch β)) (j : Nat) (m : List (BN × Nat × Nat)),
    ∀ e ∈ Graph.bnMapAll.go j rbs m, e ∈ m ∨ ∃ k rb, rbs[k]? = some rb ∧ e.2.1 = j + k ∧ ∃ e' ∈ rb.bnMap, e.2.2 = e'.2 := by
  intro rbs
  induction rbs with
  | nil => intro j m e he; simp only [Graph.bnMapAll.go] at he; exact Or.inl he
  | cons rb rbs ih =>
    intro j m e he
    simp only [Graph.bnMapAll.go] at he
    rcases ih (j + 1) _ e he with h1 | ⟨k, rb', h2, h3, h4⟩
    · rcases fold_dset_vals j rb.bnMap m e h1 with h5 | ⟨e', h5, h6⟩
      · exact Or.inl h5
      · exact Or.inr ⟨0, rb, by simp, by rw [h6]; simp, e', h5, by rw [h6]⟩
    · exact Or.inr ⟨k + 1, rb', by simpa using h2, by omega, h4⟩

theorem go_lookup_mono (bn : BN) : ∀ (rbs : List (RBranch β)) (j : Nat) (m : List (BN × Nat × Nat)) (e : Nat × Nat),
    (∀ rb ∈ rbs, (bkeys rb.bnMap).Nodup) → m.lookup bn = some e → ∃ e', (Graph.bnMapAll.go j rbs m).lookup bn = some e' := by
  intro rbs
  induction rbs with
  | nil => intro j m e _ hl; exact ⟨e, hl⟩
  | cons rb rbs ih =>
    intro j m e hnd hl
    simp only [Graph.bnMapAll.go]
    have : ∃ e1, (rb.bnMap.foldl (fun m e => dset e.1 (j, e.2) m) m).lookup bn = some e1 := by
      rw [lookup_fold_dset j rb.bnMap m bn (hnd rb (by simp))]
      split
      · exact ⟨_, rfl⟩
      · exact ⟨e, hl⟩
    obtain ⟨e1, h1⟩ := this
    exact ih (j + 1) _ e1 (fun r hr => hnd r (by simp [hr])) h1

theorem go_lookup_isSome (bn : BN) : ∀ (rbs : List (RBranch β)) (j : Nat) (m : List (BN × Nat × Nat)),
    (∀ rb ∈ rbs, (bkeys rb.bnMap).Nodup) → (∃ rb ∈ rbs, ∃ i, rb.bnMap.lookup bn = some i) →
    ∃ e, (Graph.bnMapAll.go j rbs m).lookup bn = some e := by
  intro rbs
  induction rbs with
  | nil => intro j m _ ⟨rb, hrb, _⟩; cases hrb
  | cons rb rbs ih =>
    intro j m hnd ⟨rb', hrb', i, hi⟩
    simp only [Graph.bnMapAll.go]
    rcases List.mem_cons.mp hrb' with h1 | h1
    · subst h1
      have : (rb'.bnMap.foldl (fun m e => dset e.1 (j, e.2) m) m).lookup bn = some (j, i) := by
        rw [lookup_fold_dset j rb'.bnMap m bn (hnd rb' (by simp)), hi]
      exact go_lookup_mono bn rbs (j + 1) _ (j, i) (fun r hr => hnd r (by simp [hr])) this
    · exact ih (j + 1) _ (fun r hr => hnd r (by simp [hr])) ⟨rb', h1, i, hi⟩

/-- what the analysis of a parent repository relies on when it reads the graph of a component -/
structure GraphGood (g : Graph β) : Prop where
  find : ∀ b ∈ g.builds, g.findBuild b.iid = some b
  key : ∀ b ∈ g.builds, ∃ e, g.bnMapAll.lookup b.bn = some e ∧ (g.latestOf e.1).isSome = true
  par : ParOk g.builds
  vals : ∀ e ∈ g.bnMapAll, ∃ b ∈ g.builds, b.iid = e.2.2
  ts : g.bnMapAll ≠ [] → g.minTs.isSome = true
  kind : ∀ rb ∈ g.all, ∀ bd ∈ rb.rbuilds, bd.bn ≠ fakeNM → bd ∈ g.builds

/-- the graph of a repository, whatever its commit times, is good to be read as a component -/
theorem rgraph_good' (hT : h.Topo) {pl : Plug π β} {g : Graph β} (hg : rgraph h pl = .ok g)
    (hlen : h.commits.length ≤ Gen.Ghist.fakeStart ∨ g.rcs.length ≤ Gen.Ghist.fakeStart) : GraphGood g := by
  unfold rgraph at hg
  split at hg
  · cases hg
  · rename_i rp rbs mt hr
    cases hg
    have g0 : RpGood h (Repo.empty : Repo β) :=
      { wf := wf_empty
        normal := by intro b hb; simp [Repo.empty] at hb
        fake := by simp [Repo.empty]
        par := by intro b hb; simp [Repo.empty] at hb
        time := by intro i rc hi; simp [Repo.empty] at hi }
    obtain ⟨gr, hrb, _, hnew, hts⟩ := readBranches_good hT (branchesOf h) none true Repo.empty (rp, rbs, mt) g0 hr
    simp only at gr hrb hnew hts
    have hnd : ∀ rb ∈ rbs, (bkeys rb.bnMap).Nodup := fun rb hrb' => (hrb rb hrb').nodup
    have hrlen : rp.rcs.length ≤ Gen.Ghist.fakeStart := by
      rcases hlen with h1 | h1
      · exact Nat.le_trans (rcs_le_commits gr.wf gr.time) h1
      · exact h1
    have hin : ∀ b ∈ rp.builds, ∃ rb ∈ rbs, b ∈ rb.rbuilds := by
      intro b hb
      rcases hnew b hb with h1 | h1
      · simp [Repo.empty] at h1
      · exact h1
    have hfind : ∀ b ∈ rp.builds, (rbs.flatMap (·.rbuilds)).find? (fun x => x.iid == b.iid) = some b := by
      intro b hb
      obtain ⟨rb, hrb', hbr⟩ := hin b hb
      cases hf : (rbs.flatMap (·.rbuilds)).find? (fun x => x.iid == b.iid) with
      | none =>
        have := List.find?_eq_none.mp hf b (List.mem_flatMap.mpr ⟨rb, hrb', hbr⟩)
        simp at this
      | some b' =>
        have hmem := List.mem_of_find?_eq_some hf
        have hiid : b'.iid = b.iid := by simpa using List.find?_some hf
        obtain ⟨rb', hrb'', hb'⟩ := List.mem_flatMap.mp hmem
        have hblt := gr.wf.bldLt b hb
        simp only at hblt
        rcases (hrb rb' hrb'').kind b' hb' with ⟨_, h1⟩ | ⟨_, _, h1⟩
        · have e1 := build?_of_mem (rp := rp) gr.wf.bldInc h1
          have e2 := build?_of_mem (rp := rp) gr.wf.bldInc hb
          rw [hiid, e2] at e1
          rw [Option.some.inj e1]
        · omega
    -- the repository-wide `bn_map`
    have hprov : ∀ bn e, (Graph.bnMapAll.go 0 rbs []).lookup bn = some e →
        ∃ rb, rbs[e.1]? = some rb ∧ rb.bnMap.lookup bn = some e.2 := by
      intro bn e hl
      rcases go_lookup_some bn rbs 0 [] e hnd hl with h1 | ⟨k, rb, h2, h3, h4⟩
      · simp at h1
      · exact ⟨rb, by rw [h3]; simpa using h2, h4⟩
    exact
      { find := hfind
        key := by
          intro b hb
          obtain ⟨rb, hrb', hbr⟩ := hin b hb
          obtain ⟨i, hi⟩ := (hrb rb hrb').keys b hbr (gr.normal b hb)
          obtain ⟨e, he⟩ := go_lookup_isSome b.bn rbs 0 [] hnd ⟨rb, hrb', i, hi⟩
          refine ⟨e, he, ?_⟩
          obtain ⟨rb2, h1, h2⟩ := hprov b.bn e he
          have hmem2 : (b.bn, e.2) ∈ rb2.bnMap := lookup_some_mem h2
          obtain ⟨bd, hbd, _, _⟩ := (hrb rb2 (List.mem_of_getElem? h1)).vals _ hmem2
          exact latestOf_isSome (g := ⟨rp.rcs, rp.builds, rbs,
              rbs.reverse.filter (fun rb => !rb.rbuilds.isEmpty), mt⟩) h1 (List.ne_nil_of_mem hbd)
        par := gr.par
        vals := by
          intro e he
          rcases go_vals rbs 0 [] e he with h1 | ⟨k, rb, h2, _, e', h4, h5⟩
          · cases h1
          · obtain ⟨bd, _, h6, h7⟩ := (hrb rb (List.mem_of_getElem? h2)).vals e' h4
            exact ⟨bd, h7, by rw [h6, h5]⟩
        ts := by
          intro hne
          apply hts
          right
          cases hb : Graph.bnMapAll.go 0 rbs [] with
          | nil => exact absurd hb hne
          | cons e es =>
            rcases go_vals rbs 0 [] e (by rw [hb]; simp) with h1 | ⟨k, rb, h2, _, e', h4, _⟩
            · cases h1
            · exact ⟨rb, List.mem_of_getElem? h2, List.ne_nil_of_mem h4⟩
        kind := by
          intro rb hrb' bd hbd hbn
          rcases (hrb rb hrb').kind bd hbd with ⟨_, h1⟩ | ⟨_, h1, _⟩
          · exact h1
          · exact absurd h1 hbn }

/-- the pseudo builds of the graph carry the "not merged" number, the other builds of its branches have a build commit
and are builds of the graph -/
theorem rgraph_kinds (hT : h.Topo) {pl : Plug π β} {g : Graph β} (hg : rgraph h pl = .ok g) :
    ∀ rb ∈ g.all, ∀ bd ∈ rb.rbuilds, (bd.rcommit = some bd.iid ∧ bd ∈ g.builds) ∨ (bd.rcommit = none ∧ bd.bn = fakeNM) := by
  unfold rgraph at hg
  split at hg
  · cases hg
  · rename_i rp rbs mt hr
    cases hg
    have g0 : RpGood h (Repo.empty : Repo β) :=
      { wf := wf_empty
        normal := by intro b hb; simp [Repo.empty] at hb
        fake := by simp [Repo.empty]
        par := by intro b hb; simp [Repo.empty] at hb
        time := by intro i rc hi; simp [Repo.empty] at hi }
    obtain ⟨_, hrb, _⟩ := readBranches_good hT (branchesOf h) none true Repo.empty (rp, rbs, mt) g0 hr
    intro rb hrb' bd hbd
    rcases (hrb rb hrb').kind bd hbd with h1 | ⟨h1, h2, _⟩
    · exact Or.inl h1
    · exact Or.inr ⟨h1, h2⟩

theorem rgraph_good (hT : h.Topo) (hlen : h.commits.length ≤ Gen.Ghist.fakeStart) {pl : Plug π β} {g : Graph β}
    (hg : rgraph h pl = .ok g) : GraphGood g := rgraph_good' hT hg (Or.inl hlen)

end

end Ghist
