import AkVerif.Model.HttpConn
/-!
Facts about the frame-stack model of wrapper calls (`HttpConn.runBody`, `callWith`, `callTop`, `frameMeta`):
the stack of every request has the frame of the wrapper whose body made it right below `get_conn` (and one
optional helper frame) — whatever frames lie further out; a driven result is never a pending object.
-/
namespace HttpConn
open Ak

/-- the stack walk skips frames that are not keys of the table and stops at the first that is -/
theorem frameMeta_skip (metas : List (Str × Comps)) (pre : List Str) (m : Str) (rest : List Str) (c : Comps)
    (hpre : ∀ f ∈ pre, lookup metas f = none) (hm : lookup metas m = some c) :
    frameMeta metas (pre ++ m :: rest) = some c := by
  induction pre with
  | nil => simp [frameMeta, hm]
  | cons f r ih =>
    have hf := hpre f (by simp)
    simp only [List.cons_append, frameMeta, hf]
    exact ih (fun g hg => hpre g (by simp [hg]))

/-- no frame of the stack is a key of the table: `get_mcaller_meta` finds nothing (ValueError) -/
theorem frameMeta_none (metas : List (Str × Comps)) (S : List Str) (h : ∀ f ∈ S, lookup metas f = none) :
    frameMeta metas S = none := by
  induction S with
  | nil => rfl
  | cons f r ih =>
    simp only [frameMeta, h f (by simp)]
    exact ih (fun g hg => h g (by simp [hg]))

/-- the stack of a request made by the body of wrapper `m` (class `b`): `get_conn`, the helper frame if the
body goes through one, the frame of `m`, then the frames the body ran on top of -/
def StackOf (cs : List ClassDef) (mro : List Nat) (S : List Str) (m : Str) (b : Nat) : Prop :=
  bodyClass cs m mro = some b ∧
  ∃ bd rest, cs[b]? = some bd ∧ lookup bd.bodies.delegates m = none ∧
    ((lookup bd.bodies.reach m = none ∧ S = getConnFrame :: m :: rest) ∨
     (∃ h, lookup bd.bodies.reach m = some h ∧ S = getConnFrame :: h :: m :: rest))

/-- a property of all `made` results of `body` is a property of all `made` results of a call through it -/
theorem callWith_made {body : Str → List Str → Bool → Except Err Outcome} {P : List Str → Str → Nat → Prop}
    (hbody : ∀ m ctx d S m' b, body m ctx d = .ok (.made S m' b) → P S m' b)
    (cs : List ClassDef) (mro : List Nat) (m : Str) (caller : List Str) (drive : Bool) (S : List Str) (m' : Str) (b : Nat)
    (h : callWith body cs mro m caller drive = .ok (.made S m' b)) : P S m' b := by
  unfold callWith at h
  split at h
  · cases h
  · split at h
    · rename_i m'' _
      split at h
      · exact hbody _ _ _ _ _ _ h
      · cases h
    · rename_i r hr
      exact hbody _ _ _ _ _ _ h
  · split at h
    · exact hbody _ _ _ _ _ _ h
    · cases h

/-- every request made while a wrapper body runs has the stack shape `StackOf` -/
theorem runBody_made (cs : List ClassDef) (mro : List Nat) :
    ∀ (fuel : Nat) (m : Str) (ctx : List Str) (drive : Bool) (S : List Str) (m' : Str) (b : Nat),
      runBody cs mro fuel m ctx drive = .ok (.made S m' b) → StackOf cs mro S m' b := by
  intro fuel
  induction fuel with
  | zero => intro m ctx drive S m' b h; simp [runBody] at h
  | succ fuel ih =>
    intro m ctx drive S m' b h
    unfold runBody at h
    split at h
    · cases h
    · rename_i b0 hb0
      split at h
      · cases h
      · rename_i bd hbd
        -- the value of the body
        have key : ∀ r : Except Err Outcome,
            (match lookup bd.bodies.delegates m with
              | none =>
                match lookup bd.bodies.reach m with
                | none => Except.ok (Outcome.made (getConnFrame :: m :: ctx) m b0)
                | some hf => Except.ok (Outcome.made (getConnFrame :: hf :: m :: ctx) m b0)
              | some (inner, drives) => callWith (runBody cs mro fuel) cs mro inner (m :: ctx) drives) = r →
            r = .ok (.made S m' b) → StackOf cs mro S m' b := by
          intro r hr hrm
          subst hrm
          split at hr
          · rename_i hd
            split at hr
            · rename_i hre
              injection hr with hr; injection hr with h1 h2 h3
              subst h1 h2 h3
              exact ⟨hb0, bd, ctx, hbd, hd, Or.inl ⟨hre, rfl⟩⟩
            · rename_i hf hre
              injection hr with hr; injection hr with h1 h2 h3
              subst h1 h2 h3
              exact ⟨hb0, bd, ctx, hbd, hd, Or.inr ⟨hf, hre, rfl⟩⟩
          · exact callWith_made (P := StackOf cs mro) (fun m ctx d S m' b h => ih m ctx d S m' b h) cs mro _ _ _ _ _ _ hr
        simp only [] at h
        split at h
        · rename_i m'' hr
          split at h
          · exact ih _ _ _ _ _ _ h
          · rw [hr] at h; cases h
        · rename_i r hr
          exact key _ rfl h

/-- a driven result is not a pending object -/
theorem runBody_driven (cs : List ClassDef) (mro : List Nat) :
    ∀ (fuel : Nat) (m : Str) (ctx : List Str) (m' : Str), runBody cs mro fuel m ctx true ≠ .ok (.pending m') := by
  intro fuel
  induction fuel with
  | zero => intro m ctx m' h; simp [runBody] at h
  | succ fuel ih =>
    intro m ctx m' h
    unfold runBody at h
    split at h
    · cases h
    · split at h
      · cases h
      · simp only [] at h
        split at h
        · simp only [if_true] at h
          exact ih _ _ _ h
        · rename_i r hr
          exact hr m' h

theorem callWith_driven {body : Str → List Str → Bool → Except Err Outcome}
    (hbody : ∀ m ctx m', body m ctx true ≠ .ok (.pending m'))
    (cs : List ClassDef) (mro : List Nat) (m : Str) (caller : List Str) (m' : Str) :
    callWith body cs mro m caller true ≠ .ok (.pending m') := by
  intro h
  unfold callWith at h
  split at h
  · cases h
  · split at h
    · simp only [if_true] at h
      exact hbody _ _ _ h
    · rename_i r hr
      exact hr m' h
  · simp only [if_true] at h
    exact hbody _ _ _ h

/-- the result of a top-level call (driven by plain code) is a request or an exception -/
theorem callTop_not_pending (cs : List ClassDef) (mro : List Nat) (m m' : Str) :
    callTop cs mro m ≠ .ok (.pending m') :=
  callWith_driven (runBody_driven cs mro 32) cs mro m [] m'

theorem callTop_made (cs : List ClassDef) (mro : List Nat) (m : Str) (S : List Str) (m' : Str) (b : Nat)
    (h : callTop cs mro m = .ok (.made S m' b)) : StackOf cs mro S m' b :=
  callWith_made (P := StackOf cs mro) (fun m ctx d S m' b h => runBody_made cs mro 32 m ctx d S m' b h) cs mro m [] true S m' b h

/-- with the helper frames not named like wrappers, the stack walk over a `StackOf` stack ends at the wrapper
whose body made the request -/
theorem frameMeta_stackOf (cs : List ClassDef) (mro : List Nat) (metas : List (Str × Comps)) (S : List Str)
    (m : Str) (b : Nat) (c : Comps) (hs : StackOf cs mro S m b)
    (hg : lookup metas getConnFrame = none)
    (hh : ∀ bd h, cs[b]? = some bd → lookup bd.bodies.reach m = some h → lookup metas h = none)
    (hm : lookup metas m = some c) :
    frameMeta metas S = some c := by
  obtain ⟨_, bd, rest, hbd, _, h | ⟨h, hre, hS⟩⟩ := hs
  · obtain ⟨_, hS⟩ := h
    subst hS
    simp only [frameMeta, hg, hm]
  · subst hS
    simp only [frameMeta, hg, hh bd h hbd hre, hm]

end HttpConn
