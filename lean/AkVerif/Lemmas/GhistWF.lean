import AkVerif.Lemmas.GhistFind
/-!
Well-formedness invariant of the DFS state (`WF`) and its preservation by `finish` / `visit`.
Everything here is "syntactic": ids are in range, the caches are consistent with each other, the commits listed
under different builds of the current branch are disjoint.
-/
namespace Ghist
open Ak

def Hist.isMatch {π} (h : Hist π) (c : Nat) : Bool :=
  match h.commits[c]? with
  | some cm => cm.isMatch
  | none => false

def iids {β} (bs : List (RB β)) : List Nat := bs.map (·.iid)

structure WF {π β} (h : Hist π) (st : St β) : Prop where
  selOk : ∀ c i, st.rp.selected.lookup c = some i → ∃ rc, st.rp.rcs[i]? = some rc ∧ rc.commit = c
  rcSel : ∀ (i : Nat) (rc : RC), st.rp.rcs[i]? = some rc → st.rp.selected.lookup rc.commit = some i
  rcPar : RcTopo st.rp.rcs
  rcExp : ∀ (i : Nat) (rc : RC), st.rp.rcs[i]? = some rc → rc.explicit = h.isMatch rc.commit
  visLt : ∀ c fr, st.rp.visited.lookup c = some fr → ∀ r ∈ fr, r < st.rp.rcs.length
  bldLt : ∀ b ∈ st.rp.builds, b.iid < st.rp.rcs.length
  prevLt : ∀ i ∈ st.rp.prevBuilds, i < st.rp.rcs.length
  curIff : ∀ i, i ∈ st.br.cur ↔ isCurBuild st.rp i = true
  keyOk : ∀ k ∈ keys st.br.bparents, k < st.rp.rcs.length ∧ isCurBuild st.rp k = false
  ancKeys : ∀ i ∈ st.br.cur, i ∈ keys st.br.anc
  lstOk : ∀ b ∈ st.rp.builds, isCurBuild st.rp b.iid = true →
    b.rcommits.Nodup ∧ ∀ r ∈ b.rcommits, r = b.iid ∨ r ∈ keys st.br.bparents
  lstDisj : ∀ a ∈ st.rp.builds, ∀ b ∈ st.rp.builds, isCurBuild st.rp a.iid = true → isCurBuild st.rp b.iid = true →
    a.iid ≠ b.iid → ∀ r ∈ a.rcommits, r ∉ b.rcommits
  bldInc : (iids st.rp.builds).Pairwise (· < ·)
  ancLt : ∀ k ∈ keys st.br.anc, k < st.rp.rcs.length
  curInc : st.br.cur.Pairwise (· < ·)

/-- an unclassified commit is not selected -/
theorem selected_none_of_classify {β} {rp : Repo β} {c : Nat} (h : classify rp c = none) :
    rp.selected.lookup c = none := by
  unfold classify at h
  split at h
  · cases h
  · split at h
    · cases h
    · split at h
      · cases h
      · assumption

theorem visited_none_of_classify {β} {rp : Repo β} {c : Nat} (h : classify rp c = none) :
    rp.visited.lookup c = none := by
  unfold classify at h
  split at h
  · cases h
  · split at h
    · cases h
    · assumption

section
variable {π β : Type} {h : Hist π}

/-- a commit is put into `done_commits` -/
theorem WF.addDone {rp : Repo β} {br : Br} (w : WF h ⟨rp, br⟩) (c : Nat) : WF h ⟨rp.addDone c, br⟩ :=
  { selOk := w.selOk, rcSel := w.rcSel, rcPar := w.rcPar, rcExp := w.rcExp, visLt := w.visLt, bldLt := w.bldLt,
    prevLt := w.prevLt, curIff := w.curIff, keyOk := w.keyOk, ancKeys := w.ancKeys, lstOk := w.lstOk,
    lstDisj := w.lstDisj, bldInc := w.bldInc, ancLt := w.ancLt, curInc := w.curInc }

theorem WF.addVisited {rp : Repo β} {br : Br} (w : WF h ⟨rp, br⟩) (c : Nat) (fr : List Nat)
    (hfr : ∀ r ∈ fr, r < rp.rcs.length) : WF h ⟨rp.addVisited c fr, br⟩ :=
  { selOk := w.selOk, rcSel := w.rcSel, rcPar := w.rcPar, rcExp := w.rcExp, bldLt := w.bldLt,
    prevLt := w.prevLt, curIff := w.curIff, keyOk := w.keyOk, ancKeys := w.ancKeys, lstOk := w.lstOk,
    lstDisj := w.lstDisj, bldInc := w.bldInc, ancLt := w.ancLt, curInc := w.curInc,
    visLt := by
      intro c' fr' hl
      simp only [Repo.addVisited] at hl
      by_cases hc : c' = c
      · subst hc; rw [lookup_cons_self] at hl; cases hl; exact hfr
      · rw [lookup_cons_ne _ _ _ _ hc] at hl; exact w.visLt c' fr' hl }

theorem WF.addPlain {rp : Repo β} {br : Br} (w : WF h ⟨rp, br⟩) (c : Nat) (fr : List Nat)
    (hfr : ∀ r ∈ fr, r < rp.rcs.length) : WF h ⟨rp.addPlain c fr, br⟩ := by
  unfold Repo.addPlain
  split
  · exact w.addDone c
  · exact w.addVisited c fr hfr

/-- a new report commit -/
theorem WF.addRC {rp : Repo β} {br : Br} (w : WF h ⟨rp, br⟩) (rc : RC)
    (hsel : rp.selected.lookup rc.commit = none) (hpar : ∀ r ∈ rc.parents, r < rp.rcs.length)
    (hexp : rc.explicit = h.isMatch rc.commit) : WF h ⟨rp.addRC rc, br⟩ := by
  have hlen : (rp.addRC rc).rcs.length = rp.rcs.length + 1 := by simp [Repo.addRC]
  have hget : ∀ i rc', (rp.addRC rc).rcs[i]? = some rc' →
      (i < rp.rcs.length ∧ rp.rcs[i]? = some rc') ∨ (i = rp.rcs.length ∧ rc' = rc) := by
    intro i rc' hg
    simp only [Repo.addRC] at hg
    by_cases hi : i < rp.rcs.length
    · rw [List.getElem?_append_left hi] at hg; exact Or.inl ⟨hi, hg⟩
    · rw [List.getElem?_append_right (by omega)] at hg
      have : i - rp.rcs.length = 0 := by
        cases hk : i - rp.rcs.length with
        | zero => rfl
        | succ k => rw [hk] at hg; simp at hg
      rw [this] at hg; simp at hg
      exact Or.inr ⟨by omega, hg.symm⟩
  have hcur : ∀ i, isCurBuild (rp.addRC rc) i = isCurBuild rp i := fun _ => rfl
  exact
  { selOk := by
      intro c i hl
      simp only [Repo.addRC] at hl ⊢
      by_cases hc : c = rc.commit
      · subst hc; rw [lookup_cons_self] at hl; cases hl
        exact ⟨rc, by simp, rfl⟩
      · rw [lookup_cons_ne _ _ _ _ hc] at hl
        obtain ⟨rc', h1, h2⟩ := w.selOk c i hl
        have hi : i < rp.rcs.length := by
          rcases List.getElem?_eq_some_iff.mp h1 with ⟨hi, _⟩; exact hi
        exact ⟨rc', by rw [List.getElem?_append_left hi]; exact h1, h2⟩
    rcSel := by
      intro i rc' hg
      rcases hget i rc' hg with ⟨hi, hg'⟩ | ⟨hi, hrc⟩
      · have h1 := w.rcSel i rc' hg'
        simp only [Repo.addRC]
        have : rc'.commit ≠ rc.commit := by
          intro heq; rw [heq] at h1; simp only at h1 hsel; rw [hsel] at h1; cases h1
        rw [lookup_cons_ne _ _ _ _ this]; exact h1
      · subst hrc; subst hi; simp only [Repo.addRC]; rw [lookup_cons_self]
    rcPar := by
      intro i rc' hg p hp
      rcases hget i rc' hg with ⟨_, hg'⟩ | ⟨hi, hrc⟩
      · exact w.rcPar i rc' hg' p hp
      · subst hrc; subst hi; exact hpar p hp
    rcExp := by
      intro i rc' hg
      rcases hget i rc' hg with ⟨_, hg'⟩ | ⟨_, hrc⟩
      · exact w.rcExp i rc' hg'
      · subst hrc; exact hexp
    visLt := by
      intro c fr hl r hr
      have := w.visLt c fr hl r hr
      rw [hlen]; simp only at this; omega
    bldLt := by
      intro b hb
      have := w.bldLt b hb
      rw [hlen]; simp only at this; omega
    prevLt := by
      intro i hi
      have := w.prevLt i hi
      rw [hlen]; simp only at this; omega
    curIff := w.curIff
    keyOk := by
      intro k hk
      have := w.keyOk k hk
      rw [hlen]; simp only at this ⊢
      exact ⟨by omega, this.2⟩
    ancKeys := w.ancKeys
    lstOk := w.lstOk
    lstDisj := w.lstDisj
    bldInc := w.bldInc
    ancLt := by
      intro k hk
      have := w.ancLt k hk
      rw [hlen]; simp only at this; omega
    curInc := w.curInc }

/-- `rcommits_bparents` after `findNew` -/
theorem WF.setBpar {rp : Repo β} {br : Br} (w : WF h ⟨rp, br⟩) {heads : List Nat}
    {bpar : List (Nat × List Nat)} {new : List Nat} (hs : FindSpec rp br.bparents heads bpar new)
    (bnMap : List (BN × Nat)) : WF h ⟨rp, { br with bparents := bpar, bnMap := bnMap }⟩ := by
  obtain ⟨e, he, _, hk, _, _⟩ := hs.ext
  have hsub : ∀ k, k ∈ keys br.bparents → k ∈ keys bpar := by
    intro k hk'; rw [he, keys_append]; exact List.mem_append_right _ hk'
  exact
  { selOk := w.selOk, rcSel := w.rcSel, rcPar := w.rcPar, rcExp := w.rcExp, visLt := w.visLt, bldLt := w.bldLt,
    prevLt := w.prevLt, curIff := w.curIff, ancKeys := w.ancKeys, lstDisj := w.lstDisj, bldInc := w.bldInc,
    ancLt := w.ancLt, curInc := w.curInc
    keyOk := by
      intro k hk'
      simp only at hk' ⊢
      rw [he, keys_append] at hk'
      rcases List.mem_append.mp hk' with hk' | hk'
      · obtain ⟨_, h2, _, rc, h4, _⟩ := hk k hk'
        refine ⟨?_, h2⟩
        rcases List.getElem?_eq_some_iff.mp h4 with ⟨hi, _⟩; exact hi
      · exact w.keyOk k hk'
    lstOk := by
      intro b hb hc
      obtain ⟨h1, h2⟩ := w.lstOk b hb hc
      refine ⟨h1, fun r hr => ?_⟩
      rcases h2 r hr with h3 | h3
      · exact Or.inl h3
      · exact Or.inr (hsub r h3) }

theorem isCurBuild_push (rp : Repo β) (b : RB β) (hprev : b.iid ∉ rp.prevBuilds) (i : Nat) :
    isCurBuild { rp with builds := rp.builds ++ [b] } i = (isCurBuild rp i || i == b.iid) := by
  simp only [isCurBuild, List.any_append, List.any_cons, List.any_nil, Bool.or_false]
  by_cases hi : i = b.iid
  · subst hi
    simp [hprev]
  · have h1 : (b.iid == i) = false := by simpa using (fun h => hi h.symm)
    have h2 : (i == b.iid) = false := by simpa using hi
    simp [h1, h2]

/-- a new build of the current branch (its `RCommit` is the last one created) -/
theorem WF.pushBuild {rp : Repo β} {br : Br} (w : WF h ⟨rp, br⟩) (b : RB β) (na : List Nat)
    (bnMap : List (BN × Nat))
    (hiid : b.iid < rp.rcs.length)
    (hold : ∀ b' ∈ rp.builds, b'.iid < b.iid) (hprev : ∀ i ∈ rp.prevBuilds, i < b.iid)
    (hkeys : ∀ k ∈ keys br.bparents, k < b.iid)
    (hnd : b.rcommits.Nodup) (hcov : ∀ r ∈ b.rcommits, r = b.iid ∨ r ∈ keys br.bparents)
    (hdisj : ∀ a ∈ rp.builds, isCurBuild rp a.iid = true → ∀ r ∈ a.rcommits, r ∉ b.rcommits) :
    WF h ⟨{ rp with builds := rp.builds ++ [b] },
          { bparents := br.bparents, anc := (b.iid, na) :: br.anc, cur := br.cur ++ [b.iid], bnMap := bnMap }⟩ := by
  have hnp : b.iid ∉ rp.prevBuilds := fun hm => by have := hprev _ hm; omega
  have hcur := isCurBuild_push rp b hnp
  have hcur_old : ∀ a ∈ rp.builds, isCurBuild { rp with builds := rp.builds ++ [b] } a.iid = isCurBuild rp a.iid := by
    intro a ha
    rw [hcur]
    have : a.iid ≠ b.iid := by have := hold a ha; omega
    have : (a.iid == b.iid) = false := by simpa using this
    simp [this]
  exact
  { selOk := w.selOk, rcSel := w.rcSel, rcPar := w.rcPar, rcExp := w.rcExp, visLt := w.visLt, prevLt := w.prevLt
    bldLt := by
      intro b' hb'
      rcases List.mem_append.mp hb' with hb' | hb'
      · exact w.bldLt b' hb'
      · simp at hb'; subst hb'; exact hiid
    curIff := by
      intro i
      simp only [List.mem_append, List.mem_singleton]
      rw [hcur, Bool.or_eq_true, ← w.curIff i]
      simp
    keyOk := by
      intro k hk
      obtain ⟨h1, h2⟩ := w.keyOk k hk
      refine ⟨h1, ?_⟩
      rw [hcur]
      simp only at h2
      have : k ≠ b.iid := by have := hkeys k hk; omega
      have : (k == b.iid) = false := by simpa using this
      simp [h2, this]
    ancKeys := by
      intro i hi
      simp only [keys_cons]
      rcases List.mem_append.mp hi with hi | hi
      · exact List.mem_cons_of_mem _ (w.ancKeys i hi)
      · simp at hi; subst hi; exact List.mem_cons_self
    lstOk := by
      intro b' hb' hc
      rcases List.mem_append.mp hb' with hb' | hb'
      · rw [hcur_old b' hb'] at hc
        exact w.lstOk b' hb' hc
      · simp at hb'; subst hb'; exact ⟨hnd, hcov⟩
    lstDisj := by
      intro a ha b' hb' h1 h2 hne r hr hr'
      rcases List.mem_append.mp ha with ha1 | ha1
      · rw [hcur_old a ha1] at h1
        rcases List.mem_append.mp hb' with hb1 | hb1
        · rw [hcur_old b' hb1] at h2
          exact w.lstDisj a ha1 b' hb1 h1 h2 hne r hr hr'
        · have hb1 : b' = b := by simpa using hb1
          rw [hb1] at hr'
          exact hdisj a ha1 h1 r hr hr'
      · have ha1 : a = b := by simpa using ha1
        rcases List.mem_append.mp hb' with hb1 | hb1
        · rw [hcur_old b' hb1] at h2
          rw [ha1] at hr
          exact hdisj b' hb1 h2 r hr' hr
        · have hb1 : b' = b := by simpa using hb1
          exact hne (by rw [ha1, hb1])
    bldInc := by
      simp only [iids, List.map_append, List.map_cons, List.map_nil]
      rw [List.pairwise_append]
      refine ⟨w.bldInc, by simp, ?_⟩
      intro x hx y hy
      simp at hy; subst hy
      obtain ⟨a, ha, rfl⟩ := List.mem_map.mp hx
      exact hold a ha
    ancLt := by
      intro k hk
      simp only [keys_cons] at hk
      rcases List.mem_cons.mp hk with hk | hk
      · subst hk; exact hiid
      · exact w.ancLt k hk
    curInc := by
      simp only
      rw [List.pairwise_append]
      refine ⟨w.curInc, by simp, ?_⟩
      intro x hx y hy
      simp at hy; subst hy
      have hc := (w.curIff x).mp hx
      simp only [isCurBuild, Bool.and_eq_true, List.any_eq_true] at hc
      obtain ⟨⟨b', hb', he⟩, _⟩ := hc
      have : b'.iid = x := by simpa using he
      rw [← this]; exact hold b' hb' }


theorem Hist.isMatch_of_get {h : Hist π} {c : Nat} {cm : Commit π} (hcm : h.commits[c]? = some cm) :
    h.isMatch c = cm.isMatch := by
  simp [Hist.isMatch, hcm]

/-- `finish` preserves well-formedness; report commits are only appended -/
theorem finish_wf {pl : Plug π β} {head : Nat} {st st' : St β} {c : Nat} {cm : Commit π} {fr : List Nat}
    (w : WF h st) (hfr : ∀ r ∈ fr, r < st.rp.rcs.length) (hcl : classify st.rp c = none)
    (hcm : h.commits[c]? = some cm) {rel : List Nat} (hf : finish pl head rel st c cm fr = .ok st') :
    WF h st' ∧ st.rp.rcs.length ≤ st'.rp.rcs.length := by
  obtain ⟨rp, br⟩ := st
  have hsel := selected_none_of_classify hcl
  cases finish_cases hf with
  | irrelevant => exact ⟨w.addDone c, Nat.le_refl _⟩
  | plain =>
    refine ⟨w.addPlain c fr hfr, ?_⟩
    simp only [Repo.addPlain]; split <;> exact Nat.le_refl _
  | plainMatch _ _ hm =>
    refine ⟨w.addRC _ hsel hfr ?_, by simp [Repo.addRC]⟩
    simp only [Hist.isMatch_of_get hcm, hm]
  | skip bpar new pb pbs bumps _ _ hfn =>
    have hs := findNew_spec w.rcPar hfn
    have w1 := w.setBpar hs (pb.foldl (fun m rb => setAll (buildNums cm (c == head)) rb m) br.bnMap)
    refine ⟨WF.addPlain w1 c fr hfr, ?_⟩
    simp only [St.skipBuild, Repo.addPlain]; split <;> exact Nat.le_refl _
  | build bpar new pb pbs bumps bn na _ hfn =>
    have hs := findNew_spec w.rcPar hfn
    let rc : RC := { commit := c, parents := fr, explicit := cm.isMatch, bns := buildNums cm (c == head), time := cm.time }
    let bnMap := setAll rc.bns rp.rcs.length br.bnMap
    have w1 := w.setBpar hs bnMap
    have w2 := WF.addRC w1 rc hsel hfr (by simp only [rc, Hist.isMatch_of_get hcm])
    obtain ⟨e, he, _, hk, hnn, hnew⟩ := hs.ext
    have hnewk : ∀ r ∈ new, r ∈ keys e := fun r hr => ((hnew r).mp hr).1
    have hnewlt : ∀ r ∈ new, r < rp.rcs.length := by
      intro r hr
      obtain ⟨_, _, _, rc', h4, _⟩ := hk r (hnewk r hr)
      rcases List.getElem?_eq_some_iff.mp h4 with ⟨hi, _⟩; exact hi
    let b : RB β := { iid := rp.rcs.length, rcommit := some rp.rcs.length, parents := pb,
                      rcommits := new ++ [rp.rcs.length], bumps := bumps, bn := bn }
    have w3 := WF.pushBuild w2 b na bnMap
      (by simp [b, Repo.addRC])
      (fun b' hb' => w.bldLt b' hb')
      (fun i hi => w.prevLt i hi)
      (fun k hk' => (w1.keyOk k hk').1)
      (by
        simp only [b]
        rw [List.nodup_append]
        refine ⟨hnn, by simp, ?_⟩
        intro x hx y hy
        simp at hy; subst hy
        have := hnewlt x hx; omega)
      (by
        intro r hr
        simp only [b] at hr ⊢
        rcases List.mem_append.mp hr with hr | hr
        · right; rw [he, keys_append]; exact List.mem_append_left _ (hnewk r hr)
        · simp at hr; exact Or.inl hr)
      (by
        intro a ha hca r hr hrb
        simp only [b] at hrb
        obtain ⟨_, hcov⟩ := w.lstOk a ha hca
        rcases List.mem_append.mp hrb with hrb | hrb
        · obtain ⟨h1, h2, _⟩ := hk r (hnewk r hrb)
          rcases hcov r hr with h3 | h3
          · have hca' : isCurBuild rp a.iid = true := hca
            rw [h3, hca'] at h2; cases h2
          · exact h1 h3
        · simp at hrb
          rcases hcov r hr with h3 | h3
          · have := w.bldLt a ha; simp only at this; omega
          · have := (w.keyOk r h3).1; simp only at this; omega)
    exact ⟨w3, by simp [St.addBuild, Repo.addRC]⟩

theorem mem_addNew (acc l : List Nat) (r : Nat) : r ∈ addNew acc l ↔ r ∈ acc ∨ r ∈ l := by
  unfold addNew
  induction l generalizing acc with
  | nil => simp
  | cons a l ih =>
    rw [List.foldl_cons, ih]
    by_cases ha : acc.contains a = true
    · simp only [ha, if_true, List.mem_cons]
      have : a ∈ acc := by simpa using ha
      constructor
      · rintro (h1 | h1)
        · exact Or.inl h1
        · exact Or.inr (Or.inr h1)
      · rintro (h1 | h1 | h1)
        · exact Or.inl h1
        · subst h1; exact Or.inl this
        · exact Or.inr h1
    · have ha' : acc.contains a = false := by simpa using ha
      simp only [ha', Bool.false_eq_true, if_false, List.mem_append, List.mem_cons, List.not_mem_nil, or_false]
      constructor
      · rintro ((h1 | h1) | h1)
        · exact Or.inl h1
        · exact Or.inr (Or.inl h1)
        · exact Or.inr (Or.inr h1)
      · rintro (h1 | h1 | h1)
        · exact Or.inl (Or.inl h1)
        · exact Or.inl (Or.inr h1)
        · exact Or.inr h1

/-- the report commits a classified commit contributes to its child's `rc_parents` -/
def clsList : Cls → List Nat
  | .done => []
  | .visited fr => fr
  | .selected i => [i]

theorem mem_addCls (acc : List Nat) (cl : Cls) (r : Nat) : r ∈ addCls acc cl ↔ r ∈ acc ∨ r ∈ clsList cl := by
  cases cl with
  | done => simp [addCls, clsList]
  | visited fr => simp [addCls, clsList, mem_addNew]
  | selected i => simp [addCls, clsList]

theorem classify_cases {rp : Repo β} {c : Nat} {cl : Cls} (hc : classify rp c = some cl) :
    (cl = .done ∧ c ∈ rp.done) ∨
    (∃ fr, cl = .visited fr ∧ c ∉ rp.done ∧ rp.visited.lookup c = some fr) ∨
    (∃ i, cl = .selected i ∧ c ∉ rp.done ∧ rp.visited.lookup c = none ∧ rp.selected.lookup c = some i) := by
  unfold classify at hc
  split at hc
  · rename_i hd
    cases hc; exact Or.inl ⟨rfl, by simpa using hd⟩
  · rename_i hd
    have hd : c ∉ rp.done := by simpa using hd
    split at hc
    · rename_i fr hv
      cases hc; exact Or.inr (Or.inl ⟨fr, rfl, hd, hv⟩)
    · rename_i hv
      split at hc
      · rename_i i hs
        cases hc; exact Or.inr (Or.inr ⟨i, rfl, hd, hv, hs⟩)
      · cases hc

theorem WF.cls_lt {st : St β} (w : WF h st) {c : Nat} {cl : Cls} (hc : classify st.rp c = some cl) :
    ∀ r ∈ clsList cl, r < st.rp.rcs.length := by
  intro r hr
  rcases classify_cases hc with ⟨rfl, _⟩ | ⟨fr, rfl, _, hv⟩ | ⟨i, rfl, _, _, hs⟩
  · simp [clsList] at hr
  · exact w.visLt c fr hv r hr
  · simp only [clsList, List.mem_singleton] at hr; subst hr
    obtain ⟨rc, h1, _⟩ := w.selOk c _ hs
    rcases List.getElem?_eq_some_iff.mp h1 with ⟨hi, _⟩; exact hi

theorem wf_hyps (h : Hist π) (pl : Plug π β) (head : Nat) :
    VisitHyps h pl head (WF h) (fun s _ acc => ∀ r ∈ acc, r < s.rp.rcs.length)
      (fun s s' => s.rp.rcs.length ≤ s'.rp.rcs.length) (fun _ => True) where
  Rrefl := fun _ => Nat.le_refl _
  Rtrans := fun h1 h2 => Nat.le_trans h1 h2
  Qmono := by
    intro s s' _ acc _ _ hR hQ r hr
    have := hQ r hr; omega
  Qnil := by intro s _ r hr; simp at hr
  Qcls := by
    intro s _ acc c cl hP hQ _ hc r hr
    rcases (mem_addCls acc cl r).mp hr with hr | hr
    · exact hQ r hr
    · exact hP.cls_lt hc r hr
  Vstep := fun _ _ _ => trivial
  Hfin := by
    intro rel s c cm fr s' hP _ hcl hcm hQ hf
    exact finish_wf hP hQ hcl hcm hf

theorem visit_wf {h : Hist π} (hT : h.Topo) {pl : Plug π β} {head : Nat} {fuel : Nat} {s s' : St β}
    {acc acc' : List Nat} {c : Nat} (w : WF h s) (hacc : ∀ r ∈ acc, r < s.rp.rcs.length)
    {rel : List Nat} (hv : visit h pl head fuel rel (s, acc) c = .ok (s', acc')) :
    WF h s' ∧ (∀ r ∈ acc', r < s'.rp.rcs.length) ∧ s.rp.rcs.length ≤ s'.rp.rcs.length :=
  visit_ind hT (wf_hyps h pl head) fuel s [] acc c s' acc' w hacc trivial hv

end

end Ghist
