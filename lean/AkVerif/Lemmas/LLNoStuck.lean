import AkVerif.Lemmas.LLTermTop
/-!
C03: the parse loop never reaches one of the places where Python would raise `IndexError`
(`tokens[cur]` behind the end, `prod_rs[cur_prod_id]`, an empty stack, the final `assert`):
`run … ≠ .error .indexError`.  Together with `run_terminates`: `parse` returns a tree or raises
`ParsingError` on every input.
-/
set_option linter.unusedSectionVars false
namespace LL
open Ak

section NoStuck
variable {σ : Type} [DecidableEq σ]

theorem run_error_cases {G : Cfg σ} {toks : List (Tok σ)} :
    ∀ (fuel : Nat) (st : List (Frame σ)) (e : Err), run G toks fuel st = .error e →
      e = .outOfFuel ∨ e = .parsingError ∨ e = .indexError
  | 0, _, e, h => by simp [run] at h; exact Or.inl h.symm
  | fuel + 1, st, e, h => by
    unfold run at h
    split at h
    · exact run_error_cases fuel _ e h
    · simp at h
    · simp at h; exact Or.inr (Or.inl h.symm)
    · simp at h; exact Or.inr (Or.inr h.symm)


/-- what the argument needs to know about the grammar and the token list -/
structure NSHyp (C : TCtx σ) (init start endS : σ) : Prop where
  bottomRule : C.P.prods init = [[start, endS]]
  endTerm : C.G.isTerm endS = true
  startNT : C.G.isTerm start = false
  endNotSuffix : C.G.isSuffix endS = false
  noInit : ∀ X p, p ∈ C.P.prods X → init ∉ p
  endOnly : ∀ X p, X ≠ init → p ∈ C.P.prods X → endS ∉ p
  toksEnd : ∃ body v, C.toks = body ++ [⟨endS, v⟩]

/-- the cursor of every frame is inside the token list, except for the completed bottom frame -/
def CurOK (C : TCtx σ) : List (Frame σ) → Prop
  | [] => True
  | [b] => b.cur < C.toks.length ∨ b.vals.length = 2
  | f :: g :: rest => f.cur < C.toks.length ∧ CurOK C (g :: rest)

theorem CurOK_tail {C : TCtx σ} {f g : Frame σ} {rest : List (Frame σ)} (h : CurOK C (f :: g :: rest)) :
    CurOK C (g :: rest) := h.2

theorem CurOK_top_lt {C : TCtx σ} {f g : Frame σ} {rest : List (Frame σ)} (h : CurOK C (f :: g :: rest)) :
    f.cur < C.toks.length := h.1

theorem CurOK_cons {C : TCtx σ} {f : Frame σ} {rest : List (Frame σ)} (hf : f.cur < C.toks.length)
    (hr : CurOK C rest) (hne : rest ≠ []) : CurOK C (f :: rest) := by
  cases rest with
  | nil => exact absurd rfl hne
  | cons g r => exact ⟨hf, hr⟩

theorem CurOK_replace_lt {C : TCtx σ} {f f' : Frame σ} {rest : List (Frame σ)} (h : CurOK C (f :: rest))
    (hf : f'.cur < C.toks.length) : CurOK C (f' :: rest) := by
  cases rest with
  | nil => exact Or.inl hf
  | cons g r => exact ⟨hf, h.2⟩

theorem backtrack_ne_stuck (st : List (Frame σ)) : backtrack st ≠ .stuck := by
  induction st with
  | nil => simp [backtrack]
  | cons a l ih => unfold backtrack; split <;> simp_all

abbrev nsKey (init start endS : σ) : σ × Nat × List (List σ) := (init, 0, [[start, endS]])

theorem bot_single {k : σ × Nat × List (List σ)} {b : Frame σ} (h : Bot k [b]) : botKey b = k := by
  simpa [Bot] using h

theorem ns_backtrack {C : TCtx σ} {init start endS : σ} : ∀ (st st' : List (Frame σ)), TStack C st →
    Bot (nsKey init start endS) st → CurOK C st → backtrack st = .cont st' → CurOK C st'
  | [], _, h, _, _, _ => h.elim
  | f :: rest, st', h, hb, hc, hbt => by
    rw [backtrack_cons] at hbt
    split at hbt
    · rename_i hlt
      injection hbt with hbt
      subst hbt
      cases rest with
      | nil =>
        exfalso
        have := bot_single hb
        have ha : f.alts = [[start, endS]] := congrArg (·.2.2) this
        rw [ha] at hlt
        simp at hlt
      | cons g r =>
        obtain ⟨prod, hf⟩ := TStack_top h
        have := CurOK_top_lt hc
        exact ⟨by simp only [nextAlt]; have := hf.le; omega, hc.2⟩
    · cases rest with
      | nil => simp [backtrack] at hbt
      | cons g r => exact ns_backtrack (g :: r) st' h.2.2 (bot_pop hb) hc.2 hbt

theorem last_tok {C : TCtx σ} {init start endS : σ} (hH : NSHyp C init start endS) {i : Nat} {tok : Tok σ}
    (h : C.toks[i]? = some tok) (hi : i + 1 = C.toks.length) : tok.name = endS := by
  obtain ⟨body, v, hb⟩ := hH.toksEnd
  rw [hb] at h hi
  simp only [List.length_append, List.length_cons, List.length_nil] at hi
  have : i = body.length := by omega
  subst this
  simp at h
  rw [← h]

theorem ns_step_cont {C : TCtx σ} {init start endS : σ} (hH : NSHyp C init start endS)
    (st st' : List (Frame σ)) (h : TStack C st) (hb : Bot (nsKey init start endS) st) (hc : CurOK C st)
    (hs : step C.G C.toks st = .cont st') : CurOK C st' := by
  cases st with
  | nil => exact h.elim
  | cons top rest =>
    obtain ⟨prod, hf⟩ := TStack_top h
    unfold step at hs
    simp only [hf.cur] at hs
    split at hs
    · -- production complete
      cases rest with
      | nil =>
        simp only [Tree.children] at hs
        split at hs <;> simp at hs
      | cons parent rest' =>
        simp only at hs
        injection hs with hs
        subst hs
        exact CurOK_replace_lt hc.2 (by simpa using hc.1)
    · rename_i hlen
      split at hs
      · rename_i c tok hcs htok
        have hcurlt : top.cur < C.toks.length := by
          rcases Nat.lt_or_ge top.cur C.toks.length with h' | h'
          · exact h'
          · simp [List.getElem?_eq_none h'] at htok
        split at hs
        · rename_i hterm
          split at hs
          · -- terminal matched
            rename_i hname
            injection hs with hs
            subst hs
            cases rest with
            | nil =>
              -- the bottom frame matches `$END$` as its second symbol
              have hk := bot_single hb
              have ha : top.alts = [[start, endS]] := congrArg (·.2.2) hk
              have hp : prod = [start, endS] := by
                have := List.mem_of_getElem? hf.cur
                rw [ha] at this
                simpa using this
              subst hp
              right
              match hv : top.vals.length, hcs with
              | 0, hcs =>
                simp at hcs; subst hcs
                rw [hH.startNT] at hterm; cases hterm
              | 1, _ => simp [hv]
              | k + 2, hcs => simp at hcs
            | cons g r =>
              refine ⟨?_, hc.2⟩
              simp only
              -- `c` is not `$END$`, so the matched token is not the last one
              obtain ⟨gprod, hg1, hg2, _, _⟩ := h.2.1
              obtain ⟨gprod', hgf⟩ := TStack_top h.2.2
              have hpe : gprod' = gprod := by
                have := hgf.cur; rw [hg1] at this; injection this with this; exact this.symm
              subst hpe
              have hsym : top.sym ≠ init := by
                intro e
                have := hH.noInit g.sym gprod' (hgf.alts _ (List.mem_of_getElem? hgf.cur))
                exact this (e ▸ List.mem_of_getElem? hg2)
              have hcne : c ≠ endS := by
                intro e
                have := hH.endOnly top.sym prod hsym (hf.alts _ (List.mem_of_getElem? hf.cur))
                exact this (e ▸ List.mem_of_getElem? hcs)
              rcases Nat.lt_or_ge (top.cur + 1) C.toks.length with h' | h'
              · exact h'
              · exfalso
                have := last_tok hH htok (by omega)
                exact hcne (hname ▸ this)
          · exact ns_backtrack _ _ h hb hc hs
        · split at hs
          · injection hs with hs
            subst hs
            exact CurOK_cons (by simpa using hcurlt) hc (by simp)
          · exact ns_backtrack _ _ h hb hc hs
      · simp at hs

theorem ns_step_not_stuck {C : TCtx σ} {init start endS : σ} (hH : NSHyp C init start endS)
    (st : List (Frame σ)) (h : TStack C st) (hb : Bot (nsKey init start endS) st) (hc : CurOK C st) :
    step C.G C.toks st ≠ .stuck := by
  cases st with
  | nil => exact h.elim
  | cons top rest =>
    obtain ⟨prod, hf⟩ := TStack_top h
    unfold step
    simp only [hf.cur]
    split
    · rename_i hlen
      cases rest with
      | nil =>
        have hk := bot_single hb
        have ha : top.alts = [[start, endS]] := congrArg (·.2.2) hk
        have hp : prod = [start, endS] := by
          have := List.mem_of_getElem? hf.cur
          rw [ha] at this
          simpa using this
        subst hp
        simp only [Tree.children]
        have hv : top.vals.length = 2 := by simpa using hlen
        match hvals : top.vals, hv with
        | [a, b], _ =>
          simp [splice, hH.endNotSuffix]
      | cons parent rest' => simp
    · rename_i hlen
      have hlt : top.vals.length < prod.length := by have := hf.len; omega
      have hcs : prod[top.vals.length]? = some (prod[top.vals.length]'hlt) := List.getElem?_eq_getElem hlt
      have hcur : top.cur < C.toks.length := by
        cases rest with
        | nil =>
          rcases hc with hc | hc
          · exact hc
          · exfalso
            have hk := bot_single hb
            have ha : top.alts = [[start, endS]] := congrArg (·.2.2) hk
            have hp : prod = [start, endS] := by
              have := List.mem_of_getElem? hf.cur
              rw [ha] at this
              simpa using this
            subst hp
            simp at hlen; omega
        | cons g r => exact hc.1
      have htok : C.toks[top.cur]? = some (C.toks[top.cur]'hcur) := List.getElem?_eq_getElem hcur
      rw [hcs, htok]
      simp only
      split
      · split
        · simp
        · exact backtrack_ne_stuck _
      · split
        · simp
        · exact backtrack_ne_stuck _

theorem run_no_stuck {C : TCtx σ} {init start endS : σ} (hC : TCtxOK C) (hH : NSHyp C init start endS) :
    ∀ (fuel : Nat) (st : List (Frame σ)), TStack C st → Bot (nsKey init start endS) st → CurOK C st →
      run C.G C.toks fuel st ≠ .error .indexError
  | 0, _, _, _, _ => by simp [run]
  | fuel + 1, st, h, hb, hc => by
    unfold run
    cases hs : step C.G C.toks st with
    | cont st' =>
      simp only
      exact run_no_stuck hC hH fuel st' (tstep hC _ _ h hs) (bot_step _ _ hb hs) (ns_step_cont hH _ _ h hb hc hs)
    | done t => simp
    | fail => simp
    | stuck => exact absurd hs (ns_step_not_stuck hH st h hb hc)

end NoStuck

/-- C03 (no `IndexError`), composed for the constructed parser -/
theorem parse_no_stuck_of_built {P : Parser} (hB : Core P)
    (hnd : (P.prods.map (·.1)).Nodup) (hsuf : endSym ∉ P.suffix)
    (raw : List (List Char × List Char)) (fuel : Nat) : P.parse raw fuel ≠ .error .indexError := by
  have h1 := hB.hV
  have hendT : endSym ∈ P.terminals := hB.hendT
  obtain ⟨rank, hC⟩ := tctxOK_of_built hB hnd
  let C := tctxOf P rank (P.tokens raw)
  have hH : NSHyp C startSym P.start endSym := by
    refine { bottomRule := by simp [C, tctxOf, extGram], endTerm := by simp [C, tctxOf, Parser.cfg, cfgOf, hendT],
             startNT := ?_, endNotSuffix := by simp [C, tctxOf, Parser.cfg, cfgOf, hsuf], noInit := ?_,
             endOnly := ?_, toksEnd := ⟨_, [], rfl⟩ }
    · have := h1.disjoint _ h1.startKey
      simp [C, tctxOf, Parser.cfg, cfgOf, this]
    · intro X p hp
      by_cases hX : X = startSym
      · subst hX
        simp only [C, tctxOf, extGram, if_true, List.mem_singleton] at hp
        subst hp
        simp only [List.mem_cons, List.not_mem_nil, or_false, not_or]
        exact ⟨fun e => start_ne_init h1 e.symm, fun e => end_ne_init e.symm⟩
      · simp only [C, tctxOf, extGram, hX, if_false] at hp
        obtain ⟨rules, hm, r, hr, hrp⟩ := mem_gramRules.1 hp
        subst hrp
        intro hin
        exact h1.initNoSym (mem_psyms.2 ⟨X, rules, hm, r, hr, hin⟩)
    · intro X p hX hp
      simp only [C, tctxOf, extGram, hX, if_false] at hp
      obtain ⟨rules, hm, r, hr, hrp⟩ := mem_gramRules.1 hp
      subst hrp
      intro hin
      exact h1.endNoSym (mem_psyms.2 ⟨X, rules, hm, r, hr, hin⟩)
  have hinit : CurOK C (initStack startSym P.start endSym) := by
    left
    simp [initStack, C, tctxOf, Parser.tokens]
  exact run_no_stuck (hC _) hH fuel _ (tstack_init rank _) rfl hinit

end LL
